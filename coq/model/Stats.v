(* Stats.v — executable model of supvisors/statscompiler.py (whole file), property C20.
   Definitions only. Each function names the Python function/method it mirrors.

   Values are PrimFloat.float (bit-exact with CPython floats); I/O counters and pids are Z (Python ints);
   dict keys (interfaces, devices, partitions, identifiers, namespecs) are Z in insertion-ordered alists.
   An exception raised in the middle of a push leaves the Python object partially mutated: every push
   therefore returns the state AFTER the call together with the outcome (no point / point / crash). *)
From Coq Require Import PrimFloat Uint63 FloatOps.
From Sup Require Export Base.

(* ------------------------------------------------------------------ floats *)
Definition f0 : float := 0%float.
Definition f100 : float := 0x1.9p+6%float.     (* 100.0 *)
Definition f128 : float := 0x1p+7%float.       (* 128 (int converted by the division) *)
Definition fadd := PrimFloat.add.
Definition fsub := PrimFloat.sub.
Definition fmul := PrimFloat.mul.
Definition fdivide := PrimFloat.div.

(* Python `a >= b` on floats (False as soon as one side is NaN) *)
Definition fge (a b : float) : bool := PrimFloat.leb b a.
(* Python truth value of a float: False for 0.0 and -0.0 only (NaN is true) *)
Definition f_is_zero (a : float) : bool := PrimFloat.eqb a f0.
Definition f_truth (a : float) : bool := negb (f_is_zero a).

(* bit-level equality (up to the NaN payload, which Python's float.hex() does not show either):
   distinguishes 0.0 from -0.0 and equates NaN with NaN *)
Definition sf_eqb (a b : SpecFloat.spec_float) : bool :=
  match a, b with
  | SpecFloat.S754_zero s1, SpecFloat.S754_zero s2 => Bool.eqb s1 s2
  | SpecFloat.S754_infinity s1, SpecFloat.S754_infinity s2 => Bool.eqb s1 s2
  | SpecFloat.S754_nan, SpecFloat.S754_nan => true
  | SpecFloat.S754_finite s1 m1 e1, SpecFloat.S754_finite s2 m2 e2 =>
      Bool.eqb s1 s2 && Pos.eqb m1 m2 && Z.eqb e1 e2
  | _, _ => false
  end.
Definition fbits_eqb (a b : float) : bool := sf_eqb (Prim2SF a) (Prim2SF b).

Definition f_is_finite (a : float) : bool :=
  match Prim2SF a with
  | SpecFloat.S754_zero _ | SpecFloat.S754_finite _ _ _ => true
  | _ => false
  end.

(* Python `a / b` on floats: ZeroDivisionError (mapped to OtherError, as svenv.crash_kind does) when b == 0 *)
Definition fdiv (a b : float) : result float :=
  if f_is_zero b then Crash OtherError else Ok (fdivide a b).

(* Python int -> float conversion (PyLong_AsDouble): correctly rounded to nearest-even,
   OverflowError (mapped to OtherError) when the result does not fit.
   Below 2^63 `of_uint63` is the correctly rounded conversion; above, the integer is cut to 62 bits with
   the discarded bits OR-ed into the last kept bit (sticky), which rounds identically, then scaled back. *)
Definition z2f_nonneg (z : Z) : float :=
  if Z.ltb z 9223372036854775808 then of_uint63 (Uint63.of_Z z)
  else
    let s := Z.log2 z + 1 - 62 in
    let q := Z.shiftr z s in
    let sticky := if Z.eqb (Z.land z (Z.ones s)) 0 then 0 else 1 in
    Z.ldexp (of_uint63 (Uint63.of_Z (Z.lor q sticky))) s.

Definition z2f (z : Z) : result float :=
  let r := if Z.ltb z 0 then PrimFloat.opp (z2f_nonneg (- z)) else z2f_nonneg z in
  if f_is_finite r then Ok r else Crash OtherError.

(* big integer literals of the generated case files: Z literals are slow to elaborate, primitive
   integers are not.  zu n = n ; zb hi lo = hi * 2^62 + lo *)
Definition zu (n : int) : Z := Uint63.to_Z n.
Definition zb (hi lo : int) : Z := Uint63.to_Z hi * 4611686018427387904 + Uint63.to_Z lo.

(* ------------------------------------------------------------------ pure statistics functions *)
(* the CPU expression of cpu_statistics.
   OLD source (before the fix of F25): `100.0 * work / total` = (100.0 * work) / total *)
Definition cpu_pct_current (work total : float) : float := fdivide (fmul f100 work) total.
(* source since the fix: `100.0 * (work / total)` *)
Definition cpu_pct_fixed (work total : float) : float := fmul f100 (fdivide work total).
(* ONE-LINE SWITCH: the expression used by the model (must follow /repo) *)
Definition cpu_pct : float -> float -> float := cpu_pct_fixed.

Definition jiffies := (float * float)%type.   (* (work, idle) *)

Definition cpu_one_with (pct : float -> float -> float) (latest ref : jiffies) : float :=
  let work := fsub (fst latest) (fst ref) in
  let idle := fsub (snd latest) (snd ref) in
  let total := fadd work idle in
  if f_truth total then pct work total else f0.   (* `else 0` is the int 0; canonicalised to 0.0 *)
Definition cpu_one := cpu_one_with cpu_pct.

(* Python zip: stops at the shortest *)
Fixpoint zip_with {A B C} (f : A -> B -> C) (a : list A) (b : list B) : list C :=
  match a, b with
  | x :: a', y :: b' => f x y :: zip_with f a' b'
  | _, _ => []
  end.

(* cpu_statistics *)
Definition cpu_statistics (latest ref : list jiffies) : list float := zip_with cpu_one latest ref.

(* cpu_process_statistics(latest, ref, host_work) — unused by the classes, kept for completeness *)
Definition cpu_process_statistics (latest ref host_work : float) : result float :=
  fdiv (fmul f100 (fsub latest ref)) host_work.

Definition counters := (Z * Z)%type.          (* (in, out) bytes: Python ints *)

(* one rate: `n_bytes / duration / 128` *)
Definition io_rate (n : Z) (duration : float) : result float :=
  bind (z2f n) (fun x => bind (fdiv x duration) (fun y => Ok (fdivide y f128))).

(* io_statistics: keys of `last` that are also in `ref` and did not wrap, in the order of `last` *)
Fixpoint io_statistics (last ref : alist counters) (duration : float) : result (alist (list float)) :=
  match last with
  | [] => Ok []
  | (k, (lin, lout)) :: r =>
      match aget k ref with
      | Some (rin, rout) =>
          if Z.leb rin lin && Z.leb rout lout then
            bind (io_rate (lin - rin) duration) (fun a =>
            bind (io_rate (lout - rout) duration) (fun b =>
            bind (io_statistics r ref duration) (fun rest => Ok ((k, [a; b]) :: rest))))
          else io_statistics r ref duration
      | None => io_statistics r ref duration
      end
  end.

(* trunc_depth for depth >= 0 (a negative depth pops until IndexError: handled by the callers) *)
Definition trunc_depth {A} (depth : Z) (l : list A) : list A :=
  skipn (length l - Z.to_nat depth) l.
Definition push_trunc {A} (depth : Z) (l : list A) (x : A) : list A := trunc_depth depth (l ++ [x]).

(* ------------------------------------------------------------------ HostStatisticsInstance *)
Record hsample := mkHS {
  s_now : float;
  s_cpu : list jiffies;
  s_mem : float;
  s_net : alist counters;
  s_disk : alist counters;
  s_usage : alist float
}.

(* {key: ([uptimes], [[values] ...])} *)
Definition thist := alist (list float * list (list float)).

Record hinst := mkHI {
  h_period : float;
  h_depth : Z;
  h_ref : option hsample;     (* ref_stats ({} = None) *)
  h_start : float;            (* ref_start_time *)
  h_times : list float;
  h_cpu : list (list float);
  h_mem : list float;
  h_net : thist;
  h_disk : thist;
  h_usage : thist
}.

Definition hinst_init (period : float) (depth : Z) : hinst :=
  mkHI period depth None f0 [] [] [] [] [] [].

(* the point integrated by one push: uptime, cpu, mem, net_io, disk_io, disk_usage *)
Definition hpoint := (float * list float * float * alist (list float) * alist (list float) * alist (list float))%type.

Inductive hout := HNone | HPoint (p : hpoint) | HCrash (k : crash).

(* `for new, lst in zip(new_bytes_list, ref_bytes): lst.append(new); trunc_depth(lst)` *)
Fixpoint upd_vals (depth : Z) (nb : list float) (vals : list (list float)) : list (list float) :=
  match nb, vals with
  | x :: nb', l :: vals' => push_trunc depth l x :: upd_vals depth nb' vals'
  | _, _ => vals
  end.

(* _push_timed_stats *)
Definition push_timed (depth : Z) (uptime : float) (h : thist) (io : alist (list float)) : thist :=
  let kept := flat_map (fun e : Z * (list float * list (list float)) =>
                match aget (fst e) io with
                | None => []
                | Some nb => [(fst e, (push_trunc depth (fst (snd e)) uptime, upd_vals depth nb (snd (snd e))))]
                end) h in
  let fresh := filter (fun e : Z * list float => negb (amem (fst e) h)) io in
  kept ++ map (fun e : Z * list float => (fst e, ([uptime], map (fun x => [x]) (snd e)))) fresh.

(* _push_cpu_stats: `for lst in self.cpu: lst.append(cpu_stats.pop(0))` ; true = IndexError (pop from empty) *)
Fixpoint push_cpu (depth : Z) (lists : list (list float)) (vals : list float) : list (list float) * bool :=
  match lists with
  | [] => ([], false)
  | l :: r =>
      match vals with
      | [] => (l :: r, true)
      | v :: vs => let rc := push_cpu depth r vs in (push_trunc depth l v :: fst rc, snd rc)
      end
  end.

Definition set_ref (h : hinst) (s : hsample) : hinst :=
  mkHI (h_period h) (h_depth h) (Some s) (h_start h) (h_times h) (h_cpu h) (h_mem h)
       (h_net h) (h_disk h) (h_usage h).

(* the gate of push_statistics: `stats['now'] - self.ref_stats['now'] >= self.period` *)
Definition gate (period now ref_now : float) : bool := fge (fsub now ref_now) period.

(* HostStatisticsInstance.integrate *)
Definition host_integrate (h : hinst) (r s : hsample) : result hpoint :=
  let duration := fsub (s_now s) (s_now r) in
  let cpu := cpu_statistics (s_cpu s) (s_cpu r) in
  bind (io_statistics (s_net s) (s_net r) duration) (fun net =>
  bind (io_statistics (s_disk s) (s_disk r) duration) (fun disk =>
  Ok (fsub (s_now s) (h_start h), cpu, s_mem s, net, disk,
      map (fun kv : Z * float => (fst kv, [snd kv])) (s_usage s)))).

(* HostStatisticsInstance.push_statistics *)
Definition host_push (h : hinst) (s : hsample) : hinst * hout :=
  match h_ref h with
  | None =>
      (mkHI (h_period h) (h_depth h) (Some s) (s_now s) (h_times h)
            (map (fun _ => []) (s_cpu s)) (h_mem h)
            (map (fun kv : Z * counters => (fst kv, ([], [[]; []]))) (s_net s))
            (map (fun kv : Z * counters => (fst kv, ([], [[]; []]))) (s_disk s))
            (map (fun kv : Z * float => (fst kv, ([], [[]]))) (s_usage s)),
       HNone)
  | Some r =>
      if gate (h_period h) (s_now s) (s_now r) then
        match host_integrate h r s with
        | Crash k => (h, HCrash k)                       (* raised before any mutation *)
        | Ok (uptime, cpu, mem, net, disk, usage) =>
            let d := h_depth h in
            if Z.ltb d 0 then
              (* _push_times_stats: append, then trunc_depth pops everything and raises IndexError *)
              (mkHI (h_period h) d (h_ref h) (h_start h) [] (h_cpu h) (h_mem h)
                    (h_net h) (h_disk h) (h_usage h), HCrash IndexError)
            else
              let times := push_trunc d (h_times h) uptime in
              let pc := push_cpu d (h_cpu h) cpu in
              if snd pc then
                (* IndexError in _push_cpu_stats: times and the first cpu lists already extended *)
                (mkHI (h_period h) d (h_ref h) (h_start h) times (fst pc) (h_mem h)
                      (h_net h) (h_disk h) (h_usage h), HCrash IndexError)
              else
                (mkHI (h_period h) d (Some s) (h_start h) times (fst pc) (push_trunc d (h_mem h) mem)
                      (push_timed d uptime (h_net h) net)
                      (push_timed d uptime (h_disk h) disk)
                      (push_timed d uptime (h_usage h) usage),
                 HPoint (uptime, cpu, mem, net, disk, usage))
        end
      else (h, HNone)
  end.

Definition hout_is_crash (o : hout) : bool := match o with HCrash _ => true | _ => false end.

(* ------------------------------------------------------------------ HostStatisticsCompiler *)
(* dict comprehension `{period: ... for period in stats_periods}`: one entry per distinct key, first position *)
Fixpoint dedup_periods (seen periods : list float) : list float :=
  match periods with
  | [] => []
  | p :: r => if existsb (PrimFloat.eqb p) seen then dedup_periods seen r
              else p :: dedup_periods (p :: seen) r
  end.

Record hcomp := mkHC {
  hc_periods : list float;             (* options.stats_periods *)
  hc_depth : Z;                        (* options.stats_histo *)
  hc_map : alist (list hinst);         (* instance_map: identifier -> instances in period order *)
  hc_cores : alist Z                   (* nb_cores *)
}.

Definition hcomp_init (periods : list float) (depth : Z) : hcomp := mkHC periods depth [] [].

(* push the sample to the instances in order; stop at the first exception *)
Fixpoint host_push_all (insts : list hinst) (s : hsample) : list hinst * list hout :=
  match insts with
  | [] => ([], [])
  | h :: r =>
      let ho := host_push h s in
      if hout_is_crash (snd ho) then (fst ho :: r, [snd ho])
      else let ro := host_push_all r s in (fst ho :: fst ro, snd ho :: snd ro)
  end.

Definition zlen {A} (l : list A) : Z := Z.of_nat (length l).

(* HostStatisticsCompiler.push_statistics *)
Definition hcomp_push (c : hcomp) (ident : Z) (s : hsample) : hcomp * list hout :=
  let fresh := match aget ident (hc_map c) with
               | Some (_ :: _) => false
               | _ => true                        (* `not host_instance`: missing or empty dict *)
               end in
  let c1 := if fresh
            then mkHC (hc_periods c) (hc_depth c)
                      (aset ident (map (fun p => hinst_init p (hc_depth c)) (dedup_periods [] (hc_periods c)))
                            (hc_map c))
                      (aset ident 1 (hc_cores c))
            else c in
  let insts := match aget ident (hc_map c1) with Some l => l | None => [] end in
  let io := host_push_all insts s in
  let m := aset ident (fst io) (hc_map c1) in
  if existsb hout_is_crash (snd io) then (mkHC (hc_periods c) (hc_depth c) m (hc_cores c1), snd io)
  else
    let nb := zlen (s_cpu s) in
    (mkHC (hc_periods c) (hc_depth c) m (aset ident (if Z.eqb nb 1 then nb else nb - 1) (hc_cores c1)), snd io).

(* ------------------------------------------------------------------ ProcStatisticsInstance *)
Record psample := mkPS {
  ps_namespec : Z;
  ps_pid : Z;
  ps_now : float;
  ps_work : float;
  ps_mem : float;
  ps_cores : option Z            (* 'nb_cores' key, only in supervisord's own stats *)
}.

Record pinst := mkPI {
  p_pid : Z;
  p_period : float;
  p_depth : Z;
  p_ref : option psample;
  p_start : float;
  p_times : list float;
  p_cpu : list float;
  p_mem : list float
}.

Definition pinst_init (pid : Z) (period : float) (depth : Z) : pinst := mkPI pid period depth None f0 [] [] [].

Inductive pout := PNone | PPoint (cpu mem uptime : float) | PCrash (k : crash).
Definition pout_is_crash (o : pout) : bool := match o with PCrash _ => true | _ => false end.

(* ProcStatisticsInstance.push_statistics (with integrate inlined) *)
Definition proc_push (p : pinst) (s : psample) : pinst * pout :=
  match p_ref p with
  | None => (mkPI (p_pid p) (p_period p) (p_depth p) (Some s) (ps_now s) (p_times p) (p_cpu p) (p_mem p), PNone)
  | Some r =>
      if gate (p_period p) (ps_now s) (ps_now r) then
        match fdiv (fsub (ps_work s) (ps_work r)) (fsub (ps_now s) (ps_now r)) with
        | Crash k => (p, PCrash k)
        | Ok proc_cpu =>
            let cpu := fmul f100 proc_cpu in
            let mem := ps_mem s in
            let t := fsub (ps_now s) (p_start p) in
            let d := p_depth p in
            if Z.ltb d 0 then
              (* three appends, then trunc_depth(self.cpu) pops everything and raises IndexError *)
              (mkPI (p_pid p) (p_period p) d (p_ref p) (p_start p) (p_times p ++ [t]) [] (p_mem p ++ [mem]),
               PCrash IndexError)
            else
              (mkPI (p_pid p) (p_period p) d (Some s) (p_start p)
                    (push_trunc d (p_times p) t) (push_trunc d (p_cpu p) cpu) (push_trunc d (p_mem p) mem),
               PPoint cpu mem t)
        end
      else (p, PNone)
  end.

Fixpoint proc_push_all (insts : list pinst) (s : psample) : list pinst * list pout :=
  match insts with
  | [] => ([], [])
  | p :: r =>
      let po := proc_push p s in
      if pout_is_crash (snd po) then (fst po :: r, [snd po])
      else let ro := proc_push_all r s in (fst po :: fst ro, snd po :: snd ro)
  end.

(* ------------------------------------------------------------------ ProcStatisticsHolder *)
(* instance_map: identifier -> (pid, instances in period order) *)
Definition holder := alist (Z * list pinst).

Definition holder_push (periods : list float) (depth : Z) (hd : holder) (ident : Z) (s : psample)
  : holder * list pout :=
  let pid := ps_pid s in
  if Z.eqb pid 0 then (adel ident hd, [])
  else
    let cur := match aget ident hd with Some e => e | None => (0, []) end in
    let restart := match snd cur with [] => true | _ => negb (Z.eqb pid (fst cur)) end in
    let insts := if restart then map (fun per => pinst_init pid per depth) (dedup_periods [] periods)
                 else snd cur in
    let hd1 := if restart then aset ident (pid, insts) hd else hd in
    let cur_pid := if restart then pid else fst cur in
    let io := proc_push_all insts s in
    (aset ident (cur_pid, fst io) hd1, snd io).

(* ------------------------------------------------------------------ ProcStatisticsCompiler *)
Record pcomp := mkPC {
  pc_periods : list float;
  pc_depth : Z;
  pc_holders : alist holder;     (* holder_map: namespec -> holder *)
  pc_cores : alist Z
}.

Definition pcomp_init (periods : list float) (depth : Z) : pcomp := mkPC periods depth [] [].

Definition pcomp_push (c : pcomp) (ident : Z) (s : psample) : pcomp * list pout :=
  let ns := ps_namespec s in
  let existing := aget ns (pc_holders c) in
  let hd_opt := match existing with
                | Some hd => Some hd
                | None => if Z.ltb 0 (ps_pid s) then Some [] else None
                end in
  match hd_opt with
  | None =>
      (mkPC (pc_periods c) (pc_depth c) (pc_holders c)
            (match ps_cores s with Some n => aset ident n (pc_cores c) | None => pc_cores c end), [])
  | Some hd =>
      let ho := holder_push (pc_periods c) (pc_depth c) hd ident s in
      let crashed := existsb pout_is_crash (snd ho) in
      let holders1 := aset ns (fst ho) (pc_holders c) in
      if crashed then (mkPC (pc_periods c) (pc_depth c) holders1 (pc_cores c), snd ho)
      else
        let holders2 := match fst ho with [] => adel ns holders1 | _ => holders1 end in
        (mkPC (pc_periods c) (pc_depth c) holders2
              (match ps_cores s with Some n => aset ident n (pc_cores c) | None => pc_cores c end), snd ho)
  end.

(* ================================================================== observables *)
Definition flist_eqb := list_eqb fbits_eqb.
Definition zlist_eqb := list_eqb Z.eqb.
Definition pair_eqb {A B} (ea : A -> A -> bool) (eb : B -> B -> bool) (x y : A * B) : bool :=
  ea (fst x) (fst y) && eb (snd x) (snd y).
Definition falist_eqb : alist (list float) -> alist (list float) -> bool := list_eqb (pair_eqb Z.eqb flist_eqb).
Definition thist_eqb : thist -> thist -> bool :=
  list_eqb (pair_eqb Z.eqb (pair_eqb flist_eqb (list_eqb flist_eqb))).

Definition hpoint_eqb (a b : hpoint) : bool :=
  match a, b with
  | (u1, c1, m1, n1, d1, g1), (u2, c2, m2, n2, d2, g2) =>
      fbits_eqb u1 u2 && flist_eqb c1 c2 && fbits_eqb m1 m2 && falist_eqb n1 n2 && falist_eqb d1 d2
      && falist_eqb g1 g2
  end.
Definition hout_eqb (a b : hout) : bool :=
  match a, b with
  | HNone, HNone => true
  | HPoint p, HPoint q => hpoint_eqb p q
  | HCrash k1, HCrash k2 => crash_eqb k1 k2
  | _, _ => false
  end.

(* shapes: the lengths of every history list (what `bounded` and `aligned` talk about) *)
Definition tshape := list (Z * (Z * list Z)).      (* key -> (len uptimes, len of each value list) *)
Definition tshape_of (h : thist) : tshape :=
  map (fun e : Z * (list float * list (list float)) => (fst e, (zlen (fst (snd e)), map zlen (snd (snd e))))) h.
(* len times, len mem, len of each cpu list, net, disk, usage *)
Definition hshape := (Z * Z * list Z * tshape * tshape * tshape)%type.
Definition hshape_of (h : hinst) : hshape :=
  (zlen (h_times h), zlen (h_mem h), map zlen (h_cpu h), tshape_of (h_net h), tshape_of (h_disk h),
   tshape_of (h_usage h)).
Definition tshape_eqb : tshape -> tshape -> bool := list_eqb (pair_eqb Z.eqb (pair_eqb Z.eqb zlist_eqb)).
Definition hshape_eqb (a b : hshape) : bool :=
  match a, b with
  | (t1, m1, c1, n1, d1, u1), (t2, m2, c2, n2, d2, u2) =>
      Z.eqb t1 t2 && Z.eqb m1 m2 && zlist_eqb c1 c2 && tshape_eqb n1 n2 && tshape_eqb d1 d2 && tshape_eqb u1 u2
  end.

(* one compiler step: outcome of each instance reached (period order, stops at the exception),
   shapes of all the instances of the pushed identifier, nb_cores of the identifier *)
Definition hstep_obs := (list hout * list hshape * option Z)%type.
Definition hstep_obs_eqb (a b : hstep_obs) : bool :=
  match a, b with
  | (o1, s1, c1), (o2, s2, c2) => list_eqb hout_eqb o1 o2 && list_eqb hshape_eqb s1 s2 && option_eqb Z.eqb c1 c2
  end.

(* full content of one instance: times, cpu, mem, net, disk, usage, ref_stats['now'] *)
Definition hdump := (list float * list (list float) * list float * thist * thist * thist * option float)%type.
Definition hdump_of (h : hinst) : hdump :=
  (h_times h, h_cpu h, h_mem h, h_net h, h_disk h, h_usage h,
   match h_ref h with Some r => Some (s_now r) | None => None end).
Definition hdump_eqb (a b : hdump) : bool :=
  match a, b with
  | (t1, c1, m1, n1, d1, u1, r1), (t2, c2, m2, n2, d2, u2, r2) =>
      flist_eqb t1 t2 && list_eqb flist_eqb c1 c2 && flist_eqb m1 m2 && thist_eqb n1 n2 && thist_eqb d1 d2
      && thist_eqb u1 u2 && option_eqb fbits_eqb r1 r2
  end.
Definition hfinal := (alist (list hdump) * alist Z)%type.
Definition hfinal_of (c : hcomp) : hfinal :=
  (map (fun e : Z * list hinst => (fst e, map hdump_of (snd e))) (hc_map c), hc_cores c).
Definition hfinal_eqb (a b : hfinal) : bool :=
  list_eqb (pair_eqb Z.eqb (list_eqb hdump_eqb)) (fst a) (fst b)
  && list_eqb (pair_eqb Z.eqb Z.eqb) (snd a) (snd b).

Definition hstep_obs_of (c : hcomp) (ident : Z) (outs : list hout) : hstep_obs :=
  (outs, map hshape_of (match aget ident (hc_map c) with Some l => l | None => [] end), aget ident (hc_cores c)).

Fixpoint hrun (c : hcomp) (ops : list (Z * hsample)) : list hstep_obs * hcomp :=
  match ops with
  | [] => ([], c)
  | (ident, s) :: r =>
      let co := hcomp_push c ident s in
      let rr := hrun (fst co) r in
      (hstep_obs_of (fst co) ident (snd co) :: fst rr, snd rr)
  end.

(* periods, depth, stream, observed steps, observed final content *)
Definition hcase := (list float * Z * list (Z * hsample) * list hstep_obs * hfinal)%type.

Definition hcase_mismatch (c : hcase) : bool :=
  match c with
  | (periods, depth, ops, steps, final) =>
      let r := hrun (hcomp_init periods depth) ops in
      negb (list_eqb hstep_obs_eqb (fst r) steps && hfinal_eqb (hfinal_of (snd r)) final)
  end.

(* ---------- process side ---------- *)
Definition pout_eqb (a b : pout) : bool :=
  match a, b with
  | PNone, PNone => true
  | PPoint c1 m1 t1, PPoint c2 m2 t2 => fbits_eqb c1 c2 && fbits_eqb m1 m2 && fbits_eqb t1 t2
  | PCrash k1, PCrash k2 => crash_eqb k1 k2
  | _, _ => false
  end.

(* per period: len times, len cpu, len mem *)
Definition pshape := (Z * Z * Z)%type.
Definition pshape_of (p : pinst) : pshape := (zlen (p_times p), zlen (p_cpu p), zlen (p_mem p)).
Definition pshape_eqb (a b : pshape) : bool :=
  match a, b with (t1, c1, m1), (t2, c2, m2) => Z.eqb t1 t2 && Z.eqb c1 c2 && Z.eqb m1 m2 end.
(* namespec -> identifier -> (holder pid, instance pids and shapes) *)
Definition pcshape := alist (alist (Z * list (Z * pshape))).
Definition pcshape_of (c : pcomp) : pcshape :=
  map (fun e : Z * holder =>
         (fst e, map (fun f : Z * (Z * list pinst) =>
                        (fst f, (fst (snd f), map (fun p => (p_pid p, pshape_of p)) (snd (snd f))))) (snd e)))
      (pc_holders c).
Definition pcshape_eqb : pcshape -> pcshape -> bool :=
  list_eqb (pair_eqb Z.eqb (list_eqb (pair_eqb Z.eqb (pair_eqb Z.eqb (list_eqb (pair_eqb Z.eqb pshape_eqb)))))).

Definition pstep_obs := (list pout * pcshape * alist Z)%type.
Definition pstep_obs_eqb (a b : pstep_obs) : bool :=
  match a, b with
  | (o1, s1, c1), (o2, s2, c2) =>
      list_eqb pout_eqb o1 o2 && pcshape_eqb s1 s2 && list_eqb (pair_eqb Z.eqb Z.eqb) c1 c2
  end.

(* times, cpu, mem, ref now *)
Definition pdump := (list float * list float * list float * option float)%type.
Definition pdump_of (p : pinst) : pdump :=
  (p_times p, p_cpu p, p_mem p, match p_ref p with Some r => Some (ps_now r) | None => None end).
Definition pdump_eqb (a b : pdump) : bool :=
  match a, b with
  | (t1, c1, m1, r1), (t2, c2, m2, r2) =>
      flist_eqb t1 t2 && flist_eqb c1 c2 && flist_eqb m1 m2 && option_eqb fbits_eqb r1 r2
  end.
Definition pfinal := alist (alist (list pdump)).
Definition pfinal_of (c : pcomp) : pfinal :=
  map (fun e : Z * holder =>
         (fst e, map (fun f : Z * (Z * list pinst) => (fst f, map pdump_of (snd (snd f)))) (snd e)))
      (pc_holders c).
Definition pfinal_eqb : pfinal -> pfinal -> bool :=
  list_eqb (pair_eqb Z.eqb (list_eqb (pair_eqb Z.eqb (list_eqb pdump_eqb)))).

Fixpoint prun (c : pcomp) (ops : list (Z * psample)) : list pstep_obs * pcomp :=
  match ops with
  | [] => ([], c)
  | (ident, s) :: r =>
      let co := pcomp_push c ident s in
      let rr := prun (fst co) r in
      ((snd co, pcshape_of (fst co), pc_cores (fst co)) :: fst rr, snd rr)
  end.

Definition pcase := (list float * Z * list (Z * psample) * list pstep_obs * pfinal)%type.

Definition pcase_mismatch (c : pcase) : bool :=
  match c with
  | (periods, depth, ops, steps, final) =>
      let r := prun (pcomp_init periods depth) ops in
      negb (list_eqb pstep_obs_eqb (fst r) steps && pfinal_eqb (pfinal_of (snd r)) final)
  end.

(* ---------- pure functions (float arithmetic tie) ---------- *)
Inductive fres := FOk (x : float) | FCrash (k : crash).
Definition fres_of (r : result float) : fres := match r with Ok x => FOk x | Crash k => FCrash k end.
Definition fres_eqb (a b : fres) : bool :=
  match a, b with
  | FOk x, FOk y => fbits_eqb x y
  | FCrash k1, FCrash k2 => crash_eqb k1 k2
  | _, _ => false
  end.

Inductive fcase :=
| FCpu (latest ref : list jiffies) (expected : list float)        (* cpu_statistics *)
| FInt (z : Z) (expected : fres)                                  (* int / 1.0 *)
| FRate (n : Z) (duration : float) (expected : fres)              (* n / duration / 128 *)
| FProcCpu (latest ref host : float) (expected : fres).           (* cpu_process_statistics *)

Definition fcase_mismatch (c : fcase) : bool :=
  negb match c with
       | FCpu l r e => flist_eqb (cpu_statistics l r) e
       | FInt z e => fres_eqb (fres_of (bind (z2f z) (fun x => fdiv x 1%float))) e
       | FRate n d e => fres_eqb (fres_of (io_rate n d)) e
       | FProcCpu l r h e => fres_eqb (fres_of (cpu_process_statistics l r h)) e
       end.

Definition hmismatches (cs : list hcase) : list nat := find_idx hcase_mismatch cs.
Definition pmismatches (cs : list pcase) : list nat := find_idx pcase_mismatch cs.
Definition fmismatches (cs : list fcase) : list nat := find_idx fcase_mismatch cs.

(* ================================================================== Spec_C20
   The property text as executable checks over what can be observed of ANY implementation:
   the outcome of each push and the lengths of the histories afterwards.  The same predicates are the
   vocabulary of the theorems (coq/proofs/StatsProofs.v) and the failing-input oracle (spec_violations). *)

(* "every history ... holds at most stats_histo points" *)
Definition zall (f : Z -> bool) (l : list Z) : bool := forallb f l.
Definition bounded_tshape (depth : Z) (t : tshape) : bool :=
  forallb (fun e : Z * (Z * list Z) => Z.leb (fst (snd e)) depth && zall (fun n => Z.leb n depth) (snd (snd e))) t.
Definition bounded_core (depth : Z) (sh : hshape) : bool :=
  match sh with (t, m, c, _, _, _) => Z.leb t depth && Z.leb m depth && zall (fun n => Z.leb n depth) c end.
Definition bounded_timed (depth : Z) (sh : hshape) : bool :=
  match sh with (_, _, _, n, d, u) => bounded_tshape depth n && bounded_tshape depth d && bounded_tshape depth u end.
Definition bounded_hshape (depth : Z) (sh : hshape) : bool := bounded_core depth sh && bounded_timed depth sh.

(* "the value series of one entity always have exactly as many points as their time series" *)
Definition aligned_tshape (t : tshape) : bool :=
  forallb (fun e : Z * (Z * list Z) => zall (Z.eqb (fst (snd e))) (snd (snd e))) t.
Definition aligned_timed (sh : hshape) : bool :=
  match sh with (_, _, _, n, d, u) => aligned_tshape n && aligned_tshape d && aligned_tshape u end.
Definition aligned_core (sh : hshape) : bool :=
  match sh with (t, m, c, _, _, _) => Z.eqb t m && zall (Z.eqb t) c end.

Definition bounded_pshape (depth : Z) (sh : pshape) : bool :=
  match sh with (t, c, m) => Z.leb t depth && Z.leb c depth && Z.leb m depth end.
Definition aligned_pshape (sh : pshape) : bool :=
  match sh with (t, c, m) => Z.eqb t c && Z.eqb t m end.

(* numbers *)
Definition f_le (a b : float) : bool := PrimFloat.leb a b.
Definition f1 : float := 1%float.
Definition cpu_in_range (v : float) : bool := f_le f0 v && f_le v f100.
(* what the expression `100.0 * work / total` (cpu_statistics before its fix; still the shape of
   cpu_process_statistics) can return outside [0,100] (F25):
   100 + ulp (the product is rounded before the division), and inf / NaN when `100.0 * work` overflows
   (work >= 2^1017; 2^1024 / 100 > 2^1017) *)
Definition cpu_f25 (v work : float) : bool :=
  fbits_eqb v 0x1.9000000000001p+6%float
  || (negb (f_is_finite v) && f_le 0x1p+1017%float work).
Definition rate_sane (v : float) : bool := f_is_finite v && f_le f0 v.
(* "non-decreasing counters": finite, non-negative, latest >= ref on both components *)
Definition counters_ok (latest ref : jiffies) : bool :=
  f_le f0 (fst ref) && f_le (fst ref) (fst latest) && f_is_finite (fst latest)
  && f_le f0 (snd ref) && f_le (snd ref) (snd latest) && f_is_finite (snd latest).

Fixpoint cpu_values_ok (allow_f25 : bool) (vals : list float) (latest ref : list jiffies) : bool :=
  match vals, latest, ref with
  | v :: vs, l :: ls, r :: rs =>
      (if counters_ok l r then cpu_in_range v || (allow_f25 && cpu_f25 v (fsub (fst l) (fst r))) else true)
      && cpu_values_ok allow_f25 vs ls rs
  | _, _, _ => true
  end.

Definition rates_sane (io : alist (list float)) : bool := forallb (fun e : Z * list float => forallb rate_sane (snd e)) io.
(* "a wrapped counter yields no point for that key" *)
Definition wrapped (last ref : alist counters) (k : Z) : bool :=
  match aget k last, aget k ref with
  | Some (li, lo), Some (ri, ro) => negb (Z.leb ri li && Z.leb ro lo)
  | _, _ => false
  end.
Definition no_point_for_wrapped (last ref : alist counters) (io : alist (list float)) : bool :=
  forallb (fun e : Z * list float => negb (wrapped last ref (fst e))) io.

Definition counters_u64 (a : alist counters) : bool :=
  forallb (fun e : Z * counters => Z.leb 0 (fst (snd e)) && Z.ltb (fst (snd e)) 18446744073709551616
                                    && Z.leb 0 (snd (snd e)) && Z.ltb (snd (snd e)) 18446744073709551616) a.

(* spec state of one (identifier, period): the period and the sample of the previous point (or first sample) *)
Definition hspec_inst := (float * option hsample)%type.

(* one instance, one push. in_f24: the stream belongs to the class of F24 (CPU entries shrink).
   Returns (accepted, next spec state). *)
Definition hspec_check (depth : Z) (in_f24 : bool) (si : hspec_inst) (s : hsample) (o : hout)
  : bool * hspec_inst :=
  let period := fst si in
  match o, snd si with
  | HNone, None => (true, (period, Some s))
  | HNone, Some _ => (true, si)
  | HPoint (upt, cpu, mem, net, disk, usage), Some r =>
      (gate period (s_now s) (s_now r)                                  (* period_gate *)
       && cpu_values_ok false cpu (s_cpu s) (s_cpu r)                   (* cpu_in_range, no allowance *)
       && (if f_le f1 period then rates_sane net && rates_sane disk else true)   (* io_rates_sane *)
       && no_point_for_wrapped (s_net s) (s_net r) net
       && no_point_for_wrapped (s_disk s) (s_disk r) disk,
       (period, Some s))
  | HPoint _, None => (false, si)                                       (* a point without a previous sample *)
  | HCrash k, _ =>
      (* no exception under a valid configuration and sane counters, outside the class of F24 *)
      (negb (f_le f1 period && Z.leb 0 depth && counters_u64 (s_net s) && counters_u64 (s_disk s)
             && negb in_f24), si)
  end.

Definition hshape_check (depth : Z) (in_f24 : bool) (sh : hshape) : bool :=
  aligned_timed sh
  && (if Z.leb 1 depth then bounded_hshape depth sh else true)
  && (if in_f24 then true else aligned_core sh).

(* zip the outcomes with the spec instances; instances beyond the outcomes were not reached *)
Fixpoint hspec_insts (depth : Z) (in_f24 : bool) (sis : list hspec_inst) (s : hsample) (outs : list hout)
  : bool * list hspec_inst :=
  match sis, outs with
  | si :: sr, o :: orest =>
      let c := hspec_check depth in_f24 si s o in
      let rr := hspec_insts depth in_f24 sr s orest in
      (fst c && fst rr, snd c :: snd rr)
  | _, _ => (true, sis)
  end.

Definition hspec := alist (list hspec_inst).

Fixpoint hspec_run (periods : list float) (depth : Z) (in_f24 : bool) (sp : hspec)
                   (ops : list (Z * hsample)) (steps : list hstep_obs) : bool :=
  match ops, steps with
  | (ident, s) :: r, (outs, shapes, _) :: rsteps =>
      let sis := match aget ident sp with
                 | Some l => l
                 | None => map (fun p => (p, None)) (dedup_periods [] periods)
                 end in
      let c := hspec_insts depth in_f24 sis s outs in
      fst c && Nat.eqb (length shapes) (length sis)
      && forallb (hshape_check depth in_f24) shapes
      && hspec_run periods depth in_f24 (aset ident (snd c) sp) r rsteps
  | _, _ => true
  end.

(* class of F24: some identifier receives a sample with fewer CPU entries than its first sample *)
Fixpoint in_f24_from (first : alist Z) (ops : list (Z * hsample)) : bool :=
  match ops with
  | [] => false
  | (ident, s) :: r =>
      match aget ident first with
      | None => in_f24_from (aset ident (zlen (s_cpu s)) first) r
      | Some n => Z.ltb (zlen (s_cpu s)) n || in_f24_from first r
      end
  end.
Definition in_f24 (ops : list (Z * hsample)) : bool := in_f24_from [] ops.

Definition hcase_spec_ok (allow_f24 : bool) (c : hcase) : bool :=
  match c with
  | (periods, depth, ops, steps, _) => hspec_run periods depth (allow_f24 && in_f24 ops) [] ops steps
  end.

(* failing inputs outside the known class (a CPU value outside [0,100] is a violation: F25 is fixed) *)
Definition hspec_violations (cs : list hcase) : list nat := find_idx (fun c => negb (hcase_spec_ok true c)) cs.
(* inside the class of F24: accepted with the class allowance, refused without *)
Definition hknown_f24 (cs : list hcase) : list nat :=
  find_idx (fun c => hcase_spec_ok true c && negb (hcase_spec_ok false c)) cs.

(* ---------- process side ---------- *)
Definition pspec_inst := (float * option psample)%type.
(* namespec -> identifier -> (pid, instances) *)
Definition pspec := alist (alist (Z * list pspec_inst)).

Fixpoint pspec_insts (depth : Z) (sis : list pspec_inst) (s : psample) (outs : list pout) : bool * list pspec_inst :=
  match sis, outs with
  | si :: sr, o :: orest =>
      let period := fst si in
      let c := match o, snd si with
               | PNone, None => (true, (period, Some s))
               | PNone, Some _ => (true, si)
               | PPoint _ _ _, Some r => (gate period (ps_now s) (ps_now r), (period, Some s))
               | PPoint _ _ _, None => (false, si)
               | PCrash _, _ => (negb (f_le f1 period && Z.leb 0 depth), si)
               end in
      let rr := pspec_insts depth sr s orest in
      (fst c && fst rr, snd c :: snd rr)
  | _, _ => (true, sis)
  end.

Definition pshapes_ok (depth : Z) (sh : pcshape) : bool :=
  if Z.leb 0 depth then
    forallb (fun e : Z * alist (Z * list (Z * pshape)) =>
      forallb (fun f : Z * (Z * list (Z * pshape)) =>
        forallb (fun p : Z * pshape => bounded_pshape depth (snd p) && aligned_pshape (snd p)) (snd (snd f)))
        (snd e)) sh
  else true.

Definition pshape_entry (sh : pcshape) (ns ident : Z) : option (Z * list (Z * pshape)) :=
  match aget ns sh with Some per => aget ident per | None => None end.

Fixpoint pspec_run (periods : list float) (depth : Z) (sp : pspec) (ops : list (Z * psample))
                   (steps : list pstep_obs) : bool :=
  match ops, steps with
  | (ident, s) :: r, (outs, shape, _) :: rsteps =>
      let ns := ps_namespec s in
      let pid := ps_pid s in
      let per := match aget ns sp with Some l => l | None => [] end in
      if Z.ltb pid 0 then true                                   (* outside the domain: nothing claimed *)
      else if Z.eqb pid 0 then
        (* stopped_process_dropped *)
        match pshape_entry shape ns ident with Some _ => false | None => true end
        && pshapes_ok depth shape
        && pspec_run periods depth (aset ns (adel ident per) sp) r rsteps
      else
        let known := match aget ident per with
                     | Some (pid0, sis) => if Z.eqb pid0 pid then Some sis else None
                     | None => None
                     end in
        match known with
        | None =>
            (* pid_change_resets (and first start): fresh, empty histories under the new pid *)
            let sis := map (fun p => (p, Some s)) (dedup_periods [] periods) in
            match pshape_entry shape ns ident with
            | Some (hpid, insts) =>
                Z.eqb hpid pid && Nat.eqb (length insts) (length sis)
                && forallb (fun p : Z * pshape => Z.eqb (fst p) pid && pshape_eqb (snd p) (0, 0, 0)) insts
            | None => false
            end
            && forallb (fun o => match o with PNone => true | _ => false end) outs
            && pshapes_ok depth shape
            && pspec_run periods depth (aset ns (aset ident (pid, sis) per) sp) r rsteps
        | Some sis =>
            let c := pspec_insts depth sis s outs in
            fst c
            && match pshape_entry shape ns ident with
               | Some (hpid, insts) => Z.eqb hpid pid && Nat.eqb (length insts) (length sis)
               | None => false
               end
            && pshapes_ok depth shape
            && pspec_run periods depth (aset ns (aset ident (pid, snd c) per) sp) r rsteps
        end
  | _, _ => true
  end.

Definition pcase_spec_ok (c : pcase) : bool :=
  match c with (periods, depth, ops, steps, _) => pspec_run periods depth [] ops steps end.
Definition pspec_violations (cs : list pcase) : list nat := find_idx (fun c => negb (pcase_spec_ok c)) cs.

(* ---------- pure functions ---------- *)
(* cpu_process_statistics(latest, ref, host_work): non-decreasing finite process counter whose increase does
   not exceed a finite positive host work *)
Definition proc_counters_ok (latest ref host : float) : bool :=
  f_le f0 ref && f_le ref latest && f_is_finite latest
  && f_le (fsub latest ref) host && f_is_finite host && PrimFloat.ltb f0 host.

(* allow_proc: allowance of the known class of cpu_process_statistics (same expression shape as F25) *)
Definition fcase_spec_ok (allow_proc : bool) (c : fcase) : bool :=
  match c with
  | FCpu l r e => cpu_values_ok false e l r
  | FRate n d e =>
      if Z.leb 0 n && Z.ltb n 18446744073709551616 && f_le f1 d
      then match e with FOk x => rate_sane x | FCrash _ => false end
      else true
  | FProcCpu l r h e =>
      if proc_counters_ok l r h
      then match e with
           | FOk v => cpu_in_range v || (allow_proc && cpu_f25 v (fsub l r))
           | FCrash _ => false
           end
      else true
  | _ => true
  end.
Definition fspec_violations (cs : list fcase) : list nat := find_idx (fun c => negb (fcase_spec_ok true c)) cs.
Definition fknown_proc_cpu (cs : list fcase) : list nat :=
  find_idx (fun c => fcase_spec_ok true c && negb (fcase_spec_ok false c)) cs.
