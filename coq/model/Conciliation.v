(* Conciliation.v — executable model of conflict detection and of the conciliation strategies (C05):
   supvisors/process.py::ProcessStatus.conflicting, supvisors/context.py::Context.conflicting / conflicts,
   supvisors/strategy.py::{Senicide,Infanticide,User,Stop,Restart,Failure}Strategy + conciliate_conflicts,
   the command creation of commander.py::Stopper.stop_process / restart_process (as far as the strategies
   go), and the two _master_next decisions of OperationState / ConciliationState (statemachine.py).
   Definitions only. *)
From Sup Require Export Base.
From Sup Require Import GenEnums GenProc.

(* ConciliationStrategies *)
Inductive cstrat := Senicide | Infanticide | User | Stop | Restart | RunningFailure.

Definition cs_code (s : cstrat) : Z :=
  match s with
  | Senicide => gen_ConciliationStrategies_SENICIDE
  | Infanticide => gen_ConciliationStrategies_INFANTICIDE
  | User => gen_ConciliationStrategies_USER
  | Stop => gen_ConciliationStrategies_STOP
  | Restart => gen_ConciliationStrategies_RESTART
  | RunningFailure => gen_ConciliationStrategies_RUNNING_FAILURE
  end.

(* ---------- the context slice the strategies read ---------- *)
(* one ProcessStatus.
   pv_running : running_identifiers (a Python set) IN THE ORDER THE REAL SET ITERATES (min/max tie-breaking);
   pv_info    : info_map, identifier -> (state code, uptime) ;
   pv_is_running : process.running() (synthetic state in RUNNING_STATES), read by Stopper.restart_process *)
Record pview := mkPv { pv_id : Z; pv_running : list Z; pv_info : alist (Z * Z); pv_is_running : bool }.

(* one ApplicationStatus: rules.managed, processes.values() in dict order *)
Record aview := mkAv { av_managed : bool; av_procs : list pview }.

(* context.applications.values() in dict order *)
Definition cctx := list aview.

(* ProcessStatus.conflicting : len(self.running_identifiers) > 1 *)
Definition p_conflicting (p : pview) : bool :=
  match pv_running p with _ :: _ :: _ => true | _ => false end.

(* Context.conflicting *)
Definition conflicting (c : cctx) : bool :=
  existsb (fun a => av_managed a && existsb p_conflicting (av_procs a)) c.

(* Context.conflicts *)
Definition conflicts (c : cctx) : list pview :=
  flat_map (fun a => if av_managed a then filter p_conflicting (av_procs a) else []) c.

(* ---------- the calls made by the strategies ---------- *)
Inductive call :=
| CStop (p : Z) (ids : option (list Z))   (* stopper.stop_process(process, identifiers, False); ids sorted *)
| CRestart (p : Z)                        (* stopper.default_restart_process(process, False) *)
| CStopperNext                            (* stopper.next() *)
| CAddDefault (p : Z)                     (* failure_handler.add_default_job(process) *)
| CTriggerJobs.                           (* failure_handler.trigger_jobs() *)

(* process.info_map[x]['uptime'] for every running identifier, in iteration order; KeyError when missing *)
Fixpoint uptimes (info : alist (Z * Z)) (run : list Z) : result (list (Z * Z)) :=
  match run with
  | [] => Ok []
  | i :: r => match aget i info with
              | None => Crash KeyError
              | Some su => bind (uptimes info r) (fun l => Ok ((i, snd su) :: l))
              end
  end.

(* Senicide / Infanticide body for one process: `pick` is Python's min or max over the running identifiers
   with key = uptime; ValueError on an empty set (raised before any key evaluation) *)
Definition keep_one (pick : (Z * Z -> Z) -> list (Z * Z) -> option (Z * Z)) (p : pview) : result (list call) :=
  match pv_running p with
  | [] => Crash ValueError
  | run =>
      bind (uptimes (pv_info p) run) (fun l =>
        match pick snd l with
        | None => Crash ValueError
        | Some (k, _) => Ok [CStop (pv_id p) (Some (zsort (zdiscard k run)))]
        end)
  end.

(* run the loop body on every process; a raising body ends the strategy with the calls made so far *)
Fixpoint each (f : pview -> result (list call)) (l : list pview) : list call * option crash :=
  match l with
  | [] => ([], None)
  | p :: r => match f p with
              | Crash k => ([], Some k)
              | Ok cs => let '(cs', e) := each f r in (cs ++ cs', e)
              end
  end.

Definition finish (r : list call * option crash) (tail : list call) : list call * option crash :=
  match r with
  | (cs, None) => (cs ++ tail, None)
  | (cs, Some k) => (cs, Some k)
  end.

(* conciliate_conflicts(supvisors, strategy, conflicts) *)
Definition conciliate (s : cstrat) (confl : list pview) : list call * option crash :=
  match s with
  | Senicide => finish (each (keep_one (@py_min (Z * Z))) confl) [CStopperNext]
  | Infanticide => finish (each (keep_one (@py_max (Z * Z))) confl) [CStopperNext]
  | User => ([], None)
  | Stop => finish (each (fun p => Ok [CStop (pv_id p) None]) confl) [CStopperNext]
  | Restart => finish (each (fun p => Ok [CRestart (pv_id p)]) confl) [CStopperNext]
  | RunningFailure =>
      finish (each (fun p => Ok [CStop (pv_id p) None; CAddDefault (pv_id p)]) confl) [CStopperNext; CTriggerJobs]
  end.

(* ---------- what the Stopper plans for these calls ---------- *)
(* Stopper.stop_process : [identifier for identifier in process.running_identifiers
                           if not identifiers or identifier in identifiers] *)
Definition stop_cmds (run : list Z) (ids : option (list Z)) : list Z :=
  match ids with
  | None | Some [] => run
  | Some l => filter (fun i => zmem i l) run
  end.

Definition find_pv (ps : list pview) (p : Z) : option pview := find (fun v => Z.eqb (pv_id v) p) ps.

(* the requests planned by one call: stop commands (process, identifier), deferred starts
   (Stopper.process_start_requests), direct starts (starter.start_process), failure jobs *)
Record plan := mkPlan { pl_stops : list (Z * Z); pl_deferred : list Z; pl_direct : list Z; pl_failure : list Z }.

Definition plan_empty : plan := mkPlan [] [] [] [].

Definition plan_call (ps : list pview) (pl : plan) (c : call) : plan :=
  match c with
  | CStop p ids =>
      match find_pv ps p with
      | Some v => mkPlan (pl_stops pl ++ map (fun i => (p, i)) (stop_cmds (pv_running v) ids))
                         (pl_deferred pl) (pl_direct pl) (pl_failure pl)
      | None => pl
      end
  | CRestart p =>
      (* Stopper.restart_process *)
      match find_pv ps p with
      | Some v =>
          if pv_is_running v
          then mkPlan (pl_stops pl ++ map (fun i => (p, i)) (pv_running v))
                      (pl_deferred pl ++ [p]) (pl_direct pl) (pl_failure pl)
          else mkPlan (pl_stops pl) (pl_deferred pl) (pl_direct pl ++ [p]) (pl_failure pl)
      | None => pl
      end
  | CAddDefault p => mkPlan (pl_stops pl) (pl_deferred pl) (pl_direct pl) (pl_failure pl ++ [p])
  | CStopperNext | CTriggerJobs => pl
  end.

Definition plan_of (ps : list pview) (calls : list call) : plan := fold_left (plan_call ps) calls plan_empty.

(* ---------- observable ---------- *)
Definition pair_leb (a b : Z * Z) : bool :=
  Z.ltb (fst a) (fst b) || (Z.eqb (fst a) (fst b) && Z.leb (snd a) (snd b)).
Fixpoint pinsert (x : Z * Z) (l : list (Z * Z)) : list (Z * Z) :=
  match l with
  | [] => [x]
  | y :: r => if pair_leb x y then x :: l else y :: pinsert x r
  end.
Definition psort (l : list (Z * Z)) : list (Z * Z) := fold_right pinsert [] l.

(* Context.conflicting(), ids of Context.conflicts() in order, the calls in order, the stop commands found in the
   real Stopper pipe (sorted), deferred starts (Stopper.process_start_requests is keyed by application: sorted),
   direct starts (in order), the exception if any *)
Definition cobs := (bool * list Z * list call * list (Z * Z) * list Z * list Z * option crash)%type.

Definition all_procs (c : cctx) : list pview := flat_map av_procs c.

(* `passed` : the processes handed to conciliate_conflicts (ConciliationState passes context.conflicts();
   the hostile stream passes other lists) *)
Definition run_case (c : cctx) (s : cstrat) (passed : list Z) : cobs :=
  let ps := all_procs c in
  let confl := flat_map (fun p => match find_pv ps p with Some v => [v] | None => [] end) passed in
  let '(calls, e) := conciliate s confl in
  let pl := plan_of ps calls in
  (conflicting c, map pv_id (conflicts c), calls, psort (pl_stops pl), zsort (pl_deferred pl), pl_direct pl, e).

Definition zl_eqb := list_eqb Z.eqb.
Definition pair_eqb (a b : Z * Z) : bool := Z.eqb (fst a) (fst b) && Z.eqb (snd a) (snd b).

Definition call_eqb (a b : call) : bool :=
  match a, b with
  | CStop p i, CStop q j => Z.eqb p q && option_eqb zl_eqb i j
  | CRestart p, CRestart q => Z.eqb p q
  | CStopperNext, CStopperNext => true
  | CAddDefault p, CAddDefault q => Z.eqb p q
  | CTriggerJobs, CTriggerJobs => true
  | _, _ => false
  end.

Definition cobs_eqb (a b : cobs) : bool :=
  match a, b with
  | (c1, k1, l1, s1, d1, r1, e1), (c2, k2, l2, s2, d2, r2, e2) =>
      Bool.eqb c1 c2 && zl_eqb k1 k2 && list_eqb call_eqb l1 l2 && list_eqb pair_eqb s1 s2
      && zl_eqb d1 d2 && zl_eqb r1 r2 && option_eqb crash_eqb e1 e2
  end.

(* ---------- abstract specification (Spec_C05), written from the property statement ---------- *)
Definition running_like (code : Z) : bool :=
  Z.eqb code gen_code_STARTING || Z.eqb code gen_code_BACKOFF || Z.eqb code gen_code_RUNNING.

(* the instances where the process is running: STARTING, BACKOFF or RUNNING *)
Definition copies (p : pview) : list Z :=
  map fst (filter (fun kv => running_like (fst (snd kv))) (pv_info p)).

Definition uptime_of (p : pview) (i : Z) : Z :=
  match aget i (pv_info p) with Some su => snd su | None => 0 end.

(* a process of a managed application running on two or more instances *)
Definition spec_conflicts (c : cctx) : list pview :=
  flat_map (fun a => if av_managed a
                     then filter (fun p => Nat.ltb 1 (length (copies p))) (av_procs a) else []) c.

Definition zset_eqb (a b : list Z) : bool :=
  forallb (fun x => zmem x b) a && forallb (fun x => zmem x a) b.
Fixpoint nodupb (l : list Z) : bool :=
  match l with [] => true | x :: r => negb (zmem x r) && nodupb r end.
Fixpoint pnodupb (l : list (Z * Z)) : bool :=
  match l with [] => true | x :: r => negb (existsb (pair_eqb x) r) && pnodupb r end.

Definition stops_of (stops : list (Z * Z)) (p : Z) : list Z :=
  map snd (filter (fun s => Z.eqb (fst s) p) stops).

(* the copy kept by SENICIDE (youngest = minimal uptime) / INFANTICIDE (oldest = maximal uptime):
   some copy k with extremal uptime such that exactly the other copies are stopped *)
Definition keeps_extremal (better : Z -> Z -> bool) (p : pview) (stopped : list Z) : bool :=
  existsb (fun k => forallb (fun j => better (uptime_of p k) (uptime_of p j)) (copies p)
                    && zset_eqb stopped (zdiscard k (copies p)))
          (copies p).

Definition spec_accepts (c : cctx) (s : cstrat) (o : cobs) : bool :=
  match o with
  | (confl, confl_ids, calls, stops, deferred, direct, e) =>
      let sc := spec_conflicts c in
      let starts := deferred ++ direct in
      let failures := flat_map (fun x => match x with CAddDefault p => [p] | _ => [] end) calls in
      match e with Some _ => false | None => true end
      (* detection *)
      && Bool.eqb confl (match sc with [] => false | _ => true end)
      && zset_eqb confl_ids (map pv_id sc) && nodupb confl_ids
      (* never twice the same request; never a stop for a process that is not in conflict, nor where it does not run *)
      && pnodupb stops && nodupb starts && nodupb failures
      && forallb (fun st => existsb (fun p => Z.eqb (pv_id p) (fst st) && zmem (snd st) (copies p)) sc) stops
      (* exactly what the strategy says *)
      && forallb (fun p =>
           let sp := stops_of stops (pv_id p) in
           match s with
           | Senicide => keeps_extremal Z.leb p sp
           | Infanticide => keeps_extremal Z.geb p sp
           | User => match sp with [] => true | _ => false end
           | Stop | Restart | RunningFailure => zset_eqb sp (copies p)
           end) sc
      && zset_eqb starts (match s with Restart => map pv_id sc | _ => [] end)
      && zset_eqb failures (match s with RunningFailure => map pv_id sc | _ => [] end)
      && match s with
         | RunningFailure => existsb (fun x => match x with CTriggerJobs => true | _ => false end) calls
                             || match sc with [] => true | _ => false end
         | _ => true
         end
  end.

(* a copy listed in running_identifiers while STOPPING (C11: STOPPING keeps the identifier listed):
   the class where the code's notion of conflict differs from the property's *)
Definition has_stopping_listed (c : cctx) : bool :=
  existsb (fun p => existsb (fun i => match aget i (pv_info p) with
                                      | Some su => negb (running_like (fst su))
                                      | None => true
                                      end) (pv_running p)) (all_procs c).

(* well-formed table (what C11 guarantees): no duplicate in running_identifiers, distinct process ids *)
Definition wf_ctx (c : cctx) : bool :=
  nodupb (map pv_id (all_procs c)) && forallb (fun p => nodupb (pv_running p)) (all_procs c).

(* H_c05: what C11 (PS-inv) guarantees about a process table in which no listed copy is STOPPING:
   distinct process ids, duplicate-free running_identifiers and info_map keys, running_identifiers = the instances
   whose last report is STARTING / BACKOFF / RUNNING, and a conflicting process has a running synthetic state *)
Definition H_c05 (c : cctx) : bool :=
  wf_ctx c
  && forallb (fun p => nodupb (akeys (pv_info p)) && zset_eqb (pv_running p) (copies p)
                       && (negb (p_conflicting p) || pv_is_running p)) (all_procs c).

(* case: context, strategy, processes handed to conciliate_conflicts, `regular` (= they are context.conflicts()),
   observation of the implementation *)
Definition case := (cctx * cstrat * list Z * bool * cobs)%type.

Definition case_mismatch (x : case) : bool :=
  match x with (c, s, passed, _, o) => negb (cobs_eqb (run_case c s passed) o) end.

Definition case_spec_violation (x : case) : bool :=
  match x with (c, s, _, regular, o) =>
    regular && negb (has_stopping_listed c) && negb (H_c05 c && spec_accepts c s o) end.

Definition case_known_stopping (x : case) : bool :=
  match x with (c, s, _, regular, o) => regular && has_stopping_listed c && negb (spec_accepts c s o) end.

Definition mismatches (cs : list case) : list nat := find_idx case_mismatch cs.
Definition spec_violations (cs : list case) : list nat := find_idx case_spec_violation cs.
Definition known_stopping (cs : list case) : list nat := find_idx case_known_stopping cs.

(* ====================================================================== *)
(* The Master's decisions (statemachine.py), tabulated on the real classes  *)
(* ====================================================================== *)
Inductive cstate := COperation | CConciliation.

(* OperationState._master_next *)
Definition operation_next (starter_busy stopper_busy confl : bool) : cstate :=
  if starter_busy || stopper_busy then COperation
  else if confl then CConciliation else COperation.

(* ConciliationState._master_next : next state, and whether conciliate_conflicts is called again *)
Definition conciliation_next (starter_busy stopper_busy confl : bool) : cstate * bool :=
  if starter_busy || stopper_busy then (CConciliation, false)
  else if negb confl then (COperation, false)
  else (CConciliation, true).

(* from state, starter busy, stopper busy, conflicting, observed (next is CONCILIATION, conciliate called) *)
Definition dcase := (cstate * bool * bool * bool * (bool * bool))%type.

Definition decide (st : cstate) (sb pb cf : bool) : bool * bool :=
  match st with
  | COperation => (match operation_next sb pb cf with CConciliation => true | _ => false end, false)
  | CConciliation => let '(n, again) := conciliation_next sb pb cf in
                     (match n with CConciliation => true | _ => false end, again)
  end.

Definition dcase_mismatch (x : dcase) : bool :=
  match x with (st, sb, pb, cf, (o1, o2)) =>
    let '(m1, m2) := decide st sb pb cf in negb (Bool.eqb m1 o1 && Bool.eqb m2 o2) end.

(* Spec: with no start/stop job in progress, CONCILIATION iff a conflict exists (and the conciliation is
   (re)applied to what is left); with jobs in progress the state is kept and nothing is conciliated *)
Definition dcase_spec_violation (x : dcase) : bool :=
  match x with (st, sb, pb, cf, (o1, o2)) =>
    if sb || pb
    then negb (Bool.eqb o1 (match st with CConciliation => true | _ => false end) && negb o2)
    else negb (Bool.eqb o1 cf && Bool.eqb o2 (match st with CConciliation => cf | _ => false end))
  end.

Definition dmismatches (cs : list dcase) : list nat := find_idx dcase_mismatch cs.
Definition dspec_violations (cs : list dcase) : list nat := find_idx dcase_spec_violation cs.
