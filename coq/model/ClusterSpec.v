(* ClusterSpec.v — cluster-level statements of C01 (agreement on one running Master) and C08 (return to OPERATION,
   nobody parked), written from the property texts; evaluated on observed cluster states (implementation side in
   the correspondence runs) and used in the theorems of proofs/ClusterProofs.v. Definitions only. *)
From Sup Require Export Cluster.

(* ---------- on observations (cobs_node = id, up, fsm, master, instance states, pending, inbox length) ---------- *)
Definition on_id (o : cobs_node) : Z := match o with (i, _, _, _, _, _, _) => i end.
Definition on_up (o : cobs_node) : bool := match o with (_, u, _, _, _, _, _) => u end.
Definition on_fsm (o : cobs_node) : Z := match o with (_, _, f, _, _, _, _) => f end.
Definition on_master (o : cobs_node) : Z := match o with (_, _, _, m, _, _, _) => m end.
Definition on_insts (o : cobs_node) : list (Z * Z) := match o with (_, _, _, _, s, _, _) => s end.

Definition find_node (i : Z) (l : list cobs_node) : option cobs_node := find (fun o => Z.eqb (on_id o) i) l.

(* i regards j as ISOLATED *)
Definition isolates (l : list cobs_node) (i j : Z) : bool :=
  match find_node i l with
  | Some o => match aget j (on_insts o) with Some 5 => true | _ => false end
  | None => false
  end.
Definition linked (l : list cobs_node) (i j : Z) : bool := negb (isolates l i j) && negb (isolates l j i).

Definition ups (l : list cobs_node) : list Z := map on_id (filter on_up l).

(* proviso of C01 / C08: "instances that have not isolated one another": among the live instances, non-isolation
   is transitive, i.e. the live instances split into groups whose members have not isolated one another and whose
   non-members are isolated by / from every member *)
Definition clean_isolation (l : list cobs_node) : bool :=
  let u := ups l in
  forallb (fun a => forallb (fun b => forallb (fun c =>
    negb (linked l a b && linked l b c) || linked l a c || Z.eqb a c) u) u) u.

(* C08: every live instance is in OPERATION or CONCILIATION, in the same state as its Master, which is live and
   regards itself as the Master *)
Definition converged_node (l : list cobs_node) (o : cobs_node) : bool :=
  negb (on_up o)
  || ((Z.eqb (on_fsm o) 4 || Z.eqb (on_fsm o) 5)
      && negb (Z.eqb (on_master o) 0)
      && match find_node (on_master o) l with
         | Some mo => on_up mo && Z.eqb (on_fsm mo) (on_fsm o) && Z.eqb (on_master mo) (on_master o)
         | None => false
         end).
Definition converged (l : list cobs_node) : bool := forallb (converged_node l) l.

(* C01: inside a group of live, mutually non-isolated instances everybody reports the same Master, which is a
   member of the group, is seen RUNNING by everybody, and regards itself as the Master *)
Definition agreement_node (l : list cobs_node) (o : cobs_node) : bool :=
  negb (on_up o)
  || forallb (fun j =>
        negb (linked l (on_id o) j)
        || match find_node j l with
           | Some oj => Z.eqb (on_master oj) (on_master o)
           | None => true
           end) (ups l)
     && linked l (on_id o) (on_master o)
     && match aget (on_master o) (on_insts o) with Some 3 => true | _ => false end.
Definition agreement (l : list cobs_node) : bool := forallb (agreement_node l) l.

(* evaluated on the last observation of a schedule that ends with quiet rounds (disturbances stopped, every link
   healed, every message delivered, K ticks per live instance) *)
Definition last_nodes (r : list cres) : option (list cobs_node) :=
  match rev r with
  | COk o :: _ => Some (cobs_nodes o)
  | _ => None
  end.
Definition last_views (r : list cres) : list (Z * list vrow) :=
  match rev r with
  | COk o :: _ => cobs_views o
  | _ => []
  end.

(* a live instance i holds, at the end of the quiet rounds, a view of a live, linked instance j that differs from what
   j itself reports (FSM state, Master, instance states): a publication of j was lost on the way to i. With every
   link healed and every message delivered this only happens through the handshake window: publications of j received
   while i still holds j in CHECKING are discarded, and the state read by the handshake is older than them. *)
Definition view_matches (v : vrow) (o : cobs_node) : bool :=
  match v with (_, f, _, m, insts) => Z.eqb f (on_fsm o) && Z.eqb m (on_master o) && list_eqb zz_eqb insts (on_insts o) end.
Definition stale_view (l : list cobs_node) (views : list (Z * list vrow)) : bool :=
  existsb (fun oi =>
    on_up oi
    && existsb (fun oj =>
         on_up oj && negb (Z.eqb (on_id oi) (on_id oj)) && linked l (on_id oi) (on_id oj)
         && match aget (on_id oi) views with
            | Some vs => match find (fun v => Z.eqb (vrow_id v) (on_id oj)) vs with
                         | Some v => negb (view_matches v oj)
                         | None => false
                         end
            | None => false
            end) l) l.
Definition c08_stale (r : list cres) : bool :=
  match last_nodes r with Some l => stale_view l (last_views r) | None => false end.

Definition c08_final_ok (r : list cres) : bool :=
  match last_nodes r with
  | Some l => negb (clean_isolation l) || converged l
  | None => true
  end.
Definition c01_final_ok (r : list cres) : bool :=
  match last_nodes r with
  | Some l => negb (clean_isolation l) || negb (converged l) || agreement l
  | None => true
  end.
Definition crashed (r : list cres) : bool := existsb (fun x => match x with CCrash _ => true | _ => false end) r.

(* a non-converged end with a stale view is the known class handshake-window-state-lost; any other is a failing input *)
Definition spec_violations_c08 (cs : list ccase) : list nat :=
  find_idx (fun c => match c with (_, _, r) => (negb (c08_final_ok r) && negb (c08_stale r)) || crashed r end) cs.
Definition known_c08_stale_view (cs : list ccase) : list nat :=
  find_idx (fun c => match c with (_, _, r) => negb (c08_final_ok r) && c08_stale r && negb (crashed r) end) cs.
Definition spec_violations_c01c (cs : list ccase) : list nat :=
  find_idx (fun c => match c with (_, _, r) => negb (c01_final_ok r) end) cs.

(* ---------- on node states (for the theorems) ---------- *)
Definition view_of (ni : node) (j : Z) : option smodes := aget j (n_views ni).
(* the view ni holds of nj is exactly nj's own state and modes *)
Definition view_exact (ni nj : node) : Prop := view_of ni (n_me nj) = Some (own nj).
(* what _MasterSlaveState._check_consistence has established at the last evaluation of a node in a working state *)
Definition master_consistent (n : node) : Prop := check_master n = Ok true.
(* the node sees exactly the members of S as RUNNING *)
Definition sees_exactly (n : node) (S : list Z) : Prop := forall j, sees_running n j = true <-> In j S.
(* SM-local: a non-empty Master is seen RUNNING locally *)
Definition sm_local (n : node) : Prop := master n <> 0 -> sees_running n (master n) = true.
