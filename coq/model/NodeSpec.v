(* NodeSpec.v — abstract, executable statements of the node-level properties (C01, C02, C07, C13, C16),
   written from the property texts, evaluated on OBSERVATIONS (of the implementation in the correspondence
   runs, of the model in the theorems). Definitions only. *)
From Sup Require Export Node.

(* ---------- documented graphs, written by hand from the property statements ---------- *)
(* C02: OFF, SYNCHRONIZATION, ELECTION, DISTRIBUTION, OPERATION, CONCILIATION with their returns to OFF,
   SYNCHRONIZATION and ELECTION; exits RESTARTING / SHUTTING_DOWN leading only to FINAL; FINAL terminal *)
Definition documented_fsm_edge (a b : Z) : bool :=
  match a, b with
  | 0, 1 => true                                   (* OFF -> SYNCHRONIZATION *)
  | 1, 0 | 1, 2 => true                            (* SYNCHRONIZATION -> OFF | ELECTION *)
  | 2, 0 | 2, 1 | 2, 3 | 2, 7 => true              (* ELECTION -> OFF | SYNCHRONIZATION | DISTRIBUTION | SHUTTING_DOWN *)
  | 3, 0 | 3, 1 | 3, 2 | 3, 4 | 3, 6 | 3, 7 => true   (* DISTRIBUTION -> OFF | SYNC | ELECTION | OPERATION | exits *)
  | 4, 0 | 4, 1 | 4, 2 | 4, 5 | 4, 6 | 4, 7 => true   (* OPERATION -> OFF | SYNC | ELECTION | CONCILIATION | exits *)
  | 5, 0 | 5, 1 | 5, 2 | 5, 4 | 5, 6 | 5, 7 => true   (* CONCILIATION -> OFF | SYNC | ELECTION | OPERATION | exits *)
  | 6, 8 | 7, 8 => true                            (* RESTARTING | SHUTTING_DOWN -> FINAL *)
  | _, _ => false
  end.

(* C07: STOPPED, CHECKING, CHECKED, RUNNING, FAILED and back to STOPPED or to ISOLATED *)
Definition documented_inst_edge (a b : Z) : bool :=
  match a, b with
  | 0, 1 => true                       (* STOPPED -> CHECKING *)
  | 1, 0 | 1, 2 | 1, 4 | 1, 5 => true  (* CHECKING -> STOPPED | CHECKED | FAILED | ISOLATED *)
  | 2, 3 | 2, 4 => true                (* CHECKED -> RUNNING | FAILED *)
  | 3, 4 => true                       (* RUNNING -> FAILED *)
  | 4, 0 | 4, 5 => true                (* FAILED -> STOPPED | ISOLATED *)
  | _, _ => false
  end.
(* within one event an instance may take one edge, or go through FAILED to STOPPED / ISOLATED *)
Definition inst_move_ok (a b : Z) : bool :=
  Z.eqb a b || documented_inst_edge a b
  || (documented_inst_edge a 4 && documented_inst_edge 4 b).

Definition needs_master (s : Z) : bool :=
  Z.eqb s 3 || Z.eqb s 4 || Z.eqb s 5 || Z.eqb s 6 || Z.eqb s 7.

(* ---------- helpers over observations ---------- *)
Definition obs_fsm (o : nobs) : Z := match o with (f, _, _, _, _, _, _, _) => f end.
Definition obs_master (o : nobs) : Z := match o with (_, _, m, _, _, _, _, _) => m end.
Definition obs_insts (o : nobs) : list (Z * Z) := match o with (_, _, _, i, _, _, _, _) => i end.
Definition obs_mstate (o : nobs) : Z := match o with (_, _, _, _, ms, _, _, _) => ms end.
Definition obs_ist (o : nobs) : list (Z * Z * Z * Z * Z) := match o with (_, _, _, _, _, s, _, _) => s end.
Definition obs_outs (o : nobs) : list output := match o with (_, _, _, _, _, _, _, outs) => outs end.

Definition ist_state (j : Z) (l : list (Z * Z * Z * Z * Z)) : option Z :=
  match find (fun t => match t with (k, _, _, _, _) => Z.eqb k j end) l with
  | Some (_, s, _, _, _) => Some s | None => None end.
Definition ist_entry (j : Z) (l : list (Z * Z * Z * Z * Z)) : option (Z * Z * Z * Z) :=
  match find (fun t => match t with (k, _, _, _, _) => Z.eqb k j end) l with
  | Some (_, s, r, c, t) => Some (s, r, c, t) | None => None end.

(* the successive (fsm, master, instance states) published during one step, followed by the final ones *)
Definition pub_chain (o : nobs) : list (Z * Z * list (Z * Z)) :=
  fold_right (fun out acc => match out with Publish f _ m i => (f, m, i) :: acc | _ => acc end)
             [(obs_fsm o, obs_master o, obs_insts o)] (obs_outs o).

Definition sees_running_in (m : Z) (insts : list (Z * Z)) : bool :=
  match aget m insts with Some 3 => true | _ => false end.

(* ---------- C02 ---------- *)
(* graph: every change of the published state is a documented edge; master: the states that need a Master are
   entered with a non-empty Master seen RUNNING in the very publication that announces the new state.
   `exempt_shutdown` = the class of the known finding F5 (SHUTTING_DOWN entered by the SHUTDOWN failure strategy) *)
Fixpoint c02_chain (prev : Z) (l : list (Z * Z * list (Z * Z))) (check_master : bool) (exempt_shutdown : bool) : bool :=
  match l with
  | [] => true
  | (f, m, insts) :: r =>
      (Z.eqb prev f
       || (documented_fsm_edge prev f
           && (negb check_master || negb (needs_master f)
               || (exempt_shutdown && Z.eqb f 7)
               || (negb (Z.eqb m 0) && sees_running_in m insts))))
      && c02_chain f r check_master exempt_shutdown
  end.

(* a non-Master enters a Master-driven state only when its view of the Master is in that state
   (checked on the final observation of the step, where the view is observable) *)
Definition c02_follows (me prev : Z) (o : nobs) : bool :=
  let f := obs_fsm o in
  Z.eqb prev f || negb (needs_master f) || Z.eqb (obs_master o) me || Z.eqb (obs_mstate o) f
  (* DISTRIBUTION may be entered when the Master is already beyond it (it entered DISTRIBUTION earlier) *)
  || (Z.eqb f 3 && (Z.eqb (obs_mstate o) 4 || Z.eqb (obs_mstate o) 5)).

Fixpoint c02_walk (me prev : Z) (obss : list obs) (check_master exempt follows : bool) : bool :=
  match obss with
  | [] => true
  | NCrash _ :: _ => true
  | NOk o :: r =>
      c02_chain prev (pub_chain o) check_master exempt
      && (negb follows || c02_follows me prev o)
      && c02_walk me (obs_fsm o) r check_master exempt follows
  end.

(* ---------- C13 / C07 : per-instance status discipline ---------- *)
Definition ev_resolved (e : event) : option Z :=
  match e with
  | PeerTick og _ _ | PeerState og _ _ _ _ _ _ | Auth og _ _ _ | AllInfo og _ _ | InstFailure og _ =>
      if og_addr_ok og then og_resolved og else None
  | _ => None
  end.

(* isolation is permanent and airtight: an instance ISOLATED before the event is ISOLATED after it with
   unchanged counters, and no handshake is requested with it *)
Definition c13_isolated_frozen (before after : list (Z * Z * Z * Z * Z)) (outs : list output) : bool :=
  forallb (fun t => match t with (j, s, r, c, ct) =>
             negb (Z.eqb s 5)
             || (match ist_entry j after with Some (s', r', c', _) => Z.eqb s' 5 && Z.eqb r' r && Z.eqb c' c | None => false end
                 && negb (existsb (fun o => match o with CheckInstance k => Z.eqb k j | _ => false end) outs))
           end) before.

(* handshake fences: the authorization result is taken into account only in CHECKING with a newer timestamp *)
Definition c13_auth (me : Z) (e : event) (before after : list (Z * Z * Z * Z * Z)) : bool :=
  match e with
  | Auth og a ts _ =>
      match (if og_addr_ok og then og_resolved og else None) with
      | None => true
      | Some j =>
          match ist_entry j before, ist_state j after with
          | Some (s, _, _, ct), Some s' =>
              if Z.eqb s 5 then Z.eqb s' 5
              else if Z.eqb s 1 && Z.ltb ct ts then
                match a with
                | A_AUTHORIZED => Z.eqb s' 2
                | A_NOT_AUTHORIZED | A_INCONSISTENT => if Z.eqb j me then Z.eqb s' 0 else Z.eqb s' 5   (* the local instance is never ISOLATED *)
                | A_UNKNOWN => Z.eqb s' 0
                end
              else Z.eqb s' s
          | _, _ => true
          end
      end
  | _ => true
  end.

(* C07: documented instance graph; the local instance is never ISOLATED *)
Definition c07_graph (me : Z) (before after : list (Z * Z * Z * Z * Z)) : bool :=
  forallb (fun t => match t with (j, s, _, _, _) =>
             match ist_state j after with
             | Some s' => inst_move_ok s s' && (negb (Z.eqb j me) || negb (Z.eqb s' 5))
             | None => false
             end end) before.

(* C07 accuracy: a peer seen RUNNING leaves RUNNING only at a local tick that finds it silent for more than
   inactivity ticks, or on an XML-RPC failure notification for it.
   C07 completeness: at a local tick, a peer in an active state that is silent for more than inactivity ticks
   is no longer active after the tick (FAILED then STOPPED / ISOLATED in the same evaluation), and ISOLATED is only
   chosen with auto_fence (or by the handshake fences) *)
Definition c07_detection (me inactivity : Z) (auto_fence : bool) (e : event)
                         (before after : list (Z * Z * Z * Z * Z)) : bool :=
  forallb (fun t => match t with (j, s, _, c, _) =>
    match ist_state j after with
    | None => false
    | Some s' =>
        let active := Z.eqb s 1 || Z.eqb s 2 || Z.eqb s 3 || Z.eqb s 4 in
        match e with
        | LocalTick cnt _ _ =>
            let cj := if Z.eqb j me then cnt else c in
            if active && Z.ltb inactivity (cnt - cj) then (Z.eqb s' 0 || Z.eqb s' 5)
            else (negb (Z.eqb s 3) || Z.eqb s' 3)
        | InstFailure og _ =>
            negb (Z.eqb s 3) || Z.eqb s' 3
            || (match (if og_addr_ok og then og_resolved og else None) with Some k => Z.eqb k j | None => false end)
        | _ => negb (Z.eqb s 3) || Z.eqb s' 3
        end
        && (* ISOLATED needs auto_fence unless decided by the handshake *)
           (Z.eqb s 5 || negb (Z.eqb s' 5) || auto_fence
            || match e with Auth _ _ _ _ => true | _ => false end)
    end end) before.

(* ---------- C01 : only the Master acts automatically ---------- *)
Definition is_auto_token (o : output) : bool :=
  match o with AutoStart | Conciliate | FailureJob | AutoStopAll => true | _ => false end.
(* each automatic token is emitted while the last published / previous Master is the local instance *)
Fixpoint c01_tokens (me cur : Z) (outs : list output) : bool :=
  match outs with
  | [] => true
  | Publish _ _ m _ :: r => c01_tokens me m r
  | o :: r => (negb (is_auto_token o) || Z.eqb cur me) && c01_tokens me cur r
  end.

(* ---------- C16 : no internal error ---------- *)
(* an exception is excused only when (a) it is the documented error of on_restart / on_shutdown without a Master,
   raised to the XML-RPC layer (which must turn it into a fault: C17), or (b) the event cannot occur: an ALL_INFO
   failure notice overtaking the AUTHORIZATION of its own handshake (same sender, FIFO), an end_sync request
   outside SYNCHRONIZATION (refused by the XML-RPC gate) *)
Definition c16_crash_excused (e : event) (prev_fsm : Z) (prev_ist : list (Z * Z * Z * Z * Z)) : bool :=
  match e with
  | ReqRestart _ _ | ReqShutdown _ _ => true
  | AllInfo og None _ =>
      match (if og_addr_ok og then og_resolved og else None) with
      | Some j => match ist_state j prev_ist with Some 2 | Some 3 => true | _ => false end
      | None => false
      end
  | ReqEndSync _ _ _ => negb (Z.eqb prev_fsm 1)
  | _ => false
  end.

(* ---------- walking a case ---------- *)
Record nspec_flags := mkFlags {
  f_c02_graph : bool; f_c02_master : bool; f_c02_exempt_shutdown : bool; f_c02_follows : bool;
  f_c13 : bool; f_c07 : bool; f_c01 : bool; f_c16 : bool
}.

Definition init_ist (n : node) : list (Z * Z * Z * Z * Z) :=
  map (fun kv => (fst kv, icode (is_state (snd kv)), is_remote_cnt (snd kv), is_local_cnt (snd kv),
                  is_checking_time (snd kv))) (n_insts n).

Fixpoint nspec_walk (fl : nspec_flags) (n0 : node) (prev_fsm prev_master : Z) (prev_ist : list (Z * Z * Z * Z * Z))
                    (evs : list event) (obss : list obs) : bool :=
  match evs, obss with
  | e :: re, NOk o :: ro =>
      (negb (f_c02_graph fl)
       || (c02_chain prev_fsm (pub_chain o) (f_c02_master fl) (f_c02_exempt_shutdown fl)
           && (negb (f_c02_follows fl) || c02_follows (n_me n0) prev_fsm o)))
      && (negb (f_c13 fl) || (c13_isolated_frozen prev_ist (obs_ist o) (obs_outs o) && c13_auth (n_me n0) e prev_ist (obs_ist o)))
      && (negb (f_c07 fl) || (c07_graph (n_me n0) prev_ist (obs_ist o)
                              && c07_detection (n_me n0) (o_inactivity (n_opts n0)) (o_auto_fence (n_opts n0))
                                               e prev_ist (obs_ist o)))
      && (negb (f_c01 fl) || c01_tokens (n_me n0) prev_master (obs_outs o))
      && nspec_walk fl n0 (obs_fsm o) (obs_master o) (obs_ist o) re ro
  | e :: _, NCrash _ :: _ => negb (f_c16 fl) || c16_crash_excused e prev_fsm prev_ist
  | _, _ => true
  end.

Definition nspec_ok (fl : nspec_flags) (c : ncase) : bool :=
  match c with (n, evs, obss) =>
    nspec_walk fl n (scode (fsm_state n)) (master n) (init_ist n) evs obss end.

Definition fl_c02 := mkFlags true true true true false false false false.
Definition fl_c02_noexempt := mkFlags true true false true false false false false.
Definition fl_c13 := mkFlags false false false false true false false false.
Definition fl_c07 := mkFlags false false false false false true false false.
Definition fl_c01 := mkFlags false false false false false false true false.
Definition fl_c16 := mkFlags false false false false false false false true.

Definition spec_violations_c02 (cs : list ncase) : list nat := find_idx (fun c => negb (nspec_ok fl_c02 c)) cs.
Definition known_c02_shutdown (cs : list ncase) : list nat :=
  find_idx (fun c => nspec_ok fl_c02 c && negb (nspec_ok fl_c02_noexempt c)) cs.
Definition spec_violations_c13 (cs : list ncase) : list nat := find_idx (fun c => negb (nspec_ok fl_c13 c)) cs.
Definition spec_violations_c07 (cs : list ncase) : list nat := find_idx (fun c => negb (nspec_ok fl_c07 c)) cs.
Definition spec_violations_c01 (cs : list ncase) : list nat := find_idx (fun c => negb (nspec_ok fl_c01 c)) cs.
Definition spec_violations_c16 (cs : list ncase) : list nat := find_idx (fun c => negb (nspec_ok fl_c16 c)) cs.

(* ---------- C02 with the USER synchronisation option ---------- *)
(* With the USER option, accept_master adopts the Master declared by a peer even when the local instance does not see
   it RUNNING (theorem user_sync_master_refuted): the "Master seen RUNNING" clause is therefore only demanded of
   configurations without USER; a violation of that clause under USER is reported in the known-finding class *)
Definition fl_c02_graph := mkFlags true false false true false false false false.
Definition case_user (c : ncase) : bool := match c with (n, _, _) => o_user (n_opts n) end.
Definition spec_violations_c02u (cs : list ncase) : list nat :=
  find_idx (fun c => negb (nspec_ok (if case_user c then fl_c02_graph else fl_c02) c)) cs.
Definition known_c02_user (cs : list ncase) : list nat :=
  find_idx (fun c => case_user c && nspec_ok fl_c02_graph c && negb (nspec_ok fl_c02 c)) cs.

(* ---------- C16 and the set_state loop ---------- *)
(* a run that ends in Crash OutOfFuel is the set_state loop not terminating (the drivers raise after 40 evaluations):
   known finding "set-state-livelock" (STRICT or LIST satisfied while CORE fails, RESYNC strategy) *)
Definition ends_out_of_fuel (c : ncase) : bool :=
  match c with (_, _, obss) => match rev obss with NCrash OutOfFuel :: _ => true | _ => false end end.
Definition spec_violations_c16k (cs : list ncase) : list nat :=
  find_idx (fun c => negb (nspec_ok fl_c16 c) && negb (ends_out_of_fuel c)) cs.
Definition known_c16_livelock (cs : list ncase) : list nat := find_idx ends_out_of_fuel cs.

(* ---------- C07 with independent reception tags ---------- *)
(* The checker c07_detection reads the tag of the last received tick from the observed status itself. This second
   walker recomputes it from the EVENTS (a tick of j is received when the origin is valid, j is not ISOLATED and the
   local instance is CHECKED or RUNNING; it is tagged with the local counter at that moment, or 0 when j's own counter
   went backwards = restart), so that a wrong tag in the implementation is visible as a completeness / accuracy failure. *)
Definition ist_remote (j : Z) (l : list (Z * Z * Z * Z * Z)) : Z :=
  match ist_entry j l with Some (_, r, _, _) => r | None => 0 end.

Fixpoint c07_tag_walk (me inactivity : Z) (tags : alist Z) (prev_ist : list (Z * Z * Z * Z * Z))
                      (evs : list event) (obss : list obs) : bool :=
  match evs, obss with
  | e :: re, NOk o :: ro =>
      let local_ok := match ist_state me prev_ist with Some 2 | Some 3 => true | _ => false end in
      let tags' :=
        match e with
        | PeerTick og cnt _ =>
            match ev_resolved e with
            | Some j =>
                if local_ok && negb (match ist_state j prev_ist with Some 5 => true | _ => false end)
                then aset j (if Z.ltb cnt (ist_remote j prev_ist) then 0 else ist_remote me prev_ist) tags
                else tags
            | None => tags
            end
        | _ => tags
        end in
      let ok :=
        match e with
        | LocalTick cnt _ _ =>
            forallb (fun t => match t with (j, s, _, _, _) =>
              if Z.eqb j me then true
              else match aget j tags, ist_state j (obs_ist o) with
                   | Some tg, Some s' =>
                       let active := Z.eqb s 1 || Z.eqb s 2 || Z.eqb s 3 || Z.eqb s 4 in
                       if active && Z.ltb inactivity (cnt - tg) then Z.eqb s' 0 || Z.eqb s' 5
                       else negb (Z.eqb s 3) || Z.eqb s' 3
                   | _, _ => true
                   end end) prev_ist
        | _ => true
        end in
      ok && c07_tag_walk me inactivity tags' (obs_ist o) re ro
  | _, _ => true
  end.

Definition c07_tags_ok (c : ncase) : bool :=
  match c with (n, evs, obss) => c07_tag_walk (n_me n) (o_inactivity (n_opts n)) [] (init_ist n) evs obss end.
Definition spec_violations_c07t (cs : list ncase) : list nat :=
  find_idx (fun c => negb (nspec_ok fl_c07 c) || negb (c07_tags_ok c)) cs.

(* ---------- C09 at node level: the Master leaves an ending state only when the Stopper is idle ---------- *)
(* known finding F4 (theorem early_final_witness): the consistence check of an ending state (local instance not
   RUNNING, failure strategy, Master inconsistency) turns into FINAL before the Stopper-idle test. The class: an event
   whose first evaluation has the Stopper busy, handled by the Master in RESTARTING / SHUTTING_DOWN, ending in FINAL. *)
Definition first_stopping (e : event) : bool :=
  let orcs := match e with
              | LocalTick _ _ o | PeerState _ _ _ _ _ _ o | ProcCrash _ _ _ o | ReqRestart _ o | ReqShutdown _ o
              | ReqEndSync _ _ o => o
              | _ => []
              end in
  match orcs with o :: _ => or_stopping o | [] => false end.

Fixpoint c09_early_final_walk (me prev_fsm prev_master : Z) (evs : list event) (obss : list obs) : bool :=
  match evs, obss with
  | e :: re, NOk o :: ro =>
      ((Z.eqb prev_fsm 6 || Z.eqb prev_fsm 7) && Z.eqb prev_master me && first_stopping e && Z.eqb (obs_fsm o) 8)
      || c09_early_final_walk me (obs_fsm o) (obs_master o) re ro
  | _, _ => false
  end.
Definition known_c09_early_final (cs : list ncase) : list nat :=
  find_idx (fun c => match c with (n, evs, obss) =>
              c09_early_final_walk (n_me n) (scode (fsm_state n)) (master n) evs obss end) cs.

(* ---------- C06 at node level: planned jobs are filtered before the failure handler is fed ---------- *)
(* "a process that already has a start or stop job planned is left to that job": the Starter / Stopper are told about the
   lost instances (JobsInvalidation, which removes from the lost set the processes they take care of) BEFORE the Master
   hands the remaining lost processes to the failure handler (FailureJob) in the same evaluation. *)
(* the Starter is busy at the first evaluation of the event: the evaluation that acknowledges the instances declared
   FAILED by the timer. In the abstraction of the process plane, a busy Starter has the start of every lost process
   pending on the lost instance: it takes them all out of the lost set (they are "left to that job") *)
Definition first_starting (e : event) : bool :=
  let orcs := match e with
              | LocalTick _ _ o | PeerState _ _ _ _ _ _ o | ProcCrash _ _ _ o | ReqRestart _ o | ReqShutdown _ o
              | ReqEndSync _ _ o => o
              | _ => []
              end in
  match orcs with o :: _ => or_starting o | [] => false end.
Fixpoint c06_order (seen_failure : bool) (outs : list output) : bool :=
  match outs with
  | [] => true
  | FailureJob :: r => c06_order true r
  | JobsInvalidation _ :: r => negb seen_failure && c06_order seen_failure r
  | Publish _ _ _ _ :: r => c06_order false r      (* a publication separates two evaluations of the loop *)
  | _ :: r => c06_order seen_failure r
  end.
(* every process that was running only on a lost instance is handed to the failure handler by the Master in a working
   state -- unless the Starter was busy at that evaluation: then it filtered them out of the lost set and the failure
   handler must NOT be fed with them (no running failure strategy on a process that was merely starting). The set of
   instances hosting such a process is recomputed from the EVENTS (an ALL_INFO snapshot with such a process, accepted
   while the instance is CHECKING) *)
(* the evaluation that acknowledged the loss also left the working state (a consistence check decided ELECTION, ...):
   the state after the event differs, or a publication of another state was emitted on the way (the set_state loop may
   be back in the same state at the end of the event) *)
Definition left_state (prev_fsm : Z) (o : nobs) : bool :=
  negb (Z.eqb (obs_fsm o) prev_fsm)
  || existsb (fun x => match x with Publish f _ _ _ => negb (Z.eqb f prev_fsm) | _ => false end) (obs_outs o).
(* [exempt_left] = true: a loss acknowledged by an evaluation that leaves the working state is not demanded (the state
   classes return the decision of the consistence check BEFORE _common_next / _master_next run: known finding
   F9b-lost-at-reelection); false: it is demanded too (used to recognise that class) *)
Fixpoint c06_loss_walk (exempt_left : bool) (me : Z) (hosting : list Z) (prev_fsm prev_master : Z)
                       (prev_ist : list (Z * Z * Z * Z * Z)) (evs : list event) (obss : list obs) : bool :=
  match evs, obss with
  | e :: re, NOk o :: ro =>
      let hosting1 :=
        match e with
        | AllInfo og (Some true) _ =>
            match ev_resolved e with
            | Some j => match ist_state j prev_ist with Some 1 => zadd j hosting | _ => hosting end
            | None => hosting
            end
        | _ => hosting
        end in
      (* instances that were active before the event and are STOPPED / ISOLATED after it *)
      let lost := filter (fun j => match ist_state j prev_ist, ist_state j (obs_ist o) with
                                   | Some s, Some s' => (Z.eqb s 1 || Z.eqb s 2 || Z.eqb s 3 || Z.eqb s 4)
                                                        && (Z.eqb s' 0 || Z.eqb s' 5)
                                   | _, _ => false end) hosting1 in
      let by_timer := match e with LocalTick _ _ _ => true | _ => false end in
      (match lost with
       | [] => true
       | _ => negb by_timer
              || negb (Z.eqb prev_master me && Z.eqb (obs_master o) me)
              || negb (Z.eqb prev_fsm 3 || Z.eqb prev_fsm 4 || Z.eqb prev_fsm 5)
              || (exempt_left && left_state prev_fsm o)
              || Bool.eqb (existsb (fun x => match x with FailureJob => true | _ => false end) (obs_outs o))
                          (negb (first_starting e))
       end)
      && c06_loss_walk exempt_left me (filter (fun j => negb (zmem j lost)) hosting1) (obs_fsm o) (obs_master o)
                       (obs_ist o) re ro
  | _, _ => true
  end.

(* only demanded when supvisors_failure_strategy is CONTINUE: with RESYNC / SHUTDOWN the loss of a required instance makes
   the consistence check decide first (re-synchronisation / shutdown) and the failure handler is deliberately not fed;
   in DISTRIBUTION that decision (SYNCHRONIZATION) is refused by the transition table — catalogued in
   C08_decisions_catalogue — and the lost processes are then not handled either (observation F1 in DESIGN §6) *)
Definition c06_loss_ok (exempt_left : bool) (c : ncase) : bool :=
  match c with (n, evs, obss) =>
    match o_fstrategy (n_opts n) with
    | FS_CONTINUE => c06_loss_walk exempt_left (n_me n) (n_hosting n) (scode (fsm_state n)) (master n) (init_ist n)
                                   evs obss
    | _ => true
    end end.
Definition c06_case_ok (c : ncase) : bool :=
  c06_loss_ok true c &&
  match c with (_, _, obss) =>
    forallb (fun o => match o with NOk ob => c06_order false (obs_outs ob) | NCrash _ => true end) obss end.
Definition spec_violations_c06n (cs : list ncase) : list nat := find_idx (fun c => negb (c06_case_ok c)) cs.
(* class of the known finding F9b-lost-at-reelection: the only unhandled losses are acknowledged by an evaluation that
   leaves the working state *)
Definition known_c06_loss_at_reelection (cs : list ncase) : list nat :=
  find_idx (fun c => c06_loss_ok true c && negb (c06_loss_ok false c)) cs.
