(* Sequencer.v — executable model of supvisors/commander.py (Starter + Stopper, ApplicationJobs, ProcessCommand)
   together with the slice of Context / ProcessStatus / ApplicationStatus the sequencers read.
   Definitions only.  Each function names the Python method it mirrors.

   Python re-entrancy (process_job -> fail_command -> listener.force_process_state -> fsm.on_process_state_event
   -> starter.on_event -> Commander.next, Starter.after -> Stopper.stop_application -> Stopper.next ->
   Stopper.after -> Starter.start_xxx) is part of the behaviour: the model is an AGENDA MACHINE. Every Python
   method (and every loop body that can be interrupted by a re-entrant call) is a constructor of [call];
   [step_call] executes one call and returns the calls it makes, in Python order; [exec] runs the agenda
   (= the Python call stack, innermost first) to exhaustion.

   Python objects referenced by identity (ProcessCommand, ApplicationJobs) live in two heaps ([s_cmds], [s_jobs]);
   an ApplicationJobs that has been deleted from Commander.current_jobs while one of its methods is still
   running keeps being mutated, as in Python.

   Placement (strategy.get_supvisors_instance) and the iteration order of the Python set
   ProcessStatus.running_identifiers are ORACLE inputs ([oracle]); only DistributionRules.ALL_INSTANCES is
   modelled (ApplicationStartJobs.before is the identity). *)
From Sup Require Export Base.
From Sup Require Import GenProc GenEnums GenSeq.
From Sup Require Export ProcStatus.

(* ------------------------------------------------------------------ generic helpers *)
Fixpoint zmin_list (cur : Z) (l : list Z) : Z :=
  match l with [] => cur | x :: r => zmin_list (if Z.ltb x cur then x else cur) r end.
Fixpoint zmax_list (cur : Z) (l : list Z) : Z :=
  match l with [] => cur | x :: r => zmax_list (if Z.ltb cur x then x else cur) r end.

Inductive kind := KStart | KStop.
Definition kind_eqb (a b : kind) : bool :=
  match a, b with KStart, KStart | KStop, KStop => true | _, _ => false end.

(* Commander.pickup_logic / ApplicationJobs.pickup_logic applied to a dict: min / max of the keys *)
Definition pickup (k : kind) (keys : list Z) : option Z :=
  match keys with
  | [] => None
  | x :: r => Some (if (match k with KStart => gs_starter_pickup_min | KStop => gs_stopper_pickup_min end)
                    then zmin_list x r else zmax_list x r)
  end.

(* list.remove(x) by identity: first occurrence; None = ValueError *)
Fixpoint zremove (x : Z) (l : list Z) : option (list Z) :=
  match l with
  | [] => None
  | y :: r => if Z.eqb x y then Some r else match zremove x r with Some r' => Some (y :: r') | None => None end
  end.

(* dict.setdefault(k, []).append(v) *)
Definition aappend {V} (k : Z) (v : V) (l : alist (list V)) : alist (list V) :=
  match aget k l with
  | Some old => aset k (old ++ [v]) l
  | None => l ++ [(k, [v])]
  end.

(* ------------------------------------------------------------------ context slice *)
Record prules := mkPRules {
  pr_start : Z; pr_stop : Z; pr_required : bool; pr_wait_exit : bool; pr_sfs : Z }.

Record sproc := mkSProc {
  sp_rules : prules;
  sp_st : proc;                 (* the ProcessStatus synthesis (ProcStatus.v) *)
  sp_stop0 : list Z;            (* identifiers whose info['stop'] == 0 (ApplicationStatus.never_started) *)
  sp_startsecs : Z;             (* info['startsecs'], the same on every instance in the driver *)
  sp_stopwaitsecs : Z }.

Inductive astate := ASTOPPED | ASTARTING | ARUNNING | ASTOPPING.
Definition acode (s : astate) : Z :=
  match s with
  | ASTOPPED => gen_ApplicationStates_STOPPED | ASTARTING => gen_ApplicationStates_STARTING
  | ARUNNING => gen_ApplicationStates_RUNNING | ASTOPPING => gen_ApplicationStates_STOPPING
  end.

Record sapp := mkSApp {
  sa_managed : bool; sa_start : Z; sa_stop : Z; sa_strategy : Z;
  sa_procs : alist sproc;       (* application.processes, insertion ordered *)
  sa_state : astate; sa_major : bool; sa_minor : bool }.

Record sinst := mkSInst { in_state : Z; in_counter : Z }.

Definition local_id : Z := 1.

Definition inst_accepts (i : sinst) : bool :=
  Z.eqb (in_state i) gen_SupvisorsInstanceStates_CHECKED || Z.eqb (in_state i) gen_SupvisorsInstanceStates_RUNNING.

(* ProcessStatus predicates *)
Definition sp_stopped (p : sproc) : bool := is_stopped (p_state (sp_st p)).
Definition sp_running (p : sproc) : bool := is_running (p_state (sp_st p)).
Definition sp_running_on (p : sproc) (i : Z) : bool := sp_running p && zmem i (p_running (sp_st p)).
Definition sp_displayed (p : sproc) : pstate := displayed (sp_st p).

(* ApplicationStatus.update_state *)
Definition app_update_state (procs : alist sproc) : astate :=
  let ds := map (fun kv => sp_displayed (snd kv)) procs in
  if existsb (pstate_eqb STOPPING) ds then ASTOPPING
  else if existsb (fun d => pstate_eqb d STARTING || pstate_eqb d BACKOFF) ds then ASTARTING
  else if existsb (pstate_eqb RUNNING) ds then ARUNNING
  else ASTOPPED.

Definition astate_eqb (a b : astate) : bool := Z.eqb (acode a) (acode b).

(* ApplicationStatus.update_status_required (no status formula in the generated rules) *)
Definition app_update_required (managed : bool) (procs : alist sproc) (state : astate) : bool * bool :=
  let failing (p : sproc) :=
    let d := sp_displayed p in
    pstate_eqb d FATAL || pstate_eqb d UNKNOWN || (pstate_eqb d EXITED && negb (p_expected_exit (sp_st p))) in
  let major0 := existsb (fun kv => failing (snd kv) && pr_required (sp_rules (snd kv))) procs in
  (* sequenced_processes = every process of a managed application (start_sequence dict holds them all) *)
  let minor0 := existsb (fun kv => failing (snd kv) && negb (pr_required (sp_rules (snd kv))) && managed) procs in
  let possible := existsb (fun kv => negb (failing (snd kv)) && pstate_eqb (sp_displayed (snd kv)) STOPPED
                                     && pr_required (sp_rules (snd kv))) procs in
  let major := if astate_eqb state ASTOPPED then major0 else major0 || possible in
  (major, if major then false else minor0).

(* ApplicationStatus.update *)
Definition app_update (a : sapp) : sapp :=
  let st := app_update_state (sa_procs a) in
  let mm := app_update_required (sa_managed a) (sa_procs a) st in
  mkSApp (sa_managed a) (sa_start a) (sa_stop a) (sa_strategy a) (sa_procs a) st (fst mm) (snd mm).

Definition app_set_procs (a : sapp) (procs : alist sproc) : sapp :=
  mkSApp (sa_managed a) (sa_start a) (sa_stop a) (sa_strategy a) procs (sa_state a) (sa_major a) (sa_minor a).

Definition app_stopped (a : sapp) : bool := astate_eqb (sa_state a) ASTOPPED.
Definition app_has_running (a : sapp) : bool := existsb (fun kv => sp_running (snd kv)) (sa_procs a).
(* ApplicationStatus.never_started *)
Definition app_never_started (a : sapp) : bool :=
  forallb (fun kv => let p := snd kv in
     forallb (fun iv => pstate_eqb (i_state (snd iv)) STOPPED && zmem (fst iv) (sp_stop0 p)) (p_infos (sp_st p)))
    (sa_procs a).

(* ApplicationStatus.start_sequence / stop_sequence as built by update_sequences: {seq: [process names]} in
   first-occurrence order *)
Definition seq_of (f : prules -> Z) (procs : alist sproc) : alist (list Z) :=
  fold_left (fun acc kv => aappend (f (sp_rules (snd kv))) (fst kv) acc) procs [].
Definition app_start_sequence (a : sapp) : alist (list Z) :=
  if sa_managed a then seq_of pr_start (sa_procs a) else [].
Definition app_stop_sequence (a : sapp) : alist (list Z) := seq_of pr_stop (sa_procs a).

(* ------------------------------------------------------------------ commands, jobs, commanders *)
Record cmd := mkCmd {
  c_id : Z; c_kind : kind; c_app : Z; c_proc : Z;
  c_ident : option Z;          (* identifier *)
  c_req : Z;                   (* request_sequence_counter *)
  c_min : Z;                   (* minimum_ticks *)
  c_wait : Z;                  (* wait_ticks *)
  c_strategy : Z;
  c_ignore_we : bool }.        (* ignore_wait_exit *)

Record job := mkJob {
  j_kind : kind; j_app : Z;
  j_planned : alist (list Z);  (* {seq: [command ids]} *)
  j_current : list Z;          (* [command ids] *)
  j_stop_request : bool }.

Record commander := mkCmdr {
  cm_planned : alist (alist Z);  (* {app_seq: {app: job id}} *)
  cm_current : alist Z }.        (* {app: job id} *)

Definition cmdr_empty : commander := mkCmdr [] [].

Inductive oracle :=
| OPlace (o : option Z)          (* result of get_supvisors_instance in ApplicationStartJobs.process_job *)
| OOrder (l : list Z).           (* list(process.running_identifiers) when it holds >= 2 identifiers *)

Record st := mkSt {
  s_insts : alist sinst;
  s_apps : alist sapp;
  s_cmds : alist cmd;            (* heap of ProcessCommand objects *)
  s_jobs : alist job;            (* heap of ApplicationJobs objects *)
  s_next_id : Z;
  s_starter : commander;
  s_stopper : commander;
  s_app_req : alist Z;           (* Stopper.application_start_requests : app -> strategy *)
  s_proc_req : alist (list (Z * Z)); (* Stopper.process_start_requests : app -> [(strategy, proc)] *)
  s_sm_starting : bool;          (* state_modes.starting_jobs *)
  s_sm_stopping : bool;
  s_lost : list Z;               (* fsm.lost_instances *)
  s_failed : list (Z * Z);       (* fsm.lost_processes *)
  s_now : Z;                     (* time.monotonic() *)
  s_oracle : list oracle }.

Definition get_cmdr (k : kind) (s : st) : commander :=
  match k with KStart => s_starter s | KStop => s_stopper s end.

Definition set_cmdr (k : kind) (c : commander) (s : st) : st :=
  match k with
  | KStart => mkSt (s_insts s) (s_apps s) (s_cmds s) (s_jobs s) (s_next_id s) c (s_stopper s) (s_app_req s)
                   (s_proc_req s) (s_sm_starting s) (s_sm_stopping s) (s_lost s) (s_failed s) (s_now s) (s_oracle s)
  | KStop => mkSt (s_insts s) (s_apps s) (s_cmds s) (s_jobs s) (s_next_id s) (s_starter s) c (s_app_req s)
                   (s_proc_req s) (s_sm_starting s) (s_sm_stopping s) (s_lost s) (s_failed s) (s_now s) (s_oracle s)
  end.

Definition set_apps (apps : alist sapp) (s : st) : st :=
  mkSt (s_insts s) apps (s_cmds s) (s_jobs s) (s_next_id s) (s_starter s) (s_stopper s) (s_app_req s)
       (s_proc_req s) (s_sm_starting s) (s_sm_stopping s) (s_lost s) (s_failed s) (s_now s) (s_oracle s).
Definition set_insts (insts : alist sinst) (s : st) : st :=
  mkSt insts (s_apps s) (s_cmds s) (s_jobs s) (s_next_id s) (s_starter s) (s_stopper s) (s_app_req s)
       (s_proc_req s) (s_sm_starting s) (s_sm_stopping s) (s_lost s) (s_failed s) (s_now s) (s_oracle s).
Definition set_cmds (cmds : alist cmd) (s : st) : st :=
  mkSt (s_insts s) (s_apps s) cmds (s_jobs s) (s_next_id s) (s_starter s) (s_stopper s) (s_app_req s)
       (s_proc_req s) (s_sm_starting s) (s_sm_stopping s) (s_lost s) (s_failed s) (s_now s) (s_oracle s).
Definition set_jobs (jobs : alist job) (s : st) : st :=
  mkSt (s_insts s) (s_apps s) (s_cmds s) jobs (s_next_id s) (s_starter s) (s_stopper s) (s_app_req s)
       (s_proc_req s) (s_sm_starting s) (s_sm_stopping s) (s_lost s) (s_failed s) (s_now s) (s_oracle s).
Definition set_next_id (n : Z) (s : st) : st :=
  mkSt (s_insts s) (s_apps s) (s_cmds s) (s_jobs s) n (s_starter s) (s_stopper s) (s_app_req s)
       (s_proc_req s) (s_sm_starting s) (s_sm_stopping s) (s_lost s) (s_failed s) (s_now s) (s_oracle s).
Definition set_reqs (ar : alist Z) (pr : alist (list (Z * Z))) (s : st) : st :=
  mkSt (s_insts s) (s_apps s) (s_cmds s) (s_jobs s) (s_next_id s) (s_starter s) (s_stopper s) ar pr
       (s_sm_starting s) (s_sm_stopping s) (s_lost s) (s_failed s) (s_now s) (s_oracle s).
Definition set_sm (k : kind) (b : bool) (s : st) : st :=
  mkSt (s_insts s) (s_apps s) (s_cmds s) (s_jobs s) (s_next_id s) (s_starter s) (s_stopper s) (s_app_req s)
       (s_proc_req s) (match k with KStart => b | KStop => s_sm_starting s end)
       (match k with KStop => b | KStart => s_sm_stopping s end) (s_lost s) (s_failed s) (s_now s) (s_oracle s).
Definition set_lost (lost : list Z) (failed : list (Z * Z)) (s : st) : st :=
  mkSt (s_insts s) (s_apps s) (s_cmds s) (s_jobs s) (s_next_id s) (s_starter s) (s_stopper s) (s_app_req s)
       (s_proc_req s) (s_sm_starting s) (s_sm_stopping s) lost failed (s_now s) (s_oracle s).
Definition set_now_oracle (now : Z) (o : list oracle) (s : st) : st :=
  mkSt (s_insts s) (s_apps s) (s_cmds s) (s_jobs s) (s_next_id s) (s_starter s) (s_stopper s) (s_app_req s)
       (s_proc_req s) (s_sm_starting s) (s_sm_stopping s) (s_lost s) (s_failed s) now o.
Definition set_oracle (o : list oracle) (s : st) : st := set_now_oracle (s_now s) o s.

Definition get_proc (s : st) (a p : Z) : option sproc :=
  match aget a (s_apps s) with Some ap => aget p (sa_procs ap) | None => None end.

Definition job_in_progress (j : job) : bool :=
  match j_planned j, j_current j with [], [] => false | _, _ => true end.
Definition cmdr_in_progress (c : commander) : bool :=
  match cm_planned c, cm_current c with [], [] => false | _, _ => true end.

Definition set_job_fields (j : job) (planned : alist (list Z)) (current : list Z) (stop_req : bool) : job :=
  mkJob (j_kind j) (j_app j) planned current stop_req.

(* ------------------------------------------------------------------ outputs and calls *)
Inductive out :=
| OStart (i a p : Z)                       (* rpc_handler.send_start_process(identifier, namespec, _) *)
| OStop (i a p : Z)                        (* rpc_handler.send_stop_process(identifier, namespec) *)
| OForced (a p : Z) (fs : pstate) (reason : Z) (target : option Z)
   (* entry of listener.force_process_state; reason -1 = 'No resource available', otherwise the code of the
      process state whose event was "not received in time" *)
| OPub (a p : Z) (fs : pstate) (accepted : bool).
   (* rpc_handler.send_process_state_event(forced payload) to the other instances, sent after the local
      handling; accepted = the local ProcessStatus.force_state took the forced state *)

Inductive call :=
| CNext (k : kind)                               (* Commander.next *)
| CNextLoop (k : kind) (snap : list (Z * Z))     (*   for name, job in list(current_jobs.items()) *)
| CAfter (k : kind) (jid : Z)                    (*   self.after(job) *)
| CAfterProcs (a : Z)                            (*   Stopper.after, second half: pending process start requests *)
| CDelCurrent (k : kind) (a : Z)                 (*   del self.current_jobs[name] *)
| CNextPop (k : kind)                            (*   if planned and not current: pop ... *)
| CStartJobs (k : kind) (snap : list (Z * Z))    (*   for ... : job.before(); job.next() *)
| CPublish (k : kind)                            (*   publish_state_modes *)
| AJNext (jid : Z)                               (* ApplicationJobs.next *)
| AJGroup (jid : Z) (group : list Z)             (*   for command in group: process_job / append *)
| ProcFailure (jid a p : Z)                      (* ApplicationStartJobs.process_failure *)
| Force (a p : Z) (target : option Z) (event_time : Z) (fs : pstate) (reason : Z)
                                                 (* listener.force_process_state -> fsm.on_process_state_event *)
| CEmit (o : out)                                (*   rpc_handler.send_process_state_event, after the local handling *)
| COnEvent (k : kind) (a p i : Z)                (* Commander.on_event *)
| AJOnEvent (jid p i : Z)                        (* ApplicationJobs.on_event *)
| CCheck (k : kind)                              (* Commander.check *)
| AJCheck (jid : Z)                              (* ApplicationJobs.check *)
| AJCheckCmd (jid cid : Z)                       (*   body of the loop over list(current_jobs) *)
| CInval (k : kind)                              (* Commander.on_instances_invalidation(lost, failed) *)
| CStartApp (strategy a : Z)                     (* Starter.start_application(strategy, app) *)
| CStartProc (strategy a p : Z)                  (* Starter.start_process(strategy, process) *)
| CStopApp (a : Z)                               (* Stopper.stop_application(app) *)
| CRestartApp (strategy a : Z)                   (* Stopper.restart_application *)
| CStopProc (a p : Z) (ids : list Z)             (* Stopper.stop_process(process, identifiers) ; [] = None *)
| CRestartProc (strategy a p : Z)                (* Stopper.restart_process *)
| CStartApps                                     (* Starter.start_applications *)
| CStopApps                                      (* Stopper.stop_applications *)
| CAbort (k : kind).                             (* Commander.abort *)

(* ------------------------------------------------------------------ small state monad *)
Definition M (A : Type) := st -> result (A * st).
Definition ret {A} (a : A) : M A := fun s => Ok (a, s).
Definition fail {A} (k : crash) : M A := fun _ => Crash k.
Definition mbind {A B} (m : M A) (f : A -> M B) : M B :=
  fun s => match m s with Ok (a, s') => f a s' | Crash k => Crash k end.
Notation "'do' x <- m ;; f" := (mbind m (fun x => f)) (at level 200, x pattern, m at level 100, f at level 200).
Definition mget : M st := fun s => Ok (s, s).
Definition mput (s : st) : M unit := fun _ => Ok (tt, s).
Definition mmod (f : st -> st) : M unit := fun s => Ok (tt, f s).
Definition lift_opt {A} (o : option A) (k : crash) : M A :=
  match o with Some a => ret a | None => fail k end.
Fixpoint mmap {A B} (f : A -> M B) (l : list A) : M (list B) :=
  match l with
  | [] => ret []
  | x :: r => do y <- f x ;; do ys <- mmap f r ;; ret (y :: ys)
  end.

Definition get_job (jid : Z) : M job := fun s => lift_opt (aget jid (s_jobs s)) OtherError s.
Definition put_job (jid : Z) (j : job) : M unit := mmod (fun s => set_jobs (aset jid j (s_jobs s)) s).
Definition get_cmd (cid : Z) : M cmd := fun s => lift_opt (aget cid (s_cmds s)) OtherError s.
Definition put_cmd (c : cmd) : M unit := mmod (fun s => set_cmds (aset (c_id c) c (s_cmds s)) s).
Definition get_sproc (a p : Z) : M sproc := fun s => lift_opt (get_proc s a p) OtherError s.
Definition get_app (a : Z) : M sapp := fun s => lift_opt (aget a (s_apps s)) KeyError s.
Definition fresh : M Z := fun s => Ok (s_next_id s, set_next_id (s_next_id s + 1) s).

(* the oracle stream *)
Definition take_place : M (option Z) := fun s =>
  match s_oracle s with
  | OPlace o :: r => Ok (o, set_oracle r s)
  | _ => Ok (None, s)
  end.
Definition take_order (run : list Z) : M (list Z) := fun s =>
  match run with
  | _ :: _ :: _ =>
      match s_oracle s with
      | OOrder l :: r => Ok (filter (fun x => zmem x run) l ++ filter (fun x => negb (zmem x l)) run, set_oracle r s)
      | _ => Ok (run, s)
      end
  | _ => Ok (run, s)
  end.

(* ------------------------------------------------------------------ ProcessCommand *)
Definition n_valid (s : st) : Z :=
  Z.of_nat (length (filter (fun kv => negb (Z.eqb (in_state (snd kv)) gen_SupvisorsInstanceStates_ISOLATED))
                           (s_insts s))).
(* ProcessCommand.__init__ : minimum_ticks *)
Definition minimum_ticks (s : st) : Z := Z.max gs_DEFAULT_TICK_TIMEOUT (n_valid s / 10).
(* wait_ticks setter: math.ceil(secs / Tick5Event.period) + minimum_ticks *)
Definition ceil_ticks (secs : Z) : Z := (secs + gs_TICK_PERIOD - 1) / gs_TICK_PERIOD.

Definition counter_of (s : st) (i : Z) : option Z :=
  match aget i (s_insts s) with Some ins => Some (in_counter ins) | None => None end.

(* ProcessStartCommand(process, strategy) *)
Definition new_start_cmd (a p strategy : Z) (ignore : bool) : M Z :=
  do cid <- fresh ;;
  do s <- mget ;;
  let m := minimum_ticks s in
  do _ <- put_cmd (mkCmd cid KStart a p None 0 m m strategy ignore) ;;
  ret cid.

(* ProcessCommand.update_identifier + subclass part: context.instances[identifier] (KeyError),
   get_instance_info()[...] (TypeError on None) *)
Definition update_identifier (c : cmd) (i : Z) : M cmd :=
  do s <- mget ;;
  do _ <- lift_opt (aget i (s_insts s)) KeyError ;;
  do pr <- get_sproc (c_app c) (c_proc c) ;;
  do _ <- lift_opt (aget i (p_infos (sp_st pr))) TypeError ;;
  let secs := match c_kind c with KStart => sp_startsecs pr | KStop => sp_stopwaitsecs pr end in
  ret (mkCmd (c_id c) (c_kind c) (c_app c) (c_proc c) (Some i) (c_req c) (c_min c)
             (ceil_ticks secs + c_min c) (c_strategy c) (c_ignore_we c)).

(* ProcessStopCommand(process, identifier) *)
Definition new_stop_cmd (a p i : Z) : M Z :=
  do cid <- fresh ;;
  do s <- mget ;;
  let m := minimum_ticks s in
  do c <- update_identifier (mkCmd cid KStop a p None 0 m m 0 false) i ;;
  do _ <- put_cmd c ;;
  ret cid.

Definition set_req (c : cmd) (r : Z) : cmd :=
  mkCmd (c_id c) (c_kind c) (c_app c) (c_proc c) (c_ident c) r (c_min c) (c_wait c) (c_strategy c) (c_ignore_we c).

(* ProcessRequestResult *)
Inductive rres := IN_PROGRESS | SUCCESS | FAILED | TIMED_OUT.

(* ProcessStartCommand.on_event / ProcessStopCommand.on_event on the state of the targeted instance;
   the bool asks for update_sequence_counter (BACKOFF) *)
Definition cmd_on_event (k : kind) (wait_exit ignore : bool) (state : pstate) (expected : bool) : rres * bool :=
  match k with
  | KStart =>
      match state with
      | STARTING => (IN_PROGRESS, false)
      | RUNNING => if negb wait_exit || ignore then (SUCCESS, false) else (IN_PROGRESS, false)
      | EXITED => if wait_exit && expected then (SUCCESS, false) else (FAILED, false)
      | BACKOFF => (IN_PROGRESS, true)
      | FATAL => (FAILED, false)
      | STOPPED | STOPPING | UNKNOWN => (FAILED, false)
      end
  | KStop => if is_stopped state then (SUCCESS, false) else (IN_PROGRESS, false)
  end.

(* timed_out : expected state, result.  cnt = instance_status.sequence_counter *)
Definition cmd_timed_out (k : kind) (wait_exit ignore : bool) (state : pstate) (req minimum wait cnt : Z)
  : pstate * rres :=
  match k with
  | KStart =>
      match state with
      | RUNNING => if wait_exit && negb ignore then (EXITED, IN_PROGRESS) else (RUNNING, SUCCESS)
      | BACKOFF | STARTING => if Z.ltb (req + wait) cnt then (RUNNING, TIMED_OUT) else (RUNNING, IN_PROGRESS)
      | _ => if Z.ltb (req + minimum) cnt then (STARTING, TIMED_OUT) else (STARTING, IN_PROGRESS)
      end
  | KStop =>
      if pstate_eqb state STOPPING then
        (if Z.ltb (req + wait) cnt then (STOPPED, TIMED_OUT) else (STOPPED, IN_PROGRESS))
      else if is_stopped state then (state, SUCCESS)
      else if Z.ltb (req + minimum) cnt then (STOPPING, TIMED_OUT) else (STOPPING, IN_PROGRESS)
  end.

Definition failure_state (k : kind) : pstate := match k with KStart => FATAL | KStop => STOPPED end.

(* ------------------------------------------------------------------ ApplicationJobs helpers *)
Definition new_job (k : kind) (a : Z) (planned : alist (list Z)) : M Z :=
  do jid <- fresh ;;
  do _ <- put_job jid (mkJob k a planned [] false) ;;
  ret jid.

(* ApplicationStartJobs.process_failure (pure on the job) *)
Definition process_failure (j : job) (r : prules) : job :=
  match j_kind j with
  | KStop => j
  | KStart =>
      if pr_required r then
        if Z.eqb (pr_sfs r) gen_StartingFailureStrategies_ABORT then set_job_fields j [] (j_current j) (j_stop_request j)
        else if Z.eqb (pr_sfs r) gen_StartingFailureStrategies_STOP then set_job_fields j [] (j_current j) true
        else j
      else j
  end.

(* ApplicationJobs.get_command(jobs, process_name, identifier): first command with that process name whose
   identifier matches (identifier None/'' matches everything) *)
Definition find_cmd (s : st) (cids : list Z) (p : Z) (i : option Z) : option cmd :=
  let ok (cid : Z) := match aget cid (s_cmds s) with
                      | Some c => Z.eqb (c_proc c) p
                                  && match i with None => true | Some x => option_eqb Z.eqb (Some x) (c_ident c) end
                      | None => false end in
  match find ok cids with Some cid => aget cid (s_cmds s) | None => None end.

(* ApplicationJobs.add_commands({seq: cids}) *)
Fixpoint add_commands (jid seq : Z) (cids : list Z) : M unit :=
  match cids with
  | [] => ret tt
  | cid :: r =>
      do c <- get_cmd cid ;;
      do j <- get_job jid ;;
      do s <- mget ;;
      let cur := find_cmd s (j_current j) (c_proc c) (c_ident c) in
      let pla := find_cmd s (concat (avals (j_planned j))) (c_proc c) (c_ident c) in
      do _ <- (match cur, pla with
               | None, None => put_job jid (set_job_fields j (aappend seq cid (j_planned j)) (j_current j) (j_stop_request j))
               | _, _ => ret tt
               end) ;;
      add_commands jid seq r
  end.

(* Commander.get_application_job *)
Definition get_application_job (c : commander) (a : Z) : option Z :=
  match aget a (cm_current c) with
  | Some jid => Some jid
  | None => match find (fun kv => amem a (snd kv)) (cm_planned c) with
            | Some kv => aget a (snd kv)
            | None => None
            end
  end.

(* planned_jobs.setdefault(priority, {})[app] = job *)
Definition plan_job (c : commander) (priority a jid : Z) : commander :=
  let m := match aget priority (cm_planned c) with Some m => m | None => [] end in
  mkCmdr (aset priority (aset a jid m) (cm_planned c)) (cm_current c).

(* Starter.store_application *)
Definition starter_store (a : Z) (strategy : option Z) : M unit :=
  do ap <- get_app a ;;
  let strat := match strategy with Some x => x | None => sa_strategy ap end in
  do seqs <- mmap (fun kv => do cids <- mmap (fun p => new_start_cmd a p strat false) (snd kv) ;; ret (fst kv, cids))
                  (filter (fun kv => Z.ltb 0 (fst kv)) (app_start_sequence ap)) ;;
  match seqs with
  | [] => ret tt
  | _ => do jid <- new_job KStart a seqs ;;
         mmod (fun s => set_cmdr KStart (plan_job (s_starter s) (sa_start ap) a jid) s)
  end.

(* the stop commands of one process: one per running identifier (set order from the oracle) *)
Definition stop_cmds_of (a p : Z) (only : list Z) : M (list Z) :=
  do pr <- get_sproc a p ;;
  do run <- take_order (p_running (sp_st pr)) ;;
  mmap (fun i => new_stop_cmd a p i)
       (filter (fun i => match only with [] => true | _ => zmem i only end) run).

(* Stopper.store_application *)
Definition stopper_store (a : Z) : M unit :=
  do ap <- get_app a ;;
  do seqs <- mmap (fun kv => do cl <- mmap (fun p => stop_cmds_of a p []) (snd kv) ;; ret (fst kv, concat cl))
                  (app_stop_sequence ap) ;;
  match filter (fun kv => match snd kv with [] => false | _ => true end) seqs with
  | [] => ret tt
  | seqs' => do jid <- new_job KStop a seqs' ;;
             mmod (fun s => set_cmdr KStop (plan_job (s_stopper s) (sa_stop ap) a jid) s)
  end.

(* ApplicationJobs.on_instances_invalidation (pure: job, failed set) *)
Definition failed_remove (a p : Z) (failed : list (Z * Z)) : list (Z * Z) :=
  filter (fun ap => negb (Z.eqb (fst ap) a && Z.eqb (snd ap) p)) failed.

Fixpoint inval_current (s : st) (lost : list Z) (cids : list Z) (j : job) (failed : list (Z * Z))
  : job * list (Z * Z) :=
  match cids with
  | [] => (j, failed)
  | cid :: r =>
      match aget cid (s_cmds s) with
      | Some c =>
          if match c_ident c with Some i => zmem i lost | None => false end then
            let cur := match zremove cid (j_current j) with Some l => l | None => j_current j end in
            let j1 := set_job_fields j (j_planned j) cur (j_stop_request j) in
            let j2 := match get_proc s (c_app c) (c_proc c) with
                      | Some pr => process_failure j1 (sp_rules pr) | None => j1 end in
            inval_current s lost r j2 (failed_remove (c_app c) (c_proc c) failed)
          else inval_current s lost r j failed
      | None => inval_current s lost r j failed
      end
  end.

Definition inval_job (s : st) (lost : list Z) (j : job) (failed : list (Z * Z)) : job * list (Z * Z) :=
  let '(j1, f1) := inval_current s lost (j_current j) j failed in
  let f2 := fold_left (fun f cid => match aget cid (s_cmds s) with
                                    | Some c => failed_remove (c_app c) (c_proc c) f | None => f end)
                      (concat (avals (j_planned j1))) f1 in
  (j1, f2).

(* Commander.on_instances_invalidation, without the final self.next() *)
Definition inval_cmdr (k : kind) (s : st) : st :=
  let c := get_cmdr k s in
  let jids := avals (cm_current c) ++ concat (map (fun kv => avals (snd kv)) (cm_planned c)) in
  fold_left (fun s jid => match aget jid (s_jobs s) with
                          | Some j => let '(j', f') := inval_job s (s_lost s) j (s_failed s) in
                                      set_lost (s_lost s) f' (set_jobs (aset jid j' (s_jobs s)) s)
                          | None => s end) jids s.

(* ------------------------------------------------------------------ context-side updates *)
Definition put_sproc (a p : Z) (pr : sproc) (update_app : bool) : M unit :=
  do ap <- get_app a ;;
  let ap1 := app_set_procs ap (aset p pr (sa_procs ap)) in
  mmod (fun s => set_apps (aset a (if update_app then app_update ap1 else ap1) (s_apps s)) s).

Definition set_sp_st (pr : sproc) (p : proc) (stop0 : list Z) : sproc :=
  mkSProc (sp_rules pr) p stop0 (sp_startsecs pr) (sp_stopwaitsecs pr).

(* ------------------------------------------------------------------ one call *)
(* result of a call: the calls it makes (pushed in front of the agenda) and the requests it emits *)
Definition R := (list call * list out)%type.

Definition step_next_loop (k : kind) (snap : list (Z * Z)) : M R :=
  match snap with
  | [] => ret ([], [])
  | (a, jid) :: rest =>
      do j <- get_job jid ;;
      if job_in_progress j then ret ([CNextLoop k rest], [])
      else ret ([CAfter k jid; CDelCurrent k a; CNextLoop k rest], [])
  end.

Definition step_after (k : kind) (jid : Z) : M R :=
  do j <- get_job jid ;;
  match k with
  | KStart =>
      if j_stop_request j then
        do _ <- put_job jid (set_job_fields j (j_planned j) (j_current j) false) ;;
        ret ([CStopApp (j_app j)], [])
      else ret ([], [])
  | KStop =>
      (* application_start_requests.pop, then starter.start_application runs to completion (possibly re-entering
         this very method), and only then process_start_requests.pop *)
      do s <- mget ;;
      let a := j_app j in
      let c1 := match aget a (s_app_req s) with Some strat => [CStartApp strat a] | None => [] end in
      do _ <- mmod (set_reqs (adel a (s_app_req s)) (s_proc_req s)) ;;
      ret (c1 ++ [CAfterProcs a], [])
  end.

Definition step_after_procs (a : Z) : M R :=
  do s <- mget ;;
  let c2 := match aget a (s_proc_req s) with
            | Some l => map (fun sp => CStartProc (fst sp) a (snd sp)) l | None => [] end in
  do _ <- mmod (set_reqs (s_app_req s) (adel a (s_proc_req s))) ;;
  ret (c2, []).

Definition step_next_pop (k : kind) : M R :=
  do s <- mget ;;
  let c := get_cmdr k s in
  match cm_planned c, cm_current c with
  | _ :: _, [] =>
      match pickup k (akeys (cm_planned c)) with
      | Some seq =>
          let cur := match aget seq (cm_planned c) with Some m => m | None => [] end in
          do _ <- mmod (set_cmdr k (mkCmdr (adel seq (cm_planned c)) cur)) ;;
          ret ([CStartJobs k cur; CNext k], [])
      | None => ret ([], [])
      end
  | _, _ => ret ([], [])
  end.

Definition step_aj_next (jid : Z) : M R :=
  do j <- get_job jid ;;
  match j_current j, j_planned j with
  | [], _ :: _ =>
      match pickup (j_kind j) (akeys (j_planned j)) with
      | Some seq =>
          let group := match aget seq (j_planned j) with Some g => g | None => [] end in
          do _ <- put_job jid (set_job_fields j (adel seq (j_planned j)) [] (j_stop_request j)) ;;
          ret ([AJGroup jid group; AJNext jid], [])
      | None => ret ([], [])
      end
  | _, _ => ret ([], [])
  end.

Definition job_append (jid cid : Z) : M unit :=
  do j <- get_job jid ;;
  put_job jid (set_job_fields j (j_planned j) (j_current j ++ [cid]) (j_stop_request j)).

(* one iteration of `for command in group: if self.process_job(command): self.current_jobs.append(command)` *)
Definition step_aj_group (jid : Z) (group : list Z) : M R :=
  match group with
  | [] => ret ([], [])
  | cid :: rest =>
      do c <- get_cmd cid ;;
      do pr <- get_sproc (c_app c) (c_proc c) ;;
      match c_kind c with
      | KStart =>
          if sp_stopped pr then
            do o <- take_place ;;
            do c1 <- (match o with Some i => update_identifier c i | None => ret c end) ;;
            match c_ident c1 with
            | Some i =>
                do s <- mget ;;
                do cnt <- lift_opt (counter_of s i) OtherError ;;
                do _ <- put_cmd (set_req c1 cnt) ;;
                do _ <- job_append jid cid ;;
                ret ([AJGroup jid rest], [OStart i (c_app c) (c_proc c)])
            | None =>
                do s <- mget ;;
                do _ <- put_cmd c1 ;;
                ret ([Force (c_app c) (c_proc c) None (s_now s) FATAL (-1);
                      ProcFailure jid (c_app c) (c_proc c); AJGroup jid rest], [])
            end
          else ret ([AJGroup jid rest], [])
      | KStop =>
          match c_ident c with
          | Some i =>
              if sp_running_on pr i then
                do s <- mget ;;
                do cnt <- lift_opt (counter_of s i) OtherError ;;
                do _ <- put_cmd (set_req c cnt) ;;
                do _ <- job_append jid cid ;;
                ret ([AJGroup jid rest], [OStop i (c_app c) (c_proc c)])
              else ret ([AJGroup jid rest], [])
          | None => ret ([AJGroup jid rest], [])
          end
      end
  end.

Definition step_proc_failure (jid a p : Z) : M R :=
  do j <- get_job jid ;;
  do pr <- get_sproc a p ;;
  do _ <- put_job jid (process_failure j (sp_rules pr)) ;;
  ret ([], []).

(* listener.force_process_state: fsm.on_process_state_event(local_status, forced payload), then publication *)
Definition step_force (a p : Z) (target : option Z) (et : Z) (fs : pstate) (reason : Z) : M R :=
  do s <- mget ;;
  let local_ok := match aget local_id (s_insts s) with Some ins => inst_accepts ins | None => false end in
  match local_ok, get_proc s a p with
  | true, Some pr =>
      let '(p', forced) := force_state (sp_st pr) (match target with Some i => i | None => 0 end) fs et in
      if forced then
        do _ <- put_sproc a p (set_sp_st pr p' (sp_stop0 pr)) true ;;
        ret ([COnEvent KStart a p local_id; COnEvent KStop a p local_id; CEmit (OPub a p fs true)],
             [OForced a p fs reason target])
      else ret ([CEmit (OPub a p fs false)], [OForced a p fs reason target])
  | _, _ => ret ([CEmit (OPub a p fs false)], [OForced a p fs reason target])
  end.

Definition step_on_event (k : kind) (a p i : Z) : M R :=
  do s <- mget ;;
  match aget a (cm_current (get_cmdr k s)) with
  | Some jid => ret ([AJOnEvent jid p i; CNext k], [])
  | None => ret ([], [])
  end.

Definition step_aj_on_event (jid p i : Z) : M R :=
  do j <- get_job jid ;;
  do s <- mget ;;
  match find_cmd s (j_current j) p (Some i) with
  | None => ret ([], [])
  | Some c =>
      do pr <- get_sproc (c_app c) (c_proc c) ;;
      do inf <- lift_opt (aget i (p_infos (sp_st pr))) TypeError ;;
      let '(res, reset) := cmd_on_event (c_kind c) (pr_wait_exit (sp_rules pr)) (c_ignore_we c)
                                        (i_state inf) (i_expected inf) in
      do _ <- (if reset then do cnt <- lift_opt (counter_of s i) OtherError ;; put_cmd (set_req c cnt) else ret tt) ;;
      match res with
      | SUCCESS | FAILED =>
          do cur <- lift_opt (zremove (c_id c) (j_current j)) ValueError ;;
          let j1 := set_job_fields j (j_planned j) cur (j_stop_request j) in
          let j2 := match res with FAILED => process_failure j1 (sp_rules pr) | _ => j1 end in
          do _ <- put_job jid j2 ;;
          ret ([AJNext jid], [])
      | _ => ret ([], [])
      end
  end.

Definition step_aj_check_cmd (jid cid : Z) : M R :=
  do c <- get_cmd cid ;;
  do pr <- get_sproc (c_app c) (c_proc c) ;;
  do i <- lift_opt (c_ident c) TypeError ;;
  do inf <- lift_opt (aget i (p_infos (sp_st pr))) TypeError ;;
  do s <- mget ;;
  do cnt <- lift_opt (counter_of s i) OtherError ;;
  let '(expected, res) := cmd_timed_out (c_kind c) (pr_wait_exit (sp_rules pr)) (c_ignore_we c) (i_state inf)
                                        (c_req c) (c_min c) (c_wait c) cnt in
  match res with
  | TIMED_OUT =>
      do j <- get_job jid ;;
      do cur <- lift_opt (zremove cid (j_current j)) ValueError ;;
      do _ <- put_job jid (set_job_fields j (j_planned j) cur (j_stop_request j)) ;;
      ret ([Force (c_app c) (c_proc c) (Some i) (i_event_time inf) (failure_state (c_kind c)) (pcode expected)], [])
  | SUCCESS =>
      do j <- get_job jid ;;
      do cur <- lift_opt (zremove cid (j_current j)) ValueError ;;
      do _ <- put_job jid (set_job_fields j (j_planned j) cur (j_stop_request j)) ;;
      ret ([], [])
  | _ => ret ([], [])
  end.

(* Starter.start_process *)
Definition step_start_proc (strategy a p : Z) : M R :=
  do pr <- get_sproc a p ;;
  if sp_stopped pr then
    do cid <- new_start_cmd a p strategy true ;;
    do s <- mget ;;
    do _ <- (match get_application_job (s_starter s) a with
             | Some jid => add_commands jid (pr_start (sp_rules pr)) [cid]
             | None =>
                 do ap <- get_app a ;;
                 do jid <- new_job KStart a [(pr_start (sp_rules pr), [cid])] ;;
                 mmod (fun s => set_cmdr KStart (plan_job (s_starter s) (sa_start ap) a jid) s)
             end) ;;
    ret ([CNext KStart], [])
  else ret ([], []).

(* Stopper.stop_process *)
Definition step_stop_proc (a p : Z) (ids : list Z) : M R :=
  do pr <- get_sproc a p ;;
  do cids <- stop_cmds_of a p ids ;;
  match cids with
  | [] => ret ([], [])
  | _ =>
      do s <- mget ;;
      do _ <- (match get_application_job (s_stopper s) a with
               | Some jid => add_commands jid (pr_stop (sp_rules pr)) cids
               | None =>
                   do ap <- get_app a ;;
                   do jid <- new_job KStop a [(pr_stop (sp_rules pr), cids)] ;;
                   mmod (fun s => set_cmdr KStop (plan_job (s_stopper s) (sa_stop ap) a jid) s)
               end) ;;
      ret ([CNext KStop], [])
  end.

Definition step_call (c : call) : M R :=
  match c with
  | CNext k => do s <- mget ;; ret ([CNextLoop k (cm_current (get_cmdr k s)); CNextPop k; CPublish k], [])
  | CNextLoop k snap => step_next_loop k snap
  | CAfter k jid => step_after k jid
  | CAfterProcs a => step_after_procs a
  | CDelCurrent k a =>
      do s <- mget ;;
      let cm := get_cmdr k s in
      if amem a (cm_current cm) then
        do _ <- mmod (set_cmdr k (mkCmdr (cm_planned cm) (adel a (cm_current cm)))) ;; ret ([], [])
      else fail KeyError
  | CNextPop k => step_next_pop k
  | CStartJobs k snap =>
      match snap with
      | [] => ret ([], [])
      | (_, jid) :: rest => ret ([AJNext jid; CStartJobs k rest], [])
      end
  | CPublish k => do _ <- mmod (fun s => set_sm k (cmdr_in_progress (get_cmdr k s)) s) ;; ret ([], [])
  | AJNext jid => step_aj_next jid
  | AJGroup jid g => step_aj_group jid g
  | ProcFailure jid a p => step_proc_failure jid a p
  | Force a p t et fs r => step_force a p t et fs r
  | CEmit o => ret ([], [o])
  | COnEvent k a p i => step_on_event k a p i
  | AJOnEvent jid p i => step_aj_on_event jid p i
  | CCheck k => do s <- mget ;; ret (map AJCheck (avals (cm_current (get_cmdr k s))) ++ [CNext k], [])
  | AJCheck jid => do j <- get_job jid ;; ret (map (AJCheckCmd jid) (j_current j) ++ [AJNext jid], [])
  | AJCheckCmd jid cid => step_aj_check_cmd jid cid
  | CInval k => do _ <- mmod (inval_cmdr k) ;; ret ([CNext k], [])
  | CStartApp strategy a =>
      do ap <- get_app a ;;
      if app_stopped ap then do _ <- starter_store a (Some strategy) ;; ret ([CNext KStart], [])
      else ret ([], [])
  | CStartProc strategy a p => step_start_proc strategy a p
  | CStopApp a =>
      do ap <- get_app a ;;
      if app_has_running ap then do _ <- stopper_store a ;; ret ([CNext KStop], [])
      else ret ([], [])
  | CRestartApp strategy a =>
      do ap <- get_app a ;;
      if app_has_running ap then
        do _ <- mmod (fun s => set_reqs (aset a strategy (s_app_req s)) (s_proc_req s) s) ;;
        ret ([CStopApp a], [])
      else ret ([CStartApp strategy a], [])
  | CStopProc a p ids => step_stop_proc a p ids
  | CRestartProc strategy a p =>
      do pr <- get_sproc a p ;;
      if sp_running pr then
        do _ <- mmod (fun s => set_reqs (s_app_req s) (aappend a (strategy, p) (s_proc_req s)) s) ;;
        ret ([CStopProc a p []], [])
      else ret ([CStartProc strategy a p], [])
  | CStartApps =>
      do s <- mget ;;
      do _ <- mmap (fun kv => let ap := snd kv in
                      if Z.ltb 0 (sa_start ap) && (app_never_started ap || sa_major ap || sa_minor ap)
                      then starter_store (fst kv) None else ret tt) (s_apps s) ;;
      ret ([CNext KStart], [])
  | CStopApps =>
      do s <- mget ;;
      do _ <- mmap (fun kv => if app_has_running (snd kv) then stopper_store (fst kv) else ret tt) (s_apps s) ;;
      ret ([CNext KStop], [])
  | CAbort k => do _ <- mmod (set_cmdr k cmdr_empty) ;; ret ([], [])
  end.

(* ------------------------------------------------------------------ the agenda machine *)
Fixpoint exec (fuel : nat) (ag : list call) (s : st) (acc : list out) : result (st * list out) :=
  match ag with
  | [] => Ok (s, rev acc)
  | c :: rest =>
      match fuel with
      | O => Crash OutOfFuel
      | S f =>
          match step_call c s with
          | Crash k => Crash k
          | Ok ((push, outs), s') => exec f (push ++ rest) s' (rev outs ++ acc)
          end
      end
  end.

(* ------------------------------------------------------------------ operations of a history *)
Inductive op :=
| OpEvent (i a p : Z) (state : pstate) (expected : bool) (now_mono : Z)
     (* fsm.on_process_state_event(instances[i], payload) *)
| OpTick (i cnt mtime : Z)            (* instances[i].update_tick(cnt, mtime, _) *)
| OpTicks (l : list (Z * Z)) (mtime : Z)  (* the same for several instances (i, cnt), one after the other *)
| OpCheck                             (* starter.check(); stopper.check()  (FiniteStateMachine.next) *)
| OpCtxInvalidate (ids : list Z)      (* instances FAILED; lost, failed = context.invalidate_failed() *)
| OpCmdInvalidate                     (* _common_next: starter/stopper.on_instances_invalidation(lost, failed) *)
| OpInstState (i code : Z)            (* instances[i]._state = code (by data) *)
| OpCall (c : call).                  (* user / fsm requests on the Starter and the Stopper *)

Definition ev_event (i a p : Z) (state : pstate) (expected : bool) (nm : Z) : M (list call) :=
  do s <- mget ;;
  match aget i (s_insts s), get_proc s a p with
  | Some ins, Some pr =>
      if inst_accepts ins && amem i (p_infos (sp_st pr)) then
        match update_info (sp_st pr) i state expected nm (s_now s) true with
        | Crash k => fail k
        | Ok p' =>
            let stop0 := if is_stopped state && negb (pstate_eqb state FATAL) then zdiscard i (sp_stop0 pr)
                         else sp_stop0 pr in
            do _ <- put_sproc a p (set_sp_st pr p' stop0) true ;;
            ret [COnEvent KStart a p i; COnEvent KStop a p i]
        end
      else ret []
  | _, _ => ret []
  end.

Definition map_procs (f : Z -> Z -> sproc -> sproc) (s : st) : st :=
  set_apps (map (fun akv => (fst akv, app_set_procs (snd akv)
                    (map (fun pkv => (fst pkv, f (fst akv) (fst pkv) (snd pkv))) (sa_procs (snd akv))))) (s_apps s)) s.

Definition ev_tick (i cnt mtime : Z) : M (list call) :=
  do s <- mget ;;
  match aget i (s_insts s) with
  | Some ins =>
      do _ <- mmod (set_insts (aset i (mkSInst (in_state ins) cnt) (s_insts s))) ;;
      do _ <- mmod (map_procs (fun _ _ pr =>
                 match step (sp_st pr) (TickTimes i mtime) with
                 | Ok p' => set_sp_st pr p' (sp_stop0 pr) | Crash _ => pr end)) ;;
      ret []
  | None => ret []
  end.

(* Context.invalidate_failed for the instances [ids] (already FAILED) *)
Fixpoint inval_procs (i : Z) (targets : list (Z * Z)) (failed : list (Z * Z)) : M (list (Z * Z)) :=
  match targets with
  | [] => ret failed
  | (a, p) :: r =>
      do pr <- get_sproc a p ;;
      do s <- mget ;;
      match invalidate (sp_st pr) i (s_now s) with
      | Crash k => fail k
      | Ok p' =>
          do _ <- put_sproc a p (set_sp_st pr p' (sp_stop0 pr)) false ;;
          let failed' := match p_running p' with
                         | [] => if existsb (fun x => Z.eqb (fst x) a && Z.eqb (snd x) p) failed then failed
                                 else failed ++ [(a, p)]
                         | _ => failed end in
          inval_procs i r failed'
      end
  end.

Definition all_procs (s : st) : list (Z * Z * sproc) :=
  concat (map (fun akv => map (fun pkv => (fst akv, fst pkv, snd pkv)) (sa_procs (snd akv))) (s_apps s)).

Fixpoint ctx_invalidate (insts : list Z) (ids : list Z) (lost : list Z) (failed : list (Z * Z))
  : M (list Z * list (Z * Z)) :=
  match insts with
  | [] => ret (lost, failed)
  | i :: r =>
      if zmem i ids then
        do s <- mget ;;
        do ins <- lift_opt (aget i (s_insts s)) OtherError ;;
        do _ <- mmod (set_insts (aset i (mkSInst gen_SupvisorsInstanceStates_STOPPED (in_counter ins)) (s_insts s))) ;;
        let targets := map (fun x => (fst (fst x), snd (fst x)))
                           (filter (fun x => sp_running_on (snd x) i) (all_procs s)) in
        do failed' <- inval_procs i targets failed ;;
        (* then every process known on the instance (status.processes): those STOPPING there are invalidated
           too, without entering failed_processes *)
        let others := map (fun x => (fst (fst x), snd (fst x)))
                          (filter (fun x => amem i (p_infos (sp_st (snd x)))) (all_procs s)) in
        do _ <- inval_procs i others [] ;;
        ctx_invalidate r ids (lost ++ [i]) failed'
      else ctx_invalidate r ids lost failed
  end.

Definition ev_ctx_invalidate (ids : list Z) : M (list call) :=
  do s <- mget ;;
  do lf <- ctx_invalidate (akeys (s_insts s)) ids [] [] ;;
  let '(lost, failed) := lf in
  (* publish_process_failures: application.update() of the applications holding a failed process *)
  do _ <- mmod (fun s => set_apps (map (fun akv => if existsb (fun x => Z.eqb (fst x) (fst akv)) failed
                                                    then (fst akv, app_update (snd akv)) else akv) (s_apps s)) s) ;;
  do _ <- mmod (set_lost lost failed) ;;
  ret [].

Definition op_calls (o : op) : M (list call) :=
  match o with
  | OpEvent i a p state e nm => ev_event i a p state e nm
  | OpTick i cnt mt => ev_tick i cnt mt
  | OpTicks l mt => do _ <- mmap (fun ic => ev_tick (fst ic) (snd ic) mt) l ;; ret []
  | OpCheck => ret [CCheck KStart; CCheck KStop]
  | OpCtxInvalidate ids => ev_ctx_invalidate ids
  | OpCmdInvalidate => do s <- mget ;; match s_lost s with [] => ret [] | _ => ret [CInval KStart; CInval KStop] end
  | OpInstState i code =>
      do s <- mget ;;
      match aget i (s_insts s) with
      | Some ins => do _ <- mmod (set_insts (aset i (mkSInst code (in_counter ins)) (s_insts s))) ;; ret []
      | None => ret []
      end
  | OpCall c => ret [c]
  end.

(* one timed operation: local clock value, oracle answers recorded by the driver during the operation *)
Definition top := (op * Z * list oracle)%type.

Definition default_fuel : nat := 4000.

Definition run_op (fuel : nat) (s : st) (t : top) : result (st * list out) :=
  let '(o, now, orc) := t in
  match op_calls o (set_now_oracle now orc s) with
  | Crash k => Crash k
  | Ok (ag, s1) => exec fuel ag s1 []
  end.

(* ------------------------------------------------------------------ observable *)
(* flat encoding (lists are length-prefixed) of everything that is compared besides the requests and the flags *)
Definition enc_list {A} (f : A -> list Z) (l : list A) : list Z := Z.of_nat (length l) :: concat (map f l).
Definition enc_opt (o : option Z) : list Z := match o with Some x => [1; x] | None => [0] end.
Definition enc_bool (b : bool) : list Z := [if b then 1 else 0].

Definition enc_cmd (s : st) (cid : Z) : list Z :=
  match aget cid (s_cmds s) with
  | Some c => [c_app c; c_proc c] ++ enc_opt (c_ident c) ++ [c_req c; c_wait c] ++ enc_bool (c_ignore_we c)
  | None => [-1]
  end.
Definition enc_job (s : st) (jid : Z) : list Z :=
  match aget jid (s_jobs s) with
  | Some j => enc_list (fun kv => fst kv :: enc_list (enc_cmd s) (snd kv)) (j_planned j)
              ++ enc_list (enc_cmd s) (j_current j) ++ enc_bool (j_stop_request j)
  | None => [-1]
  end.
Definition enc_cmdr (s : st) (c : commander) : list Z :=
  enc_list (fun kv => fst kv :: enc_list (fun aj => fst aj :: enc_job s (snd aj)) (snd kv)) (cm_planned c)
  ++ enc_list (fun aj => fst aj :: enc_job s (snd aj)) (cm_current c).

Definition enc_proc (pkv : Z * sproc) : list Z :=
  let p := sp_st (snd pkv) in
  [fst pkv; pcode (p_state p); pcode (displayed p)] ++ enc_list (fun x => [x]) (zsort (p_running p)).
Definition enc_app (akv : Z * sapp) : list Z :=
  [fst akv; acode (sa_state (snd akv))] ++ enc_bool (sa_major (snd akv)) ++ enc_bool (sa_minor (snd akv))
  ++ enc_list enc_proc (sa_procs (snd akv)).

Fixpoint pinsert (x : Z * Z) (l : list (Z * Z)) : list (Z * Z) :=
  match l with
  | [] => [x]
  | y :: r => if Z.ltb (fst x) (fst y) || (Z.eqb (fst x) (fst y) && Z.leb (snd x) (snd y)) then x :: l
              else y :: pinsert x r
  end.
Definition psort (l : list (Z * Z)) : list (Z * Z) := fold_right pinsert [] l.

Definition dump (s : st) : list Z :=
  enc_cmdr s (s_starter s) ++ enc_cmdr s (s_stopper s)
  ++ enc_list (fun kv => [fst kv; snd kv]) (s_app_req s)
  ++ enc_list (fun kv => fst kv :: enc_list (fun sp => [fst sp; snd sp]) (snd kv)) (s_proc_req s)
  ++ enc_list (fun x => [fst x; snd x]) (psort (s_failed s))
  ++ enc_list enc_app (s_apps s).

(* observation after one operation: requests in emission order, starter.in_progress(), stopper.in_progress(),
   state_modes.starting_jobs / stopping_jobs, dump *)
Inductive obs :=
| OOk (outs : list out) (starting stopping sm_starting sm_stopping : bool) (d : list Z)
| OCrash (k : crash).

Definition observe (s : st) (outs : list out) : obs :=
  OOk outs (cmdr_in_progress (s_starter s)) (cmdr_in_progress (s_stopper s)) (s_sm_starting s) (s_sm_stopping s)
      (dump s).

Fixpoint run (fuel : nat) (s : st) (ops : list top) : list obs :=
  match ops with
  | [] => []
  | t :: r => match run_op fuel s t with
              | Ok (s', outs) => observe s' outs :: run fuel s' r
              | Crash k => [OCrash k]
              end
  end.

Definition out_eqb (a b : out) : bool :=
  match a, b with
  | OStart i1 a1 p1, OStart i2 a2 p2 => Z.eqb i1 i2 && Z.eqb a1 a2 && Z.eqb p1 p2
  | OStop i1 a1 p1, OStop i2 a2 p2 => Z.eqb i1 i2 && Z.eqb a1 a2 && Z.eqb p1 p2
  | OForced a1 p1 f1 r1 t1, OForced a2 p2 f2 r2 t2 =>
      Z.eqb a1 a2 && Z.eqb p1 p2 && pstate_eqb f1 f2 && Z.eqb r1 r2 && option_eqb Z.eqb t1 t2
  | OPub a1 p1 f1 c1, OPub a2 p2 f2 c2 => Z.eqb a1 a2 && Z.eqb p1 p2 && pstate_eqb f1 f2 && Bool.eqb c1 c2
  | _, _ => false
  end.

Definition obs_eqb (a b : obs) : bool :=
  match a, b with
  | OOk o1 a1 b1 c1 d1 e1, OOk o2 a2 b2 c2 d2 e2 =>
      list_eqb out_eqb o1 o2 && Bool.eqb a1 a2 && Bool.eqb b1 b2 && Bool.eqb c1 c2 && Bool.eqb d1 d2
      && list_eqb Z.eqb e1 e2
  | OCrash k1, OCrash k2 => crash_eqb k1 k2
  | _, _ => false
  end.

(* ------------------------------------------------------------------ initial configuration *)
(* rules + initial process table as loaded by Context.load_processes (every process STOPPED, never started,
   known on the listed instances) *)
Record pconf := mkPConf {
  pc_name : Z; pc_rules : prules; pc_startsecs : Z; pc_stopwaitsecs : Z; pc_insts : list Z }.
Record aconf := mkAConf {
  ac_name : Z; ac_managed : bool; ac_start : Z; ac_stop : Z; ac_strategy : Z; ac_procs : list pconf }.
Record config := mkConfig { cf_insts : list (Z * Z * Z) (* id, state, counter *); cf_apps : list aconf;
                            cf_now : Z }.

Definition init_proc (now : Z) (pc : pconf) : sproc :=
  let p := fold_left (fun p i => match add_info p i STOPPED true now false now with Ok p' => p' | Crash _ => p end)
                     (pc_insts pc) proc_init in
  mkSProc (pc_rules pc) p (pc_insts pc) (pc_startsecs pc) (pc_stopwaitsecs pc).

Definition init_app (now : Z) (ac : aconf) : sapp :=
  app_update (mkSApp (ac_managed ac) (ac_start ac) (ac_stop ac) (ac_strategy ac)
                     (map (fun pc => (pc_name pc, init_proc now pc)) (ac_procs ac)) ASTOPPED false false).

Definition init_st (cf : config) : st :=
  mkSt (map (fun x => (fst (fst x), mkSInst (snd (fst x)) (snd x))) (cf_insts cf))
       (map (fun ac => (ac_name ac, init_app (cf_now cf) ac)) (cf_apps cf))
       [] [] 1 cmdr_empty cmdr_empty [] [] false false [] [] (cf_now cf) [].

Definition case := (config * list top * list obs)%type.

Definition case_mismatch (c : case) : bool :=
  let '(cf, ops, observed) := c in
  negb (list_eqb obs_eqb (run default_fuel (init_st cf) ops) observed).

Definition mismatches (cs : list case) : list nat := find_idx case_mismatch cs.

(* ====================================================================================================
   Abstract specifications Spec_C03 / Spec_C09 / Spec_C10, written from the property statements, as CHECKERS
   of an observed trace (operations in, requests out).  They use no part of the Starter/Stopper model above:
   only the rules (config), the operations, and the observed outputs.

   Bookkeeping: a request is OUTSTANDING from its emission until it is done or given up, as the properties list:
   the targeted instance reported RUNNING (or EXITED-expected when wait_exit), a failing state, a forced state
   was published for it (timeout / no resource), its instance was invalidated, or the sequencer was aborted.
   Requests made for a single process by the user (start_process / stop_process / restart_process) are
   'manual': they are outside the application sequencing the properties speak about (sticky mark per process).
   ==================================================================================================== *)
Inductive vio :=
| V_start_order        (* C03: a process of the same application with another (lower) sequence is not done *)
| V_app_order          (* C03: an application with another (lower) positive sequence is not done *)
| V_zero               (* C03: start_sequence 0 requested automatically *)
| V_strategy           (* C03: request for an application after a required ABORT/STOP failure *)
| V_strategy_timeout   (* C03: same, the failure being a timeout (reported apart) *)
| V_stop_order         (* C09: stop request while another stop_sequence of the application is in flight *)
| V_stop_app_order     (* C09: same at application level *)
| V_together           (* C09: a stop_sequence group emitted over several steps *)
| V_where_running      (* C09: stop sent where the process is not running *)
| V_bound              (* C10: request still in progress after the tick bound and a periodic check *)
| V_progress.          (* C10: in_progress() reported although no request is in flight, or the converse *)

Definition vio_code (v : vio) : Z :=
  match v with
  | V_start_order => 1 | V_app_order => 2 | V_zero => 3 | V_strategy => 4 | V_strategy_timeout => 5
  | V_stop_order => 6 | V_stop_app_order => 7 | V_together => 8 | V_where_running => 9
  | V_bound => 10 | V_progress => 11
  end.

Record oreq := mkOReq {
  o_kind : kind; o_a : Z; o_p : Z; o_i : Z; o_manual : bool;
  o_op : Z;      (* index of the operation that emitted it *)
  o_ref : Z;     (* tick counter of the target when requested (reset by BACKOFF) *)
  o_soft : bool;   (* a request attributed to the user for a wait_exit program that is RUNNING: the trace cannot tell
                      whether it was the user command (done) or the application command (waiting for the exit);
                      it constrains nothing and may justify a reported progress *)
  o_lost : bool }. (* its host was lost (given up for the ordering statements; C10 still follows it until the
                      sequencer drops it) *)

Record sspec := mkSSpec {
  ss_insts : alist sinst;
  ss_last : list (Z * Z * Z * pstate);   (* last accepted report of (a, p, i) *)
  ss_reqs : list oreq;
  ss_manual_start : list (Z * Z);
  ss_manual_stop : list (Z * Z * Z);     (* (a, p, i) : stop asked for that process by the user, not yet emitted *)
  ss_user_apps : list Z;                 (* applications the user asked to start *)
  ss_plans : alist Z;                    (* app -> number of start plans requested so far *)
  ss_aborts : alist Z;                   (* app -> number of aborted runs so far *)
  ss_flag : list Z;                      (* apps whose current run is aborted (FAILED / no resource / lost) *)
  ss_flag_to : list Z;                   (* ... by a timeout *)
  ss_lostids : list Z;
  ss_noresource : bool;                  (* a 'No resource available' failure occurred (class of F-A) *)
  ss_cnt : alist Z;                      (* counters: plans / runs / last sequence per application and globally *)
  ss_vios : list vio }.

Definition pair_mem (a p : Z) (l : list (Z * Z)) : bool := existsb (fun x => Z.eqb (fst x) a && Z.eqb (snd x) p) l.

Definition cf_app (cf : config) (a : Z) : option aconf := find (fun ac => Z.eqb (ac_name ac) a) (cf_apps cf).
Definition cf_proc (cf : config) (a p : Z) : option pconf :=
  match cf_app cf a with Some ac => find (fun pc => Z.eqb (pc_name pc) p) (ac_procs ac) | None => None end.
Definition cf_rules (cf : config) (a p : Z) : prules :=
  match cf_proc cf a p with Some pc => pc_rules pc | None => mkPRules 0 0 false false 0 end.
Definition cf_app_start (cf : config) (a : Z) : Z := match cf_app cf a with Some ac => ac_start ac | None => 0 end.
Definition cf_app_stop (cf : config) (a : Z) : Z := match cf_app cf a with Some ac => ac_stop ac | None => 0 end.

Definition last_state (ss : sspec) (a p i : Z) : pstate :=
  match find (fun x => let '(a', p', i', _) := x in Z.eqb a a' && Z.eqb p p' && Z.eqb i i') (ss_last ss) with
  | Some (_, _, _, s) => s
  | None => STOPPED
  end.
Definition set_last (l : list (Z * Z * Z * pstate)) (a p i : Z) (s : pstate) : list (Z * Z * Z * pstate) :=
  (a, p, i, s) :: filter (fun x => let '(a', p', i', _) := x in negb (Z.eqb a a' && Z.eqb p p' && Z.eqb i i')) l.

Definition ss_with (ss : sspec) (insts : alist sinst) (last : list (Z * Z * Z * pstate)) (reqs : list oreq) : sspec :=
  mkSSpec insts last reqs (ss_manual_start ss) (ss_manual_stop ss) (ss_user_apps ss) (ss_plans ss) (ss_aborts ss)
          (ss_flag ss) (ss_flag_to ss) (ss_lostids ss) (ss_noresource ss) (ss_cnt ss) (ss_vios ss).
Definition ss_marks (ss : sspec) (ms : list (Z * Z)) (mp : list (Z * Z * Z)) (ua : list Z) (plans : alist Z) : sspec :=
  mkSSpec (ss_insts ss) (ss_last ss) (ss_reqs ss) ms mp ua plans (ss_aborts ss)
          (ss_flag ss) (ss_flag_to ss) (ss_lostids ss) (ss_noresource ss) (ss_cnt ss) (ss_vios ss).
Definition ss_flags (ss : sspec) (aborts : alist Z) (flag flag_to : list Z) (nores : bool) : sspec :=
  mkSSpec (ss_insts ss) (ss_last ss) (ss_reqs ss) (ss_manual_start ss) (ss_manual_stop ss) (ss_user_apps ss)
          (ss_plans ss) aborts flag flag_to (ss_lostids ss) nores (ss_cnt ss) (ss_vios ss).
Definition ss_lost_set (ss : sspec) (l : list Z) : sspec :=
  mkSSpec (ss_insts ss) (ss_last ss) (ss_reqs ss) (ss_manual_start ss) (ss_manual_stop ss) (ss_user_apps ss)
          (ss_plans ss) (ss_aborts ss) (ss_flag ss) (ss_flag_to ss) l (ss_noresource ss) (ss_cnt ss) (ss_vios ss).
Definition ss_add_vio (ss : sspec) (v : vio) : sspec :=
  mkSSpec (ss_insts ss) (ss_last ss) (ss_reqs ss) (ss_manual_start ss) (ss_manual_stop ss) (ss_user_apps ss)
          (ss_plans ss) (ss_aborts ss) (ss_flag ss) (ss_flag_to ss) (ss_lostids ss) (ss_noresource ss)
          (ss_cnt ss) (v :: ss_vios ss).
Definition ss_set_cnt (ss : sspec) (c : alist Z) : sspec :=
  mkSSpec (ss_insts ss) (ss_last ss) (ss_reqs ss) (ss_manual_start ss) (ss_manual_stop ss) (ss_user_apps ss)
          (ss_plans ss) (ss_aborts ss) (ss_flag ss) (ss_flag_to ss) (ss_lostids ss) (ss_noresource ss) c (ss_vios ss).
Definition aget0 (k : Z) (l : alist Z) : Z := match aget k l with Some x => x | None => 0 end.

(* counters: what = 1 plans requested, 2 runs observed, 3 a last sequence is known, 4 last sequence; a = 0 is the
   application level (sequence numbers of the applications) *)
Definition ck (what : Z) (k : kind) (a : Z) : Z :=
  what * 1000000 + (match k with KStart => 0 | KStop => 1 end) * 100000 + a.
Definition cnt_get (ss : sspec) (what : Z) (k : kind) (a : Z) : Z := aget0 (ck what k a) (ss_cnt ss).
Definition cnt_set (ss : sspec) (what : Z) (k : kind) (a : Z) (v : Z) : sspec :=
  ss_set_cnt ss (aset (ck what k a) v (ss_cnt ss)).
Definition cnt_incr (ss : sspec) (what : Z) (k : kind) (a : Z) : sspec :=
  cnt_set ss what k a (cnt_get ss what k a + 1).
(* a new plan for application a (and hence at application level) *)
Definition plan_incr (ss : sspec) (k : kind) (a : Z) : sspec := cnt_incr (cnt_incr ss 1 k a) 1 k 0.

(* direction of the emitted sequence numbers: within one run they only grow (Starter) / decrease (Stopper);
   going the other way is legitimate only when a further plan was requested *)
Definition track_seq (ss : sspec) (k : kind) (a : Z) (s : Z) (v : vio) : sspec :=
  let wrong (last : Z) := match k with KStart => Z.ltb s last | KStop => Z.ltb last s end in
  let ss1 :=
    if Z.eqb (cnt_get ss 3 k a) 0 then cnt_incr ss 2 k a
    else if wrong (cnt_get ss 4 k a)
         then cnt_incr (if Z.ltb (cnt_get ss 2 k a) (cnt_get ss 1 k a) then ss else ss_add_vio ss v) 2 k a
         else ss in
  cnt_set (cnt_set ss1 3 k a 1) 4 k a s.

Definition ss_check (ss : sspec) (ok : bool) (v : vio) : sspec := if ok then ss else ss_add_vio ss v.


(* whoever asked for the failing start (the trace cannot always tell the user command from the application
   command), a required STOP-strategy failure may make the Starter ask the Stopper to stop the application *)
Definition spec_failure_manual (cf : config) (ss : sspec) (a p : Z) : sspec :=
  let r := cf_rules cf a p in
  if pr_required r && Z.eqb (pr_sfs r) gen_StartingFailureStrategies_STOP then plan_incr ss KStop a else ss.

(* a required process of application a failed to start: the run is aborted for ABORT / STOP *)
Definition spec_failure (cf : config) (ss : sspec) (a p : Z) (timeout : bool) : sspec :=
  let r := cf_rules cf a p in
  if pr_required r && (Z.eqb (pr_sfs r) gen_StartingFailureStrategies_ABORT
                       || Z.eqb (pr_sfs r) gen_StartingFailureStrategies_STOP) then
    if timeout then ss_flags ss (ss_aborts ss) (ss_flag ss) (zadd a (ss_flag_to ss)) (ss_noresource ss)
    else if zmem a (ss_flag ss) then ss
    else
      (* with STOP the Starter will ask the Stopper to stop the application: one more stop plan *)
      let ss0 := if Z.eqb (pr_sfs r) gen_StartingFailureStrategies_STOP then plan_incr ss KStop a else ss in
      ss_flags ss0 (aset a (aget0 a (ss_aborts ss0) + 1) (ss_aborts ss0)) (zadd a (ss_flag ss0)) (ss_flag_to ss0)
               (ss_noresource ss0)
  else ss.

(* does this reported state complete (Some false) / fail (Some true) a start request, or leave it pending *)
Definition start_done (r : prules) (manual : bool) (s : pstate) (expected : bool) : option bool :=
  match s with
  | STARTING | BACKOFF => None
  | RUNNING => if pr_wait_exit r && negb manual then None else Some false
  | EXITED => if pr_wait_exit r && expected then Some false else Some true
  | _ => Some true
  end.

Definition listed_like (s : pstate) : bool :=
  match s with STARTING | BACKOFF | RUNNING | STOPPING => true | _ => false end.
Definition spec_proc_insts (cf : config) (a p : Z) : list Z :=
  match cf_proc cf a p with Some pc => pc_insts pc | None => [] end.
(* ProcessStatus.stopped() as C11 specifies it: no instance lists the process *)
Definition spec_proc_stopped (cf : config) (ss : sspec) (a p : Z) : bool :=
  forallb (fun i => negb (listed_like (last_state ss a p i))) (spec_proc_insts cf a p).
Definition spec_stop_marks (cf : config) (ss : sspec) (a p : Z) (ids : list Z) : list (Z * Z * Z) :=
  map (fun i => (a, p, i))
      (filter (fun i => listed_like (last_state ss a p i) && match ids with [] => true | _ => zmem i ids end)
              (spec_proc_insts cf a p)).
Definition triple_mem (a p i : Z) (l : list (Z * Z * Z)) : bool :=
  existsb (fun x => let '(a', p', i') := x in Z.eqb a a' && Z.eqb p p' && Z.eqb i i') l.
Fixpoint pair_remove (a p : Z) (l : list (Z * Z)) : list (Z * Z) :=
  match l with
  | [] => []
  | x :: r => if Z.eqb (fst x) a && Z.eqb (snd x) p then r else x :: pair_remove a p r
  end.

Definition spec_event (cf : config) (ss : sspec) (i a p : Z) (s : pstate) (expected : bool) : sspec :=
  let accepted := match aget i (ss_insts ss), cf_proc cf a p with
                  | Some ins, Some pc => inst_accepts ins && zmem i (pc_insts pc)
                  | _, _ => false end in
  if negb accepted then ss else
  let cnt := match aget i (ss_insts ss) with Some ins => in_counter ins | None => 0 end in
  let mine (o : oreq) := Z.eqb (o_a o) a && Z.eqb (o_p o) p && Z.eqb (o_i o) i in
  let r := cf_rules cf a p in
  let failed := existsb (fun o => mine o && kind_eqb (o_kind o) KStart && negb (o_manual o)
                                  && match start_done r (o_manual o) s expected with Some true => true | _ => false end)
                        (ss_reqs ss) in
  let reqs := flat_map (fun o =>
      if mine o then
        match o_kind o with
        | KStart => match start_done r (o_manual o) s expected with
                    | Some _ => if o_manual o && pr_wait_exit r && pstate_eqb s RUNNING
                                then [mkOReq (o_kind o) (o_a o) (o_p o) (o_i o) true (o_op o) (o_ref o) true (o_lost o)]
                                else []
                    | None => [if pstate_eqb s BACKOFF
                               then mkOReq (o_kind o) (o_a o) (o_p o) (o_i o) (o_manual o) (o_op o) cnt (o_soft o) (o_lost o) else o]
                    end
        | KStop => if is_stopped s then [] else [o]
        end
      else [o]) (ss_reqs ss) in
  let failed_manual := existsb (fun o => mine o && kind_eqb (o_kind o) KStart && o_manual o
                                  && match start_done r (o_manual o) s expected with Some true => true | _ => false end)
                               (ss_reqs ss) in
  let ss1 := ss_with ss (ss_insts ss) (set_last (ss_last ss) a p i s) reqs in
  if failed then spec_failure cf ss1 a p false
  else if failed_manual then spec_failure_manual cf ss1 a p else ss1.


Definition spec_op (cf : config) (ss : sspec) (o : op) : sspec :=
  match o with
  | OpEvent i a p s e _ => spec_event cf ss i a p s e
  | OpTick i cnt _ =>
      match aget i (ss_insts ss) with
      | Some ins => ss_with ss (aset i (mkSInst (in_state ins) cnt) (ss_insts ss)) (ss_last ss) (ss_reqs ss)
      | None => ss end
  | OpTicks l _ =>
      fold_left (fun ss ic => match aget (fst ic) (ss_insts ss) with
                              | Some ins => ss_with ss (aset (fst ic) (mkSInst (in_state ins) (snd ic)) (ss_insts ss))
                                                    (ss_last ss) (ss_reqs ss)
                              | None => ss end) l ss
  | OpCheck =>
      (* requests whose result was reached outside the scope of the sequencer are dropped by the check *)
      ss_with ss (ss_insts ss) (ss_last ss)
        (filter (fun o => let s := last_state ss (o_a o) (o_p o) (o_i o) in
                          match o_kind o with
                          | KStop => negb (is_stopped s)
                          | KStart => o_soft o
                                      || negb (pstate_eqb s RUNNING
                                               && negb (pr_wait_exit (cf_rules cf (o_a o) (o_p o)) && negb (o_manual o)))
                          end) (ss_reqs ss))
  | OpCtxInvalidate ids =>
      let insts := map (fun kv => if zmem (fst kv) ids
                                  then (fst kv, mkSInst gen_SupvisorsInstanceStates_STOPPED (in_counter (snd kv)))
                                  else kv) (ss_insts ss) in
      let last := map (fun x => let '(a, p, i, s) := x in
                                if zmem i ids && listed_like s then (a, p, i, FATAL) else x) (ss_last ss) in
      let reqs := map (fun o => if zmem (o_i o) ids
                                then mkOReq (o_kind o) (o_a o) (o_p o) (o_i o) (o_manual o) (o_op o) (o_ref o) (o_soft o) true
                                else o) (ss_reqs ss) in
      ss_lost_set (ss_with ss insts last reqs) (filter (fun i => zmem i ids) (akeys (ss_insts ss)))
  | OpCmdInvalidate =>
      let lost := ss_lostids ss in
      (* the sequencers learn the loss: the requests still pending there are given up as failures *)
      let gone := filter (fun o => zmem (o_i o) lost) (ss_reqs ss) in
      let ss1 := ss_with ss (ss_insts ss) (ss_last ss) (filter (fun o => negb (zmem (o_i o) lost)) (ss_reqs ss)) in
      fold_left (fun ss o => match o_kind o with
                             | KStart => if o_manual o then spec_failure_manual cf ss (o_a o) (o_p o)
                                         else spec_failure cf ss (o_a o) (o_p o) false
                             | KStop => ss end)
                gone ss1
  | OpInstState i code =>
      match aget i (ss_insts ss) with
      | Some ins => ss_with ss (aset i (mkSInst code (in_counter ins)) (ss_insts ss)) (ss_last ss) (ss_reqs ss)
      | None => ss end
  | OpCall c =>
      match c with
      | CStartApp _ a =>
          plan_incr (ss_marks ss (ss_manual_start ss) (ss_manual_stop ss) (zadd a (ss_user_apps ss))
                              (aset a (aget0 a (ss_plans ss) + 1) (ss_plans ss))) KStart a
      | CRestartApp _ a =>
          plan_incr (plan_incr (ss_marks ss (ss_manual_start ss) (ss_manual_stop ss) (zadd a (ss_user_apps ss))
                                         (aset a (aget0 a (ss_plans ss) + 1) (ss_plans ss))) KStart a) KStop a
      | CStopApp a => plan_incr ss KStop a
      | CStopApps => cnt_incr (fold_left (fun ss ac => cnt_incr ss 1 KStop (ac_name ac)) (cf_apps cf) ss) 1 KStop 0
      | CStartApps =>
          (fun ss => cnt_incr ss 1 KStart 0)
          (fold_left (fun ss ac => cnt_incr ss 1 KStart (ac_name ac)) (cf_apps cf)
            (ss_marks ss (ss_manual_start ss) (ss_manual_stop ss) (ss_user_apps ss)
               (fold_left (fun pl ac => aset (ac_name ac) (aget0 (ac_name ac) pl + 1) pl) (cf_apps cf) (ss_plans ss))))
      | CStartProc _ a p =>
          ss_marks ss ((a, p) :: ss_manual_start ss) (ss_manual_stop ss) (zadd a (ss_user_apps ss)) (ss_plans ss)
      | CRestartProc _ a p =>
          ss_marks ss ((a, p) :: ss_manual_start ss) (spec_stop_marks cf ss a p [] ++ ss_manual_stop ss)
                   (zadd a (ss_user_apps ss)) (ss_plans ss)
      | CStopProc a p ids =>
          ss_marks ss (ss_manual_start ss) (spec_stop_marks cf ss a p ids ++ ss_manual_stop ss) (ss_user_apps ss)
                   (ss_plans ss)
      | CAbort k => ss_with ss (ss_insts ss) (ss_last ss) (filter (fun o => negb (kind_eqb (o_kind o) k)) (ss_reqs ss))
      | _ => ss
      end
  end.

(* one observed output, at operation index k *)
Definition spec_out (cf : config) (k : Z) (ss : sspec) (o : out) : sspec :=
  match o with
  | OStart i a p =>
      let manual := pair_mem a p (ss_manual_start ss) in
      let r := cf_rules cf a p in
      let cnt := match aget i (ss_insts ss) with Some ins => in_counter ins | None => 0 end in
      let others := filter (fun o => kind_eqb (o_kind o) KStart && negb (o_manual o) && negb (o_lost o)) (ss_reqs ss) in
      let ss1 :=
        if manual then ss else
        let ss_t := track_seq (track_seq ss KStart a (pr_start r) V_start_order) KStart 0 (cf_app_start cf a) V_app_order in
        let ss_a := ss_check ss_t (forallb (fun o => negb (Z.eqb (o_a o) a)
                                             || Z.eqb (pr_start (cf_rules cf a (o_p o))) (pr_start r)) others) V_start_order in
        let ss_b := ss_check ss_a (forallb (fun o => Z.eqb (o_a o) a || negb (Z.ltb 0 (cf_app_start cf a))
                                             || negb (Z.ltb 0 (cf_app_start cf (o_a o)))
                                             || Z.eqb (cf_app_start cf (o_a o)) (cf_app_start cf a)) others) V_app_order in
        let ss_c := ss_check ss_b (Z.ltb 0 (pr_start r)
                                   && (Z.ltb 0 (cf_app_start cf a) || zmem a (ss_user_apps ss))) V_zero in
        (* a request for an application whose run was aborted: legitimate only for a further plan *)
        let ss_d := if zmem a (ss_flag ss_c)
                    then ss_flags (ss_check ss_c (Z.ltb (aget0 a (ss_aborts ss_c)) (aget0 a (ss_plans ss_c))) V_strategy)
                                  (ss_aborts ss_c) (zdiscard a (ss_flag ss_c)) (ss_flag_to ss_c) (ss_noresource ss_c)
                    else ss_c in
        if zmem a (ss_flag_to ss_d)
        then ss_flags (ss_check ss_d (Z.ltb 1 (aget0 a (ss_plans ss_d))) V_strategy_timeout)
                      (ss_aborts ss_d) (ss_flag ss_d) (zdiscard a (ss_flag_to ss_d)) (ss_noresource ss_d)
        else ss_d in
      let ss2 := ss_marks ss1 (pair_remove a p (ss_manual_start ss1)) (ss_manual_stop ss1) (ss_user_apps ss1)
                          (ss_plans ss1) in
      ss_with ss2 (ss_insts ss2) (ss_last ss2) (ss_reqs ss2 ++ [mkOReq KStart a p i manual k cnt false false])
  | OStop i a p =>
      let manual := triple_mem a p i (ss_manual_stop ss) in
      let r := cf_rules cf a p in
      let cnt := match aget i (ss_insts ss) with Some ins => in_counter ins | None => 0 end in
      let others := filter (fun o => kind_eqb (o_kind o) KStop && negb (o_manual o) && negb (o_lost o)) (ss_reqs ss) in
      let ss0 := ss_check ss (listed_like (last_state ss a p i)) V_where_running in
      let ss1 :=
        if manual then ss0 else
        let ss_t := track_seq (track_seq ss0 KStop a (pr_stop r) V_stop_order) KStop 0 (cf_app_stop cf a) V_stop_app_order in
        let ss_a := ss_check ss_t (forallb (fun o => negb (Z.eqb (o_a o) a)
                                              || Z.eqb (pr_stop (cf_rules cf a (o_p o))) (pr_stop r)) others) V_stop_order in
        let ss_b := ss_check ss_a (forallb (fun o => Z.eqb (o_a o) a
                                              || Z.eqb (cf_app_stop cf (o_a o)) (cf_app_stop cf a)) others) V_stop_app_order in
        ss_check ss_b (forallb (fun o => negb (Z.eqb (o_a o) a) || Z.eqb (o_op o) k) others) V_together in
      let ss2 := ss_marks ss1 (ss_manual_start ss1)
                          (filter (fun x => let '(a', p', i') := x in negb (Z.eqb a a' && Z.eqb p p' && Z.eqb i i'))
                                  (ss_manual_stop ss1)) (ss_user_apps ss1) (ss_plans ss1) in
      ss_with ss2 (ss_insts ss2) (ss_last ss2) (ss_reqs ss2 ++ [mkOReq KStop a p i manual k cnt false false])
  | OForced a p fs reason target =>
      let k' := if pstate_eqb fs FATAL then KStart else KStop in
      let reqs := filter (fun o => negb (kind_eqb (o_kind o) k' && Z.eqb (o_a o) a && Z.eqb (o_p o) p
                                         && match target with Some i => Z.eqb (o_i o) i | None => false end))
                         (ss_reqs ss) in
      (* the forced event is handled locally as an event of the LOCAL instance: a start request targeting the local
         instance whose last report is BACKOFF gets its reference counter reset once more (on_event is re-evaluated) *)
      let lcnt := match aget local_id (ss_insts ss) with Some ins => in_counter ins | None => 0 end in
      let reqs := map (fun o => if kind_eqb (o_kind o) KStart && Z.eqb (o_a o) a && Z.eqb (o_p o) p
                                   && Z.eqb (o_i o) local_id && pstate_eqb (last_state ss a p local_id) BACKOFF
                                then mkOReq (o_kind o) (o_a o) (o_p o) (o_i o) (o_manual o) (o_op o) lcnt (o_soft o) (o_lost o)
                                else o) reqs in
      let ss1 := ss_with ss (ss_insts ss) (ss_last ss) reqs in
      let hit := filter (fun o => kind_eqb (o_kind o) k' && Z.eqb (o_a o) a && Z.eqb (o_p o) p
                                  && match target with Some i => Z.eqb (o_i o) i | None => false end) (ss_reqs ss) in
      if Z.eqb reason (-1) then
        (* no resource: the command was never requested; it is a user command when the mark is still there *)
        let manual := pair_mem a p (ss_manual_start ss1) in
        let ss2 := if manual
                   then spec_failure_manual cf (ss_marks ss1 (pair_remove a p (ss_manual_start ss1)) (ss_manual_stop ss1)
                                                         (ss_user_apps ss1) (ss_plans ss1)) a p
                   else spec_failure cf ss1 a p false in
        ss_flags ss2 (ss_aborts ss2) (ss_flag ss2) (ss_flag_to ss2) true
      else match k' with
           | KStart => if existsb (fun o => negb (o_manual o)) hit then spec_failure cf ss1 a p true else ss1
           | KStop => ss1 end
  | OPub _ _ _ _ => ss
  end.

(* C10: after a periodic check, no request may be older than its bound (in ticks of its target), the only
   exception being a wait_exit program that is RUNNING *)
Definition spec_wait (cf : config) (ss : sspec) (o : oreq) : Z :=
  let nvalid := Z.of_nat (length (filter (fun kv => negb (Z.eqb (in_state (snd kv)) gen_SupvisorsInstanceStates_ISOLATED))
                                         (ss_insts ss))) in
  let secs := match cf_proc cf (o_a o) (o_p o) with
              | Some pc => match o_kind o with KStart => pc_startsecs pc | KStop => pc_stopwaitsecs pc end
              | None => 0 end in
  ceil_ticks secs + Z.max gs_DEFAULT_TICK_TIMEOUT (nvalid / 10).

Definition spec_bound_ok (cf : config) (ss : sspec) : bool :=
  forallb (fun o =>
    let cnt := match aget (o_i o) (ss_insts ss) with Some ins => in_counter ins | None => 0 end in
    let exempt := o_soft o || kind_eqb (o_kind o) KStart && pr_wait_exit (cf_rules cf (o_a o) (o_p o)) && negb (o_manual o)
                  && pstate_eqb (last_state ss (o_a o) (o_p o) (o_i o)) RUNNING in
    exempt || Z.leb cnt (o_ref o + spec_wait cf ss o)) (ss_reqs ss).

Definition spec_after (cf : config) (ss : sspec) (o : op) (starting stopping : bool) : sspec :=
  let has k := existsb (fun o => kind_eqb (o_kind o) k) (ss_reqs ss) in
  let has_hard k := existsb (fun o => kind_eqb (o_kind o) k && negb (o_soft o)) (ss_reqs ss) in
  (* a request in flight is always reported in progress *)
  let ss1 := ss_check ss ((negb (has_hard KStart) || starting) && (negb (has_hard KStop) || stopping)) V_progress in
  match o with
  | OpCheck =>
      (* after the periodic check: nothing older than its bound, and progress is reported only for requests
         in flight (between checks a job may wait for the next check to move on) *)
      let ss2 := ss_check ss1 (spec_bound_ok cf ss1) V_bound in
      ss_check ss2 ((negb starting || has KStart) && (negb stopping || has KStop)) V_progress
  | _ => ss1
  end.

Fixpoint spec_walk (cf : config) (k : Z) (ss : sspec) (ops : list top) (observed : list obs) : sspec :=
  match ops, observed with
  | t :: r, OOk outs starting stopping _ _ _ :: robs =>
      let o := fst (fst t) in
      let ss1 := spec_op cf ss o in
      let ss2 := fold_left (spec_out cf k) outs ss1 in
      spec_walk cf (k + 1) (spec_after cf ss2 o starting stopping) r robs
  | _, _ => ss    (* end of the history, or internal failure of the implementation (C16's matter) *)
  end.

Definition spec_init (cf : config) : sspec :=
  mkSSpec (map (fun x => (fst (fst x), mkSInst (snd (fst x)) (snd x))) (cf_insts cf))
          [] [] [] [] [] [] [] [] [] [] false [] [].

Definition case_vios (c : case) : sspec :=
  let '(cf, ops, observed) := c in spec_walk cf 0 (spec_init cf) ops observed.

Definition has_vio (l : list vio) (ss : sspec) : bool :=
  existsb (fun v => existsb (fun w => Z.eqb (vio_code v) (vio_code w)) l) (ss_vios ss).

Definition c03_vios : list vio := [V_start_order; V_app_order; V_zero; V_strategy].
Definition c09_vios : list vio := [V_stop_order; V_stop_app_order; V_together; V_where_running].
Definition c10_vios : list vio := [V_bound; V_progress].

(* class of the re-entrancy finding: a 'No resource available' failure occurred in the history *)
Definition in_noresource_class (ss : sspec) : bool := ss_noresource ss.

Definition spec_violations_of (vs : list vio) (cs : list case) : list nat :=
  find_idx (fun c => let ss := case_vios c in negb (in_noresource_class ss) && has_vio vs ss) cs.
Definition known_noresource_of (vs : list vio) (cs : list case) : list nat :=
  find_idx (fun c => let ss := case_vios c in in_noresource_class ss && has_vio vs ss) cs.

Definition spec_violations_c03 := spec_violations_of c03_vios.
Definition spec_violations_c09 := spec_violations_of c09_vios.
Definition spec_violations_c10 := spec_violations_of c10_vios.
Definition known_noresource_c03 := known_noresource_of c03_vios.
Definition known_noresource_c09 := known_noresource_of c09_vios.
Definition known_noresource_c10 := known_noresource_of c10_vios.
Definition known_timeout_strategy (cs : list case) : list nat :=
  find_idx (fun c => has_vio [V_strategy_timeout] (case_vios c)) cs.

(* diagnostic: the violation codes of one case *)
Definition case_vio_codes (c : case) : list Z := map vio_code (ss_vios (case_vios c)).

(* class of the second re-entrancy finding: the history ends with a KeyError raised by
   `del self.current_jobs[application_name]` in Commander.next *)
Definition ends_with_keyerror (c : case) : bool :=
  match rev (snd c) with OCrash KeyError :: _ => true | _ => false end.
Definition known_keyerror (cs : list case) : list nat := find_idx ends_with_keyerror cs.
(* any other internal failure of the implementation is reported as a failing input *)
Definition other_crashes (cs : list case) : list nat :=
  find_idx (fun c => match rev (snd c) with
                     | OCrash KeyError :: _ => false | OCrash _ :: _ => true | _ => false end) cs.

(* evaluators used by the property checks: a spec violation outside the known classes, or any internal failure
   other than the known KeyError, is a failing input *)
Definition is_other_crash (c : case) : bool :=
  match rev (snd c) with OCrash KeyError :: _ => false | OCrash _ :: _ => true | _ => false end.
Definition failing_of (vs : list vio) (cs : list case) : list nat :=
  find_idx (fun c => let ss := case_vios c in
                     (negb (in_noresource_class ss) && has_vio vs ss) || is_other_crash c) cs.
Definition failing_c03 := failing_of c03_vios.
Definition failing_c09 := failing_of c09_vios.
Definition failing_c10 := failing_of c10_vios.
