(* Cluster.v — N Supvisors instances (Node.v) composed by the internal communication glue:
   internal_com/rpchandler.py (publications are broadcast to every proxy, requests to one),
   internal_com/supervisorproxy.py (publish: sender-side filter `TICK or status.has_active_state()`,
   no proxy for an ISOLATED instance; check_instance: the handshake reads the remote instance's CURRENT state
   through XML-RPC and posts IDENTIFICATION / STATE / ALL_INFO / AUTHORIZATION notifications locally;
   handle_exception: INSTANCE_FAILURE when an RPC to an active instance fails).
   One FIFO channel per ordered pair for publications, one local FIFO per node for notifications.
   Definitions only. *)
From Sup Require Export Node.

Inductive msg :=
| MTick (cnt : Z)
| MState (st : sstate) (dg : bool) (m : Z) (insts : list (Z * istate)).

Record cnode := mkCnode {
  cn_node : node;
  cn_up : bool;
  cn_cnt : Z;                    (* TICK counter of the listener *)
  cn_inbox : list event;         (* local notification queue (already in Node.event form) *)
  cn_pending : list Z            (* CHECK_INSTANCE requests queued for the proxies, oldest first *)
}.

Record cluster := mkCluster {
  c_nodes : alist cnode;
  c_chans : alist (list msg);    (* key = chan_key from to *)
  c_cut : list Z                 (* directed links that are cut, same key *)
}.

Definition chan_key (from to : Z) : Z := from * 1000 + to.
Definition chan (c : cluster) (from to : Z) : list msg :=
  match aget (chan_key from to) (c_chans c) with Some l => l | None => [] end.
Definition is_cut (c : cluster) (from to : Z) : bool := zmem (chan_key from to) (c_cut c).

Definition set_node (c : cluster) (i : Z) (cn : cnode) : cluster :=
  mkCluster (aset i cn (c_nodes c)) (c_chans c) (c_cut c).
Definition push_msg (c : cluster) (from to : Z) (m : msg) : cluster :=
  if is_cut c from to then c
  else mkCluster (c_nodes c) (aset (chan_key from to) (chan c from to ++ [m]) (c_chans c)) (c_cut c).

Definition ok_origin (j : Z) : origin := mkOrigin (Some j) true.

(* the instances node n regards as active / not isolated *)
Definition regards_active (n : node) (j : Z) : bool :=
  match inst_state n j with Some s => has_active_state s | None => false end.
Definition not_isolated (n : node) (j : Z) : bool :=
  match inst_state n j with Some ISOLATED => false | Some _ => true | None => false end.

Definition peers (n : node) : list Z := filter (fun j => negb (Z.eqb j (n_me n))) (akeys (n_insts n)).

(* dispatch of the outputs of one step of node i (post-state n):
   Publish -> MState to every peer regarded active (proxy filter evaluated on the state after the step);
   CheckInstance j -> queued for the proxy of j *)
Definition decode_insts (l : list (Z * Z)) : list (Z * istate) :=
  map (fun kv => (fst kv, match find (fun s => Z.eqb (icode s) (snd kv))
                                     [ISTOPPED; CHECKING; CHECKED; IRUNNING; FAILED; ISOLATED] with
                          | Some s => s | None => ISTOPPED end)) l.
Definition decode_sstate (c : Z) : sstate :=
  match find (fun s => Z.eqb (scode s) c)
             [OFF; SYNCHRONIZATION; ELECTION; DISTRIBUTION; OPERATION; CONCILIATION; RESTARTING; SHUTTING_DOWN; FINAL] with
  | Some s => s | None => OFF end.

Fixpoint dispatch (c : cluster) (i : Z) (n : node) (outs : list output) (pend : list Z) : cluster * list Z :=
  match outs with
  | [] => (c, pend)
  | Publish f d m insts :: r =>
      let c' := fold_left (fun c j => if regards_active n j then push_msg c i j (MState (decode_sstate f) d m (decode_insts insts)) else c)
                          (peers n) c in
      dispatch c' i n r pend
  | CheckInstance j :: r => dispatch c i n r (pend ++ [j])
  | _ :: r => dispatch c i n r pend
  end.

(* a send over a cut link raises in xml_rpc (OSError -> SupervisorProxyException); handle_exception then posts an
   INSTANCE_FAILURE notice locally when the target is regarded active (state after the step). Same order as the
   sends: publication-major, peers in mapper order *)
Definition send_fail (c : cluster) (i : Z) (n : node) (j : Z) : list event :=
  if is_cut c i j && regards_active n j then [InstFailure (ok_origin j) 0] else [].
Fixpoint dispatch_fails (c : cluster) (i : Z) (n : node) (outs : list output) : list event :=
  match outs with
  | [] => []
  | Publish _ _ _ _ :: r => flat_map (send_fail c i n) (peers n) ++ dispatch_fails c i n r
  | _ :: r => dispatch_fails c i n r
  end.
Definition tick_fails (c : cluster) (i : Z) (n : node) : list event := flat_map (send_fail c i n) (peers n).

(* the TICK publication goes to every peer that is not ISOLATED *)
Definition broadcast_tick (c : cluster) (i : Z) (n : node) (cnt : Z) : cluster :=
  fold_left (fun c j => if not_isolated n j then push_msg c i j (MTick cnt) else c) (peers n) c.

Inductive action :=
| ATick (i : Z) (now : Z) (orcs : list oracle)          (* Supervisor TICK at node i *)
| ADeliver (i j : Z) (now : Z) (orcs : list oracle)     (* node i receives the oldest publication of j *)
| AHandshake (i : Z) (now : Z)                          (* node i's proxy serves its oldest CHECK_INSTANCE request *)
| AHandshakeLate (i : Z) (ts now : Z)                   (* the same, for a request whose handling STARTED at ts <= now
                                                           (slow XML-RPCs): the notifications carry the start timestamp *)
| ANotify (i : Z) (now : Z) (orcs : list oracle)        (* node i processes its oldest local notification *)
| ACrash (i : Z)
| ARestart (i : Z) (fresh : node)
| ACut (i j : Z)
| AHeal (i j : Z).

(* apply a node step and dispatch its outputs; a Crash of the model is kept as is *)
Definition apply_step (c : cluster) (i : Z) (cn : cnode) (e : event) : result cluster :=
  match step (cn_node cn) e with
  | Crash k => Crash k
  | Ok (n', outs) =>
      let '(c1, pend) := dispatch c i n' outs (cn_pending cn) in
      Ok (set_node c1 i (mkCnode n' (cn_up cn) (cn_cnt cn) (cn_inbox cn ++ dispatch_fails c i n' outs) pend))
  end.

(* what node i's proxy learns from instance j during check_instance (atomic read of j's current state) *)
Definition handshake_events (c : cluster) (i j : Z) (ni : node) (now : Z) : list event :=
  let reachable := negb (is_cut c i j) && negb (is_cut c j i) in
  match aget j (c_nodes c) with
  | Some cj =>
      if cn_up cj && reachable then
        let nj := cn_node cj in
        let isolated_there := match inst_state nj i with Some ISOLATED => true | _ => false end in
        if isolated_there
        then [Ident (Some (j, now)); Auth (ok_origin j) A_NOT_AUTHORIZED now now]
        else let s := own nj in
             [Ident (Some (j, now));
              PeerState (ok_origin j) (sm_fsm s) (sm_degraded s) (sm_master s) (sm_insts s) now [];
              AllInfo (ok_origin j) (Some false) now;
              Auth (ok_origin j) A_AUTHORIZED now now]
      else
        (* the first XML-RPC raises: check_instance is abandoned (SupervisorProxyException) and handle_exception
           posts a failure notice when the instance is regarded active and is not the local one *)
        (if regards_active ni j && negb (Z.eqb i j) then [InstFailure (ok_origin j) now] else [])
  | None => []
  end.

Definition cstep (c : cluster) (a : action) : result cluster :=
  match a with
  | ATick i now orcs =>
      match aget i (c_nodes c) with
      | Some cn =>
          if cn_up cn then
            (* listener.on_tick: the payload carries the current counter, which is then incremented (first TICK: 0) *)
            let cnt := cn_cnt cn in
            let cn1 := mkCnode (cn_node cn) true (cnt + 1) (cn_inbox cn) (cn_pending cn) in
            match apply_step c i cn1 (LocalTick cnt now orcs) with
            | Crash k => Crash k
            | Ok c1 =>
                match aget i (c_nodes c1) with
                | Some cn2 =>
                    let c2 := broadcast_tick c1 i (cn_node cn2) cnt in
                    Ok (set_node c2 i (mkCnode (cn_node cn2) (cn_up cn2) (cn_cnt cn2)
                                               (cn_inbox cn2 ++ tick_fails c i (cn_node cn2)) (cn_pending cn2)))
                | None => Ok c1
                end
            end
          else Ok c
      | None => Ok c
      end
  | ADeliver i j now orcs =>
      match aget i (c_nodes c), chan c j i with
      | Some cn, m :: rest =>
          let c0 := mkCluster (c_nodes c) (aset (chan_key j i) rest (c_chans c)) (c_cut c) in
          if cn_up cn then
            apply_step c0 i cn (match m with
                                | MTick cnt => PeerTick (ok_origin j) cnt now
                                | MState st dg mm insts => PeerState (ok_origin j) st dg mm insts now orcs
                                end)
          else Ok c0
      | _, _ => Ok c
      end
  | AHandshake i now =>
      match aget i (c_nodes c) with
      | Some cn =>
          match cn_pending cn with
          | j :: rest =>
              if cn_up cn then
                (* no proxy for an instance regarded ISOLATED: the request is dropped *)
                let evs := if not_isolated (cn_node cn) j then handshake_events c i j (cn_node cn) now else [] in
                Ok (set_node c i (mkCnode (cn_node cn) true (cn_cnt cn) (cn_inbox cn ++ evs) rest))
              else Ok c
          | [] => Ok c
          end
      | None => Ok c
      end
  | AHandshakeLate i ts now =>
      match aget i (c_nodes c) with
      | Some cn =>
          match cn_pending cn with
          | j :: rest =>
              if cn_up cn then
                let evs := if not_isolated (cn_node cn) j then handshake_events c i j (cn_node cn) ts else [] in
                Ok (set_node c i (mkCnode (cn_node cn) true (cn_cnt cn) (cn_inbox cn ++ evs) rest))
              else Ok c
          | [] => Ok c
          end
      | None => Ok c
      end
  | ANotify i now orcs =>
      match aget i (c_nodes c) with
      | Some cn =>
          match cn_inbox cn with
          | e :: rest =>
              if cn_up cn then
                let e' := match e with
                          | PeerState og st dg m insts _ _ => PeerState og st dg m insts now orcs
                          | Auth og a ts _ => Auth og a ts now
                          | AllInfo og info _ => AllInfo og info now
                          | InstFailure og _ => InstFailure og now
                          | other => other
                          end in
                apply_step c i (mkCnode (cn_node cn) true (cn_cnt cn) rest (cn_pending cn)) e'
              else Ok c
          | [] => Ok c
          end
      | None => Ok c
      end
  | ACrash i =>
      match aget i (c_nodes c) with
      | Some cn => Ok (set_node c i (mkCnode (cn_node cn) false (cn_cnt cn) [] []))
      | None => Ok c
      end
  | ARestart i fresh =>
      match aget i (c_nodes c) with
      | Some cn => if cn_up cn then Ok c else Ok (set_node c i (mkCnode fresh true 0 [] []))
      | None => Ok c
      end
  | ACut i j => Ok (mkCluster (c_nodes c) (c_chans c) (zadd (chan_key i j) (c_cut c)))
  | AHeal i j => Ok (mkCluster (c_nodes c) (c_chans c) (zdiscard (chan_key i j) (c_cut c)))
  end.

(* ---------- observable of the cluster: per node (id, up, fsm, master, instance states, pending handshakes,
   inbox length), and the length of every channel i -> j in node order ---------- *)
Definition cobs_node := (Z * bool * Z * Z * list (Z * Z) * list Z * Z)%type.
(* third component: per node, the state & modes views it holds of the instances of the cluster (Node.views_of) *)
Definition vrow_id (v : vrow) : Z := match v with (i, _, _, _, _) => i end.
Definition cobs := (list cobs_node * list Z * list (Z * list vrow))%type.
Definition cobs_nodes (o : cobs) : list cobs_node := fst (fst o).
Definition cobs_chans (o : cobs) : list Z := snd (fst o).
Definition cobs_views (o : cobs) : list (Z * list vrow) := snd o.

Definition cobserve (c : cluster) : cobs :=
  let ids := akeys (c_nodes c) in
  (map (fun kv => let cn := snd kv in let s := own (cn_node cn) in
          (fst kv, cn_up cn, scode (sm_fsm s), sm_master s,
           map (fun x => (fst x, icode (snd x))) (sm_insts s), cn_pending cn, Z.of_nat (length (cn_inbox cn))))
       (c_nodes c),
   flat_map (fun i => map (fun j => Z.of_nat (length (chan c i j))) ids) ids,
   map (fun kv => (fst kv, filter (fun v => amem (vrow_id v) (c_nodes c)) (views_of (cn_node (snd kv))))) (c_nodes c)).

Inductive cres := COk (o : cobs) | CCrash (k : crash).

Fixpoint crun (c : cluster) (acts : list action) : list cres :=
  match acts with
  | [] => []
  | a :: r => match cstep c a with
              | Ok c' => COk (cobserve c') :: crun c' r
              | Crash k => [CCrash k]
              end
  end.

Definition cobs_node_eqb (a b : cobs_node) : bool :=
  match a, b with
  | (i1, u1, f1, m1, s1, p1, n1), (i2, u2, f2, m2, s2, p2, n2) =>
      Z.eqb i1 i2 && Bool.eqb u1 u2 && Z.eqb f1 f2 && Z.eqb m1 m2 && list_eqb zz_eqb s1 s2
      && list_eqb Z.eqb p1 p2 && Z.eqb n1 n2
  end.
Definition cobs_eqb (a b : cobs) : bool :=
  list_eqb cobs_node_eqb (cobs_nodes a) (cobs_nodes b) && list_eqb Z.eqb (cobs_chans a) (cobs_chans b)
  && list_eqb (fun x y => Z.eqb (fst x) (fst y) && list_eqb vrow_eqb (snd x) (snd y)) (cobs_views a) (cobs_views b).
Definition cres_eqb (a b : cres) : bool :=
  match a, b with
  | COk x, COk y => cobs_eqb x y
  | CCrash k1, CCrash k2 => crash_eqb k1 k2
  | _, _ => false
  end.

Definition ccase := (cluster * list action * list cres)%type.
Definition ccase_mismatch (c : ccase) : bool :=
  match c with (c0, acts, o) => negb (list_eqb cres_eqb (crun c0 acts) o) end.
Definition cmismatches (cs : list ccase) : list nat := find_idx ccase_mismatch cs.
