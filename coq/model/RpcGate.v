(* RpcGate.v — property C17: XML-RPC commands are gated by the Supvisors state and fail cleanly.

   Three layers, kept apart on purpose:
   (1) THE DOCUMENTATION.  [method_class_of] (from docs/xml_rpc.rst + the docstrings: a method is gated iff its
       docstring promises BAD_SUPVISORS_STATE) and [documented_gates] (from the property statement).
   (2) THE MODEL of supvisors/rpcinterface.py.  [check_of] says which _check_* helper each public method calls
       (read in the code, method by method); the state lists of the helpers are REFLECTED (gen/GenRpc.v, captured by
       spying _check_state), as is the FSM transition table used by restart / shutdown.  [call] is the executable
       model of one XML-RPC on a node: node_view -> request -> node_view * list output * outcome.
   (3) THE SPECIFICATION [spec_ok] written from the property statement, evaluated both on the model (theorems in
       proofs/RpcGateProofs.v) and on the outputs of the real RPCInterface (harness/drv_rpc.py, every cell of the
       matrix re-measured at each run).
   Definitions only. *)
From Sup Require Import Base GenEnums GenRpc.
Open Scope Z_scope.

(* ------------------------------------------------------------------------------------------------------------ *)
(* Supvisors states *)
Inductive sstate :=
| S_OFF | S_SYNCHRONIZATION | S_ELECTION | S_DISTRIBUTION | S_OPERATION | S_CONCILIATION
| S_RESTARTING | S_SHUTTING_DOWN | S_FINAL.

Definition all_states : list sstate :=
  [S_OFF; S_SYNCHRONIZATION; S_ELECTION; S_DISTRIBUTION; S_OPERATION; S_CONCILIATION;
   S_RESTARTING; S_SHUTTING_DOWN; S_FINAL].

(* the code of each state is the reflected enum value *)
Definition sstate_code (s : sstate) : Z :=
  match s with
  | S_OFF => gen_SupvisorsStates_OFF
  | S_SYNCHRONIZATION => gen_SupvisorsStates_SYNCHRONIZATION
  | S_ELECTION => gen_SupvisorsStates_ELECTION
  | S_DISTRIBUTION => gen_SupvisorsStates_DISTRIBUTION
  | S_OPERATION => gen_SupvisorsStates_OPERATION
  | S_CONCILIATION => gen_SupvisorsStates_CONCILIATION
  | S_RESTARTING => gen_SupvisorsStates_RESTARTING
  | S_SHUTTING_DOWN => gen_SupvisorsStates_SHUTTING_DOWN
  | S_FINAL => gen_SupvisorsStates_FINAL
  end.

Definition sstate_eqb (a b : sstate) : bool :=
  match a, b with
  | S_OFF, S_OFF | S_SYNCHRONIZATION, S_SYNCHRONIZATION | S_ELECTION, S_ELECTION
  | S_DISTRIBUTION, S_DISTRIBUTION | S_OPERATION, S_OPERATION | S_CONCILIATION, S_CONCILIATION
  | S_RESTARTING, S_RESTARTING | S_SHUTTING_DOWN, S_SHUTTING_DOWN | S_FINAL, S_FINAL => true
  | _, _ => false
  end.

(* `state in states` against a reflected list of enum values *)
Definition in_codes (s : sstate) (codes : list Z) : bool := zmem (sstate_code s) codes.

(* ------------------------------------------------------------------------------------------------------------ *)
(* The 44 public methods of RPCInterface *)
Inductive meth :=
| M_get_api_version | M_get_supvisors_state | M_get_all_instances_state_modes | M_get_instance_state_modes
| M_get_master_identifier | M_get_strategies | M_get_statistics_status | M_get_network_info
| M_get_all_instances_info | M_get_instance_info | M_get_all_applications_info | M_get_application_info
| M_get_application_rules | M_get_all_process_info | M_get_process_info | M_get_all_local_process_info
| M_get_local_process_info | M_get_all_inner_process_info | M_get_inner_process_info | M_get_process_rules
| M_get_conflicts
| M_start_application | M_test_start_application | M_stop_application | M_restart_application
| M_start_args | M_start_process | M_test_start_process | M_start_any_process | M_stop_process
| M_restart_process | M_update_numprocs | M_enable | M_disable | M_conciliate | M_restart_sequence
| M_restart | M_shutdown | M_end_sync
| M_change_log_level | M_enable_host_statistics | M_enable_process_statistics | M_update_collecting_period
| M_get_logger_levels.

Definition all_meths : list meth :=
  [M_get_api_version; M_get_supvisors_state; M_get_all_instances_state_modes; M_get_instance_state_modes;
   M_get_master_identifier; M_get_strategies; M_get_statistics_status; M_get_network_info;
   M_get_all_instances_info; M_get_instance_info; M_get_all_applications_info; M_get_application_info;
   M_get_application_rules; M_get_all_process_info; M_get_process_info; M_get_all_local_process_info;
   M_get_local_process_info; M_get_all_inner_process_info; M_get_inner_process_info; M_get_process_rules;
   M_get_conflicts;
   M_start_application; M_test_start_application; M_stop_application; M_restart_application;
   M_start_args; M_start_process; M_test_start_process; M_start_any_process; M_stop_process;
   M_restart_process; M_update_numprocs; M_enable; M_disable; M_conciliate; M_restart_sequence;
   M_restart; M_shutdown; M_end_sync;
   M_change_log_level; M_enable_host_statistics; M_enable_process_statistics; M_update_collecting_period;
   M_get_logger_levels].

(* ------------------------------------------------------------------------------------------------------------ *)
(* (1) THE DOCUMENTATION *)
Inductive mclass :=
| Always           (* no state condition documented *)
| StatusQuery      (* "from DISTRIBUTION on" *)
| StartLike        (* OPERATION only *)
| StopLike         (* OPERATION or CONCILIATION *)
| Conciliate       (* CONCILIATION *)
| EndSync          (* SYNCHRONIZATION, with the USER option *)
| RestartShutdown. (* "from DISTRIBUTION on" *)

(* From docs/xml_rpc.rst and the docstrings.  Always = the docstring has no BAD_SUPVISORS_STATE clause:
   version / state / master / strategies / statistics status / instance and network information, the LOCAL and
   INNER process information ("used by Supvisors in SYNCHRONIZATION state"), start_args ("do NOT check OPERATION,
   it is used internally in DISTRIBUTION state"), the logger and statistics settings.  The driver re-checks at every
   run that a method is Always iff its docstring does not mention BAD_SUPVISORS_STATE. *)
Definition method_class_of (m : meth) : mclass :=
  match m with
  | M_get_all_applications_info | M_get_application_info | M_get_application_rules | M_get_all_process_info
  | M_get_process_info | M_get_process_rules | M_get_conflicts => StatusQuery
  | M_start_application | M_test_start_application | M_restart_application | M_start_process
  | M_test_start_process | M_start_any_process | M_restart_process | M_update_numprocs | M_enable | M_disable
  | M_restart_sequence => StartLike
  | M_stop_application | M_stop_process => StopLike
  | M_conciliate => Conciliate
  | M_end_sync => EndSync
  | M_restart | M_shutdown => RestartShutdown
  | _ => Always
  end.

(* "from DISTRIBUTION on": the states DISTRIBUTION .. SHUTTING_DOWN.  FINAL is read as excluded: it is the state in
   which the instance "remains inactive and waits for the Supervisor stopping event" (docs/dashboard.rst: "the
   XML-RPC API is NOT available in this state").  The other reading (every state whose code is >= DISTRIBUTION) is
   [documented_gates_ordinal]; the two differ exactly on FINAL (theorem readings_differ_only_on_final). *)
Definition from_distribution_on (s : sstate) : bool :=
  match s with
  | S_DISTRIBUTION | S_OPERATION | S_CONCILIATION | S_RESTARTING | S_SHUTTING_DOWN => true
  | _ => false
  end.

Definition documented_gates (c : mclass) (s : sstate) : bool :=
  match c with
  | Always => true
  | StatusQuery | RestartShutdown => from_distribution_on s
  | StartLike => match s with S_OPERATION => true | _ => false end
  | StopLike => match s with S_OPERATION | S_CONCILIATION => true | _ => false end
  | Conciliate => match s with S_CONCILIATION => true | _ => false end
  | EndSync => match s with S_SYNCHRONIZATION => true | _ => false end
  end.

Definition documented_gates_ordinal (c : mclass) (s : sstate) : bool :=
  match c with
  | StatusQuery | RestartShutdown => Z.leb (sstate_code S_DISTRIBUTION) (sstate_code s)
  | _ => documented_gates c s
  end.

(* ------------------------------------------------------------------------------------------------------------ *)
(* Requests.  A request is a method plus abstract parameter values; a method ignores the fields it does not take.
   The concrete values are those of the driver's fixture: applications appS (Managed, STOPPED: process s1),
   appR (Managed, RUNNING: r1, dup), appU (not Managed, RUNNING: u1); instances 10.0.0.1 (local), 10.0.0.2 (peer,
   RUNNING from SYNCHRONIZATION on), 10.0.0.3 (STOPPED); program 'prog'. *)
Inductive strat := StOk | StOkInt | StUser | StBadStr | StBadInt | StBadType.
Inductive appn := ApStopped | ApRunning | ApUnmanaged | ApUnknown.
(* namespec: 'app:proc' known / unknown process, 'app:*', bare 'app', and a namespec that is not a string *)
Inductive procn := PrKnown | PrUnknown | PrStar | PrNone | PrInt.
(* identifier, nick identifier, stereotype of one instance, unknown, empty string, identifier of a STOPPED instance,
   stereotype shared by the peer and the STOPPED instance *)
(* InStopped: a known instance that is STOPPED; InChecked: a known instance that is active but not RUNNING (CHECKED) *)
Inductive instn := InIdent | InNick | InStereo | InUnknown | InEmpty | InStopped | InMulti | InChecked.
Inductive progn := PgKnown | PgUnknown.
Inductive numn := NumOk | NumZero | NumStr.
Inductive lvln := LvOk | LvOkInt | LvBad | LvBadInt.
(* regular expression of start_any_process: matches a stopped process / matches nothing / ill-formed *)
Inductive regexn := RxMatch | RxNoMatch | RxBad.

Record request := mk_req {
  rq_meth : meth; rq_strat : strat; rq_app : appn; rq_proc : procn; rq_inst : instn; rq_prog : progn;
  rq_num : numn; rq_level : lvln; rq_regex : regexn; rq_wait : bool; rq_flag : bool }.

(* ------------------------------------------------------------------------------------------------------------ *)
(* What an XML-RPC reads of the node *)
Inductive mrole := MSelf | MOther | MNone.   (* the Master is the local instance / another one / not known *)

Record node_view := mk_view {
  nv_state : sstate;
  nv_master : mrole;
  nv_user : bool;        (* USER in synchro_options *)
  nv_jobs : bool;        (* some instance publishes starting or stopping jobs *)
  nv_collector : bool }. (* the statistics collector exists (psutil installed) *)

Definition mrole_eqb (a b : mrole) : bool :=
  match a, b with MSelf, MSelf | MOther, MOther | MNone, MNone => true | _, _ => false end.

Definition view_eqb (a b : node_view) : bool :=
  sstate_eqb (nv_state a) (nv_state b) && mrole_eqb (nv_master a) (nv_master b)
  && Bool.eqb (nv_user a) (nv_user b) && Bool.eqb (nv_jobs a) (nv_jobs b)
  && Bool.eqb (nv_collector a) (nv_collector b).

(* ------------------------------------------------------------------------------------------------------------ *)
(* Outcomes *)
Inductive fault :=
| F_BAD_SUPVISORS_STATE | F_NOT_MANAGED | F_NOT_APPLICABLE | F_NOT_INSTALLED | F_DISABLED
| F_BAD_NAME | F_INCORRECT_PARAMETERS | F_ALREADY_STARTED | F_NOT_RUNNING | F_FAILED
| F_ABNORMAL_TERMINATION | F_STILL_RUNNING | F_OTHER_FAULT.

(* exceptions that are not RPCError: the XML-RPC does not fail cleanly *)
Inductive rcrash :=
| RKeyError | RRuntimeError | RValueError | RTypeError | RAttributeError | RIndexError
| RInvalidTransition | RReError | ROtherError.

Inductive outcome := Served | Fault (f : fault) | CrashO (k : rcrash).

(* what a call emits: requests to the Starter, to the Stopper, messages to other instances, commands to the local
   Supervisor (numprocs / enable / disable / startProcess), to the statistics collector, to the failure handler;
   OOpt = an option or the logger level is overwritten (a change of the snapshot, not a recorded call) *)
Inductive output := OStart | OStop | ONet | OSup | OStats | OFail | OOpt.

Definition fault_eqb (a b : fault) : bool :=
  match a, b with
  | F_BAD_SUPVISORS_STATE, F_BAD_SUPVISORS_STATE | F_NOT_MANAGED, F_NOT_MANAGED
  | F_NOT_APPLICABLE, F_NOT_APPLICABLE | F_NOT_INSTALLED, F_NOT_INSTALLED | F_DISABLED, F_DISABLED
  | F_BAD_NAME, F_BAD_NAME | F_INCORRECT_PARAMETERS, F_INCORRECT_PARAMETERS
  | F_ALREADY_STARTED, F_ALREADY_STARTED | F_NOT_RUNNING, F_NOT_RUNNING | F_FAILED, F_FAILED
  | F_ABNORMAL_TERMINATION, F_ABNORMAL_TERMINATION | F_STILL_RUNNING, F_STILL_RUNNING
  | F_OTHER_FAULT, F_OTHER_FAULT => true
  | _, _ => false
  end.

Definition rcrash_eqb (a b : rcrash) : bool :=
  match a, b with
  | RKeyError, RKeyError | RRuntimeError, RRuntimeError | RValueError, RValueError | RTypeError, RTypeError
  | RAttributeError, RAttributeError | RIndexError, RIndexError | RInvalidTransition, RInvalidTransition
  | RReError, RReError | ROtherError, ROtherError => true
  | _, _ => false
  end.

Definition outcome_eqb (a b : outcome) : bool :=
  match a, b with
  | Served, Served => true
  | Fault f, Fault g => fault_eqb f g
  | CrashO k, CrashO l => rcrash_eqb k l
  | _, _ => false
  end.

(* ------------------------------------------------------------------------------------------------------------ *)
(* (2) THE MODEL *)

(* which _check_* helper the method calls first (read in rpcinterface.py, method by method) *)
Inductive check :=
| NoCheck | CheckFromDistribution | CheckOperating | CheckOperatingConciliation | CheckConciliation
| CheckSynchronization.

Definition check_of (m : meth) : check :=
  match m with
  | M_get_all_applications_info | M_get_application_info | M_get_application_rules | M_get_all_process_info
  | M_get_process_info | M_get_process_rules | M_get_conflicts | M_restart | M_shutdown => CheckFromDistribution
  | M_start_application | M_test_start_application | M_restart_application | M_start_process
  | M_test_start_process | M_start_any_process | M_restart_process | M_update_numprocs | M_enable | M_disable
  | M_restart_sequence => CheckOperating
  | M_stop_application | M_stop_process => CheckOperatingConciliation
  | M_conciliate => CheckConciliation
  | M_end_sync => CheckSynchronization            (* self._check_state([SupvisorsStates.SYNCHRONIZATION]) *)
  | _ => NoCheck
  end.

(* _check_state: the accepted states are the reflected lists *)
Definition check_passes (c : check) (s : sstate) : bool :=
  match c with
  | NoCheck => true
  | CheckFromDistribution => in_codes s gen_rpc_check_from_distribution
  | CheckOperating => in_codes s gen_rpc_check_operating
  | CheckOperatingConciliation => in_codes s gen_rpc_check_operating_conciliation
  | CheckConciliation => in_codes s gen_rpc_check_conciliation
  | CheckSynchronization => sstate_eqb s S_SYNCHRONIZATION
  end.

Definition gate_allows (m : meth) (s : sstate) : bool := check_passes (check_of m) s.

(* parameter resolution against the fixture *)
Definition strat_valid (s : strat) : bool :=
  match s with StOk | StOkInt | StUser => true | _ => false end.

Definition app_known (a : appn) : bool := match a with ApUnknown => false | _ => true end.
Definition app_managed (a : appn) : bool := match a with ApStopped | ApRunning => true | _ => false end.
(* every process of appR and appU is running, the process of appS is stopped *)
Definition app_running (a : appn) : bool := match a with ApRunning | ApUnmanaged => true | _ => false end.

Inductive ns_res := NsCrash | NsBadName | NsProc | NsGroup.

(* _get_application_process: split_namespec raises AttributeError on a non-string; a bare 'app' is read as the
   process 'app' of the group 'app' (unknown in the fixture); 'app:*' designates the whole group *)
Definition resolve_ns (a : appn) (p : procn) : ns_res :=
  match p with
  | PrInt => NsCrash
  | _ => if app_known a
         then match p with PrKnown => NsProc | PrStar => NsGroup | _ => NsBadName end
         else NsBadName
  end.

(* mapper.filter([identifier]) is not empty *)
Definition inst_resolves (i : instn) : bool :=
  match i with InIdent | InNick | InStereo | InStopped | InMulti | InChecked => true | InUnknown | InEmpty => false end.
(* mapper.filter([identifier]) has more than one element *)
Definition inst_is_multiple (i : instn) : bool := match i with InMulti => true | _ => false end.

Definition result := (node_view * list output * outcome)%type.
Definition reject (v : node_view) (f : fault) : result := (v, [], Fault f).
Definition crash (v : node_view) (k : rcrash) : result := (v, [], CrashO k).
Definition serve (v : node_view) (outs : list output) : result := (v, outs, Served).

Definition with_state (v : node_view) (s : sstate) : node_view :=
  mk_view s (nv_master v) (nv_user v) (nv_jobs v) (nv_collector v).
Definition with_state_master (v : node_view) (s : sstate) (m : mrole) : node_view :=
  mk_view s m (nv_user v) (nv_jobs v) (nv_collector v).

(* FiniteStateMachine.set_state(target) from a Master whose sequencers are busy: one transition when it is in the
   reflected table (the new state then holds), nothing when target is the current state or is not a successor *)
Definition successors (s : sstate) : list Z :=
  match aget (sstate_code s) gen_rpc_fsm_transitions with Some l => l | None => [] end.

Definition master_set_state (v : node_view) (target : sstate) : result :=
  if sstate_eqb target (nv_state v) then serve v []
  else if zmem (sstate_code target) (successors (nv_state v))
       then (* publication of the new state, abort of the jobs, stop of all applications *)
            (with_state v target, [ONet; OFail; OStart; OStop], Served)
       else serve v [].

(* fsm.on_restart / on_shutdown *)
Definition fsm_request (v : node_view) (target : sstate) : result :=
  match nv_master v with
  | MSelf => master_set_state v target
  | MOther => serve v [ONet]                 (* re-routed to the Master *)
  | MNone => reject v F_BAD_SUPVISORS_STATE  (* the RuntimeError / ValueError of the FSM is caught by the XML-RPC *)
  end.

(* with a strategy parameter: _get_strategy comes right after the state check *)
Definition with_strategy (v : node_view) (s : strat) (k : result) : result :=
  if strat_valid s then k else reject v F_INCORRECT_PARAMETERS.

(* with a namespec parameter *)
Definition with_namespec (v : node_view) (a : appn) (p : procn) (k : ns_res -> result) : result :=
  match resolve_ns a p with
  | NsCrash => crash v RAttributeError
  | NsBadName => reject v F_BAD_NAME
  | r => k r
  end.

Definition with_instance (v : node_view) (i : instn) (k : result) : result :=
  if inst_resolves i then k else reject v F_BAD_NAME.

(* the body of each method, once its state check has passed *)
Definition body (v : node_view) (r : request) : result :=
  match rq_meth r with
  (* no parameter, no effect *)
  | M_get_api_version | M_get_supvisors_state | M_get_all_instances_state_modes | M_get_master_identifier
  | M_get_strategies | M_get_statistics_status | M_get_all_instances_info | M_get_all_local_process_info
  | M_get_logger_levels | M_get_all_applications_info | M_get_all_process_info | M_get_conflicts => serve v []
  | M_get_instance_state_modes | M_get_instance_info | M_get_all_inner_process_info =>
      with_instance v (rq_inst r) (serve v [])
  | M_get_network_info =>
      (* exactly one instance must be designated (identifier, nick identifier or stereotype) *)
      with_instance v (rq_inst r)
        (if inst_is_multiple (rq_inst r) then reject v F_INCORRECT_PARAMETERS else serve v [])
  | M_get_inner_process_info =>
      with_instance v (rq_inst r)
        (with_namespec v (rq_app r) (rq_proc r) (fun res =>
           match res, rq_inst r with
           | NsProc, InStopped | NsProc, InChecked => reject v F_FAILED  (* no information from that instance: KeyError -> FAILED *)
           | NsProc, InMulti => reject v F_FAILED       (* one of the two instances is the STOPPED one *)
           | _, _ => serve v []
           end))
  | M_get_application_info | M_get_application_rules =>
      if app_known (rq_app r) then serve v [] else reject v F_BAD_NAME
  | M_get_process_info | M_get_process_rules =>
      with_namespec v (rq_app r) (rq_proc r) (fun _ => serve v [])
  | M_get_local_process_info =>
      (* delegated to Supervisor's getProcessInfo (in the driver: a fake with the same BAD_NAME behaviour) *)
      match resolve_ns (rq_app r) (rq_proc r) with NsProc => serve v [] | _ => reject v F_BAD_NAME end
  | M_start_args =>
      with_namespec v (rq_app r) (rq_proc r) (fun res =>
        match res with
        | NsProc => serve v [OSup]
        | _ => reject v F_BAD_NAME               (* 'group:*': a process name is expected *)
        end)
  | M_start_application =>
      with_strategy v (rq_strat r)
        (if negb (app_known (rq_app r)) then reject v F_BAD_NAME
         else if negb (app_managed (rq_app r)) then reject v F_NOT_MANAGED
         else if app_running (rq_app r) then reject v F_ALREADY_STARTED
         else serve v [OStart])
  | M_test_start_application =>
      with_strategy v (rq_strat r)
        (if negb (app_known (rq_app r)) then reject v F_BAD_NAME
         else if negb (app_managed (rq_app r)) then reject v F_NOT_MANAGED
         else if app_running (rq_app r) then reject v F_ALREADY_STARTED
         else serve v [])
  | M_stop_application =>
      if negb (app_known (rq_app r)) then reject v F_BAD_NAME
      else if negb (app_managed (rq_app r)) then reject v F_NOT_MANAGED
      else if negb (app_running (rq_app r)) then reject v F_NOT_RUNNING
      else serve v [OStop]
  | M_restart_application =>
      with_strategy v (rq_strat r)
        (if negb (app_known (rq_app r)) then reject v F_BAD_NAME
         else if negb (app_managed (rq_app r)) then reject v F_NOT_MANAGED
         else serve v [OStop])
  | M_start_process =>
      with_strategy v (rq_strat r)
        (with_namespec v (rq_app r) (rq_proc r) (fun _ =>
           if app_running (rq_app r) then reject v F_ALREADY_STARTED else serve v [OStart]))
  | M_test_start_process =>
      with_strategy v (rq_strat r)
        (with_namespec v (rq_app r) (rq_proc r) (fun _ =>
           if app_running (rq_app r) then reject v F_ALREADY_STARTED else serve v []))
  | M_start_any_process =>
      with_strategy v (rq_strat r)
        match rq_regex r with
        | RxBad => reject v F_INCORRECT_PARAMETERS (* re.error is caught *)
        | RxNoMatch => reject v F_FAILED
        | RxMatch => serve v [OStart]
        end
  | M_stop_process =>
      with_namespec v (rq_app r) (rq_proc r) (fun _ => serve v [OStop])
  | M_restart_process =>
      with_strategy v (rq_strat r)
        (with_namespec v (rq_app r) (rq_proc r) (fun _ => serve v [OStop]))
  | M_update_numprocs =>
      match rq_prog r, rq_num r with
      | PgUnknown, _ => reject v F_BAD_NAME
      | PgKnown, NumOk => serve v [OSup]
      | PgKnown, _ => reject v F_INCORRECT_PARAMETERS
      end
  | M_enable =>
      match rq_prog r with PgUnknown => reject v F_BAD_NAME | PgKnown => serve v [OSup] end
  | M_disable =>
      match rq_prog r with PgUnknown => reject v F_BAD_NAME | PgKnown => serve v [OSup; OStop] end
  | M_conciliate =>
      with_strategy v (rq_strat r)
        match rq_strat r with StUser => serve v [] | _ => serve v [OStop] end
  | M_restart_sequence =>
      if nv_jobs v then reject v F_BAD_SUPVISORS_STATE else serve v [OStart]
  | M_restart => fsm_request v S_RESTARTING
  | M_shutdown => fsm_request v S_SHUTTING_DOWN
  | M_end_sync =>
      match nv_master v with
      | MNone =>
          if negb (nv_user v) then reject v F_NOT_APPLICABLE
          else match rq_inst r with
               | InUnknown => reject v F_BAD_NAME
               | InMulti => reject v F_INCORRECT_PARAMETERS       (* several identifiers for one Master *)
               | InStopped | InChecked => reject v F_NOT_RUNNING      (* the Master must be RUNNING *)
               (* '' : election among the RUNNING instances, the local one has the lowest nick identifier;
                  the stereotype resolves to the local instance; identifier / nick designate the peer.
                  The FSM is re-evaluated at once: SYNCHRONIZATION -> ELECTION (jobs aborted, state published). *)
               | InEmpty | InStereo => (with_state_master v S_ELECTION MSelf, [ONet; OFail; OStart; OStop], Served)
               | InIdent | InNick => (with_state_master v S_ELECTION MOther, [ONet; OFail; OStart; OStop], Served)
               end
      | _ => reject v F_BAD_SUPVISORS_STATE       (* synchronization ending: a Master is already known *)
      end
  | M_change_log_level =>
      match rq_level r with LvOk | LvOkInt => serve v [OOpt] | _ => reject v F_INCORRECT_PARAMETERS end
  | M_enable_host_statistics | M_enable_process_statistics =>
      if nv_collector v
      then serve v (if rq_flag r then [OStats] else [OStats; OOpt])   (* the options are True in the fixture *)
      else reject v F_NOT_INSTALLED
  | M_update_collecting_period =>
      if nv_collector v then serve v [OStats; OOpt] else reject v F_NOT_INSTALLED
  end.

(* one XML-RPC: the state check comes first *)
Definition call (v : node_view) (r : request) : result :=
  if gate_allows (rq_meth r) (nv_state v) then body v r else reject v F_BAD_SUPVISORS_STATE.

(* ------------------------------------------------------------------------------------------------------------ *)
(* Observable of one cell (what the driver records on the real RPCInterface) *)
Record obs := mk_obs {
  o_outcome : outcome;
  o_effect : bool;       (* some call was recorded on starter / stopper / rpc_handler / supervisor / collector *)
  o_changed : bool;      (* the canonical snapshot of the context differs after the call *)
  o_state : sstate;      (* Supvisors state after the call *)
  o_master : mrole }.    (* Master role after the call *)

Definition is_effect (o : output) : bool := match o with OOpt => false | _ => true end.
Definition is_opt (o : output) : bool := match o with OOpt => true | _ => false end.

Definition model_obs (v : node_view) (r : request) : obs :=
  let '(v', outs, oc) := call v r in
  mk_obs oc (existsb is_effect outs) (negb (view_eqb v v') || existsb is_opt outs) (nv_state v') (nv_master v').

Definition obs_eqb (a b : obs) : bool :=
  outcome_eqb (o_outcome a) (o_outcome b) && Bool.eqb (o_effect a) (o_effect b)
  && Bool.eqb (o_changed a) (o_changed b) && sstate_eqb (o_state a) (o_state b)
  && mrole_eqb (o_master a) (o_master b).

(* ------------------------------------------------------------------------------------------------------------ *)
(* (3) THE SPECIFICATION, from the property statement *)

(* which parameters a method takes (signatures of docs/xml_rpc.rst) *)
Definition uses_strat (m : meth) : bool :=
  match m with
  | M_start_application | M_test_start_application | M_restart_application | M_start_process
  | M_test_start_process | M_start_any_process | M_restart_process | M_conciliate => true
  | _ => false
  end.
Definition uses_app (m : meth) : bool :=
  match m with
  | M_get_application_info | M_get_application_rules | M_start_application | M_test_start_application
  | M_stop_application | M_restart_application => true
  | _ => false
  end.
Definition uses_ns (m : meth) : bool :=
  match m with
  | M_get_process_info | M_get_process_rules | M_get_local_process_info | M_get_inner_process_info
  | M_start_args | M_start_process | M_test_start_process | M_stop_process | M_restart_process => true
  | _ => false
  end.
Definition uses_inst (m : meth) : bool :=
  match m with
  | M_get_instance_state_modes | M_get_network_info | M_get_instance_info | M_get_all_inner_process_info
  | M_get_inner_process_info | M_end_sync => true
  | _ => false
  end.
Definition uses_prog (m : meth) : bool :=
  match m with M_update_numprocs | M_enable | M_disable => true | _ => false end.
(* the docstring promises NOT_MANAGED *)
Definition requires_managed (m : meth) : bool :=
  match m with
  | M_start_application | M_test_start_application | M_stop_application | M_restart_application => true
  | _ => false
  end.

Definition is_end_sync (m : meth) : bool := match m with M_end_sync => true | _ => false end.

Definition bad_strategy (r : request) : bool := uses_strat (rq_meth r) && negb (strat_valid (rq_strat r)).

(* an application, process, program or instance name that designates nothing *)
Definition unknown_name (r : request) : bool :=
  let m := rq_meth r in
  (uses_app m && negb (app_known (rq_app r)))
  || (uses_ns m && (negb (app_known (rq_app r))
                    || match rq_proc r with PrUnknown | PrNone => true | _ => false end))
  || (uses_inst m && match rq_inst r with
                     | InUnknown => true
                     | InEmpty => negb (is_end_sync m)      (* '' means "elect" for end_sync *)
                     | _ => false
                     end)
  || (uses_prog m && match rq_prog r with PgUnknown => true | _ => false end).

Definition unmanaged_app (r : request) : bool :=
  requires_managed (rq_meth r) && match rq_app r with ApUnmanaged => true | _ => false end.

(* parameters that are names of something else than what the method needs (docstrings): a 'group:*' namespec for
   start_args is a BAD_NAME; an ill-formed regular expression, or an identifier designating several instances where
   exactly one is needed (get_network_info, end_sync), are INCORRECT_PARAMETERS *)
Definition is_start_args (m : meth) : bool := match m with M_start_args => true | _ => false end.
Definition is_start_any_process (m : meth) : bool := match m with M_start_any_process => true | _ => false end.
Definition is_get_network_info (m : meth) : bool := match m with M_get_network_info => true | _ => false end.
Definition is_restart_or_shutdown (m : meth) : bool := match m with M_restart | M_shutdown => true | _ => false end.

Definition group_not_applicable (r : request) : bool :=
  is_start_args (rq_meth r) && match rq_proc r with PrStar => true | _ => false end.
Definition bad_regex (r : request) : bool :=
  is_start_any_process (rq_meth r) && match rq_regex r with RxBad => true | _ => false end.
Definition ambiguous_instance (r : request) : bool :=
  (is_get_network_info (rq_meth r) || is_end_sync (rq_meth r)) && inst_is_multiple (rq_inst r).
(* get_network_info is served for anything that designates exactly one instance, nick identifier included *)
Definition network_info_designates_one (r : request) : bool :=
  is_get_network_info (rq_meth r) && inst_resolves (rq_inst r) && negb (inst_is_multiple (rq_inst r)).

(* a name that is not even a string: any clean parameter fault is accepted *)
Definition hostile_name (r : request) : bool :=
  uses_ns (rq_meth r) && match rq_proc r with PrInt => true | _ => false end.

(* further documented reasons to refuse a call in an allowed state (docstrings):
   end_sync without the USER option (NOT_APPLICABLE) or when a Master is already known; restart / shutdown without
   a Master ("or has no Master instance to perform the request"); restart_sequence with jobs in progress *)
Definition documented_refusal (v : node_view) (r : request) : bool :=
  match rq_meth r with
  | M_end_sync => negb (nv_user v) || negb (mrole_eqb (nv_master v) MNone)
  | M_restart | M_shutdown => mrole_eqb (nv_master v) MNone
  | M_restart_sequence => nv_jobs v
  | _ => false
  end.

Definition is_fault (oc : outcome) : bool := match oc with Fault _ => true | _ => false end.
Definition is_crash (oc : outcome) : bool := match oc with CrashO _ => true | _ => false end.
Definition outcome_is (oc : outcome) (f : fault) : bool := outcome_eqb oc (Fault f).

(* a refused call: no start, no stop, no message, no state change *)
Definition clean (v : node_view) (o : obs) : bool :=
  negb (o_effect o) && negb (o_changed o) && sstate_eqb (o_state o) (nv_state v)
  && mrole_eqb (o_master o) (nv_master v).

Definition spec_ok (v : node_view) (r : request) (o : obs) : bool :=
  let m := rq_meth r in
  let oc := o_outcome o in
  (* fails cleanly: never an internal error, and a fault leaves no trace *)
  negb (is_crash oc)
  && (if is_fault oc then clean v o else true)
  && (if documented_gates (method_class_of m) (nv_state v)
      then
        if documented_refusal v r
        then outcome_is oc F_BAD_SUPVISORS_STATE
             || (is_end_sync m && negb (nv_user v) && outcome_is oc F_NOT_APPLICABLE)
        else if bad_strategy r || unknown_name r || unmanaged_app r || hostile_name r
                || group_not_applicable r || bad_regex r || ambiguous_instance r
        then (bad_strategy r && outcome_is oc F_INCORRECT_PARAMETERS)
             || (unknown_name r && outcome_is oc F_BAD_NAME)
             || (unmanaged_app r && outcome_is oc F_NOT_MANAGED)
             || (group_not_applicable r && outcome_is oc F_BAD_NAME)
             || ((bad_regex r || ambiguous_instance r) && outcome_is oc F_INCORRECT_PARAMETERS)
             || (hostile_name r && (outcome_is oc F_BAD_NAME || outcome_is oc F_INCORRECT_PARAMETERS))
        else if network_info_designates_one r then outcome_eqb oc Served
        else negb (outcome_is oc F_BAD_SUPVISORS_STATE)      (* served in its documented states *)
      else outcome_is oc F_BAD_SUPVISORS_STATE).             (* and only there *)

(* the docstring of the method mentions BAD_SUPVISORS_STATE iff the method is classified as gated *)
Definition doc_ok (r : request) (doc_mentions_state_fault : bool) : bool :=
  Bool.eqb doc_mentions_state_fault
           (match method_class_of (rq_meth r) with Always => false | _ => true end).

(* ------------------------------------------------------------------------------------------------------------ *)
(* Known-finding class (its _refuted theorem with the witness is in proofs/RpcGateProofs.v):
   a namespec that is not a string raises AttributeError in every method that takes a namespec *)
Definition class_namespec_not_string (v : node_view) (r : request) : bool := hostile_name r.

Definition in_known_class (v : node_view) (r : request) : bool := class_namespec_not_string v r.

(* ------------------------------------------------------------------------------------------------------------ *)
(* Cases and evaluators *)
Definition case := (node_view * request * obs * bool)%type.

Definition mismatches (cases : list case) : list nat :=
  find_idx (fun c => let '(v, r, o, _) := c in negb (obs_eqb (model_obs v r) o)) cases.

Definition case_ok (c : case) : bool := let '(v, r, o, d) := c in spec_ok v r o && doc_ok r d.

Definition spec_violations (cases : list case) : list nat :=
  find_idx (fun c => let '(v, r, _, _) := c in negb (case_ok c) && negb (in_known_class v r)) cases.

Definition known (cls : node_view -> request -> bool) (cases : list case) : list nat :=
  find_idx (fun c => let '(v, r, _, _) := c in negb (case_ok c) && cls v r) cases.

Definition known_namespec_not_string := known class_namespec_not_string.
