(* Base.v — shared definitions for all models: Python-dict-like association lists,
   result type with explicit Crash outcomes, small list utilities.
   Definitions only (no proofs here, so the model still runs when a proof breaks). *)
From Coq Require Export List ZArith Bool Lia.
Export ListNotations.
Open Scope Z_scope.

(* Kinds of Python exception the models make explicit. *)
Inductive crash :=
| KeyError | ValueError | InvalidTransition | TypeError | AttributeError | IndexError
| ReError | AssertionError | OutOfFuel | OtherError.

Definition crash_eqb (a b : crash) : bool :=
  match a, b with
  | KeyError, KeyError | ValueError, ValueError | InvalidTransition, InvalidTransition
  | TypeError, TypeError | AttributeError, AttributeError | IndexError, IndexError
  | ReError, ReError | AssertionError, AssertionError | OutOfFuel, OutOfFuel
  | OtherError, OtherError => true
  | _, _ => false
  end.

Inductive result (A : Type) :=
| Ok (a : A)
| Crash (k : crash).
Arguments Ok {A} a.
Arguments Crash {A} k.

Definition bind {A B} (r : result A) (f : A -> result B) : result B :=
  match r with Ok a => f a | Crash k => Crash k end.

(* Insertion-ordered association list with Python dict semantics. Keys are Z. *)
Definition alist (V : Type) := list (Z * V).

Fixpoint aget {V} (k : Z) (l : alist V) : option V :=
  match l with
  | [] => None
  | (k', v) :: r => if Z.eqb k k' then Some v else aget k r
  end.

Definition amem {V} (k : Z) (l : alist V) : bool :=
  match aget k l with Some _ => true | None => false end.

(* d[k] = v : replace in place when present (position kept), append otherwise *)
Fixpoint aset {V} (k : Z) (v : V) (l : alist V) : alist V :=
  match l with
  | [] => [(k, v)]
  | (k', v') :: r => if Z.eqb k k' then (k', v) :: r else (k', v') :: aset k v r
  end.

(* del d[k] *)
Fixpoint adel {V} (k : Z) (l : alist V) : alist V :=
  match l with
  | [] => []
  | (k', v') :: r => if Z.eqb k k' then r else (k', v') :: adel k r
  end.

Definition akeys {V} (l : alist V) : list Z := map fst l.
Definition avals {V} (l : alist V) : list V := map snd l.

(* Sets of Z as duplicate-free lists; order is never observable, comparisons sort first. *)
Definition zmem (k : Z) (l : list Z) : bool := existsb (Z.eqb k) l.
Definition zadd (k : Z) (l : list Z) : list Z := if zmem k l then l else l ++ [k].
Definition zdiscard (k : Z) (l : list Z) : list Z := filter (fun x => negb (Z.eqb k x)) l.

Fixpoint zinsert (x : Z) (l : list Z) : list Z :=
  match l with
  | [] => [x]
  | y :: r => if Z.leb x y then x :: l else y :: zinsert x r
  end.
Definition zsort (l : list Z) : list Z := fold_right zinsert [] l.

Fixpoint list_eqb {A} (eqb : A -> A -> bool) (a b : list A) : bool :=
  match a, b with
  | [], [] => true
  | x :: a', y :: b' => eqb x y && list_eqb eqb a' b'
  | _, _ => false
  end.

Definition option_eqb {A} (eqb : A -> A -> bool) (a b : option A) : bool :=
  match a, b with
  | None, None => true
  | Some x, Some y => eqb x y
  | _, _ => false
  end.

(* Python's max(iterable, key=...) : the FIRST element holding the maximal key. *)
Fixpoint max_by {A} (key : A -> Z) (cur : A) (l : list A) : A :=
  match l with
  | [] => cur
  | x :: r => if Z.ltb (key cur) (key x) then max_by key x r else max_by key cur r
  end.
Definition py_max {A} (key : A -> Z) (l : list A) : option A :=
  match l with [] => None | x :: r => Some (max_by key x r) end.

(* Python's min(iterable, key=...) : the FIRST element holding the minimal key. *)
Fixpoint min_by {A} (key : A -> Z) (cur : A) (l : list A) : A :=
  match l with
  | [] => cur
  | x :: r => if Z.ltb (key x) (key cur) then min_by key x r else min_by key cur r
  end.
Definition py_min {A} (key : A -> Z) (l : list A) : option A :=
  match l with [] => None | x :: r => Some (min_by key x r) end.

(* Indexes (0-based) of the positions where f holds; used to report disagreeing cases. *)
Fixpoint find_idx_from {A} (f : A -> bool) (n : nat) (l : list A) : list nat :=
  match l with
  | [] => []
  | x :: r => if f x then n :: find_idx_from f (S n) r else find_idx_from f (S n) r
  end.
Definition find_idx {A} (f : A -> bool) (l : list A) : list nat := find_idx_from f 0 l.
