(* RulesProofs.v — proofs about model/Rules.v (C18, rules part). *)
From Sup Require Import Rules GenRules.
From Coq Require Import Lia.

(* ================================================================ generic facts *)
Lemma find_map_some : forall {A B} (f : A -> option B) l b,
  find_map f l = Some b ->
  exists l1 x l2, l = l1 ++ x :: l2 /\ f x = Some b /\ forall y, In y l1 -> f y = None.
Proof.
  intros A B f l. induction l as [|a l IH]; intros b H; simpl in H.
  - discriminate.
  - destruct (f a) as [b'|] eqn:E.
    + inversion H; subst. exists [], a, l. repeat split; auto. intros y [].
    + destruct (IH b H) as (l1 & x & l2 & -> & Hx & Hn).
      exists (a :: l1), x, l2. repeat split; auto.
      intros y [<-|Hy]; auto.
Qed.

Lemma find_map_none : forall {A B} (f : A -> option B) l,
  find_map f l = None -> forall y, In y l -> f y = None.
Proof.
  intros A B f l. induction l as [|a l IH]; intros H y Hy; simpl in *.
  - destruct Hy.
  - destruct (f a) eqn:E; [discriminate|]. destruct Hy as [<-|Hy]; auto.
Qed.

Lemma zmem_In : forall x l, zmem x l = true <-> In x l.
Proof.
  intros x l. unfold zmem. rewrite existsb_exists. split.
  - intros (y & Hy & E). apply Z.eqb_eq in E. subst. exact Hy.
  - intros H. exists x. split; auto. apply Z.eqb_refl.
Qed.

Lemma zmem_false : forall x l, zmem x l = false <-> ~ In x l.
Proof.
  intros x l. rewrite <- zmem_In. destruct (zmem x l); split; intros; try discriminate; auto.
  exfalso; auto.
Qed.

(* ---------- Python's max(key=...) : maximal, and the first of the maximal ones ---------- *)
Lemma max_by_spec : forall {A} (key : A -> Z) l cur,
  let m := max_by key cur l in
  (forall x, In x (cur :: l) -> key x <= key m)
  /\ exists l1 l2, cur :: l = l1 ++ m :: l2 /\ forall x, In x l1 -> key x < key m.
Proof.
  intros A key l. induction l as [|a l IH]; intros cur; simpl.
  - split.
    + intros x [<-|[]]. lia.
    + exists [], []. split; auto. intros x [].
  - destruct (Z.ltb (key cur) (key a)) eqn:E.
    + apply Z.ltb_lt in E. destruct (IH a) as (Hmax & l1 & l2 & Heq & Hfirst). split.
      * intros x [<-|Hx]; [|apply Hmax; exact Hx].
        specialize (Hmax a (or_introl eq_refl)). lia.
      * exists (cur :: l1), l2. split.
        -- simpl. rewrite <- Heq. reflexivity.
        -- intros x [<-|Hx]; [|apply Hfirst; exact Hx].
           specialize (Hmax a (or_introl eq_refl)). lia.
    + apply Z.ltb_ge in E. destruct (IH cur) as (Hmax & l1 & l2 & Heq & Hfirst). split.
      * intros x [<-|[<-|Hx]].
        -- apply Hmax. left; reflexivity.
        -- specialize (Hmax cur (or_introl eq_refl)). lia.
        -- apply Hmax. right; exact Hx.
      * destruct l1 as [|c l1].
        -- simpl in Heq. injection Heq as Hc Hl. exists [], (a :: l2). split.
           ++ simpl. congruence.
           ++ intros x [].
        -- simpl in Heq. injection Heq as Hc Hl. subst c.
           exists (cur :: a :: l1), l2. split.
           ++ simpl. congruence.
           ++ intros x [<-|[<-|Hx]].
              ** apply Hfirst. left; reflexivity.
              ** assert (key cur < key (max_by key cur l)) by (apply Hfirst; left; reflexivity). lia.
              ** apply Hfirst. right; exact Hx.
Qed.

(* ================================================================ lookup_precedence *)
(* the matching patterns, in declaration order, with the length of their capture *)
Definition matches (o : oracle) (name : Z) (pats : list Z) : list (Z * Z) :=
  flat_map (fun p => match orc_get o p name with MLen n => [(p, n)] | _ => [] end) pats.

Lemma matching_patterns_ok : forall o name pats l,
  matching_patterns o name pats = Ok l ->
  l = matches o name pats /\ forall p, In p pats -> orc_get o p name <> MErr.
Proof.
  intros o name pats. induction pats as [|p r IH]; intros l H; simpl in H.
  - inversion H. split; [reflexivity | intros p []].
  - unfold matches. simpl. destruct (orc_get o p name) eqn:E.
    + discriminate.
    + destruct (IH l H) as (-> & Hn). split; auto.
      intros q [<-|Hq]; [congruence|auto].
    + destruct (matching_patterns o name r) as [l'|k] eqn:E'; simpl in H; [|discriminate].
      inversion H; subst. destruct (IH l' eq_refl) as (-> & Hn). split; auto.
      intros q [<-|Hq]; [congruence|auto].
Qed.

Lemma matching_patterns_crash : forall o name pats k,
  matching_patterns o name pats = Crash k ->
  k = ReError /\ exists p, In p pats /\ orc_get o p name = MErr.
Proof.
  intros o name pats. induction pats as [|p r IH]; intros k H; simpl in H.
  - discriminate.
  - destruct (orc_get o p name) eqn:E.
    + inversion H. split; auto. exists p. split; [left; reflexivity|exact E].
    + destruct (IH k H) as (-> & q & Hq & Eq). split; auto. exists q. split; [right; exact Hq|exact Eq].
    + destruct (matching_patterns o name r) as [l'|k'] eqn:E'; simpl in H; [discriminate|].
      inversion H; subst. destruct (IH k eq_refl) as (-> & q & Hq & Eq).
      split; auto. exists q. split; [right; exact Hq|exact Eq].
Qed.

Lemma matching_patterns_total : forall o name pats,
  (forall p, In p pats -> orc_get o p name <> MErr) ->
  matching_patterns o name pats = Ok (matches o name pats).
Proof.
  intros o name pats H. destruct (matching_patterns o name pats) as [l|k] eqn:E.
  - destruct (matching_patterns_ok _ _ _ _ E) as (-> & _). reflexivity.
  - destruct (matching_patterns_crash _ _ _ _ E) as (_ & p & Hp & Ep). exfalso. exact (H p Hp Ep).
Qed.

Lemma in_matches : forall o name pats p n,
  In (p, n) (matches o name pats) <-> In p pats /\ orc_get o p name = MLen n.
Proof.
  intros o name pats p n. unfold matches. rewrite in_flat_map. split.
  - intros (q & Hq & Hin). destruct (orc_get o q name) eqn:E; simpl in Hin; try contradiction.
    destruct Hin as [Heq|[]]. inversion Heq; subst. auto.
  - intros (Hp & E). exists p. split; auto. rewrite E. left; reflexivity.
Qed.

(* what get_best_pattern returns *)
Definition is_best (o : oracle) (name : Z) (pats : list Z) (p : Z) : Prop :=
  exists n, In p pats /\ orc_get o p name = MLen n
    (* the longest capture *)
    /\ (forall q m, In q pats -> orc_get o q name = MLen m -> m <= n)
    (* the first declared among the longest *)
    /\ exists l1 l2, matches o name pats = l1 ++ (p, n) :: l2 /\ forall qm, In qm l1 -> snd qm < n.

Lemma get_best_pattern_some : forall o name pats p,
  get_best_pattern o name pats = Ok (Some p) -> is_best o name pats p.
Proof.
  intros o name pats p H. unfold get_best_pattern in H.
  destruct (matching_patterns o name pats) as [l|k] eqn:E; simpl in H; [|discriminate].
  destruct (matching_patterns_ok _ _ _ _ E) as (-> & _).
  destruct (matches o name pats) as [|c l] eqn:El; simpl in H; [discriminate|].
  inversion H as [Hp]. clear H.
  destruct (max_by_spec snd l c) as (Hmax & l1 & l2 & Heq & Hfirst).
  set (m := max_by snd c l) in *. destruct m as [p' n] eqn:Em. simpl in Hp. subst p'.
  exists n.
  assert (Hin : In (p, n) (matches o name pats)).
  { rewrite El, Heq. apply in_or_app. right. left. reflexivity. }
  apply in_matches in Hin. destruct Hin as (Hp & Ep).
  repeat split; auto.
  - intros q k Hq Eq. assert (Hqk : In (q, k) (c :: l)) by (rewrite <- El; apply in_matches; auto).
    apply Hmax in Hqk. simpl in Hqk. exact Hqk.
  - exists l1, l2. split; [simpl; rewrite El; exact Heq | exact Hfirst].
Qed.

Lemma get_best_pattern_none : forall o name pats,
  get_best_pattern o name pats = Ok None <->
  (forall p, In p pats -> orc_get o p name = MNone).
Proof.
  intros o name pats. unfold get_best_pattern. split.
  - intros H p Hp. destruct (matching_patterns o name pats) as [l|k] eqn:E; simpl in H; [|discriminate].
    destruct (matching_patterns_ok _ _ _ _ E) as (-> & Hne).
    destruct (orc_get o p name) eqn:Ep; auto.
    + exfalso. exact (Hne p Hp Ep).
    + assert (Hin : In (p, n) (matches o name pats)) by (apply in_matches; auto).
      destruct (matches o name pats); [destruct Hin|]. simpl in H. discriminate.
  - intros H. rewrite matching_patterns_total.
    + simpl. assert (matches o name pats = []) as ->; [|reflexivity].
      unfold matches. induction pats as [|p r IH]; auto. simpl.
      rewrite (H p (or_introl eq_refl)). simpl. apply IH. intros q Hq. apply H. right; exact Hq.
    + intros p Hp. rewrite (H p Hp). discriminate.
Qed.

Lemma get_best_pattern_crash : forall o name pats k,
  get_best_pattern o name pats = Crash k ->
  k = ReError /\ exists p, In p pats /\ orc_get o p name = MErr.
Proof.
  intros o name pats k H. unfold get_best_pattern in H.
  destruct (matching_patterns o name pats) as [l|k'] eqn:E; simpl in H; [discriminate|].
  inversion H; subst. eapply matching_patterns_crash; eauto.
Qed.

Lemma get_best_pattern_total : forall o name pats,
  (forall p, In p pats -> orc_get o p name <> MErr) -> exists r, get_best_pattern o name pats = Ok r.
Proof.
  intros o name pats H. unfold get_best_pattern. rewrite matching_patterns_total by exact H. simpl. eauto.
Qed.

(* ---------- applications ---------- *)
(* exact name: found whatever the patterns are (even if some pattern is not a regular expression) *)
Lemma app_exact_name_wins : forall d o name a,
  find_app_by_name d name = Some a -> get_application_element d o name = Ok (Some a).
Proof. intros d o name a H. unfold get_application_element. rewrite H. reflexivity. Qed.

(* ... and it is the first application element of that name, in the order of the rules files *)
Lemma app_exact_name_first : forall d name e ps,
  find_app_by_name d name = Some (e, ps) ->
  exists l1 l2, items d = l1 ++ IApp e ps :: l2 /\ e_name e = Some name
    /\ forall e' ps', In (IApp e' ps') l1 -> e_name e' <> Some name.
Proof.
  intros d name e ps H. unfold find_app_by_name in H.
  destruct (find_map_some _ _ _ H) as (l1 & x & l2 & Heq & Hx & Hn).
  destruct x as [| |e0 ps0]; try discriminate.
  destruct (opt_Zeqb (e_name e0) name) eqn:E; [|discriminate]. inversion Hx; subst.
  exists l1, l2. split; auto. split.
  - unfold opt_Zeqb in E. destruct (e_name e); [|discriminate]. apply Z.eqb_eq in E. subst. reflexivity.
  - intros e' ps' Hin Hname. specialize (Hn _ Hin). simpl in Hn. rewrite Hname in Hn. simpl in Hn.
    rewrite Z.eqb_refl in Hn. discriminate.
Qed.

(* no exact name: the best pattern, or nothing *)
Lemma app_pattern_lookup : forall d o name r,
  find_app_by_name d name = None ->
  get_application_element d o name = Ok r ->
  match r with
  | Some a => exists p, is_best o name (akeys (app_patterns_of d)) p /\ aget p (app_patterns_of d) = Some a
  | None => forall p, In p (akeys (app_patterns_of d)) -> orc_get o p name = MNone \/ aget p (app_patterns_of d) = None
  end.
Proof.
  intros d o name r Hf H. unfold get_application_element in H. rewrite Hf in H.
  destruct (get_best_pattern o name (akeys (app_patterns_of d))) as [best|k] eqn:E; simpl in H; [|discriminate].
  inversion H; subst. clear H. destruct best as [p|].
  - destruct (aget p (app_patterns_of d)) as [a|] eqn:Ea.
    + exists p. split; auto. apply get_best_pattern_some. exact E.
    + intros q Hq. destruct (Z.eq_dec q p) as [->|Hne]; [right; exact Ea|].
      (* cannot happen (p is a key) but the statement does not need it *)
      apply get_best_pattern_some in E. destruct E as (n & Hp & _).
      exfalso. clear - Hp Ea. unfold akeys in Hp. induction (app_patterns_of d) as [|[k v] l IH]; simpl in *.
      * destruct Hp.
      * destruct (Z.eqb p k) eqn:Ek; [discriminate|]. destruct Hp as [<-|Hp]; [rewrite Z.eqb_refl in Ek; discriminate|auto].
  - intros p Hp. left. apply (proj1 (get_best_pattern_none o name _) E p Hp).
Qed.

(* absent application: the rules stay unmanaged, only check_dependencies applies *)
Lemma app_absent_unmanaged : forall d o ev name idx r0,
  get_application_element d o name = Ok None ->
  load_application_rules d o ev name idx r0 = app_check_dependencies ev idx r0.
Proof. intros. unfold load_application_rules. rewrite H. reflexivity. Qed.

(* ---------- programs ---------- *)
Lemma prog_exact_name_wins : forall d o app proc e ps x,
  get_application_element d o app = Ok (Some (e, ps)) ->
  find (fun e => opt_Zeqb (e_name e) proc) ps = Some x ->
  get_program_element d o app proc = Ok (Some x, false).
Proof. intros. unfold get_program_element. rewrite H. simpl. rewrite H0. reflexivity. Qed.

Lemma prog_pattern_lookup : forall d o app proc e ps x b,
  get_application_element d o app = Ok (Some (e, ps)) ->
  find (fun e => opt_Zeqb (e_name e) proc) ps = None ->
  get_program_element d o app proc = Ok (Some x, b) ->
  b = true /\ exists p, is_best o proc (akeys (prog_patterns_of ps)) p /\ aget p (prog_patterns_of ps) = Some x.
Proof.
  intros d o app proc e ps x b Ha Hf H. unfold get_program_element in H. rewrite Ha in H. simpl in H.
  rewrite Hf in H.
  destruct (get_best_pattern o proc (akeys (prog_patterns_of ps))) as [best|k] eqn:E; simpl in H; [|discriminate].
  destruct best as [p|]; [|discriminate].
  destruct (aget p (prog_patterns_of ps)) as [y|] eqn:Ey; inversion H; subst.
  split; auto. exists p. split; auto. apply get_best_pattern_some. exact E.
Qed.

Lemma prog_absent_defaults : forall d o app proc r0,
  get_program_element d o app proc = Ok (None, false) ->
  load_program_rules d o app proc r0 = Ok (check_dependencies false r0).
Proof. intros. unfold load_program_rules. rewrite H. reflexivity. Qed.

Lemma prog_no_application : forall d o app proc,
  get_application_element d o app = Ok None -> get_program_element d o app proc = Ok (None, false).
Proof. intros. unfold get_program_element. rewrite H. reflexivity. Qed.

(* totality: lookups can only fail on a pattern that is not a regular expression *)
Lemma app_lookup_crash : forall d o name k,
  get_application_element d o name = Crash k ->
  k = ReError /\ exists p, In p (akeys (app_patterns_of d)) /\ orc_get o p name = MErr.
Proof.
  intros d o name k H. unfold get_application_element in H.
  destruct (find_app_by_name d name); [discriminate|].
  destruct (get_best_pattern o name (akeys (app_patterns_of d))) as [best|k'] eqn:E; simpl in H; [discriminate|].
  inversion H; subst. eapply get_best_pattern_crash; eauto.
Qed.

(* ================================================================ model_depth *)
(* the elements whose rules are loaded: the program element, then the referenced models, as long as the counter
   allows (Parser.load_model_rules returns without loading anything when the counter reaches 0) *)
Fixpoint chain (models : alist elt) (e : elt) (fuel : nat) : list elt :=
  match fuel with
  | O => []
  | S n => e :: match get_model_element models e with Some m => chain models m n | None => [] end
  end.

Lemma chain_length : forall models fuel e, (length (chain models e fuel) <= fuel)%nat.
Proof.
  intros models fuel. induction fuel as [|n IH]; intros e; simpl; [lia|].
  destruct (get_model_element models e) as [m|]; simpl; [specialize (IH m)|]; lia.
Qed.

(* load_model_rules terminates on every document (it is a structural Fixpoint on the counter, cycles included)
   and loads exactly the chain, deepest element first, so that nearer elements supersede *)
Lemma load_model_rules_chain : forall models aliases fuel e r,
  load_model_rules models aliases e r fuel = fold_right (load_elt_fields aliases) r (chain models e fuel).
Proof.
  intros models aliases fuel. induction fuel as [|n IH]; intros e r; simpl; [reflexivity|].
  destruct (get_model_element models e) as [m|]; simpl; [rewrite IH|]; reflexivity.
Qed.

Lemma loop_check_is_3 : loop_check_init = 3%nat.
Proof. vm_compute. reflexivity. Qed.
(* the reflected Parser.LOOP_CHECK is the documented depth *)
Lemma loop_check_as_documented : loop_check_init = doc_depth.
Proof. vm_compute. reflexivity. Qed.

(* at most LOOP_CHECK elements are loaded: the program element and LOOP_CHECK - 1 = 2 models;
   the reference held by the second model is looked up but its target is not loaded *)
Lemma chain_bounded : forall models e, (length (chain models e loop_check_init) <= 3)%nat.
Proof. intros. pose proof (chain_length models loop_check_init e) as H. rewrite loop_check_is_3 in H at 2. exact H. Qed.

Lemma chain_shape : forall models e,
  chain models e loop_check_init =
  e :: match get_model_element models e with
       | None => []
       | Some m1 => m1 :: match get_model_element models m1 with None => [] | Some m2 => [m2] end
       end.
Proof.
  intros. rewrite loop_check_is_3. simpl.
  destruct (get_model_element models e) as [m1|]; [|reflexivity].
  destruct (get_model_element models m1) as [m2|]; [|reflexivity].
  destruct (get_model_element models m2); reflexivity.
Qed.

(* ================================================================ domain_frame *)
Lemma load_sequence_valid : forall v cur,
  load_sequence v cur = match valid_sequence v with Some z => z | None => cur end.
Proof. intros [|z|] cur; simpl; auto. destruct (Z.leb 0 z); auto. Qed.
Lemma load_loading_valid : forall v cur,
  load_loading v cur = match valid_loading v with Some z => z | None => cur end.
Proof. intros [|z|] cur; simpl; auto. destruct (Z.leb 0 z && Z.leb z 100); auto. Qed.
Lemma load_boolean_valid : forall v cur,
  load_boolean v cur = match valid_bool v with Some b => b | None => cur end.
Proof. intros [|b|] cur; simpl; auto. Qed.
Lemma load_enum_valid : forall values v cur,
  load_enum values v cur = match valid_enum values v with Some z => z | None => cur end.
Proof. intros values [|c|] cur; simpl; auto. destruct (zmem c values); auto. Qed.

(* what "in its domain" means, value by value *)
Lemma valid_sequence_spec : forall v z, valid_sequence v = Some z <-> v = PInt z /\ 0 <= z.
Proof.
  intros [|x|] z; simpl; split; try (intros H; discriminate H); try (intros (H & _); discriminate H).
  - destruct (Z.leb 0 x) eqn:E; intros H; inversion H; subst. split; auto. apply Z.leb_le; auto.
  - intros (H & Hz). inversion H; subst. apply Z.leb_le in Hz. rewrite Hz. reflexivity.
Qed.
Lemma valid_loading_spec : forall v z, valid_loading v = Some z <-> v = PInt z /\ 0 <= z <= 100.
Proof.
  intros [|x|] z; simpl; split; try (intros H; discriminate H); try (intros (H & _); discriminate H).
  - destruct (Z.leb 0 x && Z.leb x 100) eqn:E; intros H; inversion H; subst.
    apply andb_prop in E. destruct E as (E1 & E2). apply Z.leb_le in E1. apply Z.leb_le in E2. auto.
  - intros (H & Hz1 & Hz2). inversion H; subst. apply Z.leb_le in Hz1. apply Z.leb_le in Hz2.
    rewrite Hz1, Hz2. reflexivity.
Qed.
Lemma valid_enum_spec : forall values v c, valid_enum values v = Some c <-> v = PEnum c /\ In c values.
Proof.
  intros values [|x|] c; simpl; split; try (intros H; discriminate H); try (intros (H & _); discriminate H).
  - destruct (zmem x values) eqn:E; intros H; inversion H; subst. split; auto. apply zmem_In; auto.
  - intros (H & Hc). inversion H; subst. apply zmem_In in Hc. rewrite Hc. reflexivity.
Qed.

(* domain_frame: a value outside its domain leaves the attribute as it was — for every loader *)
Lemma load_sequence_frame : forall v cur, (forall z, v = PInt z -> z < 0) -> load_sequence v cur = cur.
Proof.
  intros [|z|] cur H; simpl; auto. specialize (H z eq_refl).
  destruct (Z.leb 0 z) eqn:E; auto. apply Z.leb_le in E. lia.
Qed.
Lemma load_loading_frame : forall v cur, (forall z, v = PInt z -> z < 0 \/ 100 < z) -> load_loading v cur = cur.
Proof.
  intros [|z|] cur H; simpl; auto. specialize (H z eq_refl).
  destruct (Z.leb 0 z && Z.leb z 100) eqn:E; auto. apply andb_prop in E. destruct E as (E1 & E2).
  apply Z.leb_le in E1. apply Z.leb_le in E2. lia.
Qed.
Lemma load_boolean_frame : forall v cur, (forall b, v <> PBool b) -> load_boolean v cur = cur.
Proof. intros [|b|] cur H; simpl; auto. exfalso. exact (H b eq_refl). Qed.
Lemma load_enum_frame : forall values v cur, (forall c, v = PEnum c -> ~ In c values) -> load_enum values v cur = cur.
Proof.
  intros values [|c|] cur H; simpl; auto. specialize (H c eq_refl).
  destruct (zmem c values) eqn:E; auto. apply zmem_In in E. contradiction.
Qed.
Lemma load_sequence_in_domain : forall z cur, 0 <= z -> load_sequence (PInt z) cur = z.
Proof. intros z cur H. simpl. apply Z.leb_le in H. rewrite H. reflexivity. Qed.
Lemma load_identifiers_empty : forall aliases t, load_identifiers aliases [] t = t.
Proof. reflexivity. Qed.

(* the rules record after an element whose values are all absent, empty or out of their domain *)
Definition field_inert (f : field) : Prop :=
  match f with
  | FRef _ => True
  | FIdents toks => toks = []
  | FStart v | FStop v => valid_sequence v = None
  | FRequired v | FWaitExit v => valid_bool v = None
  | FLoading v => valid_loading v = None
  | FSfs v => valid_enum gr_StartingFailureStrategies_values v = None
  | FRfs v => valid_enum gr_RunningFailureStrategies_values v = None
  | FDistribution _ | FStrategy _ => True
  end.

Lemma find_map_in : forall {A B} (f : A -> option B) l b, find_map f l = Some b -> exists x, In x l /\ f x = Some b.
Proof.
  intros A B f l b H. destruct (find_map_some f l b H) as (l1 & x & l2 & -> & Hx & _).
  exists x. split; auto. apply in_or_app. right. left. reflexivity.
Qed.

Theorem domain_frame_element : forall aliases e r,
  (forall f, In f (e_fields e) -> field_inert f) -> load_elt_fields aliases e r = r.
Proof.
  intros aliases e r H. unfold load_elt_fields. destruct r as [t st sp rq we ld sf rf]. simpl.
  assert (Hi : opt_apply (f_idents (e_fields e)) (load_identifiers aliases) t = t).
  { unfold opt_apply. destruct (f_idents (e_fields e)) as [toks|] eqn:E; auto.
    destruct (find_map_in _ _ _ E) as (f & Hf & Ef). destruct f; try discriminate. inversion Ef; subst.
    specialize (H _ Hf). simpl in H. subst. reflexivity. }
  assert (Hst : opt_apply (f_start (e_fields e)) load_sequence st = st).
  { unfold opt_apply. destruct (f_start (e_fields e)) as [v|] eqn:E; auto.
    destruct (find_map_in _ _ _ E) as (f & Hf & Ef). destruct f; try discriminate. inversion Ef; subst.
    specialize (H _ Hf). simpl in H. rewrite load_sequence_valid, H. reflexivity. }
  assert (Hsp : opt_apply (f_stop (e_fields e)) load_sequence sp = sp).
  { unfold opt_apply. destruct (f_stop (e_fields e)) as [v|] eqn:E; auto.
    destruct (find_map_in _ _ _ E) as (f & Hf & Ef). destruct f; try discriminate. inversion Ef; subst.
    specialize (H _ Hf). simpl in H. rewrite load_sequence_valid, H. reflexivity. }
  assert (Hrq : opt_apply (f_required (e_fields e)) load_boolean rq = rq).
  { unfold opt_apply. destruct (f_required (e_fields e)) as [v|] eqn:E; auto.
    destruct (find_map_in _ _ _ E) as (f & Hf & Ef). destruct f; try discriminate. inversion Ef; subst.
    specialize (H _ Hf). simpl in H. rewrite load_boolean_valid, H. reflexivity. }
  assert (Hwe : opt_apply (f_wait_exit (e_fields e)) load_boolean we = we).
  { unfold opt_apply. destruct (f_wait_exit (e_fields e)) as [v|] eqn:E; auto.
    destruct (find_map_in _ _ _ E) as (f & Hf & Ef). destruct f; try discriminate. inversion Ef; subst.
    specialize (H _ Hf). simpl in H. rewrite load_boolean_valid, H. reflexivity. }
  assert (Hld : opt_apply (f_loading (e_fields e)) load_loading ld = ld).
  { unfold opt_apply. destruct (f_loading (e_fields e)) as [v|] eqn:E; auto.
    destruct (find_map_in _ _ _ E) as (f & Hf & Ef). destruct f; try discriminate. inversion Ef; subst.
    specialize (H _ Hf). simpl in H. rewrite load_loading_valid, H. reflexivity. }
  assert (Hsf : opt_apply (f_sfs (e_fields e)) (load_enum gr_StartingFailureStrategies_values) sf = sf).
  { unfold opt_apply. destruct (f_sfs (e_fields e)) as [v|] eqn:E; auto.
    destruct (find_map_in _ _ _ E) as (f & Hf & Ef). destruct f; try discriminate. inversion Ef; subst.
    specialize (H _ Hf). simpl in H. rewrite load_enum_valid, H. reflexivity. }
  assert (Hrf : opt_apply (f_rfs (e_fields e)) (load_enum gr_RunningFailureStrategies_values) rf = rf).
  { unfold opt_apply. destruct (f_rfs (e_fields e)) as [v|] eqn:E; auto.
    destruct (find_map_in _ _ _ E) as (f & Hf & Ef). destruct f; try discriminate. inversion Ef; subst.
    specialize (H _ Hf). simpl in H. rewrite load_enum_valid, H. reflexivity. }
  rewrite Hi, Hst, Hsp, Hrq, Hwe, Hld, Hsf, Hrf. reflexivity.
Qed.

(* ---------- supersede + frame together: the value of every scalar rule after the whole chain is the first
   in-domain value met from the program element along the chain, otherwise the initial value ---------- *)
Section FirstValid.
  Context {V A : Type}.
  Variable sel : list field -> option V.
  Variable valid : V -> option A.
  Variable load : V -> A -> A.
  Variable proj : prules -> A.
  Variable aliases : alist (list Z).
  Hypothesis load_valid : forall v cur, load v cur = match valid v with Some a => a | None => cur end.
  Hypothesis proj_load : forall e r, proj (load_elt_fields aliases e r) = opt_apply (sel (e_fields e)) load (proj r).

  Lemma fold_first_valid : forall ch r,
    proj (fold_right (load_elt_fields aliases) r ch) = first_valid sel valid ch (proj r).
  Proof.
    induction ch as [|e ch IH]; intros r; simpl; [reflexivity|].
    rewrite proj_load, IH. unfold first_valid. simpl. unfold opt_apply.
    destruct (sel (e_fields e)) as [v|]; [|reflexivity].
    rewrite load_valid. destruct (valid v); reflexivity.
  Qed.
End FirstValid.

Theorem scalar_rules_first_valid : forall models aliases e r,
  let ch := chain models e loop_check_init in
  let r' := load_model_rules models aliases e r loop_check_init in
  p_start r' = first_valid f_start valid_sequence ch (p_start r)
  /\ p_stop r' = first_valid f_stop valid_sequence ch (p_stop r)
  /\ p_required r' = first_valid f_required valid_bool ch (p_required r)
  /\ p_wait_exit r' = first_valid f_wait_exit valid_bool ch (p_wait_exit r)
  /\ p_load r' = first_valid f_loading valid_loading ch (p_load r)
  /\ p_sfs r' = first_valid f_sfs (valid_enum gr_StartingFailureStrategies_values) ch (p_sfs r)
  /\ p_rfs r' = first_valid f_rfs (valid_enum gr_RunningFailureStrategies_values) ch (p_rfs r).
Proof.
  intros models aliases e r ch r'. unfold r'. rewrite load_model_rules_chain. fold ch.
  repeat split.
  - apply (fold_first_valid f_start valid_sequence load_sequence p_start aliases load_sequence_valid). reflexivity.
  - apply (fold_first_valid f_stop valid_sequence load_sequence p_stop aliases load_sequence_valid). reflexivity.
  - apply (fold_first_valid f_required valid_bool load_boolean p_required aliases load_boolean_valid). reflexivity.
  - apply (fold_first_valid f_wait_exit valid_bool load_boolean p_wait_exit aliases load_boolean_valid). reflexivity.
  - apply (fold_first_valid f_loading valid_loading load_loading p_load aliases load_loading_valid). reflexivity.
  - apply (fold_first_valid f_sfs (valid_enum gr_StartingFailureStrategies_values)
             (load_enum gr_StartingFailureStrategies_values) p_sfs aliases (load_enum_valid _)). reflexivity.
  - apply (fold_first_valid f_rfs (valid_enum gr_RunningFailureStrategies_values)
             (load_enum gr_RunningFailureStrategies_values) p_rfs aliases (load_enum_valid _)). reflexivity.
Qed.

(* a cyclic document: m1 references m2, m2 references m1; the lookup terminates and loads prg, m1, m2 *)
Example cyclic_models_terminate :
  let m1 := mkElt (Some 10) None [FRef 11; FStart (PInt 5); FLoading (PInt 30)] in
  let m2 := mkElt (Some 11) None [FRef 10; FStart (PInt 7); FRequired (PBool true); FStop (PInt (-4))] in
  let prg := mkElt (Some 20) None [FRef 10; FLoading (PInt 200)] in
  let d := [[IModel m1; IModel m2; IApp (mkElt (Some 30) None []) [prg]]] in
  rmap obs_prules (load_program_rules d [] 30 20 (prules_init 0 0))
  = Ok (([S_STAR], [], []), 5, 5, true, false, 30, 0, 0)
  /\ chain (models_of d) prg loop_check_init = [prg; m1; m2].
Proof. vm_compute. split; reflexivity. Qed.

(* ================================================================ dependencies *)
(* required without a start_sequence is dropped *)
Lemma required_dropped : forall b r, p_start r = 0 -> p_required (check_dependencies b r) = false.
Proof. intros b r H. unfold check_dependencies. simpl. rewrite H. simpl. destruct (p_required r); reflexivity. Qed.
Lemma required_kept : forall b r, p_start r <> 0 -> p_required (check_dependencies b r) = p_required r.
Proof.
  intros b r H. unfold check_dependencies. simpl. apply Z.eqb_neq in H. rewrite H.
  destruct (p_required r); reflexivity.
Qed.
(* stop_sequence defaults to start_sequence *)
Lemma stop_defaults_to_start : forall b r, p_stop r < 0 -> p_stop (check_dependencies b r) = p_start r.
Proof. intros b r H. unfold check_dependencies. simpl. apply Z.ltb_lt in H. rewrite H. reflexivity. Qed.
Lemma stop_kept : forall b r, 0 <= p_stop r -> p_stop (check_dependencies b r) = p_stop r.
Proof. intros b r H. unfold check_dependencies. simpl. apply Z.ltb_ge in H. rewrite H. reflexivity. Qed.
Lemma start_untouched : forall b r, p_start (check_dependencies b r) = p_start r.
Proof. reflexivity. Qed.

(* '@' and '#' are accepted only from a pattern; '@' wins over '#' *)
Lemma signs_only_from_patterns : forall r,
  let t := p_idt (check_dependencies false r) in
  i_at t = [] /\ i_hash t = []
  /\ (i_at (p_idt r) <> [] \/ i_hash (p_idt r) <> [] -> i_ids t = [S_STAR])
  /\ (i_at (p_idt r) = [] -> i_hash (p_idt r) = [] -> i_ids t = i_ids (p_idt r)).
Proof.
  intros r. unfold check_dependencies. simpl. destruct (p_idt r) as [ids a h]. simpl.
  unfold check_sign_identifiers, check_hash_identifiers_p, check_at_identifiers. simpl.
  destruct a as [|a0 a]; destruct h as [|h0 h]; simpl; repeat split; auto; try tauto;
    intros; try congruence; try (destruct H; congruence).
Qed.

Lemma at_wins_over_hash : forall r,
  i_at (p_idt r) <> [] -> i_hash (p_idt r) <> [] ->
  let t := p_idt (check_dependencies true r) in
  i_at t = i_at (p_idt r) /\ i_hash t = [] /\ i_ids t = i_ids (p_idt r).
Proof.
  intros r Ha Hh. unfold check_dependencies. simpl. destruct (p_idt r) as [ids a h]. simpl in *.
  unfold check_sign_identifiers, check_hash_identifiers_p, check_at_identifiers. simpl.
  destruct a as [|a0 a]; [congruence|]. destruct h as [|h0 h]; [congruence|]. simpl. auto.
Qed.

Lemma pattern_sign_kept : forall r,
  (i_at (p_idt r) = [] \/ i_hash (p_idt r) = []) -> p_idt (check_dependencies true r) = p_idt r.
Proof.
  intros r H. unfold check_dependencies. simpl. destruct (p_idt r) as [ids a h]. simpl in *.
  unfold check_sign_identifiers, check_hash_identifiers_p, check_at_identifiers. simpl.
  destruct a as [|a0 a]; destruct h as [|h0 h]; simpl; auto. destruct H; discriminate.
Qed.

(* ---------- alias expansion ---------- *)
Lemma replace_first_absent : forall x b l, ~ In x l -> replace_first x b l = l.
Proof.
  intros x b l. induction l as [|y r IH]; intros H; simpl; auto.
  destruct (Z.eqb x y) eqn:E.
  - apply Z.eqb_eq in E. subst. exfalso. apply H. left; reflexivity.
  - rewrite IH; auto. intros Hin. apply H. right; exact Hin.
Qed.

(* the first occurrence of the alias name, and only it, is replaced by the alias content, in place *)
Lemma replace_first_present : forall x b l, In x l ->
  exists l1 l2, l = l1 ++ x :: l2 /\ ~ In x l1 /\ replace_first x b l = l1 ++ b ++ l2.
Proof.
  intros x b l. induction l as [|y r IH]; intros H; simpl in *; [destruct H|].
  destruct (Z.eqb x y) eqn:E.
  - apply Z.eqb_eq in E. subst. exists [], r. repeat split; auto.
  - apply Z.eqb_neq in E. destruct H as [->|H]; [congruence|].
    destruct (IH H) as (l1 & l2 & -> & Hn & Hr). exists (y :: l1), l2. repeat split.
    + intros [->|Hin]; [congruence|auto].
    + simpl. rewrite Hr. reflexivity.
Qed.

Lemma expand_aliases_nil : forall toks, expand_aliases [] toks = toks.
Proof. reflexivity. Qed.
(* aliases are applied one after the other, in declaration order *)
Lemma expand_aliases_cons : forall n content rest toks,
  expand_aliases ((n, content) :: rest) toks = expand_aliases rest (replace_first n content toks).
Proof. reflexivity. Qed.

Lemma nodup_first_in : forall l x, In x (nodup_first l) <-> In x l.
Proof.
  induction l as [|y r IH]; intros x; simpl; [tauto|]. split.
  - intros [->|H]; auto. apply filter_In in H. destruct H as (H & _). right. apply IH. exact H.
  - intros [->|H]; auto. destruct (Z.eq_dec y x) as [->|Hne]; auto. right. apply filter_In. split.
    + apply IH. exact H.
    + apply Z.eqb_neq in Hne. rewrite Hne. reflexivity.
Qed.

Lemma NoDup_filter : forall {A} (f : A -> bool) l, NoDup l -> NoDup (filter f l).
Proof.
  intros A f l H. induction H as [|x l Hx Hl IH]; simpl; [constructor|].
  destruct (f x); auto. constructor; auto. intros Hin. apply filter_In in Hin. tauto.
Qed.

Lemma nodup_first_NoDup : forall l, NoDup (nodup_first l).
Proof.
  induction l as [|y r IH]; simpl; constructor.
  - intros H. apply filter_In in H. destruct H as (_ & H). rewrite Z.eqb_refl in H. discriminate.
  - apply NoDup_filter. exact IH.
Qed.

(* identifier lists are duplicate-free and without empty names, whatever the aliases *)
Theorem check_identifier_list_clean : forall aliases toks,
  NoDup (check_identifier_list aliases toks) /\ ~ In S_EMPTY (check_identifier_list aliases toks).
Proof.
  intros aliases toks. unfold check_identifier_list. split.
  - apply nodup_first_NoDup.
  - intros H. apply (proj1 (nodup_first_in _ _)) in H. apply filter_In in H. destruct H as (_ & H).
    rewrite Z.eqb_refl in H. discriminate.
Qed.

Theorem check_identifier_list_no_alias : forall toks,
  check_identifier_list [] toks = nodup_first (filter (fun x => negb (Z.eqb x S_EMPTY)) toks).
Proof. reflexivity. Qed.

(* docs: an alias may use another alias only if it is declared BEFORE it *)
Example alias_order_matters :
  (* <alias name="10">11,12</alias> <alias name="11">20,21</alias> : identifiers "10,30" *)
  check_identifier_list [(10, [11; 12]); (11, [20; 21])] [10; 30] = [20; 21; 12; 30]
  (* the other way round, alias 11 is not expanded inside alias 10 *)
  /\ check_identifier_list [(11, [20; 21]); (10, [11; 12])] [10; 30] = [11; 12; 30]
  (* only the first occurrence of an alias is expanded; the second one stays (and is filtered later by the mapper) *)
  /\ check_identifier_list [(10, [20])] [10; 30; 10] = [20; 30; 10].
Proof. vm_compute. repeat split. Qed.

(* ================================================================ '@' : assign_at is injective and bounded *)
From Coq Require Import Permutation.

Lemma map_snd_combine_incl : forall {A B} (l1 : list A) (l2 : list B) x,
  In x (map snd (combine l1 l2)) -> In x l2.
Proof.
  intros A B l1. induction l1 as [|a l1 IH]; intros l2 x H; simpl in H; [destruct H|].
  destruct l2 as [|b l2]; simpl in H; [destruct H|]. destruct H as [<-|H]; [left; reflexivity|right; eauto].
Qed.
Lemma map_fst_combine_incl : forall {A B} (l1 : list A) (l2 : list B) x,
  In x (map fst (combine l1 l2)) -> In x l1.
Proof.
  intros A B l1. induction l1 as [|a l1 IH]; intros l2 x H; simpl in H; [destruct H|].
  destruct l2 as [|b l2]; simpl in H; [destruct H|]. destruct H as [<-|H]; [left; reflexivity|right; eauto].
Qed.
Lemma NoDup_map_snd_combine : forall {A B} (l1 : list A) (l2 : list B), NoDup l2 -> NoDup (map snd (combine l1 l2)).
Proof.
  intros A B l1. induction l1 as [|a l1 IH]; intros l2 H; simpl; [constructor|].
  destruct l2 as [|b l2]; simpl; [constructor|]. inversion H; subst. constructor; auto.
  intros Hin. apply map_snd_combine_incl in Hin. contradiction.
Qed.
Lemma NoDup_map_fst_combine : forall {A B C} (f : A -> C) (l1 : list A) (l2 : list B),
  NoDup (map f l1) -> NoDup (map (fun x => f (fst x)) (combine l1 l2)).
Proof.
  intros A B C f l1. induction l1 as [|a l1 IH]; intros l2 H; simpl; [constructor|].
  destruct l2 as [|b l2]; simpl; [constructor|]. simpl in H. inversion H; subst. constructor; auto.
  intros Hin. apply H2. apply in_map_iff in Hin. destruct Hin as ((a', b') & Hf & Hin). simpl in Hf.
  rewrite <- Hf. apply in_map. apply (map_fst_combine_incl l1 l2). apply in_map_iff. exists (a', b'). auto.
Qed.
Lemma NoDup_map_filter : forall {A C} (f : A -> C) (g : A -> bool) l, NoDup (map f l) -> NoDup (map f (filter g l)).
Proof.
  intros A C f g l. induction l as [|a l IH]; intros H; simpl; [constructor|].
  simpl in H. inversion H; subst. destruct (g a); simpl; auto. constructor; auto.
  intros Hin. apply H2. apply in_map_iff in Hin. destruct Hin as (x & Hx & Hin). apply filter_In in Hin.
  apply in_map_iff. exists x. tauto.
Qed.

Lemma ins_sorted_perm : forall x l, Permutation (ins_sorted x l) (x :: l).
Proof.
  intros x l. induction l as [|y r IH]; simpl; auto.
  destruct (Z.ltb (g_index (snd x)) (g_index (snd y))); auto.
  eapply perm_trans; [apply perm_skip; exact IH|apply perm_swap].
Qed.
Lemma fold_ins_perm : forall l acc, Permutation (fold_left (fun acc x => ins_sorted x acc) l acc) (l ++ acc).
Proof.
  induction l as [|x l IH]; intros acc; simpl; auto.
  eapply perm_trans; [apply IH|]. eapply perm_trans; [apply Permutation_app_head; apply ins_sorted_perm|].
  apply Permutation_sym. apply Permutation_middle.
Qed.
(* sorted(...) is a rearrangement of the processes *)
Lemma sorted_procs_perm : forall ps, Permutation (sorted_procs ps) (enumerate ps).
Proof. intros ps. unfold sorted_procs. rewrite <- (app_nil_r (enumerate ps)) at 2. apply fold_ins_perm. Qed.

Lemma map_fst_combine_seq : forall {A} (l : list A) s, map fst (combine (seq s (length l)) l) = seq s (length l).
Proof. induction l as [|a l IH]; intros s; simpl; auto. rewrite IH. reflexivity. Qed.

Lemma sorted_procs_positions_NoDup : forall ps, NoDup (map fst (sorted_procs ps)).
Proof.
  intros ps. eapply Permutation_NoDup.
  - apply Permutation_sym. apply Permutation_map. apply sorted_procs_perm.
  - unfold enumerate. rewrite map_fst_combine_seq. apply seq_NoDup.
Qed.

Lemma ref_identifiers_NoDup : forall ev l, NoDup (instances ev) -> NoDup (ref_identifiers ev l).
Proof.
  intros ev l H. unfold ref_identifiers. destruct (zmem S_STAR l); auto.
  unfold mapper_filter. apply nodup_first_NoDup.
Qed.

(* assign_at : no identifier is given twice, every identifier given belongs to the '@' list (after the mapper
   filter), none was already taken by a process of the group, no process is served twice, and nobody is
   served beyond the list (no roll-over) *)
Theorem assign_at_injective_bounded : forall ev g atl,
  NoDup (instances ev) -> gr_at g = Some atl ->
  let plan := at_plan ev g in
  let ref := ref_identifiers ev atl in
  NoDup (map snd plan)
  /\ (forall i, In i (map snd plan) -> In i ref /\ ~ In i (assigned_identifiers (sorted_procs (gr_procs g))))
  /\ NoDup (map (fun kpi => fst (fst kpi)) plan)
  /\ (forall kp, In kp (map fst plan) -> In kp (sorted_procs (gr_procs g)) /\ i_at (g_idt (snd kp)) <> [])
  /\ (length plan <= length ref)%nat.
Proof.
  intros ev g atl Hnd Hat plan ref. unfold plan, at_plan. rewrite Hat.
  set (order := sorted_procs (gr_procs g)).
  set (un := filter (fun kp => negb (is_nil (i_at (g_idt (snd kp))))) order).
  set (free := filter (fun i => negb (zmem i (assigned_identifiers order))) (ref_identifiers ev atl)).
  assert (Hfree : NoDup free) by (apply NoDup_filter; apply ref_identifiers_NoDup; exact Hnd).
  destruct un as [|u0 un'] eqn:Eun.
  - simpl. repeat split; try constructor; try (intros ? []); lia.
  - rewrite <- Eun. repeat split.
    + apply NoDup_map_snd_combine. exact Hfree.
    + apply map_snd_combine_incl in H. apply filter_In in H. tauto.
    + apply map_snd_combine_incl in H. apply filter_In in H. destruct H as (_ & H).
      apply negb_true_iff in H. apply zmem_false in H. exact H.
    + apply (NoDup_map_fst_combine fst un free). unfold un. apply NoDup_map_filter.
      apply sorted_procs_positions_NoDup.
    + apply map_fst_combine_incl in H. unfold un in H. apply filter_In in H. tauto.
    + apply map_fst_combine_incl in H. unfold un in H. apply filter_In in H. destruct H as (_ & H).
      intros Hnil. rewrite Hnil in H. discriminate.
    + rewrite combine_length. unfold free, ref.
      eapply Nat.le_trans; [apply Nat.le_min_r|]. clear. induction (ref_identifiers ev atl) as [|x l IH]; simpl; auto.
      destruct (negb (zmem x (assigned_identifiers order))); simpl; lia.
Qed.

Example assign_at_example :
  (* 4 processes waiting on '@' over 3 known instances (10, 11, 12), one instance already taken by process 0 *)
  let ev := mkEnv [10; 11; 12] [] [] in
  let w := mkI [] [S_STAR] [] in
  let g := fold_left add_process [mkG 0 (mkI [11] [] []); mkG 3 w; mkG 1 w; mkG 2 w] group_init in
  rmap group_obs (resolve_rules ev g)
  = Ok [([11], [], []); ([], [S_STAR], []); ([10], [], []); ([12], [], [])].
Proof. vm_compute. reflexivity. Qed.

(* ================================================================ '#' : balanced round-robin *)
(* the counters after some rounds: the r first identifiers have one process more than the others *)
Definition shape (c : Z) (r : nat) (ref : list Z) : list (Z * Z) :=
  map (fun i => (c + 1, i)) (firstn r ref) ++ map (fun i => (c, i)) (skipn r ref).

Lemma min_by_stays : forall {A} (key : A -> Z) l cur,
  (forall x, In x l -> key cur <= key x) -> min_by key cur l = cur.
Proof.
  intros A key l. induction l as [|a l IH]; intros cur H; simpl; auto.
  assert (Ha : key cur <= key a) by (apply H; left; reflexivity).
  destruct (Z.ltb (key a) (key cur)) eqn:E; [apply Z.ltb_lt in E; lia|].
  apply IH. intros x Hx. apply H. right; exact Hx.
Qed.

Lemma min_by_skips : forall {A} (key : A -> Z) l1 cur x l2,
  (forall y, In y l1 -> key cur <= key y) -> key x < key cur -> (forall y, In y l2 -> key x <= key y) ->
  min_by key cur (l1 ++ x :: l2) = x.
Proof.
  intros A key l1. induction l1 as [|a l1 IH]; intros cur x l2 H1 Hx H2; simpl.
  - apply Z.ltb_lt in Hx. rewrite Hx. apply min_by_stays. exact H2.
  - assert (Ha : key cur <= key a) by (apply H1; left; reflexivity).
    destruct (Z.ltb (key a) (key cur)) eqn:E; [apply Z.ltb_lt in E; lia|].
    apply IH; auto. intros y Hy. apply H1. right; exact Hy.
Qed.

Lemma skipn_nth_cons : forall (l : list Z) r, (r < length l)%nat -> skipn r l = nth r l 0 :: skipn (S r) l.
Proof.
  induction l as [|a l IH]; intros r H; simpl in H; [lia|].
  destruct r as [|r]; [reflexivity|]. simpl. apply IH. lia.
Qed.

Lemma py_min_shape : forall c r ref, (r < length ref)%nat -> py_min fst (shape c r ref) = Some (c, nth r ref 0).
Proof.
  intros c r ref H. unfold shape. rewrite (skipn_nth_cons ref r H). simpl map.
  destruct (map (fun i => (c + 1, i)) (firstn r ref)) as [|h t] eqn:E; simpl.
  - f_equal. apply min_by_stays. intros x Hx. apply in_map_iff in Hx. destruct Hx as (i & <- & _). simpl. lia.
  - f_equal. assert (Hh : In h (h :: t)) by (left; reflexivity). rewrite <- E in Hh.
    apply in_map_iff in Hh. destruct Hh as (i & Hi & _).
    assert (Hk : fst h = c + 1) by (rewrite <- Hi; reflexivity).
    apply min_by_skips; simpl.
    + intros y Hy. assert (Hy' : In y (h :: t)) by (right; exact Hy). rewrite <- E in Hy'.
      apply in_map_iff in Hy'. destruct Hy' as (j & <- & _). simpl. lia.
    + lia.
    + intros y Hy. apply in_map_iff in Hy. destruct Hy as (j & <- & _). simpl. lia.
Qed.

Lemma count_incr_app_notin : forall ident (l1 l2 : list (Z * Z)),
  (forall x, In x l1 -> snd x <> ident) ->
  count_incr ident (l1 ++ l2) = option_map (fun r => l1 ++ r) (count_incr ident l2).
Proof.
  intros ident l1. induction l1 as [|[c i] l1 IH]; intros l2 H; simpl.
  - destruct (count_incr ident l2); reflexivity.
  - assert (Hi : i <> ident) by (apply (H (c, i)); left; reflexivity).
    apply Z.eqb_neq in Hi. rewrite Hi. rewrite IH.
    + destruct (count_incr ident l2); reflexivity.
    + intros x Hx. apply H. right; exact Hx.
Qed.

Lemma firstn_S_nth : forall (l : list Z) r, (r < length l)%nat -> firstn (S r) l = firstn r l ++ [nth r l 0].
Proof.
  induction l as [|a l IH]; intros r H; simpl in H; [lia|].
  destruct r as [|r]; [reflexivity|]. simpl. f_equal. apply IH. lia.
Qed.

Lemma nth_not_in_firstn : forall (l : list Z) r, NoDup l -> (r < length l)%nat -> ~ In (nth r l 0) (firstn r l).
Proof.
  induction l as [|a l IH]; intros r Hnd H; simpl in H; [lia|].
  inversion Hnd; subst. destruct r as [|r]; simpl; [tauto|].
  intros [Heq|Hin].
  - apply H2. rewrite Heq. apply nth_In. lia.
  - apply (IH r); auto. lia.
Qed.

Lemma count_incr_shape : forall c r ref, NoDup ref -> (r < length ref)%nat ->
  count_incr (nth r ref 0) (shape c r ref) = Some (shape c (S r) ref).
Proof.
  intros c r ref Hnd H. unfold shape. rewrite count_incr_app_notin.
  - rewrite (firstn_S_nth ref r H). rewrite (skipn_nth_cons ref r H).
    set (tl := skipn (S r) ref). set (hd := firstn r ref). set (x := nth r ref 0).
    cbn [map count_incr]. rewrite Z.eqb_refl. cbn [option_map].
    rewrite map_app. cbn [map]. rewrite <- app_assoc. reflexivity.
  - intros x Hx. apply in_map_iff in Hx. destruct Hx as (i & <- & Hi). simpl.
    intros Heq. subst. apply (nth_not_in_firstn ref r Hnd H). exact Hi.
Qed.

(* a full round gives the same shape one level up *)
Lemma shape_full : forall c ref, shape c (length ref) ref = shape (c + 1) 0 ref.
Proof.
  intros c ref. unfold shape. rewrite firstn_all, skipn_all. simpl. rewrite app_nil_r. reflexivity.
Qed.

Definition next_pos (n r : nat) : nat := if Nat.eqb (S r) n then 0%nat else S r.
Fixpoint rr_from (n r m : nat) : list nat :=
  match m with O => [] | S m' => r :: rr_from n (next_pos n r) m' end.

Definition apply_hash (ref : list Z) (ps : list gproc) (plan : list (nat * gproc * nat)) : list gproc :=
  fold_left (fun ps kpp => let '((k, p), pos) := kpp in
                           set_nth k (mkG (g_index p) (mkI [nth pos ref 0] (i_at (g_idt p)) [])) ps) plan ps.

Lemma hash_loop_round_robin : forall ref, NoDup ref ->
  forall un c r ps, (r < length ref)%nat ->
  hash_loop un (shape c r ref) ps = Ok (apply_hash ref ps (combine un (rr_from (length ref) r (length un)))).
Proof.
  intros ref Hnd un. induction un as [|[k p] un IH]; intros c r ps Hr; simpl; [reflexivity|].
  rewrite (py_min_shape c r ref Hr). rewrite (count_incr_shape c r ref Hnd Hr).
  unfold next_pos. destruct (Nat.eqb (S r) (length ref)) eqn:E.
  - apply Nat.eqb_eq in E. rewrite E, shape_full. apply IH. lia.
  - apply Nat.eqb_neq in E. apply IH. lia.
Qed.

Lemma rr_from_mod : forall n m r, (r < n)%nat -> rr_from n r m = map (fun k => ((r + k) mod n)%nat) (seq 0 m).
Proof.
  intros n m. induction m as [|m IH]; intros r Hr; simpl; [reflexivity|].
  rewrite Nat.add_0_r, Nat.mod_small by exact Hr. f_equal.
  rewrite <- seq_shift, map_map. unfold next_pos. destruct (Nat.eqb (S r) n) eqn:E.
  - apply Nat.eqb_eq in E. rewrite IH by lia. apply map_ext. intros k.
    replace (r + S k)%nat with (k + 1 * n)%nat by lia. rewrite Nat.mod_add by lia. reflexivity.
  - apply Nat.eqb_neq in E. rewrite IH by lia. apply map_ext. intros k. f_equal. lia.
Qed.

Lemma count_assigned_fresh : forall order counts,
  (forall kp, In kp order -> i_ids (g_idt (snd kp)) = []) -> count_assigned order counts = Ok counts.
Proof.
  induction order as [|[k p] order IH]; intros counts H; simpl; [reflexivity|].
  pose proof (H (k, p) (or_introl eq_refl)) as Hp. simpl in Hp. rewrite Hp. apply IH. intros kp Hkp. apply H. right; exact Hkp.
Qed.

(* '#' on a fresh group (no process bound yet): the k-th waiting process, in process-index order, goes to the
   (k mod n)-th identifier of the '#' list after the mapper filter — round-robin, hence balanced — and no exception
   is possible as soon as one name of the list is known *)
Theorem assign_hash_round_robin : forall ev g hl,
  NoDup (instances ev) -> gr_hash g = Some hl ->
  (forall p, In p (gr_procs g) -> i_ids (g_idt p) = []) ->
  let ref := ref_identifiers ev hl in
  ref <> [] ->
  let order := sorted_procs (gr_procs g) in
  let waiting := filter (fun kp => negb (is_nil (i_hash (g_idt (snd kp))))) order in
  assign_hash ev g =
  Ok (mkGroup (apply_hash ref (gr_procs g)
                 (combine waiting (map (fun k => (k mod length ref)%nat) (seq 0 (length waiting)))))
              (gr_at g) (gr_hash g))
  \/ (waiting = [] /\ assign_hash ev g = Ok g).
Proof.
  intros ev g hl Hnd Hh Hfresh ref Href order waiting. unfold assign_hash. rewrite Hh. fold order. fold waiting.
  destruct waiting as [|w0 ws] eqn:Ew; [right; split; reflexivity|]. left. rewrite <- Ew. fold ref.
  rewrite count_assigned_fresh.
  - simpl. change (map (fun i => (0, i)) ref) with (shape 0 0 ref).
    assert (Hlen : (0 < length ref)%nat) by (destruct ref; [congruence|simpl; lia]).
    rewrite (hash_loop_round_robin ref (ref_identifiers_NoDup ev hl Hnd) waiting 0 0 (gr_procs g) Hlen).
    simpl. rewrite rr_from_mod by exact Hlen. reflexivity.
  - intros kp Hkp. apply Hfresh.
    assert (Hin : In kp (enumerate (gr_procs g))).
    { eapply Permutation_in; [apply sorted_procs_perm|exact Hkp]. }
    unfold enumerate in Hin. destruct kp as [k p]. apply in_combine_r in Hin. exact Hin.
Qed.

Example assign_hash_example :
  (* docs: <identifiers>#,cliche04,cliche02</identifiers> : prg_01 -> cliche04, prg_02 -> cliche02, then rolling over *)
  let ev := mkEnv [101; 102; 103; 104; 105] [] [] in
  let w := mkI [] [] [104; 102] in
  let g := fold_left add_process [mkG 1 w; mkG 2 w; mkG 3 w; mkG 5 w; mkG 4 w] group_init in
  rmap group_obs (resolve_rules ev g)
  = Ok [([104], [], []); ([102], [], []); ([104], [], []); ([104], [], []); ([102], [], [])].
Proof. vm_compute. reflexivity. Qed.

(* the two known findings on '#', on minimal witnesses *)
Theorem hash_empty_ref_refuted :
  exists ev g, resolve_rules ev g = Crash ValueError
               /\ gr_procs g = [mkG 0 (mkI [] [] [50])] /\ instances ev = [10; 11].
Proof.
  exists (mkEnv [10; 11] [] []), (add_process group_init (mkG 0 (mkI [] [] [50]))).
  vm_compute. repeat split.
Qed.

Theorem hash_foreign_id_refuted :
  exists ev g, resolve_rules ev g = Crash KeyError
               /\ gr_procs g = [mkG 0 (mkI [] [] [S_STAR]); mkG 1 (mkI [S_STAR] [] [])] /\ instances ev = [10; 11].
Proof.
  exists (mkEnv [10; 11] [] []),
         (fold_left add_process [mkG 0 (mkI [] [] [S_STAR]); mkG 1 (mkI [S_STAR] [] [])] group_init).
  vm_compute. repeat split.
Qed.

(* ================================================================ model_refines_spec : selection *)
Lemma max_by_map : forall {A B} (g : B -> A) (key : A -> Z) l c,
  max_by key (g c) (map g l) = g (max_by (fun x => key (g x)) c l).
Proof.
  intros A B g key l. induction l as [|a l IH]; intros c; simpl; [reflexivity|].
  destruct (Z.ltb (key (g c)) (key (g a))); apply IH.
Qed.

Lemma find_split_first : forall {A} (f : A -> bool) l1 m l2,
  (forall x, In x l1 -> f x = false) -> f m = true -> find f (l1 ++ m :: l2) = Some m.
Proof.
  intros A f l1. induction l1 as [|a l1 IH]; intros m l2 H1 Hm; simpl.
  - rewrite Hm. reflexivity.
  - rewrite (H1 a (or_introl eq_refl)). apply IH; auto. intros x Hx. apply H1. right; exact Hx.
Qed.

(* "the first element that is at least as long as every other one" is Python's max(key=len) *)
Lemma find_first_max : forall {A} (key : A -> Z) c l,
  find (fun x => forallb (fun y => Z.leb (key y) (key x)) (c :: l)) (c :: l) = Some (max_by key c l).
Proof.
  intros A key c l. destruct (max_by_spec key l c) as (Hmax & l1 & l2 & Heq & Hfirst).
  set (m := max_by key c l) in *.
  assert (G : find (fun x => forallb (fun y => Z.leb (key y) (key x)) (c :: l)) (l1 ++ m :: l2) = Some m);
    [|rewrite <- Heq in G; exact G].
  apply find_split_first.
  - intros x Hx. destruct (forallb (fun y => Z.leb (key y) (key x)) (c :: l)) eqn:E; [|reflexivity].
    exfalso. rewrite forallb_forall in E. assert (Hm : In m (c :: l)).
    { rewrite Heq. apply in_or_app. right. left. reflexivity. }
    apply E in Hm. apply Z.leb_le in Hm. specialize (Hfirst x Hx). lia.
  - apply forallb_forall. intros y Hy. apply Z.leb_le. apply Hmax. exact Hy.
Qed.

Lemma aget_in_nodup : forall {V} (l : alist V) k v, NoDup (map fst l) -> In (k, v) l -> aget k l = Some v.
Proof.
  intros V l. induction l as [|[k' v'] l IH]; intros k v Hnd Hin; simpl in *; [destruct Hin|].
  inversion Hnd; subst. destruct Hin as [Heq|Hin].
  - inversion Heq; subst. rewrite Z.eqb_refl. reflexivity.
  - destruct (Z.eqb k k') eqn:E.
    + apply Z.eqb_eq in E. subst. exfalso. apply H1. apply in_map_iff. exists (k', v). auto.
    + apply IH; auto.
Qed.

Section Select.
  Context {A : Type}.
  Variable o : oracle.
  Variable name : Z.

  Definition is_m (pa : Z * A) : bool := match orc_get o (fst pa) name with MLen _ => true | _ => false end.
  Definition len_of (pa : Z * A) : Z := match orc_get o (fst pa) name with MLen n => n | _ => -1 end.

  Lemma matches_cands : forall pl : list (Z * A),
    matches o name (map fst pl) = map (fun pa => (fst pa, len_of pa)) (filter is_m pl).
  Proof.
    induction pl as [|pa pl IH]; simpl; [reflexivity|]. unfold matches in *. simpl.
    unfold is_m, len_of at 1. destruct (orc_get o (fst pa) name) eqn:E; simpl; rewrite IH; auto.
    unfold len_of. rewrite E. reflexivity.
  Qed.

  (* the model's way of selecting by pattern: best pattern string, then dictionary lookup *)
  Definition model_by_pattern (pl : list (Z * A)) : result (option A) :=
    bind (get_best_pattern o name (map fst pl)) (fun best =>
      Ok (match best with Some p => aget p pl | None => None end)).

  Lemma by_pattern_refines : forall pl : list (Z * A),
    NoDup (map fst pl) ->
    existsb (fun pa => match orc_get o (fst pa) name with MErr => true | _ => false end) pl = false ->
    model_by_pattern pl =
    Ok (option_map snd (find (fun c => forallb (fun c' => Z.leb (len_of c') (len_of c)) (filter is_m pl)) (filter is_m pl))).
  Proof.
    intros pl Hnd Herr. unfold model_by_pattern, get_best_pattern.
    rewrite matching_patterns_total.
    - simpl. rewrite matches_cands. destruct (filter is_m pl) as [|c l] eqn:Ec; simpl map; [reflexivity|].
      rewrite find_first_max. unfold py_max. rewrite (max_by_map (fun pa => (fst pa, len_of pa)) snd l c).
      simpl. set (m := max_by _ c l).
      assert (Hm : In m (filter is_m pl)).
      { rewrite Ec. destruct (max_by_spec (fun x => len_of x) l c) as (_ & l1 & l2 & Heq & _).
        fold m in Heq. rewrite Heq. apply in_or_app. right. left. reflexivity. }
      apply filter_In in Hm. destruct Hm as (Hm & _). destruct m as [k v] eqn:Em. simpl.
      rewrite (aget_in_nodup pl k v Hnd Hm). reflexivity.
    - intros p Hp Ep. apply in_map_iff in Hp. destruct Hp as (pa & <- & Hpa).
      assert (existsb (fun pa => match orc_get o (fst pa) name with MErr => true | _ => false end) pl = true).
      { apply existsb_exists. exists pa. rewrite Ep. auto. }
      congruence.
  Qed.
End Select.

(* ---------- the dictionaries of the parser are the declaration lists when nothing is declared twice ---------- *)
Lemma aset_fresh : forall {V} (l : alist V) k v, ~ In k (map fst l) -> aset k v l = l ++ [(k, v)].
Proof.
  intros V l. induction l as [|[k' v'] l IH]; intros k v H; simpl in *; [reflexivity|].
  destruct (Z.eqb k k') eqn:E.
  - apply Z.eqb_eq in E. subst. exfalso. apply H. left; reflexivity.
  - rewrite IH; auto.
Qed.

Lemma fold_aset_nodup : forall {I V} (g : I -> option (Z * V)) l acc,
  NoDup (map fst (acc ++ flat_map (fun it => opt_list (g it)) l)) ->
  fold_left (fun acc it => match g it with Some kv => aset (fst kv) (snd kv) acc | None => acc end) l acc
  = acc ++ flat_map (fun it => opt_list (g it)) l.
Proof.
  intros I V g l. induction l as [|it l IH]; intros acc H; simpl.
  - rewrite app_nil_r. reflexivity.
  - simpl in H. destruct (g it) as [[k v]|] eqn:E; simpl in *.
    + rewrite aset_fresh.
      * rewrite IH.
        -- rewrite <- app_assoc. reflexivity.
        -- rewrite <- app_assoc. simpl. exact H.
      * rewrite map_app in H. simpl in H. apply NoDup_remove_2 in H. intros Hin. apply H.
        apply in_or_app. left; exact Hin.
    + apply IH. exact H.
Qed.

Lemma znodup_NoDup : forall l, znodup l = true -> NoDup l.
Proof.
  induction l as [|x l IH]; intros H; simpl in H; constructor.
  - apply andb_prop in H. destruct H as (H & _). apply negb_true_iff in H. apply zmem_false in H. exact H.
  - apply andb_prop in H. destruct H as (_ & H). auto.
Qed.

Definition g_app_pat (it : item) : option (Z * (elt * list elt)) :=
  match it with IApp e ps => option_map (fun p => (p, (e, ps))) (e_pattern e) | _ => None end.
Definition g_model (it : item) : option (Z * elt) :=
  match it with IModel e => option_map (fun n => (n, e)) (e_name e) | _ => None end.
Definition g_prog_pat (e : elt) : option (Z * elt) := option_map (fun p => (p, e)) (e_pattern e).

Lemma patterned_apps_g : forall d, patterned_apps d = flat_map (fun it => opt_list (g_app_pat it)) (items d).
Proof.
  intros d. unfold patterned_apps. apply flat_map_ext. intros [| |e ps]; simpl; auto.
  destruct (e_pattern e); reflexivity.
Qed.
Lemma app_patterns_of_g : forall d,
  app_patterns_of d = fold_left (fun acc it => match g_app_pat it with Some kv => aset (fst kv) (snd kv) acc | None => acc end) (items d) [].
Proof.
  intros d. unfold app_patterns_of. generalize (@nil (Z * (elt * list elt))). induction (items d) as [|it l IH]; intros acc; simpl; auto.
  rewrite IH. f_equal. destruct it as [| |e ps]; simpl; auto. destruct (e_pattern e); reflexivity.
Qed.
Lemma map_fst_patterned_apps : forall d, map fst (patterned_apps d) = app_pats d.
Proof.
  intros d. unfold patterned_apps, app_pats. induction (items d) as [|it l IH]; simpl; auto.
  rewrite map_app, IH. f_equal. destruct it as [| |e ps]; simpl; auto. destruct (e_pattern e); reflexivity.
Qed.
Lemma app_patterns_of_unambiguous : forall d, NoDup (app_pats d) -> app_patterns_of d = patterned_apps d.
Proof.
  intros d H. rewrite app_patterns_of_g, patterned_apps_g. rewrite fold_aset_nodup; [reflexivity|].
  simpl. rewrite <- patterned_apps_g, map_fst_patterned_apps. exact H.
Qed.

Definition modeled (d : doc) : list (Z * elt) := flat_map (fun it => opt_list (g_model it)) (items d).
Lemma map_fst_modeled : forall d, map fst (modeled d) = model_names d.
Proof.
  intros d. unfold modeled, model_names. induction (items d) as [|it l IH]; simpl; auto.
  rewrite map_app, IH. f_equal. destruct it as [|e|]; simpl; auto. destruct (e_name e); reflexivity.
Qed.
Lemma models_of_g : forall d,
  models_of d = fold_left (fun acc it => match g_model it with Some kv => aset (fst kv) (snd kv) acc | None => acc end) (items d) [].
Proof.
  intros d. unfold models_of. generalize (@nil (Z * elt)). induction (items d) as [|it l IH]; intros acc; simpl; auto.
  rewrite IH. f_equal. destruct it as [|e|]; simpl; auto. destruct (e_name e); reflexivity.
Qed.
Lemma models_of_unambiguous : forall d, NoDup (model_names d) -> models_of d = modeled d.
Proof.
  intros d H. rewrite models_of_g. rewrite fold_aset_nodup; [reflexivity|].
  simpl. fold (modeled d). rewrite map_fst_modeled. exact H.
Qed.

Lemma aget_modeled : forall d n, aget n (modeled d) = spec_model d n.
Proof.
  intros d n. unfold modeled, spec_model. induction (items d) as [|it l IH]; simpl; auto.
  destruct it as [|e|]; simpl; auto. destruct (e_name e) as [k|] eqn:E; simpl; auto.
  rewrite (Z.eqb_sym n k). destruct (Z.eqb k n); auto.
Qed.

Lemma patterned_progs_g : forall ps, patterned_progs ps = flat_map (fun e => opt_list (g_prog_pat e)) ps.
Proof.
  intros ps. unfold patterned_progs. apply flat_map_ext. intros e. unfold g_prog_pat. destruct (e_pattern e); reflexivity.
Qed.
Lemma prog_patterns_of_g : forall ps,
  prog_patterns_of ps = fold_left (fun acc e => match g_prog_pat e with Some kv => aset (fst kv) (snd kv) acc | None => acc end) ps [].
Proof.
  intros ps. unfold prog_patterns_of. generalize (@nil (Z * elt)). induction ps as [|e l IH]; intros acc; simpl; auto.
  rewrite IH. f_equal. unfold g_prog_pat. destruct (e_pattern e); reflexivity.
Qed.
Lemma map_fst_patterned_progs : forall ps, map fst (patterned_progs ps) = flat_map (fun e => opt_list (e_pattern e)) ps.
Proof.
  intros ps. unfold patterned_progs. induction ps as [|e l IH]; simpl; auto.
  rewrite map_app, IH. f_equal. destruct (e_pattern e); reflexivity.
Qed.
Lemma prog_patterns_of_unambiguous : forall ps,
  NoDup (flat_map (fun e => opt_list (e_pattern e)) ps) -> prog_patterns_of ps = patterned_progs ps.
Proof.
  intros ps H. rewrite prog_patterns_of_g, patterned_progs_g. rewrite fold_aset_nodup; [reflexivity|].
  simpl. rewrite <- patterned_progs_g, map_fst_patterned_progs. exact H.
Qed.

Lemma find_app_named : forall d n,
  find_app_by_name d n = option_map snd (find (fun na => Z.eqb (fst na) n) (named_apps d)).
Proof.
  intros d n. unfold find_app_by_name, named_apps. induction (items d) as [|it l IH]; simpl; auto.
  destruct it as [| |e ps]; simpl; auto. destruct (e_name e) as [k|]; simpl; auto.
  destruct (Z.eqb k n); simpl; auto.
Qed.

Lemma find_prog_named : forall ps n,
  find (fun e => opt_Zeqb (e_name e) n) ps = option_map snd (find (fun na => Z.eqb (fst na) n) (named_progs ps)).
Proof.
  intros ps n. unfold named_progs. induction ps as [|e l IH]; simpl; auto.
  destruct (e_name e) as [k|]; simpl; auto. destruct (Z.eqb k n); simpl; auto.
Qed.

Lemma doc_unambiguous_parts : forall d, doc_unambiguous d = true ->
  NoDup (app_pats d) /\ NoDup (model_names d)
  /\ forall e ps, In (IApp e ps) (items d) -> NoDup (flat_map (fun e => opt_list (e_pattern e)) ps).
Proof.
  intros d H. unfold doc_unambiguous in H. repeat (apply andb_prop in H; destruct H as (H & ?)).
  repeat split; try (apply znodup_NoDup; assumption).
  intros e ps Hin. rewrite forallb_forall in H0. specialize (H0 _ Hin). simpl in H0.
  unfold progs_unambiguous in H0. apply andb_prop in H0. destruct H0 as (_ & H0). apply znodup_NoDup. exact H0.
Qed.

(* whenever the specification selects (valid regular expressions), the parser selects the same application *)
Lemma app_select_refines : forall d o name s,
  NoDup (app_pats d) ->
  spec_select o name (named_apps d) (patterned_apps d) = Some s ->
  get_application_element d o name = Ok (option_map fst s).
Proof.
  intros d o name s Hnd H. unfold get_application_element. rewrite find_app_named. unfold spec_select in H.
  destruct (find (fun na => Z.eqb (fst na) name) (named_apps d)) as [na|]; simpl.
  - inversion H; subst. reflexivity.
  - destruct (existsb _ (patterned_apps d)) eqn:Eerr; [discriminate|]. inversion H; subst. clear H.
    rewrite (app_patterns_of_unambiguous d Hnd).
    pose proof (by_pattern_refines o name (patterned_apps d)) as B. unfold model_by_pattern in B.
    unfold akeys. rewrite B.
    + f_equal. unfold is_m, len_of.
      destruct (find _ (filter _ (patterned_apps d))); reflexivity.
    + rewrite map_fst_patterned_apps. exact Hnd.
    + exact Eerr.
Qed.

Lemma prog_select_refines : forall d o app proc e ps s,
  NoDup (flat_map (fun e => opt_list (e_pattern e)) ps) ->
  get_application_element d o app = Ok (Some (e, ps)) ->
  spec_select o proc (named_progs ps) (patterned_progs ps) = Some s ->
  get_program_element d o app proc = Ok (match s with Some (x, b) => (Some x, b) | None => (None, false) end).
Proof.
  intros d o app proc e ps s Hnd Ha H. unfold get_program_element. rewrite Ha. simpl.
  rewrite find_prog_named. unfold spec_select in H.
  destruct (find (fun na => Z.eqb (fst na) proc) (named_progs ps)) as [na|]; simpl.
  - inversion H; subst. reflexivity.
  - destruct (existsb _ (patterned_progs ps)) eqn:Eerr; [discriminate|]. inversion H; subst. clear H.
    rewrite (prog_patterns_of_unambiguous ps Hnd).
    pose proof (by_pattern_refines o proc (patterned_progs ps)) as B. unfold model_by_pattern in B.
    unfold akeys.
    assert (Hn : NoDup (map fst (patterned_progs ps))) by (rewrite map_fst_patterned_progs; exact Hnd).
    specialize (B Hn Eerr). unfold get_best_pattern in *.
    destruct (matching_patterns o proc (map fst (patterned_progs ps))) as [l|k]; simpl in *; [|discriminate].
    inversion B as [B']. clear B. unfold is_m, len_of in B'.
    match type of B' with _ = option_map snd ?f => set (F := f) in * end.
    destruct (option_map fst (py_max snd l)) as [p|]; simpl.
    + rewrite B'. destruct F as [[k x]|]; reflexivity.
    + destruct F as [[k x]|]; [discriminate|reflexivity].
Qed.

Lemma chain_refines : forall d, NoDup (model_names d) ->
  forall fuel e, chain (models_of d) e fuel = spec_chain d e fuel.
Proof.
  intros d H fuel. induction fuel as [|n IH]; intros e; simpl; [reflexivity|].
  unfold get_model_element. rewrite (models_of_unambiguous d H).
  destruct (f_ref (e_fields e)) as [m|]; [|reflexivity].
  rewrite aget_modeled. destruct (spec_model d m) as [me|]; [|reflexivity].
  rewrite <- IH. unfold get_model_element. rewrite (models_of_unambiguous d H). reflexivity.
Qed.

(* ================================================================ model_refines_spec : identifiers *)
Definition toks_list (ch : list elt) : list (list Z) :=
  flat_map (fun e => match f_idents (e_fields e) with Some (t :: ts) => [t :: ts] | _ => [] end) ch.

Definition idt_chain (aliases : alist (list Z)) (ch : list elt) (t0 : idt) : idt :=
  fold_right (fun e t => opt_apply (f_idents (e_fields e)) (load_identifiers aliases) t) t0 ch.

Lemma p_idt_fold : forall aliases ch r,
  p_idt (fold_right (load_elt_fields aliases) r ch) = idt_chain aliases ch (p_idt r).
Proof. intros aliases ch r. induction ch as [|e ch IH]; simpl; [reflexivity|]. rewrite IH. reflexivity. Qed.

Lemma idt_chain_toks : forall aliases ch t0,
  idt_chain aliases ch t0 = fold_right (load_identifiers aliases) t0 (toks_list ch).
Proof.
  intros aliases ch t0. induction ch as [|e ch IH]; simpl; [reflexivity|]. rewrite IH. unfold opt_apply.
  destruct (f_idents (e_fields e)) as [[|t ts]|]; reflexivity.
Qed.

Lemma find_map_toks : forall ch,
  find_map (fun e => match f_idents (e_fields e) with Some (t :: ts) => Some (t :: ts) | _ => None end) ch
  = hd_error (toks_list ch).
Proof.
  induction ch as [|e ch IH]; simpl; [reflexivity|].
  destruct (f_idents (e_fields e)) as [[|t ts]|]; simpl; auto.
Qed.

Lemma filter_filter : forall {A} (f g : A -> bool) l, filter f (filter g l) = filter (fun x => g x && f x) l.
Proof.
  intros A f g l. induction l as [|a l IH]; simpl; [reflexivity|].
  destruct (g a); simpl; [destruct (f a); rewrite IH; reflexivity|exact IH].
Qed.

(* the part of load_identifiers that does not depend on the previous value *)
Definition id_target (aliases : alist (list Z)) (toks : list Z) : list Z :=
  let l := check_identifier_list aliases toks in
  let names := filter (fun x => negb (Z.eqb x S_AT) && negb (Z.eqb x S_HASH)) l in
  if zmem S_STAR names || ((zmem S_AT l || zmem S_HASH l) && is_nil names) then [S_STAR] else names.

Lemma load_identifiers_plain : forall aliases t ts ids,
  let toks := t :: ts in
  let l := check_identifier_list aliases toks in
  load_identifiers aliases toks (mkI ids [] []) =
  if zmem S_AT l then (if zmem S_HASH l then mkI [] (id_target aliases toks) (id_target aliases toks)
                       else mkI [] (id_target aliases toks) [])
  else if zmem S_HASH l then mkI [] [] (id_target aliases toks) else mkI (id_target aliases toks) [] [].
Proof.
  intros aliases t ts ids toks l. unfold load_identifiers. fold toks. fold l. unfold id_target. fold l.
  assert (Hn : zdiscard S_HASH (zdiscard S_AT l) = filter (fun x => negb (Z.eqb x S_AT) && negb (Z.eqb x S_HASH)) l).
  { unfold zdiscard. rewrite filter_filter. apply filter_ext. intros x.
    rewrite (Z.eqb_sym S_AT x), (Z.eqb_sym S_HASH x). reflexivity. }
  rewrite Hn. set (names := filter _ l).
  rewrite (orb_comm ((zmem S_AT l || zmem S_HASH l) && is_nil names) (zmem S_STAR names)).
  destruct (zmem S_AT l); destruct (zmem S_HASH l); simpl; reflexivity.
Qed.

Lemma id_target_nonempty : forall aliases toks,
  zmem S_AT (check_identifier_list aliases toks) || zmem S_HASH (check_identifier_list aliases toks) = true ->
  id_target aliases toks <> [].
Proof.
  intros aliases toks H. unfold id_target. rewrite H. simpl.
  destruct (filter _ (check_identifier_list aliases toks)) as [|n ns]; simpl.
  - discriminate.
  - match goal with |- (if ?c then _ else _) <> [] => destruct c; discriminate end.
Qed.

Lemma plain_chain_stays_plain : forall aliases behind,
  (forall x, In x behind -> has_sign aliases x = false) ->
  let t := fold_right (load_identifiers aliases) idt_default behind in i_at t = [] /\ i_hash t = [].
Proof.
  intros aliases behind. induction behind as [|x behind IH]; intros H; simpl; [split; reflexivity|].
  destruct IH as (Ha & Hh); [intros y Hy; apply H; right; exact Hy|].
  destruct (fold_right (load_identifiers aliases) idt_default behind) as [ids a h]. simpl in Ha, Hh. subst.
  destruct x as [|t ts]; [split; reflexivity|].
  rewrite load_identifiers_plain. specialize (H (t :: ts) (or_introl eq_refl)). unfold has_sign in H.
  apply orb_false_elim in H. destruct H as (H1 & H2). rewrite H1, H2. split; reflexivity.
Qed.

Lemma spec_idents_target : forall aliases toks,
  spec_idents aliases toks =
  let l := check_identifier_list aliases toks in
  if zmem S_AT l then mkI [] (id_target aliases toks) []
  else if zmem S_HASH l then mkI [] [] (id_target aliases toks) else mkI (id_target aliases toks) [] [].
Proof. reflexivity. Qed.

(* outside the class of finding `model-sign-kept`, the identifiers the parser ends with are those of the nearest
   element that has some, '@' winning over '#', signs accepted only from a pattern *)
Theorem idents_refine_spec : forall aliases ch b,
  class_sign_kept aliases ch = false ->
  check_sign_identifiers (check_hash_identifiers_p b (check_at_identifiers b (idt_chain aliases ch idt_default)))
  = spec_chain_idents aliases ch b.
Proof.
  intros aliases ch b Hc. rewrite idt_chain_toks. unfold spec_chain_idents. rewrite find_map_toks.
  unfold class_sign_kept in Hc. fold (toks_list ch) in Hc.
  destruct (toks_list ch) as [|toks behind] eqn:EL; simpl.
  - destruct b; reflexivity.
  - assert (Hb : forall x, In x behind -> has_sign aliases x = false).
    { intros x Hx. destruct (has_sign aliases x) eqn:E; auto.
      assert (existsb (has_sign aliases) behind = true) by (apply existsb_exists; exists x; auto). congruence. }
    destruct (plain_chain_stays_plain aliases behind Hb) as (Ha & Hh).
    destruct (fold_right (load_identifiers aliases) idt_default behind) as [ids a h]. simpl in Ha, Hh. subst.
    assert (Hne : toks <> []).
    { assert (In toks (toks_list ch)) by (rewrite EL; left; reflexivity). unfold toks_list in H.
      apply in_flat_map in H. destruct H as (e & _ & He).
      destruct (f_idents (e_fields e)) as [[|t ts]|]; simpl in He; try contradiction.
      destruct He as [<-|[]]. discriminate. }
    destruct toks as [|t ts]; [congruence|].
    rewrite load_identifiers_plain, spec_idents_target. cbv zeta.
    pose proof (id_target_nonempty aliases (t :: ts)) as Hnz.
    destruct (zmem S_AT (check_identifier_list aliases (t :: ts))) eqn:E1;
      destruct (zmem S_HASH (check_identifier_list aliases (t :: ts))) eqn:E2; simpl in Hnz;
      try (specialize (Hnz eq_refl)); destruct (id_target aliases (t :: ts)) as [|x xs] eqn:ET;
      try congruence; destruct b; reflexivity.
Qed.

(* ================================================================ model_refines_spec : programs *)
Lemma first_valid_cases : forall {V A} (sel : list field -> option V) (valid : V -> option A) ch,
  (exists a, (forall dflt, first_valid sel valid ch dflt = a)
             /\ exists e v, In e ch /\ sel (e_fields e) = Some v /\ valid v = Some a)
  \/ (forall dflt, first_valid sel valid ch dflt = dflt).
Proof.
  intros V A sel valid ch. unfold first_valid.
  destruct (find_map (fun e => match sel (e_fields e) with Some v => valid v | None => None end) ch) as [a|] eqn:E.
  - left. exists a. split; auto. destruct (find_map_in _ _ _ E) as (e & He & Hv).
    destruct (sel (e_fields e)) as [v|] eqn:Es; [|discriminate]. exists e, v. auto.
  - right. auto.
Qed.

Lemma stop_default_negative : gr_proc_stop_default < 0.
Proof. vm_compute. reflexivity. Qed.

Definition spec_record (aliases : alist (list Z)) (ch : list elt) (b : bool) (sfs0 rfs0 : Z) : prules :=
  let start := first_valid f_start valid_sequence ch gr_proc_start_default in
  let required := first_valid f_required valid_bool ch gr_proc_required_default in
  mkP (spec_chain_idents aliases ch b) start (first_valid f_stop valid_sequence ch start)
      (if Z.eqb start 0 then false else required)
      (first_valid f_wait_exit valid_bool ch gr_proc_wait_exit_default)
      (first_valid f_loading valid_loading ch gr_proc_load_default)
      (first_valid f_sfs (valid_enum gr_StartingFailureStrategies_values) ch sfs0)
      (first_valid f_rfs (valid_enum gr_RunningFailureStrategies_values) ch rfs0).

Lemma deps_refine : forall aliases ch b sfs0 rfs0,
  class_sign_kept aliases ch = false ->
  check_dependencies b (fold_right (load_elt_fields aliases) (prules_init sfs0 rfs0) ch)
  = spec_record aliases ch b sfs0 rfs0.
Proof.
  intros aliases ch b sfs0 rfs0 Hc. unfold check_dependencies, spec_record.
  set (r := fold_right (load_elt_fields aliases) (prules_init sfs0 rfs0) ch).
  assert (Hstart : p_start r = first_valid f_start valid_sequence ch gr_proc_start_default).
  { apply (fold_first_valid f_start valid_sequence load_sequence p_start aliases load_sequence_valid). reflexivity. }
  assert (Hstop : p_stop r = first_valid f_stop valid_sequence ch gr_proc_stop_default).
  { apply (fold_first_valid f_stop valid_sequence load_sequence p_stop aliases load_sequence_valid). reflexivity. }
  assert (Hreq : p_required r = first_valid f_required valid_bool ch gr_proc_required_default).
  { apply (fold_first_valid f_required valid_bool load_boolean p_required aliases load_boolean_valid). reflexivity. }
  assert (Hwe : p_wait_exit r = first_valid f_wait_exit valid_bool ch gr_proc_wait_exit_default).
  { apply (fold_first_valid f_wait_exit valid_bool load_boolean p_wait_exit aliases load_boolean_valid). reflexivity. }
  assert (Hld : p_load r = first_valid f_loading valid_loading ch gr_proc_load_default).
  { apply (fold_first_valid f_loading valid_loading load_loading p_load aliases load_loading_valid). reflexivity. }
  assert (Hsf : p_sfs r = first_valid f_sfs (valid_enum gr_StartingFailureStrategies_values) ch sfs0).
  { apply (fold_first_valid f_sfs (valid_enum gr_StartingFailureStrategies_values)
             (load_enum gr_StartingFailureStrategies_values) p_sfs aliases (load_enum_valid _)). reflexivity. }
  assert (Hrf : p_rfs r = first_valid f_rfs (valid_enum gr_RunningFailureStrategies_values) ch rfs0).
  { apply (fold_first_valid f_rfs (valid_enum gr_RunningFailureStrategies_values)
             (load_enum gr_RunningFailureStrategies_values) p_rfs aliases (load_enum_valid _)). reflexivity. }
  assert (Hid : p_idt r = idt_chain aliases ch idt_default) by (unfold r; rewrite p_idt_fold; reflexivity).
  rewrite Hid, (idents_refine_spec aliases ch b Hc), Hwe, Hld, Hsf, Hrf, Hreq, Hstart, Hstop.
  set (start := first_valid f_start valid_sequence ch gr_proc_start_default).
  f_equal.
  - (* stop_sequence *)
    destruct (first_valid_cases f_stop valid_sequence ch) as [(z & Hz & e & v & _ & _ & Hv)|Hd].
    + rewrite !Hz. apply valid_sequence_spec in Hv. destruct Hv as (_ & Hv).
      apply Z.ltb_ge in Hv. rewrite Hv. reflexivity.
    + rewrite !Hd. pose proof stop_default_negative as Hn. apply Z.ltb_lt in Hn. rewrite Hn. reflexivity.
  - (* required *)
    destruct (first_valid f_required valid_bool ch gr_proc_required_default); destruct (Z.eqb start 0); reflexivity.
Qed.

Lemma spec_select_in : forall {A} o name (named pl : list (Z * A)) a b,
  spec_select o name named pl = Some (Some (a, b)) -> In a (map snd named) \/ In a (map snd pl).
Proof.
  intros A o name named pl a b H. unfold spec_select in H.
  destruct (find (fun na => Z.eqb (fst na) name) named) as [na|] eqn:E.
  - inversion H; subst. left. apply find_some in E. destruct E as (E & _). apply in_map. exact E.
  - destruct (existsb _ pl); [discriminate|]. inversion H as [H']. clear H.
    match type of H' with option_map _ ?f = _ => destruct f as [pa|] eqn:Ef end; [|discriminate].
    inversion H'; subst. right. apply find_some in Ef. destruct Ef as (Ef & _).
    apply filter_In in Ef. destruct Ef as (Ef & _). apply in_map. exact Ef.
Qed.

Lemma named_apps_in_items : forall d e ps, In (e, ps) (map snd (named_apps d)) -> In (IApp e ps) (items d).
Proof.
  intros d e ps H. apply in_map_iff in H. destruct H as ((n & a) & Ha & Hin). simpl in Ha. subst a.
  unfold named_apps in Hin. apply in_flat_map in Hin. destruct Hin as (it & Hit & Hin).
  destruct it as [| |e' ps']; simpl in Hin; try contradiction.
  apply in_map_iff in Hin. destruct Hin as (k & Hk & _). inversion Hk; subst. exact Hit.
Qed.
Lemma patterned_apps_in_items : forall d e ps, In (e, ps) (map snd (patterned_apps d)) -> In (IApp e ps) (items d).
Proof.
  intros d e ps H. apply in_map_iff in H. destruct H as ((n & a) & Ha & Hin). simpl in Ha. subst a.
  unfold patterned_apps in Hin. apply in_flat_map in Hin. destruct Hin as (it & Hit & Hin).
  destruct it as [| |e' ps']; simpl in Hin; try contradiction.
  apply in_map_iff in Hin. destruct Hin as (k & Hk & _). inversion Hk; subst. exact Hit.
Qed.

(* MAIN (programs): whenever the specification speaks — unambiguous document, every pattern a valid regular
   expression — and outside the class of finding `model-sign-kept`, the parser followed by check_dependencies returns
   exactly the rules the specification demands, and never raises *)
Opaque loop_check_init.
Theorem program_rules_refine_spec : forall d o app proc sfs0 rfs0 r',
  spec_program_rules d o app proc sfs0 rfs0 = Some r' ->
  class_sign_kept (aliases_of d) (program_chain d o app proc) = false ->
  load_program_rules d o app proc (prules_init sfs0 rfs0) = Ok r'.
Proof.
  intros d o app proc sfs0 rfs0 r' Hs Hc. unfold spec_program_rules in Hs.
  destruct (doc_unambiguous d) eqn:Hu; simpl in Hs; [|discriminate].
  destruct (doc_unambiguous_parts d Hu) as (Hpat & Hmod & Hprog).
  unfold program_chain in Hc.
  destruct (spec_program_select d o app proc) as [sel|] eqn:Esel; [|discriminate].
  fold (spec_record (aliases_of d)
          (match sel with Some (e, _) => spec_chain d e doc_depth | None => [] end)
          (match sel with Some (_, b) => b | None => false end) sfs0 rfs0) in Hs.
  inversion Hs as [Hr]. clear Hs.
  unfold spec_program_select in Esel.
  destruct (spec_select o app (named_apps d) (patterned_apps d)) as [sa|] eqn:Ea; [|discriminate].
  pose proof (app_select_refines d o app sa Hpat Ea) as Hga.
  unfold load_program_rules.
  destruct sa as [[[e ps] ba]|]; simpl in Hga.
  - assert (Hin : In (IApp e ps) (items d)).
    { destruct (spec_select_in _ _ _ _ _ _ Ea) as [H|H];
        [apply named_apps_in_items|apply patterned_apps_in_items]; exact H. }
    rewrite (prog_select_refines d o app proc e ps sel (Hprog e ps Hin) Hga Esel). simpl.
    destruct sel as [[x b]|]; simpl.
    + rewrite load_model_rules_chain, (chain_refines d Hmod), loop_check_as_documented. f_equal. apply deps_refine. exact Hc.
    + f_equal; apply (deps_refine (aliases_of d) [] false sfs0 rfs0); reflexivity.
  - inversion Esel; subst. rewrite (prog_no_application d o app proc Hga). simpl.
    f_equal; apply (deps_refine (aliases_of d) [] false sfs0 rfs0); reflexivity.
Qed.
Transparent loop_check_init.


(* ================================================================ model_refines_spec : applications *)
Lemma app_stop_default_negative : gr_app_stop_default < 0.
Proof. vm_compute. reflexivity. Qed.

Lemma first_valid_single : forall {V A} (sel : list field -> option V) (valid : V -> option A)
    (load : V -> A -> A) e dflt,
  (forall v cur, load v cur = match valid v with Some a => a | None => cur end) ->
  opt_apply (sel (e_fields e)) load dflt = first_valid sel valid [e] dflt.
Proof.
  intros V A sel valid load e dflt H. unfold first_valid, opt_apply. simpl.
  destruct (sel (e_fields e)) as [v|]; [|reflexivity]. rewrite H. destruct (valid v); reflexivity.
Qed.

(* MAIN (applications): whenever the specification speaks and specifies the identifiers (no '@', which is not
   documented for applications), load_application_rules returns exactly the specified rules and never raises *)
Theorem application_rules_refine_spec : forall d o ev name idx s0 r',
  spec_app_rules d o ev name idx s0 = Some (r', true) ->
  load_application_rules d o ev name idx (arules_init s0) = Ok r'.
Proof.
  intros d o ev name idx s0 r' Hs. unfold spec_app_rules in Hs.
  destruct (doc_unambiguous d) eqn:Hu; simpl in Hs; [|discriminate].
  destruct (doc_unambiguous_parts d Hu) as (Hpat & _ & _).
  destruct (spec_select o name (named_apps d) (patterned_apps d)) as [sa|] eqn:Ea; [|discriminate].
  pose proof (app_select_refines d o name sa Hpat Ea) as Hga.
  unfold load_application_rules. rewrite Hga.
  destruct sa as [[[e ps] ba]|]; simpl.
  2:{ inversion Hs; subst. vm_compute. reflexivity. }
  set (aliases := aliases_of d) in *.
  unfold load_app_fields, arules_init. cbn [a_distribution a_idt a_start a_stop a_strategy a_sfs a_rfs].
  rewrite (first_valid_single f_distribution (valid_enum gr_DistributionRules_values) _ e _ (load_enum_valid _)).
  rewrite (first_valid_single f_start valid_sequence _ e _ load_sequence_valid).
  rewrite (first_valid_single f_stop valid_sequence _ e _ load_sequence_valid).
  rewrite (first_valid_single f_strategy (valid_enum gr_StartingStrategies_values) _ e _ (load_enum_valid _)).
  rewrite (first_valid_single f_sfs (valid_enum gr_StartingFailureStrategies_values) _ e _ (load_enum_valid _)).
  rewrite (first_valid_single f_rfs (valid_enum gr_RunningFailureStrategies_values) _ e _ (load_enum_valid _)).
  set (start := first_valid f_start valid_sequence [e] gr_app_start_default) in *.
  (* stop_sequence *)
  assert (Hstop : (if Z.ltb (first_valid f_stop valid_sequence [e] gr_app_stop_default) 0 then start
                   else first_valid f_stop valid_sequence [e] gr_app_stop_default)
                  = first_valid f_stop valid_sequence [e] start).
  { destruct (first_valid_cases f_stop valid_sequence [e]) as [(z & Hz & x & v & _ & _ & Hv)|Hd].
    - rewrite !Hz. apply valid_sequence_spec in Hv. destruct Hv as (_ & Hv). apply Z.ltb_ge in Hv. rewrite Hv. reflexivity.
    - rewrite !Hd. pose proof app_stop_default_negative as Hn. apply Z.ltb_lt in Hn. rewrite Hn. reflexivity. }
  (* identifiers *)
  set (t := match f_idents (e_fields e) with
            | Some (x :: xs) => spec_idents aliases (x :: xs) | _ => idt_default end) in *.
  assert (Hat : i_at t = []).
  { pose proof Hs as Hs2. injection Hs2 as _ Hspec. apply andb_prop in Hspec. destruct Hspec as (H & _).
    destruct (i_at t); [reflexivity|discriminate]. }
  assert (Ht : opt_apply (f_idents (e_fields e)) (load_identifiers aliases) idt_default = t).
  { unfold t in *. unfold opt_apply. destruct (f_idents (e_fields e)) as [[|x xs]|]; try reflexivity.
    unfold idt_default. rewrite load_identifiers_plain, spec_idents_target. cbv zeta.
    rewrite spec_idents_target in Hat. cbv zeta in Hat.
    destruct (zmem S_AT (check_identifier_list aliases (x :: xs))) eqn:E1; [|reflexivity].
    simpl in Hat. exfalso. apply (id_target_nonempty aliases (x :: xs)); [rewrite E1; reflexivity|exact Hat]. }
  rewrite Ht. unfold app_check_dependencies. cbn [a_managed a_distribution a_idt a_start a_stop a_strategy a_sfs a_rfs].
  rewrite Hstop.
  destruct (i_hash t) as [|h hs] eqn:Eh.
  - simpl. simpl in Hs. inversion Hs; subst. reflexivity.
  - cbn [is_nil]. unfold app_check_hash. cbn [a_managed a_distribution a_idt a_start a_stop a_strategy a_sfs a_rfs].
    rewrite Eh. cbn [is_nil orb negb] in Hs.
    destruct idx as [n|].
    + destruct (Z.ltb (n - 1) 0) eqn:Ek.
      * assert (Hn : Z.ltb 0 n = false) by (apply Z.ltb_ge; apply Z.ltb_lt in Ek; lia).
        rewrite Hn in Hs. inversion Hs; subst. reflexivity.
      * assert (Hn : Z.ltb 0 n = true) by (apply Z.ltb_lt; apply Z.ltb_ge in Ek; lia).
        rewrite Hn in Hs.
        destruct (if zmem S_STAR (h :: hs) then instances ev else h :: hs) as [|x xs] eqn:Eref.
        -- rewrite Hat in Hs. simpl in Hs. inversion Hs.
        -- inversion Hs; subst. reflexivity.
    + inversion Hs; subst. reflexivity.
Qed.

(* ================================================================ totality of the '#' / '@' resolution *)
Lemma count_incr_some : forall ident counts,
  In ident (map snd counts) -> exists c', count_incr ident counts = Some c' /\ map snd c' = map snd counts.
Proof.
  intros ident counts. induction counts as [|[c i] counts IH]; intros H; simpl in *; [destruct H|].
  destruct (Z.eqb i ident) eqn:E.
  - eexists. split; [reflexivity|reflexivity].
  - destruct H as [H|H]; [apply Z.eqb_neq in E; congruence|].
    destruct (IH H) as (c' & -> & Hm). eexists. split; [reflexivity|]. simpl. rewrite Hm. reflexivity.
Qed.

Lemma count_assigned_total : forall order counts,
  (forall kp x xs, In kp order -> i_ids (g_idt (snd kp)) = x :: xs -> In x (map snd counts)) ->
  exists c', count_assigned order counts = Ok c' /\ map snd c' = map snd counts.
Proof.
  induction order as [|[k p] order IH]; intros counts H; simpl.
  - eexists. split; reflexivity.
  - destruct (i_ids (g_idt p)) as [|x xs] eqn:E.
    + apply IH. intros kp y ys Hin. apply H. right; exact Hin.
    + destruct (count_incr_some x counts) as (c1 & -> & Hm1).
      { apply (H (k, p) x xs); [left; reflexivity|exact E]. }
      destruct (IH c1) as (c' & Hc & Hm).
      { intros kp y ys Hin Hy. rewrite Hm1. eapply H; [right; exact Hin|exact Hy]. }
      exists c'. split; [exact Hc|congruence].
Qed.

Lemma py_min_in : forall {A} (key : A -> Z) l m, py_min key l = Some m -> In m l.
Proof.
  intros A key l m H. destruct l as [|c l]; simpl in H; [discriminate|]. inversion H; subst. clear H.
  revert c. induction l as [|a l IH]; intros c; simpl; [left; reflexivity|].
  destruct (Z.ltb (key a) (key c)).
  - destruct (IH a) as [<-|Hin]; [right; left; reflexivity|right; right; exact Hin].
  - destruct (IH c) as [<-|Hin]; [left; reflexivity|right; right; exact Hin].
Qed.

Lemma hash_loop_total : forall un counts ps,
  counts <> [] -> exists ps', hash_loop un counts ps = Ok ps'.
Proof.
  induction un as [|[k p] un IH]; intros counts ps Hne; simpl; [eexists; reflexivity|].
  destruct (py_min fst counts) as [[c ident]|] eqn:Em.
  - apply py_min_in in Em.
    destruct (count_incr_some ident counts) as (c' & -> & Hm).
    { apply in_map_iff. exists (c, ident). split; auto. }
    apply IH. intros Hnil. rewrite Hnil in Hm. destruct counts; [congruence|discriminate].
  - destruct counts; [congruence|discriminate].
Qed.

(* '@' resolution is total; '#' resolution raises only inside the two known classes *)
Theorem resolve_rules_total : forall ev g,
  truthy (gr_at g) && truthy (gr_hash g) = false ->
  class_hash_foreign ev g = false -> class_hash_empty_ref ev g = false ->
  exists g', resolve_rules ev g = Ok g'.
Proof.
  intros ev g Hboth Hf He. unfold resolve_rules.
  destruct (truthy (gr_at g)) eqn:Ta; simpl in Hboth.
  - assert (Hh : gr_hash (assign_at ev g) = gr_hash g) by reflexivity. rewrite Hh, Hboth. eexists. reflexivity.
  - destruct (truthy (gr_hash g)) eqn:Th; [|eexists; reflexivity].
    unfold assign_hash. destruct (gr_hash g) as [[|h hl]|] eqn:Egh; try discriminate.
    set (order := sorted_procs (gr_procs g)).
    destruct (filter (fun kp => negb (is_nil (i_hash (g_idt (snd kp))))) order) as [|w ws] eqn:Eun;
      [eexists; reflexivity|].
    assert (Hw : existsb (fun p => negb (is_nil (i_hash (g_idt p)))) (gr_procs g) = true).
    { assert (Hin : In w (filter (fun kp => negb (is_nil (i_hash (g_idt (snd kp))))) order))
        by (rewrite Eun; left; reflexivity).
      apply filter_In in Hin. destruct Hin as (Hin & Hp).
      assert (Hin' : In w (enumerate (gr_procs g))) by (eapply Permutation_in; [apply sorted_procs_perm|exact Hin]).
      destruct w as [k p]. apply in_combine_r in Hin'. apply existsb_exists. exists p. auto. }
    unfold class_hash_foreign in Hf. rewrite Egh, Hw in Hf. simpl in Hf.
    unfold class_hash_empty_ref in He. rewrite Egh, Hw in He. rewrite andb_true_r in He.
    set (ref := ref_identifiers ev (h :: hl)) in *.
    destruct (count_assigned_total order (map (fun i => (0, i)) ref)) as (c' & -> & Hm).
    { intros kp x xs Hin Hx. rewrite map_map. simpl. rewrite map_id.
      assert (Hin' : In kp (enumerate (gr_procs g))) by (eapply Permutation_in; [apply sorted_procs_perm|exact Hin]).
      destruct kp as [k p]. apply in_combine_r in Hin'. simpl in Hx.
      destruct (zmem x ref) eqn:Ez; [apply zmem_In; exact Ez|]. exfalso.
      assert (existsb (fun p => match i_ids (g_idt p) with x :: _ => negb (zmem x ref) | [] => false end) (gr_procs g) = true).
      { apply existsb_exists. exists p. split; auto. rewrite Hx, Ez. reflexivity. }
      congruence. }
    cbn [bind]. destruct (hash_loop_total (w :: ws) c' (gr_procs g)) as (ps' & ->).
    { intros Hnil. rewrite Hnil in Hm. rewrite map_map in Hm. simpl in Hm. rewrite map_id in Hm.
      destruct ref; [discriminate|discriminate]. }
    eexists. reflexivity.
Qed.

(* groups built by add_process never hold both lists *)
Lemma add_process_not_both : forall g p, truthy (gr_at (add_process g p)) && truthy (gr_hash (add_process g p)) = false.
Proof.
  intros g p. unfold add_process. cbn [gr_at gr_hash].
  destruct (i_at (g_idt p)) as [|a0 al]; destruct (i_hash (g_idt p)) as [|h0 hl];
    destruct (gr_at g) as [[|x xs]|]; destruct (gr_hash g) as [[|y ys]|]; reflexivity.
Qed.

(* finding `model-sign-kept` on its minimal witness: the model carries '#', the program element plain identifiers;
   the specification expects the element to supersede, the parser keeps the '#' list of the model *)
Theorem model_sign_kept_refuted :
  exists d o app proc r r',
    load_program_rules d o app proc (prules_init 0 0) = Ok r
    /\ spec_program_rules d o app proc 0 0 = Some r'
    /\ i_hash (p_idt r) = [10; 11] /\ i_hash (p_idt r') = [] /\ i_ids (p_idt r) = [12] /\ i_ids (p_idt r') = [12].
Proof.
  pose (m := mkElt (Some 20) None [FIdents [S_HASH; 10; 11]]).
  pose (prg := mkElt None (Some 30) [FRef 20; FIdents [12]]).
  exists [[IModel m; IApp (mkElt (Some 40) None []) [prg]]], [(30, 50, MLen 4)], 40, 50.
  eexists. eexists. split; [vm_compute; reflexivity|]. split; [vm_compute; reflexivity|].
  vm_compute. repeat split.
Qed.

(* ================================================================ resolution vs spec_resolve (partial) *)
Lemma filter_nil_all : forall {A} (f : A -> bool) l, (forall x, In x l -> f x = false) -> filter f l = [].
Proof.
  intros A f l. induction l as [|a l IH]; intros H; simpl; auto.
  rewrite (H a (or_introl eq_refl)). apply IH. intros x Hx. apply H. right; exact Hx.
Qed.

Lemma in_sorted_procs : forall ps kp, In kp (sorted_procs ps) -> In (snd kp) ps.
Proof.
  intros ps [k p] H. assert (Hin : In (k, p) (enumerate ps)) by (eapply Permutation_in; [apply sorted_procs_perm|exact H]).
  unfold enumerate in Hin. apply in_combine_r in Hin. exact Hin.
Qed.

(* a group in which no process waits on a sign is left exactly as it is (and nothing can raise) *)
Theorem resolve_no_sign_unchanged : forall ev g,
  no_sign (gr_procs g) = true ->
  exists g', resolve_rules ev g = Ok g' /\ group_obs g' = group_obs g
             /\ spec_resolve ev g = Some (group_obs g).
Proof.
  intros ev g H. unfold no_sign in H. rewrite forallb_forall in H.
  assert (Hat : filter (fun kp => negb (is_nil (i_at (g_idt (snd kp))))) (sorted_procs (gr_procs g)) = []).
  { apply filter_nil_all. intros kp Hkp. apply in_sorted_procs in Hkp. specialize (H _ Hkp).
    apply andb_prop in H. destruct H as (H & _). rewrite H. reflexivity. }
  assert (Hh : filter (fun kp => negb (is_nil (i_hash (g_idt (snd kp))))) (sorted_procs (gr_procs g)) = []).
  { apply filter_nil_all. intros kp Hkp. apply in_sorted_procs in Hkp. specialize (H _ Hkp).
    apply andb_prop in H. destruct H as (_ & H). rewrite H. reflexivity. }
  assert (Hplan : at_plan ev g = []) by (unfold at_plan; rewrite Hat; reflexivity).
  assert (Hspec : spec_resolve ev g = Some (group_obs g)).
  { unfold spec_resolve, no_sign. assert (forallb _ (gr_procs g) = true) as -> by (apply forallb_forall; exact H).
    reflexivity. }
  unfold resolve_rules.
  assert (Ha : assign_at ev g = mkGroup (gr_procs g) (gr_at g) (gr_hash g)) by (unfold assign_at; rewrite Hplan; reflexivity).
  destruct (truthy (gr_at g)).
  - rewrite Ha. cbn [gr_hash]. destruct (truthy (gr_hash g)).
    + unfold assign_hash. cbn [gr_procs gr_hash]. rewrite Hh. eexists. split; [reflexivity|]. split; [reflexivity|exact Hspec].
    + eexists. split; [reflexivity|]. split; [reflexivity|exact Hspec].
  - destruct (truthy (gr_hash g)).
    + unfold assign_hash. rewrite Hh. eexists. split; [reflexivity|]. split; [reflexivity|exact Hspec].
    + eexists. split; [reflexivity|]. split; [reflexivity|exact Hspec].
Qed.
(* the uniform '@' and '#' cases follow: resolve_at_refines_spec, resolve_hash_refines_spec, resolution_refines_spec *)

(* ================================================================ resolution vs spec_resolve : '@' *)
Lemma nth_error_ext_eq : forall {A} (l1 l2 : list A), (forall j, nth_error l1 j = nth_error l2 j) -> l1 = l2.
Proof.
  intros A l1. induction l1 as [|a l1 IH]; intros [|b l2] H; auto.
  - specialize (H 0%nat). discriminate.
  - specialize (H 0%nat). discriminate.
  - pose proof (H 0%nat) as H0. simpl in H0. inversion H0; subst. f_equal. apply IH.
    intros j. exact (H (S j)).
Qed.

Lemma nth_error_set_nth : forall {A} (l : list A) k v j,
  nth_error (set_nth k v l) j = if Nat.eqb j k then option_map (fun _ => v) (nth_error l j) else nth_error l j.
Proof.
  intros A l. induction l as [|a l IH]; intros k v j; simpl.
  - destruct k; destruct j; simpl; try reflexivity; destruct (Nat.eqb j k); reflexivity.
  - destruct k as [|k]; destruct j as [|j]; simpl; auto.
Qed.

Lemma nth_error_enumerate_from : forall {A} (l : list A) s j,
  nth_error (combine (seq s (length l)) l) j = option_map (fun x => ((s + j)%nat, x)) (nth_error l j).
Proof.
  intros A l. induction l as [|a l IH]; intros s j; simpl.
  - destruct j; reflexivity.
  - destruct j as [|j]; simpl.
    + rewrite Nat.add_0_r. reflexivity.
    + rewrite IH. rewrite Nat.add_succ_r. reflexivity.
Qed.
Lemma nth_error_enumerate : forall {A} (l : list A) j,
  nth_error (enumerate l) j = option_map (fun x => (j, x)) (nth_error l j).
Proof. intros. unfold enumerate. rewrite nth_error_enumerate_from. reflexivity. Qed.

Definition at_step (ps : list gproc) (kpi : nat * gproc * Z) : list gproc :=
  let '((k, p), ident) := kpi in set_nth k (mkG (g_index p) (mkI [ident] [] (i_hash (g_idt p)))) ps.

Lemma fold_at_step_nth : forall plan ps j,
  NoDup (map (fun kpi : nat * gproc * Z => fst (fst kpi)) plan) ->
  nth_error (fold_left at_step plan ps) j =
  match find (fun kpi : nat * gproc * Z => Nat.eqb (fst (fst kpi)) j) plan with
  | Some kpi => option_map (fun _ => mkG (g_index (snd (fst kpi))) (mkI [snd kpi] [] (i_hash (g_idt (snd (fst kpi))))))
                           (nth_error ps j)
  | None => nth_error ps j
  end.
Proof.
  induction plan as [|[[k p] ident] plan IH]; intros ps j Hnd; simpl; [reflexivity|].
  inversion Hnd as [|x l Hx Hl]; subst. rewrite (IH _ j Hl). rewrite nth_error_set_nth.
  rewrite (Nat.eqb_sym k j). destruct (Nat.eqb j k) eqn:E.
  - apply Nat.eqb_eq in E. subst j.
    assert (Hf : find (fun kpi : nat * gproc * Z => Nat.eqb (fst (fst kpi)) k) plan = None).
    { destruct (find _ plan) as [y|] eqn:Ef; auto. apply find_some in Ef. destruct Ef as (Hin & Hk).
      apply Nat.eqb_eq in Hk. exfalso. apply Hx. simpl. rewrite <- Hk. apply in_map_iff. exists y. auto. }
    rewrite Hf. reflexivity.
  - destruct (find _ plan); reflexivity.
Qed.

Lemma find_combine_key : forall {A B} (key : A -> nat) (l1 : list A) (l2 : list B) j,
  find (fun pi : nat * B => Nat.eqb (fst pi) j) (combine (map key l1) l2)
  = option_map (fun ab : A * B => (key (fst ab), snd ab))
               (find (fun ab : A * B => Nat.eqb (key (fst ab)) j) (combine l1 l2)).
Proof.
  intros A B key l1. induction l1 as [|a l1 IH]; intros l2 j; simpl; [reflexivity|].
  destruct l2 as [|b l2]; simpl; [reflexivity|]. destruct (Nat.eqb (key a) j); [reflexivity|apply IH].
Qed.

Lemma at_plan_eq : forall ev g L, gr_at g = Some L ->
  at_plan ev g =
  combine (filter (fun kp => negb (is_nil (i_at (g_idt (snd kp))))) (sorted_procs (gr_procs g)))
          (filter (fun i => negb (zmem i (assigned_identifiers (sorted_procs (gr_procs g))))) (ref_identifiers ev L)).
Proof.
  intros ev g L H. unfold at_plan. rewrite H.
  destruct (filter (fun kp => negb (is_nil (i_at (g_idt (snd kp))))) (sorted_procs (gr_procs g))); reflexivity.
Qed.

Lemma uniform_at_hash_nil : forall ps L p, uniform_at ps = Some L -> In p ps -> i_hash (g_idt p) = [].
Proof.
  intros ps L p H Hin. unfold uniform_at in H. destruct (find _ ps); [|discriminate].
  destruct (forallb _ ps) eqn:E; [|discriminate]. rewrite forallb_forall in E. specialize (E p Hin).
  unfold tobs_of, obs_idt in E. destruct (i_ids (g_idt p)) as [|x [|y l]]; destruct (i_at (g_idt p));
    destruct (i_hash (g_idt p)); try discriminate; reflexivity.
Qed.

(* '@' : on a uniform group the observable after resolve_rules is exactly spec_at *)
Theorem resolve_at_refines_spec : forall ev g L,
  NoDup (instances ev) ->
  gr_at g = Some L -> L <> [] -> truthy (gr_hash g) = false ->
  uniform_at (gr_procs g) = Some L ->
  exists g', resolve_rules ev g = Ok g' /\ group_obs g' = spec_at ev L (gr_procs g).
Proof.
  intros ev g L Hinst Hat HL Hh Hu. unfold resolve_rules. rewrite Hat.
  assert (Ht : truthy (Some L) = true) by (destruct L; [congruence|reflexivity]). rewrite Ht.
  assert (Hgh : gr_hash (assign_at ev g) = gr_hash g) by reflexivity. rewrite Hgh, Hh.
  eexists. split; [reflexivity|].
  assert (Hnd : NoDup (map (fun kpi : nat * gproc * Z => fst (fst kpi)) (at_plan ev g))).
  { destruct (assign_at_injective_bounded ev g L Hinst Hat) as (_ & _ & H & _). exact H. }
  assert (Hplan_in : forall kpi, In kpi (at_plan ev g) -> i_hash (g_idt (snd (fst kpi))) = []).
  { intros kpi Hin. destruct (assign_at_injective_bounded ev g L Hinst Hat) as (_ & _ & _ & H & _).
    destruct (H (fst kpi)) as (Hs & _); [apply in_map; exact Hin|].
    apply in_sorted_procs in Hs. eapply uniform_at_hash_nil; eauto. }
  unfold group_obs, assign_at. cbn [gr_procs]. fold at_step.
  apply nth_error_ext_eq. intros j. rewrite nth_error_map, (fold_at_step_nth _ _ j Hnd).
  unfold spec_at. rewrite nth_error_map, nth_error_enumerate.
  destruct (nth_error (gr_procs g) j) as [p|] eqn:Ep; cbn [option_map fst snd].
  2:{ destruct (find _ (at_plan ev g)); reflexivity. }
  rewrite (find_combine_key fst). rewrite <- (at_plan_eq ev g L Hat).
  destruct (find (fun kpi : nat * gproc * Z => Nat.eqb (fst (fst kpi)) j) (at_plan ev g)) as [kpi|] eqn:Ef;
    cbn [option_map fst snd].
  - apply find_some in Ef. destruct Ef as (Hin & _). rewrite (Hplan_in kpi Hin). reflexivity.
  - reflexivity.
Qed.

(* ================================================================ resolution vs spec_resolve : '#' *)
Lemma fold_hash_step_nth : forall ref plan ps j,
  NoDup (map (fun kpp : nat * gproc * nat => fst (fst kpp)) plan) ->
  nth_error (apply_hash ref ps plan) j =
  match find (fun kpp : nat * gproc * nat => Nat.eqb (fst (fst kpp)) j) plan with
  | Some kpp => option_map (fun _ => mkG (g_index (snd (fst kpp)))
                                         (mkI [nth (snd kpp) ref 0] (i_at (g_idt (snd (fst kpp)))) []))
                           (nth_error ps j)
  | None => nth_error ps j
  end.
Proof.
  intros ref plan. unfold apply_hash. induction plan as [|[[k p] pos] plan IH]; intros ps j Hnd; simpl; [reflexivity|].
  inversion Hnd as [|x l Hx Hl]; subst. rewrite (IH _ j Hl). rewrite nth_error_set_nth.
  rewrite (Nat.eqb_sym k j). destruct (Nat.eqb j k) eqn:E.
  - apply Nat.eqb_eq in E. subst j.
    assert (Hf : find (fun kpp : nat * gproc * nat => Nat.eqb (fst (fst kpp)) k) plan = None).
    { destruct (find _ plan) as [y|] eqn:Ef; auto. apply find_some in Ef. destruct Ef as (Hin & Hk).
      apply Nat.eqb_eq in Hk. exfalso. apply Hx. simpl. rewrite <- Hk. apply in_map_iff. exists y. auto. }
    rewrite Hf. reflexivity.
  - destruct (find _ plan); reflexivity.
Qed.

Lemma find_rank : forall (l : list (nat * gproc)) (f : nat -> nat) s j,
  option_map snd (find (fun x : nat * gproc * nat => Nat.eqb (fst (fst x)) j) (combine l (map f (seq s (length l)))))
  = match find_idx_from (Nat.eqb j) s (map fst l) with i :: _ => Some (f i) | [] => None end.
Proof.
  induction l as [|[k p] l IH]; intros f s j; simpl; [reflexivity|].
  rewrite (Nat.eqb_sym j k). destruct (Nat.eqb k j); simpl; [reflexivity|]. apply IH.
Qed.

Lemma filter_all : forall {A} (f : A -> bool) l, (forall x, In x l -> f x = true) -> filter f l = l.
Proof.
  intros A f l. induction l as [|a l IH]; intros H; simpl; auto.
  rewrite (H a (or_introl eq_refl)). f_equal. apply IH. intros x Hx. apply H. right; exact Hx.
Qed.

Lemma zl_eqb_sound : forall a b, zl_eqb a b = true -> a = b.
Proof.
  unfold zl_eqb. induction a as [|x a IH]; intros [|y b] H; simpl in H; try discriminate; auto.
  apply andb_prop in H. destruct H as (H1 & H2). apply Z.eqb_eq in H1. subst. f_equal. auto.
Qed.

Lemma uniform_hash_shape : forall ps L p, uniform_hash ps = Some L -> fresh ps = true -> In p ps ->
  i_ids (g_idt p) = [] /\ i_at (g_idt p) = [] /\ i_hash (g_idt p) = L /\ L <> [].
Proof.
  intros ps L p H Hf Hin. unfold uniform_hash in H. destruct (find _ ps) as [p0|] eqn:E0; [|discriminate].
  destruct (forallb _ ps) eqn:E; [|discriminate]. inversion H; subst. clear H.
  apply find_some in E0. destruct E0 as (_ & Hp0).
  rewrite forallb_forall in E. specialize (E p Hin).
  unfold fresh in Hf. rewrite forallb_forall in Hf. specialize (Hf p Hin).
  unfold tobs_of, obs_idt in E.
  destruct (i_ids (g_idt p)) as [|x l]; [|discriminate].
  destruct (i_at (g_idt p)); [|discriminate].
  repeat split; auto.
  - apply zl_eqb_sound. exact E.
  - intros Hn. rewrite Hn in Hp0. discriminate.
Qed.

(* '#' : on a fresh uniform group the observable after resolve_rules is exactly spec_hash_fresh (round-robin) *)
Theorem resolve_hash_refines_spec : forall ev g L,
  NoDup (instances ev) ->
  gr_hash g = Some L -> truthy (gr_at g) = false ->
  uniform_hash (gr_procs g) = Some L -> fresh (gr_procs g) = true ->
  ref_identifiers ev L <> [] ->
  exists g', resolve_rules ev g = Ok g'
             /\ group_obs g' = spec_hash_fresh (ref_identifiers ev L) (gr_procs g).
Proof.
  intros ev g L Hinst Hh Hat Hu Hf Href. unfold resolve_rules. rewrite Hat.
  set (ps := gr_procs g) in *. set (ref := ref_identifiers ev L) in *.
  assert (Hshape : forall p, In p ps -> i_ids (g_idt p) = [] /\ i_at (g_idt p) = [] /\ i_hash (g_idt p) = L /\ L <> [])
    by (intros p Hp; eapply uniform_hash_shape; eauto).
  assert (HL : L <> []).
  { unfold uniform_hash in Hu. destruct (find _ ps) as [p0|] eqn:E0; [|discriminate].
    apply find_some in E0. destruct E0 as (Hin & _). destruct (Hshape p0 Hin) as (_ & _ & _ & H). exact H. }
  assert (Ht : truthy (gr_hash g) = true) by (rewrite Hh; destruct L; [congruence|reflexivity]). rewrite Ht.
  assert (Hwait : filter (fun kp => negb (is_nil (i_hash (g_idt (snd kp))))) (sorted_procs ps) = sorted_procs ps).
  { apply filter_all. intros kp Hkp. apply in_sorted_procs in Hkp. destruct (Hshape _ Hkp) as (_ & _ & Hhp & _).
    rewrite Hhp. destruct L; [congruence|reflexivity]. }
  destruct (assign_hash_round_robin ev g L Hinst Hh) as [Hrr|(Hnil & _)]; auto.
  { intros p Hp. destruct (Hshape p Hp) as (H & _). exact H. }
  2:{ (* nobody waiting: impossible, the group is not empty *)
      exfalso. fold ps in Hnil. rewrite Hwait in Hnil.
      unfold uniform_hash in Hu. destruct (find _ ps) as [p0|] eqn:E0; [|discriminate].
      apply find_some in E0. destruct E0 as (Hin & _).
      assert (Hperm : Permutation (sorted_procs ps) (enumerate ps)) by apply sorted_procs_perm.
      rewrite Hnil in Hperm. apply Permutation_nil in Hperm. unfold enumerate in Hperm.
      destruct ps; [destruct Hin|discriminate]. }
  rewrite Hrr. fold ps. fold ref. rewrite Hwait. eexists. split; [reflexivity|].
  unfold group_obs. cbn [gr_procs].
  set (order := sorted_procs ps).
  set (plan := combine order (map (fun k => (k mod length ref)%nat) (seq 0 (length order)))).
  assert (Hnd : NoDup (map (fun kpp : nat * gproc * nat => fst (fst kpp)) plan)).
  { unfold plan. apply (NoDup_map_fst_combine fst). apply sorted_procs_positions_NoDup. }
  apply nth_error_ext_eq. intros j. rewrite nth_error_map, (fold_hash_step_nth ref plan ps j Hnd).
  unfold spec_hash_fresh. rewrite nth_error_map, nth_error_enumerate. fold order.
  destruct (nth_error ps j) as [p|] eqn:Ep; cbn [option_map fst snd].
  2:{ destruct (find _ plan); reflexivity. }
  pose proof (find_rank order (fun k => (k mod length ref)%nat) 0 j) as Hrank. fold plan in Hrank.
  unfold find_idx. destruct (find_idx_from (Nat.eqb j) 0 (map fst order)) as [|rank rest] eqn:Er.
  - destruct (find _ plan) as [kpp|]; [discriminate|]. reflexivity.
  - destruct (find (fun kpp : nat * gproc * nat => Nat.eqb (fst (fst kpp)) j) plan) as [kpp|] eqn:Efp; [|discriminate].
    simpl in Hrank. inversion Hrank as [Hpos]. cbn [option_map].
    apply find_some in Efp. destruct Efp as (Hin & _).
    assert (Hinp : In (snd (fst kpp)) ps).
    { unfold plan in Hin. destruct kpp as [[k p'] pos]. apply in_combine_l in Hin. apply in_sorted_procs in Hin. exact Hin. }
    destruct (Hshape _ Hinp) as (_ & Hatp & _ & _). rewrite Hatp. unfold obs_idt. cbn [g_idt i_ids i_at i_hash].
    rewrite Hpos. rewrite <- Nat2Z.inj_mod, Nat2Z.id. reflexivity.
Qed.

(* ================================================================ resolution_refines_spec *)
Lemma holds_eq : forall o L, holds o L = true -> o = Some L.
Proof. intros [l|] L H; simpl in H; [|discriminate]. apply zl_eqb_sound in H. subst. reflexivity. Qed.

Lemma uniform_at_nonempty : forall ps L, uniform_at ps = Some L -> L <> [].
Proof.
  intros ps L H. unfold uniform_at in H. destruct (find _ ps) as [p0|] eqn:E0; [|discriminate].
  destruct (forallb _ ps); [|discriminate]. inversion H; subst. apply find_some in E0. destruct E0 as (_ & E0).
  intros Hn. rewrite Hn in E0. discriminate.
Qed.

(* MAIN (resolution): whenever the specification gives the expected observation of a resolve_rules (in particular
   the group holds the one list its waiting processes carry), and outside the class of finding `hash-empty-ref`,
   resolve_rules returns it *)
Theorem resolution_refines_spec : forall ev g ts,
  NoDup (instances ev) ->
  spec_resolve ev g = Some ts ->
  class_hash_empty_ref ev g = false ->
  exists g', resolve_rules ev g = Ok g' /\ group_obs g' = ts.
Proof.
  intros ev g ts Hinst Hs Hk. unfold spec_resolve in Hs.
  destruct (no_sign (gr_procs g)) eqn:Ens.
  - inversion Hs; subst. destruct (resolve_no_sign_unchanged ev g Ens) as (g' & H1 & H2 & _). exists g'. auto.
  - destruct (uniform_at (gr_procs g)) as [La|] eqn:Eua; destruct (uniform_hash (gr_procs g)) as [Lh|] eqn:Euh;
      try discriminate.
    + destruct (holds (gr_at g) La && negb (truthy (gr_hash g))) eqn:Ec; [|discriminate].
      apply andb_prop in Ec. destruct Ec as (Hat & Hh). apply holds_eq in Hat. apply negb_true_iff in Hh.
      inversion Hs; subst.
      apply (resolve_at_refines_spec ev g La Hinst Hat (uniform_at_nonempty _ _ Eua) Hh Eua).
    + destruct (holds (gr_hash g) Lh && negb (truthy (gr_at g))) eqn:Ec; [|discriminate].
      apply andb_prop in Ec. destruct Ec as (Hh & Hat). apply holds_eq in Hh. apply negb_true_iff in Hat.
      destruct (is_nil (ref_identifiers ev Lh)) eqn:Eref.
      * (* no known name in the list: the class of the finding, excluded *)
        exfalso. unfold class_hash_empty_ref in Hk. rewrite Hh in Hk.
        unfold uniform_hash in Euh. destruct (find _ (gr_procs g)) as [p0|] eqn:E0; [|discriminate].
        destruct (forallb _ (gr_procs g)); [|discriminate]. inversion Euh; subst.
        apply find_some in E0. destruct E0 as (Hin & Hp0).
        destruct (i_hash (g_idt p0)) as [|h hl] eqn:Eh; [discriminate|].
        rewrite Eref in Hk. simpl in Hk.
        assert (existsb (fun p => negb (is_nil (i_hash (g_idt p)))) (gr_procs g) = true).
        { apply existsb_exists. exists p0. split; auto. rewrite Eh. reflexivity. }
        congruence.
      * destruct (fresh (gr_procs g)) eqn:Ef; [|discriminate]. inversion Hs; subst.
        apply (resolve_hash_refines_spec ev g Lh Hinst Hh Hat Euh Ef).
        intros Hn. rewrite Hn in Eref. discriminate.
Qed.

Example resolution_refines_spec_example :
  let w := mkI [] [] [104; 102] in
  let g := fold_left add_process [mkG 1 w; mkG 2 w; mkG 3 w] group_init in
  spec_resolve (mkEnv [101; 102; 103; 104] [] []) g = Some [([104], [], []); ([102], [], []); ([104], [], [])].
Proof. vm_compute. reflexivity. Qed.

(* the alarm of seed 3, kept as a regression: two processes of one program got different '@' lists from two
   <program> elements; the group keeps the list of the last one added: nothing is specified, nothing is demanded *)
Example inconsistent_group_unspecified :
  let ev := mkEnv [10; 11; 12; 13] [(20, 10)] [] in
  let g := mkGroup [mkG 2 (mkI [] [S_STAR] []); mkG 0 (mkI [10] [] [])] (Some [14; 20]) None in
  uniform_at (gr_procs g) = Some [S_STAR] /\ spec_resolve ev g = None
  /\ rmap group_obs (resolve_rules ev g) = Ok [([], [S_STAR], []); ([10], [], [])].
Proof. vm_compute. repeat split. Qed.
