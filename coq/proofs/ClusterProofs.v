(* ClusterProofs.v — C01 at cluster level (agreement at quiescence), and the logical core of C08:
   the exact catalogue of decisions of the state machine versus its transition table, and per-state
   progress lemmas (regressions for the two fixed liveness defects).  Self-contained. *)
From Sup Require Import Base GenEnums GenNode Node Cluster ClusterSpec.
From Coq Require Import List ZArith Bool Lia.
Import ListNotations.
Open Scope Z_scope.

(* ================================================================================================ *)
(* A. association lists, Z sets                                                                     *)
(* ================================================================================================ *)
Lemma aget_aset_eq {V} : forall k (v : V) l, aget k (aset k v l) = Some v.
Proof.
  intros k v l. induction l as [|[k' v'] r IH]; simpl.
  - rewrite Z.eqb_refl. reflexivity.
  - destruct (Z.eqb k k') eqn:E; simpl; rewrite E; auto.
Qed.

Lemma aget_aset_neq {V} : forall k j (v : V) l, k <> j -> aget k (aset j v l) = aget k l.
Proof.
  intros k j v l Hn. induction l as [|[k' v'] r IH]; simpl.
  - destruct (Z.eqb_spec k j); [contradiction | reflexivity].
  - destruct (Z.eqb_spec j k') as [E|E]; simpl.
    + subst k'. destruct (Z.eqb_spec k j); [contradiction | reflexivity].
    + rewrite IH. reflexivity.
Qed.

Lemma aset_same {V} : forall k (v : V) l, aget k l = Some v -> aset k v l = l.
Proof.
  intros k v l. induction l as [|[k' v'] r IH]; simpl; intros H.
  - discriminate.
  - destruct (Z.eqb k k') eqn:E.
    + inversion H; subst. reflexivity.
    + rewrite IH; auto.
Qed.

Lemma aget_In {V} : forall k (v : V) l, aget k l = Some v -> In (k, v) l.
Proof.
  intros k v l. induction l as [|[k' v'] r IH]; simpl; intros H.
  - discriminate.
  - destruct (Z.eqb_spec k k') as [E|E].
    + inversion H; subst. left; reflexivity.
    + right; auto.
Qed.

Definition vmap {V W} (f : V -> W) (l : alist V) : alist W := map (fun kv => (fst kv, f (snd kv))) l.

Lemma aget_vmap {V W} : forall (f : V -> W) k l, aget k (vmap f l) = option_map f (aget k l).
Proof.
  intros f k l. induction l as [|[k' v'] r IH]; simpl; auto.
  destruct (Z.eqb k k'); auto.
Qed.

Lemma aset_vmap {V W} : forall (f : V -> W) k v l, vmap f (aset k v l) = aset k (f v) (vmap f l).
Proof.
  intros f k v l. induction l as [|[k' v'] r IH]; simpl; auto.
  destruct (Z.eqb k k'); simpl; auto. rewrite <- IH. reflexivity.
Qed.

Lemma zmem_In : forall k l, zmem k l = true <-> In k l.
Proof.
  intros k l. unfold zmem. rewrite existsb_exists. split.
  - intros [x [Hi He]]. apply Z.eqb_eq in He. subst; auto.
  - intros H. exists k. split; auto. apply Z.eqb_refl.
Qed.

Lemma zmem_false_not_In : forall k l, zmem k l = false -> ~ In k l.
Proof. intros k l H Hi. apply zmem_In in Hi. congruence. Qed.

Lemma zadd_keeps : forall k x l, In x l -> In x (zadd k l).
Proof. intros k x l H. unfold zadd. destruct (zmem k l); auto. apply in_or_app; auto. Qed.

Lemma zadd_adds : forall k l, In k (zadd k l).
Proof.
  intros k l. unfold zadd. destruct (zmem k l) eqn:E.
  - apply zmem_In; auto.
  - apply in_or_app; right; left; reflexivity.
Qed.

Lemma len_le1_eq : forall (l : list Z) x y, Nat.ltb 1 (length l) = false -> In x l -> In y l -> x = y.
Proof.
  intros l x y H Hx Hy. destruct l as [|a [|b r]]; simpl in *.
  - contradiction.
  - destruct Hx as [Hx|[]]; destruct Hy as [Hy|[]]; congruence.
  - discriminate.
Qed.

Lemma sstate_eqb_eq : forall a b, sstate_eqb a b = true <-> a = b.
Proof. intros a b; destruct a, b; simpl; split; intros H; try reflexivity; discriminate. Qed.
Lemma sstate_eqb_refl : forall a, sstate_eqb a a = true.
Proof. destruct a; reflexivity. Qed.
Lemma sstate_eqb_neq : forall a b, a <> b -> sstate_eqb a b = false.
Proof. intros a b H. destruct (sstate_eqb a b) eqn:E; auto. apply sstate_eqb_eq in E. contradiction. Qed.
Lemma sstate_eqb_sym : forall a b, sstate_eqb a b = sstate_eqb b a.
Proof. destruct a, b; reflexivity. Qed.

(* ================================================================================================ *)
(* B. C01: agreement at quiescence                                                                  *)
(* ================================================================================================ *)
Lemma running_views_In : forall n l rv j s,
  running_views n l = Ok rv -> In (j, s) l -> sees_running n j = true -> In (j, s) rv.
Proof.
  intros n l. induction l as [|[k t] r IH]; simpl; intros rv j s H Hin Hs.
  - contradiction.
  - destruct (aget k (sm_insts (own n))) as [st|] eqn:E; try discriminate.
    destruct (running_views n r) as [t0|] eqn:Er; simpl in H; try discriminate.
    inversion H; subst rv; clear H.
    destruct Hin as [Hin|Hin].
    + inversion Hin; subst k t. unfold sees_running in Hs. rewrite E in Hs.
      destruct st; try discriminate. simpl. left; reflexivity.
    + specialize (IH t0 j s eq_refl Hin Hs).
      destruct (istate_eqb st IRUNNING); simpl; auto.
Qed.

Lemma mi_fold_acc : forall (rv : list (Z * smodes)) acc x,
  In x acc -> In x (fold_left (fun acc js => zadd (sm_master (snd js)) acc) rv acc).
Proof.
  induction rv as [|a r IH]; simpl; intros acc x H; auto.
  apply IH. apply zadd_keeps; auto.
Qed.

Lemma mi_fold_In : forall (rv : list (Z * smodes)) acc js,
  In js rv -> In (sm_master (snd js)) (fold_left (fun acc js => zadd (sm_master (snd js)) acc) rv acc).
Proof.
  induction rv as [|a r IH]; simpl; intros acc js H.
  - contradiction.
  - destruct H as [H|H].
    + subst a. apply mi_fold_acc. apply zadd_adds.
    + apply IH; auto.
Qed.

(* what check_master = Ok true says: every instance seen RUNNING whose view is held declares the same, non-empty Master *)
Lemma check_master_true_views : forall n, check_master n = Ok true ->
  exists M, M <> 0 /\ forall j s, aget j (n_views n) = Some s -> sees_running n j = true -> sm_master s = M.
Proof.
  intros n H. unfold check_master, master_identifiers in H.
  destruct (running_views n (n_views n)) as [rv|] eqn:Erv; simpl in H; try discriminate.
  injection H as H1. apply andb_prop in H1. destruct H1 as [Hz Hl].
  apply negb_true_iff in Hz. apply negb_true_iff in Hl.
  set (ms := fold_left (fun acc js => zadd (sm_master (snd js)) acc) rv []) in *.
  assert (Hall : forall j s, aget j (n_views n) = Some s -> sees_running n j = true -> In (sm_master s) ms).
  { intros j s Hg Hs. apply aget_In in Hg.
    apply (mi_fold_In rv [] (j, s)). eapply running_views_In; eauto. }
  destruct ms as [|M r] eqn:Ems.
  - exists 1. split; [lia|]. intros j s Hg Hs. destruct (Hall j s Hg Hs).
  - exists M. split.
    + intros E. subst M. simpl in Hz. discriminate.
    + intros j s Hg Hs. eapply len_le1_eq; [exact Hl | apply Hall with j; auto | left; reflexivity].
Qed.

(* weakest form: ONE member n0 whose last consistency check passed, holding the exact state-and-modes of every
   member (its own entry included) and seeing every member RUNNING *)
Lemma quiescent_agreement_from_one : forall (nodes : list node) n0,
  In n0 nodes ->
  (forall nj, In nj nodes -> view_exact n0 nj) ->
  (forall nj, In nj nodes -> sees_running n0 (n_me nj) = true) ->
  master_consistent n0 ->
  (forall n, In n nodes -> sm_local n) ->
  exists M, M <> 0 /\ sees_running n0 M = true /\
            forall n, In n nodes -> master n = M /\ sees_running n M = true.
Proof.
  intros nodes n0 Hin0 Hview Hsees Hcons Hloc.
  destruct (check_master_true_views n0 Hcons) as [M [HM0 HM]].
  assert (Hall : forall n, In n nodes -> master n = M).
  { intros n Hn. unfold master. apply (HM (n_me n)); [apply Hview; auto | apply Hsees; auto]. }
  exists M. split; auto. split.
  - rewrite <- (Hall n0 Hin0). apply Hloc; auto. rewrite (Hall n0 Hin0). auto.
  - intros n Hn. split; auto. rewrite <- (Hall n Hn). apply Hloc; auto. rewrite (Hall n Hn). auto.
Qed.

Theorem quiescent_agreement : forall (nodes : list node),
  nodes <> [] ->
  (forall ni nj, In ni nodes -> In nj nodes -> view_exact ni nj) ->
  (forall n, In n nodes -> sees_exactly n (map n_me nodes)) ->
  (forall n, In n nodes -> master_consistent n) ->
  (forall n, In n nodes -> sm_local n) ->
  exists M, In M (map n_me nodes) /\ M <> 0 /\
    (forall n, In n nodes -> master n = M /\ sees_running n M = true) /\
    (exists nM, In nM nodes /\ n_me nM = M /\ master nM = M /\ is_master nM = true).
Proof.
  intros nodes Hne Hview Hsees Hcons Hloc.
  destruct nodes as [|n0 r]; [congruence|].
  set (nodes := n0 :: r) in *.
  assert (Hin0 : In n0 nodes) by (left; reflexivity).
  destruct (quiescent_agreement_from_one nodes n0 Hin0) as [M [HM0 [HMr Hall]]]; auto.
  { intros nj Hj. apply (Hsees n0 Hin0). apply in_map; auto. }
  assert (HMS : In M (map n_me nodes)) by (apply (Hsees n0 Hin0); auto).
  exists M. repeat split; auto; try (apply Hall; auto).
  apply in_map_iff in HMS. destruct HMS as [nM [Hme HinM]].
  exists nM. repeat split; auto.
  - apply Hall; auto.
  - unfold is_master. destruct (Hall nM HinM) as [Hm _]. rewrite Hm, Hme. apply Z.eqb_refl.
Qed.

(* boolean checker for sees_exactly *)
Definition sees_exactly_b (n : node) (S : list Z) : bool :=
  forallb (sees_running n) S
  && forallb (fun kv => negb (istate_eqb (snd kv) IRUNNING) || zmem (fst kv) S) (sm_insts (own n)).

Lemma sees_exactly_b_sound : forall n S, sees_exactly_b n S = true -> sees_exactly n S.
Proof.
  intros n S H. apply andb_prop in H. destruct H as [H1 H2].
  rewrite forallb_forall in H1, H2. intros j. split.
  - intros Hs. unfold sees_running in Hs.
    destruct (aget j (sm_insts (own n))) as [st|] eqn:E; try discriminate.
    destruct st; try discriminate. apply aget_In in E. specialize (H2 _ E). simpl in H2.
    apply zmem_In; auto.
  - intros Hj. apply H1; auto.
Qed.

(* Example: three members (1, 2, 3) in OPERATION with Master 1, a fourth instance isolated by all of them *)
Definition ag_opts : options := mkOpts 2 true false false true false false 20 FS_CONTINUE.
Definition ag_insts : alist istate := [(1, IRUNNING); (2, IRUNNING); (3, IRUNNING); (4, ISOLATED)].
Definition ag_own : smodes := mkSm OPERATION false 1 ag_insts.
Definition ag_ist (st : istate) : ist := mkIst st 5 5 0.
Definition ag_node (me : Z) : node :=
  mkNode me ag_opts [] [] [(1, 1); (2, 2); (3, 3); (4, 4)]
         [(1, ag_ist IRUNNING); (2, ag_ist IRUNNING); (3, ag_ist IRUNNING); (4, ag_ist ISOLATED)]
         [(1, ag_own); (2, ag_own); (3, ag_own); (4, sm_fresh)] [1; 2; 3] false 0 [].
Definition ag_nodes : list node := [ag_node 1; ag_node 2; ag_node 3].

Example quiescent_agreement_hyps :
  ag_nodes <> [] /\
  (forall ni nj, In ni ag_nodes -> In nj ag_nodes -> view_exact ni nj) /\
  (forall n, In n ag_nodes -> sees_exactly n (map n_me ag_nodes)) /\
  (forall n, In n ag_nodes -> master_consistent n) /\
  (forall n, In n ag_nodes -> sm_local n).
Proof.
  split; [discriminate|]. split; [|split; [|split]].
  - intros ni nj Hi Hj. simpl in Hi, Hj.
    destruct Hi as [Hi|[Hi|[Hi|[]]]]; destruct Hj as [Hj|[Hj|[Hj|[]]]]; subst ni nj; reflexivity.
  - intros n Hn. apply sees_exactly_b_sound. simpl in Hn.
    destruct Hn as [Hn|[Hn|[Hn|[]]]]; subst n; vm_compute; reflexivity.
  - intros n Hn. simpl in Hn. destruct Hn as [Hn|[Hn|[Hn|[]]]]; subst n; vm_compute; reflexivity.
  - intros n Hn _. simpl in Hn. destruct Hn as [Hn|[Hn|[Hn|[]]]]; subst n; vm_compute; reflexivity.
Qed.

(* ================================================================================================ *)
(* C. C08: decisions of the state machine versus its transition table                               *)
(* ================================================================================================ *)
Definition all_sstates : list sstate :=
  [OFF; SYNCHRONIZATION; ELECTION; DISTRIBUTION; OPERATION; CONCILIATION; RESTARTING; SHUTTING_DOWN; FINAL].

(* the Master-driven states: a non-Master instance copies the state of its Master *)
Definition follows_master (s : sstate) : bool :=
  match s with DISTRIBUTION | OPERATION | CONCILIATION => true | _ => false end.

(* decisions an instance takes by itself in state s (Master or not) *)
Definition decisions_local (s : sstate) : list sstate :=
  match s with
  | OFF => [OFF; SYNCHRONIZATION]
  | SYNCHRONIZATION => [OFF; SYNCHRONIZATION; ELECTION]
  | ELECTION => [OFF; SYNCHRONIZATION; ELECTION; DISTRIBUTION; SHUTTING_DOWN]
  | DISTRIBUTION => [OFF; SYNCHRONIZATION; ELECTION; DISTRIBUTION; OPERATION; SHUTTING_DOWN]
  | OPERATION => [OFF; SYNCHRONIZATION; ELECTION; OPERATION; CONCILIATION; SHUTTING_DOWN]
  | CONCILIATION => [OFF; SYNCHRONIZATION; ELECTION; OPERATION; CONCILIATION; SHUTTING_DOWN]
  | RESTARTING => [RESTARTING; FINAL]
  | SHUTTING_DOWN => [SHUTTING_DOWN; FINAL]
  | FINAL => []
  end.

(* all the decisions fsm_next may return in state s: in a Master-driven state a non-Master instance returns
   master_state, which ranges over the nine states *)
Definition decisions (s : sstate) : list sstate :=
  match s with
  | DISTRIBUTION | OPERATION | CONCILIATION => all_sstates
  | _ => decisions_local s
  end.

Lemma all_sstates_complete : forall s, In s all_sstates.
Proof. destruct s; simpl; tauto. Qed.

Lemma decisions_local_incl : forall s d, In d (decisions_local s) -> In d (decisions s).
Proof. intros s d H. destruct s; simpl decisions; auto; apply all_sstates_complete. Qed.

Lemma check_instances_dec : forall n now n1 o1 lost lostp d,
  check_instances n now = Ok (n1, o1, lost, lostp, Some d) -> d = ELECTION /\ act_of (fsm_state n) = ActWorking.
Proof.
  intros n now n1 o1 lost lostp d H. unfold check_instances in H.
  destruct (invalidate_failed n now) as [[[[a b] c] e]|]; try discriminate.
  destruct (act_of (fsm_state n)) eqn:A; try discriminate;
    destruct (activate_checked a now) as [[[x y] z]|]; try discriminate.
  destruct z; try discriminate. inversion H; auto.
Qed.

Lemma cfs_dec : forall n lost n' o d,
  check_failure_strategy n lost = (n', o, Some d) -> d = SYNCHRONIZATION \/ d = SHUTTING_DOWN.
Proof.
  intros n lost n' o d H. unfold check_failure_strategy in H.
  destruct (set_degraded n _) as [n1 o1]. injection H as _ _ H.
  match type of H with (if ?g then _ else _) = _ => destruct g end; try discriminate.
  destruct (o_fstrategy (n_opts n)); inversion H; auto.
Qed.

Lemma sync_consistence_dec : forall n lost n' o d,
  sync_consistence n lost = (n', o, Some d) -> In d [OFF; SYNCHRONIZATION; SHUTTING_DOWN].
Proof.
  intros n lost n' o d H. unfold sync_consistence, on_consistence in H.
  destruct (local_running n).
  - apply cfs_dec in H. destruct H; subst; simpl; auto.
  - inversion H. simpl. auto.
Qed.

Lemma ms_consistence_dec : forall n lost n' o d,
  ms_consistence n lost = Ok (n', o, Some d) -> In d [OFF; SYNCHRONIZATION; SHUTTING_DOWN; ELECTION].
Proof.
  intros n lost n' o d H. unfold ms_consistence in H.
  destruct (sync_consistence n lost) as [[n1 o1] [d1|]] eqn:E.
  - inversion H; subst. apply sync_consistence_dec in E. simpl in *. tauto.
  - unfold bind in H. destruct (check_master n1) as [[|]|]; inversion H. simpl. auto 6.
Qed.

Lemma ending_slave_next_dec : forall n st, ending_slave_next n st = st \/ ending_slave_next n st = FINAL.
Proof.
  intros n st. unfold ending_slave_next. destruct (master_state n) as [ms|]; auto.
  destruct (sstate_eqb ms st); auto.
Qed.

Ltac break_hyp H :=
  match type of H with
  | context [match ?x with _ => _ end] => destruct x eqn:?
  end.

Lemma on_consistence_dec : forall n d, on_consistence n = Some d -> d = OFF.
Proof. intros n d H. unfold on_consistence in H. destruct (local_running n); inversion H; auto. Qed.

Ltac use_dec :=
  repeat match goal with
  | Hm : on_consistence _ = Some _ |- _ => apply on_consistence_dec in Hm
  | Hm : ms_consistence _ _ = Ok (_, _, Some _) |- _ => apply ms_consistence_dec in Hm; simpl in Hm
  | Hm : sync_consistence _ _ = (_, _, Some _) |- _ => apply sync_consistence_dec in Hm; simpl in Hm
  end.

(* every decision is either a local one, or the copy of the Master's state by a non-Master instance *)
Ltac fin_in := simpl; intuition (subst; simpl; auto 12).

Theorem fsm_next_decisions_split : forall n orc now n' o d,
  fsm_next n orc now = Ok (n', o, Some d) ->
  In d (decisions_local (fsm_state n))
  \/ (follows_master (fsm_state n) = true /\ is_master n' = false /\ master_state n' = Some d).
Proof.
  intros n orc now n' o d H. unfold fsm_next in H. cbv zeta in H.
  destruct (check_instances n now) as [[[[[n1 o1] lost] lostp] [d0|]]|] eqn:Eci; try discriminate.
  { apply check_instances_dec in Eci. destruct Eci as [Ed Ea]. inversion H; subst. left.
    destruct (fsm_state n); simpl in Ea; try discriminate; simpl; auto 12. }
  destruct (evaluate_stability n1) as [n2|] eqn:Ees; try discriminate.
  unfold bind in H.
  destruct (fsm_state n) eqn:Est; cbv beta iota in H.
  - (* OFF *) left. destruct (local_running n2); inversion H; simpl; auto.
  - (* SYNCHRONIZATION *)
    left. repeat (break_hyp H; try discriminate); inversion H; subst; use_dec; subst; simpl;
      try match goal with |- context [if ?g then _ else _] => destruct g end; auto 12.
  - (* ELECTION *)
    left. repeat (break_hyp H; try discriminate); inversion H; subst; use_dec; fin_in.
  - (* DISTRIBUTION *)
    repeat (break_hyp H; try discriminate); inversion H; subst; use_dec;
      try (left; fin_in; fail); right; auto.
  - (* OPERATION *)
    repeat (break_hyp H; try discriminate); inversion H; subst; use_dec;
      try (left; fin_in; fail); right; auto.
  - (* CONCILIATION *)
    repeat (break_hyp H; try discriminate); inversion H; subst; use_dec;
      try (left; fin_in; fail); right; auto.
  - (* RESTARTING *)
    left. repeat (break_hyp H; try discriminate); inversion H; subst; simpl; auto;
      destruct (ending_slave_next_dec n' RESTARTING) as [E|E]; rewrite E; auto.
  - (* SHUTTING_DOWN *)
    left. repeat (break_hyp H; try discriminate); inversion H; subst; simpl; auto;
      destruct (ending_slave_next_dec n' SHUTTING_DOWN) as [E|E]; rewrite E; auto.
  - (* FINAL *) discriminate.
Qed.

Theorem fsm_next_decisions : forall n orc now n' o d,
  fsm_next n orc now = Ok (n', o, Some d) -> In d (decisions (fsm_state n)).
Proof.
  intros n orc now n' o d H. apply fsm_next_decisions_split in H. destruct H as [H|[H _]].
  - apply decisions_local_incl; auto.
  - destruct (fsm_state n); try discriminate; apply all_sstates_complete.
Qed.

(* a decision that FiniteStateMachine.set_state refuses (critical log, loop broken, state kept) *)
Definition refused (s d : sstate) : bool := negb (sstate_eqb s d) && negb (fsm_transition_ok s d).

Definition pairs_of (dec : sstate -> list sstate) : list (sstate * sstate) :=
  flat_map (fun s => map (fun d => (s, d)) (filter (refused s) (dec s))) all_sstates.
Definition refused_pairs : list (sstate * sstate) := pairs_of decisions.
Definition refused_pairs_local : list (sstate * sstate) := pairs_of decisions_local.

(* THE CATALOGUE. Re-checked by computation against gen/GenNode.v (gen_fsm_transitions). *)
Theorem refused_pairs_exact :
  refused_pairs =
    [ (DISTRIBUTION, SYNCHRONIZATION);   (* RESYNC failure strategy decided in DISTRIBUTION, or Master seen there *)
      (DISTRIBUTION, CONCILIATION);      (* non-Master: the Master is already in CONCILIATION *)
      (DISTRIBUTION, FINAL);             (* non-Master: the Master is seen in FINAL *)
      (OPERATION, DISTRIBUTION);         (* non-Master: the Master is (back) in DISTRIBUTION *)
      (OPERATION, FINAL);
      (CONCILIATION, DISTRIBUTION);
      (CONCILIATION, FINAL) ].
Proof. vm_compute. reflexivity. Qed.

(* the only refused decision an instance takes by itself (i.e. not by copying its Master) *)
Theorem refused_pairs_local_exact : refused_pairs_local = [ (DISTRIBUTION, SYNCHRONIZATION) ].
Proof. vm_compute. reflexivity. Qed.

Lemma refused_pairs_spec : forall s d, In (s, d) refused_pairs <-> (In d (decisions s) /\ refused s d = true).
Proof.
  intros s d. unfold refused_pairs, pairs_of. rewrite in_flat_map. split.
  - intros [s' [_ H]]. apply in_map_iff in H. destruct H as [d' [E H]]. inversion E; subst.
    apply filter_In in H. auto.
  - intros [H1 H2]. exists s. split; [apply all_sstates_complete|].
    apply in_map_iff. exists d. split; auto. apply filter_In. auto.
Qed.

Theorem refused_keeps_state : forall fuel n d orcs now acc,
  refused (fsm_state n) d = true -> set_state fuel n (Some d) orcs now acc = Ok (n, acc).
Proof.
  intros fuel n d orcs now acc H. unfold refused in H. apply andb_prop in H. destruct H as [H1 H2].
  rewrite sstate_eqb_sym in H1. apply negb_true_iff in H1.
  destruct fuel; cbn [set_state]; rewrite H1, H2; reflexivity.
Qed.

(* consequence: a refused decision leaves the node exactly as the evaluation left it *)
Corollary refused_decision_parks : forall n orcs now n1 o1 d,
  fsm_next n (fst (next_orcs orcs)) now = Ok (n1, o1, Some d) -> refused (fsm_state n1) d = true ->
  fsm_run n orcs now = Ok (n1, o1).
Proof.
  intros n orcs now n1 o1 d H Hr. unfold fsm_run. destruct (next_orcs orcs) as [orc rest]. simpl in H.
  rewrite H. apply refused_keeps_state; auto.
Qed.

(* every pair of the catalogue is realised by a concrete node (so the catalogue is not an over-approximation):
   a non-Master instance 1 in state s whose Master 2 is viewed in state d; for (DISTRIBUTION, SYNCHRONIZATION)
   also the Master itself with the RESYNC strategy when the core instance 3 is missing *)
Definition rw_insts : alist istate := [(1, IRUNNING); (2, IRUNNING); (3, ISTOPPED)].
Definition rw_node (fs : fstrategy) (core : bool) (m : Z) (s d : sstate) : node :=
  mkNode 1 (mkOpts 2 false false false true core false 20 fs) [3] [] [(1, 1); (2, 2); (3, 3)]
         [(1, mkIst IRUNNING 5 5 0); (2, mkIst IRUNNING 5 5 0); (3, mkIst ISTOPPED 0 0 0)]
         [(1, mkSm s false m rw_insts); (2, mkSm d false m rw_insts); (3, sm_fresh)] [] false 0 [].
Definition rw_orc : oracle := mkOr false false false 0.

Theorem refused_pairs_realised : forall s d, In (s, d) refused_pairs ->
  exists n n' o, fsm_state n = s /\ fsm_next n rw_orc 100 = Ok (n', o, Some d) /\ fsm_run n [rw_orc] 100 = Ok (n', o)
                 /\ fsm_state n' = s.
Proof.
  intros s d H. exists (rw_node FS_CONTINUE false 2 s d). rewrite refused_pairs_exact in H. simpl in H.
  repeat (destruct H as [H|H]; [inversion H; subst s d; clear H;
    eexists; eexists; vm_compute; repeat split; reflexivity|]).
  contradiction.
Qed.

Example resync_in_distribution_refused :
  let n := rw_node FS_RESYNC true 1 DISTRIBUTION OFF in
  is_master n = true /\ exists n' o, fsm_next n rw_orc 100 = Ok (n', o, Some SYNCHRONIZATION) /\
                                     fsm_run n [rw_orc] 100 = Ok (n', o) /\ fsm_state n' = DISTRIBUTION.
Proof. split; [reflexivity|]. eexists; eexists. vm_compute. repeat split; reflexivity. Qed.

(* ================================================================================================ *)
(* D. C08: per-state progress                                                                       *)
(* ================================================================================================ *)
(* --- well-formedness facts used as hypotheses (all decidable) --- *)
(* the own state-and-modes is an entry of the views table (always true in Python: the constructor creates it) *)
Definition own_wf (n : node) : Prop := aget (n_me n) (n_views n) = Some (own n).
Definition own_wf_b (n : node) : bool := amem (n_me n) (n_views n).
Lemma own_wf_b_sound : forall n, own_wf_b n = true -> own_wf n.
Proof. intros n. unfold own_wf_b, own_wf, own, amem. destruct (aget (n_me n) (n_views n)); congruence. Qed.
Lemma own_wf_view_exact : forall n, own_wf n <-> view_exact n n.
Proof. intros n. unfold own_wf, view_exact, view_of. tauto. Qed.

(* nothing to invalidate, nothing to activate *)
Definition quiet (n : node) : Prop := forall j, inst_state n j <> Some FAILED /\ inst_state n j <> Some CHECKED.
Definition quiet_b (n : node) : bool :=
  forallb (fun kv => negb (istate_eqb (is_state (snd kv)) FAILED) && negb (istate_eqb (is_state (snd kv)) CHECKED))
          (n_insts n).
Lemma quiet_b_sound : forall n, quiet_b n = true -> quiet n.
Proof.
  intros n H j. unfold quiet_b in H. rewrite forallb_forall in H. unfold inst_state.
  destruct (aget j (n_insts n)) as [s|] eqn:E; [|split; discriminate].
  apply aget_In in E. specialize (H _ E). simpl in H. apply andb_prop in H. destruct H as [H1 H2].
  split; intros C; inversion C as [C1]; rewrite C1 in *; discriminate.
Qed.

(* every instance of which a view is held has an entry in the own instance states (no KeyError in running_views) *)
Definition views_keyed (n : node) : Prop :=
  forall j, In j (akeys (n_views n)) -> aget j (sm_insts (own n)) <> None.
Definition views_keyed_b (n : node) : bool := forallb (fun j => amem j (sm_insts (own n))) (akeys (n_views n)).
Lemma views_keyed_b_sound : forall n, views_keyed_b n = true -> views_keyed n.
Proof.
  intros n H j Hj. unfold views_keyed_b in H. rewrite forallb_forall in H. specialize (H j Hj).
  unfold amem in H. destruct (aget j (sm_insts (own n))); congruence.
Qed.

(* the failure strategy cannot produce a decision: CONTINUE, or no condition that can fail is configured *)
Definition no_strategy (o : options) : bool :=
  match o_fstrategy o with
  | FS_CONTINUE => true
  | _ => negb (o_strict o || o_list o || o_core o || o_user o)
  end.

(* --- check_instances / evaluate_stability --- *)
Lemma invalidate_failed_aux_quiet : forall now ids n acc lost lostp,
  quiet n -> invalidate_failed_aux ids n acc lost lostp now = Ok (n, acc, lost, lostp).
Proof.
  intros now ids. induction ids as [|j r IH]; intros n acc lost lostp Hq; simpl; auto.
  destruct (inst_state n j) as [[]|] eqn:E; auto. exfalso. apply (proj1 (Hq j)). auto.
Qed.

Lemma activate_checked_aux_quiet : forall now ids n acc act,
  quiet n -> activate_checked_aux ids n acc act now = Ok (n, acc, act).
Proof.
  intros now ids. induction ids as [|j r IH]; intros n acc act Hq; simpl; auto.
  destruct (inst_state n j) as [[]|] eqn:E; auto. exfalso. apply (proj2 (Hq j)). auto.
Qed.

Lemma check_instances_quiet : forall n now, quiet n -> check_instances n now = Ok (n, [], [], false, None).
Proof.
  intros n now Hq. unfold check_instances, invalidate_failed, activate_checked.
  rewrite invalidate_failed_aux_quiet by auto.
  destruct (act_of (fsm_state n)); try rewrite activate_checked_aux_quiet by auto; reflexivity.
Qed.

Lemma evaluate_stability_shape : forall n n2, evaluate_stability n = Ok n2 -> exists s, n2 = set_stable n s.
Proof.
  intros n n2 H. unfold evaluate_stability, bind in H.
  destruct (running_views n (n_views n)) as [rv|]; try discriminate.
  destruct (map _ rv) as [|s0 t]; [inversion H; eauto|].
  destruct (forallb _ _); inversion H; eauto.
Qed.

Lemma running_views_es : forall n rv, running_views n (n_views n) = Ok rv -> exists n2, evaluate_stability n = Ok n2.
Proof.
  intros n rv H. unfold evaluate_stability, bind. rewrite H.
  destruct (map _ rv) as [|s0 t]; [eauto|]. destruct (forallb _ _); eauto.
Qed.

Lemma check_master_rv : forall n b, check_master n = Ok b -> exists rv, running_views n (n_views n) = Ok rv.
Proof.
  intros n b H. unfold check_master, master_identifiers, bind in H.
  destruct (running_views n (n_views n)) as [rv|]; [eauto | discriminate].
Qed.

Lemma views_keyed_rv : forall n, views_keyed n -> exists rv, running_views n (n_views n) = Ok rv.
Proof.
  intros n H. unfold views_keyed in H. revert H. generalize (n_views n) as l.
  induction l as [|[j s] r IH]; intros H; simpl.
  - eauto.
  - destruct (aget j (sm_insts (own n))) as [st|] eqn:E.
    + destruct IH as [rv Erv]. { intros k Hk. apply H. right; auto. }
      rewrite Erv. simpl. eauto.
    + exfalso. apply (H j); [left; reflexivity | auto].
Qed.

(* --- check_master only depends on the own instance states and on the Masters declared in the views --- *)
Fixpoint rvm (insts : alist istate) (l : alist Z) : result (list Z) :=
  match l with
  | [] => Ok []
  | (j, m) :: r =>
      match aget j insts with
      | None => Crash KeyError
      | Some st => bind (rvm insts r) (fun t => Ok (if istate_eqb st IRUNNING then m :: t else t))
      end
  end.

Lemma running_views_rvm : forall n l,
  bind (running_views n l) (fun rv => Ok (map (fun js => sm_master (snd js)) rv))
  = rvm (sm_insts (own n)) (vmap sm_master l).
Proof.
  intros n l. induction l as [|[j s] r IH]; simpl; auto.
  destruct (aget j (sm_insts (own n))) as [st|]; auto.
  rewrite <- IH. destruct (running_views n r); simpl; auto.
  destruct (istate_eqb st IRUNNING); reflexivity.
Qed.

Lemma fold_zadd_map : forall (rv : list (Z * smodes)) acc,
  fold_left (fun acc js => zadd (sm_master (snd js)) acc) rv acc
  = fold_left (fun acc m => zadd m acc) (map (fun js => sm_master (snd js)) rv) acc.
Proof. induction rv as [|a r IH]; simpl; auto. Qed.

Definition cm (insts : alist istate) (mv : alist Z) : result bool :=
  bind (rvm insts mv) (fun l =>
    let ms := fold_left (fun acc m => zadd m acc) l [] in
    Ok (negb (zmem 0 ms) && negb (Nat.ltb 1 (length ms)))).

Lemma check_master_cm : forall n, check_master n = cm (sm_insts (own n)) (vmap sm_master (n_views n)).
Proof.
  intros n. unfold check_master, master_identifiers, cm. rewrite <- running_views_rvm.
  destruct (running_views n (n_views n)); simpl; auto. rewrite fold_zadd_map. reflexivity.
Qed.

(* --- what the bookkeeping updates of the own state-and-modes preserve --- *)
Record pres (n n' : node) : Prop := mkPres {
  p_me : n_me n' = n_me n;
  p_opts : n_opts n' = n_opts n;
  p_insts : n_insts n' = n_insts n;
  p_wf : own_wf n';
  p_master : master n' = master n;
  p_cm : check_master n' = check_master n
}.
(* ... and moreover the own FSM state and the state of the Master as viewed locally *)
Definition presf (n n' : node) : Prop :=
  pres n n' /\ fsm_state n' = fsm_state n /\ master_state n' = master_state n.

Lemma pres_refl : forall n, own_wf n -> pres n n.
Proof. intros n H. constructor; auto. Qed.
Lemma presf_refl : forall n, own_wf n -> presf n n.
Proof. intros n H. split; [apply pres_refl; auto | auto]. Qed.
Lemma pres_trans : forall a b c, pres a b -> pres b c -> pres a c.
Proof. intros a b c [] []. constructor; congruence. Qed.
Lemma presf_trans : forall a b c, presf a b -> presf b c -> presf a c.
Proof. intros a b c [P1 [F1 M1]] [P2 [F2 M2]]. split; [eapply pres_trans; eauto | split; congruence]. Qed.

Lemma own_set_own : forall n s, own (set_own n s) = s.
Proof. intros n s. unfold own, set_own. simpl. rewrite aget_aset_eq. reflexivity. Qed.

Lemma pres_set_own : forall n s', own_wf n -> sm_master s' = master n -> sm_insts s' = sm_insts (own n) ->
  pres n (set_own n s').
Proof.
  intros n s' Hwf Hm Hi. constructor; try reflexivity.
  - unfold own_wf. rewrite own_set_own. simpl. apply aget_aset_eq.
  - unfold master. rewrite own_set_own. auto.
  - rewrite !check_master_cm. rewrite own_set_own, Hi. f_equal.
    simpl. rewrite aset_vmap. apply aset_same. rewrite aget_vmap. rewrite Hwf. simpl. f_equal. auto.
Qed.

Lemma master_state_set_own : forall n s', own_wf n -> sm_master s' = master n ->
  (sm_fsm s' = fsm_state n \/ is_master n = false) -> master_state (set_own n s') = master_state n.
Proof.
  intros n s' Hwf Hm Hf. unfold master_state. unfold master at 1. rewrite own_set_own, Hm. simpl.
  destruct (Z.eqb_spec (master n) (n_me n)) as [E|E].
  - rewrite E, aget_aset_eq, Hwf. destruct Hf as [Hf|Hf].
    + rewrite Hf. reflexivity.
    + unfold is_master in Hf. rewrite E, Z.eqb_refl in Hf. discriminate.
  - rewrite aget_aset_neq by auto. reflexivity.
Qed.

Lemma set_degraded_presf : forall n b, own_wf n ->
  presf n (fst (set_degraded n b)) /\ n_stable (fst (set_degraded n b)) = n_stable n.
Proof.
  intros n b Hwf. unfold set_degraded. destruct (Bool.eqb (sm_degraded (own n)) b); simpl.
  - split; [apply presf_refl; auto | reflexivity].
  - split; [|reflexivity]. split; [|split].
    + apply pres_set_own; auto.
    + unfold fsm_state. rewrite own_set_own. reflexivity.
    + apply master_state_set_own; auto.
Qed.

Lemma set_fsm_pres : forall n st, own_wf n ->
  pres n (fst (set_fsm n st)) /\ fsm_state (fst (set_fsm n st)) = st
  /\ (is_master n = false -> master_state (fst (set_fsm n st)) = master_state n).
Proof.
  intros n st Hwf. unfold set_fsm. destruct (sstate_eqb (fsm_state n) st) eqn:E; simpl.
  - apply sstate_eqb_eq in E. split; [apply pres_refl; auto | auto].
  - split; [|split].
    + apply pres_set_own; auto.
    + unfold fsm_state. rewrite own_set_own. reflexivity.
    + intros Him. apply master_state_set_own; auto.
Qed.

Lemma set_master_fsm : forall n m, fsm_state (fst (set_master n m)) = fsm_state n.
Proof.
  intros n m. unfold set_master. destruct (Z.eqb (master n) m); simpl; auto.
  unfold fsm_state. rewrite own_set_own. reflexivity.
Qed.

Lemma select_master_fsm : forall n n' o, select_master n = Ok (n', o) -> fsm_state n' = fsm_state n.
Proof.
  intros n n' o H. unfold select_master, bind in H.
  destruct (master_identifiers n) as [ms|]; try discriminate.
  destruct (min_nick n _ None) as [[[m rk]|]|]; try discriminate.
  inversion H as [H1]. rewrite <- (set_master_fsm n m). rewrite (surjective_pairing (set_master n m)) in H1.
  inversion H1; reflexivity.
Qed.

Lemma local_running_pres : forall n n', pres n n' -> local_running n' = local_running n.
Proof. intros n n' P. unfold local_running, inst_state. rewrite (p_me _ _ P), (p_insts _ _ P). reflexivity. Qed.
Lemma quiet_pres : forall n n', pres n n' -> quiet n -> quiet n'.
Proof. intros n n' P H j. unfold inst_state. rewrite (p_insts _ _ P). apply H. Qed.
Lemma is_master_pres : forall n n', pres n n' -> is_master n' = is_master n.
Proof. intros n n' P. unfold is_master. rewrite (p_me _ _ P), (p_master _ _ P). reflexivity. Qed.

Lemma es_presf : forall n n2, own_wf n -> evaluate_stability n = Ok n2 ->
  presf n n2 /\ n_start_date n2 = n_start_date n /\ n_views n2 = n_views n /\ own n2 = own n.
Proof.
  intros n n2 Hwf H. apply evaluate_stability_shape in H. destruct H as [s H]. subst n2.
  split; [|auto]. split; [|auto]. constructor; auto. rewrite !check_master_cm. reflexivity.
Qed.

(* the hypotheses under which the consistency checks of the synchronized states pass *)
Record ready (n : node) : Prop := mkReady {
  r_wf : own_wf n; r_lr : local_running n = true; r_q : quiet n; r_ns : no_strategy (n_opts n) = true }.

Lemma ready_pres : forall n n', pres n n' -> ready n -> ready n'.
Proof.
  intros n n' P [Hwf Hlr Hq Hns]. constructor.
  - exact (p_wf _ _ P).
  - rewrite (local_running_pres _ _ P). auto.
  - eapply quiet_pres; eauto.
  - rewrite (p_opts _ _ P). auto.
Qed.

Lemma cfs_pass : forall n lost, own_wf n -> no_strategy (n_opts n) = true ->
  exists n' o, check_failure_strategy n lost = (n', o, None) /\ presf n n' /\ n_stable n' = n_stable n.
Proof.
  intros n lost Hwf Hns. unfold check_failure_strategy. cbv zeta.
  match goal with |- context [set_degraded n ?b] =>
    destruct (set_degraded_presf n b Hwf) as [P S]; destruct (set_degraded n b) as [n1 o1] end.
  simpl in P, S. exists n1, o1. split; [|auto]. f_equal.
  unfold no_strategy in Hns. destruct (o_fstrategy (n_opts n)).
  - match goal with |- (if ?g then _ else _) = _ => destruct g end; reflexivity.
  - apply negb_true_iff in Hns. apply orb_false_elim in Hns. destruct Hns as [Hns Hu].
    apply orb_false_elim in Hns. destruct Hns as [Hns Hc]. apply orb_false_elim in Hns. destruct Hns as [Hs Hl].
    unfold user_failure, core_failure, strict_failure, list_failure. rewrite Hs, Hl, Hc, Hu. reflexivity.
  - apply negb_true_iff in Hns. apply orb_false_elim in Hns. destruct Hns as [Hns Hu].
    apply orb_false_elim in Hns. destruct Hns as [Hns Hc]. apply orb_false_elim in Hns. destruct Hns as [Hs Hl].
    unfold user_failure, core_failure, strict_failure, list_failure. rewrite Hs, Hl, Hc, Hu. reflexivity.
Qed.

Lemma sync_consistence_pass : forall n lost, ready n ->
  exists n' o, sync_consistence n lost = (n', o, None) /\ presf n n' /\ n_stable n' = n_stable n.
Proof.
  intros n lost [Hwf Hlr Hq Hns]. unfold sync_consistence, on_consistence. rewrite Hlr. apply cfs_pass; auto.
Qed.

Lemma ms_consistence_pass : forall n lost b, ready n -> check_master n = Ok b ->
  exists n' o, ms_consistence n lost = Ok (n', o, if b then None else Some ELECTION) /\ presf n n'.
Proof.
  intros n lost b Hr Hcm. destruct (sync_consistence_pass n lost Hr) as [n' [o [E [P S]]]].
  exists n', o. split; auto. unfold ms_consistence. rewrite E.
  rewrite (p_cm _ _ (proj1 P)), Hcm. simpl. destruct b; reflexivity.
Qed.

(* --- results of one evaluation --- *)
Definition res_ok (P : node -> option sstate -> Prop) (r : eval) : Prop :=
  match r with Ok (n', _, d) => P n' d | Crash _ => False end.
Lemma res_ok_ex : forall P r, res_ok P r -> exists n' o d, r = Ok (n', o, d) /\ P n' d.
Proof. intros P r H. destruct r as [[[n' o] d]|]; simpl in H; [eauto | contradiction]. Qed.

Ltac bi := cbv beta iota zeta.

(* --- OFF --- *)
Theorem off_progress : forall n orc now,
  fsm_state n = OFF -> local_running n = true -> quiet n -> views_keyed n ->
  exists n' o, fsm_next n orc now = Ok (n', o, Some SYNCHRONIZATION).
Proof.
  intros n orc now Hst Hlr Hq Hvk.
  destruct (views_keyed_rv n Hvk) as [rv Hrv]. destruct (running_views_es n rv Hrv) as [n2 Hes].
  destruct (evaluate_stability_shape n n2 Hes) as [s Hs].
  assert (Hlr2 : local_running n2 = true) by (subst n2; exact Hlr).
  unfold fsm_next. rewrite (check_instances_quiet n now Hq). bi. rewrite Hes, Hst, Hlr2. eauto.
Qed.

(* --- SYNCHRONIZATION with the TIMEOUT condition --- *)
Lemma accept_master_ok : forall n pick rv, running_views n (n_views n) = Ok rv ->
  exists n' o, accept_master n pick = Ok (n', o).
Proof.
  intros n pick rv H. unfold accept_master, master_identifiers, bind. rewrite H.
  destruct (zdiscard 0 _) as [|m [|m' r]]; [eauto | |];
    match goal with |- context [set_master ?a ?b] => destruct (set_master a b) as [x y]; eauto end.
Qed.

Theorem sync_progress_timeout : forall n orc now,
  fsm_state n = SYNCHRONIZATION -> local_running n = true -> quiet n -> views_keyed n ->
  o_timeout (n_opts n) = true -> now - n_start_date n >= o_synchro_timeout (n_opts n) ->
  exists n' o, fsm_next n orc now = Ok (n', o, Some ELECTION).
Proof.
  intros n orc now Hst Hlr Hq Hvk Hto Hup.
  destruct (views_keyed_rv n Hvk) as [rv Hrv]. destruct (running_views_es n rv Hrv) as [n2 Hes].
  destruct (evaluate_stability_shape n n2 Hes) as [s Hs].
  assert (Hlr2 : local_running n2 = true) by (subst n2; exact Hlr).
  assert (Hto2 : o_timeout (n_opts n2) = true) by (subst n2; exact Hto).
  assert (Hup2 : Z.leb (o_synchro_timeout (n_opts n2)) (now - n_start_date n2) = true).
  { subst n2. apply Z.leb_le. simpl. lia. }
  assert (Hvk2 : views_keyed n2) by (subst n2; exact Hvk).
  destruct (views_keyed_rv n2 Hvk2) as [rv2 Hrv2].
  cut (res_ok (fun _ d => d = Some ELECTION) (fsm_next n orc now)).
  { intros H. apply res_ok_ex in H. destruct H as [n' [o [d [E Hd]]]]. subst d. eauto. }
  unfold fsm_next. rewrite (check_instances_quiet n now Hq). bi. rewrite Hes, Hst. bi.
  unfold on_consistence. rewrite Hlr2. rewrite Hto2, Hup2.
  lazymatch goal with |- res_ok _ (match ?u with _ => _ end) =>
    assert (Hus : exists n3 o3 us, u = Ok (n3, o3, us)) end.
  { destruct (o_user (n_opts n2)); [|eauto].
    destruct (accept_master_ok n2 (or_pick orc) rv2 Hrv2) as [n3 [o3 E]]. rewrite E.
    destruct (Z.eqb (master n3) 0); [eauto|]. destruct (inst_state n3 (master n3)); eauto. }
  destruct Hus as [n3 [o3 [us E]]]. rewrite E.
  match goal with |- context [set_degraded n3 ?b] => destruct (set_degraded n3 b) as [n4 o4] end.
  simpl. f_equal.
  match goal with |- (if ?g then _ else _) = _ => replace g with true; [reflexivity|] end.
  unfold is_true at 3. rewrite !orb_true_r. reflexivity.
Qed.

(* --- ELECTION --- *)
Definition stable_after (n : node) : bool :=
  match evaluate_stability n with Ok n2 => is_stable n2 | Crash _ => false end.
(* the Master is viewed in DISTRIBUTION or beyond *)
Definition master_beyond (n : node) : bool :=
  match master_state n with Some DISTRIBUTION | Some OPERATION | Some CONCILIATION => true | _ => false end.

Lemma election_decides_distribution : forall n orc now,
  ready n -> fsm_state n = ELECTION -> stable_after n = true -> check_master n = Ok true ->
  is_master n || master_beyond n = true ->
  res_ok (fun n' d => d = Some DISTRIBUTION /\ presf n n') (fsm_next n orc now).
Proof.
  intros n orc now Hr Hst Hsa Hcm Hmb. unfold stable_after in Hsa.
  destruct (evaluate_stability n) as [n2|] eqn:Hes; try discriminate.
  destruct (es_presf n n2 (r_wf _ Hr) Hes) as [P2 _].
  pose proof (ready_pres _ _ (proj1 P2) Hr) as Hr2.
  destruct (sync_consistence_pass n2 [] Hr2) as [n3 [o3 [E [P3 S3]]]].
  pose proof (presf_trans _ _ _ P2 P3) as P. pose proof P as [Pp [Pf Pm]].
  unfold fsm_next. rewrite (check_instances_quiet n now (r_q _ Hr)). bi. rewrite Hes, Hst. bi. rewrite E. bi.
  unfold is_stable. rewrite S3. unfold is_stable in Hsa. rewrite Hsa.
  rewrite (p_cm _ _ Pp), Hcm. rewrite (is_master_pres _ _ Pp).
  destruct (is_master n) eqn:Him.
  - simpl. split; auto.
  - simpl in Hmb. unfold master_beyond in Hmb. rewrite Pm. clear Pm.
    destruct (master_state n) as [[]|]; try discriminate; simpl; (split; [reflexivity | exact P]).
Qed.

Theorem election_progress_master : forall n orc now,
  own_wf n -> fsm_state n = ELECTION -> local_running n = true -> quiet n -> no_strategy (n_opts n) = true ->
  stable_after n = true -> check_master n = Ok true -> is_master n = true ->
  exists n' o, fsm_next n orc now = Ok (n', o, Some DISTRIBUTION) /\ presf n n'.
Proof.
  intros n orc now Hwf Hst Hlr Hq Hns Hsa Hcm Him.
  assert (H : res_ok (fun n' d => d = Some DISTRIBUTION /\ presf n n') (fsm_next n orc now)).
  { apply election_decides_distribution; auto. constructor; auto. rewrite Him. reflexivity. }
  apply res_ok_ex in H. destruct H as [n' [o [d [E [Hd P]]]]]. subst d. eauto.
Qed.

(* --- DISTRIBUTION / OPERATION / CONCILIATION --- *)
Lemma working_core : forall n b,
  ready n -> follows_master (fsm_state n) = true -> check_master n = Ok b ->
  exists n2 n3 o3, evaluate_stability n = Ok n2 /\
    ms_consistence n2 [] = Ok (n3, o3, if b then None else Some ELECTION) /\ presf n n3.
Proof.
  intros n b Hr Hfm Hcm.
  destruct (check_master_rv n b Hcm) as [rv Hrv]. destruct (running_views_es n rv Hrv) as [n2 Hes].
  destruct (es_presf n n2 (r_wf _ Hr) Hes) as [P2 _].
  pose proof (ready_pres _ _ (proj1 P2) Hr) as Hr2.
  assert (Hcm2 : check_master n2 = Ok b) by (rewrite (p_cm _ _ (proj1 P2)); auto).
  destruct (ms_consistence_pass n2 [] b Hr2 Hcm2) as [n3 [o3 [E P3]]].
  exists n2, n3, o3. split; auto. split; auto. eapply presf_trans; eauto.
Qed.

Lemma slave_follows_res : forall n orc now,
  ready n -> follows_master (fsm_state n) = true -> check_master n = Ok true -> is_master n = false ->
  res_ok (fun n' d => d = master_state n /\ presf n n') (fsm_next n orc now).
Proof.
  intros n orc now Hr Hfm Hcm Him.
  destruct (working_core n true Hr Hfm Hcm) as [n2 [n3 [o3 [Hes [E P]]]]].
  pose proof P as [Pp [Pf Pm]].
  unfold fsm_next. rewrite (check_instances_quiet n now (r_q _ Hr)). bi. rewrite Hes.
  destruct (fsm_state n) eqn:Hst; try discriminate; bi; rewrite E; bi;
    rewrite (is_master_pres _ _ Pp), Him; simpl; auto.
Qed.

Theorem slave_follows_master_state : forall n orc now,
  own_wf n -> follows_master (fsm_state n) = true -> local_running n = true -> quiet n ->
  no_strategy (n_opts n) = true -> check_master n = Ok true -> is_master n = false ->
  exists n' o, fsm_next n orc now = Ok (n', o, master_state n) /\ presf n n'.
Proof.
  intros n orc now Hwf Hfm Hlr Hq Hns Hcm Him.
  assert (H : res_ok (fun n' d => d = master_state n /\ presf n n') (fsm_next n orc now)).
  { apply slave_follows_res; auto. constructor; auto. }
  apply res_ok_ex in H. destruct H as [n' [o [d [E [Hd P]]]]]. subst d. eauto.
Qed.

Theorem distribution_progress_master : forall n orc now,
  own_wf n -> fsm_state n = DISTRIBUTION -> local_running n = true -> quiet n ->
  no_strategy (n_opts n) = true -> check_master n = Ok true -> is_master n = true -> or_starting orc = false ->
  exists n' o, fsm_next n orc now = Ok (n', o, Some OPERATION) /\ presf n n'.
Proof.
  intros n orc now Hwf Hst Hlr Hq Hns Hcm Him Hos.
  assert (Hr : ready n) by (constructor; auto).
  assert (Hfm : follows_master (fsm_state n) = true) by (rewrite Hst; reflexivity).
  destruct (working_core n true Hr Hfm Hcm) as [n2 [n3 [o3 [Hes [E P]]]]].
  pose proof P as [Pp [Pf Pm]].
  exists n3. eexists. split; [|exact P].
  unfold fsm_next. rewrite (check_instances_quiet n now Hq). bi. rewrite Hes, Hst. bi. rewrite E. bi.
  rewrite (is_master_pres _ _ Pp), Him, Hos. reflexivity.
Qed.

(* the consistency check fails (no Master, or several declared): every Master-driven state decides ELECTION *)
Lemma working_no_master_election : forall n orc now,
  ready n -> follows_master (fsm_state n) = true -> check_master n = Ok false ->
  res_ok (fun n' d => d = Some ELECTION /\ presf n n') (fsm_next n orc now).
Proof.
  intros n orc now Hr Hfm Hcm.
  destruct (working_core n false Hr Hfm Hcm) as [n2 [n3 [o3 [Hes [E P]]]]].
  unfold fsm_next. rewrite (check_instances_quiet n now (r_q _ Hr)). bi. rewrite Hes.
  destruct (fsm_state n) eqn:Hst; try discriminate; bi; rewrite E; simpl; auto.
Qed.

(* --- FiniteStateMachine.set_state : one accepted transition --- *)
Lemma set_state_same : forall fuel n d orcs now acc,
  fsm_state n = d -> set_state fuel n (Some d) orcs now acc = Ok (n, acc).
Proof.
  intros fuel n d orcs now acc H. subst d. destruct fuel; cbn [set_state]; rewrite sstate_eqb_refl; reflexivity.
Qed.

Lemma set_state_step : forall fuel n d orcs now acc,
  d <> fsm_state n -> refused (fsm_state n) d = false ->
  set_state (S fuel) n (Some d) orcs now acc =
    match fsm_next (fst (enter_state (fst (set_fsm n d)) d now)) (fst (next_orcs orcs)) now with
    | Crash k => Crash k
    | Ok (n3, o3, d') =>
        set_state fuel n3 d' (snd (next_orcs orcs)) now
                  (acc ++ exit_outputs (fsm_state n) ++ snd (set_fsm n d)
                       ++ snd (enter_state (fst (set_fsm n d)) d now) ++ o3)
    end.
Proof.
  intros fuel n d orcs now acc Hne Hr. cbn [set_state].
  rewrite (sstate_eqb_neq _ _ Hne). unfold refused in Hr. rewrite sstate_eqb_sym, (sstate_eqb_neq _ _ Hne) in Hr.
  simpl in Hr. apply negb_false_iff in Hr. rewrite Hr. simpl negb. bi.
  destruct (set_fsm n d) as [n1 o1]. simpl fst. simpl snd.
  destruct (enter_state n1 d now) as [n2 o2]. destruct (next_orcs orcs) as [orc rest]. reflexivity.
Qed.

Lemma enter_state_fst : forall n st now, st <> OFF -> fst (enter_state n st now) = n.
Proof. intros n st now H. destruct st; try reflexivity. congruence. Qed.

(* --- 3a: Master lost while in CONCILIATION (fixed: the table now has CONCILIATION -> ELECTION) --- *)
Lemma election_no_master_stays : forall n orc now n' o d,
  ready n -> fsm_state n = ELECTION -> check_master n = Ok false ->
  fsm_next n orc now = Ok (n', o, d) -> d = Some ELECTION /\ fsm_state n' = ELECTION.
Proof.
  intros n orc now n' o d Hr Hst Hcm H.
  destruct (check_master_rv n false Hcm) as [rv Hrv]. destruct (running_views_es n rv Hrv) as [n2 Hes].
  destruct (es_presf n n2 (r_wf _ Hr) Hes) as [P2 _].
  pose proof (ready_pres _ _ (proj1 P2) Hr) as Hr2.
  destruct (sync_consistence_pass n2 [] Hr2) as [n3 [o3 [E [P3 S3]]]].
  pose proof (presf_trans _ _ _ P2 P3) as [Pp [Pf Pm]].
  unfold fsm_next in H. rewrite (check_instances_quiet n now (r_q _ Hr)) in H. cbv beta iota zeta in H.
  rewrite Hes, Hst in H. cbv beta iota zeta in H. rewrite E in H. cbv beta iota zeta in H. rewrite (p_cm _ _ Pp), Hcm in H.
  unfold bind in H. destruct (is_stable n3).
  - destruct (select_master n3) as [[n4 o4]|] eqn:Esm; try discriminate.
    inversion H; subst. split; auto. simpl. rewrite (select_master_fsm _ _ _ Esm). congruence.
  - inversion H; subst. split; auto. congruence.
Qed.

Theorem conciliation_master_lost_not_parked : forall n orcs now,
  own_wf n -> fsm_state n = CONCILIATION -> local_running n = true -> quiet n ->
  no_strategy (n_opts n) = true -> check_master n = Ok false ->
  (exists n1 o1, fsm_next n (fst (next_orcs orcs)) now = Ok (n1, o1, Some ELECTION) /\ presf n n1)
  /\ refused CONCILIATION ELECTION = false
  /\ (forall n' outs, fsm_run n orcs now = Ok (n', outs) -> fsm_state n' = ELECTION).
Proof.
  intros n orcs now Hwf Hst Hlr Hq Hns Hcm.
  assert (Hr : ready n) by (constructor; auto).
  assert (Hfm : follows_master (fsm_state n) = true) by (rewrite Hst; reflexivity).
  assert (Href : refused CONCILIATION ELECTION = false) by (vm_compute; reflexivity).
  pose proof (working_no_master_election n (fst (next_orcs orcs)) now Hr Hfm Hcm) as H.
  apply res_ok_ex in H. destruct H as [n1 [o1 [d [E [Hd P]]]]]. subst d.
  split; [eauto|]. split; [exact Href|].
  intros n' outs Hrun. unfold fsm_run in Hrun. destruct (next_orcs orcs) as [orc rest]. simpl in E.
  rewrite E in Hrun. destruct P as [Pp [Pf Pm]].
  change loop_fuel with (S 39) in Hrun.
  rewrite set_state_step in Hrun; [| rewrite Pf, Hst; discriminate | rewrite Pf, Hst; exact Href].
  rewrite enter_state_fst in Hrun by discriminate.
  destruct (set_fsm_pres n1 ELECTION (p_wf _ _ Pp)) as [P1 [F1 _]].
  set (n2 := fst (set_fsm n1 ELECTION)) in *.
  pose proof (ready_pres _ _ (pres_trans _ _ _ Pp P1) Hr) as Hr2.
  assert (Hcm2 : check_master n2 = Ok false) by (rewrite (p_cm _ _ P1), (p_cm _ _ Pp); auto).
  destruct (fsm_next n2 (fst (next_orcs rest)) now) as [[[n3 o3] d3]|] eqn:E2; try discriminate.
  destruct (election_no_master_stays _ _ _ _ _ _ Hr2 F1 Hcm2 E2) as [Hd3 F3]. subst d3.
  rewrite set_state_same in Hrun by auto. inversion Hrun; subst. auto.
Qed.

(* --- 3b: non-Master instance in ELECTION whose Master is already beyond DISTRIBUTION (fixed) --- *)
Record slave_inv (n : node) : Prop := mkSlaveInv {
  si_ready : ready n; si_cm : check_master n = Ok true; si_im : is_master n = false;
  si_mb : master_beyond n = true }.

Lemma slave_inv_pres : forall n n', pres n n' -> master_state n' = master_state n -> slave_inv n -> slave_inv n'.
Proof.
  intros n n' P Pm [Hr Hcm Him Hmb]. constructor.
  - eapply ready_pres; eauto.
  - rewrite (p_cm _ _ P). auto.
  - rewrite (is_master_pres _ _ P). auto.
  - unfold master_beyond. rewrite Pm. exact Hmb.
Qed.

(* once consistent with a Master that is in DISTRIBUTION or beyond, a non-Master instance that is told to enter a
   Master-driven state ends the loop in a Master-driven state (or did not move because the request was void) *)
Lemma slave_loop : forall fuel n d orcs now acc n' outs,
  slave_inv n -> follows_master d = true ->
  set_state fuel n (Some d) orcs now acc = Ok (n', outs) ->
  (n' = n /\ (d = fsm_state n \/ refused (fsm_state n) d = true)) \/ follows_master (fsm_state n') = true.
Proof.
  induction fuel as [|fuel IH]; intros n d orcs now acc n' outs Hinv Hd H.
  - cbn [set_state] in H. destruct (sstate_eqb d (fsm_state n)) eqn:E1.
    + apply sstate_eqb_eq in E1. inversion H; subst. left; auto.
    + destruct (negb (fsm_transition_ok (fsm_state n) d)) eqn:E2; [|discriminate].
      inversion H; subst. left. split; auto. right. unfold refused. rewrite sstate_eqb_sym, E1, E2. reflexivity.
  - destruct (sstate_eqb d (fsm_state n)) eqn:E1.
    { apply sstate_eqb_eq in E1. rewrite set_state_same in H by auto. inversion H; subst. left; auto. }
    destruct (refused (fsm_state n) d) eqn:E2.
    { rewrite refused_keeps_state in H by auto. inversion H; subst. left; auto. }
    right.
    assert (Hne : d <> fsm_state n). { intros C. subst d. rewrite sstate_eqb_refl in E1. discriminate. }
    rewrite set_state_step in H by auto.
    rewrite enter_state_fst in H by (destruct d; discriminate).
    destruct Hinv as [Hr Hcm Him Hmb].
    destruct (set_fsm_pres n d (r_wf _ Hr)) as [P1 [F1 M1]]. specialize (M1 Him).
    set (n1 := fst (set_fsm n d)) in *.
    assert (Hinv1 : slave_inv n1) by (apply (slave_inv_pres n n1 P1 M1); constructor; auto).
    assert (Hfm1 : follows_master (fsm_state n1) = true) by (rewrite F1; auto).
    pose proof (slave_follows_res n1 (fst (next_orcs orcs)) now (si_ready _ Hinv1) Hfm1 (si_cm _ Hinv1) (si_im _ Hinv1)) as Hn.
    apply res_ok_ex in Hn. destruct Hn as [n3 [o3 [d3 [E3 [Hd3 [P3 [F3 M3]]]]]]].
    rewrite E3 in H.
    assert (Hinv3 : slave_inv n3) by (apply (slave_inv_pres n1 n3 P3 M3); auto).
    pose proof (si_mb _ Hinv1) as Hmb1. unfold master_beyond in Hmb1. rewrite <- Hd3 in Hmb1.
    destruct d3 as [d3|]; [|discriminate].
    assert (Hd3f : follows_master d3 = true) by (destruct d3; try discriminate; reflexivity).
    destruct (IH _ _ _ _ _ _ _ Hinv3 Hd3f H) as [[En _]|Hf]; auto.
    subst n'. rewrite F3, F1. auto.
Qed.

Theorem election_slave_not_parked : forall n orcs now,
  own_wf n -> fsm_state n = ELECTION -> local_running n = true -> quiet n -> no_strategy (n_opts n) = true ->
  stable_after n = true -> check_master n = Ok true -> is_master n = false -> master_beyond n = true ->
  (exists n1 o1, fsm_next n (fst (next_orcs orcs)) now = Ok (n1, o1, Some DISTRIBUTION) /\ presf n n1)
  /\ refused ELECTION DISTRIBUTION = false
  /\ (forall n' outs, fsm_run n orcs now = Ok (n', outs) ->
        In (fsm_state n') [DISTRIBUTION; OPERATION; CONCILIATION]).
Proof.
  intros n orcs now Hwf Hst Hlr Hq Hns Hsa Hcm Him Hmb.
  assert (Hr : ready n) by (constructor; auto).
  assert (Href : refused ELECTION DISTRIBUTION = false) by (vm_compute; reflexivity).
  assert (H : res_ok (fun n' d => d = Some DISTRIBUTION /\ presf n n') (fsm_next n (fst (next_orcs orcs)) now)).
  { apply election_decides_distribution; auto. rewrite Hmb. apply orb_true_r. }
  apply res_ok_ex in H. destruct H as [n1 [o1 [d [E [Hd P]]]]]. subst d.
  split; [eauto|]. split; [exact Href|].
  intros n' outs Hrun. unfold fsm_run in Hrun. destruct (next_orcs orcs) as [orc rest]. simpl in E.
  rewrite E in Hrun. destruct P as [Pp [Pf Pm]].
  assert (Hinv1 : slave_inv n1) by (apply (slave_inv_pres n n1 Pp Pm); constructor; auto).
  destruct (slave_loop loop_fuel n1 DISTRIBUTION rest now o1 n' outs Hinv1 eq_refl Hrun) as [[_ [C|C]]|Hf].
  - rewrite Pf, Hst in C. discriminate.
  - rewrite Pf, Hst, Href in C. discriminate.
  - destruct (fsm_state n'); try discriminate; simpl; auto.
Qed.

(* 3b, total form: under the same hypotheses FiniteStateMachine.next SUCCEEDS (no exception, no unbounded loop:
   at most two transitions follow the first one) *)
Lemma slave_step : forall fuel n d orcs now acc,
  slave_inv n -> follows_master d = true -> d <> fsm_state n -> refused (fsm_state n) d = false ->
  exists n3 X acc',
    set_state (S fuel) n (Some d) orcs now acc = set_state fuel n3 (Some X) (snd (next_orcs orcs)) now acc'
    /\ slave_inv n3 /\ fsm_state n3 = d /\ master_state n3 = Some X /\ master_state n = Some X.
Proof.
  intros fuel n d orcs now acc Hinv Hd Hne Href.
  rewrite set_state_step by auto. rewrite enter_state_fst by (destruct d; discriminate).
  pose proof Hinv as [Hr Hcm Him Hmb].
  destruct (set_fsm_pres n d (r_wf _ Hr)) as [P1 [F1 M1]]. specialize (M1 Him).
  set (n1 := fst (set_fsm n d)) in *.
  assert (Hinv1 : slave_inv n1) by (apply (slave_inv_pres n n1 P1 M1); auto).
  assert (Hfm1 : follows_master (fsm_state n1) = true) by (rewrite F1; auto).
  pose proof (slave_follows_res n1 (fst (next_orcs orcs)) now (si_ready _ Hinv1) Hfm1 (si_cm _ Hinv1)
                                (si_im _ Hinv1)) as Hn.
  apply res_ok_ex in Hn. destruct Hn as [n3 [o3 [d3 [E3 [Hd3 [P3 [F3 M3]]]]]]].
  rewrite E3.
  assert (Hinv3 : slave_inv n3) by (apply (slave_inv_pres n1 n3 P3 M3); auto).
  pose proof (si_mb _ Hinv1) as Hmb1. unfold master_beyond in Hmb1. rewrite <- Hd3 in Hmb1.
  destruct d3 as [X|]; [|discriminate].
  exists n3, X. eexists. split; [reflexivity|]. split; auto. split; [congruence|]. split; congruence.
Qed.

Lemma slave_one : forall fuel n d orcs now acc,
  slave_inv n -> follows_master d = true -> master_state n = Some d ->
  exists n' outs, set_state (S fuel) n (Some d) orcs now acc = Ok (n', outs).
Proof.
  intros fuel n d orcs now acc Hinv Hd Hms.
  destruct (sstate_eqb d (fsm_state n)) eqn:E1.
  { apply sstate_eqb_eq in E1. rewrite set_state_same by auto. eauto. }
  destruct (refused (fsm_state n) d) eqn:E2.
  { rewrite refused_keeps_state by auto. eauto. }
  assert (Hne : d <> fsm_state n). { intros C. subst d. rewrite sstate_eqb_refl in E1. discriminate. }
  destruct (slave_step fuel n d orcs now acc Hinv Hd Hne E2) as [n3 [X [acc' [E [Hinv3 [F3 [M3 M0]]]]]]].
  rewrite E. assert (X = d) by congruence. subst X. rewrite set_state_same by auto. eauto.
Qed.

Lemma slave_two : forall fuel n d orcs now acc,
  slave_inv n -> follows_master d = true ->
  exists n' outs, set_state (S (S fuel)) n (Some d) orcs now acc = Ok (n', outs).
Proof.
  intros fuel n d orcs now acc Hinv Hd.
  destruct (sstate_eqb d (fsm_state n)) eqn:E1.
  { apply sstate_eqb_eq in E1. rewrite set_state_same by auto. eauto. }
  destruct (refused (fsm_state n) d) eqn:E2.
  { rewrite refused_keeps_state by auto. eauto. }
  assert (Hne : d <> fsm_state n). { intros C. subst d. rewrite sstate_eqb_refl in E1. discriminate. }
  destruct (slave_step (S fuel) n d orcs now acc Hinv Hd Hne E2) as [n3 [X [acc' [E [Hinv3 [F3 [M3 M0]]]]]]].
  rewrite E. apply slave_one; auto.
  pose proof (si_mb _ Hinv3) as Hmb. unfold master_beyond in Hmb. rewrite M3 in Hmb.
  destruct X; try discriminate; reflexivity.
Qed.

Theorem election_slave_total : forall n orcs now,
  own_wf n -> fsm_state n = ELECTION -> local_running n = true -> quiet n -> no_strategy (n_opts n) = true ->
  stable_after n = true -> check_master n = Ok true -> is_master n = false -> master_beyond n = true ->
  exists n' outs, fsm_run n orcs now = Ok (n', outs) /\ In (fsm_state n') [DISTRIBUTION; OPERATION; CONCILIATION].
Proof.
  intros n orcs now Hwf Hst Hlr Hq Hns Hsa Hcm Him Hmb.
  destruct (election_slave_not_parked n orcs now Hwf Hst Hlr Hq Hns Hsa Hcm Him Hmb) as [[n1 [o1 [E P]]] [_ Hfin]].
  assert (Hrun : exists n' outs, fsm_run n orcs now = Ok (n', outs)).
  { unfold fsm_run. destruct (next_orcs orcs) as [orc rest]. simpl in E. rewrite E.
    destruct P as [Pp [Pf Pm]].
    assert (Hinv1 : slave_inv n1).
    { apply (slave_inv_pres n n1 Pp Pm). constructor; auto. constructor; auto. }
    change loop_fuel with (S (S 38)). apply slave_two; auto. }
  destruct Hrun as [n' [outs Hrun]]. exists n', outs. split; auto. eapply Hfin; eauto.
Qed.

(* ================================================================================================ *)
(* E. Examples: the hypotheses of each theorem hold on a concrete node (built like drv_node.emit_node:  *)
(*    instance 1 is the local one, three instances RUNNING), and what the real loop does on it          *)
(* ================================================================================================ *)
Definition px_opts : options := mkOpts 2 false false false true false false 20 FS_CONTINUE.
Definition px_ist : alist ist := [(1, mkIst IRUNNING 5 5 0); (2, mkIst IRUNNING 5 5 0); (3, mkIst IRUNNING 5 5 0)].
Definition px_insts : alist istate := [(1, IRUNNING); (2, IRUNNING); (3, IRUNNING)].
Definition px_sm (s : sstate) (m : Z) : smodes := mkSm s false m px_insts.
Definition px_node (s : sstate) (m : Z) (v2 v3 : smodes) : node :=
  mkNode 1 px_opts [] [] [(1, 1); (2, 2); (3, 3)] px_ist [(1, px_sm s m); (2, v2); (3, v3)] [] false 0 [].
Definition px_orc : oracle := mkOr false false false 0.
Definition final_state (r : result (node * list output)) : option (sstate * Z) :=
  match r with Ok (n', _) => Some (fsm_state n', master n') | Crash _ => None end.

Ltac ex_hyps := repeat split; try reflexivity;
  try (apply own_wf_b_sound; vm_compute; reflexivity);
  try (apply quiet_b_sound; vm_compute; reflexivity);
  try (apply views_keyed_b_sound; vm_compute; reflexivity).

(* 3a: instance 1 in CONCILIATION, its Master was lost (master = ''), instance 2 already back in ELECTION *)
Definition ex3a : node := px_node CONCILIATION 0 (px_sm ELECTION 0) (px_sm CONCILIATION 0).
Example conciliation_master_lost_hyps :
  own_wf ex3a /\ fsm_state ex3a = CONCILIATION /\ local_running ex3a = true /\ quiet ex3a /\
  no_strategy (n_opts ex3a) = true /\ check_master ex3a = Ok false /\
  final_state (fsm_run ex3a [px_orc] 100) = Some (ELECTION, 1).
Proof. ex_hyps. Qed.

(* 3b: instance 1 in ELECTION, its Master 2 and instance 3 are already in OPERATION *)
Definition ex3b : node := px_node ELECTION 2 (px_sm OPERATION 2) (px_sm OPERATION 2).
Example election_slave_hyps :
  own_wf ex3b /\ fsm_state ex3b = ELECTION /\ local_running ex3b = true /\ quiet ex3b /\
  no_strategy (n_opts ex3b) = true /\ stable_after ex3b = true /\ check_master ex3b = Ok true /\
  is_master ex3b = false /\ master_state ex3b = Some OPERATION /\ master_beyond ex3b = true /\
  final_state (fsm_run ex3b [px_orc] 100) = Some (OPERATION, 2).
Proof. ex_hyps. Qed.

Definition ex_off : node := px_node OFF 0 sm_fresh sm_fresh.
Example off_progress_hyps :
  fsm_state ex_off = OFF /\ local_running ex_off = true /\ quiet ex_off /\ views_keyed ex_off /\
  final_state (fsm_run ex_off [px_orc] 10) = Some (SYNCHRONIZATION, 0).
Proof. ex_hyps. Qed.

Definition ex_sync : node := px_node SYNCHRONIZATION 0 (px_sm SYNCHRONIZATION 0) sm_fresh.
Example sync_progress_timeout_hyps :
  fsm_state ex_sync = SYNCHRONIZATION /\ local_running ex_sync = true /\ quiet ex_sync /\ views_keyed ex_sync /\
  o_timeout (n_opts ex_sync) = true /\ 100 - n_start_date ex_sync >= o_synchro_timeout (n_opts ex_sync) /\
  final_state (fsm_run ex_sync [px_orc] 100) = Some (ELECTION, 0).
Proof. ex_hyps. simpl. lia. Qed.

Definition ex_elm : node := px_node ELECTION 1 (px_sm ELECTION 1) (px_sm ELECTION 1).
Example election_progress_master_hyps :
  own_wf ex_elm /\ fsm_state ex_elm = ELECTION /\ local_running ex_elm = true /\ quiet ex_elm /\
  no_strategy (n_opts ex_elm) = true /\ stable_after ex_elm = true /\ check_master ex_elm = Ok true /\
  is_master ex_elm = true /\
  final_state (fsm_run ex_elm [px_orc] 100) = Some (OPERATION, 1).
Proof. ex_hyps. Qed.

Definition ex_dim : node := px_node DISTRIBUTION 1 (px_sm DISTRIBUTION 1) (px_sm ELECTION 1).
Example distribution_progress_master_hyps :
  own_wf ex_dim /\ fsm_state ex_dim = DISTRIBUTION /\ local_running ex_dim = true /\ quiet ex_dim /\
  no_strategy (n_opts ex_dim) = true /\ check_master ex_dim = Ok true /\ is_master ex_dim = true /\
  or_starting px_orc = false /\
  final_state (fsm_run ex_dim [px_orc] 100) = Some (OPERATION, 1).
Proof. ex_hyps. Qed.

Definition ex_slv : node := px_node OPERATION 2 (px_sm CONCILIATION 2) (px_sm OPERATION 2).
Example slave_follows_master_state_hyps :
  own_wf ex_slv /\ follows_master (fsm_state ex_slv) = true /\ local_running ex_slv = true /\ quiet ex_slv /\
  no_strategy (n_opts ex_slv) = true /\ check_master ex_slv = Ok true /\ is_master ex_slv = false /\
  master_state ex_slv = Some CONCILIATION /\
  final_state (fsm_run ex_slv [px_orc] 100) = Some (CONCILIATION, 2).
Proof. ex_hyps. Qed.

(* ================================================================================================ *)
(* F. Termination of FiniteStateMachine.set_state: the statement: options consistent with              *)
(*    SupvisorsOptions.check_options (TIMEOUT -> CONTINUE) => the loop terminates, is REFUTED.          *)
(*    synchro_options = [STRICT; CORE], supvisors_failure_strategy = RESYNC, all the declared          *)
(*    (initial) instances RUNNING and stable, the core instances not all RUNNING (here: no known core   *)
(*    instance at all, mapper.core_identifiers filtered to []): SYNCHRONIZATION decides ELECTION         *)
(*    (STRICT satisfied), ELECTION decides SYNCHRONIZATION (core failure + RESYNC), for ever.           *)
(*    Replayed on the real classes: /tmp/replay/livelock2.py (RecursionError after 40 re-evaluations).  *)
(* ================================================================================================ *)
Definition lv_opts : options := mkOpts 2 false true false false true false 20 FS_RESYNC.
Definition lv_own (s : sstate) : smodes := mkSm s false 0 [(1, IRUNNING); (2, IRUNNING); (3, ISTOPPED)].
Definition lv_node (core : list Z) : node :=
  mkNode 1 lv_opts core [1; 2] [(1, 1); (2, 2); (3, 3)]
         [(1, mkIst IRUNNING 5 5 0); (2, mkIst IRUNNING 5 5 0); (3, mkIst ISTOPPED 0 0 0)]
         [(1, lv_own SYNCHRONIZATION); (2, lv_own SYNCHRONIZATION); (3, sm_fresh)] [] false 0 [].

Theorem set_state_terminates_refuted :
  exists n orcs now,
    (o_timeout (n_opts n) = true -> o_fstrategy (n_opts n) = FS_CONTINUE) /\
    own_wf n /\ views_keyed n /\ quiet n /\ local_running n = true /\
    (forall a b, In a orcs -> In b orcs -> a = b) /\
    fsm_run n orcs now = Crash OutOfFuel.
Proof.
  exists (lv_node []), [px_orc], 100. split; [discriminate|].
  split; [apply own_wf_b_sound; reflexivity|]. split; [apply views_keyed_b_sound; reflexivity|].
  split; [apply quiet_b_sound; reflexivity|]. split; [reflexivity|]. split.
  - intros a b [Ha|[]] [Hb|[]]. congruence.
  - vm_compute. reflexivity.
Qed.

(* same with a known, declared-elsewhere core instance (3) that is not RUNNING (discovery mode) *)
Example set_state_livelock_core_known : fsm_run (lv_node [3]) [px_orc] 100 = Crash OutOfFuel.
Proof. vm_compute. reflexivity. Qed.

(* it is a genuine cycle, not a long run: whatever the fuel, the loop started in the state reached after the first
   evaluation never ends *)
Definition lv_S : node :=
  match fsm_next (lv_node []) px_orc 100 with Ok (n1, _, _) => n1 | Crash _ => lv_node [] end.
Definition lv_step (n : node) (d : sstate) : eval :=
  fsm_next (fst (enter_state (fst (set_fsm n d)) d 100)) (fst (next_orcs [px_orc])) 100.
Definition lv_E : node :=
  match lv_step lv_S ELECTION with Ok (n1, _, _) => n1 | Crash _ => lv_S end.

Lemma lv_first : exists o, fsm_next (lv_node []) px_orc 100 = Ok (lv_S, o, Some ELECTION).
Proof. eexists. vm_compute. reflexivity. Qed.
Lemma lv_step1 : exists o, lv_step lv_S ELECTION = Ok (lv_E, o, Some SYNCHRONIZATION).
Proof. eexists. vm_compute. reflexivity. Qed.
Lemma lv_step2 : exists o, lv_step lv_E SYNCHRONIZATION = Ok (lv_S, o, Some ELECTION).
Proof. eexists. vm_compute. reflexivity. Qed.

Theorem set_state_livelock : forall fuel acc,
  set_state fuel lv_S (Some ELECTION) [px_orc] 100 acc = Crash OutOfFuel.
Proof.
  assert (HS : fsm_state lv_S = SYNCHRONIZATION) by (vm_compute; reflexivity).
  assert (HE : fsm_state lv_E = ELECTION) by (vm_compute; reflexivity).
  assert (R1 : refused SYNCHRONIZATION ELECTION = false) by (vm_compute; reflexivity).
  assert (R2 : refused ELECTION SYNCHRONIZATION = false) by (vm_compute; reflexivity).
  destruct lv_step1 as [o1 E1]. destruct lv_step2 as [o2 E2]. unfold lv_step in E1, E2.
  assert (B0 : forall acc, set_state 0 lv_S (Some ELECTION) [px_orc] 100 acc = Crash OutOfFuel).
  { intros acc. cbn [set_state]. rewrite HS. vm_compute. reflexivity. }
  assert (B0E : forall acc, set_state 0 lv_E (Some SYNCHRONIZATION) [px_orc] 100 acc = Crash OutOfFuel).
  { intros acc. cbn [set_state]. rewrite HE. vm_compute. reflexivity. }
  assert (H : forall k acc, set_state k lv_S (Some ELECTION) [px_orc] 100 acc = Crash OutOfFuel
                            /\ set_state (S k) lv_S (Some ELECTION) [px_orc] 100 acc = Crash OutOfFuel).
  { induction k as [|k IH]; intros acc.
    - split; [apply B0|].
      rewrite set_state_step; [| rewrite HS; discriminate | rewrite HS; exact R1]. rewrite E1. apply B0E.
    - split; [apply IH|].
      rewrite set_state_step; [| rewrite HS; discriminate | rewrite HS; exact R1]. rewrite E1.
      rewrite set_state_step; [| rewrite HE; discriminate | rewrite HE; exact R2].
      change (snd (next_orcs [px_orc])) with [px_orc]. rewrite E2.
      change (snd (next_orcs [px_orc])) with [px_orc]. apply IH. }
  intros fuel acc. apply H.
Qed.

(* ================================================================================================ *)
(* G. C13 at cluster level: reciprocity of isolation during the handshake                           *)
(* ================================================================================================ *)
Definition nack_events (j now : Z) : list event :=
  [Ident (Some (j, now)); Auth (ok_origin j) A_NOT_AUTHORIZED now now].

(* (1) the proxy of i asks j, which is up, reachable and regards i as ISOLATED: i's inbox receives exactly the
   identification and the NOT_AUTHORIZED notice; only the request is consumed *)
Theorem handshake_reports_isolation : forall c i j now cn cj rest,
  aget i (c_nodes c) = Some cn -> cn_up cn = true -> cn_pending cn = j :: rest ->
  not_isolated (cn_node cn) j = true ->
  aget j (c_nodes c) = Some cj -> cn_up cj = true ->
  is_cut c i j = false -> is_cut c j i = false ->
  inst_state (cn_node cj) i = Some ISOLATED ->
  cstep c (AHandshake i now)
  = Ok (set_node c i (mkCnode (cn_node cn) true (cn_cnt cn) (cn_inbox cn ++ nack_events j now) rest)).
Proof.
  intros c i j now cn cj rest Hi Hup Hp Hni Hj Hupj Hc1 Hc2 Hiso.
  unfold cstep. rewrite Hi, Hp, Hup. cbv zeta. rewrite Hni.
  unfold handshake_events. rewrite Hj, Hupj, Hc1, Hc2. cbv zeta. rewrite Hiso. reflexivity.
Qed.

(* (4) no proxy for an instance regarded ISOLATED (or unknown): the request is dropped, nothing is notified *)
Theorem isolated_never_handshaken : forall c i j now cn rest,
  aget i (c_nodes c) = Some cn -> cn_up cn = true -> cn_pending cn = j :: rest ->
  not_isolated (cn_node cn) j = false ->
  cstep c (AHandshake i now)
  = Ok (set_node c i (mkCnode (cn_node cn) true (cn_cnt cn) (cn_inbox cn) rest)).
Proof.
  intros c i j now cn rest Hi Hup Hp Hni.
  unfold cstep. rewrite Hi, Hp, Hup. cbv zeta. rewrite Hni. rewrite app_nil_r. reflexivity.
Qed.

Lemma isolated_is_not_not_isolated : forall n j, inst_state n j = Some ISOLATED -> not_isolated n j = false.
Proof. intros n j H. unfold not_isolated. rewrite H. reflexivity. Qed.

(* (2) node level: Context.on_authorization_event with NOT_AUTHORIZED = Context.invalidate with fence *)
Lemma set_master_insts : forall n m, n_insts (fst (set_master n m)) = n_insts n.
Proof. intros n m. unfold set_master. destruct (Z.eqb (master n) m); reflexivity. Qed.

Lemma update_instance_state_insts : forall n j st, n_insts (fst (update_instance_state n j st)) = n_insts n.
Proof.
  intros n j st. unfold update_instance_state. cbv zeta.
  match goal with |- context [if ?b then set_master ?x 0 else _] => destruct b end.
  - rewrite set_master_insts.
    destruct st; try reflexivity; destruct (Z.eqb j (n_me n)); try reflexivity;
      match goal with |- context [if ?b then _ else _] => destruct b end; reflexivity.
  - simpl.
    destruct st; try reflexivity; destruct (Z.eqb j (n_me n)); try reflexivity;
      match goal with |- context [if ?b then _ else _] => destruct b end; reflexivity.
Qed.

Lemma set_inst_state_from_checking : forall n j s st now,
  aget j (n_insts n) = Some s -> is_state s = CHECKING -> st = ISTOPPED \/ st = ISOLATED ->
  exists n' o, set_inst_state n j st now = Ok (n', o) /\ inst_state n' j = Some st.
Proof.
  intros n j s st now Hg Hs Hst. unfold set_inst_state. rewrite Hg, Hs.
  assert (Hne : istate_eqb CHECKING st = false) by (destruct Hst; subst st; reflexivity).
  assert (Hok : inst_transition_ok CHECKING st = true) by (destruct Hst; subst st; vm_compute; reflexivity).
  rewrite Hne, Hok. cbv zeta.
  match goal with |- context [update_instance_state ?a ?b ?c] =>
    pose proof (update_instance_state_insts a b c) as Hi; destruct (update_instance_state a b c) as [n' o] end.
  exists n', o. split; [reflexivity|]. simpl in Hi. unfold inst_state. rewrite Hi. simpl.
  rewrite aget_aset_eq. destruct Hst; subst st; reflexivity.
Qed.

Lemma auth_not_authorized_step : forall n j s ts now,
  aget j (n_insts n) = Some s -> is_state s = CHECKING -> is_checking_time s < ts ->
  exists n' o, step n (Auth (ok_origin j) A_NOT_AUTHORIZED ts now) = Ok (n', o)
               /\ inst_state n' j = Some (if Z.eqb j (n_me n) then ISTOPPED else ISOLATED).
Proof.
  intros n j s ts now Hg Hs Ht. unfold step, resolve, ok_origin. simpl og_resolved. simpl og_addr_ok.
  unfold inst_state at 1. rewrite Hg, Hs. cbv beta iota. rewrite Hg.
  assert (Hc : is_checking s ts = true).
  { unfold is_checking. rewrite Hs. simpl. apply Z.ltb_lt. auto. }
  rewrite Hc. unfold invalidate. destruct (Z.eqb j (n_me n)).
  - apply set_inst_state_from_checking with s; auto.
  - simpl orb. cbv iota. apply set_inst_state_from_checking with s; auto.
Qed.

(* the dispatch of outputs only touches channels *)
Lemma push_msg_nodes : forall c a b m, c_nodes (push_msg c a b m) = c_nodes c.
Proof. intros c a b m. unfold push_msg. destruct (is_cut c a b); reflexivity. Qed.

Lemma fold_push_nodes : forall (P : Z -> bool) i m l c,
  c_nodes (fold_left (fun c j => if P j then push_msg c i j m else c) l c) = c_nodes c.
Proof.
  intros P i m l. induction l as [|j r IH]; intros c; simpl; auto.
  rewrite IH. destruct (P j); [apply push_msg_nodes | reflexivity].
Qed.

Lemma dispatch_nodes : forall outs c i n pend, c_nodes (fst (dispatch c i n outs pend)) = c_nodes c.
Proof.
  induction outs as [|o r IH]; intros c i n pend; simpl; auto.
  destruct o; try apply IH. rewrite IH. apply fold_push_nodes.
Qed.

(* no link from i is cut: no send of i fails *)
Lemma flat_map_nil : forall (A B : Type) (f : A -> list B) l, (forall x, f x = []) -> flat_map f l = [].
Proof. intros A B f l H. induction l as [|x r IH]; simpl; auto. rewrite H, IH. reflexivity. Qed.
Lemma send_fail_nocut : forall c i n j, (forall k, is_cut c i k = false) -> send_fail c i n j = [].
Proof. intros c i n j H. unfold send_fail. rewrite H. reflexivity. Qed.
Lemma dispatch_fails_nocut : forall outs c i n, (forall k, is_cut c i k = false) -> dispatch_fails c i n outs = [].
Proof.
  induction outs as [|o r IH]; intros c i n H; simpl; auto.
  destruct o; auto. rewrite (IH c i n H), app_nil_r.
  apply flat_map_nil. intros x. apply send_fail_nocut; auto.
Qed.
Lemma is_cut_set_node : forall c i cn a b, is_cut (set_node c i cn) a b = is_cut c a b.
Proof. reflexivity. Qed.

Lemma aget_set_node_eq : forall c i cn, aget i (c_nodes (set_node c i cn)) = Some cn.
Proof. intros. unfold set_node. simpl. apply aget_aset_eq. Qed.
Lemma aget_set_node_neq : forall c i k cn, k <> i -> aget k (c_nodes (set_node c i cn)) = aget k (c_nodes c).
Proof. intros. unfold set_node. simpl. apply aget_aset_neq; auto. Qed.

(* (2) cluster level: node i processes the NOT_AUTHORIZED notice about j, which it holds in CHECKING since before
   the handshake time ts: j becomes ISOLATED at i (STOPPED if j is i itself); the other nodes are untouched *)
Theorem not_authorized_isolates : forall c i cn j s ts t0 rest now orcs,
  aget i (c_nodes c) = Some cn -> cn_up cn = true ->
  cn_inbox cn = Auth (ok_origin j) A_NOT_AUTHORIZED ts t0 :: rest ->
  aget j (n_insts (cn_node cn)) = Some s -> is_state s = CHECKING -> is_checking_time s < ts ->
  (forall k, is_cut c i k = false) ->
  exists c' cn', cstep c (ANotify i now orcs) = Ok c' /\ aget i (c_nodes c') = Some cn' /\
    inst_state (cn_node cn') j = Some (if Z.eqb j (n_me (cn_node cn)) then ISTOPPED else ISOLATED) /\
    cn_inbox cn' = rest /\ cn_up cn' = true /\
    (forall k, k <> i -> aget k (c_nodes c') = aget k (c_nodes c)).
Proof.
  intros c i cn j s ts t0 rest now orcs Hi Hup Hin Hg Hs Ht Hnc.
  destruct (auth_not_authorized_step (cn_node cn) j s ts now Hg Hs Ht) as [n' [o [E Hst]]].
  unfold cstep. rewrite Hi, Hin, Hup. cbv zeta. unfold apply_step. simpl cn_node. rewrite E.
  simpl cn_pending. simpl cn_up. simpl cn_cnt. simpl cn_inbox.
  pose proof (dispatch_nodes o c i n' (cn_pending cn)) as Hd.
  destruct (dispatch c i n' o (cn_pending cn)) as [c1 pend]. simpl in Hd.
  eexists. eexists. split; [reflexivity|]. split; [apply aget_set_node_eq|].
  split; [exact Hst|]. split; [simpl; rewrite (dispatch_fails_nocut o c i n' Hnc); apply app_nil_r|].
  split; [reflexivity|].
  intros k Hk. rewrite aget_set_node_neq by auto. rewrite Hd. reflexivity.
Qed.

Lemma notify_ident : forall c i cn p rest now orcs,
  aget i (c_nodes c) = Some cn -> cn_up cn = true -> cn_inbox cn = Ident p :: rest ->
  cstep c (ANotify i now orcs)
  = Ok (set_node c i (mkCnode (cn_node cn) true (cn_cnt cn) rest (cn_pending cn))).
Proof.
  intros c i cn p rest now orcs Hi Hup Hin. unfold cstep. rewrite Hi, Hin, Hup.
  unfold apply_step. simpl. rewrite app_nil_r. reflexivity.
Qed.

(* (3) the composition *)
Fixpoint crun_state (c : cluster) (acts : list action) : result cluster :=
  match acts with
  | [] => Ok c
  | a :: r => match cstep c a with Ok c' => crun_state c' r | Crash k => Crash k end
  end.

Theorem reciprocal_isolation : forall c i j now now1 now2 orcs1 orcs2 cn cj rest s,
  aget i (c_nodes c) = Some cn -> cn_up cn = true -> n_me (cn_node cn) = i ->
  cn_pending cn = j :: rest -> cn_inbox cn = [] ->
  aget j (n_insts (cn_node cn)) = Some s -> is_state s = CHECKING -> is_checking_time s < now ->
  aget j (c_nodes c) = Some cj -> cn_up cj = true ->
  (forall k, is_cut c i k = false) -> is_cut c j i = false ->
  inst_state (cn_node cj) i = Some ISOLATED ->
  exists c' cn',
    crun_state c [AHandshake i now; ANotify i now1 orcs1; ANotify i now2 orcs2] = Ok c' /\
    aget i (c_nodes c') = Some cn' /\ inst_state (cn_node cn') j = Some ISOLATED /\
    cn_inbox cn' = [] /\ cn_up cn' = true /\
    (forall k, k <> i -> aget k (c_nodes c') = aget k (c_nodes c)).
Proof.
  intros c i j now now1 now2 orcs1 orcs2 cn cj rest s Hi Hup Hme Hp Hin Hg Hs Ht Hj Hupj Hnc Hc2 Hiso.
  pose proof (Hnc j) as Hc1.
  assert (Hni : not_isolated (cn_node cn) j = true).
  { unfold not_isolated, inst_state. rewrite Hg, Hs. reflexivity. }
  assert (Hne : j <> i).
  { intros E. subst j. rewrite Hi in Hj. inversion Hj; subst cj.
    unfold inst_state in Hiso. rewrite Hg, Hs in Hiso. discriminate. }
  cbn [crun_state].
  rewrite (handshake_reports_isolation c i j now cn cj rest Hi Hup Hp Hni Hj Hupj Hc1 Hc2 Hiso).
  rewrite Hin. simpl app. unfold nack_events.
  set (cn1 := mkCnode (cn_node cn) true (cn_cnt cn) _ rest).
  set (c1 := set_node c i cn1).
  rewrite (notify_ident c1 i cn1 (Some (j, now)) [Auth (ok_origin j) A_NOT_AUTHORIZED now now] now1 orcs1
                        (aget_set_node_eq c i cn1) eq_refl eq_refl).
  simpl cn_node. simpl cn_cnt. simpl cn_pending.
  set (cn2 := mkCnode (cn_node cn) true (cn_cnt cn) _ rest).
  set (c2 := set_node c1 i cn2).
  destruct (not_authorized_isolates c2 i cn2 j s now now [] now2 orcs2 (aget_set_node_eq c1 i cn2) eq_refl eq_refl
                                    Hg Hs Ht Hnc) as [c' [cn' [E [Hi' [Hst [Hin' [Hup' Hoth]]]]]]].
  rewrite E. exists c', cn'. split; [reflexivity|]. split; auto. split.
  - rewrite Hst. simpl cn_node. rewrite Hme. destruct (Z.eqb_spec j i); [contradiction | reflexivity].
  - split; auto. split; auto. intros k Hk. rewrite (Hoth k Hk). unfold c2, c1.
    rewrite !aget_set_node_neq by auto. reflexivity.
Qed.

(* Examples: a 2-node cluster. Node 1 holds 2 in CHECKING (since t = 5) with a handshake request pending; node 2
   regards 1 as ISOLATED. *)
Definition hs_opts : options := mkOpts 2 false false false true false false 20 FS_CONTINUE.
Definition hs_node (me : Z) (s1 s2 : istate) : node :=
  mkNode me hs_opts [] [] [(1, 1); (2, 2)]
         [(1, mkIst s1 3 3 (if istate_eqb s1 CHECKING then 5 else 0));
          (2, mkIst s2 3 3 (if istate_eqb s2 CHECKING then 5 else 0))]
         [(1, if Z.eqb me 1 then mkSm SYNCHRONIZATION false 0 [(1, s1); (2, s2)] else sm_fresh);
          (2, if Z.eqb me 2 then mkSm OPERATION false 2 [(1, s1); (2, s2)] else sm_fresh)] [] false 0 [].
Definition hs_cluster (n1 : node) : cluster :=
  mkCluster [(1, mkCnode n1 true 4 [] [2]); (2, mkCnode (hs_node 2 ISOLATED IRUNNING) true 4 [] [])] [] [].
Definition hs_c1 : cluster := hs_cluster (hs_node 1 IRUNNING CHECKING).
Definition state_at (r : result cluster) (i j : Z) : option istate :=
  match r with
  | Ok c => match aget i (c_nodes c) with Some cn => inst_state (cn_node cn) j | None => None end
  | Crash _ => None
  end.
Definition inbox_at (r : result cluster) (i : Z) : option (list event) :=
  match r with
  | Ok c => match aget i (c_nodes c) with Some cn => Some (cn_inbox cn) | None => None end
  | Crash _ => None
  end.

Example reciprocal_isolation_hyps :
  exists cn cj s,
    aget 1 (c_nodes hs_c1) = Some cn /\ cn_up cn = true /\ n_me (cn_node cn) = 1 /\
    cn_pending cn = [2] /\ cn_inbox cn = [] /\
    aget 2 (n_insts (cn_node cn)) = Some s /\ is_state s = CHECKING /\ is_checking_time s < 10 /\
    not_isolated (cn_node cn) 2 = true /\
    aget 2 (c_nodes hs_c1) = Some cj /\ cn_up cj = true /\
    is_cut hs_c1 1 2 = false /\ is_cut hs_c1 2 1 = false /\
    inst_state (cn_node cj) 1 = Some ISOLATED /\
    inbox_at (cstep hs_c1 (AHandshake 1 10)) 1 = Some (nack_events 2 10) /\
    state_at (crun_state hs_c1 [AHandshake 1 10; ANotify 1 11 [px_orc]; ANotify 1 12 [px_orc]]) 1 2 = Some ISOLATED /\
    inbox_at (crun_state hs_c1 [AHandshake 1 10; ANotify 1 11 [px_orc]; ANotify 1 12 [px_orc]]) 1 = Some [].
Proof. do 3 eexists. repeat split; reflexivity. Qed.

(* once 1 regards 2 as ISOLATED a queued request for 2 is dropped silently *)
Definition hs_c2 : cluster := hs_cluster (hs_node 1 IRUNNING ISOLATED).
Example isolated_never_handshaken_hyps :
  exists cn, aget 1 (c_nodes hs_c2) = Some cn /\ cn_up cn = true /\ cn_pending cn = [2] /\
    not_isolated (cn_node cn) 2 = false /\
    inbox_at (cstep hs_c2 (AHandshake 1 10)) 1 = Some [] /\
    match cstep hs_c2 (AHandshake 1 10) with
    | Ok c => match aget 1 (c_nodes c) with Some cn' => cn_pending cn' | None => [0] end
    | Crash _ => [0]
    end = [].
Proof. eexists. repeat split; reflexivity. Qed.
