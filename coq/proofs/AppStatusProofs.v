(* AppStatusProofs.v — proofs about model/AppStatus.v (C15).
   Style: plain Ltac, named hypotheses. Lemmas about reflected tables are proved by computation over the
   generated definitions (destruct; vm_compute), so they are re-checked whenever coq/gen changes. *)
From Sup Require Import ProcStatus AppStatus GenProc GenEnums.
From Coq Require Import Lia.
Open Scope Z_scope.

(* ------------------------------------------------------------------ reflected tables mean what the text says *)
Lemma pcode_injective : forall a b, pcode a = pcode b -> a = b.
Proof. destruct a, b; vm_compute; intro H; try reflexivity; discriminate H. Qed.

Lemma acode_injective : forall a b, acode a = acode b -> a = b.
Proof. destruct a, b; vm_compute; intro H; try reflexivity; discriminate H. Qed.

Lemma proc_ok_spec : forall v, proc_ok v = spec_proc_ok v.
Proof.
  intros v. unfold proc_ok, spec_proc_ok.
  destruct (pv_displayed v); destruct (pv_expected_exit v); vm_compute; reflexivity.
Qed.

Lemma in_failure_spec : forall v, in_failure v = spec_failed v.
Proof.
  intros v. unfold in_failure, spec_failed.
  destruct (pv_displayed v); destruct (pv_expected_exit v); reflexivity.
Qed.

(* ------------------------------------------------------------------ small list facts *)
Lemma existsb_map_snd : forall {A B} (f : B -> bool) (l : list (A * B)),
  existsb f (map snd l) = existsb (fun kv => f (snd kv)) l.
Proof. intros A B f l. induction l as [|x r IH]; simpl; [reflexivity | rewrite IH; reflexivity]. Qed.

Lemma existsb_orb_split : forall {A} (f g : A -> bool) (l : list A),
  existsb (fun x => f x || g x) l = existsb f l || existsb g l.
Proof.
  intros A f g l. induction l as [|x r IH]; simpl; [reflexivity|].
  rewrite IH. destruct (f x), (g x), (existsb f r), (existsb g r); reflexivity.
Qed.

Lemma existsb_andb_const : forall {A} (f : A -> bool) (c : bool) (l : list A),
  existsb (fun x => f x && c) l = existsb f l && c.
Proof.
  intros A f c l. induction l as [|x r IH]; simpl; [reflexivity|].
  rewrite IH. destruct (f x), c, (existsb f r); reflexivity.
Qed.

Lemma existsb_ext_in : forall {A} (f g : A -> bool) (l : list A),
  (forall x, In x l -> f x = g x) -> existsb f l = existsb g l.
Proof.
  intros A f g l H. induction l as [|x r IH]; simpl; [reflexivity|].
  rewrite (H x (or_introl eq_refl)), IH; [reflexivity|].
  intros y Hy. apply H. right. exact Hy.
Qed.

Lemma zmem_In : forall k l, zmem k l = true <-> In k l.
Proof.
  intros k l. unfold zmem. rewrite existsb_exists. split.
  - intros [x [Hx He]]. apply Z.eqb_eq in He. subst x. exact Hx.
  - intros H. exists k. split; [exact H | apply Z.eqb_refl].
Qed.

(* ------------------------------------------------------------------ app_state_priority *)
Lemma state_flags_acc : forall ds a b c,
  fold_left (fun f d =>
    match f with (starting, running, stopping) =>
      if pstate_eqb d RUNNING then (starting, true, stopping)
      else if pstate_eqb d STARTING || pstate_eqb d BACKOFF then (true, running, stopping)
      else if pstate_eqb d STOPPING then (starting, running, true)
      else f
    end) ds (a, b, c)
  = (a || existsb (fun d => pstate_eqb d STARTING || pstate_eqb d BACKOFF) ds,
     b || existsb (pstate_eqb RUNNING) ds,
     c || existsb (pstate_eqb STOPPING) ds).
Proof.
  induction ds as [|d r IH]; intros a b c.
  - simpl. rewrite !orb_false_r. reflexivity.
  - destruct d; simpl; rewrite IH; destruct a, b, c; reflexivity.
Qed.

(* P0: for EVERY list of displayed states the code computes the priority rule of the property text *)
Theorem app_state_priority : forall ds, update_state ds = spec_app_state ds.
Proof.
  intros ds. unfold update_state, state_flags, spec_app_state.
  rewrite state_flags_acc. simpl.
  destruct (existsb (pstate_eqb STOPPING) ds); reflexivity.
Qed.

(* the four clauses, spelled out *)
Corollary app_state_clauses : forall ds,
  (In STOPPING ds -> update_state ds = ASTOPPING) /\
  (~ In STOPPING ds -> (In STARTING ds \/ In BACKOFF ds) -> update_state ds = ASTARTING) /\
  (~ In STOPPING ds -> ~ In STARTING ds -> ~ In BACKOFF ds -> In RUNNING ds -> update_state ds = ARUNNING) /\
  (~ In STOPPING ds -> ~ In STARTING ds -> ~ In BACKOFF ds -> ~ In RUNNING ds -> update_state ds = ASTOPPED).
Proof.
  intros ds. rewrite app_state_priority. unfold spec_app_state.
  assert (Hex : forall s, existsb (pstate_eqb s) ds = true <-> In s ds).
  { intros s. rewrite existsb_exists. split.
    - intros [x [Hx He]]. destruct s, x; try discriminate He; exact Hx.
    - intros H. exists s. split; [exact H | destruct s; reflexivity]. }
  assert (Hsb : existsb (fun d => pstate_eqb d STARTING || pstate_eqb d BACKOFF) ds = true
                <-> In STARTING ds \/ In BACKOFF ds).
  { rewrite existsb_exists. split.
    - intros [x [Hx He]]. destruct x; try discriminate He; [left | right]; exact Hx.
    - intros [H | H]; [exists STARTING | exists BACKOFF]; (split; [exact H | reflexivity]). }
  repeat split.
  - intros H. apply Hex in H. rewrite H. reflexivity.
  - intros Hn H. destruct (existsb (pstate_eqb STOPPING) ds) eqn:E1; [exfalso; apply Hn, Hex, E1|].
    apply Hsb in H. rewrite H. reflexivity.
  - intros Hn Hs Hb H. destruct (existsb (pstate_eqb STOPPING) ds) eqn:E1; [exfalso; apply Hn, Hex, E1|].
    destruct (existsb (fun d => pstate_eqb d STARTING || pstate_eqb d BACKOFF) ds) eqn:E2.
    + destruct (proj1 Hsb eq_refl) as [E2' | E2']; [exfalso; exact (Hs E2') | exfalso; exact (Hb E2')].
    + apply Hex in H. rewrite H. reflexivity.
  - intros Hn Hs Hb Hr. destruct (existsb (pstate_eqb STOPPING) ds) eqn:E1; [exfalso; apply Hn, Hex, E1|].
    destruct (existsb (fun d => pstate_eqb d STARTING || pstate_eqb d BACKOFF) ds) eqn:E2.
    + destruct (proj1 Hsb eq_refl) as [E2' | E2']; [exfalso; exact (Hs E2') | exfalso; exact (Hb E2')].
    + destruct (existsb (pstate_eqb RUNNING) ds) eqn:E3; [exfalso; apply Hr, Hex, E3 | reflexivity].
Qed.

Example app_state_priority_ex : update_state [RUNNING; STOPPING; STARTING; FATAL] = ASTOPPING
                                /\ update_state [RUNNING; BACKOFF; FATAL] = ASTARTING
                                /\ update_state [EXITED; RUNNING] = ARUNNING /\ update_state [FATAL; EXITED] = ASTOPPED.
Proof. vm_compute. repeat split. Qed.

(* ------------------------------------------------------------------ start sequence content *)
Lemma seq_add_in : forall n s m d,
  In n (sequenced_names (seq_add s m d)) <-> n = m \/ In n (sequenced_names d).
Proof.
  intros n s m d. unfold sequenced_names, avals. induction d as [|[k l] r IH]; simpl.
  - split; intros H.
    + destruct H as [H | []]. left. symmetry. exact H.
    + destruct H as [H | []]. left. symmetry. exact H.
  - destruct (Z.eqb s k); simpl.
    + rewrite !in_app_iff. simpl. split; intros H.
      * destruct H as [[H | [H | []]] | H]; [right; left; exact H | left; symmetry; exact H | right; right; exact H].
      * destruct H as [H | [H | H]]; [left; right; left; symmetry; exact H | left; left; exact H | right; exact H].
    + rewrite !in_app_iff, IH. split; intros H.
      * destruct H as [H | [H | H]]; [right; left; exact H | left; exact H | right; right; exact H].
      * destruct H as [H | [H | H]]; [right; left; exact H | left; exact H | right; right; exact H].
Qed.

Lemma seq_fold_in : forall n ps d,
  In n (sequenced_names (fold_left (fun d kv => seq_add (pv_start_seq (snd kv)) (fst kv) d) ps d))
  <-> In n (sequenced_names d) \/ In n (map fst ps).
Proof.
  intros n ps. induction ps as [|kv r IH]; intros d; simpl.
  - split; [intros H; left; exact H | intros [H | []]; exact H].
  - rewrite IH, seq_add_in. split; intros H.
    + destruct H as [[H | H] | H]; [right; left; symmetry; exact H | left; exact H | right; right; exact H].
    + destruct H as [H | [H | H]]; [left; right; exact H | left; left; symmetry; exact H | right; exact H].
Qed.

(* update_sequences : a managed application sequences ALL its processes (whatever their start_sequence value,
   0 included), an unmanaged one none *)
Theorem sequenced_content : forall managed ps n,
  zmem n (sequenced_names (update_sequences managed ps)) = managed && zmem n (akeys ps).
Proof.
  intros managed ps n. unfold update_sequences. destruct managed; simpl; [|reflexivity].
  destruct (zmem n (akeys ps)) eqn:E.
  - apply zmem_In. apply seq_fold_in. right. apply zmem_In. exact E.
  - destruct (zmem n (sequenced_names (fold_left
        (fun d kv => seq_add (pv_start_seq (snd kv)) (fst kv) d) ps []))) eqn:E2; [|reflexivity].
    apply zmem_In in E2. apply seq_fold_in in E2. destruct E2 as [[] | E2].
    apply zmem_In in E2. unfold akeys in E. rewrite E2 in E. discriminate E.
Qed.

(* ------------------------------------------------------------------ required_status *)
Lemma required_flags_acc : forall (inseq : Z -> bool) sequenced ps,
  (forall kv, In kv ps -> zmem (fst kv) sequenced = inseq (fst kv)) ->
  forall a b c,
  fold_left (fun f kv =>
    match f with (major, minor, possible) =>
      let v := snd kv in
      if in_failure v then
        (if pv_required v then (true, minor, possible)
         else if zmem (fst kv) sequenced then (major, true, possible)
         else f)
      else if pstate_eqb (pv_displayed v) STOPPED then
        (if pv_required v then (major, minor, true) else f)
      else f
    end) ps (a, b, c)
  = (a || existsb (fun kv => pv_required (snd kv) && spec_failed (snd kv)) ps,
     b || existsb (fun kv => negb (pv_required (snd kv)) && spec_failed (snd kv) && inseq (fst kv)) ps,
     c || existsb (fun kv => pv_required (snd kv) && pstate_eqb (pv_displayed (snd kv)) STOPPED) ps).
Proof.
  intros inseq sequenced ps. induction ps as [|kv r IH]; intros Hin a b c.
  - simpl. rewrite !orb_false_r. reflexivity.
  - simpl. rewrite in_failure_spec. rewrite (Hin kv (or_introl eq_refl)).
    assert (Hr : forall kv0, In kv0 r -> zmem (fst kv0) sequenced = inseq (fst kv0)).
    { intros kv0 H0. apply Hin. right. exact H0. }
    unfold spec_failed.
    destruct (pv_displayed (snd kv)); destruct (pv_expected_exit (snd kv)); destruct (pv_required (snd kv));
      destruct (inseq (fst kv)); simpl; rewrite (IH Hr); destruct a, b, c; reflexivity.
Qed.

(* P0: without formula (and with an up-to-date start sequence) the failures reported are exactly those of the
   property text, for every process map. *)
Theorem required_status : forall ps managed,
  status_required ps (sequenced_names (update_sequences managed ps)) (update_state (displayed_states ps))
  = spec_required ps managed.
Proof.
  intros ps managed. unfold status_required, required_flags, spec_required.
  rewrite (required_flags_acc (fun _ => managed)).
  2:{ intros kv Hkv. rewrite sequenced_content.
      assert (H : zmem (fst kv) (akeys ps) = true).
      { apply zmem_In. unfold akeys. apply in_map. exact Hkv. }
      rewrite H. apply andb_true_r. }
  simpl. rewrite app_state_priority. unfold displayed_states.
  set (st := spec_app_state (map pv_displayed (avals ps))).
  unfold avals. rewrite !existsb_map_snd.
  assert (Hmajor :
    (if astate_eqb st ASTOPPED
     then existsb (fun kv => pv_required (snd kv) && spec_failed (snd kv)) ps
     else existsb (fun kv => pv_required (snd kv) && spec_failed (snd kv)) ps
          || existsb (fun kv => pv_required (snd kv) && pstate_eqb (pv_displayed (snd kv)) STOPPED) ps)
    = existsb (fun kv => pv_required (snd kv)
                         && (spec_failed (snd kv) || spec_stopped_while_not st (snd kv))) ps).
  { unfold spec_stopped_while_not. destruct (astate_eqb st ASTOPPED); simpl.
    - apply existsb_ext_in. intros kv _. rewrite andb_false_r, orb_false_r. reflexivity.
    - rewrite <- existsb_orb_split. apply existsb_ext_in. intros kv _.
      rewrite andb_true_r. destruct (pv_required (snd kv)); reflexivity. }
  rewrite Hmajor. rewrite existsb_andb_const.
  destruct (existsb (fun kv => pv_required (snd kv)
                               && (spec_failed (snd kv) || spec_stopped_while_not st (snd kv))) ps); simpl.
  - reflexivity.
  - destruct managed; simpl; [rewrite andb_true_r | rewrite andb_false_r]; reflexivity.
Qed.

(* the same at the level of update() / a whole case *)
Corollary required_status_update : forall ps managed,
  update ps (sequenced_names (update_sequences managed ps)) None
  = (UOk (mk_uobs (spec_app_state (displayed_states ps)) (spec_required ps managed)), []).
Proof.
  intros ps managed. unfold update. rewrite required_status, app_state_priority. reflexivity.
Qed.

Lemma fresh_sequenced : forall a, sequences_fresh a = true ->
  app_sequenced a = sequenced_names (update_sequences (a_managed a) (a_procs a)).
Proof.
  intros a H. unfold app_sequenced, sequences_fresh in *. apply Z.leb_le in H.
  rewrite firstn_all2; [reflexivity | lia].
Qed.

Example required_status_ex :
  let ps := [(1, mkPV RUNNING None true true 1); (2, mkPV STOPPED None true true 2);
             (3, mkPV EXITED None false false 0); (4, mkPV RUNNING (Some FATAL) true false 1)] in
  status_required ps (sequenced_names (update_sequences true ps)) (update_state (displayed_states ps)) = (true, false)
  /\ status_required (removelast (tl ps)) (sequenced_names (update_sequences true (removelast (tl ps))))
       (update_state (displayed_states (removelast (tl ps)))) = (false, true).
Proof. vm_compute. split; reflexivity. Qed.

(* The literal reading of "are so" (a non-required process STOPPED while the application is not would also be a
   minor failure) is NOT what the code does: required p1 RUNNING, optional p2 STOPPED, managed. *)
Theorem required_status_literal_refuted : exists ps managed,
  status_required ps (sequenced_names (update_sequences managed ps)) (update_state (displayed_states ps))
  <> spec_required_literal ps managed.
Proof.
  exists [(1, mkPV RUNNING None true true 1); (2, mkPV STOPPED None true false 1)], true.
  vm_compute. intro H. discriminate H.
Qed.

(* the freshness hypothesis is needed: a process added after update_sequences() is not counted *)
Theorem required_status_stale_refuted : exists a,
  sequences_fresh a = false /\ a_formula a = None /\
  fst (update (a_procs a) (app_sequenced a) None)
  <> UOk (mk_uobs (spec_app_state (displayed_states (a_procs a))) (spec_required (a_procs a) (a_managed a))).
Proof.
  exists (mkApp [(1, mkPV RUNNING None true true 1); (2, mkPV FATAL None true false 1)] true 1 None).
  vm_compute. repeat split; intro H; discriminate H.
Qed.

(* ================================================================== formulas *)
(* induction principle for the nested inductive [expr] *)
Lemma expr_ind' (P : expr -> Prop)
  (HStr : forall ex rx, P (EStr ex rx))
  (HCall : forall f args nkw, Forall P args -> P (ECall f args nkw))
  (HBool : forall op vals, Forall P vals -> P (EBoolOp op vals))
  (HUn : forall op a, P a -> P (EUnary op a))
  (HOther : forall k, P (EOther k)) : forall e, P e.
Proof.
  fix IH 1. intros e. destruct e as [ex rx | f args nkw | op vals | op a | k].
  - apply HStr.
  - apply HCall. induction args as [|x r IHr]; constructor; [apply IH | exact IHr].
  - apply HBool. induction vals as [|x r IHr]; constructor; [apply IH | exact IHr].
  - apply HUn. apply IH.
  - apply HOther.
Qed.

Lemma forallb_map : forall {A B} (f : B -> bool) (g : A -> B) (l : list A),
  forallb f (map g l) = forallb (fun x => f (g x)) l.
Proof. intros A B f g l. induction l as [|x r IH]; simpl; [reflexivity | rewrite IH; reflexivity]. Qed.

Lemma existsb_map : forall {A B} (f : B -> bool) (g : A -> B) (l : list A),
  existsb f (map g l) = existsb (fun x => f (g x)) l.
Proof. intros A B f g l. induction l as [|x r IH]; simpl; [reflexivity | rewrite IH; reflexivity]. Qed.

(* what the model's results mean in terms of the denotation *)
Definition res_of_den (d : option dval) : fres :=
  match d with Some (DB b) => FVal (VBool b) | Some (DL l) => FVal (VList l) | None => FParseError end.

Lemma status_of_den : forall ps n, amem n ps = true ->
  exists b, status_of ps n = Ok b /\ den_name ps n = Some b.
Proof.
  intros ps n H. unfold amem in H. unfold status_of, den_name.
  destruct (aget n ps) as [v|]; [|discriminate H].
  exists (proc_ok v). split; [reflexivity | simpl; rewrite proc_ok_spec; reflexivity].
Qed.

Lemma status_list_den : forall ps l, forallb (fun n => amem n ps) l = true ->
  exists bl, status_list ps l = Ok bl /\ den_names ps l = Some bl /\ length bl = length l.
Proof.
  intros ps l. induction l as [|n r IH]; intros H; simpl in *.
  - exists []. repeat split.
  - apply andb_true_iff in H. destruct H as [Hn Hr].
    destruct (status_of_den ps n Hn) as [b [Hs Hd]]. destruct (IH Hr) as [bl [Hsl [Hdl Hlen]]].
    exists (b :: bl). rewrite Hs, Hd, Hsl, Hdl. simpl. rewrite Hlen. repeat split.
Qed.

Lemma eval_leaf_den : forall ps ex rx,
  oracle_wf ps (EStr ex rx) = true -> eval_leaf ps ex rx = res_of_den (den ps (EStr ex rx)).
Proof.
  intros ps ex rx Hwf. unfold eval_leaf. destruct ex as [p|].
  - simpl in Hwf. destruct (status_of_den ps p Hwf) as [b [Hs Hd]].
    rewrite Hs. simpl. rewrite Hd. reflexivity.
  - destruct rx as [l|k].
    + simpl in Hwf. destruct l as [|m1 [|m2 r]].
      * reflexivity.
      * simpl in Hwf. rewrite andb_true_r in Hwf.
        destruct (status_of_den ps m1 Hwf) as [b [Hs Hd]]. rewrite Hs. simpl. rewrite Hd. reflexivity.
      * destruct (status_list_den ps (m1 :: m2 :: r) Hwf) as [bl [Hsl [Hdl _]]].
        rewrite Hsl. cbn [den]. rewrite Hdl. reflexivity.
    + (* invalid pattern: ApplicationStatusParseError since 67529b2 *) reflexivity.
Qed.

(* the values of a BoolOp: relation between eval_seq and den_seq, given the pointwise relation *)
Lemma eval_seq_den : forall ps vals,
  Forall (fun e => fst (eval ps e) = res_of_den (den ps e)) vals ->
  match fst (eval_seq (eval ps) vals) with
  | inl err => err = FParseError /\ den_seq (den ps) vals = None
  | inr vs => (forallb is_vbool vs = true -> den_seq (den ps) vals = Some (map vbool_val vs))
              /\ (forallb is_vbool vs = false -> den_seq (den ps) vals = None)
  end.
Proof.
  intros ps vals H. induction H as [|x r Hx Hr IH].
  - simpl. split; [reflexivity | intro H; discriminate H].
  - simpl. destruct (eval ps x) as [rx tx]. simpl in Hx. subst rx.
    destruct (den ps x) as [[b|l]|]; simpl.
    + destruct (eval_seq (eval ps) r) as [[err|vs] t']; simpl in *.
      * destruct IH as [He Hd]. rewrite Hd. split; [exact He | reflexivity].
      * destruct IH as [Ht Hf]. split; intros Hb.
        -- rewrite (Ht Hb). reflexivity.
        -- rewrite (Hf Hb). reflexivity.
    + destruct (eval_seq (eval ps) r) as [[err|vs] t']; simpl in *.
      * destruct IH as [He _]. split; [exact He | reflexivity].
      * split; intros Hb; [discriminate Hb | reflexivity].
    + split; reflexivity.
Qed.

(* body of the Call branch for all/any: exactly one positional argument and no keyword, else ParseError *)
Lemma eval_call_den : forall ps fn f args nkw,
  (fn = DAll /\ f = FAll) \/ (fn = DAny /\ f = FAny) ->
  Forall (fun e => oracle_wf ps e = true -> fst (eval ps e) = res_of_den (den ps e)) args ->
  oracle_wf ps (ECall f args nkw) = true ->
  fst (eval_call (eval ps) fn args nkw) = res_of_den (den ps (ECall f args nkw)).
Proof.
  intros ps fn f args nkw Hf IHargs Hwf.
  destruct args as [|a rest].
  - destruct Hf as [[H1 H2] | [H1 H2]]; subst; reflexivity.
  - destruct rest as [|b rest'].
    + destruct (Z.eqb nkw 0) eqn:En.
      * apply Z.eqb_eq in En. subst nkw.
        inversion IHargs as [|x r Pa _]; subst. simpl in Hwf. specialize (Pa Hwf).
        unfold eval_call. simpl.
        destruct (eval ps a) as [ra ta]. simpl in Pa. subst ra.
        destruct Hf as [[H1 H2] | [H1 H2]]; subst; cbn [den];
          destruct (den ps a) as [[b|l]|]; simpl; rewrite ?andb_true_r, ?orb_false_r; reflexivity.
      * unfold eval_call. rewrite En. simpl.
        destruct Hf as [[H1 H2] | [H1 H2]]; subst; destruct nkw; try discriminate En; reflexivity.
    + destruct Hf as [[H1 H2] | [H1 H2]]; subst; reflexivity.
Qed.

(* eval = denotation, on EVERY expression (whitelisted or made of any other construct); never a crash *)
Lemma eval_den : forall ps e,
  oracle_wf ps e = true -> fst (eval ps e) = res_of_den (den ps e).
Proof.
  intros ps. induction e as [ex rx | f args nkw IHargs | op vals IHvals | op a IHa | k] using expr_ind';
    intros Hwf.
  - simpl. apply eval_leaf_den; assumption.
  - destruct f as [ | | | k].
    + cbn [eval]. apply (eval_call_den ps DAll FAll); [left; split; reflexivity | exact IHargs | exact Hwf].
    + cbn [eval]. apply (eval_call_den ps DAny FAny); [right; split; reflexivity | exact IHargs | exact Hwf].
    + simpl. destruct args as [|a [|b r]]; [reflexivity | | reflexivity]. destruct nkw; reflexivity.
    + simpl. destruct args as [|a [|b r]]; [reflexivity | | reflexivity]. destruct nkw; reflexivity.
  - (* BoolOp *)
    assert (HF : Forall (fun e => fst (eval ps e) = res_of_den (den ps e)) vals).
    { simpl in Hwf. rewrite forallb_forall in Hwf. rewrite Forall_forall in *.
      intros x Hx. apply IHvals; [exact Hx | apply Hwf; exact Hx]. }
    pose proof (eval_seq_den ps vals HF) as Hseq.
    cbn [eval den]. destruct (eval_seq (eval ps) vals) as [[err|vs] t]; simpl in Hseq.
    + destruct Hseq as [He Hd]. rewrite Hd. simpl. exact He.
    + destruct Hseq as [Ht Hf]. destruct (forallb is_vbool vs) eqn:Eb.
      * rewrite (Ht eq_refl). simpl. destruct op; rewrite ?forallb_map, ?existsb_map; reflexivity.
      * rewrite (Hf eq_refl). reflexivity.
  - (* UnaryOp *)
    destruct op; [|reflexivity].
    simpl in Hwf. specialize (IHa Hwf). cbn [eval den].
    destruct (eval ps a) as [ra ta]. simpl in IHa. subst ra.
    destruct (den ps a) as [[b|l]|]; reflexivity.
  - reflexivity.
Qed.

(* P0 formula_semantics: on the whitelisted fragment (string leaves, all/any of one argument, and/or, not),
   evaluate() is the evident denotation: a boolean, a list (pattern with several matches, to be consumed by
   any/all) or ApplicationStatusParseError when the denotation is undefined (pattern matching nothing, list
   given to and/or/not). H_depth states the scope of the model (Python's recursion limit is not modelled). *)
Theorem formula_semantics : forall ps e,
  wl e = true -> depth_ok e = true -> oracle_wf ps e = true -> fst (eval ps e) = res_of_den (den ps e).
Proof. intros ps e _ _ Hwf. apply eval_den. exact Hwf. Qed.

Example formula_semantics_ex :
  let ps := [(1, mkPV RUNNING None true false 1); (2, mkPV STOPPED None true false 1);
             (3, mkPV EXITED None true false 1)] in
  let e := EBoolOp BAnd [ECall FAny [EStr None (RxMatches [1; 2])] 0;
                         EUnary UNot (EStr (Some 2) (RxMatches [2])); EStr None (RxMatches [3])] in
  wl e = true /\ depth_ok e = true /\ oracle_wf ps e = true /\ den ps e = Some (DB true)
  /\ eval ps e = (FVal (VBool true), [(DAny, [true; false])]).
Proof. vm_compute. repeat split. Qed.

(* the major failure computed by update_status_formula *)
Definition major_of (r : fres) : bool := match r with FVal (VBool b) => negb b | _ => true end.

(* P0 (spec refinement for formulas): for EVERY expression — whitelisted or made of any other construct — the
   major failure is the one of the property text: negation of the formula on the fragment, major failure for any
   other construct or a pattern matching nothing. update() completes. *)
Theorem formula_refines_spec : forall ps seqd e,
  depth_ok e = true -> oracle_wf ps e = true ->
  exists minor tr,
    update ps seqd (Some (TExprStmt e))
    = (UOk (mk_uobs (spec_app_state (displayed_states ps)) (spec_formula_major ps (TExprStmt e), minor)), tr).
Proof.
  intros ps seqd e _ Hwf. pose proof (eval_den ps e Hwf) as H.
  unfold update, status_formula. rewrite app_state_priority.
  destruct (eval ps e) as [r t]. simpl in H. subst r. unfold spec_formula_major.
  destruct (den ps e) as [[b|l]|]; simpl; eexists; eexists; reflexivity.
Qed.

(* ------------------------------------------------------------------ formula_total *)
Definition not_crash (r : fres) : Prop := match r with FCrash _ => False | _ => True end.

Lemma eval_nocrash : forall ps e, oracle_wf ps e = true -> not_crash (fst (eval ps e)).
Proof.
  intros ps e Hwf. rewrite (eval_den ps e Hwf). destruct (den ps e) as [[b|l]|]; exact I.
Qed.

(* P0 formula_total — UNCONDITIONAL for the shapes since /repo commit 67529b2 (the former hypothesis
   crash_shape_free is gone): for EVERY expression, evaluate() yields a boolean, a list or
   ApplicationStatusParseError — never another exception — and update() completes; ParseError or a non-boolean
   result gives a major failure. Remaining hypotheses: H_depth (recursion limit of Python not modelled: the
   statement is about formulas nested at most py_depth_bound deep; a formula about 1000 levels deep still raises
   RecursionError out of update()) and oracle_wf (well-formedness of the oracle input, not a restriction of the
   code: the regex oracle only returns names of the application). *)
Theorem formula_total : forall ps seqd e,
  depth_ok e = true -> oracle_wf ps e = true ->
  not_crash (fst (eval ps e)) /\
  exists minor tr,
    update ps seqd (Some (TExprStmt e))
    = (UOk (mk_uobs (update_state (displayed_states ps)) (major_of (fst (eval ps e)), minor)), tr)
    /\ (major_of (fst (eval ps e)) = false -> exists b, fst (eval ps e) = FVal (VBool b) /\ b = true).
Proof.
  intros ps seqd e _ Hwf.
  pose proof (eval_nocrash ps e Hwf) as Hn. split; [exact Hn|].
  unfold update, status_formula. destruct (eval ps e) as [r t]. simpl in *.
  destruct r as [[b|l]| |k]; simpl.
  - eexists. eexists. split; [reflexivity|]. intros Hb. exists b. split; [reflexivity|].
    destruct b; [reflexivity | discriminate Hb].
  - eexists. eexists. split; [reflexivity|]. intros Hb. discriminate Hb.
  - eexists. eexists. split; [reflexivity|]. intros Hb. discriminate Hb.
  - destruct Hn.
Qed.

(* The former F14 witnesses (formula_total_refuted, extra_args_refuted before the fix) now all yield a major
   failure: a.b("p1") / all() / "(" / all("p1", "zz") on two RUNNING processes p1, p2. *)
Definition f14_ps : procs := [(1, mkPV RUNNING None true false 1); (2, mkPV RUNNING None true false 1)].

Example formula_total_ex :
  Forall (fun e => depth_ok e = true /\ oracle_wf f14_ps e = true /\
                   fst (update f14_ps [1; 2] (Some (TExprStmt e))) = UOk (mk_uobs ARUNNING (true, false)))
    [ECall (FNotName KAttribute) [EStr (Some 1) (RxMatches [1])] 0;
     ECall FAll [] 0;
     EStr None (RxError ReError);
     ECall FAll [EStr (Some 1) (RxMatches [1]); EStr None (RxMatches [])] 0;
     ECall FAny [EStr (Some 1) (RxMatches [1])] 1;
     EBoolOp BOr [EOther KLambda; ECall FOtherName [] 2; EUnary UOther (EOther KName)]].
Proof. repeat constructor. Qed.

(* the setter: a single statement that is not an expression statement (pass, import, return, x = "p1", ...) is
   rejected with ApplicationStatusParseError, as is any failure of the parser it catches; nothing else is raised *)
Theorem setter_rejects_non_expr : forall n t,
  (forall e, t <> TExprStmt e) -> set_formula (PBody n (Some t)) = SRejected.
Proof.
  intros n t Ht. simpl. destruct (Z.eqb n 1); [|reflexivity].
  destruct t as [e| | |]; try reflexivity. exfalso. apply (Ht e). reflexivity.
Qed.

Theorem setter_total : forall p, (forall k, p <> PRaise k) -> (forall n, p <> PBody n None \/ n <> 1) ->
  forall k, set_formula p <> SCrash k.
Proof.
  intros p Hr Hb k. destruct p as [ | | k' | n first]; simpl.
  - intro H. discriminate H.
  - intro H. discriminate H.
  - exfalso. apply (Hr k'). reflexivity.
  - destruct (Z.eqb n 1) eqn:En; [|intro H; discriminate H].
    apply Z.eqb_eq in En. subst n.
    destruct first as [t|].
    + destruct t; simpl; intro H; discriminate H.
    + destruct (Hb 1) as [H | H]; exfalso; apply H; reflexivity.
Qed.

Example setter_ex :
  set_formula PParserError = SRejected /\ set_formula (PBody 1 (Some TStmtNoValue)) = SRejected
  /\ set_formula (PBody 1 (Some (TStmtValue (EOther KName)))) = SRejected /\ set_formula (PBody 2 None) = SRejected
  /\ set_formula (PBody 1 (Some (TExprStmt (EOther KName)))) = SStored (TExprStmt (EOther KName)).
Proof. repeat split. Qed.

(* ------------------------------------------------------------------ no_other_execution *)
Lemma eval_seq_err_not_val : forall ev vals err t,
  eval_seq ev vals = (inl err, t) -> forall v, err <> FVal v.
Proof.
  intros ev vals. induction vals as [|x r IH]; intros err t H v; simpl in H; [discriminate H|].
  destruct (ev x) as [rx tx]. destruct rx as [v0| |k].
  - destruct (eval_seq ev r) as [[e|vs] t2].
    + inversion H; subst. apply (IH err t2 eq_refl).
    + discriminate H.
  - inversion H; subst. intro Hc. discriminate Hc.
  - inversion H; subst. intro Hc. discriminate Hc.
Qed.

Lemma eval_vlist_nonempty : forall ps e l, fst (eval ps e) = FVal (VList l) -> l <> [].
Proof.
  intros ps e l H. destruct e as [ex rx | f args nkw | op vals | op a | k].
  - simpl in H. unfold eval_leaf in H. destruct ex as [p|].
    + destruct (status_of ps p); discriminate H.
    + destruct rx as [ms|k].
      * destruct ms as [|m1 [|m2 r]]; [discriminate H | destruct (status_of ps m1); discriminate H |].
        simpl in H. destruct (status_of ps m1); [|discriminate H]. simpl in H.
        destruct (status_of ps m2); [|discriminate H]. simpl in H.
        destruct (status_list ps r); simpl in H; [|discriminate H].
        inversion H. intro Hn. discriminate Hn.
      * simpl in H. discriminate H.
  - destruct f; cbn [eval] in H; try discriminate H;
      (unfold eval_call in H; destruct args as [|a rest]; [discriminate H|]; simpl hazard_policy in H;
       destruct (match rest with [] => negb (nkw =? 0) | _ :: _ => true end); [discriminate H|];
       destruct (eval ps a) as [ra ta]; destruct ra as [[b|l']| |k]; discriminate H).
  - cbn [eval] in H. destruct (eval_seq (eval ps) vals) as [[err|vs] t] eqn:E; simpl in H.
    + exfalso. subst err. exact (eval_seq_err_not_val _ _ _ _ E _ eq_refl).
    + destruct (forallb is_vbool vs); discriminate H.
  - destruct op; [|discriminate H]. cbn [eval] in H.
    destruct (eval ps a) as [ra ta]; destruct ra as [[b|l']| |k]; discriminate H.
  - discriminate H.
Qed.

Lemma eval_seq_trace : forall (Q : evcall -> Prop) ps vals,
  Forall (fun e => Forall Q (snd (eval ps e))) vals -> Forall Q (snd (eval_seq (eval ps) vals)).
Proof.
  intros Q ps vals H. induction H as [|x r Hx Hr IH]; simpl; [constructor|].
  destruct (eval ps x) as [rx tx]. simpl in Hx. destruct rx as [v| |k]; simpl; try exact Hx.
  destruct (eval_seq (eval ps) r) as [[err|vs] t']; simpl in *; apply Forall_app; split; assumption.
Qed.

(* every dynamic evaluation performed by evaluate() is all/any applied to a NON-EMPTY list of booleans *)
Lemma eval_trace_shape : forall ps e, Forall (fun c : evcall => snd c <> []) (snd (eval ps e)).
Proof.
  intros ps. induction e as [ex rx | f args nkw IHargs | op vals IHvals | op a IHa | k] using expr_ind'.
  - constructor.
  - assert (Hcall : forall fn, Forall (fun c : evcall => snd c <> []) (snd (eval_call (eval ps) fn args nkw))).
    { intros fn. unfold eval_call. destruct args as [|a rest]; [constructor|]. simpl hazard_policy.
      inversion IHargs as [|x r Pa _]; subst.
      destruct (match rest with [] => negb (nkw =? 0) | _ :: _ => true end); [constructor|].
      destruct (eval ps a) as [ra ta] eqn:E. simpl in Pa. destruct ra as [[b|l]| |k]; simpl; try exact Pa.
      - apply Forall_app. split; [exact Pa|]. constructor; [|constructor]. simpl. intro Hn. discriminate Hn.
      - apply Forall_app. split; [exact Pa|]. constructor; [|constructor]. simpl.
        apply (eval_vlist_nonempty ps a). rewrite E. reflexivity. }
    destruct f; cbn [eval]; try apply Hcall; constructor.
  - cbn [eval]. pose proof (eval_seq_trace _ ps vals IHvals) as H.
    destruct (eval_seq (eval ps) vals) as [[err|vs] t]; simpl in *; [exact H|].
    destruct (forallb is_vbool vs); exact H.
  - destruct op; [|constructor]. cbn [eval].
    destruct (eval ps a) as [ra ta]; simpl in IHa; destruct ra as [[b|l]| |k]; exact IHa.
  - constructor.
Qed.

(* P0 no_other_execution (model side, by construction): whatever the formula — any parse outcome, any expression,
   hostile or not — the only dynamic evaluations of a run are all/any applied to non-empty lists of booleans
   (type [evcall]), and no other execution is ever recorded. The implementation side is the audit of the driver,
   compared with this trace on every case. *)
Theorem no_other_execution : forall a,
  match app_run a with
  | (_, _, trace, other_exec, _) =>
      other_exec = 0 /\ Forall (fun c => (fst c = 0 \/ fst c = 1) /\ snd c <> []) trace
  end.
Proof.
  intros a. unfold app_run. destruct (app_setter a) as [so tree].
  destruct (update (a_procs a) (app_sequenced a) tree) as [u t] eqn:E.
  split; [reflexivity|].
  assert (Ht : Forall (fun c : evcall => snd c <> []) t).
  { unfold update in E.
    assert (Hf : forall e u' t', (match status_formula (a_procs a) (app_sequenced a) e with
                   | (Ok f, t0) => (UOk (mk_uobs (update_state (displayed_states (a_procs a))) f), t0)
                   | (Crash k, t0) => (UCrash k (mk_uobs (update_state (displayed_states (a_procs a))) (false, false)), t0)
                   end) = (u', t') -> Forall (fun c : evcall => snd c <> []) t').
    { intros e u' t' H. unfold status_formula in H. pose proof (eval_trace_shape (a_procs a) e) as Hs.
      destruct (eval (a_procs a) e) as [r tr]. simpl in Hs.
      destruct r as [v| |k]; inversion H; subst; exact Hs. }
    destruct tree as [[e|e| |]|]; try (inversion E; subst; constructor); apply (Hf e u t E). }
  clear E. induction Ht as [|c r Hc Hr IH]; simpl.
  - constructor.
  - constructor; [|exact IH]. split; [destruct (fst c); [left | right]; reflexivity | exact Hc].
Qed.

(* ------------------------------------------------------------------ the model satisfies Spec_C15 *)
Opaque update spec_required op_status spec_app_state spec_formula_major.

(* P0: on every well-formed case (oracle inputs well-formed, depth in scope) with an up-to-date start sequence,
   the observable of the model is accepted by the specification written from the property text — no known-finding
   class is excluded any more. With T3 (implementation = model on every generated case) this is the property; it
   is also why [spec_violations] is expected empty. *)
Theorem c15_model_refines_spec : forall a,
  sequences_fresh a = true -> app_wf a = true -> case_violation (a, app_run a) = false.
Proof.
  intros a Hfresh Hwf. unfold case_violation. simpl fst. simpl snd. rewrite Hfresh. simpl.
  apply negb_false_iff.
  unfold app_wf in Hwf. apply andb_true_iff in Hwf. destruct Hwf as [Hbody Horacle].
  unfold app_run, app_setter. rewrite (fresh_sequenced a Hfresh).
  unfold formula_expr, single_stmt in *.
  destruct a as [ps managed prefix formula]. simpl in *.
  destruct formula as [p|].
  2:{ (* no formula *)
      rewrite required_status_update. unfold spec_accepts_app, spec_setter_ok, has_formula. simpl.
      rewrite Z.eqb_refl, !eqb_reflx, Z.eqb_refl. reflexivity. }
  destruct p as [ | | k | n first].
  - (* SyntaxError: rejected *)
    simpl. rewrite required_status_update. unfold spec_accepts_app, spec_setter_ok, has_formula. simpl.
    rewrite Z.eqb_refl, !eqb_reflx, Z.eqb_refl. reflexivity.
  - (* parser failure caught by the setter: rejected *)
    simpl. rewrite required_status_update. unfold spec_accepts_app, spec_setter_ok, has_formula. simpl.
    rewrite Z.eqb_refl, !eqb_reflx, Z.eqb_refl. reflexivity.
  - discriminate Hbody.
  - simpl. destruct (Z.eqb n 1) eqn:En.
    + destruct first as [t|]; [|discriminate Hbody].
      destruct t as [e|e| |].
      * apply andb_true_iff in Horacle. destruct Horacle as [Horacle Hdepth].
        destruct (formula_refines_spec ps (sequenced_names (update_sequences managed ps)) e Hdepth Horacle)
          as [minor [tr Hu]].
        rewrite Hu. unfold spec_accepts_app, spec_setter_ok, single_stmt. simpl. rewrite En. simpl.
        rewrite Z.eqb_refl, !eqb_reflx, Z.eqb_refl. reflexivity.
      * (* single statement that is not an expression: rejected *)
        simpl. rewrite required_status_update. unfold spec_accepts_app, spec_setter_ok, has_formula. simpl.
        rewrite En. simpl. rewrite Z.eqb_refl, !eqb_reflx, Z.eqb_refl. reflexivity.
      * simpl. rewrite required_status_update. unfold spec_accepts_app, spec_setter_ok, has_formula. simpl.
        rewrite En. simpl. rewrite Z.eqb_refl, !eqb_reflx, Z.eqb_refl. reflexivity.
      * simpl. rewrite required_status_update. unfold spec_accepts_app, spec_setter_ok, has_formula. simpl.
        rewrite En. simpl. rewrite Z.eqb_refl, !eqb_reflx, Z.eqb_refl. reflexivity.
    + (* not exactly one statement: rejected *)
      rewrite required_status_update. unfold spec_accepts_app, spec_setter_ok, has_formula. simpl.
      rewrite En. simpl. rewrite Z.eqb_refl, !eqb_reflx, Z.eqb_refl. reflexivity.
Qed.

Transparent update spec_required op_status spec_app_state spec_formula_major.

Example c15_model_refines_spec_ex :
  let a := mkApp [(1, mkPV RUNNING None true true 1); (2, mkPV EXITED (Some FATAL) false false 0)] true 2
             (Some (PBody 1 (Some (TExprStmt (EBoolOp BAnd [EStr (Some 1) (RxMatches [1]);
                                                            ECall FAny [EStr None (RxMatches [1; 2])] 0]))))) in
  sequences_fresh a = true /\ app_wf a = true
  /\ app_run a = (OStored, UOk (acode ARUNNING, false, true, 2), [(1, [true; false])], 0, [1; 2]).
Proof. vm_compute. repeat split. Qed.
