(* SequencerProofs.v — lemmas about the agenda-machine model of Starter / Stopper (model/Sequencer.v). *)
From Sup Require Import Base GenProc GenEnums GenSeq ProcStatus Sequencer.
From Coq Require Import Lia ZArith List Bool.
Import ListNotations.
Open Scope Z_scope.

(* ------------------------------------------------------------------ pickup logic: min / max of the keys *)
Lemma zmin_list_le_cur : forall l cur, zmin_list cur l <= cur.
Proof.
  induction l as [|x r IH]; intros cur; simpl; [lia|].
  destruct (Z.ltb x cur) eqn:E; [apply Z.ltb_lt in E; specialize (IH x); lia | apply IH].
Qed.

Lemma zmin_list_le_all : forall l cur y, In y l -> zmin_list cur l <= y.
Proof.
  induction l as [|x r IH]; intros cur y Hin; simpl in *; [contradiction|].
  destruct Hin as [->|Hin].
  - destruct (Z.ltb y cur) eqn:E.
    + apply zmin_list_le_cur.
    + apply Z.ltb_ge in E. pose proof (zmin_list_le_cur r cur). lia.
  - apply IH; exact Hin.
Qed.

Lemma zmin_list_in : forall l cur, zmin_list cur l = cur \/ In (zmin_list cur l) l.
Proof.
  induction l as [|x r IH]; intros cur; simpl; [left; reflexivity|].
  destruct (Z.ltb x cur).
  - destruct (IH x) as [H|H]; [right; left; symmetry; exact H | right; right; exact H].
  - destruct (IH cur) as [H|H]; [left; exact H | right; right; exact H].
Qed.

Lemma zmax_list_ge_cur : forall l cur, cur <= zmax_list cur l.
Proof.
  induction l as [|x r IH]; intros cur; simpl; [lia|].
  destruct (Z.ltb cur x) eqn:E; [apply Z.ltb_lt in E; specialize (IH x); lia | apply IH].
Qed.

Lemma zmax_list_ge_all : forall l cur y, In y l -> y <= zmax_list cur l.
Proof.
  induction l as [|x r IH]; intros cur y Hin; simpl in *; [contradiction|].
  destruct Hin as [->|Hin].
  - destruct (Z.ltb cur y) eqn:E.
    + apply zmax_list_ge_cur.
    + apply Z.ltb_ge in E. pose proof (zmax_list_ge_cur r cur). lia.
  - apply IH; exact Hin.
Qed.

Lemma zmax_list_in : forall l cur, zmax_list cur l = cur \/ In (zmax_list cur l) l.
Proof.
  induction l as [|x r IH]; intros cur; simpl; [left; reflexivity|].
  destruct (Z.ltb cur x).
  - destruct (IH x) as [H|H]; [right; left; symmetry; exact H | right; right; exact H].
  - destruct (IH cur) as [H|H]; [left; exact H | right; right; exact H].
Qed.

(* the generated wiring: Starter side picks the minimum, Stopper side the maximum *)
Lemma pickup_start_min : forall keys k, pickup KStart keys = Some k -> In k keys /\ forall y, In y keys -> k <= y.
Proof.
  intros keys k H. destruct keys as [|x r]; [discriminate|]. unfold pickup in H.
  assert (Hm : gs_starter_pickup_min = true) by (vm_compute; reflexivity).
  rewrite Hm in H. inversion H; subst k; clear H. split.
  - destruct (zmin_list_in r x) as [E|E]; [left; symmetry; exact E | right; exact E].
  - intros y [->|Hy]; [apply zmin_list_le_cur | apply zmin_list_le_all; exact Hy].
Qed.

Lemma pickup_stop_max : forall keys k, pickup KStop keys = Some k -> In k keys /\ forall y, In y keys -> y <= k.
Proof.
  intros keys k H. destruct keys as [|x r]; [discriminate|]. unfold pickup in H.
  assert (Hm : gs_stopper_pickup_min = false) by (vm_compute; reflexivity).
  rewrite Hm in H. inversion H; subst k; clear H. split.
  - destruct (zmax_list_in r x) as [E|E]; [left; symmetry; exact E | right; exact E].
  - intros y [->|Hy]; [apply zmax_list_ge_cur | apply zmax_list_ge_all; exact Hy].
Qed.

(* ------------------------------------------------------------------ monad inversion *)
Lemma mbind_ok : forall A B (m : M A) (f : A -> M B) s b s',
  mbind m f s = Ok (b, s') -> exists a s1, m s = Ok (a, s1) /\ f a s1 = Ok (b, s').
Proof.
  intros A B m f s b s' H. unfold mbind in H. destruct (m s) as [[a s1]|k] eqn:E; [|discriminate].
  exists a, s1. split; [reflexivity|exact H].
Qed.

Ltac minv H :=
  match type of H with
  | mbind _ _ _ = Ok _ =>
      let a := fresh "a" in let s1 := fresh "s" in let H1 := fresh "H" in let H2 := fresh "H" in
      apply mbind_ok in H; destruct H as (a & s1 & H1 & H2)
  | ret _ _ = Ok _ => unfold ret in H; inversion H; subst; clear H
  | mget _ = Ok _ => unfold mget in H; inversion H; subst; clear H
  | fail _ _ = Ok _ => unfold fail in H; discriminate H
  end.

(* ------------------------------------------------------------------ ApplicationJobs.next *)
Lemma aget_of_key : forall V (l : alist V) k, In k (akeys l) -> exists v, aget k l = Some v.
Proof.
  induction l as [|[k' v'] r IH]; intros k Hin; simpl in *; [contradiction|].
  destruct (Z.eqb k k') eqn:E; [eexists; reflexivity|].
  destruct Hin as [Hk|Hin]; [subst; rewrite Z.eqb_refl in E; discriminate | apply IH; exact Hin].
Qed.

Lemma aj_next_group : forall jid s push outs s' j group,
  step_aj_next jid s = Ok ((push, outs), s') -> aget jid (s_jobs s) = Some j ->
  In (AJGroup jid group) push ->
  j_current j = [] /\ exists seq, pickup (j_kind j) (akeys (j_planned j)) = Some seq /\ aget seq (j_planned j) = Some group.
Proof.
  intros jid s push outs s' j group H Hj Hin.
  unfold step_aj_next in H. minv H.
  unfold get_job, lift_opt in H0. rewrite Hj in H0. unfold ret in H0. inversion H0; subst a s0; clear H0.
  destruct (j_current j) eqn:Ec; [|minv H1; contradiction].
  remember (j_planned j) as pl eqn:Ep. destruct pl as [|kv pl']; [minv H1; contradiction|].
  rewrite Ep in H1. destruct (pickup (j_kind j) (akeys (j_planned j))) as [seq|] eqn:Epk; [|minv H1; contradiction].
  minv H1. minv H0. destruct Hin as [Hin|[Hin|[]]]; [|discriminate].
  split; [reflexivity|]. exists seq. split; [rewrite Ep; exact Epk|]. rewrite Ep.
  assert (Hk : In seq (akeys (j_planned j))).
  { destruct (j_kind j); [apply pickup_start_min in Epk | apply pickup_stop_max in Epk]; tauto. }
  apply aget_of_key in Hk. destruct Hk as [g Hg]. rewrite Hg in Hin. inversion Hin; subst. exact Hg.
Qed.

(* C03 / SEQ-shape, local form (every state): the Starter side takes the group of least sequence number, and only
   when no command of the job is in progress *)
Theorem start_group_is_minimum : forall jid s push outs s' j,
  step_aj_next jid s = Ok ((push, outs), s') -> aget jid (s_jobs s) = Some j -> j_kind j = KStart ->
  forall group, In (AJGroup jid group) push ->
    j_current j = [] /\ exists seq, aget seq (j_planned j) = Some group /\ forall y, In y (akeys (j_planned j)) -> seq <= y.
Proof.
  intros jid s push outs s' j H Hj Hk group Hin.
  destruct (aj_next_group _ _ _ _ _ _ _ H Hj Hin) as [Hc [seq [Hp Hg]]].
  split; [exact Hc|]. exists seq. split; [exact Hg|]. rewrite Hk in Hp. apply pickup_start_min in Hp. tauto.
Qed.

(* C09 mirror: the Stopper side takes the group of greatest sequence number *)
Theorem stop_group_is_maximum : forall jid s push outs s' j,
  step_aj_next jid s = Ok ((push, outs), s') -> aget jid (s_jobs s) = Some j -> j_kind j = KStop ->
  forall group, In (AJGroup jid group) push ->
    j_current j = [] /\ exists seq, aget seq (j_planned j) = Some group /\ forall y, In y (akeys (j_planned j)) -> y <= seq.
Proof.
  intros jid s push outs s' j H Hj Hk group Hin.
  destruct (aj_next_group _ _ _ _ _ _ _ H Hj Hin) as [Hc [seq [Hp Hg]]].
  split; [exact Hc|]. exists seq. split; [exact Hg|]. rewrite Hk in Hp. apply pickup_stop_max in Hp. tauto.
Qed.

(* ------------------------------------------------------------------ which calls emit requests *)
Ltac chase H :=
  cbv beta in H;
  lazymatch type of H with
  | ret _ _ = Ok _ => unfold ret in H; inversion H; subst; clear H
  | fail _ _ = Ok _ => discriminate H
  | mbind _ _ _ = Ok _ =>
      let a := fresh "a" in let s1 := fresh "s" in let H1 := fresh "H" in let H2 := fresh "H" in
      apply mbind_ok in H; destruct H as (a & s1 & H1 & H2); clear H1; chase H2
  | (if ?b then _ else _) _ = Ok _ => destruct b; chase H
  | (match ?x with _ => _ end) _ = Ok _ => destruct x; chase H
  | _ => idtac
  end.

Definition emits (c : call) : bool :=
  match c with AJGroup _ _ | Force _ _ _ _ _ _ | CEmit _ => true | _ => false end.

Lemma silent_calls : forall c s push outs s',
  emits c = false -> step_call c s = Ok ((push, outs), s') -> outs = [].
Proof.
  intros c s push outs s' He H.
  destruct c; simpl in He; try discriminate He; simpl in H;
    try (unfold step_next_loop, step_after, step_next_pop, step_aj_next, step_proc_failure, step_on_event,
           step_aj_on_event, step_aj_check_cmd, step_start_proc, step_stop_proc in H);
    chase H; try reflexivity.
Qed.

Lemma lift_opt_ok : forall A (o : option A) k s a s', lift_opt o k s = Ok (a, s') -> o = Some a /\ s' = s.
Proof. intros A o k s a s' H. destruct o; simpl in H; inversion H; auto. Qed.

Lemma get_cmd_ok : forall cid s c s', get_cmd cid s = Ok (c, s') -> aget cid (s_cmds s) = Some c /\ s' = s.
Proof. intros cid s c s' H. unfold get_cmd in H. apply lift_opt_ok in H. exact H. Qed.
Lemma get_sproc_ok : forall a p s pr s', get_sproc a p s = Ok (pr, s') -> get_proc s a p = Some pr /\ s' = s.
Proof. intros a p s pr s' H. unfold get_sproc in H. apply lift_opt_ok in H. exact H. Qed.
Lemma get_job_ok : forall jid s j s', get_job jid s = Ok (j, s') -> aget jid (s_jobs s) = Some j /\ s' = s.
Proof. intros jid s j s' H. unfold get_job in H. apply lift_opt_ok in H. exact H. Qed.

(* C03 / C09, local form, every state: requests are emitted only while a popped group is processed; a start
   request only for a process that is stopped (ProcessStatus.stopped()), a stop request only to an identifier
   where the process is running (ProcessStatus.running_on(identifier)) *)
Lemma group_emits : forall jid cid rest s push outs s' o,
  step_aj_group jid (cid :: rest) s = Ok ((push, outs), s') -> In o outs ->
  exists c pr, aget cid (s_cmds s) = Some c /\ get_proc s (c_app c) (c_proc c) = Some pr /\
    ((exists i, o = OStart i (c_app c) (c_proc c) /\ c_kind c = KStart /\ sp_stopped pr = true)
     \/ (exists i, o = OStop i (c_app c) (c_proc c) /\ c_kind c = KStop /\ c_ident c = Some i
                   /\ sp_running_on pr i = true)).
Proof.
  intros jid cid rest s push outs s' o H Hin. unfold step_aj_group in H.
  apply mbind_ok in H. destruct H as (c & s1 & Hc & H). apply get_cmd_ok in Hc. destruct Hc as [Hc ->].
  apply mbind_ok in H. destruct H as (pr & s2 & Hp & H). apply get_sproc_ok in Hp. destruct Hp as [Hp ->].
  exists c, pr. split; [exact Hc|]. split; [exact Hp|].
  destruct (c_kind c) eqn:Ek.
  - destruct (sp_stopped pr) eqn:Est; [|chase H; (simpl in Hin; contradiction)].
    apply mbind_ok in H. destruct H as (o1 & s3 & _ & H).
    apply mbind_ok in H. destruct H as (c1 & s4 & _ & H).
    destruct (c_ident c1) as [i|]; chase H; [|(simpl in Hin; contradiction)].
    destruct Hin as [<-|[]]. left. exists i. auto.
  - destruct (c_ident c) as [i|] eqn:Ei; [|chase H; (simpl in Hin; contradiction)].
    destruct (sp_running_on pr i) eqn:Er; chase H; [|(simpl in Hin; contradiction)].
    destruct Hin as [<-|[]]. right. exists i. auto.
Qed.

(* calls of a reachable agenda: CEmit only carries the publication of a forced state *)
Definition call_ok (c : call) : Prop :=
  match c with CEmit (OPub _ _ _ _) => True | CEmit _ => False | _ => True end.

Lemma step_pushes_ok : forall c s push outs s',
  step_call c s = Ok ((push, outs), s') -> Forall call_ok push.
Proof.
  intros c s push outs s' H.
  destruct c; simpl in H;
    try (unfold step_next_loop, step_after, step_next_pop, step_aj_next, step_aj_group, step_proc_failure,
           step_force, step_on_event, step_aj_on_event, step_aj_check_cmd, step_start_proc, step_stop_proc in H);
    chase H; repeat (apply Forall_cons; [exact I|]); try apply Forall_nil;
    try (apply Forall_app; split); try (apply Forall_forall; intros x Hx; apply in_map_iff in Hx;
      destruct Hx as (y & <- & _); exact I); repeat (apply Forall_cons; [exact I|]); try apply Forall_nil.
  - destruct (aget (j_app a) (s_app_req a0)); repeat constructor.
  - destruct (aget (j_app a) (s_proc_req a0)); [|constructor].
    apply Forall_forall; intros x Hx; apply in_map_iff in Hx; destruct Hx as (y & <- & _); exact I.
Qed.

(* ------------------------------------------------------------------ the agenda machine with a log *)
(* same machine as Sequencer.exec, recording for every emitted request the state and the call that emitted it *)
Fixpoint exec_log (fuel : nat) (ag : list call) (s : st) (acc : list (st * call * out))
  : result (st * list (st * call * out)) :=
  match ag with
  | [] => Ok (s, rev acc)
  | c :: rest =>
      match fuel with
      | O => Crash OutOfFuel
      | S f =>
          match step_call c s with
          | Crash k => Crash k
          | Ok ((push, outs), s') => exec_log f (push ++ rest) s' (rev (map (fun o => (s, c, o)) outs) ++ acc)
          end
      end
  end.

Lemma exec_log_agrees : forall fuel ag s acc,
  exec fuel ag s (map snd acc) =
  match exec_log fuel ag s acc with Ok (s', log) => Ok (s', map snd log) | Crash k => Crash k end.
Proof.
  induction fuel as [|f IH]; intros ag s acc; destruct ag as [|c rest]; simpl.
  - rewrite map_rev. reflexivity.
  - reflexivity.
  - rewrite map_rev. reflexivity.
  - destruct (step_call c s) as [[[push outs] s']|k]; [|reflexivity].
    rewrite <- IH. f_equal. rewrite map_app, map_rev, map_map. simpl. rewrite map_id. reflexivity.
Qed.

(* every logged request satisfies P as soon as every step of a well-formed agenda does *)
Lemma exec_log_forall : forall (P : st -> call -> out -> Prop),
  (forall c s push outs s', call_ok c -> step_call c s = Ok ((push, outs), s') -> forall o, In o outs -> P s c o) ->
  forall fuel ag s acc s' log,
    Forall call_ok ag -> Forall (fun x => P (fst (fst x)) (snd (fst x)) (snd x)) acc ->
    exec_log fuel ag s acc = Ok (s', log) ->
    Forall (fun x => P (fst (fst x)) (snd (fst x)) (snd x)) log.
Proof.
  intros P HP. induction fuel as [|f IH]; intros ag s acc s' log Hag Hacc H; destruct ag as [|c rest]; simpl in H.
  - inversion H; subst. apply Forall_rev. exact Hacc.
  - discriminate.
  - inversion H; subst. apply Forall_rev. exact Hacc.
  - destruct (step_call c s) as [[[push outs] s1]|k] eqn:E; [|discriminate].
    inversion Hag as [|c' r' Hc Hr]; subst.
    apply (IH _ _ _ _ _) in H; [exact H| |].
    + apply Forall_app. split; [exact (step_pushes_ok _ _ _ _ _ E)|exact Hr].
    + apply Forall_app. split; [|exact Hacc]. apply Forall_rev. apply Forall_forall. intros x Hx.
      apply in_map_iff in Hx. destruct Hx as (o & <- & Ho). simpl. exact (HP _ _ _ _ _ Hc E o Ho).
Qed.

Definition emitted_in_order (P : st -> call -> out -> Prop) (log : list (st * call * out)) : Prop :=
  Forall (fun x => P (fst (fst x)) (snd (fst x)) (snd x)) log.

(* what holds of every single emission: requests come from a group being processed *)
Definition emission_fact (s : st) (c : call) (o : out) : Prop :=
  match o with
  | OStart i a p =>
      exists jid cid rest cm pr, c = AJGroup jid (cid :: rest) /\ aget cid (s_cmds s) = Some cm /\
        c_kind cm = KStart /\ c_app cm = a /\ c_proc cm = p /\
        get_proc s a p = Some pr /\ sp_stopped pr = true
  | OStop i a p =>
      exists jid cid rest cm pr, c = AJGroup jid (cid :: rest) /\ aget cid (s_cmds s) = Some cm /\
        c_kind cm = KStop /\ c_app cm = a /\ c_proc cm = p /\ c_ident cm = Some i /\
        get_proc s a p = Some pr /\ sp_running_on pr i = true
  | _ => True
  end.

Lemma emission_fact_step : forall c s push outs s',
  call_ok c -> step_call c s = Ok ((push, outs), s') -> forall o, In o outs -> emission_fact s c o.
Proof.
  intros c s push outs s' Hok H o Hin.
  destruct (emits c) eqn:He; [|rewrite (silent_calls _ _ _ _ _ He H) in Hin; simpl in Hin; contradiction].
  destruct c; simpl in He; try discriminate He; simpl in H.
  - destruct group as [|cid rest]; [simpl in H; chase H; simpl in Hin; contradiction|].
    destruct (group_emits _ _ _ _ _ _ _ _ H Hin) as (cm & pr & Hc & Hp & [(i & -> & Hk & Hs)|(i & -> & Hk & Hi & Hr)]);
      simpl; exists jid, cid, rest, cm, pr; repeat split; auto.
  - unfold step_force in H. chase H; destruct Hin as [<-|Hin]; simpl; auto; simpl in Hin; contradiction.
  - chase H. destruct Hin as [<-|[]]. destruct o0; simpl in Hok; try contradiction. exact I.
Qed.

(* C09 stop_only_where_running and the start counterpart, for EVERY run of the agenda machine from ANY state:
   each StopReq was emitted in a state where the process was running on the requested identifier, each StartReq in
   a state where the process was stopped; both while the popped group of an application job was processed *)
Theorem requests_only_from_groups : forall fuel ag s s' log,
  Forall call_ok ag -> exec_log fuel ag s [] = Ok (s', log) -> emitted_in_order emission_fact log.
Proof.
  intros fuel ag s s' log Hag H. unfold emitted_in_order.
  apply (exec_log_forall emission_fact emission_fact_step fuel ag s [] s' log Hag); [constructor|exact H].
Qed.

(* ------------------------------------------------------------------ C10: timeouts *)
Lemma tick_period_pos : 0 < gs_TICK_PERIOD.
Proof. vm_compute. reflexivity. Qed.

(* wait_ticks setter: the least number of ticks covering the configured seconds *)
Lemma ceil_ticks_spec : forall secs,
  secs <= ceil_ticks secs * gs_TICK_PERIOD /\ (ceil_ticks secs - 1) * gs_TICK_PERIOD < secs.
Proof.
  intros secs. unfold ceil_ticks. pose proof tick_period_pos as Hp.
  pose proof (Z.div_mod (secs + gs_TICK_PERIOD - 1) gs_TICK_PERIOD ltac:(lia)) as Hd.
  pose proof (Z.mod_pos_bound (secs + gs_TICK_PERIOD - 1) gs_TICK_PERIOD Hp) as Hm.
  nia.
Qed.

Lemma ceil_ticks_nonneg : forall secs, 0 <= secs -> 0 <= ceil_ticks secs.
Proof.
  intros secs H. unfold ceil_ticks. apply Z.div_pos; pose proof tick_period_pos; lia.
Qed.

Lemma minimum_ticks_ge : forall s, gs_DEFAULT_TICK_TIMEOUT <= minimum_ticks s.
Proof. intros s. unfold minimum_ticks. lia. Qed.

(* wait_ticks = ceil(secs / period) + minimum_ticks, as set by update_identifier *)
Lemma update_identifier_wait : forall c i s c' s',
  update_identifier c i s = Ok (c', s') ->
  s' = s /\ c_ident c' = Some i /\ c_min c' = c_min c /\ c_req c' = c_req c /\ c_id c' = c_id c /\
  c_kind c' = c_kind c /\ c_app c' = c_app c /\ c_proc c' = c_proc c /\ c_ignore_we c' = c_ignore_we c /\
  exists pr, get_proc s (c_app c) (c_proc c) = Some pr /\ amem i (p_infos (sp_st pr)) = true /\
    c_wait c' = ceil_ticks (match c_kind c with KStart => sp_startsecs pr | KStop => sp_stopwaitsecs pr end) + c_min c.
Proof.
  intros c i s c' s' H. unfold update_identifier in H.
  apply mbind_ok in H. destruct H as (s0 & s1 & H0 & H). unfold mget in H0. inversion H0; subst s0 s1; clear H0.
  apply mbind_ok in H. destruct H as (ins & s1 & H0 & H). apply lift_opt_ok in H0. destruct H0 as [_ ->].
  apply mbind_ok in H. destruct H as (pr & s1 & H0 & H). apply get_sproc_ok in H0. destruct H0 as [Hp ->].
  apply mbind_ok in H. destruct H as (inf & s1 & H0 & H). apply lift_opt_ok in H0. destruct H0 as [Hi ->].
  unfold ret in H. inversion H; subst; clear H. simpl. repeat split; try reflexivity.
  exists pr. repeat split; auto. unfold amem. rewrite Hi. reflexivity.
Qed.

(* command_bound, arithmetic core (T2-style, but for all integers): beyond request counter + wait_ticks the
   command is not kept IN_PROGRESS, the only exception being a RUNNING wait_exit program (documented) *)
Lemma timed_out_bound : forall k we ig state req mn wt cnt,
  mn <= wt -> req + wt < cnt ->
  snd (cmd_timed_out k we ig state req mn wt cnt) <> IN_PROGRESS
  \/ (k = KStart /\ state = RUNNING /\ we = true /\ ig = false).
Proof.
  intros k we ig state req mn wt cnt Hm Hc.
  assert (H1 : Z.ltb (req + wt) cnt = true) by (apply Z.ltb_lt; lia).
  assert (H2 : Z.ltb (req + mn) cnt = true) by (apply Z.ltb_lt; lia).
  destruct k; simpl.
  - destruct state; simpl; rewrite ?H1, ?H2; simpl; try (left; discriminate).
    destruct we, ig; simpl; try (left; discriminate). right. auto.
  - destruct (pstate_eqb state STOPPING); [rewrite H1; left; discriminate|].
    destruct (is_stopped state); [left; discriminate|]. rewrite H2. left. discriminate.
Qed.

(* the precise timeouts: minimum_ticks for the acknowledgement, wait_ticks for the completion *)
Lemma timed_out_ack : forall k we ig state req mn wt cnt,
  req + mn < cnt ->
  (k = KStart -> state <> RUNNING /\ state <> STARTING /\ state <> BACKOFF) ->
  (k = KStop -> state <> STOPPING /\ is_stopped state = false) ->
  snd (cmd_timed_out k we ig state req mn wt cnt) = TIMED_OUT.
Proof.
  intros k we ig state req mn wt cnt Hc Hs Hp.
  assert (H2 : Z.ltb (req + mn) cnt = true) by (apply Z.ltb_lt; lia).
  destruct k; simpl.
  - destruct (Hs eq_refl) as (A & B & C). destruct state; try congruence; rewrite H2; reflexivity.
  - destruct (Hp eq_refl) as (A & B). rewrite B.
    destruct state; simpl; try congruence; rewrite H2; reflexivity.
Qed.

Lemma timed_out_not_failed : forall k we ig state req mn wt cnt,
  snd (cmd_timed_out k we ig state req mn wt cnt) <> FAILED.
Proof.
  intros k we ig state req mn wt cnt. destruct k; simpl.
  - destruct state; simpl; repeat match goal with |- context [if ?b then _ else _] => destruct b end; discriminate.
  - repeat match goal with |- context [if ?b then _ else _] => destruct b end; discriminate.
Qed.

Lemma zremove_in : forall x l l', zremove x l = Some l' -> forall y, In y l' -> In y l.
Proof.
  induction l as [|z r IH]; intros l' H y Hy; simpl in H; [discriminate|].
  destruct (Z.eqb x z) eqn:E.
  - inversion H; subst. right. exact Hy.
  - destruct (zremove x r) as [r'|] eqn:Er; [|discriminate]. inversion H; subst.
    destruct Hy as [->|Hy]; [left; reflexivity | right; apply (IH r' eq_refl y Hy)].
Qed.

Lemma zremove_nodup : forall x l l', zremove x l = Some l' -> NoDup l -> NoDup l' /\ ~ In x l'.
Proof.
  induction l as [|z r IH]; intros l' H Hn; simpl in H; [discriminate|].
  inversion Hn as [|z' r' Hz Hr]; subst.
  destruct (Z.eqb x z) eqn:E.
  - apply Z.eqb_eq in E. subst z. inversion H; subst. split; assumption.
  - destruct (zremove x r) as [r1|] eqn:Er; [|discriminate]. inversion H; subst.
    destruct (IH r1 eq_refl Hr) as [Hn1 Hx]. split.
    + constructor; [|exact Hn1]. intro Hin. apply Hz. apply (zremove_in _ _ _ Er). exact Hin.
    + intros [Hxz|Hin]; [subst; rewrite Z.eqb_refl in E; discriminate|contradiction].
Qed.

Lemma zremove_present : forall x l, In x l -> exists l', zremove x l = Some l'.
Proof.
  induction l as [|z r IH]; intros Hin; simpl in *; [contradiction|].
  destruct (Z.eqb x z) eqn:E; [eexists; reflexivity|].
  destruct Hin as [->|Hin]; [rewrite Z.eqb_refl in E; discriminate|].
  destruct (IH Hin) as [l' ->]. eexists; reflexivity.
Qed.

Lemma aget_aset_same : forall V (l : alist V) k v, aget k (aset k v l) = Some v.
Proof.
  induction l as [|[k' v'] r IH]; intros k v; simpl; [rewrite Z.eqb_refl; reflexivity|].
  destruct (Z.eqb k k') eqn:E; simpl; rewrite E; [reflexivity|apply IH].
Qed.

(* C10 command_bound (every state): a periodic check of a command whose target counter is beyond
   request counter + wait_ticks takes it out of the current jobs — it is either declared reached (SUCCESS)
   or abandoned with exactly one forced event (FATAL for a start, STOPPED for a stop) carrying the target
   identifier and the time of the last event received — unless it is the documented exception. *)
Theorem command_bound : forall jid cid s c pr i inf cnt j,
  aget cid (s_cmds s) = Some c -> get_proc s (c_app c) (c_proc c) = Some pr ->
  c_ident c = Some i -> aget i (p_infos (sp_st pr)) = Some inf -> counter_of s i = Some cnt ->
  aget jid (s_jobs s) = Some j -> In cid (j_current j) -> NoDup (j_current j) ->
  c_min c <= c_wait c -> c_req c + c_wait c < cnt ->
  ~ (c_kind c = KStart /\ i_state inf = RUNNING /\ pr_wait_exit (sp_rules pr) = true /\ c_ignore_we c = false) ->
  exists push s' j',
    step_aj_check_cmd jid cid s = Ok ((push, []), s') /\
    aget jid (s_jobs s') = Some j' /\ ~ In cid (j_current j') /\
    (forall x, In x (j_current j') -> In x (j_current j)) /\
    (push = [] \/ exists expected,
        push = [Force (c_app c) (c_proc c) (Some i) (i_event_time inf) (failure_state (c_kind c)) (pcode expected)]).
Proof.
  intros jid cid s c pr i inf cnt j Hc Hp Hi Hinf Hcnt Hj Hin Hnd Hmin Hlate Hex.
  destruct (zremove_present _ _ Hin) as [cur Hcur].
  destruct (zremove_nodup _ _ _ Hcur Hnd) as [_ Hnot].
  pose proof (timed_out_bound (c_kind c) (pr_wait_exit (sp_rules pr)) (c_ignore_we c) (i_state inf)
                              (c_req c) (c_min c) (c_wait c) cnt Hmin Hlate) as Hb.
  destruct Hb as [Hb|Hb]; [|exfalso; apply Hex; tauto].
  unfold step_aj_check_cmd, mbind, get_cmd, get_sproc, get_job, lift_opt, mget, ret.
  rewrite Hc. cbv beta iota. rewrite Hp. cbv beta iota. rewrite Hi. cbv beta iota. rewrite Hinf. cbv beta iota.
  rewrite Hcnt. cbv beta iota.
  destruct (cmd_timed_out (c_kind c) (pr_wait_exit (sp_rules pr)) (c_ignore_we c) (i_state inf)
                          (c_req c) (c_min c) (c_wait c) cnt) as [expected res] eqn:Et.
  pose proof (timed_out_not_failed (c_kind c) (pr_wait_exit (sp_rules pr)) (c_ignore_we c) (i_state inf)
                                   (c_req c) (c_min c) (c_wait c) cnt) as Hnf. rewrite Et in Hnf.
  simpl in Hb, Hnf. destruct res; try congruence; cbv beta iota; rewrite Hj; cbv beta iota; rewrite Hcur; cbv beta iota;
    unfold put_job, mmod; cbv beta iota.
  - eexists _, _, _. split; [reflexivity|]. simpl. rewrite aget_aset_same. split; [reflexivity|].
    simpl. split; [exact Hnot|]. split; [apply (zremove_in _ _ _ Hcur)|]. left. reflexivity.
  - eexists _, _, _. split; [reflexivity|]. simpl. rewrite aget_aset_same. split; [reflexivity|].
    simpl. split; [exact Hnot|]. split; [apply (zremove_in _ _ _ Hcur)|]. right. exists expected. reflexivity.
Qed.
