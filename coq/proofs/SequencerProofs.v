(* SequencerProofs.v — lemmas about the agenda-machine model of Starter / Stopper (model/Sequencer.v). *)
From Sup Require Import Base GenProc GenEnums GenSeq ProcStatus Sequencer.
From Coq Require Import Lia ZArith List Bool.
Import ListNotations.
Open Scope Z_scope.

(* ------------------------------------------------------------------ pickup logic: min / max of the keys *)
Lemma zmin_list_le_cur : forall l cur, zmin_list cur l <= cur.
Proof.
  induction l as [|x r IH]; intros cur; simpl; [lia|].
  destruct (Z.ltb x cur) eqn:E; [apply Z.ltb_lt in E; specialize (IH x); lia | apply IH].
Qed.

Lemma zmin_list_le_all : forall l cur y, In y l -> zmin_list cur l <= y.
Proof.
  induction l as [|x r IH]; intros cur y Hin; simpl in *; [contradiction|].
  destruct Hin as [->|Hin].
  - destruct (Z.ltb y cur) eqn:E.
    + apply zmin_list_le_cur.
    + apply Z.ltb_ge in E. pose proof (zmin_list_le_cur r cur). lia.
  - apply IH; exact Hin.
Qed.

Lemma zmin_list_in : forall l cur, zmin_list cur l = cur \/ In (zmin_list cur l) l.
Proof.
  induction l as [|x r IH]; intros cur; simpl; [left; reflexivity|].
  destruct (Z.ltb x cur).
  - destruct (IH x) as [H|H]; [right; left; symmetry; exact H | right; right; exact H].
  - destruct (IH cur) as [H|H]; [left; exact H | right; right; exact H].
Qed.

Lemma zmax_list_ge_cur : forall l cur, cur <= zmax_list cur l.
Proof.
  induction l as [|x r IH]; intros cur; simpl; [lia|].
  destruct (Z.ltb cur x) eqn:E; [apply Z.ltb_lt in E; specialize (IH x); lia | apply IH].
Qed.

Lemma zmax_list_ge_all : forall l cur y, In y l -> y <= zmax_list cur l.
Proof.
  induction l as [|x r IH]; intros cur y Hin; simpl in *; [contradiction|].
  destruct Hin as [->|Hin].
  - destruct (Z.ltb cur y) eqn:E.
    + apply zmax_list_ge_cur.
    + apply Z.ltb_ge in E. pose proof (zmax_list_ge_cur r cur). lia.
  - apply IH; exact Hin.
Qed.

Lemma zmax_list_in : forall l cur, zmax_list cur l = cur \/ In (zmax_list cur l) l.
Proof.
  induction l as [|x r IH]; intros cur; simpl; [left; reflexivity|].
  destruct (Z.ltb cur x).
  - destruct (IH x) as [H|H]; [right; left; symmetry; exact H | right; right; exact H].
  - destruct (IH cur) as [H|H]; [left; exact H | right; right; exact H].
Qed.

(* the generated wiring: Starter side picks the minimum, Stopper side the maximum *)
Lemma pickup_start_min : forall keys k, pickup KStart keys = Some k -> In k keys /\ forall y, In y keys -> k <= y.
Proof.
  intros keys k H. destruct keys as [|x r]; [discriminate|]. unfold pickup in H.
  assert (Hm : gs_starter_pickup_min = true) by (vm_compute; reflexivity).
  rewrite Hm in H. inversion H; subst k; clear H. split.
  - destruct (zmin_list_in r x) as [E|E]; [left; symmetry; exact E | right; exact E].
  - intros y [->|Hy]; [apply zmin_list_le_cur | apply zmin_list_le_all; exact Hy].
Qed.

Lemma pickup_stop_max : forall keys k, pickup KStop keys = Some k -> In k keys /\ forall y, In y keys -> y <= k.
Proof.
  intros keys k H. destruct keys as [|x r]; [discriminate|]. unfold pickup in H.
  assert (Hm : gs_stopper_pickup_min = false) by (vm_compute; reflexivity).
  rewrite Hm in H. inversion H; subst k; clear H. split.
  - destruct (zmax_list_in r x) as [E|E]; [left; symmetry; exact E | right; exact E].
  - intros y [->|Hy]; [apply zmax_list_ge_cur | apply zmax_list_ge_all; exact Hy].
Qed.

(* ------------------------------------------------------------------ monad inversion *)
Lemma mbind_ok : forall A B (m : M A) (f : A -> M B) s b s',
  mbind m f s = Ok (b, s') -> exists a s1, m s = Ok (a, s1) /\ f a s1 = Ok (b, s').
Proof.
  intros A B m f s b s' H. unfold mbind in H. destruct (m s) as [[a s1]|k] eqn:E; [|discriminate].
  exists a, s1. split; [reflexivity|exact H].
Qed.

Ltac minv H :=
  match type of H with
  | mbind _ _ _ = Ok _ =>
      let a := fresh "a" in let s1 := fresh "s" in let H1 := fresh "H" in let H2 := fresh "H" in
      apply mbind_ok in H; destruct H as (a & s1 & H1 & H2)
  | ret _ _ = Ok _ => unfold ret in H; inversion H; subst; clear H
  | mget _ = Ok _ => unfold mget in H; inversion H; subst; clear H
  | fail _ _ = Ok _ => unfold fail in H; discriminate H
  end.

(* ------------------------------------------------------------------ ApplicationJobs.next *)
Lemma aget_of_key : forall V (l : alist V) k, In k (akeys l) -> exists v, aget k l = Some v.
Proof.
  induction l as [|[k' v'] r IH]; intros k Hin; simpl in *; [contradiction|].
  destruct (Z.eqb k k') eqn:E; [eexists; reflexivity|].
  destruct Hin as [Hk|Hin]; [subst; rewrite Z.eqb_refl in E; discriminate | apply IH; exact Hin].
Qed.

Lemma aj_next_group : forall jid s push outs s' j group,
  step_aj_next jid s = Ok ((push, outs), s') -> aget jid (s_jobs s) = Some j ->
  In (AJGroup jid group) push ->
  j_current j = [] /\ exists seq, pickup (j_kind j) (akeys (j_planned j)) = Some seq /\ aget seq (j_planned j) = Some group.
Proof.
  intros jid s push outs s' j group H Hj Hin.
  unfold step_aj_next in H. minv H.
  unfold get_job, lift_opt in H0. rewrite Hj in H0. unfold ret in H0. inversion H0; subst a s0; clear H0.
  destruct (j_current j) eqn:Ec; [|minv H1; contradiction].
  remember (j_planned j) as pl eqn:Ep. destruct pl as [|kv pl']; [minv H1; contradiction|].
  rewrite Ep in H1. destruct (pickup (j_kind j) (akeys (j_planned j))) as [seq|] eqn:Epk; [|minv H1; contradiction].
  minv H1. minv H0. destruct Hin as [Hin|[Hin|[]]]; [|discriminate].
  split; [reflexivity|]. exists seq. split; [rewrite Ep; exact Epk|]. rewrite Ep.
  assert (Hk : In seq (akeys (j_planned j))).
  { destruct (j_kind j); [apply pickup_start_min in Epk | apply pickup_stop_max in Epk]; tauto. }
  apply aget_of_key in Hk. destruct Hk as [g Hg]. rewrite Hg in Hin. inversion Hin; subst. exact Hg.
Qed.

(* C03 / SEQ-shape, local form (every state): the Starter side takes the group of least sequence number, and only
   when no command of the job is in progress *)
Theorem start_group_is_minimum : forall jid s push outs s' j,
  step_aj_next jid s = Ok ((push, outs), s') -> aget jid (s_jobs s) = Some j -> j_kind j = KStart ->
  forall group, In (AJGroup jid group) push ->
    j_current j = [] /\ exists seq, aget seq (j_planned j) = Some group /\ forall y, In y (akeys (j_planned j)) -> seq <= y.
Proof.
  intros jid s push outs s' j H Hj Hk group Hin.
  destruct (aj_next_group _ _ _ _ _ _ _ H Hj Hin) as [Hc [seq [Hp Hg]]].
  split; [exact Hc|]. exists seq. split; [exact Hg|]. rewrite Hk in Hp. apply pickup_start_min in Hp. tauto.
Qed.

(* C09 mirror: the Stopper side takes the group of greatest sequence number *)
Theorem stop_group_is_maximum : forall jid s push outs s' j,
  step_aj_next jid s = Ok ((push, outs), s') -> aget jid (s_jobs s) = Some j -> j_kind j = KStop ->
  forall group, In (AJGroup jid group) push ->
    j_current j = [] /\ exists seq, aget seq (j_planned j) = Some group /\ forall y, In y (akeys (j_planned j)) -> y <= seq.
Proof.
  intros jid s push outs s' j H Hj Hk group Hin.
  destruct (aj_next_group _ _ _ _ _ _ _ H Hj Hin) as [Hc [seq [Hp Hg]]].
  split; [exact Hc|]. exists seq. split; [exact Hg|]. rewrite Hk in Hp. apply pickup_stop_max in Hp. tauto.
Qed.

(* ------------------------------------------------------------------ which calls emit requests *)
Ltac chase H :=
  cbv beta in H;
  lazymatch type of H with
  | ret _ _ = Ok _ => unfold ret in H; inversion H; subst; clear H
  | fail _ _ = Ok _ => discriminate H
  | mbind _ _ _ = Ok _ =>
      let a := fresh "a" in let s1 := fresh "s" in let H1 := fresh "H" in let H2 := fresh "H" in
      apply mbind_ok in H; destruct H as (a & s1 & H1 & H2); clear H1; chase H2
  | (if ?b then _ else _) _ = Ok _ => destruct b; chase H
  | (match ?x with _ => _ end) _ = Ok _ => destruct x; chase H
  | _ => idtac
  end.

Definition emits (c : call) : bool :=
  match c with AJGroup _ _ | Force _ _ _ _ _ _ | CEmit _ => true | _ => false end.

Lemma silent_calls : forall c s push outs s',
  emits c = false -> step_call c s = Ok ((push, outs), s') -> outs = [].
Proof.
  intros c s push outs s' He H.
  destruct c; simpl in He; try discriminate He; simpl in H;
    try (unfold step_next_loop, step_after, step_next_pop, step_aj_next, step_proc_failure, step_on_event,
           step_aj_on_event, step_aj_check_cmd, step_start_proc, step_stop_proc in H);
    chase H; try reflexivity.
Qed.

Lemma lift_opt_ok : forall A (o : option A) k s a s', lift_opt o k s = Ok (a, s') -> o = Some a /\ s' = s.
Proof. intros A o k s a s' H. destruct o; simpl in H; inversion H; auto. Qed.

Lemma get_cmd_ok : forall cid s c s', get_cmd cid s = Ok (c, s') -> aget cid (s_cmds s) = Some c /\ s' = s.
Proof. intros cid s c s' H. unfold get_cmd in H. apply lift_opt_ok in H. exact H. Qed.
Lemma get_sproc_ok : forall a p s pr s', get_sproc a p s = Ok (pr, s') -> get_proc s a p = Some pr /\ s' = s.
Proof. intros a p s pr s' H. unfold get_sproc in H. apply lift_opt_ok in H. exact H. Qed.
Lemma get_job_ok : forall jid s j s', get_job jid s = Ok (j, s') -> aget jid (s_jobs s) = Some j /\ s' = s.
Proof. intros jid s j s' H. unfold get_job in H. apply lift_opt_ok in H. exact H. Qed.

(* C03 / C09, local form, every state: requests are emitted only while a popped group is processed; a start
   request only for a process that is stopped (ProcessStatus.stopped()), a stop request only to an identifier
   where the process is running (ProcessStatus.running_on(identifier)) *)
Lemma group_emits : forall jid cid rest s push outs s' o,
  step_aj_group jid (cid :: rest) s = Ok ((push, outs), s') -> In o outs ->
  exists c pr, aget cid (s_cmds s) = Some c /\ get_proc s (c_app c) (c_proc c) = Some pr /\
    ((exists i, o = OStart i (c_app c) (c_proc c) /\ c_kind c = KStart /\ sp_stopped pr = true)
     \/ (exists i, o = OStop i (c_app c) (c_proc c) /\ c_kind c = KStop /\ c_ident c = Some i
                   /\ sp_running_on pr i = true)).
Proof.
  intros jid cid rest s push outs s' o H Hin. unfold step_aj_group in H.
  apply mbind_ok in H. destruct H as (c & s1 & Hc & H). apply get_cmd_ok in Hc. destruct Hc as [Hc ->].
  apply mbind_ok in H. destruct H as (pr & s2 & Hp & H). apply get_sproc_ok in Hp. destruct Hp as [Hp ->].
  exists c, pr. split; [exact Hc|]. split; [exact Hp|].
  destruct (c_kind c) eqn:Ek.
  - destruct (sp_stopped pr) eqn:Est; [|chase H; (simpl in Hin; contradiction)].
    apply mbind_ok in H. destruct H as (o1 & s3 & _ & H).
    apply mbind_ok in H. destruct H as (c1 & s4 & _ & H).
    destruct (c_ident c1) as [i|]; chase H; [|(simpl in Hin; contradiction)].
    destruct Hin as [<-|[]]. left. exists i. auto.
  - destruct (c_ident c) as [i|] eqn:Ei; [|chase H; (simpl in Hin; contradiction)].
    destruct (sp_running_on pr i) eqn:Er; chase H; [|(simpl in Hin; contradiction)].
    destruct Hin as [<-|[]]. right. exists i. auto.
Qed.

(* calls of a reachable agenda: CEmit only carries the publication of a forced state *)
Definition call_ok (c : call) : Prop :=
  match c with CEmit (OPub _ _ _ _) => True | CEmit _ => False | _ => True end.

Lemma step_pushes_ok : forall c s push outs s',
  step_call c s = Ok ((push, outs), s') -> Forall call_ok push.
Proof.
  intros c s push outs s' H.
  destruct c; simpl in H;
    try (unfold step_next_loop, step_after, step_next_pop, step_aj_next, step_aj_group, step_proc_failure,
           step_force, step_on_event, step_aj_on_event, step_aj_check_cmd, step_start_proc, step_stop_proc in H);
    chase H; repeat (apply Forall_cons; [exact I|]); try apply Forall_nil;
    try (apply Forall_app; split); try (apply Forall_forall; intros x Hx; apply in_map_iff in Hx;
      destruct Hx as (y & <- & _); exact I); repeat (apply Forall_cons; [exact I|]); try apply Forall_nil.
Qed.
