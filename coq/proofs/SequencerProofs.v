(* SequencerProofs.v — lemmas about the agenda-machine model of Starter / Stopper (model/Sequencer.v). *)
From Sup Require Import Base GenProc GenEnums GenSeq ProcStatus Sequencer.
From Coq Require Import Lia ZArith List Bool.
Import ListNotations.
Open Scope Z_scope.

(* ------------------------------------------------------------------ pickup logic: min / max of the keys *)
Lemma zmin_list_le_cur : forall l cur, zmin_list cur l <= cur.
Proof.
  induction l as [|x r IH]; intros cur; simpl; [lia|].
  destruct (Z.ltb x cur) eqn:E; [apply Z.ltb_lt in E; specialize (IH x); lia | apply IH].
Qed.

Lemma zmin_list_le_all : forall l cur y, In y l -> zmin_list cur l <= y.
Proof.
  induction l as [|x r IH]; intros cur y Hin; simpl in *; [contradiction|].
  destruct Hin as [->|Hin].
  - destruct (Z.ltb y cur) eqn:E.
    + apply zmin_list_le_cur.
    + apply Z.ltb_ge in E. pose proof (zmin_list_le_cur r cur). lia.
  - apply IH; exact Hin.
Qed.

Lemma zmin_list_in : forall l cur, zmin_list cur l = cur \/ In (zmin_list cur l) l.
Proof.
  induction l as [|x r IH]; intros cur; simpl; [left; reflexivity|].
  destruct (Z.ltb x cur).
  - destruct (IH x) as [H|H]; [right; left; symmetry; exact H | right; right; exact H].
  - destruct (IH cur) as [H|H]; [left; exact H | right; right; exact H].
Qed.

Lemma zmax_list_ge_cur : forall l cur, cur <= zmax_list cur l.
Proof.
  induction l as [|x r IH]; intros cur; simpl; [lia|].
  destruct (Z.ltb cur x) eqn:E; [apply Z.ltb_lt in E; specialize (IH x); lia | apply IH].
Qed.

Lemma zmax_list_ge_all : forall l cur y, In y l -> y <= zmax_list cur l.
Proof.
  induction l as [|x r IH]; intros cur y Hin; simpl in *; [contradiction|].
  destruct Hin as [->|Hin].
  - destruct (Z.ltb cur y) eqn:E.
    + apply zmax_list_ge_cur.
    + apply Z.ltb_ge in E. pose proof (zmax_list_ge_cur r cur). lia.
  - apply IH; exact Hin.
Qed.

Lemma zmax_list_in : forall l cur, zmax_list cur l = cur \/ In (zmax_list cur l) l.
Proof.
  induction l as [|x r IH]; intros cur; simpl; [left; reflexivity|].
  destruct (Z.ltb cur x).
  - destruct (IH x) as [H|H]; [right; left; symmetry; exact H | right; right; exact H].
  - destruct (IH cur) as [H|H]; [left; exact H | right; right; exact H].
Qed.

(* the generated wiring: Starter side picks the minimum, Stopper side the maximum *)
Lemma pickup_start_min : forall keys k, pickup KStart keys = Some k -> In k keys /\ forall y, In y keys -> k <= y.
Proof.
  intros keys k H. destruct keys as [|x r]; [discriminate|]. unfold pickup in H.
  assert (Hm : gs_starter_pickup_min = true) by (vm_compute; reflexivity).
  rewrite Hm in H. inversion H; subst k; clear H. split.
  - destruct (zmin_list_in r x) as [E|E]; [left; symmetry; exact E | right; exact E].
  - intros y [->|Hy]; [apply zmin_list_le_cur | apply zmin_list_le_all; exact Hy].
Qed.

Lemma pickup_stop_max : forall keys k, pickup KStop keys = Some k -> In k keys /\ forall y, In y keys -> y <= k.
Proof.
  intros keys k H. destruct keys as [|x r]; [discriminate|]. unfold pickup in H.
  assert (Hm : gs_stopper_pickup_min = false) by (vm_compute; reflexivity).
  rewrite Hm in H. inversion H; subst k; clear H. split.
  - destruct (zmax_list_in r x) as [E|E]; [left; symmetry; exact E | right; exact E].
  - intros y [->|Hy]; [apply zmax_list_ge_cur | apply zmax_list_ge_all; exact Hy].
Qed.

(* ------------------------------------------------------------------ monad inversion *)
Lemma mbind_ok : forall A B (m : M A) (f : A -> M B) s b s',
  mbind m f s = Ok (b, s') -> exists a s1, m s = Ok (a, s1) /\ f a s1 = Ok (b, s').
Proof.
  intros A B m f s b s' H. unfold mbind in H. destruct (m s) as [[a s1]|k] eqn:E; [|discriminate].
  exists a, s1. split; [reflexivity|exact H].
Qed.

Ltac minv H :=
  match type of H with
  | mbind _ _ _ = Ok _ =>
      let a := fresh "a" in let s1 := fresh "s" in let H1 := fresh "H" in let H2 := fresh "H" in
      apply mbind_ok in H; destruct H as (a & s1 & H1 & H2)
  | ret _ _ = Ok _ => unfold ret in H; inversion H; subst; clear H
  | mget _ = Ok _ => unfold mget in H; inversion H; subst; clear H
  | fail _ _ = Ok _ => unfold fail in H; discriminate H
  end.

(* ------------------------------------------------------------------ ApplicationJobs.next *)
Lemma aget_of_key : forall V (l : alist V) k, In k (akeys l) -> exists v, aget k l = Some v.
Proof.
  induction l as [|[k' v'] r IH]; intros k Hin; simpl in *; [contradiction|].
  destruct (Z.eqb k k') eqn:E; [eexists; reflexivity|].
  destruct Hin as [Hk|Hin]; [subst; rewrite Z.eqb_refl in E; discriminate | apply IH; exact Hin].
Qed.

Lemma aj_next_group : forall jid s push outs s' j group,
  step_aj_next jid s = Ok ((push, outs), s') -> aget jid (s_jobs s) = Some j ->
  In (AJGroup jid group) push ->
  j_current j = [] /\ exists seq, pickup (j_kind j) (akeys (j_planned j)) = Some seq /\ aget seq (j_planned j) = Some group.
Proof.
  intros jid s push outs s' j group H Hj Hin.
  unfold step_aj_next in H. minv H.
  unfold get_job, lift_opt in H0. rewrite Hj in H0. unfold ret in H0. inversion H0; subst a s0; clear H0.
  destruct (j_current j) eqn:Ec; [|minv H1; contradiction].
  remember (j_planned j) as pl eqn:Ep. destruct pl as [|kv pl']; [minv H1; contradiction|].
  rewrite Ep in H1. destruct (pickup (j_kind j) (akeys (j_planned j))) as [seq|] eqn:Epk; [|minv H1; contradiction].
  minv H1. minv H0. destruct Hin as [Hin|[Hin|[]]]; [|discriminate].
  split; [reflexivity|]. exists seq. split; [rewrite Ep; exact Epk|]. rewrite Ep.
  assert (Hk : In seq (akeys (j_planned j))).
  { destruct (j_kind j); [apply pickup_start_min in Epk | apply pickup_stop_max in Epk]; tauto. }
  apply aget_of_key in Hk. destruct Hk as [g Hg]. rewrite Hg in Hin. inversion Hin; subst. exact Hg.
Qed.

(* C03 / SEQ-shape, local form (every state): the Starter side takes the group of least sequence number, and only
   when no command of the job is in progress *)
Theorem start_group_is_minimum : forall jid s push outs s' j,
  step_aj_next jid s = Ok ((push, outs), s') -> aget jid (s_jobs s) = Some j -> j_kind j = KStart ->
  forall group, In (AJGroup jid group) push ->
    j_current j = [] /\ exists seq, aget seq (j_planned j) = Some group /\ forall y, In y (akeys (j_planned j)) -> seq <= y.
Proof.
  intros jid s push outs s' j H Hj Hk group Hin.
  destruct (aj_next_group _ _ _ _ _ _ _ H Hj Hin) as [Hc [seq [Hp Hg]]].
  split; [exact Hc|]. exists seq. split; [exact Hg|]. rewrite Hk in Hp. apply pickup_start_min in Hp. tauto.
Qed.

(* C09 mirror: the Stopper side takes the group of greatest sequence number *)
Theorem stop_group_is_maximum : forall jid s push outs s' j,
  step_aj_next jid s = Ok ((push, outs), s') -> aget jid (s_jobs s) = Some j -> j_kind j = KStop ->
  forall group, In (AJGroup jid group) push ->
    j_current j = [] /\ exists seq, aget seq (j_planned j) = Some group /\ forall y, In y (akeys (j_planned j)) -> y <= seq.
Proof.
  intros jid s push outs s' j H Hj Hk group Hin.
  destruct (aj_next_group _ _ _ _ _ _ _ H Hj Hin) as [Hc [seq [Hp Hg]]].
  split; [exact Hc|]. exists seq. split; [exact Hg|]. rewrite Hk in Hp. apply pickup_stop_max in Hp. tauto.
Qed.

(* ------------------------------------------------------------------ which calls emit requests *)
Ltac chase H :=
  cbv beta in H;
  lazymatch type of H with
  | ret _ _ = Ok _ => unfold ret in H; inversion H; subst; clear H
  | fail _ _ = Ok _ => discriminate H
  | mbind _ _ _ = Ok _ =>
      let a := fresh "a" in let s1 := fresh "s" in let H1 := fresh "H" in let H2 := fresh "H" in
      apply mbind_ok in H; destruct H as (a & s1 & H1 & H2); clear H1; chase H2
  | (if ?b then _ else _) _ = Ok _ => destruct b; chase H
  | (match ?x with _ => _ end) _ = Ok _ => destruct x; chase H
  | _ => idtac
  end.

Definition emits (c : call) : bool :=
  match c with AJGroup _ _ | Force _ _ _ _ _ _ | CEmit _ => true | _ => false end.

Lemma silent_calls : forall c s push outs s',
  emits c = false -> step_call c s = Ok ((push, outs), s') -> outs = [].
Proof.
  intros c s push outs s' He H.
  destruct c; simpl in He; try discriminate He; simpl in H;
    try (unfold step_next_loop, step_after, step_after_procs, step_next_pop, step_aj_next, step_proc_failure, step_on_event,
           step_aj_on_event, step_aj_check_cmd, step_start_proc, step_stop_proc in H);
    chase H; try reflexivity.
Qed.

Lemma lift_opt_ok : forall A (o : option A) k s a s', lift_opt o k s = Ok (a, s') -> o = Some a /\ s' = s.
Proof. intros A o k s a s' H. destruct o; simpl in H; inversion H; auto. Qed.

Lemma get_cmd_ok : forall cid s c s', get_cmd cid s = Ok (c, s') -> aget cid (s_cmds s) = Some c /\ s' = s.
Proof. intros cid s c s' H. unfold get_cmd in H. apply lift_opt_ok in H. exact H. Qed.
Lemma get_sproc_ok : forall a p s pr s', get_sproc a p s = Ok (pr, s') -> get_proc s a p = Some pr /\ s' = s.
Proof. intros a p s pr s' H. unfold get_sproc in H. apply lift_opt_ok in H. exact H. Qed.
Lemma get_job_ok : forall jid s j s', get_job jid s = Ok (j, s') -> aget jid (s_jobs s) = Some j /\ s' = s.
Proof. intros jid s j s' H. unfold get_job in H. apply lift_opt_ok in H. exact H. Qed.

(* C03 / C09, local form, every state: requests are emitted only while a popped group is processed; a start
   request only for a process that is stopped (ProcessStatus.stopped()), a stop request only to an identifier
   where the process is running (ProcessStatus.running_on(identifier)) *)
Lemma group_emits : forall jid cid rest s push outs s' o,
  step_aj_group jid (cid :: rest) s = Ok ((push, outs), s') -> In o outs ->
  exists c pr, aget cid (s_cmds s) = Some c /\ get_proc s (c_app c) (c_proc c) = Some pr /\
    ((exists i, o = OStart i (c_app c) (c_proc c) /\ c_kind c = KStart /\ sp_stopped pr = true)
     \/ (exists i, o = OStop i (c_app c) (c_proc c) /\ c_kind c = KStop /\ c_ident c = Some i
                   /\ sp_running_on pr i = true)).
Proof.
  intros jid cid rest s push outs s' o H Hin. unfold step_aj_group in H.
  apply mbind_ok in H. destruct H as (c & s1 & Hc & H). apply get_cmd_ok in Hc. destruct Hc as [Hc ->].
  apply mbind_ok in H. destruct H as (pr & s2 & Hp & H). apply get_sproc_ok in Hp. destruct Hp as [Hp ->].
  exists c, pr. split; [exact Hc|]. split; [exact Hp|].
  destruct (c_kind c) eqn:Ek.
  - destruct (sp_stopped pr) eqn:Est; [|chase H; (simpl in Hin; contradiction)].
    apply mbind_ok in H. destruct H as (o1 & s3 & _ & H).
    apply mbind_ok in H. destruct H as (c1 & s4 & _ & H).
    destruct (c_ident c1) as [i|]; chase H; [|(simpl in Hin; contradiction)].
    destruct Hin as [<-|[]]. left. exists i. auto.
  - destruct (c_ident c) as [i|] eqn:Ei; [|chase H; (simpl in Hin; contradiction)].
    destruct (sp_running_on pr i) eqn:Er; chase H; [|(simpl in Hin; contradiction)].
    destruct Hin as [<-|[]]. right. exists i. auto.
Qed.

(* calls of a reachable agenda: CEmit only carries the publication of a forced state *)
Definition call_ok (c : call) : Prop :=
  match c with CEmit (OPub _ _ _ _) => True | CEmit _ => False | _ => True end.

Lemma step_pushes_ok : forall c s push outs s',
  step_call c s = Ok ((push, outs), s') -> Forall call_ok push.
Proof.
  intros c s push outs s' H.
  destruct c; simpl in H;
    try (unfold step_next_loop, step_after, step_after_procs, step_next_pop, step_aj_next, step_aj_group, step_proc_failure,
           step_force, step_on_event, step_aj_on_event, step_aj_check_cmd, step_start_proc, step_stop_proc in H);
    chase H; repeat (apply Forall_cons; [exact I|]); try apply Forall_nil;
    try (apply Forall_app; split); try (apply Forall_forall; intros x Hx; apply in_map_iff in Hx;
      destruct Hx as (y & <- & _); exact I); repeat (apply Forall_cons; [exact I|]); try apply Forall_nil.
  all: try (match goal with |- Forall call_ok (match ?x with _ => _ end) => destruct x end);
       repeat constructor;
       try (apply Forall_forall; intros x Hx; apply in_map_iff in Hx; destruct Hx as (y & <- & _); exact I).
Qed.

(* ------------------------------------------------------------------ the agenda machine with a log *)
(* same machine as Sequencer.exec, recording for every emitted request the state and the call that emitted it *)
Fixpoint exec_log (fuel : nat) (ag : list call) (s : st) (acc : list (st * call * out))
  : result (st * list (st * call * out)) :=
  match ag with
  | [] => Ok (s, rev acc)
  | c :: rest =>
      match fuel with
      | O => Crash OutOfFuel
      | S f =>
          match step_call c s with
          | Crash k => Crash k
          | Ok ((push, outs), s') => exec_log f (push ++ rest) s' (rev (map (fun o => (s, c, o)) outs) ++ acc)
          end
      end
  end.

Lemma exec_log_agrees : forall fuel ag s acc,
  exec fuel ag s (map snd acc) =
  match exec_log fuel ag s acc with Ok (s', log) => Ok (s', map snd log) | Crash k => Crash k end.
Proof.
  induction fuel as [|f IH]; intros ag s acc; destruct ag as [|c rest]; simpl.
  - rewrite map_rev. reflexivity.
  - reflexivity.
  - rewrite map_rev. reflexivity.
  - destruct (step_call c s) as [[[push outs] s']|k]; [|reflexivity].
    rewrite <- IH. f_equal. rewrite map_app, map_rev, map_map. simpl. rewrite map_id. reflexivity.
Qed.

(* every logged request satisfies P as soon as every step of a well-formed agenda does *)
Lemma exec_log_forall : forall (P : st -> call -> out -> Prop),
  (forall c s push outs s', call_ok c -> step_call c s = Ok ((push, outs), s') -> forall o, In o outs -> P s c o) ->
  forall fuel ag s acc s' log,
    Forall call_ok ag -> Forall (fun x => P (fst (fst x)) (snd (fst x)) (snd x)) acc ->
    exec_log fuel ag s acc = Ok (s', log) ->
    Forall (fun x => P (fst (fst x)) (snd (fst x)) (snd x)) log.
Proof.
  intros P HP. induction fuel as [|f IH]; intros ag s acc s' log Hag Hacc H; destruct ag as [|c rest]; simpl in H.
  - inversion H; subst. apply Forall_rev. exact Hacc.
  - discriminate.
  - inversion H; subst. apply Forall_rev. exact Hacc.
  - destruct (step_call c s) as [[[push outs] s1]|k] eqn:E; [|discriminate].
    inversion Hag as [|c' r' Hc Hr]; subst.
    apply (IH _ _ _ _ _) in H; [exact H| |].
    + apply Forall_app. split; [exact (step_pushes_ok _ _ _ _ _ E)|exact Hr].
    + apply Forall_app. split; [|exact Hacc]. apply Forall_rev. apply Forall_forall. intros x Hx.
      apply in_map_iff in Hx. destruct Hx as (o & <- & Ho). simpl. exact (HP _ _ _ _ _ Hc E o Ho).
Qed.

Definition emitted_in_order (P : st -> call -> out -> Prop) (log : list (st * call * out)) : Prop :=
  Forall (fun x => P (fst (fst x)) (snd (fst x)) (snd x)) log.

(* what holds of every single emission: requests come from a group being processed *)
Definition emission_fact (s : st) (c : call) (o : out) : Prop :=
  match o with
  | OStart i a p =>
      exists jid cid rest cm pr, c = AJGroup jid (cid :: rest) /\ aget cid (s_cmds s) = Some cm /\
        c_kind cm = KStart /\ c_app cm = a /\ c_proc cm = p /\
        get_proc s a p = Some pr /\ sp_stopped pr = true
  | OStop i a p =>
      exists jid cid rest cm pr, c = AJGroup jid (cid :: rest) /\ aget cid (s_cmds s) = Some cm /\
        c_kind cm = KStop /\ c_app cm = a /\ c_proc cm = p /\ c_ident cm = Some i /\
        get_proc s a p = Some pr /\ sp_running_on pr i = true
  | _ => True
  end.

Lemma emission_fact_step : forall c s push outs s',
  call_ok c -> step_call c s = Ok ((push, outs), s') -> forall o, In o outs -> emission_fact s c o.
Proof.
  intros c s push outs s' Hok H o Hin.
  destruct (emits c) eqn:He; [|rewrite (silent_calls _ _ _ _ _ He H) in Hin; simpl in Hin; contradiction].
  destruct c; simpl in He; try discriminate He; simpl in H.
  - destruct group as [|cid rest]; [simpl in H; chase H; simpl in Hin; contradiction|].
    destruct (group_emits _ _ _ _ _ _ _ _ H Hin) as (cm & pr & Hc & Hp & [(i & -> & Hk & Hs)|(i & -> & Hk & Hi & Hr)]);
      simpl; exists jid, cid, rest, cm, pr; repeat split; auto.
  - unfold step_force in H. chase H; destruct Hin as [<-|Hin]; simpl; auto; simpl in Hin; contradiction.
  - chase H. destruct Hin as [<-|[]]. destruct o0; simpl in Hok; try contradiction. exact I.
Qed.

(* C09 stop_only_where_running and the start counterpart, for EVERY run of the agenda machine from ANY state:
   each StopReq was emitted in a state where the process was running on the requested identifier, each StartReq in
   a state where the process was stopped; both while the popped group of an application job was processed *)
Theorem requests_only_from_groups : forall fuel ag s s' log,
  Forall call_ok ag -> exec_log fuel ag s [] = Ok (s', log) -> emitted_in_order emission_fact log.
Proof.
  intros fuel ag s s' log Hag H. unfold emitted_in_order.
  apply (exec_log_forall emission_fact emission_fact_step fuel ag s [] s' log Hag); [constructor|exact H].
Qed.

(* ------------------------------------------------------------------ C10: timeouts *)
Lemma tick_period_pos : 0 < gs_TICK_PERIOD.
Proof. vm_compute. reflexivity. Qed.

(* wait_ticks setter: the least number of ticks covering the configured seconds *)
Lemma ceil_ticks_spec : forall secs,
  secs <= ceil_ticks secs * gs_TICK_PERIOD /\ (ceil_ticks secs - 1) * gs_TICK_PERIOD < secs.
Proof.
  intros secs. unfold ceil_ticks. pose proof tick_period_pos as Hp.
  pose proof (Z.div_mod (secs + gs_TICK_PERIOD - 1) gs_TICK_PERIOD ltac:(lia)) as Hd.
  pose proof (Z.mod_pos_bound (secs + gs_TICK_PERIOD - 1) gs_TICK_PERIOD Hp) as Hm.
  nia.
Qed.

Lemma ceil_ticks_nonneg : forall secs, 0 <= secs -> 0 <= ceil_ticks secs.
Proof.
  intros secs H. unfold ceil_ticks. apply Z.div_pos; pose proof tick_period_pos; lia.
Qed.

Lemma minimum_ticks_ge : forall s, gs_DEFAULT_TICK_TIMEOUT <= minimum_ticks s.
Proof. intros s. unfold minimum_ticks. lia. Qed.

(* wait_ticks = ceil(secs / period) + minimum_ticks, as set by update_identifier *)
Lemma update_identifier_wait : forall c i s c' s',
  update_identifier c i s = Ok (c', s') ->
  s' = s /\ c_ident c' = Some i /\ c_min c' = c_min c /\ c_req c' = c_req c /\ c_id c' = c_id c /\
  c_kind c' = c_kind c /\ c_app c' = c_app c /\ c_proc c' = c_proc c /\ c_ignore_we c' = c_ignore_we c /\
  exists pr, get_proc s (c_app c) (c_proc c) = Some pr /\ amem i (p_infos (sp_st pr)) = true /\
    c_wait c' = ceil_ticks (match c_kind c with KStart => sp_startsecs pr | KStop => sp_stopwaitsecs pr end) + c_min c.
Proof.
  intros c i s c' s' H. unfold update_identifier in H.
  apply mbind_ok in H. destruct H as (s0 & s1 & H0 & H). unfold mget in H0. inversion H0; subst s0 s1; clear H0.
  apply mbind_ok in H. destruct H as (ins & s1 & H0 & H). apply lift_opt_ok in H0. destruct H0 as [_ ->].
  apply mbind_ok in H. destruct H as (pr & s1 & H0 & H). apply get_sproc_ok in H0. destruct H0 as [Hp ->].
  apply mbind_ok in H. destruct H as (inf & s1 & H0 & H). apply lift_opt_ok in H0. destruct H0 as [Hi ->].
  unfold ret in H. inversion H; subst; clear H. simpl. repeat split; try reflexivity.
  exists pr. repeat split; auto. unfold amem. rewrite Hi. reflexivity.
Qed.

(* command_bound, arithmetic core (T2-style, but for all integers): beyond request counter + wait_ticks the
   command is not kept IN_PROGRESS, the only exception being a RUNNING wait_exit program (documented) *)
Lemma timed_out_bound : forall k we ig state req mn wt cnt,
  mn <= wt -> req + wt < cnt ->
  snd (cmd_timed_out k we ig state req mn wt cnt) <> IN_PROGRESS
  \/ (k = KStart /\ state = RUNNING /\ we = true /\ ig = false).
Proof.
  intros k we ig state req mn wt cnt Hm Hc.
  assert (H1 : Z.ltb (req + wt) cnt = true) by (apply Z.ltb_lt; lia).
  assert (H2 : Z.ltb (req + mn) cnt = true) by (apply Z.ltb_lt; lia).
  destruct k; simpl.
  - destruct state; simpl; rewrite ?H1, ?H2; simpl; try (left; discriminate).
    destruct we, ig; simpl; try (left; discriminate). right. auto.
  - destruct (pstate_eqb state STOPPING); [rewrite H1; left; discriminate|].
    destruct (is_stopped state); [left; discriminate|]. rewrite H2. left. discriminate.
Qed.

(* the precise timeouts: minimum_ticks for the acknowledgement, wait_ticks for the completion *)
Lemma timed_out_ack : forall k we ig state req mn wt cnt,
  req + mn < cnt ->
  (k = KStart -> state <> RUNNING /\ state <> STARTING /\ state <> BACKOFF) ->
  (k = KStop -> state <> STOPPING /\ is_stopped state = false) ->
  snd (cmd_timed_out k we ig state req mn wt cnt) = TIMED_OUT.
Proof.
  intros k we ig state req mn wt cnt Hc Hs Hp.
  assert (H2 : Z.ltb (req + mn) cnt = true) by (apply Z.ltb_lt; lia).
  destruct k; simpl.
  - destruct (Hs eq_refl) as (A & B & C). destruct state; try congruence; rewrite H2; reflexivity.
  - destruct (Hp eq_refl) as (A & B). rewrite B.
    destruct state; simpl; try congruence; rewrite H2; reflexivity.
Qed.

Lemma timed_out_not_failed : forall k we ig state req mn wt cnt,
  snd (cmd_timed_out k we ig state req mn wt cnt) <> FAILED.
Proof.
  intros k we ig state req mn wt cnt. destruct k; simpl.
  - destruct state; simpl; repeat match goal with |- context [if ?b then _ else _] => destruct b end; discriminate.
  - repeat match goal with |- context [if ?b then _ else _] => destruct b end; discriminate.
Qed.

Lemma zremove_in : forall x l l', zremove x l = Some l' -> forall y, In y l' -> In y l.
Proof.
  induction l as [|z r IH]; intros l' H y Hy; simpl in H; [discriminate|].
  destruct (Z.eqb x z) eqn:E.
  - inversion H; subst. right. exact Hy.
  - destruct (zremove x r) as [r'|] eqn:Er; [|discriminate]. inversion H; subst.
    destruct Hy as [->|Hy]; [left; reflexivity | right; apply (IH r' eq_refl y Hy)].
Qed.

Lemma zremove_nodup : forall x l l', zremove x l = Some l' -> NoDup l -> NoDup l' /\ ~ In x l'.
Proof.
  induction l as [|z r IH]; intros l' H Hn; simpl in H; [discriminate|].
  inversion Hn as [|z' r' Hz Hr]; subst.
  destruct (Z.eqb x z) eqn:E.
  - apply Z.eqb_eq in E. subst z. inversion H; subst. split; assumption.
  - destruct (zremove x r) as [r1|] eqn:Er; [|discriminate]. inversion H; subst.
    destruct (IH r1 eq_refl Hr) as [Hn1 Hx]. split.
    + constructor; [|exact Hn1]. intro Hin. apply Hz. apply (zremove_in _ _ _ Er). exact Hin.
    + intros [Hxz|Hin]; [subst; rewrite Z.eqb_refl in E; discriminate|contradiction].
Qed.

Lemma zremove_present : forall x l, In x l -> exists l', zremove x l = Some l'.
Proof.
  induction l as [|z r IH]; intros Hin; simpl in *; [contradiction|].
  destruct (Z.eqb x z) eqn:E; [eexists; reflexivity|].
  destruct Hin as [->|Hin]; [rewrite Z.eqb_refl in E; discriminate|].
  destruct (IH Hin) as [l' ->]. eexists; reflexivity.
Qed.

Lemma aget_aset_same : forall V (l : alist V) k v, aget k (aset k v l) = Some v.
Proof.
  induction l as [|[k' v'] r IH]; intros k v; simpl; [rewrite Z.eqb_refl; reflexivity|].
  destruct (Z.eqb k k') eqn:E; simpl; rewrite E; [reflexivity|apply IH].
Qed.

(* C10 command_bound (every state): a periodic check of a command whose target counter is beyond
   request counter + wait_ticks takes it out of the current jobs — it is either declared reached (SUCCESS)
   or abandoned with exactly one forced event (FATAL for a start, STOPPED for a stop) carrying the target
   identifier and the time of the last event received — unless it is the documented exception. *)
Theorem command_bound : forall jid cid s c pr i inf cnt j,
  aget cid (s_cmds s) = Some c -> get_proc s (c_app c) (c_proc c) = Some pr ->
  c_ident c = Some i -> aget i (p_infos (sp_st pr)) = Some inf -> counter_of s i = Some cnt ->
  aget jid (s_jobs s) = Some j -> In cid (j_current j) -> NoDup (j_current j) ->
  c_min c <= c_wait c -> c_req c + c_wait c < cnt ->
  ~ (c_kind c = KStart /\ i_state inf = RUNNING /\ pr_wait_exit (sp_rules pr) = true /\ c_ignore_we c = false) ->
  exists push s' j',
    step_aj_check_cmd jid cid s = Ok ((push, []), s') /\
    aget jid (s_jobs s') = Some j' /\ ~ In cid (j_current j') /\
    (forall x, In x (j_current j') -> In x (j_current j)) /\
    (push = [] \/ exists expected,
        push = [Force (c_app c) (c_proc c) (Some i) (i_event_time inf) (failure_state (c_kind c)) (pcode expected)]).
Proof.
  intros jid cid s c pr i inf cnt j Hc Hp Hi Hinf Hcnt Hj Hin Hnd Hmin Hlate Hex.
  destruct (zremove_present _ _ Hin) as [cur Hcur].
  destruct (zremove_nodup _ _ _ Hcur Hnd) as [_ Hnot].
  pose proof (timed_out_bound (c_kind c) (pr_wait_exit (sp_rules pr)) (c_ignore_we c) (i_state inf)
                              (c_req c) (c_min c) (c_wait c) cnt Hmin Hlate) as Hb.
  destruct Hb as [Hb|Hb]; [|exfalso; apply Hex; tauto].
  unfold step_aj_check_cmd, mbind, get_cmd, get_sproc, get_job, lift_opt, mget, ret.
  rewrite Hc. cbv beta iota. rewrite Hp. cbv beta iota. rewrite Hi. cbv beta iota. rewrite Hinf. cbv beta iota.
  rewrite Hcnt. cbv beta iota.
  destruct (cmd_timed_out (c_kind c) (pr_wait_exit (sp_rules pr)) (c_ignore_we c) (i_state inf)
                          (c_req c) (c_min c) (c_wait c) cnt) as [expected res] eqn:Et.
  pose proof (timed_out_not_failed (c_kind c) (pr_wait_exit (sp_rules pr)) (c_ignore_we c) (i_state inf)
                                   (c_req c) (c_min c) (c_wait c) cnt) as Hnf. rewrite Et in Hnf.
  simpl in Hb, Hnf. destruct res; try congruence; cbv beta iota; rewrite Hj; cbv beta iota; rewrite Hcur; cbv beta iota;
    unfold put_job, mmod; cbv beta iota.
  - eexists _, _, _. split; [reflexivity|]. simpl. rewrite aget_aset_same. split; [reflexivity|].
    simpl. split; [exact Hnot|]. split; [apply (zremove_in _ _ _ Hcur)|]. left. reflexivity.
  - eexists _, _, _. split; [reflexivity|]. simpl. rewrite aget_aset_same. split; [reflexivity|].
    simpl. split; [exact Hnot|]. split; [apply (zremove_in _ _ _ Hcur)|]. right. exists expected. reflexivity.
Qed.

(* C10 forced_state_published (every state): abandoning a command publishes exactly one forced event: one entry
   in the local handling (displayed state becomes the failure state when the local instance takes it, then
   both sequencers are told, i.e. the sequence moves on) and one publication to the other instances *)
Theorem forced_state_published : forall a p target et fs reason s push outs s',
  step_force a p target et fs reason s = Ok ((push, outs), s') ->
  outs = [OForced a p fs reason target] /\
  ((push = [COnEvent KStart a p local_id; COnEvent KStop a p local_id; CEmit (OPub a p fs true)] /\
    exists pr', get_proc s' a p = Some pr' /\ sp_displayed pr' = fs)
   \/ (push = [CEmit (OPub a p fs false)] /\ s' = s)).
Proof.
  intros a p target et fs reason s push outs s' H. unfold step_force in H.
  apply mbind_ok in H. destruct H as (s0 & s1 & H0 & H). unfold mget in H0. inversion H0; subst s0 s1; clear H0.
  destruct (match aget local_id (s_insts s) with Some ins => inst_accepts ins | None => false end);
    [|unfold ret in H; inversion H; subst; split; [reflexivity|right; auto]].
  destruct (get_proc s a p) as [pr|] eqn:Ep; [|unfold ret in H; inversion H; subst; split; [reflexivity|right; auto]].
  destruct (force_state (sp_st pr) (match target with Some i => i | None => 0 end) fs et) as [p' forced] eqn:Ef.
  destruct forced; [|unfold ret in H; inversion H; subst; split; [reflexivity|right; auto]].
  apply mbind_ok in H. destruct H as (u & s1 & H0 & H). unfold ret in H. inversion H; subst; clear H.
  split; [reflexivity|]. left. split; [reflexivity|].
  (* the process table after put_sproc *)
  unfold put_sproc in H0. apply mbind_ok in H0. destruct H0 as (ap & s2 & Ha & H0).
  unfold get_app in Ha. apply lift_opt_ok in Ha. destruct Ha as [Ha ->].
  unfold mmod in H0. inversion H0; subst s'; clear H0.
  unfold force_state in Ef.
  destruct (match aget (match target with Some i => i | None => 0 end) (p_infos (sp_st pr)) with
            | Some inf => i_event_time inf <=? et | None => true end); inversion Ef; subst p'; clear Ef.
  eexists. unfold get_proc. simpl. rewrite aget_aset_same.
  split.
  - destruct (app_update (app_set_procs ap (aset p (set_sp_st pr _ (sp_stop0 pr)) (sa_procs ap)))) eqn:Eu.
    unfold app_update in Eu. inversion Eu; subst. simpl. rewrite aget_aset_same. reflexivity.
  - reflexivity.
Qed.

(* C10 lost_target (every job, every state): after on_instances_invalidation no current command targets a lost
   instance *)
Lemma inval_current_spec : forall s lost cids j failed j' failed',
  inval_current s lost cids j failed = (j', failed') -> NoDup (j_current j) ->
  NoDup (j_current j') /\
  (forall x, In x (j_current j') -> In x (j_current j)) /\
  (forall x c i, In x cids -> In x (j_current j') -> aget x (s_cmds s) = Some c -> c_ident c = Some i ->
                 zmem i lost = false).
Proof.
  intros s lost. induction cids as [|cid r IH]; intros j failed j' failed' H Hnd; simpl in H.
  - inversion H; subst. repeat split; auto. intros x c i [].
  - destruct (aget cid (s_cmds s)) as [c|] eqn:Ec.
    + destruct (match c_ident c with Some i => zmem i lost | None => false end) eqn:El.
      * (* removed *)
        destruct (zremove cid (j_current j)) as [cur|] eqn:Er.
        -- destruct (zremove_nodup _ _ _ Er Hnd) as [Hnd1 Hnot].
           set (j1 := set_job_fields j (j_planned j) cur (j_stop_request j)) in *.
           set (j2 := match get_proc s (c_app c) (c_proc c) with
                      | Some pr => process_failure j1 (sp_rules pr) | None => j1 end) in *.
           assert (Hcur2 : j_current j2 = cur).
           { unfold j2. destruct (get_proc s (c_app c) (c_proc c)); [|reflexivity].
             unfold process_failure. destruct (j_kind j1); [|reflexivity].
             destruct (pr_required (sp_rules s0)); [|reflexivity].
             destruct (Z.eqb (pr_sfs (sp_rules s0)) gen_StartingFailureStrategies_ABORT); [reflexivity|].
             destruct (Z.eqb (pr_sfs (sp_rules s0)) gen_StartingFailureStrategies_STOP); reflexivity. }
           apply IH in H; [|rewrite Hcur2; exact Hnd1]. destruct H as (Hn & Hsub & Hl).
           split; [exact Hn|]. split.
           ++ intros x Hx. apply Hsub in Hx. rewrite Hcur2 in Hx. apply (zremove_in _ _ _ Er). exact Hx.
           ++ intros x c0 i [->|Hx] Hin Hc0 Hi; [|eapply Hl; eauto].
              exfalso. apply Hnot. apply Hsub in Hin. rewrite Hcur2 in Hin. exact Hin.
        -- (* the command was not in the list: list.remove would raise; the model keeps the list *)
           set (j1 := set_job_fields j (j_planned j) (j_current j) (j_stop_request j)) in *.
           set (j2 := match get_proc s (c_app c) (c_proc c) with
                      | Some pr => process_failure j1 (sp_rules pr) | None => j1 end) in *.
           assert (Hcur2 : j_current j2 = j_current j).
           { unfold j2. destruct (get_proc s (c_app c) (c_proc c)); [|reflexivity].
             unfold process_failure. destruct (j_kind j1); [|reflexivity].
             destruct (pr_required (sp_rules s0)); [|reflexivity].
             destruct (Z.eqb (pr_sfs (sp_rules s0)) gen_StartingFailureStrategies_ABORT); [reflexivity|].
             destruct (Z.eqb (pr_sfs (sp_rules s0)) gen_StartingFailureStrategies_STOP); reflexivity. }
           apply IH in H; [|rewrite Hcur2; exact Hnd]. destruct H as (Hn & Hsub & Hl).
           split; [exact Hn|]. split.
           ++ intros x Hx. apply Hsub in Hx. rewrite Hcur2 in Hx. exact Hx.
           ++ intros x c0 i [->|Hx] Hin Hc0 Hi; [|eapply Hl; eauto].
              exfalso. apply Hsub in Hin. rewrite Hcur2 in Hin.
              destruct (zremove_present _ _ Hin) as [l' Hl']. congruence.
      * apply IH in H; [|exact Hnd]. destruct H as (Hn & Hsub & Hl).
        split; [exact Hn|]. split; [exact Hsub|].
        intros x c0 i [->|Hx] Hin Hc0 Hi; [|eapply Hl; eauto].
        rewrite Ec in Hc0. inversion Hc0; subst c0. rewrite Hi in El. exact El.
    + apply IH in H; [|exact Hnd]. destruct H as (Hn & Hsub & Hl).
      split; [exact Hn|]. split; [exact Hsub|].
      intros x c0 i [->|Hx] Hin Hc0 Hi; [congruence|eapply Hl; eauto].
Qed.

Theorem lost_target : forall s lost j failed j' failed',
  inval_job s lost j failed = (j', failed') -> NoDup (j_current j) ->
  forall cid c i, In cid (j_current j') -> aget cid (s_cmds s) = Some c -> c_ident c = Some i -> zmem i lost = false.
Proof.
  intros s lost j failed j' failed' H Hnd cid c i Hin Hc Hi. unfold inval_job in H.
  destruct (inval_current s lost (j_current j) j failed) as [j1 f1] eqn:E. inversion H; subst j'; clear H.
  destruct (inval_current_spec _ _ _ _ _ _ _ E Hnd) as (_ & Hsub & Hl).
  eapply Hl; eauto.
Qed.

(* ------------------------------------------------------------------ C03: starting failure strategy *)
(* process_failure: ABORT and STOP erase the plan of the job (nothing further will be requested from it), STOP
   also raises stop_request; CONTINUE and optional processes leave the plan unchanged; current jobs always go on *)
Theorem failure_strategy_abort_stop_continue : forall j r,
  j_kind j = KStart ->
  j_current (process_failure j r) = j_current j /\
  (pr_required r = true -> pr_sfs r = gen_StartingFailureStrategies_ABORT ->
     j_planned (process_failure j r) = [] /\ j_stop_request (process_failure j r) = j_stop_request j) /\
  (pr_required r = true -> pr_sfs r = gen_StartingFailureStrategies_STOP ->
     j_planned (process_failure j r) = [] /\ j_stop_request (process_failure j r) = true) /\
  (pr_required r = false \/ pr_sfs r = gen_StartingFailureStrategies_CONTINUE -> process_failure j r = j).
Proof.
  intros j r Hk. unfold process_failure. rewrite Hk.
  assert (Hd : gen_StartingFailureStrategies_ABORT <> gen_StartingFailureStrategies_STOP
               /\ gen_StartingFailureStrategies_CONTINUE <> gen_StartingFailureStrategies_ABORT
               /\ gen_StartingFailureStrategies_CONTINUE <> gen_StartingFailureStrategies_STOP)
    by (vm_compute; repeat split; discriminate).
  destruct Hd as (D1 & D2 & D3).
  repeat split.
  - destruct (pr_required r); [|reflexivity].
    destruct (Z.eqb (pr_sfs r) gen_StartingFailureStrategies_ABORT); [reflexivity|].
    destruct (Z.eqb (pr_sfs r) gen_StartingFailureStrategies_STOP); reflexivity.
  - rewrite H, H0, Z.eqb_refl. reflexivity.
  - rewrite H, H0, Z.eqb_refl. reflexivity.
  - rewrite H, H0. destruct (Z.eqb gen_StartingFailureStrategies_STOP gen_StartingFailureStrategies_ABORT) eqn:E.
    + apply Z.eqb_eq in E. congruence.
    + rewrite Z.eqb_refl. reflexivity.
  - rewrite H, H0. destruct (Z.eqb gen_StartingFailureStrategies_STOP gen_StartingFailureStrategies_ABORT) eqn:E.
    + apply Z.eqb_eq in E. congruence.
    + rewrite Z.eqb_refl. reflexivity.
  - intros [H|H]; [rewrite H; reflexivity|]. rewrite H.
    destruct (pr_required r); [|reflexivity].
    destruct (Z.eqb gen_StartingFailureStrategies_CONTINUE gen_StartingFailureStrategies_ABORT) eqn:E1;
      [apply Z.eqb_eq in E1; congruence|].
    destruct (Z.eqb gen_StartingFailureStrategies_CONTINUE gen_StartingFailureStrategies_STOP) eqn:E2;
      [apply Z.eqb_eq in E2; congruence|]. reflexivity.
Qed.

(* STOP is applied only once in-flight starts have ended: Starter.after (the only place that calls
   Stopper.stop_application for a stop_request) is reached from Commander.next only for a job with nothing planned
   and nothing current, and it lowers the flag (exactly one stop_application per raised flag) *)
Theorem stop_applied_after_in_flight : forall k a jid rest s push outs s',
  step_next_loop k ((a, jid) :: rest) s = Ok ((push, outs), s') ->
  In (CAfter k jid) push ->
  exists j, aget jid (s_jobs s) = Some j /\ j_planned j = [] /\ j_current j = [].
Proof.
  intros k a jid rest s push outs s' H Hin. unfold step_next_loop in H.
  apply mbind_ok in H. destruct H as (j & s1 & Hj & H). apply get_job_ok in Hj. destruct Hj as [Hj ->].
  exists j. split; [exact Hj|]. unfold job_in_progress in H.
  destruct (j_planned j); destruct (j_current j); unfold ret in H; inversion H; subst;
    try (split; reflexivity); destruct Hin as [Hin|[]]; discriminate.
Qed.

Theorem after_lowers_stop_request : forall jid s push outs s',
  step_after KStart jid s = Ok ((push, outs), s') ->
  (exists j, aget jid (s_jobs s) = Some j /\ j_stop_request j = false /\ push = [] /\ s' = s)
  \/ (exists j j', aget jid (s_jobs s) = Some j /\ j_stop_request j = true /\ push = [CStopApp (j_app j)] /\
                   aget jid (s_jobs s') = Some j' /\ j_stop_request j' = false).
Proof.
  intros jid s push outs s' H. unfold step_after in H.
  apply mbind_ok in H. destruct H as (j & s1 & Hj & H). apply get_job_ok in Hj. destruct Hj as [Hj ->].
  destruct (j_stop_request j) eqn:Es.
  - apply mbind_ok in H. destruct H as (u & s1 & Hp & H). unfold ret in H. inversion H; subst; clear H.
    right. exists j. eexists. repeat split; auto.
    + unfold put_job, mmod in Hp. inversion Hp; subst. simpl. apply aget_aset_same.
    + reflexivity.
  - unfold ret in H. inversion H; subst. left. exists j. auto.
Qed.

(* ------------------------------------------------------------------ witnesses (replayed on the real classes by the
   corpus harness/corpus/sequencer.json on every run) *)
Definition w_insts : list (Z * Z * Z) := [(1, 3, 10); (2, 3, 10); (3, 3, 10); (4, 3, 10); (5, 3, 10); (6, 3, 10)].
Definition w_proc (name start : Z) (required : bool) (insts : list Z) : pconf :=
  mkPConf name (mkPRules start 0 required false 0) 1 1 insts.

(* F-A: A1 (start_sequence 1) = {p1 : no resource, p2}, A2 (start_sequence 2) = {p1} *)
Definition w_cf_a : config :=
  mkConfig w_insts [mkAConf 1 true 1 1 0 [w_proc 1 1 false [1]; w_proc 2 1 false [2]];
                    mkAConf 2 true 2 2 0 [w_proc 1 1 false [3]]] 1000.
Definition w_ops_a : list top :=
  [(OpCall CStartApps, 1001, [OPlace None; OPlace (Some 3); OPlace (Some 2)])].

Definition outs_of (o : obs) : list out := match o with OOk outs _ _ _ _ _ => outs | OCrash _ => [] end.

(* C03 application_order is FALSE of the faithful model: with A1 at sequence 1 and A2 at sequence 2,
   start_applications requests A2:p1 BEFORE A1:p2, and the Starter forgets A1 (its job is deleted while its group
   is still being processed) *)
Theorem application_order_refuted :
  exists cf ops,
    map outs_of (run default_fuel (init_st cf) ops)
      = [[OForced 1 1 FATAL (-1) None; OStart 3 2 1; OPub 1 1 FATAL true; OStart 2 1 2]]
    /\ cf_app_start cf 1 = 1 /\ cf_app_start cf 2 = 2
    /\ has_vio [V_app_order] (case_vios (cf, ops, run default_fuel (init_st cf) ops)) = true.
Proof. exists w_cf_a, w_ops_a. vm_compute. repeat split; reflexivity. Qed.

(* ... and C10: the orphan command A1:p2 is never checked: A2 completes, the Starter reports no job in progress
   while A1:p2 is still starting, and no number of ticks followed by checks ever abandons it *)
Definition w_ops_a10 : list top :=
  w_ops_a ++ [(OpEvent 3 2 1 STARTING true 1002, 1002, []); (OpEvent 3 2 1 RUNNING true 1003, 1003, []);
              (OpTicks [(2, 60); (3, 60)] 1004, 1004, []); (OpCheck, 1005, [])].
Theorem job_bound_refuted :
  exists cf ops,
    let observed := run default_fuel (init_st cf) ops in
    has_vio [V_bound] (case_vios (cf, ops, observed)) = true
    /\ has_vio [V_progress] (case_vios (cf, ops, observed)) = true
    /\ match rev observed with OOk outs starting _ _ _ _ :: _ => outs = [] /\ starting = false | _ => False end.
Proof. exists w_cf_a, w_ops_a10. vm_compute. repeat split; reflexivity. Qed.

(* F-B: restart of A1 whose p1 finds no resource: Commander.next raises KeyError *)
Definition w_cf_b : config :=
  mkConfig w_insts [mkAConf 1 true 1 1 0 [w_proc 1 1 false [1]; w_proc 2 1 false [5]]] 1000.
Definition w_ops_b : list top :=
  [(OpEvent 5 1 2 STARTING true 1001, 1001, []); (OpEvent 5 1 2 RUNNING true 1002, 1002, []);
   (OpCall (CRestartApp 0 1), 1003, []);
   (OpEvent 5 1 2 STOPPED true 1004, 1004, [OPlace None; OPlace (Some 5)])].
Theorem no_internal_failure_refuted :
  exists cf ops, last (run default_fuel (init_st cf) ops) (OCrash OtherError) = OCrash KeyError.
Proof. exists w_cf_b, w_ops_b. vm_compute. reflexivity. Qed.

(* timeout of a REQUIRED process whose strategy is ABORT: the next sequence is requested all the same
   (ApplicationJobs.check calls fail_command but not process_failure) *)
Definition w_cf_c : config :=
  mkConfig w_insts [mkAConf 1 true 1 1 0 [w_proc 1 1 true [2]; w_proc 2 2 false [2]]] 1000.
Definition w_ops_c : list top :=
  [(OpCall (CStartApp 0 1), 1001, [OPlace (Some 2)]); (OpTicks [(2, 14)] 1002, 1002, []);
   (OpCheck, 1003, [OPlace (Some 2)])].
Theorem failure_strategy_on_timeout_refuted :
  exists cf ops,
    map outs_of (run default_fuel (init_st cf) ops)
      = [[OStart 2 1 1]; []; [OForced 1 1 FATAL 10 (Some 2); OPub 1 1 FATAL true; OStart 2 1 2]]
    /\ pr_required (cf_rules cf 1 1) = true /\ pr_sfs (cf_rules cf 1 1) = gen_StartingFailureStrategies_ABORT
    /\ has_vio [V_strategy_timeout] (case_vios (cf, ops, run default_fuel (init_st cf) ops)) = true.
Proof. exists w_cf_c, w_ops_c. vm_compute. repeat split; reflexivity. Qed.

(* ------------------------------------------------------------------ satisfiability of the hypotheses *)
(* state reached by witness C after its first operation: job 3 holds the command 1 (A1:p1 on instance 2) *)
Definition w_state_c : st :=
  match run_op default_fuel (init_st w_cf_c) (OpCall (CStartApp 0 1), 1001, [OPlace (Some 2)]) with
  | Ok (s, _) => set_insts (aset 2 (mkSInst 3 14) (s_insts s)) s
  | Crash _ => init_st w_cf_c
  end.

Example command_bound_hypotheses_hold :
  exists c pr inf j,
    aget 1 (s_cmds w_state_c) = Some c /\ get_proc w_state_c (c_app c) (c_proc c) = Some pr /\
    c_ident c = Some 2 /\ aget 2 (p_infos (sp_st pr)) = Some inf /\ counter_of w_state_c 2 = Some 14 /\
    aget 3 (s_jobs w_state_c) = Some j /\ j_current j = [1] /\ c_min c <= c_wait c /\ c_req c + c_wait c < 14 /\
    c_kind c = KStart /\ i_state inf = STOPPED.
Proof. vm_compute. do 4 eexists. repeat split; try reflexivity; discriminate. Qed.

Example start_group_hypotheses_hold :
  exists j push s',
    (let s := match op_calls (OpCall (CStartApp 0 1)) (set_now_oracle 1001 [] (init_st w_cf_c)) with
              | Ok (_, s) => s | Crash _ => init_st w_cf_c end in
     let s1 := match step_call (CStartApp 0 1) s with Ok (_, s1) => s1 | Crash _ => s end in
     aget 3 (s_jobs s1) = Some j /\ j_kind j = KStart /\
     step_aj_next 3 s1 = Ok ((push, []), s') /\ In (AJGroup 3 [1]) push).
Proof. vm_compute. do 3 eexists. repeat split; try reflexivity. left. reflexivity. Qed.

(* ------------------------------------------------------------------ C03 zero_never_auto *)
Lemma aappend_in : forall (l : alist (list Z)) k v k' names x,
  In (k', names) (aappend k v l) -> In x names ->
  (In (k', names) l) \/ (k' = k /\ (x = v \/ exists old, In (k, old) l /\ In x old)).
Proof.
  intros l k v k' names x Hin Hx. unfold aappend in Hin.
  destruct (aget k l) as [old|] eqn:Eg.
  - revert Eg Hin. induction l as [|[k0 v0] r IH]; intros Eg Hin; simpl in *; [discriminate|].
    destruct (Z.eqb k k0) eqn:E.
    + apply Z.eqb_eq in E. subst k0. inversion Eg; subst v0; clear Eg. simpl in Hin.
      destruct Hin as [Hin|Hin].
      * inversion Hin; subst. right. split; [reflexivity|]. apply in_app_or in Hx.
        destruct Hx as [Hx|[->|[]]]; [right; exists old; split; [left; reflexivity|exact Hx] | left; reflexivity].
      * left. right. exact Hin.
    + simpl in Hin. destruct Hin as [Hin|Hin]; [left; left; exact Hin|].
      destruct (IH Eg Hin) as [H|[H1 [H2|(o & Ho & Hxo)]]].
      * left. right. exact H.
      * right. auto.
      * right. split; [exact H1|]. right. exists o. split; [right; exact Ho|exact Hxo].
  - apply in_app_or in Hin. destruct Hin as [Hin|[Hin|[]]]; [left; exact Hin|].
    inversion Hin; subst. right. split; [reflexivity|]. destruct Hx as [->|[]]. left. reflexivity.
Qed.

(* every process listed under key k of a sequence dictionary has rule value k *)
Lemma seq_of_spec : forall f procs k names p,
  In (k, names) (seq_of f procs) -> In p names -> exists pr, In (p, pr) procs /\ f (sp_rules pr) = k.
Proof.
  intros f procs. unfold seq_of.
  assert (G : forall (acc : alist (list Z)) k names p,
             (forall k' n' x, In (k', n') acc -> In x n' -> exists pr, In (x, pr) procs /\ f (sp_rules pr) = k') ->
             forall l, incl l procs ->
             In (k, names) (fold_left (fun acc kv => aappend (f (sp_rules (snd kv))) (fst kv) acc) l acc) ->
             In p names -> exists pr, In (p, pr) procs /\ f (sp_rules pr) = k).
  { intros acc k names p Hacc l. revert acc Hacc. induction l as [|[x pr] r IH]; intros acc Hacc Hincl Hin Hp; simpl in Hin.
    - eapply Hacc; eauto.
    - apply (IH (aappend (f (sp_rules pr)) x acc)); auto.
      + intros k' n' y Hk Hy. destruct (aappend_in _ _ _ _ _ _ Hk Hy) as [H|[-> [->|(o & Ho & Hyo)]]].
        * eapply Hacc; eauto.
        * exists pr. split; [apply Hincl; left; reflexivity|reflexivity].
        * eapply Hacc; eauto.
      + intros z Hz. apply Hincl. right. exact Hz. }
  intros k names p Hin Hp. apply (G [] k names p) with (l := procs); auto.
  - intros k' n' x [].
  - apply incl_refl.
Qed.

(* zero_never_auto, process level (any rules, any state): the start sequence handed to the Starter by
   store_application — on every path: start_applications, start_application, restart, deferred start — only holds
   processes whose start_sequence is strictly positive, under their own sequence number *)
Theorem zero_never_auto_processes : forall ap k names p,
  In (k, names) (filter (fun kv => Z.ltb 0 (fst kv)) (app_start_sequence ap)) -> In p names ->
  0 < k /\ sa_managed ap = true /\ exists pr, In (p, pr) (sa_procs ap) /\ pr_start (sp_rules pr) = k.
Proof.
  intros ap k names p Hin Hp. apply filter_In in Hin. destruct Hin as [Hin Hk]. simpl in Hk. apply Z.ltb_lt in Hk.
  unfold app_start_sequence in Hin. destruct (sa_managed ap) eqn:Em; [|contradiction].
  split; [exact Hk|]. split; [reflexivity|]. eapply seq_of_spec; eauto.
Qed.

(* ---- frame: allocation of commands and jobs does not touch the context slice nor the two job tables *)
Definition same_ctl (s s' : st) : Prop :=
  s_apps s' = s_apps s /\ s_starter s' = s_starter s /\ s_stopper s' = s_stopper s /\ s_insts s' = s_insts s.

Lemma same_ctl_refl : forall s, same_ctl s s.
Proof. intros s. repeat split. Qed.
Lemma same_ctl_trans : forall a b c, same_ctl a b -> same_ctl b c -> same_ctl a c.
Proof. intros a b c (A1 & A2 & A3 & A4) (B1 & B2 & B3 & B4). repeat split; congruence. Qed.

Lemma mmap_frame : forall A B (f : A -> M B),
  (forall x s y s', f x s = Ok (y, s') -> same_ctl s s') ->
  forall l s ys s', mmap f l s = Ok (ys, s') -> same_ctl s s'.
Proof.
  intros A B f Hf. induction l as [|x r IH]; intros s ys s' H; simpl in H.
  - unfold ret in H. inversion H; subst. apply same_ctl_refl.
  - apply mbind_ok in H. destruct H as (y & s1 & H1 & H). apply mbind_ok in H. destruct H as (ys' & s2 & H2 & H).
    unfold ret in H. inversion H; subst. eapply same_ctl_trans; [eapply Hf; eauto | eapply IH; eauto].
Qed.

Lemma new_start_cmd_frame : forall a p strat ig s cid s', new_start_cmd a p strat ig s = Ok (cid, s') -> same_ctl s s'.
Proof.
  intros a p strat ig s cid s' H. unfold new_start_cmd in H.
  apply mbind_ok in H. destruct H as (c0 & s1 & H1 & H). unfold fresh in H1. inversion H1; subst; clear H1.
  apply mbind_ok in H. destruct H as (s0 & s2 & H1 & H). unfold mget in H1. inversion H1; subst; clear H1.
  apply mbind_ok in H. destruct H as (u & s3 & H1 & H). unfold put_cmd, mmod in H1. inversion H1; subst; clear H1.
  unfold ret in H. inversion H; subst. repeat split.
Qed.

Lemma new_job_frame : forall k a pl s jid s', new_job k a pl s = Ok (jid, s') -> same_ctl s s'.
Proof.
  intros k a pl s jid s' H. unfold new_job in H.
  apply mbind_ok in H. destruct H as (c0 & s1 & H1 & H). unfold fresh in H1. inversion H1; subst; clear H1.
  apply mbind_ok in H. destruct H as (u & s3 & H1 & H). unfold put_job, mmod in H1. inversion H1; subst; clear H1.
  unfold ret in H. inversion H; subst. repeat split.
Qed.

Lemma store_group_frame : forall a strat (kv : Z * list Z) s y s',
  (do cids <- mmap (fun p => new_start_cmd a p strat false) (snd kv) ;; ret (fst kv, cids)) s = Ok (y, s') ->
  same_ctl s s'.
Proof.
  intros a strat kv s y s' Hy.
  apply mbind_ok in Hy. destruct Hy as (cids & s3 & Hy1 & Hy). unfold ret in Hy. inversion Hy; subst.
  apply (mmap_frame _ _ (fun p => new_start_cmd a p strat false)) in Hy1; [exact Hy1|].
  intros p s4 cid s4' Hc. eapply new_start_cmd_frame; exact Hc.
Qed.

(* Starter.store_application(b): the Starter table is unchanged or receives one entry for b, at b's own sequence *)
Lemma starter_store_frame : forall b strat s u s',
  starter_store b strat s = Ok (u, s') ->
  s_apps s' = s_apps s /\
  (s_starter s' = s_starter s \/
   exists jid ap, aget b (s_apps s) = Some ap /\ s_starter s' = plan_job (s_starter s) (sa_start ap) b jid).
Proof.
  intros b strat s u s' H. unfold starter_store in H.
  apply mbind_ok in H. destruct H as (ap & s1 & H1 & H). unfold get_app in H1. apply lift_opt_ok in H1.
  destruct H1 as [Hap ->].
  apply mbind_ok in H. destruct H as (seqs & s2 & H1 & H).
  assert (F1 : same_ctl s s2).
  { eapply mmap_frame in H1; [exact H1|]. intros kv s0 y s0' Hy. eapply store_group_frame; exact Hy. }
  destruct seqs as [|kv r].
  - unfold ret in H. inversion H; subst. destruct F1 as (A & B & _). split; [exact A|left; exact B].
  - apply mbind_ok in H. destruct H as (jid & s3 & H2 & H). apply new_job_frame in H2.
    unfold mmod in H. inversion H; subst; clear H.
    pose proof (same_ctl_trans _ _ _ F1 H2) as (A & B & _). simpl. split; [exact A|].
    right. exists jid, ap. split; [exact Hap|]. rewrite B. reflexivity.
Qed.

Lemma aget_aset_other : forall V (l : alist V) k k' v, k <> k' -> aget k (aset k' v l) = aget k l.
Proof.
  induction l as [|[k0 v0] r IH]; intros k k' v Hne; simpl.
  - destruct (Z.eqb k k') eqn:E; [apply Z.eqb_eq in E; contradiction|reflexivity].
  - destruct (Z.eqb k' k0) eqn:E0; simpl.
    + apply Z.eqb_eq in E0. subst k0. destruct (Z.eqb k k') eqn:E; [apply Z.eqb_eq in E; contradiction|reflexivity].
    + destruct (Z.eqb k k0); [reflexivity|apply IH; exact Hne].
Qed.

(* planning a job for b does not change the job found for another application a *)
Lemma get_application_job_plan_other : forall c prio a b jid,
  a <> b -> get_application_job (plan_job c prio b jid) a = get_application_job c a.
Proof.
  intros c prio a b jid Hne. unfold get_application_job, plan_job. simpl.
  destruct (aget a (cm_current c)); [reflexivity|].
  set (m := match aget prio (cm_planned c) with Some m => m | None => [] end).
  assert (Hm : forall a0, a0 <> b -> aget a0 (aset b jid m) = aget a0 m) by (intros; apply aget_aset_other; assumption).
  assert (Hmem : amem a (aset b jid m) = amem a m) by (unfold amem; rewrite Hm; auto).
  unfold m in *. clear m.
  induction (cm_planned c) as [|[k0 m0] r IH]; simpl in *.
  - unfold amem at 1. simpl. destruct (Z.eqb a b) eqn:E; [apply Z.eqb_eq in E; contradiction|]. reflexivity.
  - destruct (Z.eqb prio k0) eqn:E0; simpl.
    + rewrite Hmem. destruct (amem a m0) eqn:Ea; [apply Hm; exact Hne|reflexivity].
    + destruct (amem a m0); [reflexivity|]. apply IH; assumption.
Qed.

(* zero_never_auto, application level (any rules, any state): the store phase of Starter.start_applications
   leaves untouched the job entry of every application whose start_sequence is not strictly positive *)
Theorem zero_never_auto_applications : forall a apps s ys s',
  (forall ap', In (a, ap') apps -> sa_start ap' <= 0) ->
  mmap (fun kv : Z * sapp => let ap := snd kv in
          if Z.ltb 0 (sa_start ap) && (app_never_started ap || sa_major ap || sa_minor ap)
          then starter_store (fst kv) None else ret tt) apps s = Ok (ys, s') ->
  (forall b ap, In (b, ap) apps -> aget b (s_apps s) = Some ap \/ b <> a) ->
  get_application_job (s_starter s') a = get_application_job (s_starter s) a.
Proof.
  intros a. induction apps as [|[b ap] r IH]; intros s ys s' Hz H Hcons; simpl in H.
  - unfold ret in H. inversion H; subst. reflexivity.
  - apply mbind_ok in H. destruct H as (y & s1 & H1 & H). apply mbind_ok in H. destruct H as (ys' & s2 & H2 & H).
    unfold ret in H. inversion H; subst s2 ys; clear H. simpl in H1.
    assert (Hstep : get_application_job (s_starter s1) a = get_application_job (s_starter s) a /\ s_apps s1 = s_apps s).
    { destruct (Z.ltb 0 (sa_start ap) && (app_never_started ap || sa_major ap || sa_minor ap)) eqn:Eg.
      - apply andb_prop in Eg. destruct Eg as [Eg _]. apply Z.ltb_lt in Eg.
        destruct (starter_store_frame _ _ _ _ _ H1) as [Ha [Hs|(jid & ap0 & Hap0 & Hs)]].
        + rewrite Hs. auto.
        + rewrite Hs. split; [|exact Ha]. apply get_application_job_plan_other.
          intro Heq. subst b. specialize (Hz ap (or_introl eq_refl)). lia.
      - unfold ret in H1. inversion H1; subst. auto. }
    destruct Hstep as [Hj Ha]. rewrite <- Hj. apply (IH s1 ys' s'); auto.
    + intros ap' Hin. apply Hz. right. exact Hin.
    + intros b0 ap0 Hin. rewrite Ha. apply Hcons. right. exact Hin.
Qed.
