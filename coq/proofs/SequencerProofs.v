(* SequencerProofs.v — lemmas about the agenda-machine model of Starter / Stopper (model/Sequencer.v). *)
From Sup Require Import Base GenProc GenEnums GenSeq ProcStatus Sequencer.
From Coq Require Import Lia ZArith List Bool.
Import ListNotations.
Open Scope Z_scope.

(* ------------------------------------------------------------------ pickup logic: min / max of the keys *)
Lemma zmin_list_le_cur : forall l cur, zmin_list cur l <= cur.
Proof.
  induction l as [|x r IH]; intros cur; simpl; [lia|].
  destruct (Z.ltb x cur) eqn:E; [apply Z.ltb_lt in E; specialize (IH x); lia | apply IH].
Qed.

Lemma zmin_list_le_all : forall l cur y, In y l -> zmin_list cur l <= y.
Proof.
  induction l as [|x r IH]; intros cur y Hin; simpl in *; [contradiction|].
  destruct Hin as [->|Hin].
  - destruct (Z.ltb y cur) eqn:E.
    + apply zmin_list_le_cur.
    + apply Z.ltb_ge in E. pose proof (zmin_list_le_cur r cur). lia.
  - apply IH; exact Hin.
Qed.

Lemma zmin_list_in : forall l cur, zmin_list cur l = cur \/ In (zmin_list cur l) l.
Proof.
  induction l as [|x r IH]; intros cur; simpl; [left; reflexivity|].
  destruct (Z.ltb x cur).
  - destruct (IH x) as [H|H]; [right; left; symmetry; exact H | right; right; exact H].
  - destruct (IH cur) as [H|H]; [left; exact H | right; right; exact H].
Qed.

Lemma zmax_list_ge_cur : forall l cur, cur <= zmax_list cur l.
Proof.
  induction l as [|x r IH]; intros cur; simpl; [lia|].
  destruct (Z.ltb cur x) eqn:E; [apply Z.ltb_lt in E; specialize (IH x); lia | apply IH].
Qed.

Lemma zmax_list_ge_all : forall l cur y, In y l -> y <= zmax_list cur l.
Proof.
  induction l as [|x r IH]; intros cur y Hin; simpl in *; [contradiction|].
  destruct Hin as [->|Hin].
  - destruct (Z.ltb cur y) eqn:E.
    + apply zmax_list_ge_cur.
    + apply Z.ltb_ge in E. pose proof (zmax_list_ge_cur r cur). lia.
  - apply IH; exact Hin.
Qed.

Lemma zmax_list_in : forall l cur, zmax_list cur l = cur \/ In (zmax_list cur l) l.
Proof.
  induction l as [|x r IH]; intros cur; simpl; [left; reflexivity|].
  destruct (Z.ltb cur x).
  - destruct (IH x) as [H|H]; [right; left; symmetry; exact H | right; right; exact H].
  - destruct (IH cur) as [H|H]; [left; exact H | right; right; exact H].
Qed.

(* the generated wiring: Starter side picks the minimum, Stopper side the maximum *)
Lemma pickup_start_min : forall keys k, pickup KStart keys = Some k -> In k keys /\ forall y, In y keys -> k <= y.
Proof.
  intros keys k H. destruct keys as [|x r]; [discriminate|]. unfold pickup in H.
  assert (Hm : gs_starter_pickup_min = true) by (vm_compute; reflexivity).
  rewrite Hm in H. inversion H; subst k; clear H. split.
  - destruct (zmin_list_in r x) as [E|E]; [left; symmetry; exact E | right; exact E].
  - intros y [->|Hy]; [apply zmin_list_le_cur | apply zmin_list_le_all; exact Hy].
Qed.

Lemma pickup_stop_max : forall keys k, pickup KStop keys = Some k -> In k keys /\ forall y, In y keys -> y <= k.
Proof.
  intros keys k H. destruct keys as [|x r]; [discriminate|]. unfold pickup in H.
  assert (Hm : gs_stopper_pickup_min = false) by (vm_compute; reflexivity).
  rewrite Hm in H. inversion H; subst k; clear H. split.
  - destruct (zmax_list_in r x) as [E|E]; [left; symmetry; exact E | right; exact E].
  - intros y [->|Hy]; [apply zmax_list_ge_cur | apply zmax_list_ge_all; exact Hy].
Qed.

(* ------------------------------------------------------------------ monad inversion *)
Lemma mbind_ok : forall A B (m : M A) (f : A -> M B) s b s',
  mbind m f s = Ok (b, s') -> exists a s1, m s = Ok (a, s1) /\ f a s1 = Ok (b, s').
Proof.
  intros A B m f s b s' H. unfold mbind in H. destruct (m s) as [[a s1]|k] eqn:E; [|discriminate].
  exists a, s1. split; [reflexivity|exact H].
Qed.

Ltac minv H :=
  match type of H with
  | mbind _ _ _ = Ok _ =>
      let a := fresh "a" in let s1 := fresh "s" in let H1 := fresh "H" in let H2 := fresh "H" in
      apply mbind_ok in H; destruct H as (a & s1 & H1 & H2)
  | ret _ _ = Ok _ => unfold ret in H; inversion H; subst; clear H
  | mget _ = Ok _ => unfold mget in H; inversion H; subst; clear H
  | fail _ _ = Ok _ => unfold fail in H; discriminate H
  end.

(* ------------------------------------------------------------------ ApplicationJobs.next *)
Lemma aget_of_key : forall V (l : alist V) k, In k (akeys l) -> exists v, aget k l = Some v.
Proof.
  induction l as [|[k' v'] r IH]; intros k Hin; simpl in *; [contradiction|].
  destruct (Z.eqb k k') eqn:E; [eexists; reflexivity|].
  destruct Hin as [Hk|Hin]; [subst; rewrite Z.eqb_refl in E; discriminate | apply IH; exact Hin].
Qed.

Lemma aj_next_group : forall jid s push outs s' j group,
  step_aj_next jid s = Ok ((push, outs), s') -> aget jid (s_jobs s) = Some j ->
  In (AJGroup jid group) push ->
  j_current j = [] /\ exists seq, pickup (j_kind j) (akeys (j_planned j)) = Some seq /\ aget seq (j_planned j) = Some group.
Proof.
  intros jid s push outs s' j group H Hj Hin.
  unfold step_aj_next in H. minv H.
  unfold get_job, lift_opt in H0. rewrite Hj in H0. unfold ret in H0. inversion H0; subst a s0; clear H0.
  destruct (j_current j) eqn:Ec; [|minv H1; contradiction].
  remember (j_planned j) as pl eqn:Ep. destruct pl as [|kv pl']; [minv H1; contradiction|].
  rewrite Ep in H1. destruct (pickup (j_kind j) (akeys (j_planned j))) as [seq|] eqn:Epk; [|minv H1; contradiction].
  minv H1. minv H0. destruct Hin as [Hin|[Hin|[]]]; [|discriminate].
  split; [reflexivity|]. exists seq. split; [rewrite Ep; exact Epk|]. rewrite Ep.
  assert (Hk : In seq (akeys (j_planned j))).
  { destruct (j_kind j); [apply pickup_start_min in Epk | apply pickup_stop_max in Epk]; tauto. }
  apply aget_of_key in Hk. destruct Hk as [g Hg]. rewrite Hg in Hin. inversion Hin; subst. exact Hg.
Qed.

(* C03 / SEQ-shape, local form (every state): the Starter side takes the group of least sequence number, and only
   when no command of the job is in progress *)
Theorem start_group_is_minimum : forall jid s push outs s' j,
  step_aj_next jid s = Ok ((push, outs), s') -> aget jid (s_jobs s) = Some j -> j_kind j = KStart ->
  forall group, In (AJGroup jid group) push ->
    j_current j = [] /\ exists seq, aget seq (j_planned j) = Some group /\ forall y, In y (akeys (j_planned j)) -> seq <= y.
Proof.
  intros jid s push outs s' j H Hj Hk group Hin.
  destruct (aj_next_group _ _ _ _ _ _ _ H Hj Hin) as [Hc [seq [Hp Hg]]].
  split; [exact Hc|]. exists seq. split; [exact Hg|]. rewrite Hk in Hp. apply pickup_start_min in Hp. tauto.
Qed.

(* C09 mirror: the Stopper side takes the group of greatest sequence number *)
Theorem stop_group_is_maximum : forall jid s push outs s' j,
  step_aj_next jid s = Ok ((push, outs), s') -> aget jid (s_jobs s) = Some j -> j_kind j = KStop ->
  forall group, In (AJGroup jid group) push ->
    j_current j = [] /\ exists seq, aget seq (j_planned j) = Some group /\ forall y, In y (akeys (j_planned j)) -> y <= seq.
Proof.
  intros jid s push outs s' j H Hj Hk group Hin.
  destruct (aj_next_group _ _ _ _ _ _ _ H Hj Hin) as [Hc [seq [Hp Hg]]].
  split; [exact Hc|]. exists seq. split; [exact Hg|]. rewrite Hk in Hp. apply pickup_stop_max in Hp. tauto.
Qed.

(* ------------------------------------------------------------------ which calls emit requests *)
Ltac chase H :=
  cbv beta in H;
  lazymatch type of H with
  | ret _ _ = Ok _ => unfold ret in H; inversion H; subst; clear H
  | fail _ _ = Ok _ => discriminate H
  | mbind _ _ _ = Ok _ =>
      let a := fresh "a" in let s1 := fresh "s" in let H1 := fresh "H" in let H2 := fresh "H" in
      apply mbind_ok in H; destruct H as (a & s1 & H1 & H2); clear H1; chase H2
  | (if ?b then _ else _) _ = Ok _ => destruct b; chase H
  | (match ?x with _ => _ end) _ = Ok _ => destruct x; chase H
  | _ => idtac
  end.

Definition emits (c : call) : bool :=
  match c with AJGroup _ _ | Force _ _ _ _ _ _ | CEmit _ => true | _ => false end.

Lemma silent_calls : forall c s push outs s',
  emits c = false -> step_call c s = Ok ((push, outs), s') -> outs = [].
Proof.
  intros c s push outs s' He H.
  destruct c; simpl in He; try discriminate He; simpl in H;
    try (unfold step_next_loop, step_after, step_after_procs, step_next_pop, step_aj_next, step_proc_failure, step_on_event,
           step_aj_on_event, step_aj_check_cmd, step_start_proc, step_stop_proc in H);
    chase H; try reflexivity.
Qed.

Lemma lift_opt_ok : forall A (o : option A) k s a s', lift_opt o k s = Ok (a, s') -> o = Some a /\ s' = s.
Proof. intros A o k s a s' H. destruct o; simpl in H; inversion H; auto. Qed.

Lemma get_cmd_ok : forall cid s c s', get_cmd cid s = Ok (c, s') -> aget cid (s_cmds s) = Some c /\ s' = s.
Proof. intros cid s c s' H. unfold get_cmd in H. apply lift_opt_ok in H. exact H. Qed.
Lemma get_sproc_ok : forall a p s pr s', get_sproc a p s = Ok (pr, s') -> get_proc s a p = Some pr /\ s' = s.
Proof. intros a p s pr s' H. unfold get_sproc in H. apply lift_opt_ok in H. exact H. Qed.
Lemma get_job_ok : forall jid s j s', get_job jid s = Ok (j, s') -> aget jid (s_jobs s) = Some j /\ s' = s.
Proof. intros jid s j s' H. unfold get_job in H. apply lift_opt_ok in H. exact H. Qed.

(* C03 / C09, local form, every state: requests are emitted only while a popped group is processed; a start
   request only for a process that is stopped (ProcessStatus.stopped()), a stop request only to an identifier
   where the process is running (ProcessStatus.running_on(identifier)) *)
Lemma group_emits : forall jid cid rest s push outs s' o,
  step_aj_group jid (cid :: rest) s = Ok ((push, outs), s') -> In o outs ->
  exists c pr, aget cid (s_cmds s) = Some c /\ get_proc s (c_app c) (c_proc c) = Some pr /\
    ((exists i, o = OStart i (c_app c) (c_proc c) /\ c_kind c = KStart /\ sp_stopped pr = true)
     \/ (exists i, o = OStop i (c_app c) (c_proc c) /\ c_kind c = KStop /\ c_ident c = Some i
                   /\ sp_running_on pr i = true)).
Proof.
  intros jid cid rest s push outs s' o H Hin. unfold step_aj_group in H.
  apply mbind_ok in H. destruct H as (c & s1 & Hc & H). apply get_cmd_ok in Hc. destruct Hc as [Hc ->].
  apply mbind_ok in H. destruct H as (pr & s2 & Hp & H). apply get_sproc_ok in Hp. destruct Hp as [Hp ->].
  exists c, pr. split; [exact Hc|]. split; [exact Hp|].
  destruct (c_kind c) eqn:Ek.
  - destruct (sp_stopped pr) eqn:Est; [|chase H; (simpl in Hin; contradiction)].
    apply mbind_ok in H. destruct H as (o1 & s3 & _ & H).
    apply mbind_ok in H. destruct H as (c1 & s4 & _ & H).
    destruct (c_ident c1) as [i|]; chase H; [|(simpl in Hin; contradiction)].
    destruct Hin as [<-|[]]. left. exists i. auto.
  - destruct (c_ident c) as [i|] eqn:Ei; [|chase H; (simpl in Hin; contradiction)].
    destruct (sp_running_on pr i) eqn:Er; chase H; [|(simpl in Hin; contradiction)].
    destruct Hin as [<-|[]]. right. exists i. auto.
Qed.

(* calls of a reachable agenda: CEmit only carries the publication of a forced state *)
Definition call_ok (c : call) : Prop :=
  match c with CEmit (OPub _ _ _ _) => True | CEmit _ => False | _ => True end.

Lemma step_pushes_ok : forall c s push outs s',
  step_call c s = Ok ((push, outs), s') -> Forall call_ok push.
Proof.
  intros c s push outs s' H.
  destruct c; simpl in H;
    try (unfold step_next_loop, step_after, step_after_procs, step_next_pop, step_aj_next, step_aj_group, step_proc_failure,
           step_force, step_on_event, step_aj_on_event, step_aj_check_cmd, step_start_proc, step_stop_proc in H);
    chase H; repeat (apply Forall_cons; [exact I|]); try apply Forall_nil;
    try (apply Forall_app; split); try (apply Forall_forall; intros x Hx; apply in_map_iff in Hx;
      destruct Hx as (y & <- & _); exact I); repeat (apply Forall_cons; [exact I|]); try apply Forall_nil.
  all: try (match goal with |- Forall call_ok (match ?x with _ => _ end) => destruct x end);
       repeat constructor;
       try (apply Forall_forall; intros x Hx; apply in_map_iff in Hx; destruct Hx as (y & <- & _); exact I).
Qed.

(* ------------------------------------------------------------------ the agenda machine with a log *)
(* same machine as Sequencer.exec, recording for every emitted request the state and the call that emitted it *)
Fixpoint exec_log (fuel : nat) (ag : list call) (s : st) (acc : list (st * call * out))
  : result (st * list (st * call * out)) :=
  match ag with
  | [] => Ok (s, rev acc)
  | c :: rest =>
      match fuel with
      | O => Crash OutOfFuel
      | S f =>
          match step_call c s with
          | Crash k => Crash k
          | Ok ((push, outs), s') => exec_log f (push ++ rest) s' (rev (map (fun o => (s, c, o)) outs) ++ acc)
          end
      end
  end.

Lemma exec_log_agrees : forall fuel ag s acc,
  exec fuel ag s (map snd acc) =
  match exec_log fuel ag s acc with Ok (s', log) => Ok (s', map snd log) | Crash k => Crash k end.
Proof.
  induction fuel as [|f IH]; intros ag s acc; destruct ag as [|c rest]; simpl.
  - rewrite map_rev. reflexivity.
  - reflexivity.
  - rewrite map_rev. reflexivity.
  - destruct (step_call c s) as [[[push outs] s']|k]; [|reflexivity].
    rewrite <- IH. f_equal. rewrite map_app, map_rev, map_map. simpl. rewrite map_id. reflexivity.
Qed.

(* every logged request satisfies P as soon as every step of a well-formed agenda does *)
Lemma exec_log_forall : forall (P : st -> call -> out -> Prop),
  (forall c s push outs s', call_ok c -> step_call c s = Ok ((push, outs), s') -> forall o, In o outs -> P s c o) ->
  forall fuel ag s acc s' log,
    Forall call_ok ag -> Forall (fun x => P (fst (fst x)) (snd (fst x)) (snd x)) acc ->
    exec_log fuel ag s acc = Ok (s', log) ->
    Forall (fun x => P (fst (fst x)) (snd (fst x)) (snd x)) log.
Proof.
  intros P HP. induction fuel as [|f IH]; intros ag s acc s' log Hag Hacc H; destruct ag as [|c rest]; simpl in H.
  - inversion H; subst. apply Forall_rev. exact Hacc.
  - discriminate.
  - inversion H; subst. apply Forall_rev. exact Hacc.
  - destruct (step_call c s) as [[[push outs] s1]|k] eqn:E; [|discriminate].
    inversion Hag as [|c' r' Hc Hr]; subst.
    apply (IH _ _ _ _ _) in H; [exact H| |].
    + apply Forall_app. split; [exact (step_pushes_ok _ _ _ _ _ E)|exact Hr].
    + apply Forall_app. split; [|exact Hacc]. apply Forall_rev. apply Forall_forall. intros x Hx.
      apply in_map_iff in Hx. destruct Hx as (o & <- & Ho). simpl. exact (HP _ _ _ _ _ Hc E o Ho).
Qed.

Definition emitted_in_order (P : st -> call -> out -> Prop) (log : list (st * call * out)) : Prop :=
  Forall (fun x => P (fst (fst x)) (snd (fst x)) (snd x)) log.

(* what holds of every single emission: requests come from a group being processed *)
Definition emission_fact (s : st) (c : call) (o : out) : Prop :=
  match o with
  | OStart i a p =>
      exists jid cid rest cm pr, c = AJGroup jid (cid :: rest) /\ aget cid (s_cmds s) = Some cm /\
        c_kind cm = KStart /\ c_app cm = a /\ c_proc cm = p /\
        get_proc s a p = Some pr /\ sp_stopped pr = true
  | OStop i a p =>
      exists jid cid rest cm pr, c = AJGroup jid (cid :: rest) /\ aget cid (s_cmds s) = Some cm /\
        c_kind cm = KStop /\ c_app cm = a /\ c_proc cm = p /\ c_ident cm = Some i /\
        get_proc s a p = Some pr /\ sp_running_on pr i = true
  | _ => True
  end.

Lemma emission_fact_step : forall c s push outs s',
  call_ok c -> step_call c s = Ok ((push, outs), s') -> forall o, In o outs -> emission_fact s c o.
Proof.
  intros c s push outs s' Hok H o Hin.
  destruct (emits c) eqn:He; [|rewrite (silent_calls _ _ _ _ _ He H) in Hin; simpl in Hin; contradiction].
  destruct c; simpl in He; try discriminate He; simpl in H.
  - destruct group as [|cid rest]; [simpl in H; chase H; simpl in Hin; contradiction|].
    destruct (group_emits _ _ _ _ _ _ _ _ H Hin) as (cm & pr & Hc & Hp & [(i & -> & Hk & Hs)|(i & -> & Hk & Hi & Hr)]);
      simpl; exists jid, cid, rest, cm, pr; repeat split; auto.
  - unfold step_force in H. chase H; destruct Hin as [<-|Hin]; simpl; auto; simpl in Hin; contradiction.
  - chase H. destruct Hin as [<-|[]]. destruct o0; simpl in Hok; try contradiction. exact I.
Qed.

(* C09 stop_only_where_running and the start counterpart, for EVERY run of the agenda machine from ANY state:
   each StopReq was emitted in a state where the process was running on the requested identifier, each StartReq in
   a state where the process was stopped; both while the popped group of an application job was processed *)
Theorem requests_only_from_groups : forall fuel ag s s' log,
  Forall call_ok ag -> exec_log fuel ag s [] = Ok (s', log) -> emitted_in_order emission_fact log.
Proof.
  intros fuel ag s s' log Hag H. unfold emitted_in_order.
  apply (exec_log_forall emission_fact emission_fact_step fuel ag s [] s' log Hag); [constructor|exact H].
Qed.

(* ------------------------------------------------------------------ C10: timeouts *)
Lemma tick_period_pos : 0 < gs_TICK_PERIOD.
Proof. vm_compute. reflexivity. Qed.

(* wait_ticks setter: the least number of ticks covering the configured seconds *)
Lemma ceil_ticks_spec : forall secs,
  secs <= ceil_ticks secs * gs_TICK_PERIOD /\ (ceil_ticks secs - 1) * gs_TICK_PERIOD < secs.
Proof.
  intros secs. unfold ceil_ticks. pose proof tick_period_pos as Hp.
  pose proof (Z.div_mod (secs + gs_TICK_PERIOD - 1) gs_TICK_PERIOD ltac:(lia)) as Hd.
  pose proof (Z.mod_pos_bound (secs + gs_TICK_PERIOD - 1) gs_TICK_PERIOD Hp) as Hm.
  nia.
Qed.

Lemma ceil_ticks_nonneg : forall secs, 0 <= secs -> 0 <= ceil_ticks secs.
Proof.
  intros secs H. unfold ceil_ticks. apply Z.div_pos; pose proof tick_period_pos; lia.
Qed.

Lemma minimum_ticks_ge : forall s, gs_DEFAULT_TICK_TIMEOUT <= minimum_ticks s.
Proof. intros s. unfold minimum_ticks. lia. Qed.

(* wait_ticks = ceil(secs / period) + minimum_ticks, as set by update_identifier *)
Lemma update_identifier_wait : forall c i s c' s',
  update_identifier c i s = Ok (c', s') ->
  s' = s /\ c_ident c' = Some i /\ c_min c' = c_min c /\ c_req c' = c_req c /\ c_id c' = c_id c /\
  c_kind c' = c_kind c /\ c_app c' = c_app c /\ c_proc c' = c_proc c /\ c_ignore_we c' = c_ignore_we c /\
  exists pr, get_proc s (c_app c) (c_proc c) = Some pr /\ amem i (p_infos (sp_st pr)) = true /\
    c_wait c' = ceil_ticks (match c_kind c with KStart => sp_startsecs pr | KStop => sp_stopwaitsecs pr end) + c_min c.
Proof.
  intros c i s c' s' H. unfold update_identifier in H.
  apply mbind_ok in H. destruct H as (s0 & s1 & H0 & H). unfold mget in H0. inversion H0; subst s0 s1; clear H0.
  apply mbind_ok in H. destruct H as (ins & s1 & H0 & H). apply lift_opt_ok in H0. destruct H0 as [_ ->].
  apply mbind_ok in H. destruct H as (pr & s1 & H0 & H). apply get_sproc_ok in H0. destruct H0 as [Hp ->].
  apply mbind_ok in H. destruct H as (inf & s1 & H0 & H). apply lift_opt_ok in H0. destruct H0 as [Hi ->].
  unfold ret in H. inversion H; subst; clear H. simpl. repeat split; try reflexivity.
  exists pr. repeat split; auto. unfold amem. rewrite Hi. reflexivity.
Qed.

(* command_bound, arithmetic core (T2-style, but for all integers): beyond request counter + wait_ticks the
   command is not kept IN_PROGRESS, the only exception being a RUNNING wait_exit program (documented) *)
Lemma timed_out_bound : forall k we ig state req mn wt cnt,
  mn <= wt -> req + wt < cnt ->
  snd (cmd_timed_out k we ig state req mn wt cnt) <> IN_PROGRESS
  \/ (k = KStart /\ state = RUNNING /\ we = true /\ ig = false).
Proof.
  intros k we ig state req mn wt cnt Hm Hc.
  assert (H1 : Z.ltb (req + wt) cnt = true) by (apply Z.ltb_lt; lia).
  assert (H2 : Z.ltb (req + mn) cnt = true) by (apply Z.ltb_lt; lia).
  destruct k; simpl.
  - destruct state; simpl; rewrite ?H1, ?H2; simpl; try (left; discriminate).
    destruct we, ig; simpl; try (left; discriminate). right. auto.
  - destruct (pstate_eqb state STOPPING); [rewrite H1; left; discriminate|].
    destruct (is_stopped state); [left; discriminate|]. rewrite H2. left. discriminate.
Qed.

(* the precise timeouts: minimum_ticks for the acknowledgement, wait_ticks for the completion *)
Lemma timed_out_ack : forall k we ig state req mn wt cnt,
  req + mn < cnt ->
  (k = KStart -> state <> RUNNING /\ state <> STARTING /\ state <> BACKOFF) ->
  (k = KStop -> state <> STOPPING /\ is_stopped state = false) ->
  snd (cmd_timed_out k we ig state req mn wt cnt) = TIMED_OUT.
Proof.
  intros k we ig state req mn wt cnt Hc Hs Hp.
  assert (H2 : Z.ltb (req + mn) cnt = true) by (apply Z.ltb_lt; lia).
  destruct k; simpl.
  - destruct (Hs eq_refl) as (A & B & C). destruct state; try congruence; rewrite H2; reflexivity.
  - destruct (Hp eq_refl) as (A & B). rewrite B.
    destruct state; simpl; try congruence; rewrite H2; reflexivity.
Qed.

Lemma timed_out_not_failed : forall k we ig state req mn wt cnt,
  snd (cmd_timed_out k we ig state req mn wt cnt) <> FAILED.
Proof.
  intros k we ig state req mn wt cnt. destruct k; simpl.
  - destruct state; simpl; repeat match goal with |- context [if ?b then _ else _] => destruct b end; discriminate.
  - repeat match goal with |- context [if ?b then _ else _] => destruct b end; discriminate.
Qed.

Lemma zremove_in : forall x l l', zremove x l = Some l' -> forall y, In y l' -> In y l.
Proof.
  induction l as [|z r IH]; intros l' H y Hy; simpl in H; [discriminate|].
  destruct (Z.eqb x z) eqn:E.
  - inversion H; subst. right. exact Hy.
  - destruct (zremove x r) as [r'|] eqn:Er; [|discriminate]. inversion H; subst.
    destruct Hy as [->|Hy]; [left; reflexivity | right; apply (IH r' eq_refl y Hy)].
Qed.

Lemma zremove_nodup : forall x l l', zremove x l = Some l' -> NoDup l -> NoDup l' /\ ~ In x l'.
Proof.
  induction l as [|z r IH]; intros l' H Hn; simpl in H; [discriminate|].
  inversion Hn as [|z' r' Hz Hr]; subst.
  destruct (Z.eqb x z) eqn:E.
  - apply Z.eqb_eq in E. subst z. inversion H; subst. split; assumption.
  - destruct (zremove x r) as [r1|] eqn:Er; [|discriminate]. inversion H; subst.
    destruct (IH r1 eq_refl Hr) as [Hn1 Hx]. split.
    + constructor; [|exact Hn1]. intro Hin. apply Hz. apply (zremove_in _ _ _ Er). exact Hin.
    + intros [Hxz|Hin]; [subst; rewrite Z.eqb_refl in E; discriminate|contradiction].
Qed.

Lemma zremove_present : forall x l, In x l -> exists l', zremove x l = Some l'.
Proof.
  induction l as [|z r IH]; intros Hin; simpl in *; [contradiction|].
  destruct (Z.eqb x z) eqn:E; [eexists; reflexivity|].
  destruct Hin as [->|Hin]; [rewrite Z.eqb_refl in E; discriminate|].
  destruct (IH Hin) as [l' ->]. eexists; reflexivity.
Qed.

Lemma aget_aset_same : forall V (l : alist V) k v, aget k (aset k v l) = Some v.
Proof.
  induction l as [|[k' v'] r IH]; intros k v; simpl; [rewrite Z.eqb_refl; reflexivity|].
  destruct (Z.eqb k k') eqn:E; simpl; rewrite E; [reflexivity|apply IH].
Qed.

(* C10 command_bound (every state): a periodic check of a command whose target counter is beyond
   request counter + wait_ticks takes it out of the current jobs — it is either declared reached (SUCCESS)
   or abandoned with exactly one forced event (FATAL for a start, STOPPED for a stop) carrying the target
   identifier and the time of the last event received — unless it is the documented exception. *)
Theorem command_bound : forall jid cid s c pr i inf cnt j,
  aget cid (s_cmds s) = Some c -> get_proc s (c_app c) (c_proc c) = Some pr ->
  c_ident c = Some i -> aget i (p_infos (sp_st pr)) = Some inf -> counter_of s i = Some cnt ->
  aget jid (s_jobs s) = Some j -> In cid (j_current j) -> NoDup (j_current j) ->
  c_min c <= c_wait c -> c_req c + c_wait c < cnt ->
  ~ (c_kind c = KStart /\ i_state inf = RUNNING /\ pr_wait_exit (sp_rules pr) = true /\ c_ignore_we c = false) ->
  exists push s' j',
    step_aj_check_cmd jid cid s = Ok ((push, []), s') /\
    aget jid (s_jobs s') = Some j' /\ ~ In cid (j_current j') /\
    (forall x, In x (j_current j') -> In x (j_current j)) /\
    (push = [] \/ exists expected,
        push = [Force (c_app c) (c_proc c) (Some i) (i_event_time inf) (failure_state (c_kind c)) (pcode expected)]).
Proof.
  intros jid cid s c pr i inf cnt j Hc Hp Hi Hinf Hcnt Hj Hin Hnd Hmin Hlate Hex.
  destruct (zremove_present _ _ Hin) as [cur Hcur].
  destruct (zremove_nodup _ _ _ Hcur Hnd) as [_ Hnot].
  pose proof (timed_out_bound (c_kind c) (pr_wait_exit (sp_rules pr)) (c_ignore_we c) (i_state inf)
                              (c_req c) (c_min c) (c_wait c) cnt Hmin Hlate) as Hb.
  destruct Hb as [Hb|Hb]; [|exfalso; apply Hex; tauto].
  unfold step_aj_check_cmd, mbind, get_cmd, get_sproc, get_job, lift_opt, mget, ret.
  rewrite Hc. cbv beta iota. rewrite Hp. cbv beta iota. rewrite Hi. cbv beta iota. rewrite Hinf. cbv beta iota.
  rewrite Hcnt. cbv beta iota.
  destruct (cmd_timed_out (c_kind c) (pr_wait_exit (sp_rules pr)) (c_ignore_we c) (i_state inf)
                          (c_req c) (c_min c) (c_wait c) cnt) as [expected res] eqn:Et.
  pose proof (timed_out_not_failed (c_kind c) (pr_wait_exit (sp_rules pr)) (c_ignore_we c) (i_state inf)
                                   (c_req c) (c_min c) (c_wait c) cnt) as Hnf. rewrite Et in Hnf.
  simpl in Hb, Hnf. destruct res; try congruence; cbv beta iota; rewrite Hj; cbv beta iota; rewrite Hcur; cbv beta iota;
    unfold put_job, mmod; cbv beta iota.
  - eexists _, _, _. split; [reflexivity|]. simpl. rewrite aget_aset_same. split; [reflexivity|].
    simpl. split; [exact Hnot|]. split; [apply (zremove_in _ _ _ Hcur)|]. left. reflexivity.
  - eexists _, _, _. split; [reflexivity|]. simpl. rewrite aget_aset_same. split; [reflexivity|].
    simpl. split; [exact Hnot|]. split; [apply (zremove_in _ _ _ Hcur)|]. right. exists expected. reflexivity.
Qed.

(* C10 forced_state_published (every state): abandoning a command publishes exactly one forced event: one entry
   in the local handling (displayed state becomes the failure state when the local instance takes it, then
   both sequencers are told, i.e. the sequence moves on) and one publication to the other instances *)
Theorem forced_state_published : forall a p target et fs reason s push outs s',
  step_force a p target et fs reason s = Ok ((push, outs), s') ->
  outs = [OForced a p fs reason target] /\
  ((push = [COnEvent KStart a p local_id; COnEvent KStop a p local_id; CEmit (OPub a p fs true)] /\
    exists pr', get_proc s' a p = Some pr' /\ sp_displayed pr' = fs)
   \/ (push = [CEmit (OPub a p fs false)] /\ s' = s)).
Proof.
  intros a p target et fs reason s push outs s' H. unfold step_force in H.
  apply mbind_ok in H. destruct H as (s0 & s1 & H0 & H). unfold mget in H0. inversion H0; subst s0 s1; clear H0.
  destruct (match aget local_id (s_insts s) with Some ins => inst_accepts ins | None => false end);
    [|unfold ret in H; inversion H; subst; split; [reflexivity|right; auto]].
  destruct (get_proc s a p) as [pr|] eqn:Ep; [|unfold ret in H; inversion H; subst; split; [reflexivity|right; auto]].
  destruct (force_state (sp_st pr) (match target with Some i => i | None => 0 end) fs et) as [p' forced] eqn:Ef.
  destruct forced; [|unfold ret in H; inversion H; subst; split; [reflexivity|right; auto]].
  apply mbind_ok in H. destruct H as (u & s1 & H0 & H). unfold ret in H. inversion H; subst; clear H.
  split; [reflexivity|]. left. split; [reflexivity|].
  (* the process table after put_sproc *)
  unfold put_sproc in H0. apply mbind_ok in H0. destruct H0 as (ap & s2 & Ha & H0).
  unfold get_app in Ha. apply lift_opt_ok in Ha. destruct Ha as [Ha ->].
  unfold mmod in H0. inversion H0; subst s'; clear H0.
  unfold force_state in Ef.
  destruct (match aget (match target with Some i => i | None => 0 end) (p_infos (sp_st pr)) with
            | Some inf => i_event_time inf <=? et | None => true end); inversion Ef; subst p'; clear Ef.
  eexists. unfold get_proc. simpl. rewrite aget_aset_same.
  split.
  - destruct (app_update (app_set_procs ap (aset p (set_sp_st pr _ (sp_stop0 pr)) (sa_procs ap)))) eqn:Eu.
    unfold app_update in Eu. inversion Eu; subst. simpl. rewrite aget_aset_same. reflexivity.
  - reflexivity.
Qed.

(* C10 lost_target (every job, every state): after on_instances_invalidation no current command targets a lost
   instance *)
Lemma inval_current_spec : forall s lost cids j failed j' failed',
  inval_current s lost cids j failed = (j', failed') -> NoDup (j_current j) ->
  NoDup (j_current j') /\
  (forall x, In x (j_current j') -> In x (j_current j)) /\
  (forall x c i, In x cids -> In x (j_current j') -> aget x (s_cmds s) = Some c -> c_ident c = Some i ->
                 zmem i lost = false).
Proof.
  intros s lost. induction cids as [|cid r IH]; intros j failed j' failed' H Hnd; simpl in H.
  - inversion H; subst. repeat split; auto. intros x c i [].
  - destruct (aget cid (s_cmds s)) as [c|] eqn:Ec.
    + destruct (match c_ident c with Some i => zmem i lost | None => false end) eqn:El.
      * (* removed *)
        destruct (zremove cid (j_current j)) as [cur|] eqn:Er.
        -- destruct (zremove_nodup _ _ _ Er Hnd) as [Hnd1 Hnot].
           set (j1 := set_job_fields j (j_planned j) cur (j_stop_request j)) in *.
           set (j2 := match get_proc s (c_app c) (c_proc c) with
                      | Some pr => process_failure j1 (sp_rules pr) | None => j1 end) in *.
           assert (Hcur2 : j_current j2 = cur).
           { unfold j2. destruct (get_proc s (c_app c) (c_proc c)); [|reflexivity].
             unfold process_failure. destruct (j_kind j1); [|reflexivity].
             destruct (pr_required (sp_rules s0)); [|reflexivity].
             destruct (Z.eqb (pr_sfs (sp_rules s0)) gen_StartingFailureStrategies_ABORT); [reflexivity|].
             destruct (Z.eqb (pr_sfs (sp_rules s0)) gen_StartingFailureStrategies_STOP); reflexivity. }
           apply IH in H; [|rewrite Hcur2; exact Hnd1]. destruct H as (Hn & Hsub & Hl).
           split; [exact Hn|]. split.
           ++ intros x Hx. apply Hsub in Hx. rewrite Hcur2 in Hx. apply (zremove_in _ _ _ Er). exact Hx.
           ++ intros x c0 i [->|Hx] Hin Hc0 Hi; [|eapply Hl; eauto].
              exfalso. apply Hnot. apply Hsub in Hin. rewrite Hcur2 in Hin. exact Hin.
        -- (* the command was not in the list: list.remove would raise; the model keeps the list *)
           set (j1 := set_job_fields j (j_planned j) (j_current j) (j_stop_request j)) in *.
           set (j2 := match get_proc s (c_app c) (c_proc c) with
                      | Some pr => process_failure j1 (sp_rules pr) | None => j1 end) in *.
           assert (Hcur2 : j_current j2 = j_current j).
           { unfold j2. destruct (get_proc s (c_app c) (c_proc c)); [|reflexivity].
             unfold process_failure. destruct (j_kind j1); [|reflexivity].
             destruct (pr_required (sp_rules s0)); [|reflexivity].
             destruct (Z.eqb (pr_sfs (sp_rules s0)) gen_StartingFailureStrategies_ABORT); [reflexivity|].
             destruct (Z.eqb (pr_sfs (sp_rules s0)) gen_StartingFailureStrategies_STOP); reflexivity. }
           apply IH in H; [|rewrite Hcur2; exact Hnd]. destruct H as (Hn & Hsub & Hl).
           split; [exact Hn|]. split.
           ++ intros x Hx. apply Hsub in Hx. rewrite Hcur2 in Hx. exact Hx.
           ++ intros x c0 i [->|Hx] Hin Hc0 Hi; [|eapply Hl; eauto].
              exfalso. apply Hsub in Hin. rewrite Hcur2 in Hin.
              destruct (zremove_present _ _ Hin) as [l' Hl']. congruence.
      * apply IH in H; [|exact Hnd]. destruct H as (Hn & Hsub & Hl).
        split; [exact Hn|]. split; [exact Hsub|].
        intros x c0 i [->|Hx] Hin Hc0 Hi; [|eapply Hl; eauto].
        rewrite Ec in Hc0. inversion Hc0; subst c0. rewrite Hi in El. exact El.
    + apply IH in H; [|exact Hnd]. destruct H as (Hn & Hsub & Hl).
      split; [exact Hn|]. split; [exact Hsub|].
      intros x c0 i [->|Hx] Hin Hc0 Hi; [congruence|eapply Hl; eauto].
Qed.

Theorem lost_target : forall s lost j failed j' failed',
  inval_job s lost j failed = (j', failed') -> NoDup (j_current j) ->
  forall cid c i, In cid (j_current j') -> aget cid (s_cmds s) = Some c -> c_ident c = Some i -> zmem i lost = false.
Proof.
  intros s lost j failed j' failed' H Hnd cid c i Hin Hc Hi. unfold inval_job in H.
  destruct (inval_current s lost (j_current j) j failed) as [j1 f1] eqn:E. inversion H; subst j'; clear H.
  destruct (inval_current_spec _ _ _ _ _ _ _ E Hnd) as (_ & Hsub & Hl).
  eapply Hl; eauto.
Qed.

(* ------------------------------------------------------------------ C03: starting failure strategy *)
(* process_failure: ABORT and STOP erase the plan of the job (nothing further will be requested from it), STOP
   also raises stop_request; CONTINUE and optional processes leave the plan unchanged; current jobs always go on *)
Theorem failure_strategy_abort_stop_continue : forall j r,
  j_kind j = KStart ->
  j_current (process_failure j r) = j_current j /\
  (pr_required r = true -> pr_sfs r = gen_StartingFailureStrategies_ABORT ->
     j_planned (process_failure j r) = [] /\ j_stop_request (process_failure j r) = j_stop_request j) /\
  (pr_required r = true -> pr_sfs r = gen_StartingFailureStrategies_STOP ->
     j_planned (process_failure j r) = [] /\ j_stop_request (process_failure j r) = true) /\
  (pr_required r = false \/ pr_sfs r = gen_StartingFailureStrategies_CONTINUE -> process_failure j r = j).
Proof.
  intros j r Hk. unfold process_failure. rewrite Hk.
  assert (Hd : gen_StartingFailureStrategies_ABORT <> gen_StartingFailureStrategies_STOP
               /\ gen_StartingFailureStrategies_CONTINUE <> gen_StartingFailureStrategies_ABORT
               /\ gen_StartingFailureStrategies_CONTINUE <> gen_StartingFailureStrategies_STOP)
    by (vm_compute; repeat split; discriminate).
  destruct Hd as (D1 & D2 & D3).
  repeat split.
  - destruct (pr_required r); [|reflexivity].
    destruct (Z.eqb (pr_sfs r) gen_StartingFailureStrategies_ABORT); [reflexivity|].
    destruct (Z.eqb (pr_sfs r) gen_StartingFailureStrategies_STOP); reflexivity.
  - rewrite H, H0, Z.eqb_refl. reflexivity.
  - rewrite H, H0, Z.eqb_refl. reflexivity.
  - rewrite H, H0. destruct (Z.eqb gen_StartingFailureStrategies_STOP gen_StartingFailureStrategies_ABORT) eqn:E.
    + apply Z.eqb_eq in E. congruence.
    + rewrite Z.eqb_refl. reflexivity.
  - rewrite H, H0. destruct (Z.eqb gen_StartingFailureStrategies_STOP gen_StartingFailureStrategies_ABORT) eqn:E.
    + apply Z.eqb_eq in E. congruence.
    + rewrite Z.eqb_refl. reflexivity.
  - intros [H|H]; [rewrite H; reflexivity|]. rewrite H.
    destruct (pr_required r); [|reflexivity].
    destruct (Z.eqb gen_StartingFailureStrategies_CONTINUE gen_StartingFailureStrategies_ABORT) eqn:E1;
      [apply Z.eqb_eq in E1; congruence|].
    destruct (Z.eqb gen_StartingFailureStrategies_CONTINUE gen_StartingFailureStrategies_STOP) eqn:E2;
      [apply Z.eqb_eq in E2; congruence|]. reflexivity.
Qed.

(* STOP is applied only once in-flight starts have ended: Starter.after (the only place that calls
   Stopper.stop_application for a stop_request) is reached from Commander.next only for a job with nothing planned
   and nothing current, and it lowers the flag (exactly one stop_application per raised flag) *)
Theorem stop_applied_after_in_flight : forall k a jid rest s push outs s',
  step_next_loop k ((a, jid) :: rest) s = Ok ((push, outs), s') ->
  In (CAfter k jid) push ->
  exists j, aget jid (s_jobs s) = Some j /\ j_planned j = [] /\ j_current j = [].
Proof.
  intros k a jid rest s push outs s' H Hin. unfold step_next_loop in H.
  apply mbind_ok in H. destruct H as (j & s1 & Hj & H). apply get_job_ok in Hj. destruct Hj as [Hj ->].
  exists j. split; [exact Hj|]. unfold job_in_progress in H.
  destruct (j_planned j); destruct (j_current j); unfold ret in H; inversion H; subst;
    try (split; reflexivity); destruct Hin as [Hin|[]]; discriminate.
Qed.

Theorem after_lowers_stop_request : forall jid s push outs s',
  step_after KStart jid s = Ok ((push, outs), s') ->
  (exists j, aget jid (s_jobs s) = Some j /\ j_stop_request j = false /\ push = [] /\ s' = s)
  \/ (exists j j', aget jid (s_jobs s) = Some j /\ j_stop_request j = true /\ push = [CStopApp (j_app j)] /\
                   aget jid (s_jobs s') = Some j' /\ j_stop_request j' = false).
Proof.
  intros jid s push outs s' H. unfold step_after in H.
  apply mbind_ok in H. destruct H as (j & s1 & Hj & H). apply get_job_ok in Hj. destruct Hj as [Hj ->].
  destruct (j_stop_request j) eqn:Es.
  - apply mbind_ok in H. destruct H as (u & s1 & Hp & H). unfold ret in H. inversion H; subst; clear H.
    right. exists j. eexists. repeat split; auto.
    + unfold put_job, mmod in Hp. inversion Hp; subst. simpl. apply aget_aset_same.
    + reflexivity.
  - unfold ret in H. inversion H; subst. left. exists j. auto.
Qed.

(* ------------------------------------------------------------------ witnesses (replayed on the real classes by the
   corpus harness/corpus/sequencer.json on every run) *)
Definition w_insts : list (Z * Z * Z) := [(1, 3, 10); (2, 3, 10); (3, 3, 10); (4, 3, 10); (5, 3, 10); (6, 3, 10)].
Definition w_proc (name start : Z) (required : bool) (insts : list Z) : pconf :=
  mkPConf name (mkPRules start 0 required false 0) 1 1 insts.

(* F-A: A1 (start_sequence 1) = {p1 : no resource, p2}, A2 (start_sequence 2) = {p1} *)
Definition w_cf_a : config :=
  mkConfig w_insts [mkAConf 1 true 1 1 0 [w_proc 1 1 false [1]; w_proc 2 1 false [2]];
                    mkAConf 2 true 2 2 0 [w_proc 1 1 false [3]]] 1000.
Definition w_ops_a : list top :=
  [(OpCall CStartApps, 1001, [OPlace None; OPlace (Some 3); OPlace (Some 2)])].

Definition outs_of (o : obs) : list out := match o with OOk outs _ _ _ _ _ => outs | OCrash _ => [] end.

(* C03 application_order is FALSE of the faithful model: with A1 at sequence 1 and A2 at sequence 2,
   start_applications requests A2:p1 BEFORE A1:p2, and the Starter forgets A1 (its job is deleted while its group
   is still being processed) *)
Theorem application_order_refuted :
  exists cf ops,
    map outs_of (run default_fuel (init_st cf) ops)
      = [[OForced 1 1 FATAL (-1) None; OStart 3 2 1; OPub 1 1 FATAL true; OStart 2 1 2]]
    /\ cf_app_start cf 1 = 1 /\ cf_app_start cf 2 = 2
    /\ has_vio [V_app_order] (case_vios (cf, ops, run default_fuel (init_st cf) ops)) = true.
Proof. exists w_cf_a, w_ops_a. vm_compute. repeat split; reflexivity. Qed.

(* ... and C10: the orphan command A1:p2 is never checked: A2 completes, the Starter reports no job in progress
   while A1:p2 is still starting, and no number of ticks followed by checks ever abandons it *)
Definition w_ops_a10 : list top :=
  w_ops_a ++ [(OpEvent 3 2 1 STARTING true 1002, 1002, []); (OpEvent 3 2 1 RUNNING true 1003, 1003, []);
              (OpTicks [(2, 60); (3, 60)] 1004, 1004, []); (OpCheck, 1005, [])].
Theorem job_bound_refuted :
  exists cf ops,
    let observed := run default_fuel (init_st cf) ops in
    has_vio [V_bound] (case_vios (cf, ops, observed)) = true
    /\ has_vio [V_progress] (case_vios (cf, ops, observed)) = true
    /\ match rev observed with OOk outs starting _ _ _ _ :: _ => outs = [] /\ starting = false | _ => False end.
Proof. exists w_cf_a, w_ops_a10. vm_compute. repeat split; reflexivity. Qed.

(* F-B: restart of A1 whose p1 finds no resource: Commander.next raises KeyError *)
Definition w_cf_b : config :=
  mkConfig w_insts [mkAConf 1 true 1 1 0 [w_proc 1 1 false [1]; w_proc 2 1 false [5]]] 1000.
Definition w_ops_b : list top :=
  [(OpEvent 5 1 2 STARTING true 1001, 1001, []); (OpEvent 5 1 2 RUNNING true 1002, 1002, []);
   (OpCall (CRestartApp 0 1), 1003, []);
   (OpEvent 5 1 2 STOPPED true 1004, 1004, [OPlace None; OPlace (Some 5)])].
Theorem no_internal_failure_refuted :
  exists cf ops, last (run default_fuel (init_st cf) ops) (OCrash OtherError) = OCrash KeyError.
Proof. exists w_cf_b, w_ops_b. vm_compute. reflexivity. Qed.

(* timeout of a REQUIRED process whose strategy is ABORT: the next sequence is requested all the same
   (ApplicationJobs.check calls fail_command but not process_failure) *)
Definition w_cf_c : config :=
  mkConfig w_insts [mkAConf 1 true 1 1 0 [w_proc 1 1 true [2]; w_proc 2 2 false [2]]] 1000.
Definition w_ops_c : list top :=
  [(OpCall (CStartApp 0 1), 1001, [OPlace (Some 2)]); (OpTicks [(2, 14)] 1002, 1002, []);
   (OpCheck, 1003, [OPlace (Some 2)])].
Theorem failure_strategy_on_timeout_refuted :
  exists cf ops,
    map outs_of (run default_fuel (init_st cf) ops)
      = [[OStart 2 1 1]; []; [OForced 1 1 FATAL 10 (Some 2); OPub 1 1 FATAL true; OStart 2 1 2]]
    /\ pr_required (cf_rules cf 1 1) = true /\ pr_sfs (cf_rules cf 1 1) = gen_StartingFailureStrategies_ABORT
    /\ has_vio [V_strategy_timeout] (case_vios (cf, ops, run default_fuel (init_st cf) ops)) = true.
Proof. exists w_cf_c, w_ops_c. vm_compute. repeat split; reflexivity. Qed.

(* ------------------------------------------------------------------ satisfiability of the hypotheses *)
(* state reached by witness C after its first operation: job 3 holds the command 1 (A1:p1 on instance 2) *)
Definition w_state_c : st :=
  match run_op default_fuel (init_st w_cf_c) (OpCall (CStartApp 0 1), 1001, [OPlace (Some 2)]) with
  | Ok (s, _) => set_insts (aset 2 (mkSInst 3 14) (s_insts s)) s
  | Crash _ => init_st w_cf_c
  end.

Example command_bound_hypotheses_hold :
  exists c pr inf j,
    aget 1 (s_cmds w_state_c) = Some c /\ get_proc w_state_c (c_app c) (c_proc c) = Some pr /\
    c_ident c = Some 2 /\ aget 2 (p_infos (sp_st pr)) = Some inf /\ counter_of w_state_c 2 = Some 14 /\
    aget 3 (s_jobs w_state_c) = Some j /\ j_current j = [1] /\ c_min c <= c_wait c /\ c_req c + c_wait c < 14 /\
    c_kind c = KStart /\ i_state inf = STOPPED.
Proof. vm_compute. do 4 eexists. repeat split; try reflexivity; discriminate. Qed.

Example start_group_hypotheses_hold :
  exists j push s',
    (let s := match op_calls (OpCall (CStartApp 0 1)) (set_now_oracle 1001 [] (init_st w_cf_c)) with
              | Ok (_, s) => s | Crash _ => init_st w_cf_c end in
     let s1 := match step_call (CStartApp 0 1) s with Ok (_, s1) => s1 | Crash _ => s end in
     aget 3 (s_jobs s1) = Some j /\ j_kind j = KStart /\
     step_aj_next 3 s1 = Ok ((push, []), s') /\ In (AJGroup 3 [1]) push).
Proof. vm_compute. do 3 eexists. repeat split; try reflexivity. left. reflexivity. Qed.

(* ------------------------------------------------------------------ C03 zero_never_auto *)
Lemma aappend_in : forall (l : alist (list Z)) k v k' names x,
  In (k', names) (aappend k v l) -> In x names ->
  (In (k', names) l) \/ (k' = k /\ (x = v \/ exists old, In (k, old) l /\ In x old)).
Proof.
  intros l k v k' names x Hin Hx. unfold aappend in Hin.
  destruct (aget k l) as [old|] eqn:Eg.
  - revert Eg Hin. induction l as [|[k0 v0] r IH]; intros Eg Hin; simpl in *; [discriminate|].
    destruct (Z.eqb k k0) eqn:E.
    + apply Z.eqb_eq in E. subst k0. inversion Eg; subst v0; clear Eg. simpl in Hin.
      destruct Hin as [Hin|Hin].
      * inversion Hin; subst. right. split; [reflexivity|]. apply in_app_or in Hx.
        destruct Hx as [Hx|[->|[]]]; [right; exists old; split; [left; reflexivity|exact Hx] | left; reflexivity].
      * left. right. exact Hin.
    + simpl in Hin. destruct Hin as [Hin|Hin]; [left; left; exact Hin|].
      destruct (IH Eg Hin) as [H|[H1 [H2|(o & Ho & Hxo)]]].
      * left. right. exact H.
      * right. auto.
      * right. split; [exact H1|]. right. exists o. split; [right; exact Ho|exact Hxo].
  - apply in_app_or in Hin. destruct Hin as [Hin|[Hin|[]]]; [left; exact Hin|].
    inversion Hin; subst. right. split; [reflexivity|]. destruct Hx as [->|[]]. left. reflexivity.
Qed.

(* every process listed under key k of a sequence dictionary has rule value k *)
Lemma seq_of_spec : forall f procs k names p,
  In (k, names) (seq_of f procs) -> In p names -> exists pr, In (p, pr) procs /\ f (sp_rules pr) = k.
Proof.
  intros f procs. unfold seq_of.
  assert (G : forall (acc : alist (list Z)) k names p,
             (forall k' n' x, In (k', n') acc -> In x n' -> exists pr, In (x, pr) procs /\ f (sp_rules pr) = k') ->
             forall l, incl l procs ->
             In (k, names) (fold_left (fun acc kv => aappend (f (sp_rules (snd kv))) (fst kv) acc) l acc) ->
             In p names -> exists pr, In (p, pr) procs /\ f (sp_rules pr) = k).
  { intros acc k names p Hacc l. revert acc Hacc. induction l as [|[x pr] r IH]; intros acc Hacc Hincl Hin Hp; simpl in Hin.
    - eapply Hacc; eauto.
    - apply (IH (aappend (f (sp_rules pr)) x acc)); auto.
      + intros k' n' y Hk Hy. destruct (aappend_in _ _ _ _ _ _ Hk Hy) as [H|[-> [->|(o & Ho & Hyo)]]].
        * eapply Hacc; eauto.
        * exists pr. split; [apply Hincl; left; reflexivity|reflexivity].
        * eapply Hacc; eauto.
      + intros z Hz. apply Hincl. right. exact Hz. }
  intros k names p Hin Hp. apply (G [] k names p) with (l := procs); auto.
  - intros k' n' x [].
  - apply incl_refl.
Qed.

(* zero_never_auto, process level (any rules, any state): the start sequence handed to the Starter by
   store_application — on every path: start_applications, start_application, restart, deferred start — only holds
   processes whose start_sequence is strictly positive, under their own sequence number *)
Theorem zero_never_auto_processes : forall ap k names p,
  In (k, names) (filter (fun kv => Z.ltb 0 (fst kv)) (app_start_sequence ap)) -> In p names ->
  0 < k /\ sa_managed ap = true /\ exists pr, In (p, pr) (sa_procs ap) /\ pr_start (sp_rules pr) = k.
Proof.
  intros ap k names p Hin Hp. apply filter_In in Hin. destruct Hin as [Hin Hk]. simpl in Hk. apply Z.ltb_lt in Hk.
  unfold app_start_sequence in Hin. destruct (sa_managed ap) eqn:Em; [|contradiction].
  split; [exact Hk|]. split; [reflexivity|]. eapply seq_of_spec; eauto.
Qed.

(* ---- frame: allocation of commands and jobs does not touch the context slice nor the two job tables *)
Definition same_ctl (s s' : st) : Prop :=
  s_apps s' = s_apps s /\ s_starter s' = s_starter s /\ s_stopper s' = s_stopper s /\ s_insts s' = s_insts s.

Lemma same_ctl_refl : forall s, same_ctl s s.
Proof. intros s. repeat split. Qed.
Lemma same_ctl_trans : forall a b c, same_ctl a b -> same_ctl b c -> same_ctl a c.
Proof. intros a b c (A1 & A2 & A3 & A4) (B1 & B2 & B3 & B4). repeat split; congruence. Qed.

Lemma mmap_frame : forall A B (f : A -> M B),
  (forall x s y s', f x s = Ok (y, s') -> same_ctl s s') ->
  forall l s ys s', mmap f l s = Ok (ys, s') -> same_ctl s s'.
Proof.
  intros A B f Hf. induction l as [|x r IH]; intros s ys s' H; simpl in H.
  - unfold ret in H. inversion H; subst. apply same_ctl_refl.
  - apply mbind_ok in H. destruct H as (y & s1 & H1 & H). apply mbind_ok in H. destruct H as (ys' & s2 & H2 & H).
    unfold ret in H. inversion H; subst. eapply same_ctl_trans; [eapply Hf; eauto | eapply IH; eauto].
Qed.

Lemma new_start_cmd_frame : forall a p strat ig s cid s', new_start_cmd a p strat ig s = Ok (cid, s') -> same_ctl s s'.
Proof.
  intros a p strat ig s cid s' H. unfold new_start_cmd in H.
  apply mbind_ok in H. destruct H as (c0 & s1 & H1 & H). unfold fresh in H1. inversion H1; subst; clear H1.
  apply mbind_ok in H. destruct H as (s0 & s2 & H1 & H). unfold mget in H1. inversion H1; subst; clear H1.
  apply mbind_ok in H. destruct H as (u & s3 & H1 & H). unfold put_cmd, mmod in H1. inversion H1; subst; clear H1.
  unfold ret in H. inversion H; subst. repeat split.
Qed.

Lemma new_job_frame : forall k a pl s jid s', new_job k a pl s = Ok (jid, s') -> same_ctl s s'.
Proof.
  intros k a pl s jid s' H. unfold new_job in H.
  apply mbind_ok in H. destruct H as (c0 & s1 & H1 & H). unfold fresh in H1. inversion H1; subst; clear H1.
  apply mbind_ok in H. destruct H as (u & s3 & H1 & H). unfold put_job, mmod in H1. inversion H1; subst; clear H1.
  unfold ret in H. inversion H; subst. repeat split.
Qed.

Lemma store_group_frame : forall a strat (kv : Z * list Z) s y s',
  (do cids <- mmap (fun p => new_start_cmd a p strat false) (snd kv) ;; ret (fst kv, cids)) s = Ok (y, s') ->
  same_ctl s s'.
Proof.
  intros a strat kv s y s' Hy.
  apply mbind_ok in Hy. destruct Hy as (cids & s3 & Hy1 & Hy). unfold ret in Hy. inversion Hy; subst.
  apply (mmap_frame _ _ (fun p => new_start_cmd a p strat false)) in Hy1; [exact Hy1|].
  intros p s4 cid s4' Hc. eapply new_start_cmd_frame; exact Hc.
Qed.

(* Starter.store_application(b): the Starter table is unchanged or receives one entry for b, at b's own sequence *)
Lemma starter_store_frame : forall b strat s u s',
  starter_store b strat s = Ok (u, s') ->
  s_apps s' = s_apps s /\
  (s_starter s' = s_starter s \/
   exists jid ap, aget b (s_apps s) = Some ap /\ s_starter s' = plan_job (s_starter s) (sa_start ap) b jid).
Proof.
  intros b strat s u s' H. unfold starter_store in H.
  apply mbind_ok in H. destruct H as (ap & s1 & H1 & H). unfold get_app in H1. apply lift_opt_ok in H1.
  destruct H1 as [Hap ->].
  apply mbind_ok in H. destruct H as (seqs & s2 & H1 & H).
  assert (F1 : same_ctl s s2).
  { eapply mmap_frame in H1; [exact H1|]. intros kv s0 y s0' Hy. eapply store_group_frame; exact Hy. }
  destruct seqs as [|kv r].
  - unfold ret in H. inversion H; subst. destruct F1 as (A & B & _). split; [exact A|left; exact B].
  - apply mbind_ok in H. destruct H as (jid & s3 & H2 & H). apply new_job_frame in H2.
    unfold mmod in H. inversion H; subst; clear H.
    pose proof (same_ctl_trans _ _ _ F1 H2) as (A & B & _). simpl. split; [exact A|].
    right. exists jid, ap. split; [exact Hap|]. rewrite B. reflexivity.
Qed.

Lemma aget_aset_other : forall V (l : alist V) k k' v, k <> k' -> aget k (aset k' v l) = aget k l.
Proof.
  induction l as [|[k0 v0] r IH]; intros k k' v Hne; simpl.
  - destruct (Z.eqb k k') eqn:E; [apply Z.eqb_eq in E; contradiction|reflexivity].
  - destruct (Z.eqb k' k0) eqn:E0; simpl.
    + apply Z.eqb_eq in E0. subst k0. destruct (Z.eqb k k') eqn:E; [apply Z.eqb_eq in E; contradiction|reflexivity].
    + destruct (Z.eqb k k0); [reflexivity|apply IH; exact Hne].
Qed.

(* planning a job for b does not change the job found for another application a *)
Lemma get_application_job_plan_other : forall c prio a b jid,
  a <> b -> get_application_job (plan_job c prio b jid) a = get_application_job c a.
Proof.
  intros c prio a b jid Hne. unfold get_application_job, plan_job. simpl.
  destruct (aget a (cm_current c)); [reflexivity|].
  set (m := match aget prio (cm_planned c) with Some m => m | None => [] end).
  assert (Hm : forall a0, a0 <> b -> aget a0 (aset b jid m) = aget a0 m) by (intros; apply aget_aset_other; assumption).
  assert (Hmem : amem a (aset b jid m) = amem a m) by (unfold amem; rewrite Hm; auto).
  unfold m in *. clear m.
  induction (cm_planned c) as [|[k0 m0] r IH]; simpl in *.
  - unfold amem at 1. simpl. destruct (Z.eqb a b) eqn:E; [apply Z.eqb_eq in E; contradiction|]. reflexivity.
  - destruct (Z.eqb prio k0) eqn:E0; simpl.
    + rewrite Hmem. destruct (amem a m0) eqn:Ea; [apply Hm; exact Hne|reflexivity].
    + destruct (amem a m0); [reflexivity|]. apply IH; assumption.
Qed.

(* zero_never_auto, application level (any rules, any state): the store phase of Starter.start_applications
   leaves untouched the job entry of every application whose start_sequence is not strictly positive *)
Theorem zero_never_auto_applications : forall a apps s ys s',
  (forall ap', In (a, ap') apps -> sa_start ap' <= 0) ->
  mmap (fun kv : Z * sapp => let ap := snd kv in
          if Z.ltb 0 (sa_start ap) && (app_never_started ap || sa_major ap || sa_minor ap)
          then starter_store (fst kv) None else ret tt) apps s = Ok (ys, s') ->
  (forall b ap, In (b, ap) apps -> aget b (s_apps s) = Some ap \/ b <> a) ->
  get_application_job (s_starter s') a = get_application_job (s_starter s) a.
Proof.
  intros a. induction apps as [|[b ap] r IH]; intros s ys s' Hz H Hcons; simpl in H.
  - unfold ret in H. inversion H; subst. reflexivity.
  - apply mbind_ok in H. destruct H as (y & s1 & H1 & H). apply mbind_ok in H. destruct H as (ys' & s2 & H2 & H).
    unfold ret in H. inversion H; subst s2 ys; clear H. simpl in H1.
    assert (Hstep : get_application_job (s_starter s1) a = get_application_job (s_starter s) a /\ s_apps s1 = s_apps s).
    { destruct (Z.ltb 0 (sa_start ap) && (app_never_started ap || sa_major ap || sa_minor ap)) eqn:Eg.
      - apply andb_prop in Eg. destruct Eg as [Eg _]. apply Z.ltb_lt in Eg.
        destruct (starter_store_frame _ _ _ _ _ H1) as [Ha [Hs|(jid & ap0 & Hap0 & Hs)]].
        + rewrite Hs. auto.
        + rewrite Hs. split; [|exact Ha]. apply get_application_job_plan_other.
          intro Heq. subst b. specialize (Hz ap (or_introl eq_refl)). lia.
      - unfold ret in H1. inversion H1; subst. auto. }
    destruct Hstep as [Hj Ha]. rewrite <- Hj. apply (IH s1 ys' s'); auto.
    + intros ap' Hin. apply Hz. right. exact Hin.
    + intros b0 ap0 Hin. rewrite Ha. apply Hcons. right. exact Hin.
Qed.



(* ------------------------------------------------------------------ application level, local form *)
(* C03 application_order / C09 stop_application_order as DESIGN states them (every state): application jobs become
   current only when NO application job is current, and they are the jobs planned under the least (Starter) /
   greatest (Stopper) application sequence number planned at that moment *)
Theorem application_pop_is_extremal : forall k s push outs s',
  step_next_pop k s = Ok ((push, outs), s') ->
  push = [] \/
  exists seq cur,
    cm_current (get_cmdr k s) = [] /\
    aget seq (cm_planned (get_cmdr k s)) = Some cur /\
    (forall y, In y (akeys (cm_planned (get_cmdr k s))) ->
       match k with KStart => seq <= y | KStop => y <= seq end) /\
    push = [CStartJobs k cur; CNext k] /\
    get_cmdr k s' = mkCmdr (adel seq (cm_planned (get_cmdr k s))) cur.
Proof.
  intros k s push outs s' H. unfold step_next_pop in H.
  apply mbind_ok in H. destruct H as (s0 & s1 & H0 & H). unfold mget in H0. inversion H0; subst s0 s1; clear H0.
  remember (cm_planned (get_cmdr k s)) as pl eqn:Epl.
  destruct pl as [|kv pl']; [unfold ret in H; inversion H; left; reflexivity|].
  destruct (cm_current (get_cmdr k s)) eqn:Ec; [|unfold ret in H; inversion H; left; reflexivity].
  rewrite Epl in H.
  destruct (pickup k (akeys (cm_planned (get_cmdr k s)))) as [seq|] eqn:Epk;
    [|unfold ret in H; inversion H; left; reflexivity].
  assert (Hk : In seq (akeys (cm_planned (get_cmdr k s))) /\
               forall y, In y (akeys (cm_planned (get_cmdr k s))) -> match k with KStart => seq <= y | KStop => y <= seq end).
  { destruct k; [apply pickup_start_min in Epk | apply pickup_stop_max in Epk]; exact Epk. }
  destruct Hk as [Hin Hext]. destruct (aget_of_key _ _ _ Hin) as [cur Hcur]. rewrite Hcur in H.
  apply mbind_ok in H. destruct H as (u & s1 & H0 & H). unfold ret in H. inversion H; subst push outs s'; clear H.
  unfold mmod in H0. inversion H0; subst s1; clear H0.
  right. rewrite Epl. exists seq, cur. split; [reflexivity|]. split; [exact Hcur|]. split; [exact Hext|]. split; [reflexivity|].
  destruct k; reflexivity.
Qed.



(* ================================================================== SEQ-shape along runs (partial) *)
(* ---- how one call may change the heap of application jobs *)
Definition WFj (s : st) : Prop := forall jid, amem jid (s_jobs s) = true -> jid < s_next_id s.

(* an existing job keeps its kind and application, its plan is kept or erased, its current commands shrink *)
Definition Rj (j j' : job) : Prop :=
  j_kind j' = j_kind j /\ j_app j' = j_app j /\
  (j_planned j' = j_planned j \/ j_planned j' = []) /\ incl (j_current j') (j_current j).
Definition newjob (j' : job) : Prop := j_current j' = [] /\ NoDup (akeys (j_planned j')).

Definition T (s s' : st) : Prop :=
  WFj s ->
  WFj s' /\ s_next_id s <= s_next_id s' /\
  (forall jid j, aget jid (s_jobs s) = Some j -> exists j', aget jid (s_jobs s') = Some j' /\ Rj j j') /\
  (forall jid j', aget jid (s_jobs s') = Some j' -> aget jid (s_jobs s) = None -> newjob j').

Lemma Rj_refl : forall j, Rj j j.
Proof. intros j. repeat split; auto. apply incl_refl. Qed.
Lemma Rj_trans : forall a b c, Rj a b -> Rj b c -> Rj a c.
Proof.
  intros a b c (A1 & A2 & A3 & A4) (B1 & B2 & B3 & B4). repeat split; try congruence.
  - destruct B3 as [B3|B3]; [rewrite B3; exact A3|right; exact B3].
  - eapply incl_tran; eauto.
Qed.

Lemma T_refl : forall s, T s s.
Proof.
  intros s Hw. split; [exact Hw|]. split; [lia|]. split.
  - intros jid j Hj. exists j. split; [exact Hj|apply Rj_refl].
  - intros jid j' H1 H2. congruence.
Qed.

Lemma T_trans : forall a b c, T a b -> T b c -> T a c.
Proof.
  intros a b c Hab Hbc Hw. destruct (Hab Hw) as (Hwb & Hn1 & Hf1 & Hnew1).
  destruct (Hbc Hwb) as (Hwc & Hn2 & Hf2 & Hnew2).
  split; [exact Hwc|]. split; [lia|]. split.
  - intros jid j Hj. destruct (Hf1 _ _ Hj) as (j1 & Hj1 & R1). destruct (Hf2 _ _ Hj1) as (j2 & Hj2 & R2).
    exists j2. split; [exact Hj2|eapply Rj_trans; eauto].
  - intros jid j2 Hj2 Hnone. destruct (aget jid (s_jobs b)) as [j1|] eqn:Eb.
    + pose proof (Hnew1 _ _ Eb Hnone) as [Hc Hd]. destruct (Hf2 _ _ Eb) as (j2' & Hj2' & (_ & _ & Hp & Hi)).
      rewrite Hj2 in Hj2'. inversion Hj2'; subst j2'. split.
      * rewrite Hc in Hi. destruct (j_current j2) as [|x r]; [reflexivity|]. exfalso. apply (Hi x). left. reflexivity.
      * destruct Hp as [Hp|Hp]; rewrite Hp; [exact Hd|constructor].
    + eapply Hnew2; eauto.
Qed.

Lemma T_same : forall s s', s_jobs s' = s_jobs s -> s_next_id s' = s_next_id s -> T s s'.
Proof.
  intros s s' Hj Hn Hw. split.
  - intros jid H. rewrite Hj in H. rewrite Hn. apply Hw. exact H.
  - split; [lia|]. rewrite Hj. split.
    + intros jid j H. exists j. split; [exact H|apply Rj_refl].
    + intros jid j' H1 H2. congruence.
Qed.

Lemma amem_aset : forall V (l : alist V) k k' v, amem k (aset k' v l) = (Z.eqb k k' || amem k l)%bool.
Proof.
  intros V l k k' v. unfold amem. destruct (Z.eqb k k') eqn:E.
  - apply Z.eqb_eq in E. subst. rewrite aget_aset_same. reflexivity.
  - assert (k <> k') by (intro; subst; rewrite Z.eqb_refl in E; discriminate).
    rewrite aget_aset_other by assumption. reflexivity.
Qed.

(* replacing an existing job by a related one *)
Lemma T_put_R : forall s jid j j',
  aget jid (s_jobs s) = Some j -> Rj j j' -> T s (set_jobs (aset jid j' (s_jobs s)) s).
Proof.
  intros s jid j j' Hj HR Hw. simpl. split.
  - intros x Hx. simpl in Hx. rewrite amem_aset in Hx. apply orb_prop in Hx. destruct Hx as [Hx|Hx].
    + apply Z.eqb_eq in Hx. subst. apply Hw. unfold amem. rewrite Hj. reflexivity.
    + apply Hw. exact Hx.
  - split; [simpl; lia|]. split.
    + intros x jx Hx. destruct (Z.eq_dec x jid) as [->|Hne].
      * rewrite aget_aset_same. exists j'. split; [reflexivity|]. rewrite Hj in Hx. inversion Hx; subst. exact HR.
      * rewrite aget_aset_other by assumption. exists jx. split; [exact Hx|apply Rj_refl].
    + intros x jx Hx Hnone. destruct (Z.eq_dec x jid) as [->|Hne]; [congruence|].
      rewrite aget_aset_other in Hx by assumption. congruence.
Qed.

(* allocating a job at the fresh identifier *)
Lemma T_new : forall s j',
  newjob j' ->
  T s (set_jobs (aset (s_next_id s) j' (s_jobs (set_next_id (s_next_id s + 1) s))) (set_next_id (s_next_id s + 1) s)).
Proof.
  intros s j' Hn Hw. simpl. split.
  - intros x Hx. simpl in Hx. rewrite amem_aset in Hx. apply orb_prop in Hx. destruct Hx as [Hx|Hx].
    + apply Z.eqb_eq in Hx. (simpl in *; lia).
    + specialize (Hw _ Hx). (simpl in *; lia).
  - split; [simpl; lia|]. split.
    + intros x jx Hx. assert (x <> s_next_id s).
      { intro; subst. assert (amem (s_next_id s) (s_jobs s) = true) by (unfold amem; rewrite Hx; reflexivity).
        specialize (Hw _ H). (simpl in *; lia). }
      rewrite aget_aset_other by assumption. exists jx. split; [exact Hx|apply Rj_refl].
    + intros x jx Hx Hnone. destruct (Z.eq_dec x (s_next_id s)) as [->|Hne].
      * rewrite aget_aset_same in Hx. inversion Hx; subst. exact Hn.
      * rewrite aget_aset_other in Hx by assumption. congruence.
Qed.

Lemma T_fresh : forall s, T s (set_next_id (s_next_id s + 1) s).
Proof.
  intros s Hw. simpl. split.
  - intros x Hx. specialize (Hw _ Hx). simpl. (simpl in *; lia).
  - split; [simpl; lia|]. split.
    + intros x jx Hx. exists jx. split; [exact Hx|apply Rj_refl].
    + intros x jx Hx Hnone. congruence.
Qed.

(* ---- a small logic: monadic computations whose effect on the job heap is a T-step *)
Definition Pres {A} (m : M A) : Prop := forall s a s', m s = Ok (a, s') -> T s s'.

Lemma pres_bind : forall A B (m : M A) (f : A -> M B), Pres m -> (forall a, Pres (f a)) -> Pres (mbind m f).
Proof.
  intros A B m f Hm Hf s b s' H. apply mbind_ok in H. destruct H as (a & s1 & H1 & H2).
  eapply T_trans; [eapply Hm; eauto | eapply Hf; eauto].
Qed.
Lemma pres_ret : forall A (a : A), Pres (ret a).
Proof. intros A a s x s' H. unfold ret in H. inversion H; subst. apply T_refl. Qed.
Lemma pres_fail : forall A k, Pres (@fail A k).
Proof. intros A k s x s' H. discriminate. Qed.
Lemma pres_mget : Pres mget.
Proof. intros s x s' H. unfold mget in H. inversion H; subst. apply T_refl. Qed.
Lemma pres_lift_opt : forall A (o : option A) k, Pres (lift_opt o k).
Proof. intros A o k s x s' H. apply lift_opt_ok in H. destruct H as [_ ->]. apply T_refl. Qed.
Lemma pres_get_job : forall jid, Pres (get_job jid).
Proof. intros jid s x s' H. apply get_job_ok in H. destruct H as [_ ->]. apply T_refl. Qed.
Lemma pres_get_cmd : forall cid, Pres (get_cmd cid).
Proof. intros cid s x s' H. apply get_cmd_ok in H. destruct H as [_ ->]. apply T_refl. Qed.
Lemma pres_get_sproc : forall a p, Pres (get_sproc a p).
Proof. intros a p s x s' H. apply get_sproc_ok in H. destruct H as [_ ->]. apply T_refl. Qed.
Lemma pres_get_app : forall a, Pres (get_app a).
Proof. intros a s x s' H. unfold get_app in H. apply lift_opt_ok in H. destruct H as [_ ->]. apply T_refl. Qed.
Lemma pres_fresh : Pres fresh.
Proof. intros s x s' H. unfold fresh in H. inversion H; subst. apply T_fresh. Qed.
Lemma pres_mmod_same : forall f, (forall s, s_jobs (f s) = s_jobs s /\ s_next_id (f s) = s_next_id s) -> Pres (mmod f).
Proof. intros f Hf s x s' H. unfold mmod in H. inversion H; subst. destruct (Hf s). apply T_same; assumption. Qed.
Lemma pres_put_cmd : forall c, Pres (put_cmd c).
Proof. intros c. unfold put_cmd. apply pres_mmod_same. intros s. split; reflexivity. Qed.
Lemma pres_take_place : Pres take_place.
Proof.
  intros s x s' H. unfold take_place in H. destruct (s_oracle s) as [|[o|l] r]; inversion H; subst;
    try apply T_refl. apply T_same; reflexivity.
Qed.
Lemma pres_take_order : forall run, Pres (take_order run).
Proof.
  intros run s x s' H. unfold take_order in H.
  destruct run as [|a [|b r]]; try (inversion H; subst; apply T_refl).
  destruct (s_oracle s) as [|[o|l] r']; inversion H; subst; try apply T_refl. apply T_same; reflexivity.
Qed.
Lemma pres_mmap : forall A B (f : A -> M B), (forall x, Pres (f x)) -> forall l, Pres (mmap f l).
Proof.
  intros A B f Hf. induction l as [|x r IH]; simpl.
  - apply pres_ret.
  - apply pres_bind; [apply Hf|]. intros y. apply pres_bind; [exact IH|]. intros ys. apply pres_ret.
Qed.
Lemma pres_new_job : forall k a pl, NoDup (akeys pl) -> Pres (new_job k a pl).
Proof.
  intros k a pl Hnd s x s' H. unfold new_job in H.
  apply mbind_ok in H. destruct H as (jid & s1 & H1 & H). unfold fresh in H1. inversion H1; subst jid s1; clear H1.
  apply mbind_ok in H. destruct H as (u & s2 & H1 & H). unfold ret in H. inversion H; subst; clear H.
  unfold put_job, mmod in H1. inversion H1; subst; clear H1.
  apply T_new. split; [reflexivity|exact Hnd].
Qed.

Lemma set_cmdr_same : forall k c s, s_jobs (set_cmdr k c s) = s_jobs s /\ s_next_id (set_cmdr k c s) = s_next_id s.
Proof. intros k c s. destruct k; split; reflexivity. Qed.
Lemma set_sm_same : forall k b s, s_jobs (set_sm k b s) = s_jobs s /\ s_next_id (set_sm k b s) = s_next_id s.
Proof. intros k b s. destruct k; split; reflexivity. Qed.

Ltac pres :=
  repeat first
    [ apply pres_ret | apply pres_fail | apply pres_mget | apply pres_lift_opt | apply pres_get_job
    | apply pres_get_cmd | apply pres_get_sproc | apply pres_get_app | apply pres_fresh | apply pres_put_cmd
    | apply pres_take_place | apply pres_take_order
    | apply pres_mmap; intros
    | apply pres_bind; [|intros]
    | apply pres_mmod_same; intros; first [split; reflexivity | apply set_cmdr_same | apply set_sm_same]
    | match goal with
      | |- Pres (if ?b then _ else _) => destruct b
      | |- Pres (match ?x with _ => _ end) => destruct x
      | |- Pres (let '(_, _) := ?x in _) => destruct x
      end ].

Lemma pres_update_identifier : forall c i, Pres (update_identifier c i).
Proof. intros c i. unfold update_identifier. pres. Qed.
Lemma pres_new_start_cmd : forall a p st ig, Pres (new_start_cmd a p st ig).
Proof. intros. unfold new_start_cmd. pres. Qed.
Lemma pres_new_stop_cmd : forall a p i, Pres (new_stop_cmd a p i).
Proof. intros. unfold new_stop_cmd. pres. Qed.
Lemma pres_stop_cmds_of : forall a p only, Pres (stop_cmds_of a p only).
Proof. intros. unfold stop_cmds_of. pres. Qed.
Lemma pres_put_sproc : forall a p pr b, Pres (put_sproc a p pr b).
Proof. intros. unfold put_sproc. pres. Qed.

(* ---- the plans handed to new jobs have duplicate-free keys *)
Lemma aget_none_notin : forall V (l : alist V) k, aget k l = None -> ~ In k (akeys l).
Proof.
  induction l as [|[k' v'] r IH]; intros k H; simpl in *; [tauto|].
  destruct (Z.eqb k k') eqn:E; [discriminate|]. intros [Hk|Hin].
  - subst. rewrite Z.eqb_refl in E. discriminate.
  - eapply IH; eauto.
Qed.
Lemma akeys_aset_present : forall V (l : alist V) k v old, aget k l = Some old -> akeys (aset k v l) = akeys l.
Proof.
  induction l as [|[k' v'] r IH]; intros k v old H; simpl in *; [discriminate|].
  destruct (Z.eqb k k') eqn:E; simpl; [reflexivity|]. f_equal. eapply IH; eauto.
Qed.
Lemma nodup_snoc : forall (l : list Z) x, NoDup l -> ~ In x l -> NoDup (l ++ [x]).
Proof.
  induction l as [|y r IH]; intros x Hn Hx; simpl.
  - constructor; [tauto|constructor].
  - inversion Hn; subst. constructor.
    + intro Hin. apply in_app_or in Hin. destruct Hin as [Hin|[->|[]]]; [contradiction|]. apply Hx. left. reflexivity.
    + apply IH; [assumption|]. intro. apply Hx. right. assumption.
Qed.
Lemma aappend_nodup : forall (l : alist (list Z)) k v, NoDup (akeys l) -> NoDup (akeys (aappend k v l)).
Proof.
  intros l k v H. unfold aappend. destruct (aget k l) as [old|] eqn:E.
  - erewrite akeys_aset_present; eauto.
  - unfold akeys. rewrite map_app. simpl. apply nodup_snoc; [exact H|]. apply aget_none_notin. exact E.
Qed.
Lemma seq_of_nodup : forall f procs, NoDup (akeys (seq_of f procs)).
Proof.
  intros f procs. unfold seq_of.
  assert (G : forall (l : alist sproc) (acc : alist (list Z)), NoDup (akeys acc) ->
            NoDup (akeys (fold_left (fun (acc : alist (list Z)) (kv : Z * sproc) => aappend (f (sp_rules (snd kv))) (fst kv) acc) l acc))).
  { induction l as [|x r IH]; intros acc Ha; simpl; [exact Ha|]. apply IH. apply aappend_nodup. exact Ha. }
  apply G. constructor.
Qed.
Lemma filter_keys_nodup : forall V (g : Z * V -> bool) (l : alist V), NoDup (akeys l) -> NoDup (akeys (filter g l)).
Proof.
  induction l as [|x r IH]; intros H; simpl; [constructor|]. inversion H; subst.
  destruct (g x); simpl; [|apply IH; assumption]. constructor; [|apply IH; assumption].
  intro Hin. apply H2. unfold akeys in *. apply in_map_iff in Hin. destruct Hin as (y & Hy & Hin).
  apply filter_In in Hin. apply in_map_iff. exists y. tauto.
Qed.
Lemma mmap_keys : forall A V (F : Z * A -> M (Z * V)),
  (forall kv s y s', F kv s = Ok (y, s') -> fst y = fst kv) ->
  forall l s ys s', mmap F l s = Ok (ys, s') -> map fst ys = map fst l.
Proof.
  intros A V F HF. induction l as [|x r IH]; intros s ys s' H; simpl in H.
  - unfold ret in H. inversion H; reflexivity.
  - apply mbind_ok in H. destruct H as (y & s1 & H1 & H). apply mbind_ok in H. destruct H as (ys' & s2 & H2 & H).
    unfold ret in H. inversion H; subst. simpl. f_equal; [eapply HF; eauto|eapply IH; eauto].
Qed.

Lemma pres_starter_store : forall a strat, Pres (starter_store a strat).
Proof.
  intros a strat s u s' H. unfold starter_store in H.
  apply mbind_ok in H. destruct H as (ap & s1 & H1 & H). unfold get_app in H1. apply lift_opt_ok in H1.
  destruct H1 as [_ ->].
  apply mbind_ok in H. destruct H as (seqs & s2 & H1 & H).
  assert (Hk : akeys seqs = akeys (filter (fun kv => Z.ltb 0 (fst kv)) (app_start_sequence ap))).
  { unfold akeys. eapply mmap_keys; [|exact H1]. intros kv s0 y s0' Hy. cbv beta in Hy.
    apply mbind_ok in Hy. destruct Hy as (cids & s3 & _ & Hy). unfold ret in Hy. inversion Hy; reflexivity. }
  assert (Hnd : NoDup (akeys seqs)).
  { rewrite Hk. apply filter_keys_nodup. unfold app_start_sequence. destruct (sa_managed ap); [apply seq_of_nodup|constructor]. }
  eapply T_trans.
  - match type of H1 with mmap ?F ?l _ = _ =>
      assert (Hp : Pres (mmap F l)) by (apply pres_mmap; intros kv; pres); exact (Hp _ _ _ H1) end.
  - destruct seqs as [|kv r]; [revert H; apply pres_ret|].
    revert H. apply pres_bind; [apply pres_new_job; exact Hnd|]. intros jid. pres.
Qed.

Lemma pres_stopper_store : forall a, Pres (stopper_store a).
Proof.
  intros a s u s' H. unfold stopper_store in H.
  apply mbind_ok in H. destruct H as (ap & s1 & H1 & H). unfold get_app in H1. apply lift_opt_ok in H1.
  destruct H1 as [_ ->].
  apply mbind_ok in H. destruct H as (seqs & s2 & H1 & H).
  assert (Hk : akeys seqs = akeys (app_stop_sequence ap)).
  { unfold akeys. eapply mmap_keys; [|exact H1]. intros kv s0 y s0' Hy. cbv beta in Hy.
    apply mbind_ok in Hy. destruct Hy as (cids & s3 & _ & Hy). unfold ret in Hy. inversion Hy; reflexivity. }
  assert (Hnd : NoDup (akeys (filter (fun kv : Z * list Z => match snd kv with [] => false | _ => true end) seqs))).
  { apply filter_keys_nodup. rewrite Hk. unfold app_stop_sequence. apply seq_of_nodup. }
  eapply T_trans.
  - match type of H1 with mmap ?F ?l _ = _ =>
      assert (Hp : Pres (mmap F l)) by (apply pres_mmap; intros kv; pres); exact (Hp _ _ _ H1) end.
  - destruct (filter (fun kv : Z * list Z => match snd kv with [] => false | _ => true end) seqs) as [|kv r] eqn:Ef;
      [revert H; apply pres_ret|].
    revert H. apply pres_bind; [apply pres_new_job; exact Hnd|]. intros jid. pres.
Qed.

(* ---- calls that rewrite an existing job *)
Lemma pres_put_job_R : forall jid j j' s u s',
  Rj j j' -> aget jid (s_jobs s) = Some j -> put_job jid j' s = Ok (u, s') -> T s s'.
Proof.
  intros jid j j' s u s' HR Hj H. unfold put_job, mmod in H. inversion H; subst. eapply T_put_R; eauto.
Qed.

Lemma Rj_process_failure : forall j r, Rj j (process_failure j r).
Proof.
  intros j r. unfold process_failure. destruct (j_kind j) eqn:Ek; [|apply Rj_refl].
  destruct (pr_required r); [|apply Rj_refl].
  destruct (Z.eqb (pr_sfs r) gen_StartingFailureStrategies_ABORT).
  - repeat split; simpl; auto. apply incl_refl.
  - destruct (Z.eqb (pr_sfs r) gen_StartingFailureStrategies_STOP); [|apply Rj_refl].
    repeat split; simpl; auto. apply incl_refl.
Qed.

Lemma Rj_set_current : forall j cur sr, incl cur (j_current j) -> Rj j (set_job_fields j (j_planned j) cur sr).
Proof. intros j cur sr H. repeat split; simpl; auto. Qed.

Lemma pres_step_after : forall k jid, Pres (step_after k jid).
Proof.
  intros k jid s r s' H. unfold step_after in H.
  apply mbind_ok in H. destruct H as (j & s1 & Hj & H). apply get_job_ok in Hj. destruct Hj as [Hj ->].
  destruct k.
  - destruct (j_stop_request j).
    + apply mbind_ok in H. destruct H as (u & s1 & H1 & H). unfold ret in H. inversion H; subst; clear H.
      eapply pres_put_job_R; [|exact Hj|exact H1]. apply Rj_set_current. apply incl_refl.
    + revert H. apply pres_ret.
  - revert H. pres.
Qed.

Lemma pres_step_proc_failure : forall jid a p, Pres (step_proc_failure jid a p).
Proof.
  intros jid a p s r s' H. unfold step_proc_failure in H.
  apply mbind_ok in H. destruct H as (j & s1 & Hj & H). apply get_job_ok in Hj. destruct Hj as [Hj ->].
  apply mbind_ok in H. destruct H as (pr & s1 & Hp & H). apply get_sproc_ok in Hp. destruct Hp as [_ ->].
  apply mbind_ok in H. destruct H as (u & s1 & H1 & H). unfold ret in H. inversion H; subst; clear H.
  eapply pres_put_job_R; [|exact Hj|exact H1]. apply Rj_process_failure.
Qed.

Lemma pres_step_aj_on_event : forall jid p i, Pres (step_aj_on_event jid p i).
Proof.
  intros jid p i s r s' H. unfold step_aj_on_event in H.
  apply mbind_ok in H. destruct H as (j & s1 & Hj & H). apply get_job_ok in Hj. destruct Hj as [Hj ->].
  apply mbind_ok in H. destruct H as (s0 & s1 & H0 & H). unfold mget in H0. inversion H0; subst s0 s1; clear H0.
  destruct (find_cmd s (j_current j) p (Some i)) as [c|]; [|revert H; apply pres_ret].
  apply mbind_ok in H. destruct H as (pr & s1 & Hp & H). apply get_sproc_ok in Hp. destruct Hp as [_ ->].
  apply mbind_ok in H. destruct H as (inf & s1 & Hi & H). apply lift_opt_ok in Hi. destruct Hi as [_ ->].
  destruct (cmd_on_event (c_kind c) (pr_wait_exit (sp_rules pr)) (c_ignore_we c) (i_state inf) (i_expected inf))
    as [res reset].
  apply mbind_ok in H. destruct H as (u & s1 & H1 & H).
  assert (Hs1 : s_jobs s1 = s_jobs s /\ s_next_id s1 = s_next_id s).
  { destruct reset.
    - apply mbind_ok in H1. destruct H1 as (cnt & s2 & Hc & H1). apply lift_opt_ok in Hc. destruct Hc as [_ ->].
      unfold put_cmd, mmod in H1. inversion H1; subst. split; reflexivity.
    - unfold ret in H1. inversion H1; subst. split; reflexivity. }
  destruct Hs1 as [Hjobs Hnid].
  eapply T_trans; [apply T_same; eassumption|].
  assert (Hj1 : aget jid (s_jobs s1) = Some j) by (rewrite Hjobs; exact Hj).
  destruct res; try (revert H; apply pres_ret).
  - apply mbind_ok in H. destruct H as (cur & s2 & Hc & H). apply lift_opt_ok in Hc. destruct Hc as [Hc ->].
    apply mbind_ok in H. destruct H as (u2 & s2 & H2 & H). unfold ret in H. inversion H; subst; clear H.
    eapply pres_put_job_R; [|exact Hj1|exact H2]. apply Rj_set_current. intros x Hx. eapply zremove_in; eauto.
  - apply mbind_ok in H. destruct H as (cur & s2 & Hc & H). apply lift_opt_ok in Hc. destruct Hc as [Hc ->].
    apply mbind_ok in H. destruct H as (u2 & s2 & H2 & H). unfold ret in H. inversion H; subst; clear H.
    eapply pres_put_job_R; [|exact Hj1|exact H2].
    eapply Rj_trans; [|apply Rj_process_failure]. apply Rj_set_current. intros x Hx. eapply zremove_in; eauto.
Qed.

Lemma pres_step_aj_check_cmd : forall jid cid, Pres (step_aj_check_cmd jid cid).
Proof.
  intros jid cid s r s' H. unfold step_aj_check_cmd in H.
  apply mbind_ok in H. destruct H as (c & s1 & Hc & H). apply get_cmd_ok in Hc. destruct Hc as [_ ->].
  apply mbind_ok in H. destruct H as (pr & s1 & Hp & H). apply get_sproc_ok in Hp. destruct Hp as [_ ->].
  apply mbind_ok in H. destruct H as (i & s1 & Hi & H). apply lift_opt_ok in Hi. destruct Hi as [_ ->].
  apply mbind_ok in H. destruct H as (inf & s1 & Hf & H). apply lift_opt_ok in Hf. destruct Hf as [_ ->].
  apply mbind_ok in H. destruct H as (s0 & s1 & H0 & H). unfold mget in H0. inversion H0; subst s0 s1; clear H0.
  apply mbind_ok in H. destruct H as (cnt & s1 & Hn & H). apply lift_opt_ok in Hn. destruct Hn as [_ ->].
  destruct (cmd_timed_out (c_kind c) (pr_wait_exit (sp_rules pr)) (c_ignore_we c) (i_state inf) (c_req c)
                          (c_min c) (c_wait c) cnt) as [expected res].
  destruct res; try (revert H; apply pres_ret).
  - apply mbind_ok in H. destruct H as (j & s1 & Hj & H). apply get_job_ok in Hj. destruct Hj as [Hj ->].
    apply mbind_ok in H. destruct H as (cur & s2 & Hc & H). apply lift_opt_ok in Hc. destruct Hc as [Hc ->].
    apply mbind_ok in H. destruct H as (u2 & s2 & H2 & H). unfold ret in H. inversion H; subst; clear H.
    eapply pres_put_job_R; [|exact Hj|exact H2]. apply Rj_set_current. intros x Hx. eapply zremove_in; eauto.
  - apply mbind_ok in H. destruct H as (j & s1 & Hj & H). apply get_job_ok in Hj. destruct Hj as [Hj ->].
    apply mbind_ok in H. destruct H as (cur & s2 & Hc & H). apply lift_opt_ok in Hc. destruct Hc as [Hc ->].
    apply mbind_ok in H. destruct H as (u2 & s2 & H2 & H). unfold ret in H. inversion H; subst; clear H.
    eapply pres_put_job_R; [|exact Hj|exact H2]. apply Rj_set_current. intros x Hx. eapply zremove_in; eauto.
Qed.

Lemma inval_current_R : forall s lost cids j failed j' failed',
  inval_current s lost cids j failed = (j', failed') -> Rj j j'.
Proof.
  intros s lost. induction cids as [|cid r IH]; intros j failed j' failed' H; simpl in H.
  - inversion H; subst. apply Rj_refl.
  - destruct (aget cid (s_cmds s)) as [c|]; [|eapply IH; eauto].
    destruct (match c_ident c with Some i => zmem i lost | None => false end); [|eapply IH; eauto].
    eapply Rj_trans; [|eapply IH; exact H].
    set (cur := match zremove cid (j_current j) with Some l => l | None => j_current j end).
    assert (Hcur : incl cur (j_current j)).
    { unfold cur. destruct (zremove cid (j_current j)) eqn:E; [|apply incl_refl]. intros x Hx. eapply zremove_in; eauto. }
    destruct (get_proc s (c_app c) (c_proc c)).
    + eapply Rj_trans; [apply Rj_set_current; exact Hcur|apply Rj_process_failure].
    + apply Rj_set_current; exact Hcur.
Qed.

Lemma inval_job_R : forall s lost j failed j' failed', inval_job s lost j failed = (j', failed') -> Rj j j'.
Proof.
  intros s lost j failed j' failed' H. unfold inval_job in H.
  destruct (inval_current s lost (j_current j) j failed) as [j1 f1] eqn:E. inversion H; subst.
  eapply inval_current_R; eauto.
Qed.

Lemma T_inval_cmdr : forall k s, T s (inval_cmdr k s).
Proof.
  intros k s. unfold inval_cmdr.
  generalize (avals (cm_current (get_cmdr k s)) ++ concat (map (fun kv => avals (snd kv)) (cm_planned (get_cmdr k s)))).
  intros jids. revert s. induction jids as [|jid r IH]; intros s; simpl; [apply T_refl|].
  eapply T_trans; [|apply IH].
  destruct (aget jid (s_jobs s)) as [j|] eqn:Ej; [|apply T_refl].
  destruct (inval_job s (s_lost s) j (s_failed s)) as [j' f'] eqn:Ei.
  eapply T_trans; [eapply T_put_R; [exact Ej|eapply inval_job_R; exact Ei]|].
  apply T_same; reflexivity.
Qed.

(* ---- every call but the two that move a group (AJNext, AJGroup) and the two that may add commands to an existing
   job (CStartProc, CStopProc) is a T-step *)
Definition plain_call (c : call) : bool :=
  match c with
  | AJNext _ | AJGroup _ _ | CStartProc _ _ _ | CStopProc _ _ _ => false
  | _ => true
  end.

Lemma pres_inval : forall k, Pres (mmod (inval_cmdr k)).
Proof. intros k s u s' H. unfold mmod in H. inversion H; subst. apply T_inval_cmdr. Qed.

Ltac pres2 :=
  repeat first
    [ apply pres_starter_store | apply pres_stopper_store | apply pres_put_sproc | apply pres_inval
    | apply pres_ret | apply pres_fail | apply pres_mget | apply pres_lift_opt | apply pres_get_job
    | apply pres_get_cmd | apply pres_get_sproc | apply pres_get_app | apply pres_fresh | apply pres_put_cmd
    | apply pres_take_place | apply pres_take_order
    | apply pres_mmap; intros
    | apply pres_bind; [|intros]
    | apply pres_mmod_same; intros; first [split; reflexivity | apply set_cmdr_same | apply set_sm_same]
    | match goal with
      | |- Pres (if ?b then _ else _) => destruct b
      | |- Pres (match ?x with _ => _ end) => destruct x
      end ].

Lemma plain_call_T : forall c, plain_call c = true -> Pres (step_call c).
Proof.
  intros c Hc. destruct c; simpl in Hc; try discriminate Hc; simpl;
    try (unfold step_next_loop, step_after_procs, step_next_pop, step_force, step_on_event);
    first [ apply pres_step_after | apply pres_step_proc_failure | apply pres_step_aj_on_event
          | apply pres_step_aj_check_cmd | pres2 ].
Qed.

(* ---- the two calls that move a group *)
Lemma aj_next_cases : forall jid s push outs s',
  step_aj_next jid s = Ok ((push, outs), s') ->
  (push = [] /\ s' = s) \/
  (exists j seq group,
     aget jid (s_jobs s) = Some j /\ j_current j = [] /\
     pickup (j_kind j) (akeys (j_planned j)) = Some seq /\ aget seq (j_planned j) = Some group /\
     push = [AJGroup jid group; AJNext jid] /\
     s' = set_jobs (aset jid (set_job_fields j (adel seq (j_planned j)) [] (j_stop_request j)) (s_jobs s)) s).
Proof.
  intros jid s push outs s' H. unfold step_aj_next in H.
  apply mbind_ok in H. destruct H as (j & s1 & Hj & H). apply get_job_ok in Hj. destruct Hj as [Hj ->].
  destruct (j_current j) eqn:Ec; [|unfold ret in H; inversion H; left; auto].
  remember (j_planned j) as pl eqn:Ep. destruct pl as [|kv pl']; [unfold ret in H; inversion H; left; auto|].
  rewrite Ep in H. destruct (pickup (j_kind j) (akeys (j_planned j))) as [seq|] eqn:Epk;
    [|unfold ret in H; inversion H; left; auto].
  assert (Hk : In seq (akeys (j_planned j))).
  { destruct (j_kind j); [apply pickup_start_min in Epk | apply pickup_stop_max in Epk]; tauto. }
  destruct (aget_of_key _ _ _ Hk) as [g Hg]. rewrite Hg in H.
  apply mbind_ok in H. destruct H as (u & s1 & H1 & H). unfold ret in H. inversion H; subst push outs s1; clear H.
  unfold put_job, mmod in H1. inversion H1; subst s'; clear H1.
  right. exists j, seq, g. repeat split; auto.
Qed.

Lemma aj_group_cases : forall jid cid rest s push outs s',
  step_aj_group jid (cid :: rest) s = Ok ((push, outs), s') ->
  s_next_id s' = s_next_id s /\
  (s_jobs s' = s_jobs s \/
   exists j, aget jid (s_jobs s) = Some j /\
             s_jobs s' = aset jid (set_job_fields j (j_planned j) (j_current j ++ [cid]) (j_stop_request j)) (s_jobs s)) /\
  (forall jid' g, In (AJGroup jid' g) push -> jid' = jid /\ g = rest) /\
  (forall jid', ~ In (AJNext jid') push).
Proof.
  intros jid cid rest s push outs s' H. unfold step_aj_group in H.
  apply mbind_ok in H. destruct H as (c & s1 & Hc & H). apply get_cmd_ok in Hc. destruct Hc as [Hc ->].
  apply mbind_ok in H. destruct H as (pr & s1 & Hp & H). apply get_sproc_ok in Hp. destruct Hp as [Hp ->].
  assert (Happ : forall s0 u s1, job_append jid cid s0 = Ok (u, s1) ->
            s_next_id s1 = s_next_id s0 /\ exists j, aget jid (s_jobs s0) = Some j /\
            s_jobs s1 = aset jid (set_job_fields j (j_planned j) (j_current j ++ [cid]) (j_stop_request j)) (s_jobs s0)).
  { intros s0 u s1 Ha. unfold job_append in Ha. apply mbind_ok in Ha. destruct Ha as (j & s2 & Hj & Ha).
    apply get_job_ok in Hj. destruct Hj as [Hj ->]. unfold put_job, mmod in Ha. inversion Ha; subst.
    split; [reflexivity|]. exists j. split; [exact Hj|reflexivity]. }
  assert (Hgrp : forall jid' g, In (AJGroup jid' g) [AJGroup jid rest] -> jid' = jid /\ g = rest).
  { intros jid' g [Hin|[]]. inversion Hin; auto. }
  assert (Hnx : forall jid', ~ In (AJNext jid') [AJGroup jid rest]).
  { intros jid' [Hin|[]]. discriminate. }
  destruct (c_kind c).
  - destruct (sp_stopped pr).
    + apply mbind_ok in H. destruct H as (o & s1 & Ho & H).
      assert (Hs1 : s_jobs s1 = s_jobs s /\ s_next_id s1 = s_next_id s).
      { unfold take_place in Ho. destruct (s_oracle s) as [|[x|x] r]; inversion Ho; subst; split; reflexivity. }
      destruct Hs1 as [Hj1 Hn1].
      apply mbind_ok in H. destruct H as (c1 & s2 & Hu & H).
      assert (Hs2 : s2 = s1).
      { destruct o; [apply update_identifier_wait in Hu; tauto|unfold ret in Hu; inversion Hu; reflexivity]. }
      subst s2.
      destruct (c_ident c1) as [i|].
      * apply mbind_ok in H. destruct H as (s0 & s2 & H0 & H). unfold mget in H0. inversion H0; subst s0 s2; clear H0.
        apply mbind_ok in H. destruct H as (cnt & s2 & Hn & H). apply lift_opt_ok in Hn. destruct Hn as [_ ->].
        apply mbind_ok in H. destruct H as (u & s2 & Hpc & H). unfold put_cmd, mmod in Hpc. inversion Hpc; subst s2; clear Hpc.
        apply mbind_ok in H. destruct H as (u2 & s3 & Ha & H). unfold ret in H. inversion H; subst; clear H.
        apply Happ in Ha. simpl in Ha. destruct Ha as [Hn (j & Hj & Hjs)].
        split; [congruence|]. split; [right; exists j; rewrite <- Hj1; auto|]. split; assumption.
      * apply mbind_ok in H. destruct H as (s0 & s2 & H0 & H). unfold mget in H0. inversion H0; subst s0 s2; clear H0.
        apply mbind_ok in H. destruct H as (u & s2 & Hpc & H). unfold put_cmd, mmod in Hpc. inversion Hpc; subst s2; clear Hpc.
        unfold ret in H. inversion H; subst; clear H. simpl.
        split; [exact Hn1|]. split; [left; exact Hj1|]. split.
        -- intros jid' g [Hin|[Hin|Hin]]; try discriminate. apply Hgrp. exact Hin.
        -- intros jid' [Hin|[Hin|[Hin|[]]]]; discriminate.
    + unfold ret in H. inversion H; subst. split; [reflexivity|]. split; [left; reflexivity|]. split; assumption.
  - destruct (c_ident c) as [i|].
    + destruct (sp_running_on pr i).
      * apply mbind_ok in H. destruct H as (s0 & s2 & H0 & H). unfold mget in H0. inversion H0; subst s0 s2; clear H0.
        apply mbind_ok in H. destruct H as (cnt & s2 & Hn & H). apply lift_opt_ok in Hn. destruct Hn as [_ ->].
        apply mbind_ok in H. destruct H as (u & s2 & Hpc & H). unfold put_cmd, mmod in Hpc. inversion Hpc; subst s2; clear Hpc.
        apply mbind_ok in H. destruct H as (u2 & s3 & Ha & H). unfold ret in H. inversion H; subst; clear H.
        apply Happ in Ha. simpl in Ha. destruct Ha as [Hn (j & Hj & Hjs)].
        split; [exact Hn|]. split; [right; exists j; auto|]. split; assumption.
      * unfold ret in H. inversion H; subst. split; [reflexivity|]. split; [left; reflexivity|]. split; assumption.
    + unfold ret in H. inversion H; subst. split; [reflexivity|]. split; [left; reflexivity|]. split; assumption.
Qed.

(* no other call pushes a group *)
Definition pushes_group (c : call) : bool := match c with AJNext _ | AJGroup _ _ => true | _ => false end.

Lemma only_next_and_group_push_groups : forall c s push outs s',
  pushes_group c = false -> step_call c s = Ok ((push, outs), s') ->
  forall jid g, ~ In (AJGroup jid g) push.
Proof.
  intros c s push outs s' Hc H jid g Hin.
  assert (F : Forall (fun x => match x with AJGroup _ _ => False | _ => True end) push).
  { destruct c; simpl in Hc; try discriminate Hc; simpl in H;
      try (unfold step_next_loop, step_after, step_after_procs, step_next_pop, step_proc_failure,
             step_force, step_on_event, step_aj_on_event, step_aj_check_cmd, step_start_proc, step_stop_proc in H);
      chase H; repeat (apply Forall_cons; [exact I|]); try apply Forall_nil;
      try (apply Forall_app; split); try (apply Forall_forall; intros x Hx; apply in_map_iff in Hx;
        destruct Hx as (y & <- & _); exact I); repeat (apply Forall_cons; [exact I|]); try apply Forall_nil.
    all: try (match goal with |- Forall _ (match ?x with _ => _ end) => destruct x end);
         repeat constructor;
         try (apply Forall_forall; intros x Hx; apply in_map_iff in Hx; destruct Hx as (y & <- & _); exact I). }
  rewrite Forall_forall in F. apply (F _ Hin).
Qed.

(* ---- frame of the two job tables (Commander.planned_jobs / current_jobs) *)
Definition Fr (s s' : st) : Prop := s_starter s' = s_starter s /\ s_stopper s' = s_stopper s.
Definition PresF {A} (m : M A) : Prop := forall s a s', m s = Ok (a, s') -> Fr s s'.
Lemma Fr_refl : forall s, Fr s s. Proof. intros; split; reflexivity. Qed.
Lemma Fr_trans : forall a b c, Fr a b -> Fr b c -> Fr a c.
Proof. intros a b c [A1 A2] [B1 B2]. split; congruence. Qed.
Lemma presF_bind : forall A B (m : M A) (f : A -> M B), PresF m -> (forall a, PresF (f a)) -> PresF (mbind m f).
Proof.
  intros A B m f Hm Hf s b s' H. apply mbind_ok in H. destruct H as (a & s1 & H1 & H2).
  eapply Fr_trans; [eapply Hm; eauto | eapply Hf; eauto].
Qed.
Lemma presF_ret : forall A (a : A), PresF (ret a).
Proof. intros A a s x s' H. unfold ret in H. inversion H; subst. apply Fr_refl. Qed.
Lemma presF_fail : forall A k, PresF (@fail A k).
Proof. intros A k s x s' H. discriminate. Qed.
Lemma presF_mget : PresF mget.
Proof. intros s x s' H. unfold mget in H. inversion H; subst. apply Fr_refl. Qed.
Lemma presF_lift_opt : forall A (o : option A) k, PresF (lift_opt o k).
Proof. intros A o k s x s' H. apply lift_opt_ok in H. destruct H as [_ ->]. apply Fr_refl. Qed.
Lemma presF_mmod : forall f, (forall s, Fr s (f s)) -> PresF (mmod f).
Proof. intros f Hf s x s' H. unfold mmod in H. inversion H; subst. apply Hf. Qed.
Lemma presF_fresh : PresF fresh.
Proof. intros s x s' H. unfold fresh in H. inversion H; subst. split; reflexivity. Qed.
Lemma presF_take_place : PresF take_place.
Proof.
  intros s x s' H. unfold take_place in H. destruct (s_oracle s) as [|[o|l] r]; inversion H; subst; split; reflexivity.
Qed.
Lemma presF_take_order : forall run, PresF (take_order run).
Proof.
  intros run s x s' H. unfold take_order in H.
  destruct run as [|a [|b r]]; try (inversion H; subst; apply Fr_refl).
  destruct (s_oracle s) as [|[o|l] r']; inversion H; subst; split; reflexivity.
Qed.
Lemma presF_mmap : forall A B (f : A -> M B), (forall x, PresF (f x)) -> forall l, PresF (mmap f l).
Proof.
  intros A B f Hf. induction l as [|x r IH]; simpl.
  - apply presF_ret.
  - apply presF_bind; [apply Hf|]. intros y. apply presF_bind; [exact IH|]. intros ys. apply presF_ret.
Qed.
Lemma set_sm_fr : forall k b s, Fr s (set_sm k b s).
Proof. intros k b s. destruct k; split; reflexivity. Qed.

Lemma presF_get_job : forall jid, PresF (get_job jid).
Proof. intros jid s x s' H. apply get_job_ok in H. destruct H as [_ ->]. apply Fr_refl. Qed.
Lemma presF_get_cmd : forall cid, PresF (get_cmd cid).
Proof. intros cid s x s' H. apply get_cmd_ok in H. destruct H as [_ ->]. apply Fr_refl. Qed.
Lemma presF_get_sproc : forall a p, PresF (get_sproc a p).
Proof. intros a p s x s' H. apply get_sproc_ok in H. destruct H as [_ ->]. apply Fr_refl. Qed.
Lemma presF_get_app : forall a, PresF (get_app a).
Proof. intros a s x s' H. unfold get_app in H. apply lift_opt_ok in H. destruct H as [_ ->]. apply Fr_refl. Qed.
Lemma presF_put_cmd : forall c, PresF (put_cmd c).
Proof. intros c s x s' H. unfold put_cmd, mmod in H. inversion H; subst. split; reflexivity. Qed.
Lemma presF_put_job : forall jid j, PresF (put_job jid j).
Proof. intros jid j s x s' H. unfold put_job, mmod in H. inversion H; subst. split; reflexivity. Qed.

Ltac presF :=
  repeat first
    [ apply presF_ret | apply presF_fail | apply presF_mget | apply presF_lift_opt | apply presF_fresh
    | apply presF_get_job | apply presF_get_cmd | apply presF_get_sproc | apply presF_get_app
    | apply presF_put_cmd | apply presF_put_job
    | apply presF_take_place | apply presF_take_order
    | apply presF_mmap; intros
    | apply presF_bind; [|intros]
    | apply presF_mmod; intros; first [split; reflexivity | apply set_sm_fr]
    | match goal with
      | |- PresF (if ?b then _ else _) => destruct b
      | |- PresF (match ?x with _ => _ end) => destruct x
      end ].

Lemma presF_stop_cmds_of : forall a p only, PresF (stop_cmds_of a p only).
Proof. intros. unfold stop_cmds_of. presF. Qed.
Lemma presF_new_start_cmd : forall a p st ig, PresF (new_start_cmd a p st ig).
Proof. intros. unfold new_start_cmd. presF. Qed.

(* start_process / stop_process for an application that has no job: a new job is created *)
Lemma start_proc_T : forall strat a p s r s',
  get_application_job (s_starter s) a = None -> step_start_proc strat a p s = Ok (r, s') -> T s s'.
Proof.
  intros strat a p s r s' Hg H. unfold step_start_proc in H.
  apply mbind_ok in H. destruct H as (pr & s1 & Hp & H). apply get_sproc_ok in Hp. destruct Hp as [_ ->].
  destruct (sp_stopped pr); [|revert H; apply pres_ret].
  apply mbind_ok in H. destruct H as (cid & s1 & Hc & H).
  pose proof (pres_new_start_cmd _ _ _ _ _ _ _ Hc) as T1.
  pose proof (presF_new_start_cmd _ _ _ _ _ _ _ Hc) as [F1 _].
  eapply T_trans; [exact T1|].
  apply mbind_ok in H. destruct H as (s0 & s2 & H0 & H). unfold mget in H0. inversion H0; subst s0 s2; clear H0.
  rewrite F1, Hg in H.
  apply mbind_ok in H. destruct H as (u & s2 & H1 & H). unfold ret in H. inversion H; subst; clear H.
  revert H1. apply pres_bind; [apply pres_get_app|]. intros ap.
  apply pres_bind; [apply pres_new_job; simpl; constructor; [tauto|constructor]|]. intros jid. pres.
Qed.

Lemma stop_proc_T : forall a p ids s r s',
  get_application_job (s_stopper s) a = None -> step_stop_proc a p ids s = Ok (r, s') -> T s s'.
Proof.
  intros a p ids s r s' Hg H. unfold step_stop_proc in H.
  apply mbind_ok in H. destruct H as (pr & s1 & Hp & H). apply get_sproc_ok in Hp. destruct Hp as [_ ->].
  apply mbind_ok in H. destruct H as (cids & s1 & Hc & H).
  pose proof (pres_stop_cmds_of _ _ _ _ _ _ Hc) as T1.
  pose proof (presF_stop_cmds_of _ _ _ _ _ _ Hc) as [_ F1].
  eapply T_trans; [exact T1|].
  destruct cids as [|cid0 cids0]; [revert H; apply pres_ret|].
  apply mbind_ok in H. destruct H as (s0 & s2 & H0 & H). unfold mget in H0. inversion H0; subst s0 s2; clear H0.
  rewrite F1, Hg in H.
  apply mbind_ok in H. destruct H as (u & s2 & H1 & H). unfold ret in H. inversion H; subst; clear H.
  revert H1. apply pres_bind; [apply pres_get_app|]. intros ap.
  apply pres_bind; [apply pres_new_job; simpl; constructor; [tauto|constructor]|]. intros jid. pres.
Qed.

(* ================================================================== the SEQ-shape invariant on configurations *)
(* ghost: for every job, the key and the content of the group popped last *)
Definition ghost := alist (Z * list Z).
Definition beyond (k : kind) (last key : Z) : Prop :=
  match k with KStart => last < key | KStop => key < last end.

Definition job_inv (gh : ghost) (jid : Z) (j : job) : Prop :=
  NoDup (akeys (j_planned j)) /\
  match aget jid gh with
  | Some (k, g) => (forall k', In k' (akeys (j_planned j)) -> beyond (j_kind j) k k') /\ incl (j_current j) g
  | None => j_current j = []
  end.

(* seq_shape_inv: every command in current_jobs of a job belongs to the group popped last for that job, every key
   still planned is beyond the key of that group (greater for the Starter, smaller for the Stopper), the plan has
   no duplicate key, and the groups still being processed on the agenda are parts of the group popped last *)
Definition seq_shape_inv (ag : list call) (s : st) (gh : ghost) : Prop :=
  WFj s /\
  (forall jid j, aget jid (s_jobs s) = Some j -> job_inv gh jid j) /\
  (forall jid g', In (AJGroup jid g') ag -> g' <> [] -> exists k g, aget jid gh = Some (k, g) /\ incl g' g) /\
  (forall jid, amem jid gh = true -> amem jid (s_jobs s) = true).

Lemma Rj_job_inv : forall gh jid j j', job_inv gh jid j -> Rj j j' -> job_inv gh jid j'.
Proof.
  intros gh jid j j' [Hnd Hg] (Hk & _ & Hp & Hc). split.
  - destruct Hp as [->| ->]; [exact Hnd|constructor].
  - destruct (aget jid gh) as [[k g]|].
    + destruct Hg as [Hb Hi]. split.
      * intros k' Hin. rewrite Hk. apply Hb. destruct Hp as [Hp|Hp]; rewrite Hp in Hin; [exact Hin|contradiction].
      * eapply incl_tran; eauto.
    + rewrite Hg in Hc. destruct (j_current j') as [|x r]; [reflexivity|]. exfalso. apply (Hc x). left. reflexivity.
Qed.

Lemma inv_T_step : forall c rest s gh s' push,
  seq_shape_inv (c :: rest) s gh -> T s s' -> (forall jid g, ~ In (AJGroup jid g) push) ->
  seq_shape_inv (push ++ rest) s' gh.
Proof.
  intros c rest s gh s' push (Hw & Hj & Hg & Hm) HT Hnp.
  destruct (HT Hw) as (Hw' & _ & Hf & Hnew).
  split; [exact Hw'|]. split; [|split].
  - intros jid j' Hj'. destruct (aget jid (s_jobs s)) as [j|] eqn:Ej.
    + destruct (Hf _ _ Ej) as (j2 & Hj2 & HR). rewrite Hj' in Hj2. inversion Hj2; subst j2.
      eapply Rj_job_inv; eauto.
    + destruct (Hnew _ _ Hj' Ej) as [Hc Hnd]. split; [exact Hnd|].
      destruct (aget jid gh) as [kg|] eqn:Eg; [|exact Hc].
      assert (amem jid gh = true) by (unfold amem; rewrite Eg; reflexivity).
      apply Hm in H. unfold amem in H. rewrite Ej in H. discriminate.
  - intros jid g' Hin Hne. apply in_app_or in Hin. destruct Hin as [Hin|Hin]; [exfalso; eapply Hnp; eauto|].
    apply Hg; [right; exact Hin|exact Hne].
  - intros jid Hin. apply Hm in Hin. unfold amem in *. destruct (aget jid (s_jobs s)) as [j|] eqn:Ej; [|discriminate].
    destruct (Hf _ _ Ej) as (j2 & -> & _). reflexivity.
Qed.

Lemma adel_keys : forall V (l : alist V) k k', NoDup (akeys l) -> In k' (akeys (adel k l)) -> In k' (akeys l) /\ k' <> k.
Proof.
  induction l as [|[k0 v0] r IH]; intros k k' Hnd Hin; simpl in *; [contradiction|].
  inversion Hnd; subst. destruct (Z.eqb k k0) eqn:E.
  - apply Z.eqb_eq in E. subst k0. split; [right; exact Hin|]. intro; subst. contradiction.
  - simpl in Hin. destruct Hin as [->|Hin].
    + split; [left; reflexivity|]. intro; subst. rewrite Z.eqb_refl in E. discriminate.
    + destruct (IH _ _ H2 Hin). split; [right; assumption|assumption].
Qed.
Lemma adel_nodup : forall V (l : alist V) k, NoDup (akeys l) -> NoDup (akeys (adel k l)).
Proof.
  induction l as [|[k0 v0] r IH]; intros k Hnd; simpl in *; [constructor|].
  inversion Hnd; subst. destruct (Z.eqb k k0); [assumption|]. simpl. constructor; [|apply IH; assumption].
  intro Hin. apply H1. eapply adel_keys; eauto.
Qed.

Definition guard (c : call) (rest : list call) (s : st) : bool :=
  match c with
  | AJNext jid =>
      match aget jid (s_jobs s) with
      | Some j => match j_current j, j_planned j with
                  | [], _ :: _ =>
                      (* H_no_reentrant_next: the job does not pop a group while one of its groups is still processed *)
                      forallb (fun x => match x with AJGroup jid' (_ :: _) => negb (Z.eqb jid' jid) | _ => true end) rest
                  | _, _ => true
                  end
      | None => true
      end
  | CStartProc _ a _ =>   (* H_no_add_commands: no command is added to an existing job *)
      match get_application_job (s_starter s) a with None => true | Some _ => false end
  | CStopProc a _ _ => match get_application_job (s_stopper s) a with None => true | Some _ => false end
  | _ => true
  end.

Definition ghost_step (c : call) (s : st) (push : list call) (gh : ghost) : ghost :=
  match c, push with
  | AJNext jid, AJGroup _ g :: _ =>
      match aget jid (s_jobs s) with
      | Some j => match pickup (j_kind j) (akeys (j_planned j)) with Some seq => aset jid (seq, g) gh | None => gh end
      | None => gh
      end
  | _, _ => gh
  end.

Lemma inv_step : forall c rest s gh push outs s',
  seq_shape_inv (c :: rest) s gh -> guard c rest s = true -> step_call c s = Ok ((push, outs), s') ->
  seq_shape_inv (push ++ rest) s' (ghost_step c s push gh).
Proof.
  intros c rest s gh push outs s' HI Hgd H.
  destruct (pushes_group c) eqn:Epg.
  - destruct c; simpl in Epg; try discriminate Epg; simpl in H.
    + (* AJNext *)
      destruct (aj_next_cases _ _ _ _ _ H) as [[-> ->]|(j & seq & group & Hj & Hc & Hpk & Hgp & -> & ->)].
      * simpl. destruct HI as (Hw & Hjs & Hg & Hm). split; [exact Hw|]. split; [exact Hjs|]. split; [|exact Hm].
        intros jid0 g' Hin Hne. apply Hg; [right; exact Hin|exact Hne].
      * simpl. rewrite Hj, Hpk. destruct HI as (Hw & Hjs & Hg & Hm).
        simpl in Hgd. rewrite Hj, Hc in Hgd.
        assert (Hpl : exists kv pl, j_planned j = kv :: pl).
        { destruct (j_planned j); [discriminate Hgp|eauto]. }
        destruct Hpl as (kv & pl & Epl). rewrite Epl in Hgd. rewrite forallb_forall in Hgd.
        destruct (Hjs _ _ Hj) as [Hnd Hgh].
        assert (Hext : In seq (akeys (j_planned j)) /\ forall y, In y (akeys (j_planned j)) -> y <> seq -> beyond (j_kind j) seq y).
        { destruct (j_kind j); [apply pickup_start_min in Hpk|apply pickup_stop_max in Hpk]; destruct Hpk as [Hi Hm'];
            (split; [exact Hi|]); intros y Hy Hne; specialize (Hm' _ Hy); simpl; lia. }
        destruct Hext as [Hin Hext].
        split; [|split; [|split]].
        -- intros x Hx. simpl in Hx. rewrite amem_aset in Hx. apply orb_prop in Hx. simpl. destruct Hx as [Hx|Hx].
           ++ apply Z.eqb_eq in Hx. subst. apply Hw. unfold amem. rewrite Hj. reflexivity.
           ++ apply Hw. exact Hx.
        -- intros x jx Hx. simpl in Hx. destruct (Z.eq_dec x jid) as [->|Hne].
           ++ rewrite aget_aset_same in Hx. inversion Hx; subst jx; clear Hx. split; simpl.
              ** apply adel_nodup. exact Hnd.
              ** rewrite aget_aset_same. split; [|intros y []].
                 intros k' Hk'. destruct (adel_keys _ _ _ _ Hnd Hk') as [Hi Hne]. apply Hext; assumption.
           ++ rewrite aget_aset_other in Hx by assumption. specialize (Hjs _ _ Hx).
              unfold job_inv in *. rewrite aget_aset_other by assumption. exact Hjs.
        -- intros x g' Hx Hne. destruct Hx as [Hx|[Hx|Hx]]; try discriminate.
           ++ inversion Hx; subst. exists seq, g'. rewrite aget_aset_same. split; [reflexivity|apply incl_refl].
           ++ destruct (Z.eq_dec x jid) as [->|Hxne].
              ** exfalso. specialize (Hgd _ Hx). simpl in Hgd. destruct g' as [|y r]; [apply Hne; reflexivity|].
                 rewrite Z.eqb_refl in Hgd. discriminate.
              ** rewrite aget_aset_other by assumption. apply Hg; [right; exact Hx|exact Hne].
        -- intros x Hx. simpl. rewrite amem_aset in *. apply orb_prop in Hx. destruct Hx as [Hx|Hx].
           ++ rewrite Hx. reflexivity.
           ++ apply Hm in Hx. rewrite Hx. apply orb_true_r.
    + (* AJGroup *)
      assert (Hgs : ghost_step (AJGroup jid group) s push gh = gh) by (destruct push; reflexivity). rewrite Hgs.
      destruct group as [|cid rest0].
      * simpl in H. unfold ret in H. inversion H; subst. simpl.
        destruct HI as (Hw & Hjs & Hg & Hm). split; [exact Hw|]. split; [exact Hjs|]. split; [|exact Hm].
        intros jid0 g' Hin Hne. apply Hg; [right; exact Hin|exact Hne].
      * destruct (aj_group_cases _ _ _ _ _ _ _ H) as (Hn & Hjb & Hgr & Hnx).
        destruct HI as (Hw & Hjs & Hg & Hm).
        destruct (Hg jid (cid :: rest0) (or_introl eq_refl) ltac:(discriminate)) as (k & g & Hgh & Hincl).
        split; [|split; [|split]].
        -- intros x Hx. rewrite Hn. apply Hw. destruct Hjb as [Hjb|(j & Hj & Hjb)]; rewrite Hjb in Hx; [exact Hx|].
           rewrite amem_aset in Hx. apply orb_prop in Hx. destruct Hx as [Hx|Hx]; [|exact Hx].
           apply Z.eqb_eq in Hx. subst. unfold amem. rewrite Hj. reflexivity.
        -- intros x jx Hx. destruct Hjb as [Hjb|(j & Hj & Hjb)]; rewrite Hjb in Hx; [apply Hjs; exact Hx|].
           destruct (Z.eq_dec x jid) as [->|Hne].
           ++ rewrite aget_aset_same in Hx. inversion Hx; subst jx; clear Hx.
              destruct (Hjs _ _ Hj) as [Hnd Hgj]. split; [exact Hnd|]. rewrite Hgh in *. simpl.
              destruct Hgj as [Hb Hi]. split; [exact Hb|].
              intros y Hy. apply in_app_or in Hy. destruct Hy as [Hy|[<-|[]]]; [apply Hi; exact Hy|].
              apply Hincl. left. reflexivity.
           ++ rewrite aget_aset_other in Hx by assumption. apply Hjs. exact Hx.
        -- intros x g' Hx Hne. apply in_app_or in Hx. destruct Hx as [Hx|Hx].
           ++ destruct (Hgr _ _ Hx) as [-> ->]. exists k, g. split; [exact Hgh|].
              intros y Hy. apply Hincl. right. exact Hy.
           ++ apply Hg; [right; exact Hx|exact Hne].
        -- intros x Hx. apply Hm in Hx. destruct Hjb as [Hjb|(j & Hj & Hjb)]; rewrite Hjb; [exact Hx|].
           rewrite amem_aset. rewrite Hx. apply orb_true_r.
  - assert (Hgs : ghost_step c s push gh = gh) by (destruct c; simpl in Epg; try discriminate Epg; reflexivity).
    rewrite Hgs. eapply inv_T_step; [exact HI| |].
    + destruct (plain_call c) eqn:Epl.
      * eapply plain_call_T; eauto.
      * destruct c; simpl in Epl, Epg; try discriminate; simpl in H, Hgd.
        -- destruct (get_application_job (s_starter s) a) eqn:Eg; [discriminate|]. eapply start_proc_T; eauto.
        -- destruct (get_application_job (s_stopper s) a) eqn:Eg; [discriminate|]. eapply stop_proc_T; eauto.
    + intros jid g. eapply only_next_and_group_push_groups; eauto.
Qed.

(* ================================================================== guarded runs *)
Inductive gentry :=
| GPop (jid : Z) (k : kind) (old : option (Z * list Z)) (seq : Z) (group : list Z)
    (* job jid popped the group planned under key seq; old = key and group popped before *)
| GEmit (jid cid : Z) (entry : option (Z * list Z)) (j : option job) (o : out).
    (* request o emitted for command cid of job jid; entry = group popped last; j = the job at that moment *)

Inductive gres :=
| GOk (s : st) (gh : ghost) (log : list gentry)
| GCrash (k : crash)
| GGuard.      (* the run left the class H_no_reentrant_next /\ H_no_add_commands *)

Definition entries_of (c : call) (s : st) (push : list call) (outs : list out) (gh : ghost) : list gentry :=
  match c with
  | AJNext jid =>
      match push, aget jid (s_jobs s) with
      | AJGroup _ g :: _, Some j =>
          match pickup (j_kind j) (akeys (j_planned j)) with
          | Some seq => [GPop jid (j_kind j) (aget jid gh) seq g]
          | None => []
          end
      | _, _ => []
      end
  | AJGroup jid (cid :: _) => map (fun o => GEmit jid cid (aget jid gh) (aget jid (s_jobs s)) o) outs
  | _ => []
  end.

Fixpoint exec_g (fuel : nat) (ag : list call) (s : st) (gh : ghost) (acc : list gentry) : gres :=
  match ag with
  | [] => GOk s gh (rev acc)
  | c :: rest =>
      match fuel with
      | O => GCrash OutOfFuel
      | S f =>
          if guard c rest s then
            match step_call c s with
            | Crash k => GCrash k
            | Ok ((push, outs), s') =>
                exec_g f (push ++ rest) s' (ghost_step c s push gh) (rev (entries_of c s push outs gh) ++ acc)
            end
          else GGuard
      end
  end.

(* a guarded run is a run of the agenda machine: same final state, same requests *)
Fixpoint outs_of_log (l : list gentry) : list out :=
  match l with [] => [] | GEmit _ _ _ _ o :: r => o :: outs_of_log r | _ :: r => outs_of_log r end.

Lemma exec_g_final_state : forall fuel ag s gh acc s' gh' log,
  exec_g fuel ag s gh acc = GOk s' gh' log -> exists outs, exec fuel ag s [] = Ok (s', outs).
Proof.
  assert (G : forall fuel ag s gh acc s' gh' log oacc,
            exec_g fuel ag s gh acc = GOk s' gh' log -> exists outs, exec fuel ag s oacc = Ok (s', outs)).
  { induction fuel as [|f IH]; intros ag s gh acc s' gh' log oacc H; destruct ag as [|c rest]; simpl in *.
    - inversion H; subst. eexists; reflexivity.
    - discriminate.
    - inversion H; subst. eexists; reflexivity.
    - destruct (guard c rest s); [|discriminate].
      destruct (step_call c s) as [[[push outs] s1]|k]; [|discriminate]. eapply IH; eauto. }
  intros. eapply G; eauto.
Qed.

Definition entry_ok (e : gentry) : Prop :=
  match e with
  | GPop jid k old seq group => match old with Some (k0, _) => beyond k k0 seq | None => True end
  | GEmit jid cid entry j o =>
      exists k g jb, entry = Some (k, g) /\ j = Some jb /\ In cid g /\ incl (j_current jb) g /\
                     (forall k', In k' (akeys (j_planned jb)) -> beyond (j_kind jb) k k')
  end.

Lemma entries_ok : forall c rest s gh push outs s',
  seq_shape_inv (c :: rest) s gh -> step_call c s = Ok ((push, outs), s') ->
  Forall entry_ok (entries_of c s push outs gh).
Proof.
  intros c rest s gh push outs s' (Hw & Hjs & Hg & Hm) H. destruct c; simpl; try constructor.
  - (* AJNext *)
    destruct push as [|[] ?]; try constructor.
    destruct (aget jid (s_jobs s)) as [j|] eqn:Ej; [|constructor].
    destruct (pickup (j_kind j) (akeys (j_planned j))) as [seq|] eqn:Epk; [|constructor].
    constructor; [|constructor]. simpl. destruct (aget jid gh) as [[k0 g0]|] eqn:Egh; [|exact I].
    destruct (Hjs _ _ Ej) as [_ Hj]. rewrite Egh in Hj. destruct Hj as [Hb _]. apply Hb.
    destruct (j_kind j); [apply pickup_start_min in Epk|apply pickup_stop_max in Epk]; tauto.
  - (* AJGroup *)
    destruct group as [|cid rest0]; [constructor|].
    apply Forall_forall. intros e He. apply in_map_iff in He. destruct He as (o & <- & Ho). simpl.
    destruct (Hg jid (cid :: rest0) (or_introl eq_refl) ltac:(discriminate)) as (k & g & Hgh & Hincl).
    assert (Hjob : exists jb, aget jid (s_jobs s) = Some jb).
    { assert (Hin : amem jid gh = true) by (unfold amem; rewrite Hgh; reflexivity).
      apply Hm in Hin. unfold amem in Hin. destruct (aget jid (s_jobs s)); [eauto|discriminate]. }
    destruct Hjob as [jb Hjb]. exists k, g, jb. split; [exact Hgh|]. split; [exact Hjb|].
    split; [apply Hincl; left; reflexivity|].
    destruct (Hjs _ _ Hjb) as [_ Hj]. rewrite Hgh in Hj. destruct Hj as [Hb Hi]. split; assumption.
Qed.

(* SEQ-shape along every guarded run, from any configuration satisfying the invariant *)
Theorem seq_shape_run : forall fuel ag s gh acc s' gh' log,
  seq_shape_inv ag s gh -> Forall entry_ok acc ->
  exec_g fuel ag s gh acc = GOk s' gh' log ->
  seq_shape_inv [] s' gh' /\ Forall entry_ok log.
Proof.
  induction fuel as [|f IH]; intros ag s gh acc s' gh' log HI Hacc H; destruct ag as [|c rest]; simpl in H.
  - inversion H; subst. split; [exact HI|apply Forall_rev; exact Hacc].
  - discriminate.
  - inversion H; subst. split; [exact HI|apply Forall_rev; exact Hacc].
  - destruct (guard c rest s) eqn:Eg; [|discriminate].
    destruct (step_call c s) as [[[push outs] s1]|k] eqn:Es; [|discriminate].
    eapply IH; [|apply Forall_app; split; [apply Forall_rev|exact Hacc]|exact H].
    + eapply inv_step; eauto.
    + eapply entries_ok; eauto.
Qed.

(* ---- whole histories *)
Lemma seq_shape_init : forall cf, seq_shape_inv [] (init_st cf) [].
Proof.
  intros cf. split; [|split; [|split]].
  - intros jid H. discriminate.
  - intros jid j H. discriminate.
  - intros jid g' [].
  - intros jid H. discriminate.
Qed.

Lemma pres_inval_procs : forall i targets failed, Pres (inval_procs i targets failed).
Proof.
  intros i. induction targets as [|[a p] r IH]; intros failed; simpl.
  - apply pres_ret.
  - apply pres_bind; [apply pres_get_sproc|]. intros pr. apply pres_bind; [apply pres_mget|]. intros s0.
    destruct (invalidate (sp_st pr) i (s_now s0)); [|apply pres_fail].
    apply pres_bind; [apply pres_put_sproc|]. intros u. apply IH.
Qed.

Lemma pres_ctx_invalidate : forall insts ids lost failed, Pres (ctx_invalidate insts ids lost failed).
Proof.
  induction insts as [|i r IH]; intros ids lost failed; simpl.
  - apply pres_ret.
  - destruct (zmem i ids); [|apply IH].
    apply pres_bind; [apply pres_mget|]. intros s0. apply pres_bind; [apply pres_lift_opt|]. intros ins.
    apply pres_bind; [apply pres_mmod_same; intros; split; reflexivity|]. intros u.
    apply pres_bind; [apply pres_inval_procs|]. intros f1.
    apply pres_bind; [apply pres_inval_procs|]. intros f2. apply IH.
Qed.

Lemma pres_op_calls : forall o, Pres (op_calls o).
Proof.
  intros o. destruct o; simpl.
  - unfold ev_event. pres2.
  - unfold ev_tick. pres2.
  - apply pres_bind; [apply pres_mmap; intros ic; unfold ev_tick; pres2|]. intros. apply pres_ret.
  - apply pres_ret.
  - unfold ev_ctx_invalidate. apply pres_bind; [apply pres_mget|]. intros s0.
    apply pres_bind; [apply pres_ctx_invalidate|]. intros [lost failed]. pres2.
  - pres2.
  - pres2.
  - apply pres_ret.
Qed.

(* the calls an operation may put on the agenda: never a group in the middle of its processing *)
Definition op_ok (o : op) : bool := match o with OpCall (AJGroup _ _) => false | _ => true end.

Lemma op_calls_no_group : forall o s ag s', op_ok o = true -> op_calls o s = Ok (ag, s') ->
  forall jid g, ~ In (AJGroup jid g) ag.
Proof.
  intros o s ag s' Hok H jid g Hin.
  assert (F : Forall (fun x => match x with AJGroup _ _ => False | _ => True end) ag).
  { destruct o; simpl in H; try (unfold ev_event, ev_tick, ev_ctx_invalidate in H); chase H;
      repeat (apply Forall_cons; [exact I|]); try apply Forall_nil.
    destruct c; simpl in Hok; try discriminate Hok; repeat constructor. }
  rewrite Forall_forall in F. apply (F _ Hin).
Qed.

Definition run_op_g (fuel : nat) (s : st) (gh : ghost) (t : top) : gres :=
  let '(o, now, orc) := t in
  match op_calls o (set_now_oracle now orc s) with
  | Crash k => GCrash k
  | Ok (ag, s1) => exec_g fuel ag s1 gh []
  end.

Fixpoint run_g (fuel : nat) (s : st) (gh : ghost) (ops : list top) (acc : list gentry) : gres :=
  match ops with
  | [] => GOk s gh acc
  | t :: r => match run_op_g fuel s gh t with
              | GOk s' gh' log => run_g fuel s' gh' r (acc ++ log)
              | other => other
              end
  end.

Lemma inv_nil_T : forall s gh s' ag,
  seq_shape_inv [] s gh -> T s s' -> (forall jid g, ~ In (AJGroup jid g) ag) -> seq_shape_inv ag s' gh.
Proof.
  intros s gh s' ag HI HT Hng.
  assert (H1 : seq_shape_inv (CPublish KStart :: []) s gh).
  { destruct HI as (A & B & C & D). split; [exact A|]. split; [exact B|]. split; [|exact D].
    intros jid g' [Hin|[]]. discriminate. }
  pose proof (inv_T_step _ _ _ _ _ ag H1 HT Hng) as H2. rewrite app_nil_r in H2. exact H2.
Qed.

(* SEQ-shape for every guarded history of operations from the initial state of any configuration *)
Theorem seq_shape_history : forall fuel ops s gh acc s' gh' log,
  seq_shape_inv [] s gh -> Forall entry_ok acc -> forallb (fun t => op_ok (fst (fst t))) ops = true ->
  run_g fuel s gh ops acc = GOk s' gh' log ->
  seq_shape_inv [] s' gh' /\ Forall entry_ok log.
Proof.
  intros fuel. induction ops as [|[[o now] orc] r IH]; intros s gh acc s' gh' log HI Hacc Hok H; simpl in H.
  - inversion H; subst. split; assumption.
  - simpl in Hok. apply andb_prop in Hok. destruct Hok as [Hok1 Hok].
    destruct (op_calls o (set_now_oracle now orc s)) as [[ag s1]|k] eqn:Eo; [|discriminate].
    destruct (exec_g fuel ag s1 gh []) as [s2 gh2 log2| |] eqn:Ee; try discriminate.
    assert (HI1 : seq_shape_inv ag s1 gh).
    { eapply inv_nil_T; [exact HI| |eapply op_calls_no_group; eauto].
      eapply T_trans; [apply (T_same s (set_now_oracle now orc s)); reflexivity|].
      eapply pres_op_calls; eauto. }
    destruct (seq_shape_run _ _ _ _ _ _ _ _ HI1 (Forall_nil _) Ee) as [HI2 Hlog2].
    eapply IH; [exact HI2| |exact Hok|exact H]. apply Forall_app. split; assumption.
Qed.

Corollary seq_shape_from_init : forall fuel cf ops s' gh' log,
  forallb (fun t => op_ok (fst (fst t))) ops = true ->
  run_g fuel (init_st cf) [] ops [] = GOk s' gh' log ->
  seq_shape_inv [] s' gh' /\ Forall entry_ok log.
Proof.
  intros fuel cf ops s' gh' log Hok H.
  eapply seq_shape_history; [apply seq_shape_init|constructor|exact Hok|exact H].
Qed.

(* ---- the hypotheses are satisfiable: witness C (timeout of sequence 1, then sequence 2) is a guarded history; its log
   holds two pops of job 3 with increasing keys and two requests, each from the group popped last *)
Example seq_shape_hypotheses_hold :
  exists s gh log, run_g default_fuel (init_st w_cf_c) [] w_ops_c [] = GOk s gh log /\
    map (fun e => match e with GPop jid _ _ seq g => (jid, seq, g) | GEmit jid cid _ _ _ => (jid, -1, [cid]) end) log
      = [(3, 1, [1]); (3, -1, [1]); (3, 2, [2]); (3, -1, [2])].
Proof. vm_compute. do 3 eexists. split; reflexivity. Qed.

(* the job-level hypothesis does not exclude the 'No resource' histories: witness A is a guarded history too *)
Example seq_shape_covers_noresource_witness :
  exists s gh log, run_g default_fuel (init_st w_cf_a) [] w_ops_a [] = GOk s gh log.
Proof. vm_compute. do 3 eexists. reflexivity. Qed.

(* evaluators over generated cases: does the history stay in the class of the hypotheses? *)
Definition leaves_guard (c : case) : bool :=
  match run_g default_fuel (init_st (fst (fst c))) [] (snd (fst c)) [] with GGuard => true | _ => false end.
Definition guard_failures (cs : list case) : list nat := find_idx leaves_guard cs.



(* ================================================================== application level along runs (partial) *)
(* frame of Commander.current_jobs of both sequencers *)
Definition CC (s s' : st) : Prop :=
  cm_current (s_starter s') = cm_current (s_starter s) /\ cm_current (s_stopper s') = cm_current (s_stopper s).
Definition PresC {A} (m : M A) : Prop := forall s a s', m s = Ok (a, s') -> CC s s'.
Lemma CC_refl : forall s, CC s s. Proof. intros; split; reflexivity. Qed.
Lemma CC_trans : forall a b c, CC a b -> CC b c -> CC a c.
Proof. intros a b c [A1 A2] [B1 B2]. split; congruence. Qed.
Lemma presF_C : forall A (m : M A), PresF m -> PresC m.
Proof. intros A m H s a s' E. destruct (H _ _ _ E) as [H1 H2]. split; congruence. Qed.
Lemma presC_bind : forall A B (m : M A) (f : A -> M B), PresC m -> (forall a, PresC (f a)) -> PresC (mbind m f).
Proof.
  intros A B m f Hm Hf s b s' H. apply mbind_ok in H. destruct H as (a & s1 & H1 & H2).
  eapply CC_trans; [eapply Hm; eauto | eapply Hf; eauto].
Qed.
Lemma presC_mmap : forall A B (f : A -> M B), (forall x, PresC (f x)) -> forall l, PresC (mmap f l).
Proof.
  intros A B f Hf. induction l as [|x r IH]; simpl.
  - apply presF_C. apply presF_ret.
  - apply presC_bind; [apply Hf|]. intros y. apply presC_bind; [exact IH|]. intros ys. apply presF_C. apply presF_ret.
Qed.
Lemma presC_mmod : forall f, (forall s, CC s (f s)) -> PresC (mmod f).
Proof. intros f Hf s x s' H. unfold mmod in H. inversion H; subst. apply Hf. Qed.

Lemma CC_inval_cmdr : forall k s, CC s (inval_cmdr k s).
Proof.
  intros k s. unfold inval_cmdr.
  generalize (avals (cm_current (get_cmdr k s)) ++ concat (map (fun kv => avals (snd kv)) (cm_planned (get_cmdr k s)))).
  intros jids. revert s. induction jids as [|jid r IH]; intros s; simpl; [apply CC_refl|].
  eapply CC_trans; [|apply IH].
  destruct (aget jid (s_jobs s)) as [j|]; [|apply CC_refl].
  destruct (inval_job s (s_lost s) j (s_failed s)) as [j' f']. split; reflexivity.
Qed.
Lemma presC_inval : forall k, PresC (mmod (inval_cmdr k)).
Proof. intros k. apply presC_mmod. intros s. apply CC_inval_cmdr. Qed.

Lemma presF_add_commands : forall jid seq cids, PresF (add_commands jid seq cids).
Proof.
  intros jid seq. induction cids as [|cid r IH]; simpl; [apply presF_ret|].
  apply presF_bind; [apply presF_get_cmd|]. intros c. apply presF_bind; [apply presF_get_job|]. intros j.
  apply presF_bind; [apply presF_mget|]. intros s0. apply presF_bind; [|intros; apply IH].
  destruct (find_cmd s0 (j_current j) (c_proc c) (c_ident c)); destruct (find_cmd s0 (concat (avals (j_planned j))) (c_proc c) (c_ident c));
    first [apply presF_ret | apply presF_put_job].
Qed.

Lemma set_sm_cc : forall k b s, CC s (set_sm k b s).
Proof. intros k b s. destruct k; split; reflexivity. Qed.

Ltac presC :=
  repeat first
    [ apply presC_inval
    | apply presF_C; first [ apply presF_ret | apply presF_fail | apply presF_mget | apply presF_lift_opt | apply presF_fresh
                           | apply presF_get_job | apply presF_get_cmd | apply presF_get_sproc | apply presF_get_app
                           | apply presF_put_cmd | apply presF_put_job | apply presF_take_place | apply presF_take_order
                           | apply presF_add_commands ]
    | apply presC_mmap; intros
    | apply presC_bind; [|intros]
    | apply presC_mmod; intros; first [split; reflexivity | apply set_sm_cc ]
    | match goal with
      | |- PresC (if ?b then _ else _) => destruct b
      | |- PresC (match ?x with _ => _ end) => destruct x
      end ].

(* the calls that leave current_jobs of both sequencers untouched *)
Definition keeps_current (c : call) : bool :=
  match c with CDelCurrent _ _ | CNextPop _ | CAbort _ => false | _ => true end.

Lemma keeps_current_CC : forall c, keeps_current c = true -> PresC (step_call c).
Proof.
  intros c Hc. destruct c; simpl in Hc; try discriminate Hc; simpl;
    try (unfold step_next_loop, step_after, step_after_procs, step_aj_next, step_aj_group, job_append, step_proc_failure,
           step_force, put_sproc, step_on_event, step_aj_on_event, step_aj_check_cmd, step_start_proc, step_stop_proc,
           starter_store, stopper_store, stop_cmds_of, new_start_cmd, new_stop_cmd, new_job, update_identifier);
    presC.
Qed.

(* the jobs a call of the agenda will work on *)
Definition refs (c : call) : list Z :=
  match c with
  | CStartJobs _ snap => map snd snap
  | AJNext j | AJGroup j _ | AJOnEvent j _ _ | AJCheck j | AJCheckCmd j _ => [j]
  | _ => []
  end.

Definition is_current (s : st) (jid : Z) : Prop :=
  In jid (avals (cm_current (s_starter s))) \/ In jid (avals (cm_current (s_stopper s))).

Lemma is_current_CC : forall s s' jid, CC s s' -> is_current s jid -> is_current s' jid.
Proof. intros s s' jid [H1 H2] H. unfold is_current in *. rewrite H1, H2. exact H. Qed.

Lemma aget_in_avals : forall V (l : alist V) k v, aget k l = Some v -> In v (avals l).
Proof.
  induction l as [|[k' v'] r IH]; intros k v H; simpl in *; [discriminate|].
  destruct (Z.eqb k k'); [inversion H; left; reflexivity|right; eapply IH; eauto].
Qed.

Lemma avals_adel : forall (l : alist Z) a v x, aget a l = Some v -> In x (avals l) -> x <> v -> In x (avals (adel a l)).
Proof.
  induction l as [|[k' v'] r IH]; intros a v x Ha Hin Hne; simpl in *; [contradiction|].
  destruct (Z.eqb a k') eqn:E.
  - inversion Ha; subst. destruct Hin as [Hin|Hin]; [congruence|exact Hin].
  - simpl. destruct Hin as [Hin|Hin]; [left; exact Hin|right; eapply IH; eauto].
Qed.

(* the calls pushed by a step work on jobs the step itself worked on, or on jobs that are current *)
Lemma pushed_refs : forall c s push outs s',
  step_call c s = Ok ((push, outs), s') ->
  forall x, In x push -> forall jid, In jid (refs x) ->
    In jid (refs c) \/ is_current s' jid.
Proof.
  intros c s push outs s' H x Hx jid Hj.
  destruct c; simpl in H.
  - (* CNext *) chase H. destruct Hx as [<-|[<-|[<-|[]]]]; simpl in Hj; contradiction.
  - unfold step_next_loop in H. chase H; repeat (destruct Hx as [<-|Hx]; [simpl in Hj; contradiction|]); contradiction.
  - unfold step_after in H. chase H; try contradiction.
    + destruct Hx as [<-|[]]. simpl in Hj. contradiction.
    + apply in_app_or in Hx. destruct Hx as [Hx|[<-|[]]]; [|simpl in Hj; contradiction].
      destruct (aget (j_app a) (s_app_req a0)); [destruct Hx as [<-|[]]|contradiction]. simpl in Hj. contradiction.
  - unfold step_after_procs in H. chase H. destruct (aget a (s_proc_req a0)); [|contradiction].
    apply in_map_iff in Hx. destruct Hx as (y & <- & _). simpl in Hj. contradiction.
  - chase H; contradiction.
  - (* CNextPop *)
    destruct (application_pop_is_extremal _ _ _ _ _ H) as [->|(seq & cur & Hc & Hp & _ & -> & Hs')]; [contradiction|].
    destruct Hx as [<-|[<-|[]]]; [|simpl in Hj; contradiction]. simpl in Hj. right.
    unfold is_current. destruct k; simpl in Hs'; rewrite Hs'; simpl; [left|right]; exact Hj.
  - (* CStartJobs *)
    destruct snap as [|[a jid0] r]; chase H; [contradiction|].
    destruct Hx as [<-|[<-|[]]]; simpl in Hj; left; simpl; [destruct Hj as [<-|[]]; left; reflexivity|right; exact Hj].
  - chase H. contradiction.
  - (* AJNext *)
    destruct (aj_next_cases _ _ _ _ _ H) as [[-> _]|(j & seq & group & _ & _ & _ & _ & -> & _)]; [contradiction|].
    destruct Hx as [<-|[<-|[]]]; simpl in Hj; left; simpl; exact Hj.
  - (* AJGroup *)
    destruct group as [|cid rest0]; [simpl in H; chase H; contradiction|].
    destruct (aj_group_cases _ _ _ _ _ _ _ H) as (_ & _ & Hgr & Hnx).
    destruct x; simpl in Hj; try contradiction.
    + (* CStartJobs is never pushed by a group: the only pushes are Force, ProcFailure, AJGroup *)
      exfalso. clear - H Hx. unfold step_aj_group in H. chase H; repeat (destruct Hx as [Hx|Hx]; [discriminate|]); contradiction.
    + exfalso. eapply Hnx; eauto.
    + destruct (Hgr _ _ Hx) as [-> _]. left. simpl. exact Hj.
    + exfalso. clear - H Hx. unfold step_aj_group in H. chase H; repeat (destruct Hx as [Hx|Hx]; [discriminate|]); contradiction.
    + exfalso. clear - H Hx. unfold step_aj_group in H. chase H; repeat (destruct Hx as [Hx|Hx]; [discriminate|]); contradiction.
    + exfalso. clear - H Hx. unfold step_aj_group in H. chase H; repeat (destruct Hx as [Hx|Hx]; [discriminate|]); contradiction.
  - unfold step_proc_failure in H. chase H. contradiction.
  - unfold step_force in H. chase H; repeat (destruct Hx as [<-|Hx]; [simpl in Hj; contradiction|]); contradiction.
  - chase H. contradiction.
  - (* COnEvent *)
    unfold step_on_event in H. apply mbind_ok in H. destruct H as (s0 & s1 & H0 & H). unfold mget in H0.
    inversion H0; subst s0 s1; clear H0.
    destruct (aget a (cm_current (get_cmdr k s))) as [jid0|] eqn:Eg; unfold ret in H; inversion H; subst; [|contradiction].
    destruct Hx as [<-|[<-|[]]]; simpl in Hj; [|contradiction]. destruct Hj as [<-|[]]. right.
    apply aget_in_avals in Eg. unfold is_current. destruct k; [left|right]; exact Eg.
  - (* AJOnEvent *)
    unfold step_aj_on_event in H. chase H; try contradiction;
      destruct Hx as [<-|[]]; simpl in Hj; left; simpl; exact Hj.
  - (* CCheck *)
    apply mbind_ok in H. destruct H as (s0 & s1 & H0 & H). unfold mget in H0. inversion H0; subst s0 s1; clear H0.
    unfold ret in H. inversion H; subst; clear H.
    apply in_app_or in Hx. destruct Hx as [Hx|[<-|[]]]; [|simpl in Hj; contradiction].
    apply in_map_iff in Hx. destruct Hx as (y & <- & Hy). simpl in Hj. destruct Hj as [<-|[]]. right.
    unfold is_current. destruct k; [left|right]; exact Hy.
  - (* AJCheck *)
    chase H. apply in_app_or in Hx. destruct Hx as [Hx|[<-|[]]].
    + apply in_map_iff in Hx. destruct Hx as (y & <- & _). simpl in Hj. left. simpl. exact Hj.
    + simpl in Hj. left. simpl. exact Hj.
  - unfold step_aj_check_cmd in H. chase H; try contradiction; destruct Hx as [<-|[]]; simpl in Hj; contradiction.
  - chase H. destruct Hx as [<-|[]]. simpl in Hj. contradiction.
  - chase H; try contradiction; destruct Hx as [<-|[]]; simpl in Hj; contradiction.
  - unfold step_start_proc in H. chase H; try contradiction; destruct Hx as [<-|[]]; simpl in Hj; contradiction.
  - chase H; try contradiction; destruct Hx as [<-|[]]; simpl in Hj; contradiction.
  - chase H; try contradiction; destruct Hx as [<-|[]]; simpl in Hj; contradiction.
  - unfold step_stop_proc in H. chase H; try contradiction; destruct Hx as [<-|[]]; simpl in Hj; contradiction.
  - chase H; try contradiction; destruct Hx as [<-|[]]; simpl in Hj; contradiction.
  - chase H; try contradiction; destruct Hx as [<-|[]]; simpl in Hj; contradiction.
  - chase H; try contradiction; destruct Hx as [<-|[]]; simpl in Hj; contradiction.
  - chase H. contradiction.
Qed.

Lemma next_pop_state : forall k s push outs s',
  step_next_pop k s = Ok ((push, outs), s') ->
  (push = [] /\ s' = s) \/
  (exists seq cur, cm_current (get_cmdr k s) = [] /\
     s' = set_cmdr k (mkCmdr (adel seq (cm_planned (get_cmdr k s))) cur) s).
Proof.
  intros k s push outs s' H. unfold step_next_pop in H.
  apply mbind_ok in H. destruct H as (s0 & s1 & H0 & H). unfold mget in H0. inversion H0; subst s0 s1; clear H0.
  destruct (cm_planned (get_cmdr k s)) as [|kv pl] eqn:Ep; [unfold ret in H; inversion H; left; auto|].
  destruct (cm_current (get_cmdr k s)) eqn:Ec; [|unfold ret in H; inversion H; left; auto].
  destruct (pickup k (akeys (kv :: pl))) as [seq|]; [|unfold ret in H; inversion H; left; auto].
  apply mbind_ok in H. destruct H as (u & s1 & H1 & H). unfold ret in H. inversion H; subst; clear H.
  unfold mmod in H1. inversion H1; subst. right. eexists _, _. split; reflexivity.
Qed.



(* ---- refined application-level invariant: a group being processed belongs to a current job; the other calls
   work on a current job or on a job that has nothing planned any more (harmless leftovers of a finished job) *)
Definition drained (s : st) (jid : Z) : Prop := exists j, aget jid (s_jobs s) = Some j /\ j_planned j = [].
Definition weak_ok (s : st) (jid : Z) : Prop := is_current s jid \/ drained s jid.

Definition current_inv2 (ag : list call) (s : st) : Prop :=
  forall c, In c ag ->
    (forall jid g, c = AJGroup jid g -> g <> [] -> is_current s jid) /\
    (forall jid, In jid (refs c) -> weak_ok s jid).

Definition has_group_of (jid : Z) (x : call) : bool :=
  match x with AJGroup jid' (_ :: _) => Z.eqb jid' jid | _ => false end.

(* H_no_reentrant_delete: a job is taken out of current_jobs only when it has nothing planned and none of its groups
   is still being processed on the agenda; abort only from the top level *)
Definition guard_current2 (c : call) (rest : list call) (s : st) : bool :=
  match c with
  | CDelCurrent k a =>
      match aget a (cm_current (get_cmdr k s)) with
      | Some jid => forallb (fun x => negb (has_group_of jid x)) rest
                    && match aget jid (s_jobs s) with Some j => match j_planned j with [] => true | _ => false end
                                                    | None => false end
      | None => true
      end
  | CAbort _ => forallb (fun x => match refs x with [] => true | _ => false end) rest
  | _ => true
  end.

(* under the job-level guard, plans never grow: a drained job stays drained *)
Lemma drained_step : forall c rest s gh push outs s' jid,
  seq_shape_inv (c :: rest) s gh -> guard c rest s = true -> step_call c s = Ok ((push, outs), s') ->
  drained s jid -> drained s' jid.
Proof.
  intros c rest s gh push outs s' jid HI Hgd H (j & Hj & Hp). unfold drained.
  destruct (pushes_group c) eqn:Epg.
  - destruct c; simpl in Epg; try discriminate Epg; simpl in H.
    + destruct (aj_next_cases _ _ _ _ _ H) as [[_ ->]|(j0 & seq & group & Hj0 & _ & _ & Hgp & _ & ->)];
        [exists j; auto|].
      simpl. destruct (Z.eq_dec jid jid0) as [->|Hne].
      * rewrite Hj in Hj0. inversion Hj0; subst j0. rewrite Hp in Hgp. discriminate.
      * exists j. rewrite aget_aset_other by assumption. auto.
    + destruct group as [|cid rest0]; [simpl in H; unfold ret in H; inversion H; subst; exists j; auto|].
      destruct (aj_group_cases _ _ _ _ _ _ _ H) as (_ & [Hjb|(j0 & Hj0 & Hjb)] & _ & _); rewrite Hjb.
      * exists j. auto.
      * destruct (Z.eq_dec jid jid0) as [->|Hne].
        -- rewrite aget_aset_same. eexists. split; [reflexivity|]. simpl. rewrite Hj in Hj0. inversion Hj0; subst. exact Hp.
        -- rewrite aget_aset_other by assumption. exists j. auto.
  - assert (HT : T s s').
    { destruct (plain_call c) eqn:Epl.
      - eapply plain_call_T; eauto.
      - destruct c; simpl in Epl, Epg; try discriminate; simpl in H, Hgd.
        + destruct (get_application_job (s_starter s) a) eqn:Eg; [discriminate|]. eapply start_proc_T; eauto.
        + destruct (get_application_job (s_stopper s) a) eqn:Eg; [discriminate|]. eapply stop_proc_T; eauto. }
    destruct HI as (Hw & _). destruct (HT Hw) as (_ & _ & Hf & _).
    destruct (Hf _ _ Hj) as (j' & Hj' & (_ & _ & Hpl & _)). exists j'. split; [exact Hj'|].
    destruct Hpl as [Hpl|Hpl]; rewrite Hpl; [exact Hp|reflexivity].
Qed.

Lemma has_group_of_spec : forall jid x, has_group_of jid x = false ->
  forall g, x = AJGroup jid g -> g = [].
Proof.
  intros jid x H g ->. simpl in H. destruct g; [reflexivity|]. rewrite Z.eqb_refl in H. discriminate.
Qed.

Lemma current_step2 : forall c rest s gh push outs s',
  seq_shape_inv (c :: rest) s gh -> current_inv2 (c :: rest) s ->
  guard c rest s = true -> guard_current2 c rest s = true ->
  step_call c s = Ok ((push, outs), s') ->
  current_inv2 (push ++ rest) s'.
Proof.
  intros c rest s gh push outs s' HS HI Hgd Hg H.
  (* (1) a job that stays referenced by a group of the rest keeps being current *)
  assert (Hstrong : forall jid, is_current s jid ->
            (exists g, g <> [] /\ (In (AJGroup jid g) rest \/ (c = AJGroup jid g /\ push <> []))) ->
            is_current s' jid).
  { intros jid Hc Hwhere. destruct (keeps_current c) eqn:Ek.
    - eapply is_current_CC; [eapply keeps_current_CC; eauto|exact Hc].
    - destruct c; simpl in Ek; try discriminate Ek; simpl in H, Hg.
      + apply mbind_ok in H. destruct H as (s0 & s1 & H0 & H). unfold mget in H0. inversion H0; subst s0 s1; clear H0.
        destruct (amem a (cm_current (get_cmdr k s))) eqn:Em; [|discriminate].
        apply mbind_ok in H. destruct H as (u & s1 & H1 & H). unfold ret in H. inversion H; subst; clear H.
        unfold mmod in H1. inversion H1; subst s'; clear H1.
        destruct Hwhere as (g & Hne & [Hin|[Heq _]]); [|discriminate].
        unfold amem in Em. destruct (aget a (cm_current (get_cmdr k s))) as [jid0|] eqn:Ea; [|discriminate].
        apply andb_prop in Hg. destruct Hg as [Hg _]. rewrite forallb_forall in Hg. specialize (Hg _ Hin).
        apply negb_true_iff in Hg.
        assert (Hjn : jid <> jid0).
        { intro; subst. apply Hne. apply (has_group_of_spec _ _ Hg g). reflexivity. }
        unfold is_current in *. destruct k; simpl in *.
        * destruct Hc as [Hc|Hc]; [left; eapply avals_adel; eauto|right; exact Hc].
        * destruct Hc as [Hc|Hc]; [left; exact Hc|right; eapply avals_adel; eauto].
      + destruct (next_pop_state _ _ _ _ _ H) as [[_ ->]|(seq & cur & Hemp & ->)]; [exact Hc|].
        unfold is_current in *. destruct k; simpl in *; rewrite Hemp in Hc.
        * destruct Hc as [[]|Hc]. right. exact Hc.
        * destruct Hc as [Hc|[]]. left. exact Hc.
      + apply mbind_ok in H. destruct H as (u & s1 & H1 & H). unfold ret in H. inversion H; subst; clear H.
        destruct Hwhere as (g & Hne & [Hin|[Heq _]]); [|discriminate].
        rewrite forallb_forall in Hg. specialize (Hg _ Hin). simpl in Hg. discriminate. }
  (* (2) a job referenced by the rest (or by the call, when it pushes) stays current or drained *)
  assert (Hweak : forall jid, weak_ok s jid ->
            ((In jid (refs c) /\ push <> []) \/ exists x, In x rest /\ In jid (refs x)) -> weak_ok s' jid).
  { intros jid [Hc|Hd] Hwhere; [|right; eapply drained_step; eauto].
    destruct (keeps_current c) eqn:Ek.
    - left. eapply is_current_CC; [eapply keeps_current_CC; eauto|exact Hc].
    - destruct c; simpl in Ek; try discriminate Ek; simpl in H, Hg.
      + apply mbind_ok in H. destruct H as (s0 & s1 & H0 & H). unfold mget in H0. inversion H0; subst s0 s1; clear H0.
        destruct (amem a (cm_current (get_cmdr k s))) eqn:Em; [|discriminate].
        apply mbind_ok in H. destruct H as (u & s1 & H1 & H). unfold ret in H. inversion H; subst; clear H.
        unfold mmod in H1. inversion H1; subst s'; clear H1.
        unfold amem in Em. destruct (aget a (cm_current (get_cmdr k s))) as [jid0|] eqn:Ea; [|discriminate].
        apply andb_prop in Hg. destruct Hg as [_ Hg].
        destruct (Z.eq_dec jid jid0) as [->|Hjn].
        * right. destruct (aget jid0 (s_jobs s)) as [j|] eqn:Ej; [|discriminate].
          exists j. destruct k; simpl; (split; [exact Ej|]); destruct (j_planned j); [reflexivity|discriminate|reflexivity|discriminate].
        * left. unfold is_current in *. destruct k; simpl in *.
          -- destruct Hc as [Hc|Hc]; [left; eapply avals_adel; eauto|right; exact Hc].
          -- destruct Hc as [Hc|Hc]; [left; exact Hc|right; eapply avals_adel; eauto].
      + left. destruct (next_pop_state _ _ _ _ _ H) as [[_ ->]|(seq & cur & Hemp & ->)]; [exact Hc|].
        unfold is_current in *. destruct k; simpl in *; rewrite Hemp in Hc.
        * destruct Hc as [[]|Hc]. right. exact Hc.
        * destruct Hc as [Hc|[]]. left. exact Hc.
      + apply mbind_ok in H. destruct H as (u & s1 & H1 & H). unfold ret in H. inversion H; subst; clear H.
        destruct Hwhere as [[_ Hne]|(x & Hx & Hjx)]; [exfalso; apply Hne; reflexivity|].
        rewrite forallb_forall in Hg. specialize (Hg _ Hx). destruct (refs x); [contradiction|discriminate]. }
  destruct (HI c (or_introl eq_refl)) as [HcS HcW].
  intros x Hx. apply in_app_or in Hx. destruct Hx as [Hx|Hx].
  - assert (Hpne : push <> []) by (intro; subst; contradiction).
    split.
    + (* a pushed group *)
      intros jid g -> Hne.
      destruct (pushes_group c) eqn:Epg; [|exfalso; eapply only_next_and_group_push_groups; eauto].
      destruct c; simpl in Epg; try discriminate Epg.
      * (* pushed by AJNext: the job popped, hence had a plan, hence is current *)
        simpl in H. destruct (aj_next_cases _ _ _ _ _ H) as [[-> _]|(j & seq & group & Hj & _ & _ & Hgp & -> & ->)];
          [contradiction|].
        destruct Hx as [Hx|[Hx|[]]]; [|discriminate]. inversion Hx; subst jid g; clear Hx.
        assert (Hcur : is_current s jid0).
        { destruct (HcW jid0 (or_introl eq_refl)) as [Hc|(j1 & Hj1 & Hp1)]; [exact Hc|].
          rewrite Hj in Hj1. inversion Hj1; subst j1. rewrite Hp1 in Hgp. discriminate. }
        unfold is_current in *. simpl. exact Hcur.
      * (* pushed by AJGroup: the rest of the same group *)
        destruct group as [|cid rest0]; [simpl in H; unfold ret in H; inversion H; subst; contradiction|].
        simpl in H. destruct (aj_group_cases _ _ _ _ _ _ _ H) as (_ & _ & Hgr & _).
        destruct (Hgr _ _ Hx) as [-> ->].
        apply Hstrong; [apply (HcS jid0 (cid :: rest0) eq_refl); discriminate|].
        exists (cid :: rest0). split; [discriminate|]. right. split; [reflexivity|exact Hpne].
    + intros jid Hj. destruct (pushed_refs _ _ _ _ _ H x Hx jid Hj) as [Hr|Hcur]; [|left; exact Hcur].
      apply Hweak; [apply HcW; exact Hr|]. left. split; assumption.
  - destruct (HI x (or_intror Hx)) as [HxS HxW]. split.
    + intros jid g -> Hne. apply Hstrong; [eapply HxS; eauto|]. exists g. split; [exact Hne|]. left. exact Hx.
    + intros jid Hj. apply Hweak; [apply HxW; exact Hj|]. right. exists x. split; assumption.
Qed.

(* ---- runs guarded by all three hypotheses, with both logs *)
Definition guard_all (c : call) (rest : list call) (s : st) : bool := guard c rest s && guard_current2 c rest s.

Inductive gcres :=
| GCOk (s : st) (gh : ghost) (log : list gentry) (elog : list (st * call * out))
| GCCrash (k : crash)
| GCGuard.

Fixpoint exec_gc (fuel : nat) (ag : list call) (s : st) (gh : ghost) (acc : list gentry)
                 (eacc : list (st * call * out)) : gcres :=
  match ag with
  | [] => GCOk s gh (rev acc) (rev eacc)
  | c :: rest =>
      match fuel with
      | O => GCCrash OutOfFuel
      | S f =>
          if guard_all c rest s then
            match step_call c s with
            | Crash k => GCCrash k
            | Ok ((push, outs), s') =>
                exec_gc f (push ++ rest) s' (ghost_step c s push gh) (rev (entries_of c s push outs gh) ++ acc)
                        (rev (map (fun o => (s, c, o)) outs) ++ eacc)
            end
          else GCGuard
      end
  end.

(* a request emitted while a group is processed comes from a job that is in current_jobs of a sequencer *)
Definition emitted_by_current_job (x : st * call * out) : Prop :=
  forall jid g, snd (fst x) = AJGroup jid g -> g <> [] -> is_current (fst (fst x)) jid.

Theorem guarded_run : forall fuel ag s gh acc eacc s' gh' log elog,
  seq_shape_inv ag s gh -> current_inv2 ag s -> Forall entry_ok acc -> Forall emitted_by_current_job eacc ->
  exec_gc fuel ag s gh acc eacc = GCOk s' gh' log elog ->
  seq_shape_inv [] s' gh' /\ Forall entry_ok log /\ Forall emitted_by_current_job elog.
Proof.
  induction fuel as [|f IH]; intros ag s gh acc eacc s' gh' log elog HS HC Hacc Heacc H;
    destruct ag as [|c rest]; simpl in H.
  - inversion H; subst. split; [exact HS|]. split; apply Forall_rev; assumption.
  - discriminate.
  - inversion H; subst. split; [exact HS|]. split; apply Forall_rev; assumption.
  - destruct (guard_all c rest s) eqn:Eg; [|discriminate]. unfold guard_all in Eg. apply andb_prop in Eg.
    destruct Eg as [Eg1 Eg2].
    destruct (step_call c s) as [[[push outs] s1]|k] eqn:Es; [|discriminate].
    eapply IH; [eapply inv_step; eauto|eapply current_step2; eauto| | |exact H].
    + apply Forall_app. split; [apply Forall_rev; eapply entries_ok; eauto|exact Hacc].
    + apply Forall_app. split; [|exact Heacc]. apply Forall_rev. apply Forall_forall. intros x Hx.
      apply in_map_iff in Hx. destruct Hx as (o & <- & _). unfold emitted_by_current_job. simpl.
      intros jid g Hc Hne. destruct (HC c (or_introl eq_refl)) as [HcS _]. eapply HcS; eauto.
Qed.

(* operations: what the user / the fsm may put on the agenda works on no job yet *)
Definition op_ok2 (o : op) : bool :=
  match o with
  | OpCall c => match c with AJGroup _ _ => false | _ => match refs c with [] => true | _ => false end end
  | _ => true
  end.

Lemma op_calls_toplevel : forall o s ag s', op_ok2 o = true -> op_calls o s = Ok (ag, s') ->
  forall c, In c ag -> refs c = [] /\ forall jid g, c <> AJGroup jid g.
Proof.
  intros o s ag s' Hok H c Hc.
  assert (F : Forall (fun x => refs x = [] /\ forall jid g, x <> AJGroup jid g) ag).
  { destruct o; simpl in H; try (unfold ev_event, ev_tick, ev_ctx_invalidate in H); chase H;
      repeat (apply Forall_cons; [split; [reflexivity|intros; discriminate]|]); try apply Forall_nil.
    simpl in Hok. destruct c0; try discriminate Hok; simpl in Hok;
      try (constructor; [split; [reflexivity|intros; discriminate]|constructor]);
      destruct snap; try discriminate Hok; constructor; [split; [reflexivity|intros; discriminate]|constructor]. }
  rewrite Forall_forall in F. apply (F _ Hc).
Qed.

Fixpoint run_gc (fuel : nat) (s : st) (gh : ghost) (ops : list top) (acc : list gentry)
                (eacc : list (st * call * out)) : gcres :=
  match ops with
  | [] => GCOk s gh acc eacc
  | (o, now, orc) :: r =>
      match op_calls o (set_now_oracle now orc s) with
      | Crash k => GCCrash k
      | Ok (ag, s1) =>
          match exec_gc fuel ag s1 gh [] [] with
          | GCOk s' gh' log elog => run_gc fuel s' gh' r (acc ++ log) (eacc ++ elog)
          | other => other
          end
      end
  end.

(* C03 / C09 ordering along whole histories, partial: under H_no_reentrant_next, H_no_add_commands and
   H_no_reentrant_delete (checked on every configuration of the run by guard_all), from the initial state of any
   configuration: (process level) at every request the command belongs to the group popped last for its job, every
   current command of the job belongs to that group, every key still planned is beyond its key, popped keys are
   strictly monotone; (application level) the job is in current_jobs of its sequencer at that moment *)
Theorem ordering_partial : forall fuel cf ops s' gh' log elog,
  forallb (fun t => op_ok2 (fst (fst t))) ops = true ->
  run_gc fuel (init_st cf) [] ops [] [] = GCOk s' gh' log elog ->
  seq_shape_inv [] s' gh' /\ Forall entry_ok log /\ Forall emitted_by_current_job elog.
Proof.
  intros fuel cf.
  assert (G : forall ops s gh acc eacc s' gh' log elog,
            seq_shape_inv [] s gh -> Forall entry_ok acc -> Forall emitted_by_current_job eacc ->
            forallb (fun t => op_ok2 (fst (fst t))) ops = true ->
            run_gc fuel s gh ops acc eacc = GCOk s' gh' log elog ->
            seq_shape_inv [] s' gh' /\ Forall entry_ok log /\ Forall emitted_by_current_job elog).
  { induction ops as [|[[o now] orc] r IH]; intros s gh acc eacc s' gh' log elog HS Hacc Heacc Hok H; simpl in H.
    - inversion H; subst. auto.
    - simpl in Hok. apply andb_prop in Hok. destruct Hok as [Hok1 Hok].
      destruct (op_calls o (set_now_oracle now orc s)) as [[ag s1]|k] eqn:Eo; [|discriminate].
      destruct (exec_gc fuel ag s1 gh [] []) as [s2 gh2 log2 elog2| |] eqn:Ee; try discriminate.
      pose proof (op_calls_toplevel _ _ _ _ Hok1 Eo) as Htop.
      assert (HS1 : seq_shape_inv ag s1 gh).
      { eapply inv_nil_T; [exact HS| |].
        - eapply T_trans; [apply (T_same s (set_now_oracle now orc s)); reflexivity|]. eapply pres_op_calls; eauto.
        - intros jid g Hin. destruct (Htop _ Hin) as [_ Hn]. eapply Hn; reflexivity. }
      assert (HC1 : current_inv2 ag s1).
      { intros c Hc. destruct (Htop _ Hc) as [Hr Hn]. split.
        - intros jid g ->. exfalso. eapply Hn; reflexivity.
        - intros jid Hj. rewrite Hr in Hj. contradiction. }
      destruct (guarded_run _ _ _ _ _ _ _ _ _ _ HS1 HC1 (Forall_nil _) (Forall_nil _) Ee) as (HS2 & Hl2 & He2).
      eapply IH; [exact HS2| | |exact Hok|exact H]; apply Forall_app; split; assumption. }
  intros ops s' gh' log elog Hok H. eapply G; [apply seq_shape_init|constructor|constructor|exact Hok|exact H].
Qed.

(* the hypotheses are satisfiable (witness C, three operations incl. a timeout and the next sequence) ... *)
Example ordering_hypotheses_hold :
  exists s gh log elog, run_gc default_fuel (init_st w_cf_c) [] w_ops_c [] [] = GCOk s gh log elog /\
    length log = 4%nat /\ length (filter (fun x => match snd x with OStart _ _ _ => true | _ => false end) elog) = 2%nat.
Proof. vm_compute. do 4 eexists. repeat split; reflexivity. Qed.

(* ... and H_no_reentrant_delete is exactly what the known finding c03-noresource-reentrancy violates *)
Example noresource_witness_leaves_hypotheses :
  run_gc default_fuel (init_st w_cf_a) [] w_ops_a [] [] = GCGuard.
Proof. vm_compute. reflexivity. Qed.

Definition leaves_all_guards (c : case) : bool :=
  match run_gc default_fuel (init_st (fst (fst c))) [] (snd (fst c)) [] [] with GCGuard => true | _ => false end.
Definition all_guard_failures (cs : list case) : list nat := find_idx leaves_all_guards cs.
