(* NodeFsmProofs.v — proofs about model/Node.v against model/NodeSpec.v:
   C02 (documented FSM graph, Master conditions), C01 node-level part (Master-only automatic actions,
   Master selection rule), C16 node-level part (no internal error).
   Property-level theorems are in props/C02.v, props/C01.v, props/C16.v. *)
From Sup Require Import Base GenEnums GenNode Node NodeSpec.
From Coq Require Import List ZArith Bool Lia.
Import ListNotations.
Open Scope Z_scope.

(* ====================================================================== *)
(* A. The reflected tables                                                 *)
(* ====================================================================== *)

Lemma table_within_documented : forall a b : sstate,
  fsm_transition_ok a b = true -> documented_fsm_edge (scode a) (scode b) = true.
Proof. destruct a, b; vm_compute; intro H; first [reflexivity | discriminate H]. Qed.

Lemma final_terminal_table : forall b, fsm_transition_ok FINAL b = false.
Proof. destruct b; vm_compute; reflexivity. Qed.

Lemma ending_only_final_table : forall a b, (a = RESTARTING \/ a = SHUTTING_DOWN) ->
  fsm_transition_ok a b = true -> b = FINAL.
Proof.
  intros a b [Ha|Ha]; subst a; destruct b; vm_compute; intro H; first [reflexivity | discriminate H].
Qed.

(* the instance table, as used by the call sites of set_inst_state *)
Lemma inst_table_sites :
  inst_transition_ok ISTOPPED CHECKING = true /\
  inst_transition_ok CHECKING ISTOPPED = true /\ inst_transition_ok CHECKING CHECKED = true /\
  inst_transition_ok CHECKING FAILED = true /\ inst_transition_ok CHECKING ISOLATED = true /\
  inst_transition_ok CHECKED IRUNNING = true /\ inst_transition_ok CHECKED FAILED = true /\
  inst_transition_ok IRUNNING FAILED = true /\
  inst_transition_ok FAILED ISTOPPED = true /\ inst_transition_ok FAILED ISOLATED = true.
Proof. vm_compute. repeat split; reflexivity. Qed.

Lemma scode_inj : forall a b, scode a = scode b -> a = b.
Proof. destruct a, b; vm_compute; intro H; first [reflexivity | discriminate H]. Qed.

Lemma sstate_eqb_eq : forall a b, sstate_eqb a b = true <-> a = b.
Proof. destruct a, b; simpl; split; intro H; first [reflexivity | discriminate H]. Qed.

Lemma sstate_eqb_refl : forall a, sstate_eqb a a = true.
Proof. destruct a; reflexivity. Qed.

Lemma sstate_eqb_neq : forall a b, sstate_eqb a b = false <-> a <> b.
Proof.
  intros a b. split.
  - intros H E. subst. rewrite sstate_eqb_refl in H. discriminate.
  - intros H. destruct (sstate_eqb a b) eqn:E; [|reflexivity]. apply sstate_eqb_eq in E. contradiction.
Qed.

Lemma istate_eqb_eq : forall a b, istate_eqb a b = true <-> a = b.
Proof. destruct a, b; simpl; split; intro H; first [reflexivity | discriminate H]. Qed.

Lemma scode_eqb : forall a b, Z.eqb (scode a) (scode b) = sstate_eqb a b.
Proof. destruct a, b; vm_compute; reflexivity. Qed.

(* ====================================================================== *)
(* association lists                                                       *)
(* ====================================================================== *)

Lemma aget_aset {V} : forall k j (v : V) l, aget k (aset j v l) = if Z.eqb k j then Some v else aget k l.
Proof.
  intros k j v l. induction l as [|[k' v'] r IH]; simpl.
  - destruct (Z.eqb k j); reflexivity.
  - destruct (Z.eqb j k') eqn:E1; simpl.
    + apply Z.eqb_eq in E1. subst. destruct (Z.eqb k k'); reflexivity.
    + rewrite IH. destruct (Z.eqb k k') eqn:E2; destruct (Z.eqb k j) eqn:E3; try reflexivity.
      apply Z.eqb_eq in E2. apply Z.eqb_eq in E3. subst. rewrite Z.eqb_refl in E1. discriminate.
Qed.

Lemma amem_aset {V} : forall k j (v : V) l, amem k (aset j v l) = Z.eqb k j || amem k l.
Proof. intros. unfold amem. rewrite aget_aset. destruct (Z.eqb k j); reflexivity. Qed.

Lemma amem_aget {V} : forall k (l : alist V), amem k l = true <-> exists v, aget k l = Some v.
Proof.
  intros. unfold amem. destruct (aget k l) as [v|]; split; intro H.
  - exists v; reflexivity.
  - reflexivity.
  - discriminate.
  - destruct H as [v H]. discriminate.
Qed.

Lemma aget_In_keys {V} : forall k (l : alist V) v, aget k l = Some v -> In k (akeys l).
Proof.
  intros k l. induction l as [|[k' v'] r IH]; simpl; intros v H; [discriminate|].
  destruct (Z.eqb k k') eqn:E.
  - apply Z.eqb_eq in E. left. symmetry. exact E.
  - right. eapply IH. exact H.
Qed.

Lemma In_keys_amem {V} : forall k (l : alist V), In k (akeys l) -> amem k l = true.
Proof.
  intros k l. unfold amem. induction l as [|[k' v'] r IH]; simpl; intros H; [contradiction|].
  destruct (Z.eqb k k') eqn:E; [reflexivity|].
  destruct H as [H|H]; [subst; rewrite Z.eqb_refl in E; discriminate|]. apply IH. exact H.
Qed.

Lemma zmem_In : forall k l, zmem k l = true <-> In k l.
Proof.
  intros k l. unfold zmem. rewrite existsb_exists. split.
  - intros [x [Hx E]]. apply Z.eqb_eq in E. subst. exact Hx.
  - intros H. exists k. split; [exact H|apply Z.eqb_refl].
Qed.

(* ====================================================================== *)
(* own state-modes through the node setters                                *)
(* ====================================================================== *)

Lemma own_set_own : forall n s, own (set_own n s) = s.
Proof. intros. unfold own, set_own. simpl. rewrite aget_aset, Z.eqb_refl. reflexivity. Qed.

Lemma own_set_views_other : forall n j v, j <> n_me n -> own (set_views n (aset j v (n_views n))) = own n.
Proof.
  intros n j v H. unfold own, set_views. simpl. rewrite aget_aset.
  destruct (Z.eqb (n_me n) j) eqn:E; [|reflexivity]. apply Z.eqb_eq in E. congruence.
Qed.

(* fields that never change *)
Definition keeps (n n' : node) : Prop :=
  n_me n' = n_me n /\ n_opts n' = n_opts n /\ n_core n' = n_core n /\ n_initial n' = n_initial n
  /\ n_nick n' = n_nick n.

Lemma keeps_refl : forall n, keeps n n.
Proof. intros. repeat split. Qed.

Lemma keeps_trans : forall a b c, keeps a b -> keeps b c -> keeps a c.
Proof. unfold keeps. intros a b c H1 H2. intuition congruence. Qed.

(* ====================================================================== *)
(* B/C. traces of outputs                                                  *)
(* ====================================================================== *)

(* frame trace: the FSM state is s all along, every publication carries it and the Master of the moment,
   automatic tokens are emitted only while the Master is `me`; m' is the Master at the end *)
(* the final orders to the local Supervisor (C09): never part of a frame trace *)
Definition is_final_order (o : output) : bool := match o with SendRestart | SendShutdown => true | _ => false end.

Fixpoint fr (me : Z) (s : sstate) (m : Z) (outs : list output) (m' : Z) : Prop :=
  match outs with
  | [] => m' = m
  | Publish f _ pm _ :: r => f = scode s /\ fr me s pm r m'
  | o :: r => ((is_auto_token o = true -> m = me) /\ is_final_order o = false) /\ fr me s m r m'
  end.

Lemma fr_app : forall me s o1 o2 m m1 m2,
  fr me s m o1 m1 -> fr me s m1 o2 m2 -> fr me s m (o1 ++ o2) m2.
Proof.
  intros me s o1. induction o1 as [|o r IH]; simpl; intros o2 m m1 m2 H1 H2.
  - subst. exact H2.
  - destruct o; destruct H1 as [Ha Hb]; (split; [exact Ha|]); eapply IH; eassumption.
Qed.

Definition FR (n : node) (outs : list output) (n' : node) : Prop :=
  keeps n n' /\ fsm_state n' = fsm_state n /\ fr (n_me n) (fsm_state n) (master n) outs (master n').

Lemma FR_refl : forall n, FR n [] n.
Proof. intros. split; [apply keeps_refl|]. split; reflexivity. Qed.

Lemma FR_trans : forall a o1 b o2 c, FR a o1 b -> FR b o2 c -> FR a (o1 ++ o2) c.
Proof.
  intros a o1 b o2 c [K1 [S1 T1]] [K2 [S2 T2]].
  split; [eapply keeps_trans; eassumption|]. split; [congruence|].
  destruct K1 as [Kme _]. rewrite Kme, S1 in T2. eapply fr_app; eassumption.
Qed.

(* a silent change of the node that touches neither the FSM state nor the Master *)
Lemma FR_silent : forall n n', keeps n n' -> own n' = own n -> FR n [] n'.
Proof.
  intros n n' K E. split; [exact K|]. unfold fsm_state, master. rewrite E. split; reflexivity.
Qed.

Definition is_publish (o : output) : bool := match o with Publish _ _ _ _ => true | _ => false end.

(* tokens that are not automatic actions *)
Lemma FR_plain : forall n l,
  forallb (fun o => negb (is_publish o) && negb (is_auto_token o) && negb (is_final_order o)) l = true -> FR n l n.
Proof.
  intros n l H. split; [apply keeps_refl|]. split; [reflexivity|].
  induction l as [|o r IH]; simpl in *; [reflexivity|].
  apply andb_prop in H. destruct H as [Ho Hr].
  destruct o; simpl in Ho; try discriminate;
    (split; [split; [intro X; simpl in X; discriminate X|reflexivity]|apply IH; exact Hr]).
Qed.

(* tokens emitted by the Master *)
Lemma FR_by_master : forall n l, is_master n = true ->
  forallb (fun o => negb (is_publish o) && negb (is_final_order o)) l = true -> FR n l n.
Proof.
  intros n l M H. split; [apply keeps_refl|]. split; [reflexivity|].
  unfold is_master in M. apply Z.eqb_eq in M.
  induction l as [|o r IH]; simpl in *; [reflexivity|].
  apply andb_prop in H. destruct H as [Ho Hr].
  destruct o; simpl in Ho; try discriminate; (split; [split; [intros _; exact M|reflexivity]|apply IH; exact Hr]).
Qed.

Lemma FR_publish : forall n, FR n [publish n] n.
Proof. intros. split; [apply keeps_refl|]. split; [reflexivity|]. simpl. split; reflexivity. Qed.

(* ---------- setters ---------- *)
Lemma set_master_FR : forall n m n' o, set_master n m = (n', o) -> FR n o n'.
Proof.
  intros n m n' o H. unfold set_master in H. destruct (Z.eqb (master n) m).
  - inversion H; subst. apply FR_refl.
  - inversion H; subst. clear H. split; [repeat split|].
    unfold fsm_state, master, publish. rewrite !own_set_own. simpl. split; [reflexivity|].
    split; reflexivity.
Qed.

Lemma set_degraded_FR : forall n b n' o, set_degraded n b = (n', o) -> FR n o n'.
Proof.
  intros n b n' o H. unfold set_degraded in H. destruct (Bool.eqb (sm_degraded (own n)) b).
  - inversion H; subst. apply FR_refl.
  - inversion H; subst. clear H. split; [repeat split|].
    unfold fsm_state, master, publish. rewrite !own_set_own. simpl. split; [reflexivity|].
    split; reflexivity.
Qed.

Lemma update_instance_state_FR : forall n j st n' o, update_instance_state n j st = (n', o) -> FR n o n'.
Proof.
  intros n j st n' o H. unfold update_instance_state in H.
  set (s := own n) in *.
  set (n1 := set_own n (mkSm (sm_fsm s) (sm_degraded s) (sm_master s) (aset j st (sm_insts s)))) in *.
  assert (F1 : FR n [] n1).
  { split; [repeat split|]. unfold fsm_state, master, n1. rewrite own_set_own. simpl. split; reflexivity. }
  match type of H with (if _ then set_master ?x 0 else _) = _ => set (n2 := x) in * end.
  assert (F2 : FR n1 [] n2).
  { unfold n2. destruct st; try apply FR_refl.
    - destruct (Z.eqb j (n_me n)) eqn:E; [apply FR_refl|].
      destruct (amem j (n_views n1)); [|apply FR_refl].
      apply FR_silent; [repeat split|]. apply own_set_views_other.
      apply Z.eqb_neq in E. exact E.
    - destruct (Z.eqb j (n_me n)) eqn:E; [apply FR_refl|].
      destruct (amem j (n_views n1)); [|apply FR_refl].
      apply FR_silent; [repeat split|]. apply own_set_views_other.
      apply Z.eqb_neq in E. exact E. }
  assert (F12 : FR n [] n2) by (apply (FR_trans n [] n1 [] n2); assumption).
  destruct (negb (istate_eqb st IRUNNING) && Z.eqb j (master n2)).
  - apply set_master_FR in H. apply (FR_trans n [] n2 o n'); assumption.
  - inversion H; subst. apply (FR_trans n [] n2 [] (set_mark n2 true)); [assumption|].
    apply FR_silent; [repeat split|reflexivity].
Qed.

Lemma set_inst_state_FR : forall n j st now n' o, set_inst_state n j st now = Ok (n', o) -> FR n o n'.
Proof.
  intros n j st now n' o H. unfold set_inst_state in H.
  destruct (aget j (n_insts n)) as [s|]; [|discriminate].
  destruct (istate_eqb (is_state s) st).
  - inversion H; subst. apply FR_refl.
  - destruct (inst_transition_ok (is_state s) st); [|discriminate].
    inversion H as [H1]. clear H. apply update_instance_state_FR in H1.
    match type of H1 with FR ?x _ _ => apply (FR_trans n [] x o n'); [|exact H1] end.
    apply FR_silent; [repeat split|reflexivity].
Qed.

(* ---------- folds ---------- *)
Lemma fold_ids_FR : forall f, (forall n j n' o, f n j = Ok (n', o) -> FR n o n') ->
  forall ids n acc n' outs, fold_ids f ids n acc = Ok (n', outs) -> exists o, outs = acc ++ o /\ FR n o n'.
Proof.
  intros f Hf ids. induction ids as [|j r IH]; simpl; intros n acc n' outs H.
  - inversion H; subst. exists []. rewrite app_nil_r. split; [reflexivity|apply FR_refl].
  - destruct (f n j) as [[n1 o1]|k] eqn:E; [|discriminate].
    apply Hf in E. apply IH in H. destruct H as [o2 [Eo F2]].
    exists (o1 ++ o2). rewrite Eo, app_assoc. split; [reflexivity|]. eapply FR_trans; eassumption.
Qed.

Lemma on_timer_FR : forall n cnt now n' o, on_timer n cnt now = Ok (n', o) -> FR n o n'.
Proof.
  intros n cnt now n' o H. unfold on_timer in H. apply fold_ids_FR in H.
  - destruct H as [o' [E F]]. simpl in E. subst. exact F.
  - clear. intros n j n' o H. destruct (aget j (n_insts n)) as [s|].
    + destruct (is_inactive n s cnt).
      * eapply set_inst_state_FR; eassumption.
      * inversion H; subst. apply FR_refl.
    + inversion H; subst. apply FR_refl.
Qed.

Lemma invalidate_FR : forall n j fence now n' o, invalidate n j fence now = Ok (n', o) -> FR n o n'.
Proof.
  intros n j fence now n' o H. unfold invalidate in H.
  destruct (Z.eqb j (n_me n)); [eapply set_inst_state_FR; eassumption|].
  destruct (fence || _); eapply set_inst_state_FR; eassumption.
Qed.

Lemma invalidate_failed_aux_FR : forall ids n acc lost lostp now n' outs lost' lostp',
  invalidate_failed_aux ids n acc lost lostp now = Ok (n', outs, lost', lostp') ->
  exists o, outs = acc ++ o /\ FR n o n'.
Proof.
  induction ids as [|j r IH]; simpl; intros n acc lost lostp now n' outs lost' lostp' H.
  - inversion H; subst. exists []. rewrite app_nil_r. split; [reflexivity|apply FR_refl].
  - destruct (inst_state n j) as [[]|]; try (eapply IH; eassumption).
    destruct (invalidate n j false now) as [[n1 o1]|k] eqn:E; [|discriminate].
    apply invalidate_FR in E. apply IH in H. destruct H as [o2 [Eo F2]].
    exists (o1 ++ o2). rewrite Eo, app_assoc. split; [reflexivity|].
    eapply FR_trans; [exact E|].
    match type of F2 with FR ?x _ _ => apply (FR_trans n1 [] x o2 n'); [|exact F2] end.
    apply FR_silent; [repeat split|reflexivity].
Qed.

Lemma invalidate_failed_FR : forall n now n' o lost lostp,
  invalidate_failed n now = Ok (n', o, lost, lostp) -> FR n o n'.
Proof.
  intros n now n' o lost lostp H. unfold invalidate_failed in H.
  apply invalidate_failed_aux_FR in H. destruct H as [o' [E F]]. simpl in E. subst. exact F.
Qed.

Lemma activate_checked_aux_FR : forall ids n acc act now n' outs act',
  activate_checked_aux ids n acc act now = Ok (n', outs, act') ->
  exists o, outs = acc ++ o /\ FR n o n'.
Proof.
  induction ids as [|j r IH]; simpl; intros n acc act now n' outs act' H.
  - inversion H; subst. exists []. rewrite app_nil_r. split; [reflexivity|apply FR_refl].
  - destruct (inst_state n j) as [[]|]; try (eapply IH; eassumption).
    destruct (set_inst_state n j IRUNNING now) as [[n1 o1]|k] eqn:E; [|discriminate].
    apply set_inst_state_FR in E. apply IH in H. destruct H as [o2 [Eo F2]].
    exists (o1 ++ o2). rewrite Eo, app_assoc. split; [reflexivity|].
    eapply FR_trans; eassumption.
Qed.

Lemma activate_checked_FR : forall n now n' o act, activate_checked n now = Ok (n', o, act) -> FR n o n'.
Proof.
  intros n now n' o act H. unfold activate_checked in H.
  apply activate_checked_aux_FR in H. destruct H as [o' [E F]]. simpl in E. subst. exact F.
Qed.

Lemma evaluate_stability_FR : forall n n', evaluate_stability n = Ok n' -> FR n [] n'.
Proof.
  intros n n' H. unfold evaluate_stability in H.
  destruct (running_views n (n_views n)) as [rv|k]; [|discriminate]. simpl in H.
  destruct (map _ rv) as [|s0 t].
  - inversion H; subst. apply FR_silent; [repeat split|reflexivity].
  - destruct (forallb _ _); inversion H; subst; (apply FR_silent; [repeat split|reflexivity]).
Qed.

Lemma select_master_FR : forall n n' o, select_master n = Ok (n', o) -> FR n o n'.
Proof.
  intros n n' o H. unfold select_master in H.
  destruct (master_identifiers n) as [ms|k]; [|discriminate]. simpl in H.
  match type of H with bind ?x _ = _ => destruct x as [[[m rk]|]|k] end; simpl in H; try discriminate.
  inversion H as [H1]. eapply set_master_FR. exact H1.
Qed.

Lemma accept_master_FR : forall n pick n' o, accept_master n pick = Ok (n', o) -> FR n o n'.
Proof.
  intros n pick n' o H. unfold accept_master in H.
  destruct (master_identifiers n) as [ms|k]; [|discriminate]. simpl in H.
  destruct (zdiscard 0 ms) as [|m [|m2 r]].
  - inversion H; subst. apply FR_refl.
  - inversion H as [H1]. eapply set_master_FR. exact H1.
  - inversion H as [H1]. eapply set_master_FR. exact H1.
Qed.

Lemma check_failure_strategy_FR : forall n lost n' o d, check_failure_strategy n lost = (n', o, d) -> FR n o n'.
Proof.
  intros n lost n' o d H. unfold check_failure_strategy in H.
  destruct (set_degraded n _) as [n1 o1] eqn:E. inversion H; subst. eapply set_degraded_FR. exact E.
Qed.

Lemma sync_consistence_FR : forall n lost n' o d, sync_consistence n lost = (n', o, d) -> FR n o n'.
Proof.
  intros n lost n' o d H. unfold sync_consistence in H. destruct (on_consistence n).
  - inversion H; subst. apply FR_refl.
  - eapply check_failure_strategy_FR. exact H.
Qed.

Lemma ms_consistence_FR : forall n lost n' o d, ms_consistence n lost = Ok (n', o, d) -> FR n o n'.
Proof.
  intros n lost n' o d H. unfold ms_consistence in H.
  destruct (sync_consistence n lost) as [[n1 o1] d1] eqn:E. apply sync_consistence_FR in E.
  destruct d1.
  - inversion H; subst. exact E.
  - destruct (check_master n1) as [ok|k]; [|discriminate]. simpl in H. inversion H; subst. exact E.
Qed.

Lemma check_instances_FR : forall n now n' o lost lostp d,
  check_instances n now = Ok (n', o, lost, lostp, d) -> FR n o n'.
Proof.
  intros n now n' o lost lostp d H. unfold check_instances in H.
  destruct (invalidate_failed n now) as [[[[n1 o1] l1] lp1]|k] eqn:E1; [|discriminate].
  apply invalidate_failed_FR in E1.
  destruct (act_of (fsm_state n)).
  - destruct (activate_checked n1 now) as [[[n2 o2] act]|k] eqn:E2; [|discriminate].
    apply activate_checked_FR in E2. inversion H; subst. eapply FR_trans; eassumption.
  - destruct (activate_checked n1 now) as [[[n2 o2] act]|k] eqn:E2; [|discriminate].
    apply activate_checked_FR in E2. inversion H; subst. eapply FR_trans; eassumption.
  - inversion H; subst. exact E1.
Qed.

(* ---------- one evaluation of instance.next() ---------- *)
Lemma FR_nil_l : forall a b o c, FR a [] b -> FR b o c -> FR a o c.
Proof. intros a b o c H1 H2. apply (FR_trans a [] b o c); assumption. Qed.

Lemma FR_nil_r : forall a b o c, FR a o b -> FR b [] c -> FR a o c.
Proof. intros a b o c H1 H2. rewrite <- (app_nil_r o). apply (FR_trans a o b [] c); assumption. Qed.

Lemma FR_oc : forall n (lost : list Z), FR n (match lost with [] => [] | _ => [JobsInvalidation lost] end) n.
Proof. intros n lost. destruct lost; apply FR_plain; reflexivity. Qed.

Ltac fr_step :=
  match goal with
  | |- FR ?n [] ?n => apply FR_refl
  | H : FR ?a ?o ?b |- FR ?a ?o ?b => exact H
  | H : forall x, FR x ?l x |- FR ?a ?l ?a => apply H
  | H : FR ?a [] ?b |- FR ?a _ _ => apply (FR_nil_l _ _ _ _ H)
  | H : FR ?a ?o ?b |- FR ?a ?o ?c => apply (FR_nil_r _ _ _ _ H)
  | H : FR ?a ?o ?b |- FR ?a (?o ++ _) _ => apply (FR_trans _ _ _ _ _ H)
  | H : forall x, FR x ?l x |- FR ?a (?l ++ _) _ => apply (FR_trans _ _ _ _ _ (H a))
  end.

Lemma fsm_next_FR : forall n orc now n' o d, fsm_next n orc now = Ok (n', o, d) -> FR n o n'.
Proof.
  intros n orc now n' o d H. unfold fsm_next in H.
  destruct (check_instances n now) as [[[[[n1 o1] lost] lostp] d1]|k] eqn:E1; [|discriminate].
  apply check_instances_FR in E1.
  destruct d1 as [d1|]; [inversion H; subst; exact E1|].
  destruct (evaluate_stability n1) as [n2|k] eqn:E2; [|discriminate].
  apply evaluate_stability_FR in E2.
  set (oc := match lost with [] => [] | _ => [JobsInvalidation lost] end) in *.
  assert (Hoc : forall x, FR x oc x) by (intro x; apply FR_oc).
  clearbody oc.
  destruct (fsm_state n) eqn:Est.
  - inversion H; subst. repeat fr_step.
  - (* SYNCHRONIZATION *)
    destruct (on_consistence n2); [inversion H; subst; repeat fr_step|].
    match type of H with match ?u with _ => _ end = _ => destruct u as [[[n3 o3] us]|k] eqn:E3; [|discriminate] end.
    assert (F3 : FR n2 o3 n3).
    { destruct (o_user (n_opts n2)).
      - destruct (accept_master n2 (or_pick orc)) as [[n3' o3']|k] eqn:E4; [|discriminate].
        apply accept_master_FR in E4.
        destruct (master n3' =? 0); [inversion E3; subst; exact E4|].
        destruct (inst_state n3' (master n3')); inversion E3; subst; exact E4.
      - inversion E3; subst. apply FR_refl. }
    match type of H with (let '(_, _) := ?u in _) = _ => destruct u as [n4 o4] eqn:E4 end.
    apply set_degraded_FR in E4. inversion H; subst. repeat fr_step.
  - (* ELECTION *)
    destruct (sync_consistence n2 lost) as [[n3 o3] d3] eqn:E3. apply sync_consistence_FR in E3.
    destruct d3; [inversion H; subst; repeat fr_step|].
    assert (SM : forall r, select_master n3 = Ok r -> FR n (o1 ++ o3 ++ snd r) (fst r)).
    { intros [n4 o4] E4. apply select_master_FR in E4. simpl. repeat fr_step. }
    destruct (is_stable n3); [|inversion H; subst; repeat fr_step].
    destruct (check_master n3) as [[|]|k]; [| |discriminate].
    + destruct (is_master n3); [inversion H; subst; repeat fr_step|].
      destruct (master_state n3) as [[]|];
        first [ destruct (select_master n3) as [r|k] eqn:E4; [|discriminate]; simpl in H; inversion H; subst;
                apply SM; reflexivity
              | inversion H; subst; repeat fr_step ].
    + destruct (select_master n3) as [r|k] eqn:E4; [|discriminate]; simpl in H; inversion H; subst.
      apply SM; reflexivity.
  - (* DISTRIBUTION *)
    destruct (ms_consistence n2 lost) as [[[n3 o3] d3]|k] eqn:E3; [|discriminate]. apply ms_consistence_FR in E3.
    destruct d3; [inversion H; subst; repeat fr_step|].
    destruct (is_master n3) eqn:M; inversion H; subst; repeat fr_step.
    apply FR_by_master; [exact M|destruct (starter_filter lost lostp orc); reflexivity].
  - (* OPERATION *)
    destruct (ms_consistence n2 lost) as [[[n3 o3] d3]|k] eqn:E3; [|discriminate]. apply ms_consistence_FR in E3.
    destruct d3; [inversion H; subst; repeat fr_step|].
    destruct (is_master n3) eqn:M; inversion H; subst; repeat fr_step.
    apply FR_by_master; [exact M|destruct (starter_filter lost lostp orc); reflexivity].
  - (* CONCILIATION *)
    destruct (ms_consistence n2 lost) as [[[n3 o3] d3]|k] eqn:E3; [|discriminate]. apply ms_consistence_FR in E3.
    destruct d3; [inversion H; subst; repeat fr_step|].
    destruct (is_master n3) eqn:M; [|inversion H; subst; repeat fr_step].
    assert (BM : forall l, forallb (fun o => negb (is_publish o) && negb (is_final_order o)) l = true -> FR n3 l n3)
      by (intros l Hl; apply FR_by_master; [exact M|exact Hl]).
    destruct (or_starting orc || or_stopping orc);
      [inversion H; subst; repeat fr_step; try (apply BM; destruct (starter_filter lost lostp orc); reflexivity)|].
    destruct (negb (or_conflict orc)); inversion H; subst; repeat fr_step;
      try (apply BM; destruct (starter_filter lost lostp orc); reflexivity).
  - (* RESTARTING *)
    destruct (ms_consistence n2 lost) as [[[n3 o3] d3]|k] eqn:E3; [|discriminate]. apply ms_consistence_FR in E3.
    destruct d3; [inversion H; subst; repeat fr_step|].
    destruct (is_master n3) eqn:M; inversion H; subst; repeat fr_step.
  - (* SHUTTING_DOWN *)
    destruct (ms_consistence n2 lost) as [[[n3 o3] d3]|k] eqn:E3; [|discriminate]. apply ms_consistence_FR in E3.
    destruct d3; [inversion H; subst; repeat fr_step|].
    destruct (is_master n3) eqn:M; inversion H; subst; repeat fr_step.
  - (* FINAL *)
    inversion H; subst. repeat fr_step.
Qed.

(* ====================================================================== *)
(* traces with changes of the FSM state                                    *)
(* ====================================================================== *)
Definition pub_insts (n : node) : list (Z * Z) := map (fun kv => (fst kv, icode (snd kv))) (sm_insts (own n)).

(* Q t m insts : side condition required of the publication that announces the entry into state t *)
Fixpoint tr (Q : sstate -> Z -> list (Z * Z) -> Prop) (me : Z) (s : sstate) (m : Z) (outs : list output)
            (s' : sstate) (m' : Z) : Prop :=
  match outs with
  | [] => s' = s /\ m' = m
  | Publish f _ pm pi :: r =>
      exists t, f = scode t /\ (t = s \/ (fsm_transition_ok s t = true /\ Q t pm pi)) /\ tr Q me t pm r s' m'
  | o :: r => (is_auto_token o = true -> m = me) /\ tr Q me s m r s' m'
  end.

Lemma tr_app : forall Q me o1 o2 s m s1 m1 s2 m2,
  tr Q me s m o1 s1 m1 -> tr Q me s1 m1 o2 s2 m2 -> tr Q me s m (o1 ++ o2) s2 m2.
Proof.
  intros Q me o1. induction o1 as [|o r IH]; simpl; intros o2 s m s1 m1 s2 m2 H1 H2.
  - destruct H1; subst. exact H2.
  - destruct o; try (destruct H1 as [Ha Hb]; (split; [exact Ha|]); eapply IH; eassumption).
    destruct H1 as [t [Ef [Ht Hr]]]. exists t. split; [exact Ef|]. split; [exact Ht|]. eapply IH; eassumption.
Qed.

Lemma fr_tr : forall Q me s outs m m', fr me s m outs m' -> tr Q me s m outs s m'.
Proof.
  intros Q me s outs. induction outs as [|o r IH]; simpl; intros m m' H.
  - split; [reflexivity|exact H].
  - destruct o; try (destruct H as [Ha Hb]; split; [exact (proj1 Ha)|apply IH; exact Hb]).
    destruct H as [Ha Hb]. exists s. split; [exact Ha|]. split; [left; reflexivity|apply IH; exact Hb].
Qed.

Definition TR Q (n : node) (outs : list output) (n' : node) : Prop :=
  keeps n n' /\ tr Q (n_me n) (fsm_state n) (master n) outs (fsm_state n') (master n').

Lemma TR_refl : forall Q n, TR Q n [] n.
Proof. intros. split; [apply keeps_refl|]. simpl. split; reflexivity. Qed.

Lemma TR_trans : forall Q a o1 b o2 c, TR Q a o1 b -> TR Q b o2 c -> TR Q a (o1 ++ o2) c.
Proof.
  intros Q a o1 b o2 c [K1 T1] [K2 T2]. split; [eapply keeps_trans; eassumption|].
  destruct K1 as [Kme _]. rewrite Kme in T2. eapply tr_app; eassumption.
Qed.

Lemma FR_TR : forall Q n o n', FR n o n' -> TR Q n o n'.
Proof. intros Q n o n' [K [S T]]. split; [exact K|]. rewrite S. apply fr_tr. exact T. Qed.

Lemma TR_nil_l : forall Q a b o c, TR Q a [] b -> TR Q b o c -> TR Q a o c.
Proof. intros Q a b o c H1 H2. apply (TR_trans Q a [] b o c); assumption. Qed.

(* the set of FSM states reachable along a trace is closed under the table *)
Lemma tr_closed : forall (P : sstate -> Prop), (forall a b, P a -> fsm_transition_ok a b = true -> P b) ->
  forall Q me outs s m s' m', tr Q me s m outs s' m' -> P s -> P s'.
Proof.
  intros P HP Q me outs. induction outs as [|o r IH]; simpl; intros s m s' m' H Hs.
  - destruct H; subst. exact Hs.
  - destruct o; try (destruct H as [_ H]; eapply IH; eassumption).
    destruct H as [t [_ [[Ht|[Ht _]] Hr]]].
    + subst. eapply IH; eassumption.
    + eapply IH; [eassumption|]. eapply HP; eassumption.
Qed.

(* ---------- set_fsm / enter_state / exit ---------- *)
Lemma set_fsm_TR : forall (Q : sstate -> Z -> list (Z * Z) -> Prop) n ns n1 o1,
  set_fsm n ns = (n1, o1) -> fsm_transition_ok (fsm_state n) ns = true -> Q ns (master n) (pub_insts n) ->
  TR Q n o1 n1 /\ fsm_state n1 = ns.
Proof.
  intros Q n ns n1 o1 H Hok HQ. unfold set_fsm in H. destruct (sstate_eqb (fsm_state n) ns) eqn:E.
  - inversion H; subst. apply sstate_eqb_eq in E. split; [apply TR_refl|exact E].
  - inversion H; subst. clear H. split.
    + split; [repeat split|]. unfold publish. rewrite own_set_own. simpl.
      exists ns. split; [reflexivity|]. split; [right; split; [exact Hok|exact HQ]|].
      unfold fsm_state, master. rewrite own_set_own. simpl. split; reflexivity.
    + unfold fsm_state. rewrite own_set_own. reflexivity.
Qed.

Lemma enter_state_FR : forall n ns now n2 o2, enter_state n ns now = (n2, o2) -> FR n o2 n2.
Proof.
  intros n ns now n2 o2 H. unfold enter_state in H.
  destruct ns; inversion H; subst; clear H;
    try (apply FR_plain; reflexivity);
    try (match goal with |- FR ?x _ _ => destruct (is_master x) eqn:M end;
         [apply FR_by_master; [exact M|reflexivity]|apply FR_plain; reflexivity]).
  apply FR_silent; [repeat split|reflexivity].
Qed.

Lemma exit_outputs_TR : forall Q n s, TR Q n (exit_outputs s) n.
Proof.
  intros Q n s. split; [apply keeps_refl|].
  destruct s; simpl; repeat split; intro X; discriminate X.
Qed.

(* ---------- the set_state loop, generic in an invariant ---------- *)
Section SetState.
  Variable Q : sstate -> Z -> list (Z * Z) -> Prop.
  Variable Inv : node -> Prop.
  Variable J : node -> option sstate -> Prop.      (* what is known of a decision of instance.next() *)
  Hypothesis Hnext : forall n orc now n' o d, Inv n -> fsm_next n orc now = Ok (n', o, d) -> Inv n' /\ J n' d.
  Hypothesis Henter : forall n ns now, Inv n -> J n (Some ns) -> ns <> fsm_state n ->
    fsm_transition_ok (fsm_state n) ns = true ->
    Q ns (master n) (pub_insts n) /\ Inv (fst (enter_state (fst (set_fsm n ns)) ns now)).

  Lemma set_state_TR : forall fuel n next orcs now acc n' outs,
    Inv n -> J n next -> set_state fuel n next orcs now acc = Ok (n', outs) ->
    Inv n' /\ exists o, outs = acc ++ o /\ TR Q n o n'.
  Proof.
    induction fuel as [|fuel IH]; intros n next orcs now acc n' outs HI HJ H.
    - simpl in H. destruct next as [ns|].
      + destruct (sstate_eqb ns (fsm_state n));
          [inversion H; subst; split; [exact HI|exists []; rewrite app_nil_r; split; [reflexivity|apply TR_refl]]|].
        destruct (negb (fsm_transition_ok (fsm_state n) ns)); [|discriminate].
        inversion H; subst; split; [exact HI|exists []; rewrite app_nil_r; split; [reflexivity|apply TR_refl]].
      + inversion H; subst; split; [exact HI|exists []; rewrite app_nil_r; split; [reflexivity|apply TR_refl]].
    - simpl in H. destruct next as [ns|];
        [|inversion H; subst; split; [exact HI|exists []; rewrite app_nil_r; split; [reflexivity|apply TR_refl]]].
      destruct (sstate_eqb ns (fsm_state n)) eqn:Eeq;
        [inversion H; subst; split; [exact HI|exists []; rewrite app_nil_r; split; [reflexivity|apply TR_refl]]|].
      destruct (fsm_transition_ok (fsm_state n) ns) eqn:Eok; simpl in H;
        [|inversion H; subst; split; [exact HI|exists []; rewrite app_nil_r; split; [reflexivity|apply TR_refl]]].
      apply sstate_eqb_neq in Eeq.
      destruct (Henter n ns now HI HJ Eeq Eok) as [HQ HI2].
      destruct (set_fsm n ns) as [n1 o1] eqn:E1.
      destruct (enter_state n1 ns now) as [n2 o2] eqn:E2.
      try rewrite E1 in HI2; simpl in HI2; try rewrite E2 in HI2; simpl in HI2.
      destruct (next_orcs orcs) as [orc rest].
      destruct (fsm_next n2 orc now) as [[[n3 o3] d]|k] eqn:E3; [|discriminate].
      destruct (Hnext _ _ _ _ _ _ HI2 E3) as [HI3 HJ3].
      destruct (IH _ _ _ _ _ _ _ HI3 HJ3 H) as [HI' [o [Eo T]]].
      split; [exact HI'|].
      exists ((exit_outputs (fsm_state n) ++ o1 ++ o2 ++ o3) ++ o). split; [rewrite Eo, <- app_assoc; reflexivity|].
      apply set_fsm_TR with (Q := Q) in E1; [|exact Eok|exact HQ]. destruct E1 as [T1 _].
      apply enter_state_FR in E2. apply fsm_next_FR in E3.
      eapply TR_trans; [|exact T].
      eapply TR_trans; [apply exit_outputs_TR|].
      eapply TR_trans; [exact T1|].
      eapply TR_trans; [apply FR_TR; exact E2|]. apply FR_TR. exact E3.
  Qed.

  Lemma fsm_run_TR : forall n orcs now n' outs, Inv n -> fsm_run n orcs now = Ok (n', outs) ->
    Inv n' /\ TR Q n outs n'.
  Proof.
    intros n orcs now n' outs HI H. unfold fsm_run in H. destruct (next_orcs orcs) as [orc rest].
    destruct (fsm_next n orc now) as [[[n1 o1] d]|k] eqn:E1; [|discriminate].
    destruct (Hnext _ _ _ _ _ _ HI E1) as [HI1 HJ1].
    destruct (set_state_TR _ _ _ _ _ _ _ _ HI1 HJ1 H) as [HI' [o [Eo T]]].
    split; [exact HI'|]. subst. eapply TR_trans; [apply FR_TR; eapply fsm_next_FR; exact E1|exact T].
  Qed.

  Hypothesis Hending : forall n t, Inv n -> is_master n = true -> (t = RESTARTING \/ t = SHUTTING_DOWN) -> J n (Some t).

  Lemma on_ending_TR : forall n t orcs now err n' outs, Inv n -> (t = RESTARTING \/ t = SHUTTING_DOWN) ->
    on_ending n t orcs now err = Ok (n', outs) -> Inv n' /\ TR Q n outs n'.
  Proof.
    intros n t orcs now err n' outs HI Ht H. unfold on_ending in H. destruct (is_master n) eqn:M.
    - destruct (set_state_TR _ _ _ _ _ _ _ _ HI (Hending n t HI M Ht) H) as [HI' [o [Eo T]]].
      simpl in Eo. subst. split; assumption.
    - destruct (negb (master n =? 0)); [|discriminate]. inversion H; subst. split; [exact HI|].
      apply FR_TR. apply FR_plain. destruct Ht; subst; reflexivity.
  Qed.
End SetState.

Definition Qtrue : sstate -> Z -> list (Z * Z) -> Prop := fun _ _ _ => True.
Definition Itrue : node -> Prop := fun _ => True.
Definition Jtrue : node -> option sstate -> Prop := fun _ _ => True.

Lemma fsm_run_TR0 : forall n orcs now n' outs, fsm_run n orcs now = Ok (n', outs) -> TR Qtrue n outs n'.
Proof.
  intros n orcs now n' outs H.
  apply (fsm_run_TR Qtrue Itrue Jtrue) in H; [destruct H; assumption| | |exact I];
    intros; split; exact I.
Qed.

Lemma on_ending_TR0 : forall n t orcs now err n' outs, (t = RESTARTING \/ t = SHUTTING_DOWN) ->
  on_ending n t orcs now err = Ok (n', outs) -> TR Qtrue n outs n'.
Proof.
  intros n t orcs now err n' outs Ht H.
  apply (on_ending_TR Qtrue Itrue Jtrue) in H; [destruct H; assumption| | | |exact I|exact Ht];
    intros; try split; exact I.
Qed.

(* ---------- one event ---------- *)
Lemma set_insts_FR : forall n i, FR n [] (set_insts n i).
Proof. intros. apply FR_silent; [repeat split|reflexivity]. Qed.

Lemma step_TR0 : forall n e n' outs, step n e = Ok (n', outs) -> TR Qtrue n outs n'.
Proof.
  intros n e n' outs H. destruct e; simpl in H.
  - (* LocalTick *)
    destruct (aget (n_me n) (n_insts n)) as [s|]; [|discriminate].
    match type of H with context [set_inst_state ?x _ _ _] => set (n1 := x) in * end.
    assert (F1 : FR n [] n1) by apply set_insts_FR.
    match type of H with match ?u with _ => _ end = _ => destruct u as [[n2 o2]|k] eqn:E2; [|discriminate] end.
    assert (F2 : FR n1 o2 n2).
    { destruct (istate_eqb (is_state s) ISTOPPED).
      - destruct (set_inst_state n1 (n_me n) CHECKING now) as [[n2' o2']|k] eqn:E; [|discriminate].
        simpl in E2. inversion E2; subst. apply set_inst_state_FR in E.
        eapply FR_trans; [exact E|apply FR_plain; reflexivity].
      - inversion E2; subst. apply FR_refl. }
    destruct (on_timer n2 cnt now) as [[n3 o3]|k] eqn:E3; [|discriminate]. apply on_timer_FR in E3.
    match type of H with (let '(_, _) := ?u in _) = _ => destruct u as [n4 o4] eqn:E4 end.
    assert (F4 : FR n3 o4 n4).
    { destruct (n_mark n3); inversion E4; subst.
      - apply (FR_nil_r n3 n3); [apply FR_publish|apply FR_silent; [repeat split|reflexivity]].
      - apply FR_refl. }
    destruct (fsm_run n4 orcs now) as [[n5 o5]|k] eqn:E5; [|discriminate]. simpl in H. inversion H; subst.
    apply fsm_run_TR0 in E5.
    apply (TR_nil_l Qtrue n n1); [apply FR_TR; exact F1|].
    eapply TR_trans; [apply FR_TR; exact F2|].
    eapply TR_trans; [apply FR_TR; exact E3|].
    eapply TR_trans; [apply FR_TR; exact F4|exact E5].
  - (* PeerTick *)
    apply FR_TR.
    destruct (resolve n og) as [j|]; [|inversion H; subst; apply FR_refl].
    destruct (local_checked_or_running n); [|inversion H; subst; apply FR_refl].
    destruct (aget j (n_insts n)) as [s|]; [|discriminate].
    destruct (istate_eqb (is_state s) ISTOPPED).
    + match type of H with context [set_inst_state ?x _ _ _] => set (n1 := x) in * end.
      destruct (set_inst_state n1 j CHECKING now) as [[n2 o2]|k] eqn:E; [|discriminate].
      simpl in H. inversion H; subst. apply set_inst_state_FR in E.
      apply (FR_nil_l n n1); [apply set_insts_FR|].
      eapply FR_trans; [exact E|apply FR_plain; reflexivity].
    + inversion H; subst. apply set_insts_FR.
  - (* PeerState *)
    destruct (resolve n og) as [j|]; [|inversion H; subst; apply TR_refl].
    match type of H with context [fsm_run ?x _ _] => set (n1 := x) in * end.
    assert (F1 : FR n [] n1).
    { unfold n1. destruct (Z.eqb j (n_me n)) eqn:E; [apply FR_refl|].
      apply FR_silent; [repeat split|]. apply own_set_views_other. apply Z.eqb_neq in E. exact E. }
    destruct (Z.eqb j (master n1)).
    + apply fsm_run_TR0 in H. apply (TR_nil_l Qtrue n n1); [apply FR_TR; exact F1|exact H].
    + inversion H; subst. apply FR_TR. exact F1.
  - (* Ident *) inversion H; subst. apply TR_refl.
  - (* Auth *)
    apply FR_TR.
    destruct (resolve n og) as [j|]; [|inversion H; subst; apply FR_refl].
    destruct (aget j (n_insts n)) as [s|]; [|discriminate].
    destruct (is_checking s ts); [|inversion H; subst; apply FR_refl].
    destruct a.
    + eapply set_inst_state_FR; exact H.
    + eapply set_inst_state_FR; exact H.
    + eapply invalidate_FR; exact H.
    + eapply invalidate_FR; exact H.
  - (* AllInfo *)
    apply FR_TR.
    destruct (resolve n og) as [j|]; [|inversion H; subst; apply FR_refl].
    destruct info as [b|]; [|eapply set_inst_state_FR; exact H].
    destruct (inst_state n j) as [[]|]; inversion H; subst; try apply FR_refl.
    destruct b; [|apply FR_refl]. apply FR_silent; [repeat split|reflexivity].
  - (* InstFailure *)
    apply FR_TR.
    destruct (resolve n og) as [j|]; [|inversion H; subst; apply FR_refl].
    destruct (inst_state n j) as [s|]; [|inversion H; subst; apply FR_refl].
    destruct (has_active_state s); [|inversion H; subst; apply FR_refl].
    eapply set_inst_state_FR; exact H.
  - (* ProcCrash *)
    destruct (is_master n) eqn:M; [|inversion H; subst; apply TR_refl].
    destruct strat; try (inversion H; subst; apply TR_refl).
    + inversion H; subst. apply FR_TR. apply FR_by_master; [exact M|destruct forced; reflexivity].
    + inversion H; subst. apply FR_TR. apply FR_by_master; [exact M|destruct forced; reflexivity].
    + eapply on_ending_TR0; [right; reflexivity|exact H].
    + eapply on_ending_TR0; [left; reflexivity|exact H].
  - (* ReqRestart *) eapply on_ending_TR0; [left; reflexivity|exact H].
  - (* ReqShutdown *) eapply on_ending_TR0; [right; reflexivity|exact H].
  - (* ReqEndSync *)
    match type of H with match ?u with _ => _ end = _ => destruct u as [[n1 o1]|k] eqn:E1; [|discriminate] end.
    assert (F1 : FR n o1 n1).
    { destruct (Z.eqb m 0).
      - eapply select_master_FR; exact E1.
      - inversion E1 as [E]. eapply set_master_FR; exact E. }
    destruct (fsm_run n1 orcs now) as [[n2 o2]|k] eqn:E2; [|discriminate]. simpl in H. inversion H; subst.
    apply fsm_run_TR0 in E2. eapply TR_trans; [apply FR_TR; exact F1|exact E2].
Qed.

(* ====================================================================== *)
(* from traces to the executable checkers of NodeSpec                      *)
(* ====================================================================== *)
Lemma tr_mono : forall (Q Q' : sstate -> Z -> list (Z * Z) -> Prop), (forall t pm pi, Q t pm pi -> Q' t pm pi) ->
  forall me outs s m s' m', tr Q me s m outs s' m' -> tr Q' me s m outs s' m'.
Proof.
  intros Q Q' HQ me outs. induction outs as [|o r IH]; simpl; intros s m s' m' H; [exact H|].
  destruct o; try (destruct H as [Ha Hb]; split; [exact Ha|apply IH; exact Hb]).
  destruct H as [t [Ef [Ht Hr]]]. exists t. split; [exact Ef|]. split; [|apply IH; exact Hr].
  destruct Ht as [Ht|[Ht HQt]]; [left; exact Ht|right; split; [exact Ht|apply HQ; exact HQt]].
Qed.

Lemma TR_mono : forall (Q Q' : sstate -> Z -> list (Z * Z) -> Prop), (forall t pm pi, Q t pm pi -> Q' t pm pi) ->
  forall n outs n', TR Q n outs n' -> TR Q' n outs n'.
Proof. intros Q Q' HQ n outs n' [K T]. split; [exact K|]. eapply tr_mono; eassumption. Qed.

(* the condition c02_chain puts on a publication that changes the state *)
Definition Qok (cm ex : bool) (t : sstate) (pm : Z) (pi : list (Z * Z)) : Prop :=
  (negb cm || negb (needs_master (scode t)) || (ex && Z.eqb (scode t) 7)
   || (negb (Z.eqb pm 0) && sees_running_in pm pi)) = true.

Definition chain_of (outs : list output) (last : Z * Z * list (Z * Z)) : list (Z * Z * list (Z * Z)) :=
  fold_right (fun out acc => match out with Publish f _ m i => (f, m, i) :: acc | _ => acc end) [last] outs.

Lemma pub_chain_observe : forall n outs,
  pub_chain (observe n outs) = chain_of outs (scode (fsm_state n), master n, pub_insts n).
Proof. reflexivity. Qed.

Lemma tr_c02_chain : forall cm ex me outs s m s' m' fi,
  tr (Qok cm ex) me s m outs s' m' -> c02_chain (scode s) (chain_of outs (scode s', m', fi)) cm ex = true.
Proof.
  intros cm ex me outs. induction outs as [|o r IH]; simpl; intros s m s' m' fi H.
  - destruct H; subst. rewrite Z.eqb_refl. reflexivity.
  - destruct o; try (destruct H as [_ H]; eapply IH; exact H).
    destruct H as [t [Ef [Ht Hr]]]. subst fsm. simpl. rewrite (IH _ _ _ _ fi Hr), andb_true_r.
    destruct Ht as [Ht|[Ht HQ]].
    + subst. rewrite Z.eqb_refl. reflexivity.
    + apply table_within_documented in Ht. rewrite Ht. unfold Qok in HQ. rewrite HQ. apply orb_true_r.
Qed.

Lemma tr_c01_tokens : forall Q me outs s m s' m', tr Q me s m outs s' m' -> c01_tokens me m outs = true.
Proof.
  intros Q me outs. induction outs as [|o r IH]; simpl; intros s m s' m' H; [reflexivity|].
  destruct o; try (destruct H as [Ha Hb]; simpl in Ha; rewrite (IH _ _ _ _ Hb);
                   first [reflexivity | rewrite (Ha eq_refl), Z.eqb_refl; reflexivity]).
  destruct H as [t [_ [_ Hr]]]. eapply IH. exact Hr.
Qed.

(* B1 *)
Theorem step_fsm_chain : forall n e n' outs, step n e = Ok (n', outs) ->
  c02_chain (scode (fsm_state n)) (pub_chain (observe n' outs)) false false = true.
Proof.
  intros n e n' outs H. apply step_TR0 in H. destruct H as [_ T].
  rewrite pub_chain_observe. eapply tr_c02_chain.
  eapply tr_mono; [|exact T]. intros. reflexivity.
Qed.

(* C1 *)
Theorem master_only_tokens : forall n e n' outs, step n e = Ok (n', outs) ->
  c01_tokens (n_me n) (master n) outs = true.
Proof. intros n e n' outs H. apply step_TR0 in H. destruct H as [_ T]. eapply tr_c01_tokens. exact T. Qed.

(* B3 *)
Theorem final_terminal : forall n e n' outs, fsm_state n = FINAL -> step n e = Ok (n', outs) -> fsm_state n' = FINAL.
Proof.
  intros n e n' outs Hf H. apply step_TR0 in H. destruct H as [_ T].
  apply (tr_closed (fun s => s = FINAL)) in T; [exact T| |exact Hf].
  intros a b Ha Hab. subst. rewrite final_terminal_table in Hab. discriminate.
Qed.

Theorem ending_only_final : forall n e n' outs, (fsm_state n = RESTARTING \/ fsm_state n = SHUTTING_DOWN) ->
  step n e = Ok (n', outs) -> fsm_state n' = fsm_state n \/ fsm_state n' = FINAL.
Proof.
  intros n e n' outs Hf H. apply step_TR0 in H. destruct H as [_ T].
  apply (tr_closed (fun s => s = fsm_state n \/ s = FINAL)) in T; [exact T| |left; reflexivity].
  intros a b [Ha|Ha] Hab; subst.
  - right. eapply ending_only_final_table; eassumption.
  - rewrite final_terminal_table in Hab. discriminate.
Qed.

(* ---------- walking a history ---------- *)
(* what nspec_walk checks at one successful step (defined through nspec_walk itself) *)
Definition step_checks (fl : nspec_flags) (n0 : node) (prev_fsm prev_master : Z) (prev_ist : list (Z * Z * Z * Z * Z))
                       (e : event) (o : nobs) : bool :=
  nspec_walk fl n0 prev_fsm prev_master prev_ist [e] [NOk o].

Lemma nspec_walk_cons : forall fl n0 pf pm pi e r o ro,
  nspec_walk fl n0 pf pm pi (e :: r) (NOk o :: ro)
  = step_checks fl n0 pf pm pi e o && nspec_walk fl n0 (obs_fsm o) (obs_master o) (obs_ist o) r ro.
Proof. intros. unfold step_checks. simpl. rewrite andb_true_r. reflexivity. Qed.

(* a history all of whose events satisfy Ev in the state where they are received *)
Fixpoint hist_ok (Ev : node -> event -> Prop) (n : node) (evs : list event) : Prop :=
  match evs with
  | [] => True
  | e :: r => Ev n e /\ match step n e with Ok (n', _) => hist_ok Ev n' r | Crash _ => True end
  end.

Lemma nspec_walk_run : forall fl n0 (Inv : node -> Prop) (Ev : node -> event -> Prop),
  (forall n e n' outs, Inv n -> Ev n e -> step n e = Ok (n', outs) ->
     Inv n' /\ step_checks fl n0 (scode (fsm_state n)) (master n) (init_ist n) e (observe n' outs) = true) ->
  (forall n e k, Inv n -> Ev n e -> step n e = Crash k ->
     (negb (f_c16 fl) || c16_crash_excused e (scode (fsm_state n)) (init_ist n)) = true) ->
  forall evs n, Inv n -> hist_ok Ev n evs ->
    nspec_walk fl n0 (scode (fsm_state n)) (master n) (init_ist n) evs (run n evs) = true.
Proof.
  intros fl n0 Inv Ev Hok Hcrash evs. induction evs as [|e r IH]; intros n HI Hh; [reflexivity|].
  simpl in Hh. destruct Hh as [He Hr]. simpl run.
  destruct (step n e) as [[n' outs]|k] eqn:E.
  - destruct (Hok _ _ _ _ HI He E) as [HI' Hc].
    rewrite nspec_walk_cons, Hc. simpl. apply IH; assumption.
  - simpl. eapply Hcrash; eassumption.
Qed.

Definition Evtrue : node -> event -> Prop := fun _ _ => True.
Lemma hist_ok_true : forall evs n, hist_ok Evtrue n evs.
Proof.
  induction evs as [|e r IH]; intros n; simpl; [exact I|]. split; [exact I|].
  destruct (step n e) as [[n' o]|k]; [apply IH|exact I].
Qed.

(* B2 *)
Theorem run_fsm_graph : forall n evs,
  nspec_ok (mkFlags true false false false false false false false) (n, evs, run n evs) = true.
Proof.
  intros n evs. unfold nspec_ok.
  apply (nspec_walk_run _ n Itrue Evtrue); [| |exact I|apply hist_ok_true].
  - intros n1 e n' outs _ _ H. split; [exact I|].
    unfold step_checks. simpl. rewrite (step_fsm_chain _ _ _ _ H). reflexivity.
  - intros. reflexivity.
Qed.

(* C1, along every history *)
Theorem run_master_only : forall n evs, nspec_ok fl_c01 (n, evs, run n evs) = true.
Proof.
  intros n evs. unfold nspec_ok.
  apply (nspec_walk_run _ n (fun x => n_me x = n_me n) Evtrue); [| |reflexivity|apply hist_ok_true].
  - intros n1 e n' outs Hme _ H. split.
    + apply step_TR0 in H. destruct H as [[K _] _]. congruence.
    + unfold step_checks. simpl. rewrite <- Hme, (master_only_tokens _ _ _ _ H). reflexivity.
  - intros. reflexivity.
Qed.

(* ====================================================================== *)
(* C2. the Master selection rule                                           *)
(* ====================================================================== *)
Definition sel_declared (n : node) (ms : list Z) : list Z := filter (fun m => amem m (n_insts n)) ms.
Definition sel_running (n : node) : list Z :=
  map fst (filter (fun kv => istate_eqb (snd kv) IRUNNING) (sm_insts (own n))).
(* the Masters still recognised (declared by an instance seen RUNNING, and known), else all running instances *)
Definition sel_pool (n : node) (ms : list Z) : list Z :=
  match sel_declared n ms with [] => sel_running n | _ => sel_declared n ms end.
(* its core_identifiers members if any *)
Definition sel_cands (n : node) (ms : list Z) : list Z :=
  match filter (fun c => zmem c (sel_pool n ms)) (n_core n) with
  | [] => sel_pool n ms
  | _ => filter (fun c => zmem c (sel_pool n ms)) (n_core n)
  end.
Definition is_min_nick (n : node) (cands : list Z) (M : Z) : Prop :=
  In M cands /\ exists rk, nick_rank n M = Ok rk /\
    forall c, In c cands -> exists rc, nick_rank n c = Ok rc /\ rk <= rc.

Lemma min_nick_some : forall n cands b brk res, min_nick n cands (Some (b, brk)) = Ok res ->
  exists M rk, res = Some (M, rk) /\ ((M = b /\ rk = brk) \/ (In M cands /\ nick_rank n M = Ok rk)) /\ rk <= brk
    /\ forall c, In c cands -> exists rc, nick_rank n c = Ok rc /\ rk <= rc.
Proof.
  intros n cands. induction cands as [|c r IH]; simpl; intros b brk res H.
  - inversion H; subst. exists b, brk. split; [reflexivity|]. split; [left; split; reflexivity|].
    split; [lia|]. intros c [].
  - destruct (nick_rank n c) as [rk|k] eqn:Ec; [|discriminate].
    destruct (Z.ltb rk brk) eqn:El.
    + apply Z.ltb_lt in El. apply IH in H. destruct H as [M [rm [Er [Hm [Hle Hall]]]]].
      exists M, rm. split; [exact Er|]. split.
      * destruct Hm as [[Hm1 Hm2]|[Hm1 Hm2]]; right; [subst; split; [left; reflexivity|exact Ec]|].
        split; [right; exact Hm1|exact Hm2].
      * split; [lia|]. intros c' [Hc|Hc]; [subst; exists rk; split; [exact Ec|lia]|apply Hall; exact Hc].
    + apply Z.ltb_ge in El. apply IH in H. destruct H as [M [rm [Er [Hm [Hle Hall]]]]].
      exists M, rm. split; [exact Er|]. split.
      * destruct Hm as [Hm|[Hm1 Hm2]]; [left; exact Hm|right; split; [right; exact Hm1|exact Hm2]].
      * split; [lia|]. intros c' [Hc|Hc]; [subst; exists rk; split; [exact Ec|lia]|apply Hall; exact Hc].
Qed.

Lemma min_nick_none : forall n cands res, min_nick n cands None = Ok res ->
  (cands = [] /\ res = None) \/ exists M rk, res = Some (M, rk) /\ is_min_nick n cands M.
Proof.
  intros n cands res H. destruct cands as [|c r]; simpl in H.
  - inversion H; subst. left. split; reflexivity.
  - right. destruct (nick_rank n c) as [rk|k] eqn:Ec; [|discriminate].
    apply min_nick_some in H. destruct H as [M [rm [Er [Hm [Hle Hall]]]]].
    exists M, rm. split; [exact Er|]. split.
    + destruct Hm as [[Hm _]|[Hm _]]; [left; symmetry; exact Hm|right; exact Hm].
    + exists rm. split.
      * destruct Hm as [[Hm1 Hm2]|[_ Hm]]; [subst; exact Ec|exact Hm].
      * intros c' [Hc|Hc]; [subst; exists rk; split; [exact Ec|lia]|apply Hall; exact Hc].
Qed.

Lemma master_set_master : forall n m, master (fst (set_master n m)) = m.
Proof.
  intros n m. unfold set_master. destruct (Z.eqb (master n) m) eqn:E; simpl.
  - apply Z.eqb_eq in E. exact E.
  - unfold master. rewrite own_set_own. reflexivity.
Qed.

Lemma sel_cands_pool : forall n ms c, In c (sel_cands n ms) -> In c (sel_pool n ms).
Proof.
  intros n ms c H. unfold sel_cands in H.
  assert (X : forall c, In c (filter (fun c => zmem c (sel_pool n ms)) (n_core n)) -> In c (sel_pool n ms)).
  { intros c' Hc. apply filter_In in Hc. destruct Hc as [_ Hc]. apply zmem_In. exact Hc. }
  destruct (filter (fun c => zmem c (sel_pool n ms)) (n_core n)) as [|x r]; [exact H|]. apply X. exact H.
Qed.

Lemma select_master_unfold : forall n ms, master_identifiers n = Ok ms ->
  select_master n = bind (min_nick n (sel_cands n ms) None)
                         (fun best => match best with None => Crash ValueError | Some (m, _) => Ok (set_master n m) end).
Proof. intros n ms H. unfold select_master. rewrite H. reflexivity. Qed.

Theorem select_master_rule : forall n ms n' o, master_identifiers n = Ok ms -> select_master n = Ok (n', o) ->
  exists M, is_min_nick n (sel_cands n ms) M /\ In M (sel_pool n ms) /\ set_master n M = (n', o) /\ master n' = M.
Proof.
  intros n ms n' o Hms H. rewrite (select_master_unfold n ms Hms) in H.
  destruct (min_nick n (sel_cands n ms) None) as [best|k] eqn:E; [|discriminate]. simpl in H.
  apply min_nick_none in E. destruct E as [[_ E]|[M [rk [E Hmin]]]]; subst best; [discriminate|].
  inversion H as [H1]. exists M. split; [exact Hmin|]. split; [apply sel_cands_pool; apply Hmin|].
  split; [reflexivity|]. rewrite <- (master_set_master n M). rewrite H1. reflexivity.
Qed.

(* "A running Master that is the only one recognised is kept" *)
Theorem master_kept : forall n ms M n' o, master_identifiers n = Ok ms -> sel_declared n ms = [M] ->
  select_master n = Ok (n', o) -> master n' = M.
Proof.
  intros n ms M n' o Hms HD H. destruct (select_master_rule _ _ _ _ Hms H) as [M' [_ [Hp [_ Hm]]]].
  unfold sel_pool in Hp. rewrite HD in Hp. destruct Hp as [Hp|[]]. congruence.
Qed.

(* ---------- check_master ---------- *)
Definition masters_of (rv : list (Z * smodes)) (acc : list Z) : list Z :=
  fold_left (fun acc js => zadd (sm_master (snd js)) acc) rv acc.

Lemma zadd_In : forall x k l, In x (zadd k l) <-> In x l \/ x = k.
Proof.
  intros x k l. unfold zadd. destruct (zmem k l) eqn:E.
  - split; [intro H; left; exact H|]. intros [H|H]; [exact H|]. subst. apply zmem_In. exact E.
  - rewrite in_app_iff. simpl. intuition.
Qed.

Lemma masters_of_In : forall rv acc x,
  In x (masters_of rv acc) <-> In x acc \/ exists js, In js rv /\ sm_master (snd js) = x.
Proof.
  induction rv as [|js r IH]; simpl; intros acc x.
  - split; [intro H; left; exact H|]. intros [H|[js [[] _]]]. exact H.
  - unfold masters_of in IH. rewrite IH, zadd_In. split.
    + intros [[H|H]|[js' [H1 H2]]]; [left; exact H|right; exists js; split; [left; reflexivity|symmetry; exact H]|].
      right. exists js'. split; [right; exact H1|exact H2].
    + intros [H|[js' [[H1|H1] H2]]]; [left; left; exact H|subst; left; right; reflexivity|].
      right. exists js'. split; assumption.
Qed.

Lemma zadd_length : forall k l, (length l <= length (zadd k l))%nat.
Proof. intros. unfold zadd. destruct (zmem k l); [lia|]. rewrite app_length. simpl. lia. Qed.

Lemma masters_of_length : forall rv acc, (length acc <= length (masters_of rv acc))%nat.
Proof.
  induction rv as [|js r IH]; simpl; intros acc; [lia|].
  eapply Nat.le_trans; [apply zadd_length|apply IH].
Qed.

Lemma masters_of_same : forall M rv acc, (forall js, In js rv -> sm_master (snd js) = M) ->
  (acc = [] \/ acc = [M]) -> masters_of rv acc = [] \/ masters_of rv acc = [M].
Proof.
  intros M. induction rv as [|js r IH]; simpl; intros acc Hall Hacc; [exact Hacc|].
  apply IH; [intros js' H; apply Hall; right; exact H|].
  right. rewrite (Hall js (or_introl eq_refl)). destruct Hacc as [Hacc|Hacc]; subst acc; [reflexivity|].
  unfold zadd. simpl. rewrite Z.eqb_refl. reflexivity.
Qed.

(* check_master holds exactly when the instances seen RUNNING all declare one and the same non-empty Master
   (or none is seen RUNNING) *)
Theorem check_master_iff : forall n, check_master n = Ok true <->
  exists rv, running_views n (n_views n) = Ok rv /\
    (rv = [] \/ exists M, M <> 0 /\ forall js, In js rv -> sm_master (snd js) = M).
Proof.
  intros n. unfold check_master, master_identifiers.
  destruct (running_views n (n_views n)) as [rv|k]; simpl.
  - fold (masters_of rv []). split.
    + intros H. inversion H as [H1]. clear H. exists rv. split; [reflexivity|].
      apply andb_prop in H1. destruct H1 as [H0 Hlen].
      destruct rv as [|js r]; [left; reflexivity|right].
      exists (sm_master (snd js)). split.
      * intros E. apply negb_true_iff in H0.
        assert (X : zmem 0 (masters_of (js :: r) []) = true).
        { apply zmem_In. apply masters_of_In. right. exists js. split; [left; reflexivity|exact E]. }
        congruence.
      * intros js' Hjs'.
        assert (X1 : In (sm_master (snd js)) (masters_of (js :: r) [])).
        { apply masters_of_In. right. exists js. split; [left; reflexivity|reflexivity]. }
        assert (X2 : In (sm_master (snd js')) (masters_of (js :: r) [])).
        { apply masters_of_In. right. exists js'. split; [exact Hjs'|reflexivity]. }
        apply negb_true_iff in Hlen. apply Nat.ltb_ge in Hlen.
        destruct (masters_of (js :: r) []) as [|a [|b t]]; simpl in *; [contradiction| |lia].
        destruct X1 as [X1|[]]. destruct X2 as [X2|[]]. congruence.
    + intros [rv' [E Hrv]]. inversion E; subst rv'. clear E. f_equal.
      destruct Hrv as [Hrv|[M [HM Hall]]]; [subst; reflexivity|].
      destruct (masters_of_same M rv [] Hall (or_introl eq_refl)) as [E|E]; rewrite E; [reflexivity|].
      destruct M; [congruence|reflexivity|reflexivity].
  - split; [discriminate|]. intros [rv [E _]]. discriminate.
Qed.

(* ====================================================================== *)
(* E. C16: no internal error                                               *)
(* ====================================================================== *)
(* the local view of the instance states mirrors context.instances *)
Definition inst_sync (n : node) : Prop :=
  forall j, aget j (sm_insts (own n)) = option_map is_state (aget j (n_insts n)).

(* well-formed node: the local instance is known; instance_states mirrors the instance statuses (same keys,
   same states); instance_state_modes has the same keys; every known instance has a nick identifier.
   (Duplicate keys are harmless for the model: lookups take the first entry.) *)
Definition WF (n : node) : Prop :=
  amem (n_me n) (n_insts n) = true /\ inst_sync n /\
  (forall j, amem j (n_views n) = amem j (n_insts n)) /\
  (forall j, amem j (n_insts n) = true -> amem j (n_nick n) = true).

Definition okW {A} (r : result A) (P : A -> Prop) : Prop := match r with Ok a => P a | Crash _ => False end.
Definition okF {A} (r : result A) (P : A -> Prop) : Prop := match r with Ok a => P a | Crash k => k = OutOfFuel end.

Lemma okW_okF : forall A (r : result A) P, okW r P -> okF r P.
Proof. intros A [a|k] P H; simpl in *; [exact H|contradiction]. Qed.

Lemma okW_impl : forall A (r : result A) (P P' : A -> Prop), (forall a, P a -> P' a) -> okW r P -> okW r P'.
Proof. intros A [a|k] P P' HP H; simpl in *; [apply HP; exact H|exact H]. Qed.

Lemma WF_fields : forall n n', WF n -> n_me n' = n_me n -> n_nick n' = n_nick n ->
  (forall k, amem k (n_insts n') = amem k (n_insts n)) ->
  (forall k, amem k (n_views n') = amem k (n_views n)) -> inst_sync n' -> WF n'.
Proof.
  intros n n' [W1 [W2 [W3 W4]]] Eme Enick Ei Ev Hs. repeat split.
  - rewrite Eme, Ei. exact W1.
  - exact Hs.
  - intros j. rewrite Ev, Ei. apply W3.
  - intros j Hj. rewrite Enick. apply W4. rewrite <- Ei. exact Hj.
Qed.

Lemma WF_me_views : forall n, WF n -> amem (n_me n) (n_views n) = true.
Proof. intros n [W1 [_ [W3 _]]]. rewrite W3. exact W1. Qed.

Lemma amem_aset_same {V} : forall k j (v : V) l, amem j l = true -> amem k (aset j v l) = amem k l.
Proof.
  intros k j v l H. rewrite amem_aset. destruct (Z.eqb k j) eqn:E; [|reflexivity].
  apply Z.eqb_eq in E. subst. simpl. symmetry. exact H.
Qed.

(* replacing the own state-modes while keeping the instance states *)
Lemma WF_set_own : forall n s, WF n -> sm_insts s = sm_insts (own n) -> WF (set_own n s).
Proof.
  intros n s W E. apply (WF_fields n); try reflexivity; [exact W| |].
  - intros k. simpl. apply amem_aset_same. apply WF_me_views. exact W.
  - intros j. rewrite own_set_own, E. destruct W as [_ [W2 _]]. apply W2.
Qed.

(* changes that touch none of the fields WF speaks about *)
Lemma WF_same : forall n n', WF n -> n_me n' = n_me n -> n_nick n' = n_nick n -> n_insts n' = n_insts n ->
  n_views n' = n_views n -> WF n'.
Proof.
  intros n n' W Eme Enick Ei Ev. apply (WF_fields n); try assumption.
  - intros k. rewrite Ei. reflexivity.
  - intros k. rewrite Ev. reflexivity.
  - intros j. unfold own. rewrite Eme, Ev, Ei. destruct W as [_ [W2 _]]. apply W2.
Qed.

Lemma set_master_WF : forall n m, WF n -> WF (fst (set_master n m)).
Proof.
  intros n m W. unfold set_master. destruct (Z.eqb (master n) m); simpl; [exact W|].
  apply WF_set_own; [exact W|reflexivity].
Qed.

Lemma set_degraded_WF : forall n b, WF n -> WF (fst (set_degraded n b)).
Proof.
  intros n b W. unfold set_degraded. destruct (Bool.eqb (sm_degraded (own n)) b); simpl; [exact W|].
  apply WF_set_own; [exact W|reflexivity].
Qed.

Lemma set_fsm_WF : forall n s, WF n -> WF (fst (set_fsm n s)).
Proof.
  intros n s W. unfold set_fsm. destruct (sstate_eqb (fsm_state n) s); simpl; [exact W|].
  apply WF_set_own; [exact W|reflexivity].
Qed.

(* fields after update_instance_state *)
Lemma update_instance_state_fields : forall n j st n' o, update_instance_state n j st = (n', o) ->
  n_me n' = n_me n /\ n_nick n' = n_nick n /\ n_insts n' = n_insts n /\ n_hosting n' = n_hosting n /\
  sm_insts (own n') = aset j st (sm_insts (own n)) /\
  (forall k, amem k (n_views n') = Z.eqb k (n_me n) || amem k (n_views n)).
Proof.
  intros n j st n' o H. unfold update_instance_state in H.
  set (s := own n) in *.
  set (n1 := set_own n (mkSm (sm_fsm s) (sm_degraded s) (sm_master s) (aset j st (sm_insts s)))) in *.
  match type of H with (if _ then set_master ?x 0 else _) = _ => set (n2 := x) in * end.
  assert (F : n_me n2 = n_me n /\ n_nick n2 = n_nick n /\ n_insts n2 = n_insts n /\ n_hosting n2 = n_hosting n /\
              sm_insts (own n2) = aset j st (sm_insts (own n)) /\
              (forall k, amem k (n_views n2) = Z.eqb k (n_me n) || amem k (n_views n))).
  { assert (F1 : n_me n1 = n_me n /\ n_nick n1 = n_nick n /\ n_insts n1 = n_insts n /\ n_hosting n1 = n_hosting n /\
              sm_insts (own n1) = aset j st (sm_insts (own n)) /\
              (forall k, amem k (n_views n1) = Z.eqb k (n_me n) || amem k (n_views n))).
    { repeat split. - unfold n1. rewrite own_set_own. reflexivity. - intros k. simpl. apply amem_aset. }
    assert (F2 : Z.eqb j (n_me n) = false -> amem j (n_views n1) = true ->
                 let x := set_views n1 (aset j sm_fresh (n_views n1)) in
                 n_me x = n_me n /\ n_nick x = n_nick n /\ n_insts x = n_insts n /\ n_hosting x = n_hosting n /\
                 sm_insts (own x) = aset j st (sm_insts (own n)) /\
                 (forall k, amem k (n_views x) = Z.eqb k (n_me n) || amem k (n_views n))).
    { intros E Hm x. destruct F1 as [A1 [A2 [A3 [A4 [A5 A6]]]]]. repeat split; try assumption.
      - unfold x. rewrite own_set_views_other; [exact A5|]. apply Z.eqb_neq in E. exact E.
      - intros k. unfold x. simpl n_views at 1. rewrite amem_aset_same; [apply A6|exact Hm]. }
    unfold n2. destruct st; try exact F1.
    - destruct (Z.eqb j (n_me n)) eqn:E; [exact F1|].
      destruct (amem j (n_views n1)) eqn:Em; [|exact F1]. apply F2; reflexivity.
    - destruct (Z.eqb j (n_me n)) eqn:E; [exact F1|].
      destruct (amem j (n_views n1)) eqn:Em; [|exact F1]. apply F2; reflexivity. }
  clearbody n2. destruct F as [A1 [A2 [A3 [A4 [A5 A6]]]]].
  destruct (negb (istate_eqb st IRUNNING) && Z.eqb j (master n2)).
  - unfold set_master in H. destruct (Z.eqb (master n2) 0).
    + inversion H; subst. repeat split; assumption.
    + inversion H; subst. clear H. repeat split; try assumption.
      * rewrite own_set_own. simpl. exact A5.
      * intros k. simpl. rewrite amem_aset, A6, A1. destruct (Z.eqb k (n_me n)); reflexivity.
  - inversion H; subst. repeat split; assumption.
Qed.

Lemma set_inst_state_WF : forall n j st now n' o, set_inst_state n j st now = Ok (n', o) -> WF n -> WF n'.
Proof.
  intros n j st now n' o H W. unfold set_inst_state in H.
  destruct (aget j (n_insts n)) as [s|] eqn:Ej; [|discriminate].
  destruct (istate_eqb (is_state s) st); [inversion H; subst; exact W|].
  destruct (inst_transition_ok (is_state s) st); [|discriminate].
  inversion H as [H1]. clear H. apply update_instance_state_fields in H1.
  destruct H1 as [A1 [A2 [A3 [A4 [A5 A6]]]]]. simpl in *.
  assert (Hj : amem j (n_insts n) = true) by (unfold amem; rewrite Ej; reflexivity).
  apply (WF_fields n); try assumption.
  - intros k. rewrite A3. apply amem_aset_same. exact Hj.
  - intros k. rewrite A6. destruct (Z.eqb k (n_me n)) eqn:E; [|reflexivity].
    apply Z.eqb_eq in E. subst. simpl. symmetry. apply WF_me_views. exact W.
  - intros k. rewrite A5, A3, !aget_aset. destruct (Z.eqb k j); [reflexivity|].
    destruct W as [_ [W2 _]]. apply W2.
Qed.

(* set_inst_state does not raise when the instance is known and the reflected table allows the change *)
Lemma set_inst_state_okW : forall n j st now s, WF n -> aget j (n_insts n) = Some s ->
  (istate_eqb (is_state s) st = true \/ inst_transition_ok (is_state s) st = true) ->
  okW (set_inst_state n j st now) (fun r => WF (fst r)).
Proof.
  intros n j st now s W Ej Hok.
  destruct (set_inst_state n j st now) as [[n' o]|k] eqn:E; simpl.
  - eapply set_inst_state_WF; eassumption.
  - unfold set_inst_state in E. rewrite Ej in E.
    destruct (istate_eqb (is_state s) st); [discriminate|].
    destruct Hok as [Hok|Hok]; [discriminate|]. rewrite Hok in E. discriminate.
Qed.

Lemma fold_ids_okW : forall f, (forall n j, WF n -> okW (f n j) (fun r => WF (fst r))) ->
  forall ids n acc, WF n -> okW (fold_ids f ids n acc) (fun r => WF (fst r)).
Proof.
  intros f Hf ids. induction ids as [|j r IH]; simpl; intros n acc W; [exact W|].
  specialize (Hf n j W). destruct (f n j) as [[n1 o1]|k]; simpl in Hf; [|contradiction].
  apply IH. exact Hf.
Qed.

Lemma on_timer_okW : forall n cnt now, WF n -> okW (on_timer n cnt now) (fun r => WF (fst r)).
Proof.
  intros n cnt now W. unfold on_timer. apply fold_ids_okW; [|exact W].
  clear. intros n j W. destruct (aget j (n_insts n)) as [s|] eqn:Ej; [|exact W].
  destruct (is_inactive n s cnt) eqn:Ei; [|exact W].
  eapply set_inst_state_okW; [exact W|exact Ej|].
  unfold is_inactive in Ei. apply andb_prop in Ei. destruct Ei as [Ei _].
  destruct (is_state s); try discriminate; vm_compute; auto.
Qed.

Lemma invalidate_okW : forall n j fence now s, WF n -> aget j (n_insts n) = Some s ->
  (is_state s = FAILED \/ is_state s = CHECKING) -> okW (invalidate n j fence now) (fun r => WF (fst r)).
Proof.
  intros n j fence now s W Ej Hs. unfold invalidate.
  assert (H0 : istate_eqb (is_state s) ISTOPPED = true \/ inst_transition_ok (is_state s) ISTOPPED = true)
    by (destruct Hs as [Hs|Hs]; rewrite Hs; vm_compute; auto).
  assert (H5 : istate_eqb (is_state s) ISOLATED = true \/ inst_transition_ok (is_state s) ISOLATED = true)
    by (destruct Hs as [Hs|Hs]; rewrite Hs; vm_compute; auto).
  destruct (Z.eqb j (n_me n)); [eapply set_inst_state_okW; eassumption|].
  destruct (fence || _); eapply set_inst_state_okW; eassumption.
Qed.

Lemma invalidate_failed_aux_okW : forall ids n acc lost lostp now, WF n ->
  okW (invalidate_failed_aux ids n acc lost lostp now) (fun r => WF (fst (fst (fst r)))).
Proof.
  induction ids as [|j r IH]; simpl; intros n acc lost lostp now W; [exact W|].
  unfold inst_state. destruct (aget j (n_insts n)) as [s|] eqn:Ej; [|apply IH; exact W].
  destruct (is_state s) eqn:Es; try (apply IH; exact W).
  assert (X := invalidate_okW n j false now s W Ej (or_introl Es)).
  destruct (invalidate n j false now) as [[n1 o1]|k]; simpl in X; [|contradiction].
  apply IH. eapply WF_same; [exact X| | | |]; reflexivity.
Qed.

Lemma activate_checked_aux_okW : forall ids n acc act now, WF n ->
  okW (activate_checked_aux ids n acc act now) (fun r => WF (fst (fst r))).
Proof.
  induction ids as [|j r IH]; simpl; intros n acc act now W; [exact W|].
  unfold inst_state. destruct (aget j (n_insts n)) as [s|] eqn:Ej; [|apply IH; exact W].
  destruct (is_state s) eqn:Es; try (apply IH; exact W).
  assert (X : okW (set_inst_state n j IRUNNING now) (fun r => WF (fst r))).
  { eapply set_inst_state_okW; [exact W|exact Ej|]. rewrite Es. vm_compute. auto. }
  destruct (set_inst_state n j IRUNNING now) as [[n1 o1]|k]; simpl in X; [|contradiction].
  apply IH. exact X.
Qed.

Lemma check_instances_okW : forall n now, WF n ->
  okW (check_instances n now) (fun r => WF (fst (fst (fst (fst r))))).
Proof.
  intros n now W. unfold check_instances, invalidate_failed.
  assert (X := invalidate_failed_aux_okW (akeys (n_insts n)) n [] [] false now W).
  destruct (invalidate_failed_aux _ _ _ _ _ _) as [[[[n1 o1] l1] lp1]|k]; simpl in X; [|contradiction].
  assert (Y := activate_checked_aux_okW (akeys (n_insts n1)) n1 [] [] now X). unfold activate_checked.
  destruct (act_of (fsm_state n)); try exact X;
    (destruct (activate_checked_aux _ _ _ _ _) as [[[n2 o2] act]|k]; simpl in Y; [exact Y|contradiction]).
Qed.

(* ---------- stability, Master identifiers ---------- *)
Lemma running_views_total : forall n l, (forall j, In j (akeys l) -> amem j (sm_insts (own n)) = true) ->
  exists rv, running_views n l = Ok rv.
Proof.
  intros n l. induction l as [|[j s] r IH]; simpl; intros H; [exists []; reflexivity|].
  assert (Hj := H j (or_introl eq_refl)). apply amem_aget in Hj. destruct Hj as [st Hj]. rewrite Hj.
  destruct IH as [rv Erv]; [intros k Hk; apply H; right; exact Hk|]. rewrite Erv. simpl. eexists. reflexivity.
Qed.

Lemma amem_sync : forall n j, inst_sync n -> amem j (sm_insts (own n)) = amem j (n_insts n).
Proof. intros n j H. unfold amem. rewrite H. destruct (aget j (n_insts n)); reflexivity. Qed.

Lemma running_views_WF : forall n, WF n -> exists rv, running_views n (n_views n) = Ok rv.
Proof.
  intros n [_ [W2 [W3 _]]]. apply running_views_total. intros j Hj.
  rewrite amem_sync; [|exact W2]. rewrite <- W3. apply In_keys_amem. exact Hj.
Qed.

Lemma evaluate_stability_okW : forall n, WF n -> okW (evaluate_stability n) WF.
Proof.
  intros n W. unfold evaluate_stability. destruct (running_views_WF n W) as [rv E]. rewrite E. simpl.
  destruct (map _ rv) as [|s0 t].
  - simpl. eapply WF_same; [exact W| | | |]; reflexivity.
  - match goal with |- okW (if ?c then _ else _) _ => destruct c end; simpl;
      (eapply WF_same; [exact W| | | |]; reflexivity).
Qed.

Lemma master_identifiers_WF : forall n, WF n -> exists ms, master_identifiers n = Ok ms.
Proof.
  intros n W. unfold master_identifiers. destruct (running_views_WF n W) as [rv E]. rewrite E. simpl.
  eexists. reflexivity.
Qed.

Lemma check_master_WF : forall n, WF n -> exists b, check_master n = Ok b.
Proof.
  intros n W. unfold check_master. destruct (master_identifiers_WF n W) as [ms E]. rewrite E. simpl.
  eexists. reflexivity.
Qed.

Lemma accept_master_okW : forall n pick, WF n -> okW (accept_master n pick) (fun r => WF (fst r)).
Proof.
  intros n pick W. unfold accept_master. destruct (master_identifiers_WF n W) as [ms E]. rewrite E. simpl.
  destruct (zdiscard 0 ms) as [|m [|m2 r]]; simpl; [exact W| |]; apply set_master_WF; exact W.
Qed.

Lemma min_nick_total : forall n cands, (forall c, In c cands -> exists r, nick_rank n c = Ok r) ->
  forall best, exists res, min_nick n cands best = Ok res /\ (res = None -> cands = [] /\ best = None).
Proof.
  intros n cands. induction cands as [|c r IH]; simpl; intros H best.
  - exists best. split; [reflexivity|]. intros E. split; [reflexivity|exact E].
  - destruct (H c (or_introl eq_refl)) as [rk Erk]. rewrite Erk.
    assert (H' : forall c0, In c0 r -> exists r0, nick_rank n c0 = Ok r0) by (intros c0 Hc0; apply H; right; exact Hc0).
    destruct best as [[b brk]|].
    + destruct (Z.ltb rk brk).
      * destruct (IH H' (Some (c, rk))) as [res [E Hn]]. exists res. split; [exact E|].
        intros En. apply Hn in En. destruct En; discriminate.
      * destruct (IH H' (Some (b, brk))) as [res [E Hn]]. exists res. split; [exact E|].
        intros En. apply Hn in En. destruct En; discriminate.
    + destruct (IH H' (Some (c, rk))) as [res [E Hn]]. exists res. split; [exact E|].
      intros En. apply Hn in En. destruct En; discriminate.
Qed.

Lemma sel_running_keys : forall n c, In c (sel_running n) -> In c (akeys (sm_insts (own n))).
Proof.
  intros n c H. unfold sel_running in H. apply in_map_iff in H. destruct H as [[k v] [E H]]. simpl in E. subst.
  apply filter_In in H. destruct H as [H _]. unfold akeys. apply in_map_iff. exists (c, v). split; [reflexivity|exact H].
Qed.

Lemma running_in_sel : forall (l : alist istate) j, aget j l = Some IRUNNING ->
  In j (map fst (filter (fun kv => istate_eqb (snd kv) IRUNNING) l)).
Proof.
  induction l as [|[k v] r IH]; simpl; intros j H; [discriminate|].
  destruct (Z.eqb j k) eqn:E.
  - apply Z.eqb_eq in E. inversion H; subst. simpl. left. reflexivity.
  - destruct (istate_eqb v IRUNNING); simpl; [right|]; apply IH; exact H.
Qed.

Lemma sel_pool_known : forall n ms c, WF n -> In c (sel_pool n ms) -> amem c (n_insts n) = true.
Proof.
  intros n ms c [_ [W2 _]] H. unfold sel_pool in H.
  assert (X : In c (sel_declared n ms) -> amem c (n_insts n) = true).
  { intros Hc. unfold sel_declared in Hc. apply filter_In in Hc. apply Hc. }
  destruct (sel_declared n ms) as [|d t]; [|apply X; exact H].
  apply sel_running_keys in H. apply In_keys_amem in H. rewrite amem_sync in H; assumption.
Qed.

(* select_master does not raise when some candidate exists *)
Lemma select_master_okW : forall n, WF n ->
  (forall ms, master_identifiers n = Ok ms -> sel_pool n ms <> []) ->
  okW (select_master n) (fun r => WF (fst r)).
Proof.
  intros n W Hpool. destruct (master_identifiers_WF n W) as [ms Ems].
  rewrite (select_master_unfold n ms Ems). specialize (Hpool ms Ems).
  assert (Hr : forall c, In c (sel_cands n ms) -> exists r, nick_rank n c = Ok r).
  { intros c Hc. apply sel_cands_pool in Hc. apply (sel_pool_known n ms c W) in Hc.
    destruct W as [_ [_ [_ W4]]]. apply W4 in Hc. apply amem_aget in Hc. destruct Hc as [r Hc].
    exists r. unfold nick_rank. rewrite Hc. reflexivity. }
  destruct (min_nick_total n (sel_cands n ms) Hr None) as [res [E Hn]]. rewrite E. simpl.
  destruct res as [[m rk]|].
  - simpl. apply set_master_WF. exact W.
  - destruct (Hn eq_refl) as [Hc _]. unfold sel_cands in Hc.
    destruct (filter (fun c => zmem c (sel_pool n ms)) (n_core n)); [contradiction|discriminate].
Qed.

Lemma local_running_pool : forall n ms, WF n -> local_running n = true -> sel_pool n ms <> [].
Proof.
  intros n ms [_ [W2 _]] H. unfold sel_pool. destruct (sel_declared n ms); [|discriminate].
  unfold local_running, inst_state in H.
  assert (X : aget (n_me n) (sm_insts (own n)) = Some IRUNNING).
  { rewrite W2. destruct (aget (n_me n) (n_insts n)) as [s|]; [|discriminate]. simpl.
    destruct (is_state s); try discriminate. reflexivity. }
  apply running_in_sel in X. intro E. unfold sel_running in E. rewrite E in X. contradiction.
Qed.

(* ---------- one evaluation of instance.next() ---------- *)
Lemma local_running_set_degraded : forall n b, local_running (fst (set_degraded n b)) = local_running n.
Proof. intros n b. unfold set_degraded. destruct (Bool.eqb _ _); reflexivity. Qed.

Lemma sync_consistence_W : forall n lost n' o d, WF n -> sync_consistence n lost = (n', o, d) ->
  WF n' /\ (d = None -> local_running n' = true).
Proof.
  intros n lost n' o d W H. unfold sync_consistence, on_consistence in H.
  destruct (local_running n) eqn:L.
  - unfold check_failure_strategy in H.
    match type of H with (let '(_, _) := set_degraded n ?b in _) = _ =>
      assert (X := set_degraded_WF n b W); assert (Y := local_running_set_degraded n b);
      destruct (set_degraded n b) as [n1 o1] end.
    simpl in X, Y. inversion H; subst. split; [exact X|]. intros _. rewrite Y. exact L.
  - inversion H; subst. split; [exact W|discriminate].
Qed.

Lemma ms_consistence_okW : forall n lost, WF n -> okW (ms_consistence n lost) (fun r => WF (fst (fst r))).
Proof.
  intros n lost W. unfold ms_consistence.
  destruct (sync_consistence n lost) as [[n1 o1] d] eqn:E. apply sync_consistence_W in E; [|exact W].
  destruct E as [W1 _]. destruct d; [exact W1|].
  destruct (check_master_WF n1 W1) as [b Eb]. rewrite Eb. exact W1.
Qed.

Lemma fsm_next_okW : forall n orc now, WF n -> okW (fsm_next n orc now) (fun r => WF (fst (fst r))).
Proof.
  intros n orc now W. unfold fsm_next.
  assert (X1 := check_instances_okW n now W).
  destruct (check_instances n now) as [[[[[n1 o1] lost] lostp] d1]|k]; simpl in X1; [|contradiction].
  destruct d1 as [d1|]; [exact X1|].
  assert (X2 := evaluate_stability_okW n1 X1).
  destruct (evaluate_stability n1) as [n2|k]; simpl in X2; [|contradiction].
  assert (MS : forall P : eval -> Prop,
            (forall n3 o3 d3, WF n3 -> ms_consistence n2 lost = Ok (n3, o3, d3) -> P (Ok (n3, o3, d3))) ->
            (forall k, False -> P (Crash k)) -> P (ms_consistence n2 lost)).
  { intros P HP _. assert (X3 := ms_consistence_okW n2 lost X2).
    destruct (ms_consistence n2 lost) as [[[n3 o3] d3]|k]; simpl in X3; [|contradiction].
    apply HP; [exact X3|reflexivity]. }
  destruct (fsm_state n).
  - (* OFF *) exact X2.
  - (* SYNCHRONIZATION *)
    destruct (on_consistence n2); [exact X2|].
    match goal with |- okW (match ?u with _ => _ end) _ =>
      assert (X3 : okW u (fun r => WF (fst (fst r)))) end.
    { destruct (o_user (n_opts n2)); [|exact X2].
      assert (X4 := accept_master_okW n2 (or_pick orc) X2).
      destruct (accept_master n2 (or_pick orc)) as [[n3 o3]|k]; simpl in X4; [|contradiction].
      destruct (master n3 =? 0); [exact X4|]. destruct (inst_state n3 (master n3)); exact X4. }
    match goal with |- okW (match ?u with _ => _ end) _ => destruct u as [[[n3 o3] us]|k] end;
      simpl in X3; [|contradiction].
    match goal with |- okW (let '(_, _) := set_degraded n3 ?b in _) _ =>
      assert (X5 := set_degraded_WF n3 b X3); destruct (set_degraded n3 b) as [n4 o4] end.
    exact X5.
  - (* ELECTION *)
    destruct (sync_consistence n2 lost) as [[n3 o3] d3] eqn:E3.
    apply sync_consistence_W in E3; [|exact X2]. destruct E3 as [W3 L3].
    destruct d3; [exact W3|]. specialize (L3 eq_refl).
    assert (SM : okW (bind (select_master n3) (fun r => Ok (fst r, o1 ++ o3 ++ snd r, Some ELECTION)))
                     (fun r => WF (fst (fst r)))).
    { assert (X4 := select_master_okW n3 W3 (fun ms _ => local_running_pool n3 ms W3 L3)).
      destruct (select_master n3) as [[n4 o4]|k]; simpl in *; [exact X4|contradiction]. }
    destruct (is_stable n3); [|exact W3].
    destruct (check_master_WF n3 W3) as [b Eb]. rewrite Eb. destruct b; [|exact SM].
    destruct (is_master n3); [exact W3|].
    destruct (master_state n3) as [[]|]; first [exact SM | exact W3].
  - (* DISTRIBUTION *)
    apply MS; [|intros k []]. intros n3 o3 d3 W3 _. destruct d3; [exact W3|].
    destruct (is_master n3); exact W3.
  - (* OPERATION *)
    apply MS; [|intros k []]. intros n3 o3 d3 W3 _. destruct d3; [exact W3|].
    destruct (is_master n3); exact W3.
  - (* CONCILIATION *)
    apply MS; [|intros k []]. intros n3 o3 d3 W3 _. destruct d3; [exact W3|].
    destruct (is_master n3); [|exact W3].
    destruct (or_starting orc || or_stopping orc); [exact W3|]. destruct (negb (or_conflict orc)); exact W3.
  - (* RESTARTING *)
    apply MS; [|intros k []]. intros n3 o3 d3 W3 _. destruct d3; [exact W3|].
    destruct (is_master n3); exact W3.
  - (* SHUTTING_DOWN *)
    apply MS; [|intros k []]. intros n3 o3 d3 W3 _. destruct d3; [exact W3|].
    destruct (is_master n3); exact W3.
  - (* FINAL *) exact X2.
Qed.

Lemma enter_state_WF : forall n s now, WF n -> WF (fst (enter_state n s now)).
Proof.
  intros n s now W. destruct s; simpl; exact W.
Qed.

Lemma set_state_okF : forall fuel n next orcs now acc, WF n ->
  okF (set_state fuel n next orcs now acc) (fun r => WF (fst r)).
Proof.
  induction fuel as [|fuel IH]; intros n next orcs now acc W; simpl.
  - destruct next as [ns|]; [|exact W]. destruct (sstate_eqb ns (fsm_state n)); [exact W|].
    destruct (negb (fsm_transition_ok (fsm_state n) ns)); [exact W|reflexivity].
  - destruct next as [ns|]; [|exact W]. destruct (sstate_eqb ns (fsm_state n)); [exact W|].
    destruct (negb (fsm_transition_ok (fsm_state n) ns)); [exact W|].
    assert (W1 := set_fsm_WF n ns W). destruct (set_fsm n ns) as [n1 o1]. simpl in W1.
    assert (W2 := enter_state_WF n1 ns now W1). destruct (enter_state n1 ns now) as [n2 o2]. simpl in W2.
    destruct (next_orcs orcs) as [orc rest].
    assert (X := fsm_next_okW n2 orc now W2).
    destruct (fsm_next n2 orc now) as [[[n3 o3] d]|k]; simpl in X; [|contradiction].
    apply IH. exact X.
Qed.

Lemma fsm_run_okF : forall n orcs now, WF n -> okF (fsm_run n orcs now) (fun r => WF (fst r)).
Proof.
  intros n orcs now W. unfold fsm_run. destruct (next_orcs orcs) as [orc rest].
  assert (X := fsm_next_okW n orc now W).
  destruct (fsm_next n orc now) as [[[n1 o1] d]|k]; simpl in X; [|contradiction].
  apply set_state_okF. exact X.
Qed.

(* ---------- events ---------- *)
(* end_sync without a Master name needs a candidate: a known Master declared by an instance seen RUNNING, or an
   instance seen RUNNING (always the case when the local instance is RUNNING, see endsync_ok_local) *)
Definition endsync_ok (n : node) (m : Z) : bool :=
  negb (Z.eqb m 0) ||
  match master_identifiers n with
  | Ok ms => match sel_pool n ms with [] => false | _ => true end
  | Crash _ => true
  end.

(* events that the instance can receive without raising: everything, except
   - restart / shutdown requests while no Master is known (the documented error returned to the XML-RPC client),
   - an ALL_INFO failure notice for an instance that is CHECKED or RUNNING (it cannot overtake the AUTHORIZATION
     of its own handshake: c16_crash_excused),
   - end_sync with no Master name when there is no candidate at all. *)
Definition wf_event (n : node) (e : event) : bool :=
  match e with
  | ReqRestart _ _ | ReqShutdown _ _ => is_master n || negb (Z.eqb (master n) 0)
  | AllInfo og None _ => negb (c16_crash_excused e (scode (fsm_state n)) (init_ist n))
  | ReqEndSync m _ _ => endsync_ok n m
  | _ => true
  end.

Lemma wf_event_of_not_excused : forall n e,
  c16_crash_excused e (scode (fsm_state n)) (init_ist n) = false ->
  (forall m now orcs, e = ReqEndSync m now orcs -> endsync_ok n m = true) -> wf_event n e = true.
Proof.
  intros n e H He. destruct e; simpl in *; try reflexivity; try discriminate.
  - destruct info; [reflexivity|]. rewrite H. reflexivity.
  - eapply He. reflexivity.
Qed.

Lemma endsync_ok_local : forall n m, WF n -> local_running n = true -> endsync_ok n m = true.
Proof.
  intros n m W L. unfold endsync_ok. destruct (master_identifiers n) as [ms|k]; [|apply orb_true_r].
  assert (X := local_running_pool n ms W L). destruct (sel_pool n ms); [contradiction|apply orb_true_r].
Qed.

Lemma ist_state_init : forall n j,
  ist_state j (init_ist n) = option_map (fun s => icode (is_state s)) (aget j (n_insts n)).
Proof.
  intros n j. unfold init_ist, ist_state. induction (n_insts n) as [|[k v] r IH]; simpl; [reflexivity|].
  rewrite Z.eqb_sym. destruct (Z.eqb j k); [reflexivity|exact IH].
Qed.

Lemma resolve_some : forall n og j, resolve n og = Some j ->
  og_resolved og = Some j /\ og_addr_ok og = true /\ exists s, aget j (n_insts n) = Some s /\ is_state s <> ISOLATED.
Proof.
  intros n og j H. unfold resolve, inst_state in H. destruct (og_resolved og) as [j'|]; [|discriminate].
  destruct (aget j' (n_insts n)) as [s|] eqn:E; [|discriminate].
  destruct (is_state s) eqn:Es; try discriminate; (destruct (og_addr_ok og); [|discriminate]);
    inversion H; subst; (split; [reflexivity|]; split; [reflexivity|]; exists s; split; [exact E|congruence]).
Qed.

Lemma on_ending_okF : forall n t orcs now err, WF n -> (is_master n || negb (Z.eqb (master n) 0)) = true ->
  okF (on_ending n t orcs now err) (fun r => WF (fst r)).
Proof.
  intros n t orcs now err W H. unfold on_ending. destruct (is_master n); [apply set_state_okF; exact W|].
  simpl in H. rewrite H. exact W.
Qed.

Lemma okF_bind_snd : forall (r : result (node * list output)) (f : node * list output -> list output),
  okF r (fun x => WF (fst x)) -> okF (bind r (fun x => Ok (fst x, f x))) (fun x => WF (fst x)).
Proof. intros [[n o]|k] f H; simpl in *; exact H. Qed.

Lemma WF_tick : forall n j s s', WF n -> aget j (n_insts n) = Some s -> is_state s' = is_state s ->
  WF (set_insts n (aset j s' (n_insts n))).
Proof.
  intros n j s s' W Ej Es.
  assert (Hj : amem j (n_insts n) = true) by (unfold amem; rewrite Ej; reflexivity).
  apply (WF_fields n); try reflexivity; [exact W| |].
  - intros k. simpl. apply amem_aset_same. exact Hj.
  - intros k. change (own (set_insts n (aset j s' (n_insts n)))) with (own n). simpl n_insts.
    rewrite aget_aset. destruct W as [_ [W2 _]]. rewrite W2.
    destruct (Z.eqb k j) eqn:E; [|reflexivity]. apply Z.eqb_eq in E. subst. rewrite Ej. simpl. congruence.
Qed.

Theorem step_okF : forall n e, WF n -> wf_event n e = true -> okF (step n e) (fun r => WF (fst r)).
Proof.
  intros n e W He. destruct e; simpl in *.
  - (* LocalTick *)
    assert (Hme : amem (n_me n) (n_insts n) = true) by apply W.
    apply amem_aget in Hme. destruct Hme as [s Es]. rewrite Es.
    assert (W1 := WF_tick n (n_me n) s (update_tick s cnt (-1)) W Es eq_refl).
    match goal with |- context [set_inst_state ?x _ _ _] => set (n1 := x) in * end.
    match goal with |- okF (match ?u with _ => _ end) _ => assert (X2 : okW u (fun r => WF (fst r))) end.
    { destruct (istate_eqb (is_state s) ISTOPPED) eqn:E0; [|exact W1].
      assert (X : okW (set_inst_state n1 (n_me n) CHECKING now) (fun r => WF (fst r))).
      { eapply (set_inst_state_okW n1 (n_me n) CHECKING now (update_tick s cnt (-1))); [exact W1| |].
        - unfold n1. simpl. rewrite aget_aset, Z.eqb_refl. reflexivity.
        - simpl. apply istate_eqb_eq in E0. rewrite E0. vm_compute. auto. }
      destruct (set_inst_state n1 (n_me n) CHECKING now) as [[n2 o2]|k]; simpl in *; exact X. }
    match goal with |- okF (match ?u with _ => _ end) _ => destruct u as [[n2 o2]|k] end; simpl in X2; [|contradiction].
    assert (X3 := on_timer_okW n2 cnt now X2).
    destruct (on_timer n2 cnt now) as [[n3 o3]|k]; simpl in X3; [|contradiction].
    assert (X4 : WF (fst (if n_mark n3 then (set_mark n3 false, [publish n3]) else (n3, [])))).
    { destruct (n_mark n3); simpl; [|exact X3]. eapply WF_same; [exact X3| | | |]; reflexivity. }
    destruct (if n_mark n3 then (set_mark n3 false, [publish n3]) else (n3, [])) as [n4 o4]. simpl in X4.
    apply okF_bind_snd. apply fsm_run_okF. exact X4.
  - (* PeerTick *)
    destruct (resolve n og) as [j|] eqn:Er; [|exact W].
    destruct (local_checked_or_running n); [|exact W].
    apply resolve_some in Er. destruct Er as [_ [_ [s [Es _]]]]. rewrite Es.
    assert (W1 := WF_tick n j s (update_tick s cnt (local_cnt n)) W Es eq_refl).
    destruct (istate_eqb (is_state s) ISTOPPED) eqn:E0; [|exact W1].
    apply okW_okF.
    match goal with |- context [set_inst_state ?x _ _ _] => set (n1 := x) in * end.
    assert (X : okW (set_inst_state n1 j CHECKING now) (fun r => WF (fst r))).
    { eapply (set_inst_state_okW n1 j CHECKING now (update_tick s cnt (local_cnt n))); [exact W1| |].
      - unfold n1. simpl. rewrite aget_aset, Z.eqb_refl. reflexivity.
      - simpl. apply istate_eqb_eq in E0. rewrite E0. vm_compute. auto. }
    destruct (set_inst_state n1 j CHECKING now) as [[n2 o2]|k]; simpl in *; exact X.
  - (* PeerState *)
    destruct (resolve n og) as [j|] eqn:Er; [|exact W].
    apply resolve_some in Er. destruct Er as [_ [_ [s [Es _]]]].
    match goal with |- context [fsm_run ?x _ _] => set (n1 := x) in * end.
    assert (W1 : WF n1).
    { unfold n1. destruct (Z.eqb j (n_me n)) eqn:E; [exact W|].
      assert (Hj : amem j (n_views n) = true).
      { destruct W as [_ [_ [W3 _]]]. rewrite W3. unfold amem. rewrite Es. reflexivity. }
      apply (WF_fields n); try reflexivity; [exact W| |].
      - intros k. simpl. apply amem_aset_same. exact Hj.
      - intros k. rewrite own_set_views_other; [|apply Z.eqb_neq; exact E]. destruct W as [_ [W2 _]]. apply W2. }
    destruct (Z.eqb j (master n1)); [apply fsm_run_okF; exact W1|exact W1].
  - (* Ident *) exact W.
  - (* Auth *)
    destruct (resolve n og) as [j|] eqn:Er; [|exact W].
    apply resolve_some in Er. destruct Er as [_ [_ [s [Es _]]]]. rewrite Es.
    destruct (is_checking s ts) eqn:Ec; [|exact W].
    unfold is_checking in Ec. apply andb_prop in Ec. destruct Ec as [Ec _]. apply istate_eqb_eq in Ec.
    apply okW_okF. destruct a.
    + eapply set_inst_state_okW; [exact W|exact Es|]. rewrite Ec. vm_compute. auto.
    + eapply set_inst_state_okW; [exact W|exact Es|]. rewrite Ec. vm_compute. auto.
    + eapply invalidate_okW; [exact W|exact Es|]. right. exact Ec.
    + eapply invalidate_okW; [exact W|exact Es|]. right. exact Ec.
  - (* AllInfo *)
    destruct (resolve n og) as [j|] eqn:Er; [|exact W].
    destruct info as [b|].
    + destruct (inst_state n j) as [[]|]; try exact W. destruct b; [|exact W].
      eapply WF_same; [exact W| | | |]; reflexivity.
    + apply resolve_some in Er. destruct Er as [Eo [Ea [s [Es Hiso]]]].
      rewrite Ea, Eo, ist_state_init, Es in He. simpl in He.
      apply okW_okF. eapply set_inst_state_okW; [exact W|exact Es|].
      destruct (is_state s); try discriminate He; try contradiction; vm_compute; auto.
  - (* InstFailure *)
    destruct (resolve n og) as [j|] eqn:Er; [|exact W].
    apply resolve_some in Er. destruct Er as [_ [_ [s [Es _]]]].
    unfold inst_state. rewrite Es. destruct (has_active_state (is_state s)) eqn:Ea; [|exact W].
    apply okW_okF. eapply set_inst_state_okW; [exact W|exact Es|].
    destruct (is_state s); try discriminate; vm_compute; auto.
  - (* ProcCrash *)
    destruct (is_master n) eqn:M; [|exact W].
    destruct strat; try exact W; apply on_ending_okF; try exact W; rewrite M; reflexivity.
  - (* ReqRestart *) apply on_ending_okF; assumption.
  - (* ReqShutdown *) apply on_ending_okF; assumption.
  - (* ReqEndSync *)
    match goal with |- okF (match ?u with _ => _ end) _ => assert (X1 : okW u (fun r => WF (fst r))) end.
    { destruct (Z.eqb m 0) eqn:E0.
      - apply select_master_okW; [exact W|]. intros ms Ems. unfold endsync_ok in He. rewrite E0, Ems in He.
        simpl in He. destruct (sel_pool n ms); [discriminate|discriminate].
      - simpl. apply set_master_WF. exact W. }
    match goal with |- okF (match ?u with _ => _ end) _ => destruct u as [[n1 o1]|k] end; simpl in X1; [|contradiction].
    apply okF_bind_snd. apply fsm_run_okF. exact X1.
Qed.

Theorem node_no_crash_partial : forall n e, WF n -> wf_event n e = true ->
  match step n e with Ok (n', _) => WF n' | Crash k => k = OutOfFuel end.
Proof.
  intros n e W He. assert (X := step_okF n e W He). destruct (step n e) as [[n' o]|k]; exact X.
Qed.

(* the events excluded by wf_event do raise (so the hypothesis is necessary) *)
Lemma not_wf_crashes : forall n e, WF n -> wf_event n e = false -> exists k, step n e = Crash k.
Proof.
  intros n e W He. destruct e; simpl in He; try discriminate.
  - (* AllInfo None *)
    destruct info as [b|]; [discriminate|]. apply negb_false_iff in He. simpl in He.
    destruct (og_addr_ok og) eqn:Ea; [|discriminate].
    destruct (og_resolved og) as [j|] eqn:Eo; [|discriminate].
    rewrite ist_state_init in He. destruct (aget j (n_insts n)) as [s|] eqn:Es; [|discriminate]. simpl in He.
    simpl. unfold resolve, inst_state. rewrite Eo, Es, Ea.
    unfold set_inst_state.
    destruct (is_state s) eqn:E; try discriminate He; rewrite Es, E; vm_compute; eexists; reflexivity.
  - (* ReqRestart *)
    apply orb_false_iff in He. destruct He as [M H0]. apply negb_false_iff in H0.
    simpl. unfold on_ending. rewrite M, H0. simpl. eexists. reflexivity.
  - apply orb_false_iff in He. destruct He as [M H0]. apply negb_false_iff in H0.
    simpl. unfold on_ending. rewrite M, H0. simpl. eexists. reflexivity.
  - (* ReqEndSync *)
    unfold endsync_ok in He. apply orb_false_iff in He. destruct He as [E0 He]. apply negb_false_iff in E0.
    simpl. rewrite E0. destruct (master_identifiers_WF n W) as [ms Ems]. rewrite Ems in He.
    rewrite (select_master_unfold n ms Ems). unfold sel_cands.
    destruct (sel_pool n ms); [|discriminate]. simpl.
    replace (filter (fun _ : Z => false) (n_core n)) with (@nil Z).
    + simpl. eexists. reflexivity.
    + induction (n_core n) as [|c r IH]; simpl; [reflexivity|exact IH].
Qed.

Definition wf_hist : node -> list event -> Prop := hist_ok (fun n e => wf_event n e = true).

(* along a well-formed history nothing is raised (unless the set_state loop exhausts its fuel) *)
Theorem run_no_crash : forall evs n, WF n -> wf_hist n evs ->
  forall k, In (NCrash k) (run n evs) -> k = OutOfFuel.
Proof.
  induction evs as [|e r IH]; intros n W Hh k Hin; simpl in *; [contradiction|].
  destruct Hh as [He Hr]. assert (X := step_okF n e W He).
  destruct (step n e) as [[n' o]|k']; simpl in X.
  - destruct Hin as [Hin|Hin]; [discriminate|]. eapply IH; eassumption.
  - destruct Hin as [Hin|[]]. inversion Hin; subst. reflexivity.
Qed.

(* every history: a raised exception is excused by c16_crash_excused, provided end_sync requests received in
   SYNCHRONIZATION have a candidate; or the loop fuel was exhausted *)
Definition endsync_hist : node -> list event -> Prop :=
  hist_ok (fun n e => forall m now orcs, e = ReqEndSync m now orcs -> fsm_state n = SYNCHRONIZATION ->
                                       endsync_ok n m = true).

Lemma walk_no_crash : forall n0 evs n, WF n -> endsync_hist n evs ->
  nspec_walk fl_c16 n0 (scode (fsm_state n)) (master n) (init_ist n) evs (run n evs) = true
  \/ In (NCrash OutOfFuel) (run n evs).
Proof.
  intros n0. induction evs as [|e r IH]; intros n W Hh; simpl; [left; reflexivity|].
  destruct Hh as [He Hr].
  destruct (wf_event n e) eqn:Ew.
  - assert (X := step_okF n e W Ew). destruct (step n e) as [[n' o]|k]; simpl in X.
    + destruct (IH n' X Hr) as [H|H]; [left|right; right; exact H].
      change (nspec_walk fl_c16 n0 (scode (fsm_state n')) (master n') (init_ist n') r (run n' r) = true).
      exact H.
    + subst. right. left. reflexivity.
  - destruct (not_wf_crashes n e W Ew) as [k Ek]. rewrite Ek. left. simpl.
    destruct (c16_crash_excused e (scode (fsm_state n)) (init_ist n)) eqn:Ex; [reflexivity|].
    rewrite wf_event_of_not_excused in Ew; [discriminate|exact Ex|].
    intros m now orcs Ee. apply (He m now orcs Ee). subst e. simpl in Ex.
    apply negb_false_iff in Ex. change 1 with (scode SYNCHRONIZATION) in Ex. rewrite scode_eqb in Ex.
    apply sstate_eqb_eq. exact Ex.
Qed.

Theorem run_no_crash_spec : forall n evs, WF n -> endsync_hist n evs ->
  nspec_ok fl_c16 (n, evs, run n evs) = true \/ In (NCrash OutOfFuel) (run n evs).
Proof. intros n evs W Hh. unfold nspec_ok. apply walk_no_crash; assumption. Qed.

(* ====================================================================== *)
(* concrete nodes and histories: the hypotheses are satisfiable, the conclusions are not vacuous *)
(* ====================================================================== *)
Definition ex_opts (strict : bool) (fs : fstrategy) : options :=
  mkOpts 2 false strict false true false false 0 fs.
(* two instances, local = 1, both STOPPED, state OFF, no Master: what harness/drv_node.py::emit_node builds *)
Definition ex_node (strict : bool) (fs : fstrategy) : node :=
  let own0 := mkSm OFF false 0 [(1, ISTOPPED); (2, ISTOPPED)] in
  mkNode 1 (ex_opts strict fs) [] [1; 2] [(1, 1); (2, 2)]
         [(1, mkIst ISTOPPED 0 0 0); (2, mkIst ISTOPPED 0 0 0)]
         [(1, own0); (2, sm_fresh)] [] false 0 [].
Definition og1 := mkOrigin (Some 1) true.
Definition og2 := mkOrigin (Some 2) true.
Definition orc0 := mkOr false false false 0.
(* local tick, local handshake, ticks: OFF -> SYNCHRONIZATION -> ELECTION (Master selected) -> DISTRIBUTION -> OPERATION *)
Definition ex_hist : list event :=
  [LocalTick 1 10 [orc0]; Auth og1 A_AUTHORIZED 11 12; LocalTick 2 15 [orc0]; LocalTick 3 20 [orc0];
   LocalTick 4 25 [orc0]].
Definition obs_states (l : list obs) : list Z := map (fun o => match o with NOk x => obs_fsm x | NCrash _ => -1 end) l.

Example ex_reaches_operation : obs_states (run (ex_node false FS_CONTINUE) ex_hist) = [0; 0; 2; 4; 4].
Proof. vm_compute. reflexivity. Qed.

Example ex_run_fsm_graph :
  nspec_ok (mkFlags true false false false false false false false)
           (ex_node false FS_CONTINUE, ex_hist, run (ex_node false FS_CONTINUE) ex_hist) = true
  /\ existsb (fun o => match o with NOk x => Z.eqb (obs_fsm x) 4 | _ => false end)
             (run (ex_node false FS_CONTINUE) ex_hist) = true.
Proof. split; [apply run_fsm_graph|vm_compute; reflexivity]. Qed.

(* the Master-only tokens: AutoStart is emitted in this history, by the Master *)
Example ex_run_master_only :
  nspec_ok fl_c01 (ex_node false FS_CONTINUE, ex_hist, run (ex_node false FS_CONTINUE) ex_hist) = true
  /\ existsb (fun o => match o with NOk x => existsb is_auto_token (obs_outs x) | _ => false end)
             (run (ex_node false FS_CONTINUE) ex_hist) = true.
Proof. split; [apply run_master_only|vm_compute; reflexivity]. Qed.

Example ex_final_terminal : forall e n' outs,
  step (mkNode 1 (ex_opts false FS_CONTINUE) [] [] [(1, 1)] [(1, mkIst IRUNNING 0 0 0)]
               [(1, mkSm FINAL false 1 [(1, IRUNNING)])] [] false 0 []) e = Ok (n', outs) -> fsm_state n' = FINAL.
Proof. intros e n' outs. apply final_terminal. reflexivity. Qed.

(* F5: with the SHUTDOWN failure strategy and a missing STRICT instance, SHUTTING_DOWN is entered from ELECTION
   without any Master *)
Theorem shutdown_without_master_refuted :
  exists n evs, nspec_ok fl_c02_noexempt (n, evs, run n evs) = false /\ nspec_ok fl_c02 (n, evs, run n evs) = true.
Proof. exists (ex_node true FS_SHUTDOWN), ex_hist. vm_compute. split; reflexivity. Qed.

Lemma ex_node_WF : forall strict fs, WF (ex_node strict fs).
Proof.
  intros strict fs. repeat split.
  - intros j. simpl. destruct (Z.eqb j 1); [reflexivity|]. destruct (Z.eqb j 2); reflexivity.
  - intros j. unfold amem. simpl. destruct (Z.eqb j 1); [reflexivity|]. destruct (Z.eqb j 2); reflexivity.
  - intros j. unfold amem. simpl. destruct (Z.eqb j 1); [reflexivity|]. destruct (Z.eqb j 2); [reflexivity|discriminate].
Qed.

Example ex_wf_hist : wf_hist (ex_node false FS_CONTINUE) ex_hist.
Proof. vm_compute. repeat split. Qed.

Example ex_run_no_crash : forall k, In (NCrash k) (run (ex_node false FS_CONTINUE) ex_hist) -> k = OutOfFuel.
Proof. apply run_no_crash; [apply ex_node_WF|apply ex_wf_hist]. Qed.

Example ex_node_no_crash :
  match step (ex_node false FS_CONTINUE) (LocalTick 1 10 [orc0]) with Ok (n', _) => WF n' | Crash k => k = OutOfFuel end.
Proof. apply node_no_crash_partial; [apply ex_node_WF|reflexivity]. Qed.

(* the excluded events do raise: the documented error of restart without a Master *)
Example ex_restart_without_master : step (ex_node false FS_CONTINUE) (ReqRestart 10 [orc0]) = Crash OtherError.
Proof. vm_compute. reflexivity. Qed.

(* selection rule: instance 1 (lowest nick) and 2 are RUNNING, 2 declares itself Master, 1 has none yet:
   the only recognised Master 2 is kept although 1 has the lowest nick identifier; with no declared Master the
   lowest nick identifier 1 is selected; with core_identifiers = [2] the core member wins *)
Definition ex_sel (core : list Z) (m2 : Z) : node :=
  let insts := [(1, IRUNNING); (2, IRUNNING)] in
  mkNode 1 (ex_opts false FS_CONTINUE) core [] [(1, 1); (2, 2)]
         [(1, mkIst IRUNNING 0 0 0); (2, mkIst IRUNNING 0 0 0)]
         [(1, mkSm ELECTION false 0 insts); (2, mkSm ELECTION false m2 insts)] [1; 2] false 0 [].

Example ex_master_kept :
  master_identifiers (ex_sel [] 2) = Ok [0; 2] /\ sel_declared (ex_sel [] 2) [0; 2] = [2]
  /\ option_map (fun r => master (fst r)) (match select_master (ex_sel [] 2) with Ok r => Some r | _ => None end) = Some 2.
Proof. vm_compute. repeat split. Qed.

Example ex_select_lowest_nick :
  option_map (fun r => master (fst r)) (match select_master (ex_sel [] 0) with Ok r => Some r | _ => None end) = Some 1
  /\ option_map (fun r => master (fst r)) (match select_master (ex_sel [2] 0) with Ok r => Some r | _ => None end) = Some 2.
Proof. vm_compute. split; reflexivity. Qed.

Example ex_check_master : check_master (ex_sel [] 2) = Ok false /\
  check_master (set_own (ex_sel [] 2) (mkSm ELECTION false 2 [(1, IRUNNING); (2, IRUNNING)])) = Ok true.
Proof. vm_compute. split; reflexivity. Qed.

(* ====================================================================== *)
(* D. C02, Master part                                                     *)
(* ====================================================================== *)
(* a state-modes payload is SM-local when the Master it declares, if any, is RUNNING in its own instance states.
   Every Supvisors instance maintains this for its own state-modes (own_sm_local below): peers that are real
   Supvisors instances only publish SM-local payloads. *)
Definition sm_local (v : smodes) : bool :=
  Z.eqb (sm_master v) 0 || match aget (sm_master v) (sm_insts v) with Some IRUNNING => true | _ => false end.

(* invariant of the Master part: no duplicate key in instance_state_modes nor in the local instance_states,
   '' (0) is not an identifier, every stored state-modes (own one included) is SM-local,
   USER is not among the synchro options *)
Definition ID (n : node) : Prop :=
  NoDup (akeys (n_views n)) /\ NoDup (akeys (sm_insts (own n))) /\ amem 0 (n_insts n) = false /\
  (forall j v, aget j (n_views n) = Some v -> sm_local v = true) /\ o_user (n_opts n) = false.

Lemma akeys_aset {V} : forall j (v : V) l, amem j l = true -> akeys (aset j v l) = akeys l.
Proof.
  intros j v l. unfold amem. induction l as [|[k' v'] r IH]; simpl; intros H; [discriminate|].
  destruct (Z.eqb j k') eqn:E; simpl; [reflexivity|]. f_equal. apply IH. exact H.
Qed.

Lemma In_akeys_aset {V} : forall x j (v : V) l, In x (akeys (aset j v l)) -> x = j \/ In x (akeys l).
Proof.
  intros x j v l. induction l as [|[k' v'] r IH]; simpl; intros H.
  - destruct H as [H|[]]. left. symmetry. exact H.
  - destruct (Z.eqb j k'); simpl in H.
    + right. exact H.
    + destruct H as [H|H]; [right; left; exact H|]. apply IH in H. destruct H as [H|H]; [left; exact H|right; right; exact H].
Qed.

Lemma NoDup_akeys_aset {V} : forall j (v : V) l, NoDup (akeys l) -> NoDup (akeys (aset j v l)).
Proof.
  intros j v l. induction l as [|[k' v'] r IH]; simpl; intros H.
  - constructor; [intros []|constructor].
  - inversion H as [|x t Hx Ht]; subst. destruct (Z.eqb j k') eqn:E; simpl.
    + constructor; assumption.
    + constructor; [|apply IH; exact Ht]. intros Hin. apply In_akeys_aset in Hin.
      destruct Hin as [Hin|Hin]; [subst; rewrite Z.eqb_refl in E; discriminate|contradiction].
Qed.

Lemma own_aget : forall n, amem (n_me n) (n_views n) = true -> aget (n_me n) (n_views n) = Some (own n).
Proof. intros n H. unfold own. apply amem_aget in H. destruct H as [v H]. rewrite H. reflexivity. Qed.

Lemma sees_running_aget : forall n m, sees_running n m = true <-> aget m (sm_insts (own n)) = Some IRUNNING.
Proof.
  intros n m. unfold sees_running. destruct (aget m (sm_insts (own n))) as [[]|]; split; intro H;
    first [reflexivity | discriminate].
Qed.

Lemma own_sm_local : forall n, WF n -> ID n -> sm_local (own n) = true.
Proof.
  intros n W [_ [_ [_ [HL _]]]]. apply (HL (n_me n)). apply own_aget. apply WF_me_views. exact W.
Qed.

Lemma SMlocal : forall n, WF n -> ID n -> master n <> 0 -> sees_running n (master n) = true.
Proof.
  intros n W I Hm. assert (H := own_sm_local n W I). unfold sm_local in H. apply orb_prop in H.
  destruct H as [H|H]; [apply Z.eqb_eq in H; contradiction|]. exact H.
Qed.

Lemma me_nonzero : forall n, WF n -> ID n -> n_me n <> 0.
Proof.
  intros n [W1 _] [_ [_ [Z0 _]]] E. rewrite E in W1. congruence.
Qed.

(* replacing the own state-modes *)
Lemma ID_set_own : forall n s, WF n -> ID n -> sm_insts s = sm_insts (own n) -> sm_local s = true -> ID (set_own n s).
Proof.
  intros n s W [I1 [I2 [I3 [I4 I5]]]] Ei Hl. repeat split.
  - simpl. rewrite akeys_aset; [exact I1|apply WF_me_views; exact W].
  - rewrite own_set_own, Ei. exact I2.
  - exact I3.
  - intros j v. simpl. rewrite aget_aset. destruct (Z.eqb j (n_me n)); [|apply I4].
    intros E. inversion E; subst. exact Hl.
  - exact I5.
Qed.

Lemma ID_same : forall n n', ID n -> n_me n' = n_me n -> n_views n' = n_views n ->
  (forall k, amem k (n_insts n') = amem k (n_insts n)) -> n_opts n' = n_opts n -> ID n'.
Proof.
  intros n n' [I1 [I2 [I3 [I4 I5]]]] Eme Ev Ei Eo. unfold ID, own. rewrite Eme, Ev, Ei, Eo.
  repeat split; assumption.
Qed.

Lemma set_master_ID : forall n m, WF n -> ID n -> (m = 0 \/ sees_running n m = true) -> ID (fst (set_master n m)).
Proof.
  intros n m W I Hm. unfold set_master. destruct (Z.eqb (master n) m); simpl; [exact I|].
  apply ID_set_own; try assumption; [reflexivity|]. unfold sm_local. simpl.
  destruct Hm as [Hm|Hm]; [subst; reflexivity|]. unfold sees_running in Hm. rewrite Hm. apply orb_true_r.
Qed.

Lemma set_degraded_ID : forall n b, WF n -> ID n -> ID (fst (set_degraded n b)).
Proof.
  intros n b W I. unfold set_degraded. destruct (Bool.eqb _ b); simpl; [exact I|].
  apply ID_set_own; try assumption; [reflexivity|]. apply (own_sm_local n W I).
Qed.

Lemma set_fsm_ID : forall n s, WF n -> ID n -> ID (fst (set_fsm n s)).
Proof.
  intros n s W I. unfold set_fsm. destruct (sstate_eqb _ s); simpl; [exact I|].
  apply ID_set_own; try assumption; [reflexivity|]. apply (own_sm_local n W I).
Qed.

(* precise effect of update_instance_state on the own state-modes and on the views *)
Lemma update_instance_state_own : forall n j st n' o, update_instance_state n j st = (n', o) ->
  amem (n_me n) (n_views n) = true ->
  own n' = mkSm (sm_fsm (own n)) (sm_degraded (own n))
                (if negb (istate_eqb st IRUNNING) && Z.eqb j (master n) then 0 else master n)
                (aset j st (sm_insts (own n)))
  /\ akeys (n_views n') = akeys (n_views n)
  /\ (forall k v, aget k (n_views n') = Some v -> v = own n' \/ v = sm_fresh \/ aget k (n_views n) = Some v).
Proof.
  intros n j st n' o H Hme. unfold update_instance_state in H.
  set (s := own n) in *.
  set (s1 := mkSm (sm_fsm s) (sm_degraded s) (sm_master s) (aset j st (sm_insts s))) in *.
  set (n1 := set_own n s1) in *.
  match type of H with (if _ then set_master ?x 0 else _) = _ => set (n2 := x) in * end.
  assert (F : n_me n2 = n_me n /\ own n2 = s1 /\ akeys (n_views n2) = akeys (n_views n) /\
              (forall k v, aget k (n_views n2) = Some v ->
                 (k = n_me n /\ v = s1) \/ v = sm_fresh \/ (k <> n_me n /\ aget k (n_views n) = Some v))).
  { assert (F1 : n_me n1 = n_me n /\ own n1 = s1 /\ akeys (n_views n1) = akeys (n_views n) /\
              (forall k v, aget k (n_views n1) = Some v ->
                 (k = n_me n /\ v = s1) \/ v = sm_fresh \/ (k <> n_me n /\ aget k (n_views n) = Some v))).
    { split; [reflexivity|]. split; [apply own_set_own|]. split; [simpl; apply akeys_aset; exact Hme|].
      intros k v. simpl. rewrite aget_aset. destruct (Z.eqb k (n_me n)) eqn:E.
      - intros X. inversion X; subst. left. apply Z.eqb_eq in E. split; [exact E|reflexivity].
      - intros X. right. right. apply Z.eqb_neq in E. split; assumption. }
    assert (F2 : Z.eqb j (n_me n) = false -> amem j (n_views n1) = true ->
                 let x := set_views n1 (aset j sm_fresh (n_views n1)) in
                 n_me x = n_me n /\ own x = s1 /\ akeys (n_views x) = akeys (n_views n) /\
                 (forall k v, aget k (n_views x) = Some v ->
                    (k = n_me n /\ v = s1) \/ v = sm_fresh \/ (k <> n_me n /\ aget k (n_views n) = Some v))).
    { intros E Hm x. destruct F1 as [A1 [A2 [A3 A4]]]. split; [reflexivity|]. split.
      - unfold x. rewrite own_set_views_other; [exact A2|]. apply Z.eqb_neq in E. exact E.
      - split; [unfold x; simpl; rewrite akeys_aset; [exact A3|exact Hm]|].
        intros k v. unfold x. simpl n_views at 1. rewrite aget_aset. destruct (Z.eqb k j) eqn:Ek.
        + intros X. inversion X; subst. right. left. reflexivity.
        + apply A4. } 
    unfold n2. destruct st; try exact F1.
    - destruct (Z.eqb j (n_me n)) eqn:E; [exact F1|].
      destruct (amem j (n_views n1)) eqn:Em; [|exact F1]. apply F2; reflexivity.
    - destruct (Z.eqb j (n_me n)) eqn:E; [exact F1|].
      destruct (amem j (n_views n1)) eqn:Em; [|exact F1]. apply F2; reflexivity. }
  clearbody n2. destruct F as [A1 [A2 [A3 A4]]].
  assert (Em2 : master n2 = master n) by (unfold master; rewrite A2; reflexivity).
  rewrite Em2 in H.
  assert (G : forall x : node, own x = s1 -> n_views x = n_views n2 ->
              forall k v, aget k (n_views x) = Some v -> v = own x \/ v = sm_fresh \/ aget k (n_views n) = Some v).
  { intros x Ex Ev k v X. rewrite Ev in X. apply A4 in X. destruct X as [[_ X]|[X|[_ X]]];
      [left; congruence|right; left; exact X|right; right; exact X]. }
  destruct (negb (istate_eqb st IRUNNING) && Z.eqb j (master n)) eqn:Ec.
  - unfold set_master in H. rewrite Em2 in H. destruct (Z.eqb (master n) 0) eqn:E0.
    + inversion H; subst. apply Z.eqb_eq in E0. split; [rewrite A2; unfold s1; rewrite <- E0; reflexivity|].
      split; [exact A3|]. apply G; [exact A2|reflexivity].
    + inversion H; subst. clear H. split; [rewrite own_set_own, A2; reflexivity|].
      split; [simpl; rewrite akeys_aset; [exact A3|]; rewrite A1; apply In_keys_amem; rewrite A3;
              eapply aget_In_keys; apply own_aget; exact Hme|].
      intros k v. simpl. rewrite aget_aset, A1. destruct (Z.eqb k (n_me n)) eqn:Ek.
      * intros X. inversion X; subst. left. rewrite own_set_own. reflexivity.
      * intros X. apply A4 in X. destruct X as [[X _]|[X|[_ X]]];
          [apply Z.eqb_neq in Ek; contradiction|right; left; exact X|right; right; exact X].
  - inversion H; subst. split; [exact A2|]. split; [exact A3|]. apply (G (set_mark n2 true)); [exact A2|reflexivity].
Qed.

Lemma set_inst_state_ID : forall n j st now n' o, set_inst_state n j st now = Ok (n', o) -> WF n -> ID n -> ID n'.
Proof.
  intros n j st now n' o H W I.
  assert (K := set_inst_state_FR _ _ _ _ _ _ H). destruct K as [[_ [Ko _]] _].
  unfold set_inst_state in H.
  destruct (aget j (n_insts n)) as [s|] eqn:Ej; [|discriminate].
  destruct (istate_eqb (is_state s) st); [inversion H; subst; exact I|].
  destruct (inst_transition_ok (is_state s) st); [|discriminate].
  inversion H as [H1]. clear H.
  assert (F := update_instance_state_fields _ _ _ _ _ H1). destruct F as [_ [_ [A3 _]]].
  apply update_instance_state_own in H1; [|apply (WF_me_views n W)].
  destruct H1 as [B1 [B2 B3]]. unfold master in B1. simpl in B2, B3.
  repeat match goal with H : context [own (set_insts n ?x)] |- _ => change (own (set_insts n x)) with (own n) in H end.
  fold (master n) in B1.
  assert (Hloc := own_sm_local n W I).
  destruct I as [I1 [I2 [I3 [I4 I5]]]].
  assert (Hown : sm_local (own n') = true).
  { rewrite B1. unfold sm_local. simpl.
    destruct (negb (istate_eqb st IRUNNING) && Z.eqb j (master n)) eqn:Ec; [reflexivity|].
    unfold sm_local in Hloc. fold (master n) in Hloc. apply orb_prop in Hloc. destruct Hloc as [Hl|Hl]; [rewrite Hl; reflexivity|].
    rewrite aget_aset. destruct (Z.eqb (master n) j) eqn:Em; [|rewrite Hl; apply orb_true_r].
    rewrite Z.eqb_sym, Em, andb_true_r in Ec. apply negb_false_iff in Ec. apply istate_eqb_eq in Ec. subst.
    apply orb_true_r. }
  repeat split.
  - rewrite B2. exact I1.
  - rewrite B1. simpl. apply NoDup_akeys_aset. exact I2.
  - rewrite A3. simpl n_insts. rewrite amem_aset_same; [exact I3|]. unfold amem. rewrite Ej. reflexivity.
  - intros k v X. apply B3 in X. destruct X as [X|[X|X]]; [subst; exact Hown|subst; reflexivity|eapply I4; exact X].
  - rewrite Ko. exact I5.
Qed.

(* WF in "= Ok ->" form *)
Lemma okW_WF : forall A (r : result A) (g : A -> node) a, okW r (fun x => WF (g x)) -> r = Ok a -> WF (g a).
Proof. intros A r g a H E. subst. exact H. Qed.

Definition IV (n : node) : Prop := WF n /\ ID n.

Lemma set_inst_state_IV : forall n j st now n' o, set_inst_state n j st now = Ok (n', o) -> IV n -> IV n'.
Proof.
  intros n j st now n' o H [W I]. split; [eapply set_inst_state_WF; eassumption|eapply set_inst_state_ID; eassumption].
Qed.

Lemma fold_ids_IV : forall f, (forall n j n' o, f n j = Ok (n', o) -> IV n -> IV n') ->
  forall ids n acc n' outs, fold_ids f ids n acc = Ok (n', outs) -> IV n -> IV n'.
Proof.
  intros f Hf ids. induction ids as [|j r IH]; simpl; intros n acc n' outs H HI.
  - inversion H; subst. exact HI.
  - destruct (f n j) as [[n1 o1]|k] eqn:E; [|discriminate]. eapply IH; [exact H|]. eapply Hf; eassumption.
Qed.

Lemma on_timer_IV : forall n cnt now n' o, on_timer n cnt now = Ok (n', o) -> IV n -> IV n'.
Proof.
  intros n cnt now n' o H HI0. unfold on_timer in H. eapply fold_ids_IV; [|exact H|exact HI0].
  clear. intros n j n' o H HI. cbv beta in H. destruct (aget j (n_insts n)) as [s|].
  - destruct (is_inactive n s cnt); [eapply set_inst_state_IV; eassumption|inversion H; subst; exact HI].
  - inversion H; subst. exact HI.
Qed.

Lemma invalidate_IV : forall n j fence now n' o, invalidate n j fence now = Ok (n', o) -> IV n -> IV n'.
Proof.
  intros n j fence now n' o H. unfold invalidate in H.
  destruct (Z.eqb j (n_me n)); [eapply set_inst_state_IV; eassumption|].
  destruct (fence || _); eapply set_inst_state_IV; eassumption.
Qed.

Lemma IV_same : forall n n', IV n -> n_me n' = n_me n -> n_nick n' = n_nick n -> n_insts n' = n_insts n ->
  n_views n' = n_views n -> n_opts n' = n_opts n -> IV n'.
Proof.
  intros n n' [W I] E1 E2 E3 E4 E5. split; [eapply WF_same; eassumption|].
  eapply ID_same; try eassumption. intros k. rewrite E3. reflexivity.
Qed.

Lemma invalidate_failed_aux_IV : forall ids n acc lost lostp now n' outs lost' lostp',
  invalidate_failed_aux ids n acc lost lostp now = Ok (n', outs, lost', lostp') -> IV n -> IV n'.
Proof.
  induction ids as [|j r IH]; simpl; intros n acc lost lostp now n' outs lost' lostp' H HI.
  - inversion H; subst. exact HI.
  - destruct (inst_state n j) as [[]|]; try (eapply IH; eassumption).
    destruct (invalidate n j false now) as [[n1 o1]|k] eqn:E; [|discriminate].
    apply invalidate_IV in E; [|exact HI]. eapply IH; [exact H|]. eapply IV_same; [exact E| | | | |]; reflexivity.
Qed.

Lemma activate_checked_aux_IV : forall ids n acc act now n' outs act',
  activate_checked_aux ids n acc act now = Ok (n', outs, act') -> IV n -> IV n'.
Proof.
  induction ids as [|j r IH]; simpl; intros n acc act now n' outs act' H HI.
  - inversion H; subst. exact HI.
  - destruct (inst_state n j) as [[]|]; try (eapply IH; eassumption).
    destruct (set_inst_state n j IRUNNING now) as [[n1 o1]|k] eqn:E; [|discriminate].
    apply set_inst_state_IV in E; [|exact HI]. eapply IH; eassumption.
Qed.

Lemma check_instances_IV : forall n now n' o lost lostp d,
  check_instances n now = Ok (n', o, lost, lostp, d) -> IV n -> IV n'.
Proof.
  intros n now n' o lost lostp d H HI. unfold check_instances, invalidate_failed, activate_checked in H.
  destruct (invalidate_failed_aux _ _ _ _ _ _) as [[[[n1 o1] l1] lp1]|k] eqn:E1; [|discriminate].
  apply invalidate_failed_aux_IV in E1; [|exact HI].
  destruct (act_of (fsm_state n)).
  - destruct (activate_checked_aux _ _ _ _ _) as [[[n2 o2] act]|k] eqn:E2; [|discriminate].
    apply activate_checked_aux_IV in E2; [|exact E1]. inversion H; subst. exact E2.
  - destruct (activate_checked_aux _ _ _ _ _) as [[[n2 o2] act]|k] eqn:E2; [|discriminate].
    apply activate_checked_aux_IV in E2; [|exact E1]. inversion H; subst. exact E2.
  - inversion H; subst. exact E1.
Qed.


(* ---------- stability: the protocol argument ---------- *)
Lemma aget_In {V} : forall k (l : alist V) v, aget k l = Some v -> In (k, v) l.
Proof.
  intros k l. induction l as [|[k' v'] r IH]; simpl; intros v H; [discriminate|].
  destruct (Z.eqb k k') eqn:E.
  - apply Z.eqb_eq in E. inversion H; subst. left. reflexivity.
  - right. apply IH. exact H.
Qed.

Lemma In_aget_nodup {V} : forall k (l : alist V) v, NoDup (akeys l) -> In (k, v) l -> aget k l = Some v.
Proof.
  intros k l. induction l as [|[k' v'] r IH]; simpl; intros v Hnd H; [contradiction|].
  inversion Hnd as [|x t Hx Ht]; subst. destruct H as [H|H].
  - inversion H; subst. rewrite Z.eqb_refl. reflexivity.
  - destruct (Z.eqb k k') eqn:E.
    + apply Z.eqb_eq in E. subst. exfalso. apply Hx. unfold akeys. apply in_map_iff. exists (k', v). split; [reflexivity|exact H].
    + apply IH; assumption.
Qed.

Lemma running_views_In : forall n l rv, NoDup (akeys l) -> running_views n l = Ok rv ->
  forall j v, In (j, v) rv <-> (aget j l = Some v /\ aget j (sm_insts (own n)) = Some IRUNNING).
Proof.
  intros n l. induction l as [|[k s] r IH]; simpl; intros rv Hnd H j v.
  - inversion H; subst. split; [intros []|intros [X _]; discriminate].
  - inversion Hnd as [|x t Hx Ht]; subst.
    destruct (aget k (sm_insts (own n))) as [st|] eqn:Ek; [|discriminate].
    destruct (running_views n r) as [t|kk] eqn:Er; [|discriminate]. simpl in H. inversion H; subst. clear H.
    specialize (IH t Ht eq_refl j v).
    assert (Hne : forall w, aget j r = Some w -> Z.eqb j k = false).
    { intros w Hw. destruct (Z.eqb j k) eqn:E; [|reflexivity]. apply Z.eqb_eq in E. subst.
      exfalso. apply Hx. eapply aget_In_keys. exact Hw. }
    split.
    + intros Hin. destruct (istate_eqb st IRUNNING) eqn:Est.
      * destruct Hin as [Hin|Hin].
        -- inversion Hin; subst. rewrite Z.eqb_refl. apply istate_eqb_eq in Est. subst. split; [reflexivity|exact Ek].
        -- apply IH in Hin. destruct Hin as [A B]. rewrite (Hne v A). split; assumption.
      * apply IH in Hin. destruct Hin as [A B]. rewrite (Hne v A). split; assumption.
    + intros [A B]. destruct (Z.eqb j k) eqn:E.
      * apply Z.eqb_eq in E. subst. inversion A; subst. rewrite Ek in B. inversion B; subst. simpl. left. reflexivity.
      * assert (X : In (j, v) t) by (apply IH; split; assumption).
        destruct (istate_eqb st IRUNNING); [right; exact X|exact X].
Qed.

Lemma zset_eq_In : forall a b, zset_eq a b = true -> forall x, In x a <-> In x b.
Proof.
  intros a b H x. unfold zset_eq in H. apply andb_prop in H. destruct H as [H1 H2].
  rewrite forallb_forall in H1, H2. split; intros Hx.
  - apply zmem_In. apply H1. exact Hx.
  - apply zmem_In. apply H2. exact Hx.
Qed.

Lemma stable_running_spec : forall l acc, stable_running l acc <> [] ->
  forall x, In x (stable_running l acc) <-> (In x acc \/ In (x, IRUNNING) l).
Proof.
  induction l as [|[j st] r IH]; simpl; intros acc Hne x.
  - split; [intro H; left; exact H|intros [H|[]]; exact H].
  - destruct (is_stable_istate st); [|contradiction].
    rewrite (IH _ Hne x). destruct (istate_eqb st IRUNNING) eqn:E.
    + apply istate_eqb_eq in E. subst. rewrite zadd_In. split.
      * intros [[H|H]|H]; [left; exact H|right; left; subst; reflexivity|right; right; exact H].
      * intros [H|[H|H]]; [left; left; exact H|inversion H; subst; left; right; reflexivity|right; exact H].
    + split.
      * intros [H|H]; [left; exact H|right; right; exact H].
      * intros [H|[H|H]]; [left; exact H| |right; exact H].
        inversion H; subst. simpl in E. discriminate.
Qed.

(* the stable identifiers agree with the set of RUNNING instances of every view of an instance seen RUNNING *)
Definition StabC (n : node) (s : list Z) : Prop :=
  forall j v, aget j (n_views n) = Some v -> aget j (sm_insts (own n)) = Some IRUNNING ->
    zset_eq (stable_running (sm_insts v) []) s = true.

Lemma evaluate_stability_StabC : forall n n', ID n -> evaluate_stability n = Ok n' ->
  n' = set_stable n (n_stable n') /\ (n_stable n' <> [] -> StabC n' (n_stable n')).
Proof.
  intros n n' [Hnd _] H. unfold evaluate_stability in H.
  destruct (running_views n (n_views n)) as [rv|k] eqn:Er; [|discriminate]. simpl in H.
  assert (X : forall s, n' = set_stable n s -> (s = [] \/ forall js, In js rv -> zset_eq (stable_running (sm_insts (snd js)) []) s = true) ->
              n' = set_stable n (n_stable n') /\ (n_stable n' <> [] -> StabC n' (n_stable n'))).
  { intros s E Hs. subst n'. simpl. split; [reflexivity|]. intros Hne. destruct Hs as [Hs|Hs]; [contradiction|].
    intros j v A B. apply (Hs (j, v)). apply (running_views_In n (n_views n) rv Hnd Er). split; assumption. }
  destruct (map (fun js => stable_running (sm_insts (snd js)) []) rv) as [|s0 t] eqn:Em.
  - inversion H; subst. apply (X []); [reflexivity|left; reflexivity].
  - match type of H with (if ?c then _ else _) = _ => destruct c eqn:Ef end; inversion H; subst.
    + apply (X s0); [reflexivity|right]. intros js Hjs. rewrite forallb_forall in Ef. apply Ef. rewrite <- Em.
      apply in_map_iff. exists js. split; [reflexivity|exact Hjs].
    + apply (X []); [reflexivity|left; reflexivity].
Qed.

Lemma StabC_set_own : forall n s s', WF n -> StabC n s -> sm_insts s' = sm_insts (own n) -> StabC (set_own n s') s.
Proof.
  intros n s s' W H E j v. rewrite own_set_own, E. simpl. rewrite aget_aset. destruct (Z.eqb j (n_me n)) eqn:Ej.
  - intros A B. inversion A; subst. rewrite E. apply Z.eqb_eq in Ej. subst j.
    apply (H (n_me n) (own n)); [apply own_aget; apply WF_me_views; exact W|exact B].
  - apply H.
Qed.

Lemma set_degraded_StabC : forall n b s, WF n -> StabC n s -> StabC (fst (set_degraded n b)) s.
Proof.
  intros n b s W H. unfold set_degraded. destruct (Bool.eqb _ b); simpl; [exact H|].
  apply StabC_set_own; [exact W|exact H|reflexivity].
Qed.

Lemma local_running_sees : forall n, WF n -> local_running n = true -> aget (n_me n) (sm_insts (own n)) = Some IRUNNING.
Proof.
  intros n [_ [W2 _]] H. unfold local_running, inst_state in H. rewrite W2.
  destruct (aget (n_me n) (n_insts n)) as [s|]; [|discriminate]. simpl. destruct (is_state s); try discriminate. reflexivity.
Qed.

(* is_stable + SM-local views: a Master declared by an instance seen RUNNING is seen RUNNING locally *)
Lemma stable_declared_running : forall n s, WF n -> ID n -> StabC n s -> s <> [] -> local_running n = true ->
  forall j v, aget j (n_views n) = Some v -> aget j (sm_insts (own n)) = Some IRUNNING -> sm_master v <> 0 ->
    sees_running n (sm_master v) = true.
Proof.
  intros n s W I HS Hne L j v A B Hm.
  assert (Hown := HS (n_me n) (own n) (own_aget n (WF_me_views n W)) (local_running_sees n W L)).
  assert (Hv := HS j v A B).
  destruct I as [_ [Ind [_ [Hloc _]]]].
  assert (Lv := Hloc j v A). unfold sm_local in Lv. apply orb_prop in Lv.
  destruct Lv as [Lv|Lv]; [apply Z.eqb_eq in Lv; contradiction|].
  destruct (aget (sm_master v) (sm_insts v)) as [[]|] eqn:Em; try discriminate. apply aget_In in Em.
  assert (NE : forall l, zset_eq l s = true -> l <> []).
  { intros l Hl El. subst l. unfold zset_eq in Hl. simpl in Hl. destruct s; [contradiction|discriminate]. }
  assert (M1 : In (sm_master v) (stable_running (sm_insts v) [])).
  { apply stable_running_spec; [apply NE; exact Hv|]. right. exact Em. }
  apply (zset_eq_In _ _ Hv) in M1. apply (zset_eq_In _ _ Hown) in M1.
  apply stable_running_spec in M1; [|apply NE; exact Hown]. destruct M1 as [[]|M1].
  apply sees_running_aget. apply In_aget_nodup; assumption.
Qed.

Lemma master_identifiers_In : forall n ms M, ID n -> master_identifiers n = Ok ms -> In M ms ->
  exists j v, aget j (n_views n) = Some v /\ aget j (sm_insts (own n)) = Some IRUNNING /\ sm_master v = M.
Proof.
  intros n ms M [Hnd _] H Hin. unfold master_identifiers in H.
  destruct (running_views n (n_views n)) as [rv|k] eqn:Er; [|discriminate]. simpl in H. inversion H; subst. clear H.
  fold (masters_of rv []) in Hin. apply masters_of_In in Hin. destruct Hin as [[]|[[j v] [Hjs Em]]].
  apply (running_views_In n (n_views n) rv Hnd Er) in Hjs. destruct Hjs as [A B].
  exists j, v. split; [exact A|]. split; [exact B|exact Em].
Qed.

Lemma select_master_ID : forall n s n' o, WF n -> ID n -> StabC n s -> s <> [] -> local_running n = true ->
  select_master n = Ok (n', o) -> ID n'.
Proof.
  intros n s n' o W I HS Hne L H.
  destruct (master_identifiers_WF n W) as [ms Ems].
  destruct (select_master_rule n ms n' o Ems H) as [M [_ [Hp [Hset _]]]].
  assert (X : M = 0 \/ sees_running n M = true).
  { right. unfold sel_pool in Hp.
    assert (HD : In M (sel_declared n ms) -> sees_running n M = true).
    { intros HinD. unfold sel_declared in HinD. apply filter_In in HinD. destruct HinD as [Hin Hk].
      destruct (master_identifiers_In n ms M I Ems Hin) as [j [v [A [B Em]]]]. subst M.
      apply (stable_declared_running n s W I HS Hne L j v A B).
      intros E0. rewrite E0 in Hk. destruct I as [_ [_ [Z0 _]]]. congruence. }
    destruct (sel_declared n ms) as [|d t]; [|apply HD; exact Hp].
    unfold sel_running in Hp. apply in_map_iff in Hp. destruct Hp as [[k st] [Ek Hin]]. simpl in Ek. subst k.
    apply filter_In in Hin. destruct Hin as [Hin Est]. simpl in Est. apply istate_eqb_eq in Est. subst st.
    apply sees_running_aget. apply In_aget_nodup; [apply I|exact Hin]. }
  assert (Y := set_master_ID n M W I X). rewrite Hset in Y. exact Y.
Qed.


(* ---------- decisions of instance.next() ---------- *)
(* ex = the exemption of NodeSpec (SHUTTING_DOWN entered by the SHUTDOWN failure strategy, finding F5);
   without it the SHUTDOWN strategy must not be configured *)
Definition IVx (ex : bool) (n : node) : Prop :=
  WF n /\ ID n /\ (ex = true \/ o_fstrategy (n_opts n) <> FS_SHUTDOWN).

(* a decision that enters a state needing a Master is taken with a Master seen RUNNING *)
Definition Jd (ex : bool) (n : node) (d : option sstate) : Prop :=
  match d with
  | None => True
  | Some ns => needs_master (scode ns) = true -> ns <> fsm_state n ->
               (ex = true /\ ns = SHUTTING_DOWN) \/ (master n <> 0 /\ sees_running n (master n) = true)
  end.

Definition soft (n : node) (d : sstate) : Prop :=
  d = OFF \/ d = SYNCHRONIZATION \/ d = ELECTION \/ (d = SHUTTING_DOWN /\ o_fstrategy (n_opts n) = FS_SHUTDOWN).

Lemma Jd_soft : forall ex n d, (ex = true \/ o_fstrategy (n_opts n) <> FS_SHUTDOWN) -> soft n d -> Jd ex n (Some d).
Proof.
  intros ex n d Hx [H|[H|[H|[H Hf]]]] Hn _; subst d; try (vm_compute in Hn; discriminate).
  destruct Hx as [Hx|Hx]; [left; split; [exact Hx|reflexivity]|contradiction].
Qed.

Lemma Jd_master : forall ex n d, WF n -> ID n -> is_master n = true -> local_running n = true -> Jd ex n (Some d).
Proof.
  intros ex n d W I M L _ _. right. unfold is_master in M. apply Z.eqb_eq in M. rewrite M.
  split; [apply me_nonzero; assumption|]. apply sees_running_aget. apply local_running_sees; assumption.
Qed.

Lemma Jd_slave : forall ex n, WF n -> ID n -> Jd ex n (master_state n).
Proof.
  intros ex n W I. unfold Jd, master_state. destruct (aget (master n) (n_views n)) as [v|] eqn:E; [|exact Logic.I].
  intros _ _. right.
  assert (Hm : master n <> 0).
  { intros E0. rewrite E0 in E. destruct W as [_ [_ [W3 _]]]. destruct I as [_ [_ [Z0 _]]].
    specialize (W3 0). unfold amem in W3 at 1. rewrite E in W3. congruence. }
  split; [exact Hm|apply SMlocal; assumption].
Qed.

Lemma check_failure_strategy_dec : forall n lost n' o d, check_failure_strategy n lost = (n', o, Some d) ->
  d = SYNCHRONIZATION \/ (d = SHUTTING_DOWN /\ o_fstrategy (n_opts n) = FS_SHUTDOWN).
Proof.
  intros n lost n' o d H. unfold check_failure_strategy in H.
  destruct (set_degraded n _) as [n1 o1]. injection H as H1 H2 H3.
  match type of H3 with (if ?c then _ else _) = _ => destruct c end; [|discriminate].
  destruct (o_fstrategy (n_opts n)); inversion H3; subst; [left; reflexivity|right; split; reflexivity].
Qed.

Lemma sync_consistence_D : forall n lost n' o d s, WF n -> ID n -> (s <> [] -> StabC n s) ->
  sync_consistence n lost = (n', o, d) ->
  ID n' /\ (s <> [] -> StabC n' s) /\ n_stable n' = n_stable n /\ n_opts n' = n_opts n /\ fsm_state n' = fsm_state n /\
  match d with Some x => soft n' x | None => True end.
Proof.
  intros n lost n' o d s W I HS H. unfold sync_consistence, on_consistence in H.
  destruct (local_running n).
  - assert (Hd : match d with Some x => x = SYNCHRONIZATION \/ (x = SHUTTING_DOWN /\ o_fstrategy (n_opts n) = FS_SHUTDOWN) | None => True end).
    { destruct d; [|exact Logic.I]. eapply check_failure_strategy_dec. exact H. }
    unfold check_failure_strategy in H.
    match type of H with (let '(_, _) := set_degraded n ?b in _) = _ =>
      assert (X := set_degraded_ID n b W I);
      assert (Y : s <> [] -> StabC (fst (set_degraded n b)) s) by (intro Hne; apply set_degraded_StabC; [exact W|apply HS; exact Hne]);
      assert (Z1 : n_stable (fst (set_degraded n b)) = n_stable n /\ n_opts (fst (set_degraded n b)) = n_opts n
                   /\ fsm_state (fst (set_degraded n b)) = fsm_state n)
        by (unfold set_degraded; destruct (Bool.eqb _ b); simpl; repeat split; unfold fsm_state; rewrite own_set_own; reflexivity);
      destruct (set_degraded n b) as [n1 o1] end.
    simpl in X, Y, Z1. injection H as H1 H2 H3. subst n' o. destruct Z1 as [Z1 [Z2 Z3]].
    refine (conj X (conj Y (conj Z1 (conj Z2 (conj Z3 _))))).
    destruct d as [x|]; [|exact Logic.I]. unfold soft. rewrite Z2.
    destruct Hd as [Hd|Hd]; [right; left; exact Hd|right; right; right; exact Hd].
  - inversion H; subst. refine (conj I (conj HS (conj eq_refl (conj eq_refl (conj eq_refl _))))). left. reflexivity.
Qed.

Lemma ms_consistence_D : forall n lost n' o d, WF n -> ID n -> ms_consistence n lost = Ok (n', o, d) ->
  ID n' /\ n_opts n' = n_opts n /\ fsm_state n' = fsm_state n /\
  match d with Some x => soft n' x | None => local_running n' = true end.
Proof.
  intros n lost n' o d W I H. unfold ms_consistence in H.
  destruct (sync_consistence n lost) as [[n1 o1] d1] eqn:E.
  assert (WL := sync_consistence_W n lost n1 o1 d1 W E).
  assert (X : ID n1 /\ n_opts n1 = n_opts n /\ fsm_state n1 = fsm_state n /\ match d1 with Some x => soft n1 x | None => True end).
  { unfold sync_consistence, on_consistence in E. destruct (local_running n).
    - assert (Hd : match d1 with Some x => x = SYNCHRONIZATION \/ (x = SHUTTING_DOWN /\ o_fstrategy (n_opts n) = FS_SHUTDOWN) | None => True end).
      { destruct d1; [|exact Logic.I]. eapply check_failure_strategy_dec. exact E. }
      unfold check_failure_strategy in E.
      match type of E with (let '(_, _) := set_degraded n ?b in _) = _ =>
        assert (X := set_degraded_ID n b W I);
        assert (Z1 : n_opts (fst (set_degraded n b)) = n_opts n /\ fsm_state (fst (set_degraded n b)) = fsm_state n)
          by (unfold set_degraded; destruct (Bool.eqb _ b); simpl; repeat split; unfold fsm_state; rewrite own_set_own; reflexivity);
        destruct (set_degraded n b) as [n2 o2] end.
      simpl in X, Z1. injection E as H1 H2 H3. subst n1 o1. destruct Z1 as [Z2 Z3]. refine (conj X (conj Z2 (conj Z3 _))).
      destruct d1 as [x|]; [|exact Logic.I]. unfold soft. rewrite Z2.
      destruct Hd as [Hd|Hd]; [right; left; exact Hd|right; right; right; exact Hd].
    - inversion E; subst. refine (conj I (conj eq_refl (conj eq_refl _))). left. reflexivity. }
  destruct X as [X1 [X2 [X3 X4]]]. destruct WL as [W1 L1].
  destruct d1 as [x|].
  - inversion H; subst. exact (conj X1 (conj X2 (conj X3 X4))).
  - destruct (check_master n1) as [ok|k]; [|discriminate]. simpl in H. inversion H; subst.
    refine (conj X1 (conj X2 (conj X3 _))). destruct ok; [apply L1; reflexivity|]. right. right. left. reflexivity.
Qed.

Lemma Jd_nm : forall ex n d, needs_master (scode d) = false -> Jd ex n (Some d).
Proof. intros ex n d H Hn. congruence. Qed.

Lemma Jd_same : forall ex n d, d = fsm_state n -> Jd ex n (Some d).
Proof. intros ex n d H _ Hne. contradiction. Qed.

Lemma Jd_known_master : forall ex n x d, WF n -> ID n -> master_state n = Some x -> Jd ex n (Some d).
Proof.
  intros ex n x d W I H _ _. right. unfold master_state in H.
  destruct (aget (master n) (n_views n)) as [v|] eqn:E; [|discriminate].
  assert (Hm : master n <> 0).
  { intros E0. rewrite E0 in E. destruct W as [_ [_ [W3 _]]]. destruct I as [_ [_ [Z0 _]]].
    specialize (W3 0). unfold amem in W3 at 1. rewrite E in W3. congruence. }
  split; [exact Hm|apply SMlocal; assumption].
Qed.

Lemma check_instances_dec : forall n now n' o lost lostp x,
  check_instances n now = Ok (n', o, lost, lostp, Some x) -> x = ELECTION.
Proof.
  intros n now n' o lost lostp x H. unfold check_instances in H.
  destruct (invalidate_failed n now) as [[[[n1 o1] l1] lp1]|k]; [|discriminate].
  destruct (act_of (fsm_state n)).
  - destruct (activate_checked n1 now) as [[[n2 o2] act]|k]; [|discriminate]. inversion H.
  - destruct (activate_checked n1 now) as [[[n2 o2] act]|k]; [|discriminate].
    destruct act; inversion H. reflexivity.
  - inversion H.
Qed.

Lemma fsm_next_D : forall ex n orc now n' o d, IVx ex n -> fsm_next n orc now = Ok (n', o, d) ->
  IVx ex n' /\ Jd ex n' d.
Proof.
  intros ex n orc now n' o d [W [I Hx]] H.
  assert (W' : WF n') by (apply (okW_WF _ _ (fun r => fst (fst r)) _ (fsm_next_okW n orc now W) H)).
  assert (F := fsm_next_FR _ _ _ _ _ _ H). destruct F as [[_ [Ko _]] [Es _]].
  assert (Hx' : ex = true \/ o_fstrategy (n_opts n') <> FS_SHUTDOWN) by (rewrite Ko; exact Hx).
  cut (ID n' /\ Jd ex n' d); [intros [A B]; split; [split; [exact W'|split; [exact A|exact Hx']]|exact B]|].
  unfold fsm_next in H.
  destruct (check_instances n now) as [[[[[n1 o1] lost] lostp] d1]|k] eqn:E1; [|discriminate].
  assert (IV1 : IV n1) by (eapply check_instances_IV; [exact E1|split; assumption]). destruct IV1 as [W1 I1].
  destruct d1 as [d1|].
  { apply check_instances_dec in E1. inversion H; subst. split; [exact I1|]. apply Jd_nm. reflexivity. }
  destruct (evaluate_stability n1) as [n2|k] eqn:E2; [|discriminate].
  assert (W2 : WF n2) by (apply (okW_WF _ _ (fun r => r) _ (evaluate_stability_okW n1 W1) E2)).
  destruct (evaluate_stability_StabC n1 n2 I1 E2) as [En2 HS2].
  assert (I2 : ID n2) by (rewrite En2; eapply ID_same; [exact I1| | | |]; reflexivity).
  clear E1 E2 En2.
  destruct (fsm_state n) eqn:Est.
  - (* OFF *) inversion H; subst. split; [exact I2|]. apply Jd_nm. destruct (local_running n'); reflexivity.
  - (* SYNCHRONIZATION *)
    unfold on_consistence in H. destruct (local_running n2).
    + assert (Eu : o_user (n_opts n2) = false) by apply I2. rewrite Eu in H.
      match type of H with (let '(_, _) := set_degraded n2 ?b in _) = _ =>
        assert (X := set_degraded_ID n2 b W2 I2); destruct (set_degraded n2 b) as [n4 o4] end.
      simpl in X. inversion H; subst. split; [exact X|]. apply Jd_nm.
      match goal with |- context [if ?c then ELECTION else SYNCHRONIZATION] => destruct c end; reflexivity.
    + inversion H; subst. split; [exact I2|]. apply Jd_nm. reflexivity.
  - (* ELECTION *)
    destruct (sync_consistence n2 lost) as [[n3 o3] d3] eqn:E3.
    assert (WL := sync_consistence_W n2 lost n3 o3 d3 W2 E3). destruct WL as [W3 L3].
    destruct (sync_consistence_D n2 lost n3 o3 d3 (n_stable n2) W2 I2 HS2 E3) as [I3 [HS3 [Est3 [Eo3 [Ef3 Hd3]]]]].
    destruct d3 as [x|].
    { inversion H; subst. split; [exact I3|]. apply Jd_soft; assumption. }
    specialize (L3 eq_refl).
    assert (SM : is_stable n3 = true -> forall r, select_master n3 = Ok r -> ID (fst r)).
    { intros Hst [n4 o4] E4. simpl. unfold is_stable in Hst.
      eapply (select_master_ID n3 (n_stable n3)); try eassumption.
      - rewrite Est3. apply HS3. rewrite <- Est3. intro E0. rewrite E0 in Hst. discriminate.
      - intro E0. rewrite E0 in Hst. discriminate. }
    destruct (is_stable n3) eqn:Hst; [|inversion H; subst; split; [exact I3|apply Jd_nm; reflexivity]].
    specialize (SM eq_refl).
    assert (SMb : forall oa ob, bind (select_master n3) (fun r => Ok (fst r, oa ++ ob ++ snd r, Some ELECTION)) = Ok (n', o, d) ->
                  ID n' /\ Jd ex n' d).
    { intros oa ob Hb. destruct (select_master n3) as [r|k] eqn:E4; [|discriminate]. simpl in Hb. inversion Hb; subst.
      split; [apply SM; reflexivity|apply Jd_nm; reflexivity]. }
    destruct (check_master n3) as [[|]|k]; [| |discriminate].
    + destruct (is_master n3) eqn:M.
      * inversion H; subst. split; [exact I3|]. apply Jd_master; assumption.
      * destruct (master_state n3) as [x|] eqn:Ems.
        -- destruct x; first [ apply (SMb o1 o3); exact H
                             | inversion H; subst; split; [exact I3|]; eapply Jd_known_master; eassumption ].
        -- apply (SMb o1 o3); exact H.
    + apply (SMb o1 o3); exact H.
  - (* DISTRIBUTION *)
    destruct (ms_consistence n2 lost) as [[[n3 o3] d3]|k] eqn:E3; [|discriminate].
    assert (W3 : WF n3) by (apply (okW_WF _ _ (fun r => fst (fst r)) _ (ms_consistence_okW n2 lost W2) E3)).
    destruct (ms_consistence_D n2 lost n3 o3 d3 W2 I2 E3) as [I3 [Eo3 [Ef3 Hd3]]].
    destruct d3 as [x|]; [inversion H; subst; split; [exact I3|apply Jd_soft; assumption]|].
    destruct (is_master n3) eqn:M; inversion H; subst; (split; [exact I3|]);
      [apply Jd_master; assumption|apply Jd_slave; assumption].
  - (* OPERATION *)
    destruct (ms_consistence n2 lost) as [[[n3 o3] d3]|k] eqn:E3; [|discriminate].
    assert (W3 : WF n3) by (apply (okW_WF _ _ (fun r => fst (fst r)) _ (ms_consistence_okW n2 lost W2) E3)).
    destruct (ms_consistence_D n2 lost n3 o3 d3 W2 I2 E3) as [I3 [Eo3 [Ef3 Hd3]]].
    destruct d3 as [x|]; [inversion H; subst; split; [exact I3|apply Jd_soft; assumption]|].
    destruct (is_master n3) eqn:M; inversion H; subst; (split; [exact I3|]);
      [apply Jd_master; assumption|apply Jd_slave; assumption].
  - (* CONCILIATION *)
    destruct (ms_consistence n2 lost) as [[[n3 o3] d3]|k] eqn:E3; [|discriminate].
    assert (W3 : WF n3) by (apply (okW_WF _ _ (fun r => fst (fst r)) _ (ms_consistence_okW n2 lost W2) E3)).
    destruct (ms_consistence_D n2 lost n3 o3 d3 W2 I2 E3) as [I3 [Eo3 [Ef3 Hd3]]].
    destruct d3 as [x|]; [inversion H; subst; split; [exact I3|apply Jd_soft; assumption]|].
    destruct (is_master n3) eqn:M; [|inversion H; subst; split; [exact I3|apply Jd_slave; assumption]].
    destruct (or_starting orc || or_stopping orc);
      [inversion H; subst; split; [exact I3|apply Jd_master; assumption]|].
    destruct (negb (or_conflict orc)); inversion H; subst; (split; [exact I3|apply Jd_master; assumption]).
  - (* RESTARTING *)
    destruct (ms_consistence n2 lost) as [[[n3 o3] d3]|k] eqn:E3; [|discriminate].
    destruct (ms_consistence_D n2 lost n3 o3 d3 W2 I2 E3) as [I3 [Eo3 [Ef3 Hd3]]].
    destruct d3 as [x|]; [inversion H; subst; split; [exact I3|apply Jd_nm; reflexivity]|].
    destruct (is_master n3) eqn:M; inversion H; subst; (split; [exact I3|]).
    + destruct (or_stopping orc); [apply Jd_same; congruence|apply Jd_nm; reflexivity].
    + unfold ending_slave_next. destruct (master_state n') as [ms|]; [|apply Jd_nm; reflexivity].
      destruct (sstate_eqb ms RESTARTING); [apply Jd_same; congruence|apply Jd_nm; reflexivity].
  - (* SHUTTING_DOWN *)
    destruct (ms_consistence n2 lost) as [[[n3 o3] d3]|k] eqn:E3; [|discriminate].
    destruct (ms_consistence_D n2 lost n3 o3 d3 W2 I2 E3) as [I3 [Eo3 [Ef3 Hd3]]].
    destruct d3 as [x|]; [inversion H; subst; split; [exact I3|apply Jd_nm; reflexivity]|].
    destruct (is_master n3) eqn:M; inversion H; subst; (split; [exact I3|]).
    + destruct (or_stopping orc); [apply Jd_same; congruence|apply Jd_nm; reflexivity].
    + unfold ending_slave_next. destruct (master_state n') as [ms|]; [|apply Jd_nm; reflexivity].
      destruct (sstate_eqb ms SHUTTING_DOWN); [apply Jd_same; congruence|apply Jd_nm; reflexivity].
  - (* FINAL *) inversion H; subst. split; [exact I2|exact Logic.I].
Qed.


(* ---------- the loop, the requests ---------- *)
Lemma aget_map_icode : forall m (l : alist istate),
  aget m (map (fun kv => (fst kv, icode (snd kv))) l) = option_map icode (aget m l).
Proof.
  intros m l. induction l as [|[k v] r IH]; simpl; [reflexivity|]. destruct (Z.eqb m k); [reflexivity|exact IH].
Qed.

Lemma sees_running_in_pub : forall n m, sees_running_in m (pub_insts n) = sees_running n m.
Proof.
  intros n m. unfold sees_running_in, pub_insts, sees_running. rewrite aget_map_icode.
  destruct (aget m (sm_insts (own n))) as [[]|]; reflexivity.
Qed.

Lemma IVx_of_IV : forall ex n n', IVx ex n -> IV n' -> n_opts n' = n_opts n -> IVx ex n'.
Proof. intros ex n n' [_ [_ Hx]] [W I] E. split; [exact W|]. split; [exact I|]. rewrite E. exact Hx. Qed.

Lemma IVx_IV : forall ex n, IVx ex n -> IV n.
Proof. intros ex n [W [I _]]. split; assumption. Qed.

Lemma enter_D : forall ex n ns now, IVx ex n -> Jd ex n (Some ns) -> ns <> fsm_state n ->
  fsm_transition_ok (fsm_state n) ns = true ->
  Qok true ex ns (master n) (pub_insts n) /\ IVx ex (fst (enter_state (fst (set_fsm n ns)) ns now)).
Proof.
  intros ex n ns now HI HJ Hne Hok. split.
  - unfold Qok. simpl. destruct (needs_master (scode ns)) eqn:En; [|reflexivity]. simpl.
    destruct (HJ En Hne) as [[Hex Hs]|[Hm Hr]].
    + subst. reflexivity.
    + rewrite sees_running_in_pub, Hr. apply Z.eqb_neq in Hm. rewrite Hm. apply orb_true_r.
  - destruct HI as [W [I Hx]].
    assert (W1 := set_fsm_WF n ns W). assert (I1 := set_fsm_ID n ns W I).
    assert (O1 : n_opts (fst (set_fsm n ns)) = n_opts n) by (unfold set_fsm; destruct (sstate_eqb _ ns); reflexivity).
    destruct (set_fsm n ns) as [n1 o1]. simpl in *.
    assert (W2 := enter_state_WF n1 ns now W1).
    assert (X : ID (fst (enter_state n1 ns now)) /\ n_opts (fst (enter_state n1 ns now)) = n_opts n1).
    { destruct ns; simpl; split; first [exact I1|reflexivity]. }
    destruct X as [I2 O2]. split; [exact W2|]. split; [exact I2|]. rewrite O2, O1. exact Hx.
Qed.

Lemma ending_D : forall ex n t, IVx ex n -> is_master n = true -> (t = RESTARTING \/ t = SHUTTING_DOWN) -> Jd ex n (Some t).
Proof.
  intros ex n t [W [I _]] M _ _ _. right. unfold is_master in M. apply Z.eqb_eq in M.
  assert (Hm : master n <> 0) by (rewrite M; apply me_nonzero; assumption).
  split; [exact Hm|apply SMlocal; assumption].
Qed.

Lemma fsm_run_D : forall ex n orcs now n' outs, IVx ex n -> fsm_run n orcs now = Ok (n', outs) ->
  IVx ex n' /\ TR (Qok true ex) n outs n'.
Proof.
  intros ex n orcs now n' outs HI H.
  apply (fsm_run_TR (Qok true ex) (IVx ex) (Jd ex)) with (orcs := orcs) (now := now); try assumption.
  - intros. eapply fsm_next_D; eassumption.
  - intros. apply enter_D; assumption.
Qed.

Lemma on_ending_D : forall ex n t orcs now err n' outs, IVx ex n -> (t = RESTARTING \/ t = SHUTTING_DOWN) ->
  on_ending n t orcs now err = Ok (n', outs) -> IVx ex n' /\ TR (Qok true ex) n outs n'.
Proof.
  intros ex n t orcs now err n' outs HI Ht H.
  apply (on_ending_TR (Qok true ex) (IVx ex) (Jd ex)) with (t := t) (orcs := orcs) (now := now) (err := err); try assumption.
  - intros. eapply fsm_next_D; eassumption.
  - intros. apply enter_D; assumption.
  - intros. apply ending_D; assumption.
Qed.

(* ---------- events ---------- *)
(* hypotheses on the received events for the Master part:
   - a peer publication is SM-local (the peer is a Supvisors instance: own_sm_local holds of it),
   - end_sync names an instance seen RUNNING (checked by the XML-RPC gate; the form without a name is only
     accepted with the USER option, excluded by ID) *)
Definition evD (n : node) (e : event) : bool :=
  match e with
  | PeerState _ st dg m insts _ _ => sm_local (mkSm st dg m insts)
  | ReqEndSync m _ _ => negb (Z.eqb m 0) && sees_running n m
  | _ => true
  end.

Lemma step_WF : forall n e n' outs, WF n -> step n e = Ok (n', outs) -> WF n'.
Proof.
  intros n e n' outs W H. destruct (wf_event n e) eqn:Ew.
  - assert (X := step_okF n e W Ew). rewrite H in X. exact X.
  - destruct (not_wf_crashes n e W Ew) as [k Ek]. congruence.
Qed.

Lemma IV_tick : forall n j s s', IV n -> aget j (n_insts n) = Some s -> is_state s' = is_state s ->
  IV (set_insts n (aset j s' (n_insts n))).
Proof.
  intros n j s s' [W I] Ej Es. split; [eapply WF_tick; eassumption|].
  eapply ID_same; [exact I| | | |]; try reflexivity.
  intros k. simpl. apply amem_aset_same. unfold amem. rewrite Ej. reflexivity.
Qed.

Theorem step_D : forall ex n e n' outs, IVx ex n -> evD n e = true -> step n e = Ok (n', outs) ->
  IVx ex n' /\ TR (Qok true ex) n outs n'.
Proof.
  intros ex n e n' outs HI He H.
  assert (HIV := IVx_IV ex n HI).
  (* events that do not run the FSM: frame + invariant *)
  assert (NF : forall n1 o1, IV n1 -> FR n o1 n1 -> IVx ex n1 /\ TR (Qok true ex) n o1 n1).
  { intros n1 o1 I1 F1. split; [|apply FR_TR; exact F1]. eapply IVx_of_IV; [exact HI|exact I1|apply F1]. }
  destruct e; simpl in H, He.
  - (* LocalTick *)
    destruct (aget (n_me n) (n_insts n)) as [s|] eqn:Es; [|discriminate].
    match type of H with context [set_inst_state ?x _ _ _] => set (n1 := x) in * end.
    assert (F1 : FR n [] n1) by apply set_insts_FR.
    assert (I1 : IV n1) by (eapply IV_tick; [exact HIV|exact Es|reflexivity]).
    match type of H with match ?u with _ => _ end = _ => destruct u as [[n2 o2]|k] eqn:E2; [|discriminate] end.
    assert (X2 : FR n1 o2 n2 /\ IV n2).
    { destruct (istate_eqb (is_state s) ISTOPPED).
      - destruct (set_inst_state n1 (n_me n) CHECKING now) as [[n2' o2']|k] eqn:E; [|discriminate].
        simpl in E2. inversion E2; subst. split.
        + apply set_inst_state_FR in E. eapply FR_trans; [exact E|apply FR_plain; reflexivity].
        + eapply set_inst_state_IV; eassumption.
      - inversion E2; subst. split; [apply FR_refl|exact I1]. }
    destruct X2 as [F2 I2].
    destruct (on_timer n2 cnt now) as [[n3 o3]|k] eqn:E3; [|discriminate].
    assert (I3 := on_timer_IV _ _ _ _ _ E3 I2). apply on_timer_FR in E3.
    match type of H with (let '(_, _) := ?u in _) = _ => destruct u as [n4 o4] eqn:E4 end.
    assert (X4 : FR n3 o4 n4 /\ IV n4).
    { destruct (n_mark n3); inversion E4; subst.
      - split; [apply (FR_nil_r n3 n3); [apply FR_publish|apply FR_silent; [repeat split|reflexivity]]|].
        eapply IV_same; [exact I3| | | | |]; reflexivity.
      - split; [apply FR_refl|exact I3]. }
    destruct X4 as [F4 I4].
    destruct (fsm_run n4 orcs now) as [[n5 o5]|k] eqn:E5; [|discriminate]. simpl in H. inversion H; subst.
    assert (F14 : FR n (o2 ++ o3 ++ o4) n4).
    { apply (FR_nil_l n n1); [exact F1|]. eapply FR_trans; [exact F2|]. eapply FR_trans; [exact E3|exact F4]. }
    assert (HI4 : IVx ex n4) by (eapply IVx_of_IV; [exact HI|exact I4|apply F14]).
    destruct (fsm_run_D ex _ _ _ _ _ HI4 E5) as [HI5 T5]. split; [exact HI5|].
    replace (o2 ++ o3 ++ o4 ++ o5) with ((o2 ++ o3 ++ o4) ++ o5) by (rewrite <- !app_assoc; reflexivity).
    eapply TR_trans; [apply FR_TR; exact F14|exact T5].
  - (* PeerTick *)
    destruct (resolve n og) as [j|]; [|inversion H; subst; apply NF; [exact HIV|apply FR_refl]].
    destruct (local_checked_or_running n); [|inversion H; subst; apply NF; [exact HIV|apply FR_refl]].
    destruct (aget j (n_insts n)) as [s|] eqn:Es; [|discriminate].
    match type of H with context [set_insts n ?x] => assert (I1 : IV (set_insts n x))
      by (eapply IV_tick; [exact HIV|exact Es|reflexivity]) end.
    destruct (istate_eqb (is_state s) ISTOPPED).
    + match type of H with context [set_inst_state ?x _ _ _] => set (n1 := x) in * end.
      destruct (set_inst_state n1 j CHECKING now) as [[n2 o2]|k] eqn:E; [|discriminate].
      simpl in H. inversion H; subst. apply NF; [eapply set_inst_state_IV; eassumption|].
      apply set_inst_state_FR in E. apply (FR_nil_l n n1); [apply set_insts_FR|].
      eapply FR_trans; [exact E|apply FR_plain; reflexivity].
    + inversion H; subst. apply NF; [exact I1|apply set_insts_FR].
  - (* PeerState *)
    destruct (resolve n og) as [j|] eqn:Er; [|inversion H; subst; apply NF; [exact HIV|apply FR_refl]].
    apply resolve_some in Er. destruct Er as [_ [_ [s [Es _]]]].
    match type of H with context [fsm_run ?x _ _] => set (n1 := x) in * end.
    assert (X1 : FR n [] n1 /\ IV n1).
    { unfold n1. destruct (Z.eqb j (n_me n)) eqn:E; [split; [apply FR_refl|exact HIV]|].
      apply Z.eqb_neq in E. split; [apply FR_silent; [repeat split|]; apply own_set_views_other; exact E|].
      destruct HIV as [W I].
      assert (Hj : amem j (n_views n) = true).
      { destruct W as [_ [_ [W3 _]]]. rewrite W3. unfold amem. rewrite Es. reflexivity. }
      split.
      - apply (WF_fields n); try reflexivity; [exact W| |].
        + intros k. simpl. apply amem_aset_same. exact Hj.
        + intros k. rewrite own_set_views_other; [|exact E]. destruct W as [_ [W2 _]]. apply W2.
      - destruct I as [I1 [I2 [I3 [I4 I5]]]]. repeat split.
        + simpl. rewrite akeys_aset; [exact I1|exact Hj].
        + rewrite own_set_views_other; [exact I2|exact E].
        + exact I3.
        + intros k v. simpl. rewrite aget_aset. destruct (Z.eqb k j); [|apply I4].
          intros X. inversion X; subst. exact He.
        + exact I5. }
    destruct X1 as [F1 I1].
    destruct (Z.eqb j (master n1)).
    + assert (HI1 : IVx ex n1) by (eapply IVx_of_IV; [exact HI|exact I1|apply F1]).
      destruct (fsm_run_D ex _ _ _ _ _ HI1 H) as [HI2 T2]. split; [exact HI2|].
      apply (TR_nil_l _ n n1); [apply FR_TR; exact F1|exact T2].
    + inversion H; subst. apply NF; assumption.
  - (* Ident *) inversion H; subst. apply NF; [exact HIV|apply FR_refl].
  - (* Auth *)
    destruct (resolve n og) as [j|]; [|inversion H; subst; apply NF; [exact HIV|apply FR_refl]].
    destruct (aget j (n_insts n)) as [s|]; [|discriminate].
    destruct (is_checking s ts); [|inversion H; subst; apply NF; [exact HIV|apply FR_refl]].
    destruct a; apply NF;
      first [eapply set_inst_state_IV; eassumption | eapply invalidate_IV; eassumption
            | eapply set_inst_state_FR; eassumption | eapply invalidate_FR; eassumption].
  - (* AllInfo *)
    destruct (resolve n og) as [j|]; [|inversion H; subst; apply NF; [exact HIV|apply FR_refl]].
    destruct info as [b|]; [|apply NF; [eapply set_inst_state_IV; eassumption|eapply set_inst_state_FR; eassumption]].
    destruct (inst_state n j) as [[]|]; inversion H; subst; try (apply NF; [exact HIV|apply FR_refl]).
    destruct b; [|apply NF; [exact HIV|apply FR_refl]].
    apply NF; [eapply IV_same; [exact HIV| | | | |]; reflexivity|apply FR_silent; [repeat split|reflexivity]].
  - (* InstFailure *)
    destruct (resolve n og) as [j|]; [|inversion H; subst; apply NF; [exact HIV|apply FR_refl]].
    destruct (inst_state n j) as [s|]; [|inversion H; subst; apply NF; [exact HIV|apply FR_refl]].
    destruct (has_active_state s); [|inversion H; subst; apply NF; [exact HIV|apply FR_refl]].
    apply NF; [eapply set_inst_state_IV; eassumption|eapply set_inst_state_FR; eassumption].
  - (* ProcCrash *)
    destruct (is_master n) eqn:M; [|inversion H; subst; apply NF; [exact HIV|apply FR_refl]].
    destruct strat; try (inversion H; subst; apply NF; [exact HIV|apply FR_refl]).
    + inversion H; subst. apply NF; [exact HIV|]. apply FR_by_master; [exact M|destruct forced; reflexivity].
    + inversion H; subst. apply NF; [exact HIV|]. apply FR_by_master; [exact M|destruct forced; reflexivity].
    + eapply on_ending_D; [exact HI|right; reflexivity|exact H].
    + eapply on_ending_D; [exact HI|left; reflexivity|exact H].
  - (* ReqRestart *) eapply on_ending_D; [exact HI|left; reflexivity|exact H].
  - (* ReqShutdown *) eapply on_ending_D; [exact HI|right; reflexivity|exact H].
  - (* ReqEndSync *)
    apply andb_prop in He. destruct He as [Hm0 Hr]. apply negb_true_iff in Hm0. rewrite Hm0 in H.
    destruct (set_master n m) as [n1 o1] eqn:E1.
    assert (F1 := set_master_FR _ _ _ _ E1).
    assert (I1 : IV n1).
    { destruct HIV as [W I]. assert (A := set_master_WF n m W). assert (B := set_master_ID n m W I (or_intror Hr)).
      rewrite E1 in A, B. split; assumption. }
    destruct (fsm_run n1 orcs now) as [[n2 o2]|k] eqn:E2; [|discriminate]. simpl in H. inversion H; subst.
    assert (HI1 : IVx ex n1) by (eapply IVx_of_IV; [exact HI|exact I1|apply F1]).
    destruct (fsm_run_D ex _ _ _ _ _ HI1 E2) as [HI2 T2]. split; [exact HI2|].
    eapply TR_trans; [apply FR_TR; exact F1|exact T2].
Qed.


(* D: each entry into DISTRIBUTION, OPERATION, CONCILIATION, RESTARTING, SHUTTING_DOWN is published with a known
   Master that the instance sees RUNNING (ex = true: except SHUTTING_DOWN, finding F5; ex = false: the SHUTDOWN
   failure strategy is not configured) *)
Theorem enter_needs_running_master_partial : forall ex n e n' outs, IVx ex n -> evD n e = true ->
  step n e = Ok (n', outs) ->
  c02_chain (scode (fsm_state n)) (pub_chain (observe n' outs)) true ex = true.
Proof.
  intros ex n e n' outs HI He H. destruct (step_D ex n e n' outs HI He H) as [_ [_ T]].
  rewrite pub_chain_observe. eapply tr_c02_chain. exact T.
Qed.

Definition evD_hist : node -> list event -> Prop := hist_ok (fun n e => evD n e = true).

Theorem run_enter_needs_running_master_partial : forall ex n evs, IVx ex n -> evD_hist n evs ->
  nspec_ok (mkFlags true true ex false false false false false) (n, evs, run n evs) = true.
Proof.
  intros ex n evs HI Hh. unfold nspec_ok.
  apply (nspec_walk_run _ n (IVx ex) (fun n e => evD n e = true)); [| |exact HI|exact Hh].
  - intros n1 e n' outs HI1 He H. destruct (step_D ex n1 e n' outs HI1 He H) as [HI' _]. split; [exact HI'|].
    unfold step_checks. simpl. rewrite (enter_needs_running_master_partial ex _ _ _ _ HI1 He H). reflexivity.
  - intros. reflexivity.
Qed.

(* ---------- the hypotheses are needed: witnesses ---------- *)
Definition ex3_node (user : bool) : node :=
  let own0 := mkSm OFF false 0 [(1, ISTOPPED); (2, ISTOPPED); (3, ISTOPPED)] in
  mkNode 1 (mkOpts 2 false false false true false user 0 FS_CONTINUE) [] [] [(1, 1); (2, 2); (3, 3)]
         [(1, mkIst ISTOPPED 0 0 0); (2, mkIst ISTOPPED 0 0 0); (3, mkIst ISTOPPED 0 0 0)]
         [(1, own0); (2, sm_fresh); (3, sm_fresh)] [] false 0 [].
Definition og3 := mkOrigin (Some 3) true.
Definition all_r := [(1, IRUNNING); (2, IRUNNING); (3, IRUNNING)].
(* instance 2 publishes a Master (3) that its own instance states do not show RUNNING: not SM-local *)
Definition byz_hist : list event :=
  [LocalTick 1 10 [orc0]; Auth og1 A_AUTHORIZED 11 12; PeerTick og2 1 13; Auth og2 A_AUTHORIZED 14 15;
   PeerState og2 DISTRIBUTION false 3 [(1, IRUNNING); (2, IRUNNING); (3, ISTOPPED)] 16 [orc0];
   PeerState og3 DISTRIBUTION false 3 all_r 17 [orc0];
   LocalTick 2 20 [orc0]; LocalTick 3 25 [orc0]].


Ltac nodup_keys := repeat (constructor; [simpl; intuition discriminate|]); constructor.

Lemma ex3_node_WF : forall user, WF (ex3_node user).
Proof.
  intros user. repeat split.
  - intros j. simpl. destruct (Z.eqb j 1); [reflexivity|]. destruct (Z.eqb j 2); [reflexivity|]. destruct (Z.eqb j 3); reflexivity.
  - intros j. unfold amem. simpl. destruct (Z.eqb j 1); [reflexivity|]. destruct (Z.eqb j 2); [reflexivity|]. destruct (Z.eqb j 3); reflexivity.
  - intros j. unfold amem. simpl. destruct (Z.eqb j 1); [reflexivity|]. destruct (Z.eqb j 2); [reflexivity|].
    destruct (Z.eqb j 3); [reflexivity|discriminate].
Qed.

Lemma ex3_node_ID : ID (ex3_node false).
Proof.
  repeat split; try (simpl; nodup_keys).
  intros j v. simpl. destruct (Z.eqb j 1); [intro E; inversion E; reflexivity|].
  destruct (Z.eqb j 2); [intro E; inversion E; reflexivity|].
  destruct (Z.eqb j 3); [intro E; inversion E; reflexivity|discriminate].
Qed.

(* (2) a publication that is not SM-local installs a Master that is not seen RUNNING: DISTRIBUTION is entered with it *)
Theorem byzantine_master_refuted : exists n evs, IVx true n /\
  nspec_ok (mkFlags true true true false false false false false) (n, evs, run n evs) = false.
Proof.
  exists (ex3_node false), byz_hist. split; [|vm_compute; reflexivity].
  split; [apply ex3_node_WF|]. split; [apply ex3_node_ID|left; reflexivity].
Qed.

(* USER synchronization: every publication is SM-local, but the Master accepted from a peer is never seen RUNNING *)
Definition user_hist : list event :=
  [LocalTick 1 10 [orc0]; Auth og1 A_AUTHORIZED 11 12; PeerTick og2 1 13; Auth og2 A_AUTHORIZED 14 15;
   PeerState og2 ELECTION false 3 all_r 16 [orc0];
   PeerState og3 DISTRIBUTION false 3 all_r 17 [orc0];
   LocalTick 2 20 [orc0]; InstFailure og2 21; LocalTick 3 25 [orc0]].

(* (3) with the USER option the hypothesis o_user = false of ID is needed, even with SM-local publications only *)
Theorem user_sync_master_refuted : exists n evs, WF n /\ evD_hist n evs /\
  nspec_ok (mkFlags true true true false false false false false) (n, evs, run n evs) = false.
Proof.
  exists (ex3_node true), user_hist. split; [apply ex3_node_WF|]. split; [vm_compute; repeat split|vm_compute; reflexivity].
Qed.

(* the hypotheses are satisfiable, on a history that enters DISTRIBUTION and OPERATION *)
Lemma ex_node_ID : forall strict fs, ID (ex_node strict fs).
Proof.
  intros strict fs. repeat split; try (simpl; nodup_keys).
  intros j v. simpl. destruct (Z.eqb j 1); [intro E; inversion E; reflexivity|].
  destruct (Z.eqb j 2); [intro E; inversion E; reflexivity|discriminate].
Qed.

Example ex_enter_needs_running_master :
  nspec_ok (mkFlags true true false false false false false false)
           (ex_node false FS_CONTINUE, ex_hist, run (ex_node false FS_CONTINUE) ex_hist) = true.
Proof.
  apply run_enter_needs_running_master_partial.
  - split; [apply ex_node_WF|]. split; [apply ex_node_ID|right; discriminate].
  - vm_compute. repeat split.
Qed.

(* ====================================================================== *)
(* D'. C02: a non-Master follows its Master                                *)
(* ====================================================================== *)
Definition NoFailed (n : node) : Prop := forall j s, aget j (n_insts n) = Some s -> is_state s <> FAILED.

(* instance statuses after a successful set_inst_state *)
Lemma set_inst_state_insts : forall n j st now n' o, set_inst_state n j st now = Ok (n', o) ->
  n_hosting n' = n_hosting n /\
  ((n_insts n' = n_insts n /\ exists s, aget j (n_insts n) = Some s /\ is_state s = st)
   \/ exists s', is_state s' = st /\ n_insts n' = aset j s' (n_insts n)).
Proof.
  intros n j st now n' o H. unfold set_inst_state in H.
  destruct (aget j (n_insts n)) as [s|] eqn:Ej; [|discriminate].
  destruct (istate_eqb (is_state s) st) eqn:E.
  - inversion H; subst. split; [reflexivity|]. left. split; [reflexivity|]. exists s. split; [reflexivity|].
    apply istate_eqb_eq. exact E.
  - destruct (inst_transition_ok (is_state s) st); [|discriminate]. inversion H as [H1]. clear H.
    apply update_instance_state_fields in H1. destruct H1 as [_ [_ [A3 [A4 _]]]]. simpl in A3, A4.
    split; [exact A4|]. right. eexists. split; [|exact A3]. reflexivity.
Qed.

Lemma set_inst_state_insts_self : forall n j st now n' o, set_inst_state n j st now = Ok (n', o) ->
  forall s, aget j (n_insts n') = Some s -> is_state s = st.
Proof.
  intros n j st now n' o H s Hs. apply set_inst_state_insts in H.
  destruct H as [_ [[E [s0 [Ej Es]]]|[s' [Es' E]]]]; rewrite E in Hs.
  - congruence.
  - rewrite aget_aset, Z.eqb_refl in Hs. congruence.
Qed.

Lemma set_inst_state_insts_other : forall n j st now n' o, set_inst_state n j st now = Ok (n', o) ->
  forall k, k <> j -> aget k (n_insts n') = aget k (n_insts n).
Proof.
  intros n j st now n' o H k Hk. apply set_inst_state_insts in H.
  destruct H as [_ [[E _]|[s' [_ E]]]]; rewrite E; [reflexivity|].
  rewrite aget_aset. apply Z.eqb_neq in Hk. rewrite Hk. reflexivity.
Qed.

Lemma invalidate_insts_self : forall n j fence now n' o, invalidate n j fence now = Ok (n', o) ->
  forall s, aget j (n_insts n') = Some s -> is_state s <> FAILED.
Proof.
  intros n j fence now n' o H s Hs. unfold invalidate in H.
  destruct (Z.eqb j (n_me n)); [rewrite (set_inst_state_insts_self _ _ _ _ _ _ H s Hs); discriminate|].
  destruct (fence || _); rewrite (set_inst_state_insts_self _ _ _ _ _ _ H s Hs); discriminate.
Qed.

Lemma invalidate_insts_other : forall n j fence now n' o, invalidate n j fence now = Ok (n', o) ->
  forall k, k <> j -> aget k (n_insts n') = aget k (n_insts n).
Proof.
  intros n j fence now n' o H k Hk. unfold invalidate in H.
  destruct (Z.eqb j (n_me n)); [eapply set_inst_state_insts_other; eassumption|].
  destruct (fence || _); eapply set_inst_state_insts_other; eassumption.
Qed.

(* after invalidate_failed no instance is FAILED *)
Lemma invalidate_failed_aux_NoFailed : forall ids n acc lost lostp now n' outs lost' lostp',
  invalidate_failed_aux ids n acc lost lostp now = Ok (n', outs, lost', lostp') ->
  (forall k s, aget k (n_insts n) = Some s -> is_state s = FAILED -> In k ids) -> NoFailed n'.
Proof.
  induction ids as [|j r IH]; simpl; intros n acc lost lostp now n' outs lost' lostp' H Hin.
  - inversion H; subst. intros k s Hk Hf. eapply Hin; eassumption.
  - unfold inst_state in H. destruct (aget j (n_insts n)) as [sj|] eqn:Ej.
    + destruct (is_state sj) eqn:Esj;
        try (eapply IH; [exact H|]; intros k s Hk Hf; destruct (Hin k s Hk Hf) as [X|X]; [subst; congruence|exact X]).
      destruct (invalidate n j false now) as [[n1 o1]|kk] eqn:E; [|discriminate].
      eapply IH; [exact H|]. simpl. intros k s Hk Hf.
      destruct (Z.eq_dec k j) as [->|Hne].
      * exfalso. eapply (invalidate_insts_self _ _ _ _ _ _ E); eassumption.
      * rewrite (invalidate_insts_other _ _ _ _ _ _ E k Hne) in Hk.
        destruct (Hin k s Hk Hf) as [X|X]; [congruence|exact X].
    + eapply IH; [exact H|]. intros k s Hk Hf. destruct (Hin k s Hk Hf) as [X|X]; [subst; congruence|exact X].
Qed.

Lemma invalidate_failed_NoFailed : forall n now n' o lost lostp,
  invalidate_failed n now = Ok (n', o, lost, lostp) -> NoFailed n'.
Proof.
  intros n now n' o lost lostp H. unfold invalidate_failed in H.
  eapply invalidate_failed_aux_NoFailed; [exact H|]. intros k s Hk _. eapply aget_In_keys. exact Hk.
Qed.

(* and when none is FAILED it does nothing *)
Lemma invalidate_failed_aux_id : forall ids n acc lost lostp now, NoFailed n ->
  invalidate_failed_aux ids n acc lost lostp now = Ok (n, acc, lost, lostp).
Proof.
  induction ids as [|j r IH]; simpl; intros n acc lost lostp now Hn; [reflexivity|].
  unfold inst_state. destruct (aget j (n_insts n)) as [sj|] eqn:Ej; [|apply IH; exact Hn].
  assert (X := Hn j sj Ej). destruct (is_state sj); try (apply IH; exact Hn). congruence.
Qed.

Lemma invalidate_failed_id : forall n now, NoFailed n -> invalidate_failed n now = Ok (n, [], [], false).
Proof. intros n now Hn. unfold invalidate_failed. apply invalidate_failed_aux_id. exact Hn. Qed.

(* ---------- what does not move while no instance fails ---------- *)
(* same Master, same FSM state, same views of the other instances *)
Definition Vsame (n n' : node) : Prop :=
  n_me n' = n_me n /\ master n' = master n /\ fsm_state n' = fsm_state n /\
  (forall k, k <> n_me n -> aget k (n_views n') = aget k (n_views n)).

Lemma Vsame_refl : forall n, Vsame n n.
Proof. intros n. repeat split. Qed.

Lemma Vsame_trans : forall a b c, Vsame a b -> Vsame b c -> Vsame a c.
Proof.
  intros a b c [A1 [A2 [A3 A4]]] [B1 [B2 [B3 B4]]]. repeat split; try congruence.
  intros k Hk. rewrite B4; [apply A4; exact Hk|congruence].
Qed.

Lemma Vsame_set_own : forall n s, sm_master s = master n -> sm_fsm s = fsm_state n -> Vsame n (set_own n s).
Proof.
  intros n s Hm Hf. split; [reflexivity|]. unfold master, fsm_state. rewrite own_set_own.
  split; [exact Hm|]. split; [exact Hf|]. intros k Hk. simpl. rewrite aget_aset.
  apply Z.eqb_neq in Hk. rewrite Hk. reflexivity.
Qed.

Lemma Vsame_silent : forall n n', n_me n' = n_me n -> n_views n' = n_views n -> Vsame n n'.
Proof.
  intros n n' E1 E2. unfold Vsame, master, fsm_state, own. rewrite E1, E2. repeat split.
Qed.

Lemma set_degraded_V : forall n b, Vsame n (fst (set_degraded n b)) /\ n_insts (fst (set_degraded n b)) = n_insts n.
Proof.
  intros n b. unfold set_degraded. destruct (Bool.eqb _ b); simpl; (split; [|reflexivity]); [apply Vsame_refl|].
  apply Vsame_set_own; reflexivity.
Qed.

Lemma set_master_insts : forall n m, n_insts (fst (set_master n m)) = n_insts n.
Proof. intros n m. unfold set_master. destruct (Z.eqb _ m); reflexivity. Qed.

Lemma activate_running_V : forall n j now n' o, set_inst_state n j IRUNNING now = Ok (n', o) ->
  Vsame n n' /\ (NoFailed n -> NoFailed n').
Proof.
  intros n j now n' o H. split.
  - unfold set_inst_state in H. destruct (aget j (n_insts n)) as [s|]; [|discriminate].
    destruct (istate_eqb (is_state s) IRUNNING); [inversion H; subst; apply Vsame_refl|].
    destruct (inst_transition_ok (is_state s) IRUNNING); [|discriminate].
    inversion H as [[H1 H2]]. clear H. subst.
    match goal with |- Vsame n (set_mark (set_own ?x ?s1) true) =>
      apply (Vsame_trans n (set_own x s1)); [|apply Vsame_silent; reflexivity];
      apply (Vsame_trans n x); [apply Vsame_silent; reflexivity|apply Vsame_set_own; reflexivity] end.
  - intros Hn k s Hk. destruct (Z.eq_dec k j) as [->|Hne].
    + rewrite (set_inst_state_insts_self _ _ _ _ _ _ H s Hk). discriminate.
    + rewrite (set_inst_state_insts_other _ _ _ _ _ _ H k Hne) in Hk. eapply Hn. exact Hk.
Qed.

Lemma activate_checked_aux_V : forall ids n acc act now n' outs act',
  activate_checked_aux ids n acc act now = Ok (n', outs, act') -> Vsame n n' /\ (NoFailed n -> NoFailed n').
Proof.
  induction ids as [|j r IH]; simpl; intros n acc act now n' outs act' H.
  - inversion H; subst. split; [apply Vsame_refl|intro X; exact X].
  - destruct (inst_state n j) as [[]|]; try (eapply IH; eassumption).
    destruct (set_inst_state n j IRUNNING now) as [[n1 o1]|k] eqn:E; [|discriminate].
    apply activate_running_V in E. destruct E as [V1 N1]. apply IH in H. destruct H as [V2 N2].
    split; [eapply Vsame_trans; eassumption|intro X; apply N2; apply N1; exact X].
Qed.


Lemma NoFailed_insts : forall n n', n_insts n' = n_insts n -> NoFailed n -> NoFailed n'.
Proof. intros n n' E H j s Hj. rewrite E in Hj. eapply H. exact Hj. Qed.

Lemma check_instances_N : forall n now n' o lost lostp d,
  check_instances n now = Ok (n', o, lost, lostp, d) -> NoFailed n' /\ (NoFailed n -> Vsame n n').
Proof.
  intros n now n' o lost lostp d H. unfold check_instances in H.
  destruct (invalidate_failed n now) as [[[[n1 o1] l1] lp1]|k] eqn:E1; [|discriminate].
  assert (N1 := invalidate_failed_NoFailed _ _ _ _ _ _ E1).
  assert (V1 : NoFailed n -> n1 = n).
  { intros Hn. rewrite (invalidate_failed_id n now Hn) in E1. inversion E1. reflexivity. }
  unfold activate_checked in H.
  destruct (act_of (fsm_state n)).
  - destruct (activate_checked_aux _ _ _ _ _) as [[[n2 o2] act]|k] eqn:E2; [|discriminate].
    apply activate_checked_aux_V in E2. destruct E2 as [V2 N2]. inversion H; subst.
    split; [apply N2; exact N1|]. intros Hn. rewrite (V1 Hn) in V2. exact V2.
  - destruct (activate_checked_aux _ _ _ _ _) as [[[n2 o2] act]|k] eqn:E2; [|discriminate].
    apply activate_checked_aux_V in E2. destruct E2 as [V2 N2]. inversion H; subst.
    split; [apply N2; exact N1|]. intros Hn. rewrite (V1 Hn) in V2. exact V2.
  - inversion H; subst. split; [exact N1|]. intros Hn. rewrite (V1 Hn). apply Vsame_refl.
Qed.

Lemma check_instances_base : forall n now n' o lost lostp d, act_of (fsm_state n) = ActBase ->
  check_instances n now = Ok (n', o, lost, lostp, d) -> d = None.
Proof.
  intros n now n' o lost lostp d Ha H. unfold check_instances in H. rewrite Ha in H.
  destruct (invalidate_failed n now) as [[[[n1 o1] l1] lp1]|k]; [|discriminate].
  destruct (activate_checked n1 now) as [[[n2 o2] act]|k]; [|discriminate]. inversion H. reflexivity.
Qed.

Lemma evaluate_stability_shape : forall n n', evaluate_stability n = Ok n' -> exists s, n' = set_stable n s.
Proof.
  intros n n' H. unfold evaluate_stability in H.
  destruct (running_views n (n_views n)) as [rv|k]; [|discriminate]. simpl in H.
  destruct (map _ rv) as [|s0 t]; [inversion H; eexists; reflexivity|].
  destruct (forallb _ _); inversion H; eexists; reflexivity.
Qed.

Lemma sync_consistence_V : forall n lost n' o d, sync_consistence n lost = (n', o, d) ->
  Vsame n n' /\ n_insts n' = n_insts n /\
  (forall x, d = Some x -> x = OFF \/ x = SYNCHRONIZATION \/ x = SHUTTING_DOWN).
Proof.
  intros n lost n' o d H. unfold sync_consistence, on_consistence in H. destruct (local_running n).
  - assert (Hd : forall x, d = Some x -> x = SYNCHRONIZATION \/ x = SHUTTING_DOWN).
    { intros x Ex. subst d. apply check_failure_strategy_dec in H. destruct H as [H|[H _]]; [left|right]; exact H. }
    unfold check_failure_strategy in H.
    match type of H with (let '(_, _) := set_degraded n ?b in _) = _ =>
      assert (X := set_degraded_V n b); destruct (set_degraded n b) as [n1 o1] end.
    simpl in X. injection H as H1 H2 H3. subst n1. destruct X as [X1 X2]. split; [exact X1|]. split; [exact X2|].
    intros x Ex. right. apply Hd. exact Ex.
  - inversion H; subst. split; [apply Vsame_refl|]. split; [reflexivity|]. intros x Ex. inversion Ex. left. reflexivity.
Qed.

Lemma ms_consistence_V : forall n lost n' o d, ms_consistence n lost = Ok (n', o, d) ->
  Vsame n n' /\ n_insts n' = n_insts n /\
  (forall x, d = Some x -> x = OFF \/ x = SYNCHRONIZATION \/ x = SHUTTING_DOWN \/ x = ELECTION).
Proof.
  intros n lost n' o d H. unfold ms_consistence in H.
  destruct (sync_consistence n lost) as [[n1 o1] d1] eqn:E. apply sync_consistence_V in E. destruct E as [V [Ei Hd]].
  destruct d1 as [x1|].
  - inversion H; subst. split; [exact V|]. split; [exact Ei|]. intros x Ex. inversion Ex; subst.
    destruct (Hd x eq_refl) as [A|[A|A]]; [left|right; left|right; right; left]; exact A.
  - destruct (check_master n1) as [ok|k]; [|discriminate]. simpl in H. inversion H; subst.
    split; [exact V|]. split; [exact Ei|]. intros x Ex. destruct ok; inversion Ex. right. right. right. reflexivity.
Qed.

Lemma accept_master_insts : forall n p n' o, accept_master n p = Ok (n', o) -> n_insts n' = n_insts n.
Proof.
  intros n p n' o H. unfold accept_master in H. destruct (master_identifiers n) as [ms|k]; [|discriminate]. simpl in H.
  destruct (zdiscard 0 ms) as [|m [|m2 r]]; inversion H as [E5]; [reflexivity| |];
    match type of E5 with set_master n ?x = _ => assert (X := set_master_insts n x); rewrite E5 in X; exact X end.
Qed.

Lemma select_master_insts : forall n n' o, select_master n = Ok (n', o) -> n_insts n' = n_insts n.
Proof.
  intros n n' o H. unfold select_master in H. destruct (master_identifiers n) as [ms|k]; [|discriminate]. simpl in H.
  match type of H with bind ?x _ = _ => destruct x as [[[m rk]|]|k] end; simpl in H; try discriminate.
  inversion H as [E5]. assert (X := set_master_insts n m). rewrite E5 in X. exact X.
Qed.

(* ---------- justification of the decisions ---------- *)
Definition working (t : sstate) : Prop := t = DISTRIBUTION \/ t = OPERATION \/ t = CONCILIATION.
Definition ending (t : sstate) : Prop := t = RESTARTING \/ t = SHUTTING_DOWN.

(* the local instance is the Master, or its view of the Master is in state t (or beyond DISTRIBUTION) *)
Definition FokT (n : node) (t : sstate) : Prop :=
  is_master n = true \/ master_state n = Some t
  \/ (t = DISTRIBUTION /\ (master_state n = Some OPERATION \/ master_state n = Some CONCILIATION)).
Definition Fok (n : node) : Prop := needs_master (scode (fsm_state n)) = false \/ FokT n (fsm_state n).
Definition Jf (n : node) (d : option sstate) : Prop :=
  forall t, d = Some t -> working t -> t <> fsm_state n -> FokT n t.

(* same Master, same views of the others *)
Definition Msame (n n' : node) : Prop :=
  n_me n' = n_me n /\ master n' = master n /\ (forall k, k <> n_me n -> aget k (n_views n') = aget k (n_views n)).

Lemma Vsame_Msame : forall n n', Vsame n n' -> Msame n n'.
Proof. intros n n' [A [B [_ C]]]. repeat split; assumption. Qed.

Lemma FokT_Msame : forall n n' t, Msame n n' -> FokT n t -> FokT n' t.
Proof.
  intros n n' t [A [B C]] H. unfold FokT, is_master, master_state in *. rewrite A, B.
  destruct (Z.eqb (master n) (n_me n)) eqn:E; [left; reflexivity|]. apply Z.eqb_neq in E.
  rewrite (C _ E). destruct H as [H|H]; [discriminate|right; exact H].
Qed.

Lemma enter_Msame : forall n t now, Msame n (fst (enter_state (fst (set_fsm n t)) t now))
  /\ n_insts (fst (enter_state (fst (set_fsm n t)) t now)) = n_insts n
  /\ (t <> fsm_state n -> fsm_state (fst (enter_state (fst (set_fsm n t)) t now)) = t).
Proof.
  intros n t now.
  assert (X : Msame n (fst (set_fsm n t)) /\ n_insts (fst (set_fsm n t)) = n_insts n
              /\ (t <> fsm_state n -> fsm_state (fst (set_fsm n t)) = t)).
  { unfold set_fsm. destruct (sstate_eqb (fsm_state n) t) eqn:E; simpl.
    - split; [repeat split|]. split; [reflexivity|]. intros Hne. apply sstate_eqb_eq in E. congruence.
    - split.
      + split; [reflexivity|]. split; [unfold master; rewrite own_set_own; reflexivity|].
        intros k Hk. simpl. rewrite aget_aset. apply Z.eqb_neq in Hk. rewrite Hk. reflexivity.
      + split; [reflexivity|]. intros _. unfold fsm_state. rewrite own_set_own. reflexivity. }
  destruct (set_fsm n t) as [n1 o1]. simpl in *. destruct t; simpl; exact X.
Qed.

(* one evaluation: what it guarantees *)
Lemma fsm_next_F : forall n orc now n' o d, fsm_next n orc now = Ok (n', o, d) ->
  NoFailed n' /\ Jf n' d /\
  (NoFailed n -> needs_master (scode (fsm_state n)) = true -> Vsame n n') /\
  (ending (fsm_state n) ->
     d = Some FINAL \/ (d = Some (fsm_state n) /\ (is_master n' = true \/ master_state n' = Some (fsm_state n)))).
Proof.
  intros n orc now n' o d H.
  assert (F := fsm_next_FR _ _ _ _ _ _ H). destruct F as [_ [Es _]].
  unfold fsm_next in H.
  destruct (check_instances n now) as [[[[[n1 o1] lost] lostp] d1]|k] eqn:E1; [|discriminate].
  assert (Hb : act_of (fsm_state n) = ActBase -> d1 = None)
    by (intro Ha; eapply check_instances_base; [exact Ha|exact E1]).
  assert (Hel : forall x, d1 = Some x -> x = ELECTION) by (intros x Ex; subst d1; eapply check_instances_dec; exact E1).
  apply check_instances_N in E1. destruct E1 as [N1 V1].
  destruct d1 as [d1|].
  { inversion H; subst. rewrite (Hel d1 eq_refl). split; [exact N1|]. split.
    - intros t Et [W|[W|W]]; inversion Et; subst; discriminate.
    - split; [intros Hn _; apply V1; exact Hn|]. intros [He|He]; rewrite He in Hb; specialize (Hb eq_refl); discriminate. }
  destruct (evaluate_stability n1) as [n2|k] eqn:E2; [|discriminate].
  apply evaluate_stability_shape in E2. destruct E2 as [s En2].
  assert (N2 : NoFailed n2) by (subst n2; exact N1).
  assert (V2 : NoFailed n -> Vsame n n2).
  { intros Hn. eapply Vsame_trans; [apply V1; exact Hn|]. subst n2. apply Vsame_silent; reflexivity. }
  clear N1 V1 En2 Hb Hel.
  assert (Jnw : forall x n0, ~ working x -> Jf n0 (Some x)).
  { intros x n0 Hx t Et W. inversion Et; subst. contradiction. }
  assert (NW : forall x, x = OFF \/ x = SYNCHRONIZATION \/ x = SHUTTING_DOWN \/ x = ELECTION -> ~ working x).
  { intros x [A|[A|[A|A]]] [W|[W|W]]; subst; discriminate. }
  destruct (fsm_state n) eqn:Est.
  - (* OFF *) inversion H; subst. split; [exact N2|]. split.
    + apply Jnw. destruct (local_running n'); intros [W|[W|W]]; discriminate.
    + split; [intros _ X; vm_compute in X; discriminate|intros [X|X]; discriminate].
  - (* SYNCHRONIZATION *)
    assert (R : NoFailed n' /\ Jf n' d).
    { destruct (on_consistence n2) as [x|] eqn:Eoc.
      - unfold on_consistence in Eoc. destruct (local_running n2); inversion Eoc; subst.
        inversion H; subst. split; [exact N2|]. apply Jnw. intros [W|[W|W]]; discriminate.
      - match type of H with match ?u with _ => _ end = _ => destruct u as [[[n3 o3] us]|k] eqn:E3; [|discriminate] end.
        assert (I3 : n_insts n3 = n_insts n2).
        { destruct (o_user (n_opts n2)); [|inversion E3; reflexivity].
          destruct (accept_master n2 (or_pick orc)) as [[n3' o3']|k] eqn:E4; [|discriminate].
          assert (I4 := accept_master_insts _ _ _ _ E4).
          destruct (master n3' =? 0); [inversion E3; subst; exact I4|].
          destruct (inst_state n3' (master n3')); inversion E3; subst; exact I4. }
        match type of H with (let '(_, _) := set_degraded n3 ?b in _) = _ =>
          assert (X := set_degraded_V n3 b); destruct (set_degraded n3 b) as [n4 o4] end.
        simpl in X. destruct X as [_ X]. inversion H; subst. split.
        + eapply NoFailed_insts; [|exact N2]. congruence.
        + apply Jnw. match goal with |- context [if ?c then ELECTION else SYNCHRONIZATION] => destruct c end;
            intros [W|[W|W]]; discriminate. }
    destruct R as [R1 R2]. split; [exact R1|]. split; [exact R2|].
    split; [intros _ X; vm_compute in X; discriminate|intros [X|X]; discriminate].
  - (* ELECTION *)
    assert (R : NoFailed n' /\ Jf n' d).
    { destruct (sync_consistence n2 lost) as [[n3 o3] d3] eqn:E3. apply sync_consistence_V in E3.
      destruct E3 as [_ [I3 Hd3]]. assert (N3 : NoFailed n3) by (eapply NoFailed_insts; eassumption).
      destruct d3 as [x|].
      { inversion H; subst. split; [exact N3|]. apply Jnw. apply NW.
        destruct (Hd3 x eq_refl) as [A|[A|A]]; [left|right; left|right; right; left]; exact A. }
      assert (SMb : forall oa ob, bind (select_master n3) (fun r => Ok (fst r, oa ++ ob ++ snd r, Some ELECTION)) = Ok (n', o, d) ->
                    NoFailed n' /\ Jf n' d).
      { intros oa ob Hb. destruct (select_master n3) as [[n4 o4]|k] eqn:E4; [|discriminate]. simpl in Hb. inversion Hb; subst.
        split; [|apply Jnw; intros [W|[W|W]]; discriminate].
        eapply NoFailed_insts; [|exact N3]. eapply select_master_insts. exact E4. }
      destruct (is_stable n3); [|inversion H; subst; split; [exact N3|apply Jnw; intros [W|[W|W]]; discriminate]].
      destruct (check_master n3) as [[|]|k]; [| |discriminate].
      + destruct (is_master n3) eqn:M.
        * inversion H; subst. split; [exact N3|]. intros t Et _ _. left. exact M.
        * destruct (master_state n3) as [x|] eqn:Ems; [|apply (SMb o1 o3); exact H].
          destruct x; first [ apply (SMb o1 o3); exact H
                            | inversion H; subst; split; [exact N3|]; intros t Et _ _; inversion Et; subst;
                              right; first [left; exact Ems | right; split; [reflexivity|]; first [left; exact Ems|right; exact Ems]] ].
      + apply (SMb o1 o3); exact H. }
    destruct R as [R1 R2]. split; [exact R1|]. split; [exact R2|].
    split; [intros _ X; vm_compute in X; discriminate|intros [X|X]; discriminate].
  - (* DISTRIBUTION *)
    destruct (ms_consistence n2 lost) as [[[n3 o3] d3]|k] eqn:E3; [|discriminate]. apply ms_consistence_V in E3.
    destruct E3 as [V3 [I3 Hd3]]. assert (N3 : NoFailed n3) by (eapply NoFailed_insts; eassumption).
    assert (R : n' = n3 /\ Jf n3 d).
    { destruct d3 as [x|]; [inversion H; subst; split; [reflexivity|apply Jnw; apply NW; apply Hd3; reflexivity]|].
      destruct (is_master n3) eqn:M; inversion H; subst; (split; [reflexivity|]).
      - intros t _ _ _. left. exact M.
      - intros t Et _ _. right. left. exact Et. }
    destruct R as [R1 R2]. subst n'. split; [exact N3|]. split; [exact R2|].
    split; [intros Hn _; eapply Vsame_trans; [apply V2; exact Hn|exact V3]|intros [X|X]; discriminate].
  - (* OPERATION *)
    destruct (ms_consistence n2 lost) as [[[n3 o3] d3]|k] eqn:E3; [|discriminate]. apply ms_consistence_V in E3.
    destruct E3 as [V3 [I3 Hd3]]. assert (N3 : NoFailed n3) by (eapply NoFailed_insts; eassumption).
    assert (R : n' = n3 /\ Jf n3 d).
    { destruct d3 as [x|]; [inversion H; subst; split; [reflexivity|apply Jnw; apply NW; apply Hd3; reflexivity]|].
      destruct (is_master n3) eqn:M; inversion H; subst; (split; [reflexivity|]).
      - intros t _ _ _. left. exact M.
      - intros t Et _ _. right. left. exact Et. }
    destruct R as [R1 R2]. subst n'. split; [exact N3|]. split; [exact R2|].
    split; [intros Hn _; eapply Vsame_trans; [apply V2; exact Hn|exact V3]|intros [X|X]; discriminate].
  - (* CONCILIATION *)
    destruct (ms_consistence n2 lost) as [[[n3 o3] d3]|k] eqn:E3; [|discriminate]. apply ms_consistence_V in E3.
    destruct E3 as [V3 [I3 Hd3]]. assert (N3 : NoFailed n3) by (eapply NoFailed_insts; eassumption).
    assert (R : n' = n3 /\ Jf n3 d).
    { destruct d3 as [x|]; [inversion H; subst; split; [reflexivity|apply Jnw; apply NW; apply Hd3; reflexivity]|].
      destruct (is_master n3) eqn:M.
      - assert (Jm : forall dd, Jf n3 dd) by (intros dd t _ _ _; left; exact M).
        destruct (or_starting orc || or_stopping orc); [inversion H; subst; split; [reflexivity|apply Jm]|].
        destruct (negb (or_conflict orc)); inversion H; subst; (split; [reflexivity|apply Jm]).
      - inversion H; subst. split; [reflexivity|]. intros t Et _ _. right. left. exact Et. }
    destruct R as [R1 R2]. subst n'. split; [exact N3|]. split; [exact R2|].
    split; [intros Hn _; eapply Vsame_trans; [apply V2; exact Hn|exact V3]|intros [X|X]; discriminate].
  - (* RESTARTING *)
    destruct (ms_consistence n2 lost) as [[[n3 o3] d3]|k] eqn:E3; [|discriminate]. apply ms_consistence_V in E3.
    destruct E3 as [V3 [I3 Hd3]]. assert (N3 : NoFailed n3) by (eapply NoFailed_insts; eassumption).
    assert (R : n' = n3 /\ (d = Some FINAL \/ (d = Some RESTARTING /\ (is_master n3 = true \/ master_state n3 = Some RESTARTING)))).
    { destruct d3 as [x|]; [inversion H; subst; split; [reflexivity|left; reflexivity]|].
      destruct (is_master n3) eqn:M; inversion H; subst; (split; [reflexivity|]).
      - destruct (or_stopping orc); [right; split; [reflexivity|left; reflexivity]|left; reflexivity].
      - unfold ending_slave_next. destruct (master_state n') as [ms|]; [|left; reflexivity].
        destruct (sstate_eqb ms RESTARTING) eqn:Em; [|left; reflexivity].
        apply sstate_eqb_eq in Em. subst. right. split; [reflexivity|right; reflexivity]. }
    destruct R as [R1 R2]. subst n'. split; [exact N3|]. split.
    + destruct R2 as [R2|[R2 _]]; subst d; apply Jnw; intros [W|[W|W]]; discriminate.
    + split; [intros Hn _; eapply Vsame_trans; [apply V2; exact Hn|exact V3]|intros _; exact R2].
  - (* SHUTTING_DOWN *)
    destruct (ms_consistence n2 lost) as [[[n3 o3] d3]|k] eqn:E3; [|discriminate]. apply ms_consistence_V in E3.
    destruct E3 as [V3 [I3 Hd3]]. assert (N3 : NoFailed n3) by (eapply NoFailed_insts; eassumption).
    assert (R : n' = n3 /\ (d = Some FINAL \/ (d = Some SHUTTING_DOWN /\ (is_master n3 = true \/ master_state n3 = Some SHUTTING_DOWN)))).
    { destruct d3 as [x|]; [inversion H; subst; split; [reflexivity|left; reflexivity]|].
      destruct (is_master n3) eqn:M; inversion H; subst; (split; [reflexivity|]).
      - destruct (or_stopping orc); [right; split; [reflexivity|left; reflexivity]|left; reflexivity].
      - unfold ending_slave_next. destruct (master_state n') as [ms|]; [|left; reflexivity].
        destruct (sstate_eqb ms SHUTTING_DOWN) eqn:Em; [|left; reflexivity].
        apply sstate_eqb_eq in Em. subst. right. split; [reflexivity|right; reflexivity]. }
    destruct R as [R1 R2]. subst n'. split; [exact N3|]. split.
    + destruct R2 as [R2|[R2 _]]; subst d; apply Jnw; intros [W|[W|W]]; discriminate.
    + split; [intros Hn _; eapply Vsame_trans; [apply V2; exact Hn|exact V3]|intros _; exact R2].
  - (* FINAL *)
    inversion H; subst. split; [exact N2|]. split; [intros t Et; discriminate|].
    split; [intros _ X; vm_compute in X; discriminate|intros [X|X]; discriminate].
Qed.


Lemma needs_master_cases : forall t, needs_master (scode t) = true -> working t \/ ending t.
Proof.
  destruct t; vm_compute; intro H; try discriminate H;
    first [left; left; reflexivity | left; right; left; reflexivity | left; right; right; reflexivity
          | right; left; reflexivity | right; right; reflexivity].
Qed.

Lemma ending_to_final : forall f, ending f -> sstate_eqb FINAL f = false /\ fsm_transition_ok f FINAL = true.
Proof. intros f [H|H]; subst; vm_compute; split; reflexivity. Qed.

Lemma working_not_ending : forall t, working t -> ending t -> False.
Proof. intros t [W|[W|W]] [E|E]; subst; discriminate. Qed.

(* the set_state loop: at the end the state is the initial one of the event, or the Master condition holds *)
Lemma set_state_follows : forall prev fuel n d orcs now acc n' outs,
  ((NoFailed n /\ Jf n d) \/ exists t, d = Some t /\ ending t) ->
  (fsm_state n = prev \/ Fok n \/ (ending (fsm_state n) /\ d = Some FINAL)) ->
  set_state fuel n d orcs now acc = Ok (n', outs) -> fsm_state n' = prev \/ Fok n'.
Proof.
  intros prev. induction fuel as [|fuel IH]; intros n d orcs now acc n' outs HJ HG H.
  - simpl in H.
    assert (R : n' = n).
    { destruct d as [ns|]; [|inversion H; reflexivity].
      destruct (sstate_eqb ns (fsm_state n)); [inversion H; reflexivity|].
      destruct (negb (fsm_transition_ok (fsm_state n) ns)); [inversion H; reflexivity|discriminate]. }
    subst n'. destruct HG as [HG|[HG|[He Hd]]]; [left; exact HG|right; exact HG|].
    subst d. destruct (ending_to_final _ He) as [A B]. rewrite A, B in H. simpl in H. discriminate.
  - simpl in H.
    assert (Ret : forall ns, d = Some ns -> (sstate_eqb ns (fsm_state n) = true \/ fsm_transition_ok (fsm_state n) ns = false) ->
                  fsm_state n = prev \/ Fok n).
    { intros ns Ed Hb. destruct HG as [HG|[HG|[He Hd]]]; [left; exact HG|right; exact HG|].
      rewrite Hd in Ed. inversion Ed; subst ns. destruct (ending_to_final _ He) as [A B].
      destruct Hb as [Hb|Hb]; congruence. }
    destruct d as [ns|].
    2:{ inversion H; subst. destruct HG as [HG|[HG|[_ Hd]]]; [left; exact HG|right; exact HG|discriminate]. }
    destruct (sstate_eqb ns (fsm_state n)) eqn:Eeq.
    { inversion H; subst. apply (Ret ns eq_refl). left. exact Eeq. }
    destruct (fsm_transition_ok (fsm_state n) ns) eqn:Eok; simpl in H.
    2:{ inversion H; subst. apply (Ret ns eq_refl). right. exact Eok. }
    clear Ret. apply sstate_eqb_neq in Eeq.
    assert (X := enter_Msame n ns now).
    destruct (set_fsm n ns) as [n1 o1]. simpl in X. destruct (enter_state n1 ns now) as [n2 o2] eqn:Een.
    simpl in X. destruct X as [M2 [I2 S2]]. specialize (S2 Eeq).
    destruct (next_orcs orcs) as [orc rest].
    destruct (fsm_next n2 orc now) as [[[n3 o3] d3]|k] eqn:E3; [|discriminate].
    assert (S3 : fsm_state n3 = ns) by (rewrite <- S2; apply (fsm_next_FR _ _ _ _ _ _ E3)).
    destruct (fsm_next_F _ _ _ _ _ _ E3) as [N3 [J3 [V3 F3]]]. rewrite S2 in V3, F3.
    eapply IH; [left; split; [exact N3|exact J3]| |exact H].
    destruct (needs_master (scode ns)) eqn:En.
    + destruct (needs_master_cases ns En) as [Wk|Ed].
      * right. left. right. rewrite S3.
        destruct HJ as [[Nn Jn]|[t [Et Ht]]]; [|inversion Et; subst; exfalso; eapply working_not_ending; eassumption].
        assert (T0 := Jn ns eq_refl Wk Eeq).
        assert (T2 := FokT_Msame n n2 ns M2 T0).
        assert (N2 : NoFailed n2) by (eapply NoFailed_insts; eassumption).
        apply (FokT_Msame n2 n3 ns); [apply Vsame_Msame; apply V3; [exact N2|reflexivity]|exact T2].
      * destruct (F3 Ed) as [Hf|[Hf Hm]].
        -- right. right. rewrite S3. split; assumption.
        -- right. left. right. rewrite S3. destruct Hm as [Hm|Hm]; [left; exact Hm|right; left; exact Hm].
    + right. left. left. rewrite S3. exact En.
Qed.

Lemma fsm_run_follows : forall n orcs now n' outs, fsm_run n orcs now = Ok (n', outs) ->
  fsm_state n' = fsm_state n \/ Fok n'.
Proof.
  intros n orcs now n' outs H. unfold fsm_run in H. destruct (next_orcs orcs) as [orc rest].
  destruct (fsm_next n orc now) as [[[n1 o1] d]|k] eqn:E1; [|discriminate].
  destruct (fsm_next_F _ _ _ _ _ _ E1) as [N1 [J1 _]].
  assert (S1 : fsm_state n1 = fsm_state n) by apply (fsm_next_FR _ _ _ _ _ _ E1).
  eapply set_state_follows; [left; split; [exact N1|exact J1]|left; exact S1|exact H].
Qed.

Lemma on_ending_follows : forall n t orcs now err n' outs, ending t -> on_ending n t orcs now err = Ok (n', outs) ->
  fsm_state n' = fsm_state n \/ Fok n'.
Proof.
  intros n t orcs now err n' outs Ht H. unfold on_ending in H. destruct (is_master n).
  - eapply set_state_follows; [right; exists t; split; [reflexivity|exact Ht]|left; reflexivity|exact H].
  - destruct (negb (master n =? 0)); [|discriminate]. inversion H; subst. left. reflexivity.
Qed.

(* shape of one event: a frame part, possibly followed by one run of the FSM *)
Lemma step_shape : forall n e n' outs, step n e = Ok (n', outs) ->
  FR n outs n' \/
  exists na oa ob, FR n oa na /\ outs = oa ++ ob /\
    ((exists orcs now, fsm_run na orcs now = Ok (n', ob))
     \/ (exists t orcs now err, ending t /\ on_ending na t orcs now err = Ok (n', ob))).
Proof.
  intros n e n' outs H. destruct e; simpl in H.
  - (* LocalTick *)
    destruct (aget (n_me n) (n_insts n)) as [s|]; [|discriminate].
    match type of H with context [set_inst_state ?x _ _ _] => set (n1 := x) in * end.
    assert (F1 : FR n [] n1) by apply set_insts_FR.
    match type of H with match ?u with _ => _ end = _ => destruct u as [[n2 o2]|k] eqn:E2; [|discriminate] end.
    assert (F2 : FR n1 o2 n2).
    { destruct (istate_eqb (is_state s) ISTOPPED).
      - destruct (set_inst_state n1 (n_me n) CHECKING now) as [[n2' o2']|k] eqn:E; [|discriminate].
        simpl in E2. inversion E2; subst. apply set_inst_state_FR in E.
        eapply FR_trans; [exact E|apply FR_plain; reflexivity].
      - inversion E2; subst. apply FR_refl. }
    destruct (on_timer n2 cnt now) as [[n3 o3]|k] eqn:E3; [|discriminate]. apply on_timer_FR in E3.
    match type of H with (let '(_, _) := ?u in _) = _ => destruct u as [n4 o4] eqn:E4 end.
    assert (F4 : FR n3 o4 n4).
    { destruct (n_mark n3); inversion E4; subst.
      - apply (FR_nil_r n3 n3); [apply FR_publish|apply FR_silent; [repeat split|reflexivity]].
      - apply FR_refl. }
    destruct (fsm_run n4 orcs now) as [[n5 o5]|k] eqn:E5; [|discriminate]. simpl in H. inversion H; subst.
    right. exists n4, (o2 ++ o3 ++ o4), o5. split.
    + apply (FR_nil_l n n1); [exact F1|]. eapply FR_trans; [exact F2|]. eapply FR_trans; [exact E3|exact F4].
    + split; [rewrite <- !app_assoc; reflexivity|]. left. exists orcs, now. exact E5.
  - (* PeerTick *)
    left. destruct (resolve n og) as [j|]; [|inversion H; subst; apply FR_refl].
    destruct (local_checked_or_running n); [|inversion H; subst; apply FR_refl].
    destruct (aget j (n_insts n)) as [s|]; [|discriminate].
    destruct (istate_eqb (is_state s) ISTOPPED).
    + match type of H with context [set_inst_state ?x _ _ _] => set (n1 := x) in * end.
      destruct (set_inst_state n1 j CHECKING now) as [[n2 o2]|k] eqn:E; [|discriminate].
      simpl in H. inversion H; subst. apply set_inst_state_FR in E.
      apply (FR_nil_l n n1); [apply set_insts_FR|].
      eapply FR_trans; [exact E|apply FR_plain; reflexivity].
    + inversion H; subst. apply set_insts_FR.
  - (* PeerState *)
    destruct (resolve n og) as [j|]; [|inversion H; subst; left; apply FR_refl].
    match type of H with context [fsm_run ?x _ _] => set (n1 := x) in * end.
    assert (F1 : FR n [] n1).
    { unfold n1. destruct (Z.eqb j (n_me n)) eqn:E; [apply FR_refl|].
      apply FR_silent; [repeat split|]. apply own_set_views_other. apply Z.eqb_neq in E. exact E. }
    destruct (Z.eqb j (master n1)).
    + right. exists n1, [], outs. split; [exact F1|]. split; [reflexivity|]. left. exists orcs, now. exact H.
    + inversion H; subst. left. exact F1.
  - (* Ident *) inversion H; subst. left. apply FR_refl.
  - (* Auth *)
    left. destruct (resolve n og) as [j|]; [|inversion H; subst; apply FR_refl].
    destruct (aget j (n_insts n)) as [s|]; [|discriminate].
    destruct (is_checking s ts); [|inversion H; subst; apply FR_refl].
    destruct a; first [eapply set_inst_state_FR; exact H | eapply invalidate_FR; exact H].
  - (* AllInfo *)
    left. destruct (resolve n og) as [j|]; [|inversion H; subst; apply FR_refl].
    destruct info as [b|]; [|eapply set_inst_state_FR; exact H].
    destruct (inst_state n j) as [[]|]; inversion H; subst; try apply FR_refl.
    destruct b; [|apply FR_refl]. apply FR_silent; [repeat split|reflexivity].
  - (* InstFailure *)
    left. destruct (resolve n og) as [j|]; [|inversion H; subst; apply FR_refl].
    destruct (inst_state n j) as [s|]; [|inversion H; subst; apply FR_refl].
    destruct (has_active_state s); [|inversion H; subst; apply FR_refl].
    eapply set_inst_state_FR; exact H.
  - (* ProcCrash *)
    destruct (is_master n) eqn:M; [|inversion H; subst; left; apply FR_refl].
    destruct strat; try (inversion H; subst; left; apply FR_refl).
    + inversion H; subst. left. apply FR_by_master; [exact M|destruct forced; reflexivity].
    + inversion H; subst. left. apply FR_by_master; [exact M|destruct forced; reflexivity].
    + right. exists n, [], outs. split; [apply FR_refl|]. split; [reflexivity|]. right.
      exists SHUTTING_DOWN, orcs, now, ValueError. split; [right; reflexivity|exact H].
    + right. exists n, [], outs. split; [apply FR_refl|]. split; [reflexivity|]. right.
      exists RESTARTING, orcs, now, OtherError. split; [left; reflexivity|exact H].
  - (* ReqRestart *)
    right. exists n, [], outs. split; [apply FR_refl|]. split; [reflexivity|]. right.
    exists RESTARTING, orcs, now, OtherError. split; [left; reflexivity|exact H].
  - (* ReqShutdown *)
    right. exists n, [], outs. split; [apply FR_refl|]. split; [reflexivity|]. right.
    exists SHUTTING_DOWN, orcs, now, ValueError. split; [right; reflexivity|exact H].
  - (* ReqEndSync *)
    match type of H with match ?u with _ => _ end = _ => destruct u as [[n1 o1]|k] eqn:E1; [|discriminate] end.
    assert (F1 : FR n o1 n1).
    { destruct (Z.eqb m 0).
      - eapply select_master_FR; exact E1.
      - inversion E1 as [E]. eapply set_master_FR; exact E. }
    destruct (fsm_run n1 orcs now) as [[n2 o2]|k] eqn:E2; [|discriminate]. simpl in H. inversion H; subst.
    right. exists n1, o1, o2. split; [exact F1|]. split; [reflexivity|]. left. exists orcs, now. exact E2.
Qed.

Lemma step_follows_node : forall n e n' outs, step n e = Ok (n', outs) -> fsm_state n' = fsm_state n \/ Fok n'.
Proof.
  intros n e n' outs H. apply step_shape in H.
  destruct H as [F|[na [oa [ob [F [_ [[orcs [now Hr]]|[t [orcs [now [err [Ht He]]]]]]]]]]]].
  - left. apply F.
  - destruct F as [_ [S _]]. apply fsm_run_follows in Hr. rewrite S in Hr. exact Hr.
  - destruct F as [_ [S _]]. apply on_ending_follows in He; [|exact Ht]. rewrite S in He. exact He.
Qed.

(* D' *)
Theorem slave_follows_master : forall n e n' outs, step n e = Ok (n', outs) ->
  c02_follows (n_me n) (scode (fsm_state n)) (observe n' outs) = true.
Proof.
  intros n e n' outs H.
  assert (Kme : n_me n' = n_me n) by (apply step_TR0 in H; apply H).
  apply step_follows_node in H. unfold c02_follows.
  change (obs_fsm (observe n' outs)) with (scode (fsm_state n')).
  change (obs_master (observe n' outs)) with (master n').
  change (obs_mstate (observe n' outs)) with (match master_state n' with Some ms => scode ms | None => -1 end).
  destruct H as [H|[H|[H|[H|[Hf H]]]]].
  - rewrite H, Z.eqb_refl. reflexivity.
  - rewrite H. simpl. rewrite orb_true_r. reflexivity.
  - unfold is_master in H. rewrite Kme in H. rewrite H. rewrite !orb_true_r. reflexivity.
  - rewrite H, Z.eqb_refl. rewrite !orb_true_r. reflexivity.
  - rewrite Hf. apply orb_true_iff. right. destruct H as [H|H]; rewrite H; vm_compute; reflexivity.
Qed.


(* every history, from any node: graph + a non-Master follows its Master *)
Theorem run_follows : forall n evs,
  nspec_ok (mkFlags true false false true false false false false) (n, evs, run n evs) = true.
Proof.
  intros n evs. unfold nspec_ok.
  apply (nspec_walk_run _ n (fun x => n_me x = n_me n) Evtrue); [| |reflexivity|apply hist_ok_true].
  - intros n1 e n' outs Hme _ H. split.
    + assert (T := step_TR0 _ _ _ _ H). destruct T as [[K _] _]. congruence.
    + unfold step_checks. simpl. rewrite (step_fsm_chain _ _ _ _ H). rewrite <- Hme.
      rewrite (slave_follows_master _ _ _ _ H). reflexivity.
  - intros. reflexivity.
Qed.

(* the whole of C02 (fl_c02 for ex = true, fl_c02_noexempt for ex = false) under the hypotheses of the Master part *)
Theorem run_c02_partial : forall ex n evs, IVx ex n -> evD_hist n evs ->
  nspec_ok (mkFlags true true ex true false false false false) (n, evs, run n evs) = true.
Proof.
  intros ex n evs HI Hh. unfold nspec_ok.
  apply (nspec_walk_run _ n (fun x => IVx ex x /\ n_me x = n_me n) (fun n e => evD n e = true));
    [| |split; [exact HI|reflexivity]|exact Hh].
  - intros n1 e n' outs [HI1 Hme] He H. destruct (step_D ex n1 e n' outs HI1 He H) as [HI' [[K _] _]]. split.
    + split; [exact HI'|congruence].
    + unfold step_checks. simpl. rewrite (enter_needs_running_master_partial ex _ _ _ _ HI1 He H). rewrite <- Hme.
      rewrite (slave_follows_master _ _ _ _ H). reflexivity.
  - intros. reflexivity.
Qed.

Corollary run_c02_exempt_partial : forall n evs, IVx true n -> evD_hist n evs -> nspec_ok fl_c02 (n, evs, run n evs) = true.
Proof. intros n evs. apply (run_c02_partial true). Qed.

Corollary run_c02_noexempt_partial : forall n evs, IVx false n -> evD_hist n evs ->
  nspec_ok fl_c02_noexempt (n, evs, run n evs) = true.
Proof. intros n evs. apply (run_c02_partial false). Qed.

Lemma step_D_inv : forall ex n e n' outs, IVx ex n -> evD n e = true -> step n e = Ok (n', outs) -> IVx ex n'.
Proof. intros ex n e n' outs H1 H2 H3. exact (proj1 (step_D ex n e n' outs H1 H2 H3)). Qed.

(* a non-Master (1) following its Master (2): ELECTION -> DISTRIBUTION -> OPERATION behind the publications of 2 *)
Definition ins12 := [(1, IRUNNING); (2, IRUNNING); (3, ISTOPPED)].
Definition follow_hist : list event :=
  [LocalTick 1 10 [orc0]; Auth og1 A_AUTHORIZED 11 12; PeerTick og2 1 13; Auth og2 A_AUTHORIZED 14 15;
   PeerState og2 ELECTION false 2 ins12 16 [orc0]; LocalTick 2 20 [orc0];
   PeerState og2 DISTRIBUTION false 2 ins12 21 [orc0]; PeerState og2 OPERATION false 2 ins12 22 [orc0]].

Example ex_follow_states : obs_states (run (ex3_node false) follow_hist) = [0; 0; 0; 0; 0; 2; 3; 4]
  /\ match last (run (ex3_node false) follow_hist) (NCrash OtherError) with NOk o => obs_master o | _ => -1 end = 2.
Proof. vm_compute. split; reflexivity. Qed.

Example ex_run_c02 : nspec_ok fl_c02_noexempt (ex3_node false, follow_hist, run (ex3_node false) follow_hist) = true.
Proof.
  apply run_c02_noexempt_partial.
  - split; [apply ex3_node_WF|]. split; [apply ex3_node_ID|right; discriminate].
  - vm_compute. repeat split.
Qed.

(* ====================================================================== *)
(* Termination of the set_state loop is FALSE in general                   *)
(* ====================================================================== *)
(* One transition of the loop, as an equation *)
Lemma set_state_unfold : forall fuel n ns orcs now acc n1 o1 n2 o2 orc rest n3 o3 d,
  sstate_eqb ns (fsm_state n) = false -> fsm_transition_ok (fsm_state n) ns = true ->
  set_fsm n ns = (n1, o1) -> enter_state n1 ns now = (n2, o2) -> next_orcs orcs = (orc, rest) ->
  fsm_next n2 orc now = Ok (n3, o3, d) ->
  set_state (S fuel) n (Some ns) orcs now acc
  = set_state fuel n3 d rest now (acc ++ exit_outputs (fsm_state n) ++ o1 ++ o2 ++ o3).
Proof.
  intros fuel n ns orcs now acc n1 o1 n2 o2 orc rest n3 o3 d E1 E2 E3 E4 E5 E6.
  simpl. rewrite E1, E2, E3, E4, E5, E6. reflexivity.
Qed.

(* STRICT + TIMEOUT synchronization options, RESYNC failure strategy, instance 2 of the STRICT list missing, the
   synchro timeout elapsed: SYNCHRONIZATION decides ELECTION (timeout), ELECTION decides SYNCHRONIZATION (strict
   failure, RESYNC), and the node is back exactly where it was *)
Definition loopA : node :=
  mkNode 1 (ex_opts true FS_RESYNC) [] [1; 2] [(1, 1); (2, 2)]
         [(1, mkIst IRUNNING 2 2 10); (2, mkIst ISTOPPED 0 0 0)]
         [(1, mkSm SYNCHRONIZATION true 0 [(1, IRUNNING); (2, ISTOPPED)]); (2, sm_fresh)] [1] true 0 [].
Definition loopB : node :=
  mkNode 1 (ex_opts true FS_RESYNC) [] [1; 2] [(1, 1); (2, 2)]
         [(1, mkIst IRUNNING 2 2 10); (2, mkIst ISTOPPED 0 0 0)]
         [(1, mkSm ELECTION true 0 [(1, IRUNNING); (2, ISTOPPED)]); (2, sm_fresh)] [1] true 0 [].

Lemma loop_diverges : forall fuel,
  (forall acc, set_state fuel loopA (Some ELECTION) [orc0] 15 acc = Crash OutOfFuel) /\
  (forall acc, set_state fuel loopB (Some SYNCHRONIZATION) [orc0] 15 acc = Crash OutOfFuel).
Proof.
  induction fuel as [|fuel [IHA IHB]].
  - split; intros acc; reflexivity.
  - split; intros acc.
    + erewrite (set_state_unfold fuel loopA ELECTION [orc0] 15 acc); try (vm_compute; reflexivity).
      apply IHB.
    + erewrite (set_state_unfold fuel loopB SYNCHRONIZATION [orc0] 15 acc); try (vm_compute; reflexivity).
      apply IHA.
Qed.

(* whatever the fuel, the loop started in loopA does not end: the Python `while` of FiniteStateMachine.set_state
   does not terminate (replayed on the real code: publications 1, 2, 1, 2, ...).
   NOTE: SupvisorsOptions.check_options forces the CONTINUE strategy when TIMEOUT is a synchro option, so this
   combination of options cannot come out of the configuration parser *)
Theorem set_state_loops_on_inconsistent_options :
  exists n next orcs now, WF n /\ forall fuel acc, set_state fuel n next orcs now acc = Crash OutOfFuel.
Proof.
  exists loopA, (Some ELECTION), [orc0], 15. split.
  - repeat split.
    + intros j. simpl. destruct (Z.eqb j 1); [reflexivity|]. destruct (Z.eqb j 2); reflexivity.
    + intros j. unfold amem. simpl. destruct (Z.eqb j 1); [reflexivity|]. destruct (Z.eqb j 2); reflexivity.
    + intros j. unfold amem. simpl. destruct (Z.eqb j 1); [reflexivity|]. destruct (Z.eqb j 2); [reflexivity|discriminate].
  - intros fuel acc. apply (proj1 (loop_diverges fuel)).
Qed.

(* it is reached from the initial node by a well-formed history: local tick, local handshake, local tick *)
Theorem run_out_of_fuel_reachable : exists n evs, WF n /\ wf_hist n evs /\ evD_hist n evs /\
  In (NCrash OutOfFuel) (run n evs).
Proof.
  exists (ex_node true FS_RESYNC), [LocalTick 1 10 [orc0]; Auth og1 A_AUTHORIZED 11 12; LocalTick 2 15 [orc0]].
  split; [apply ex_node_WF|]. split; [vm_compute; repeat split|]. split; [vm_compute; repeat split|].
  vm_compute. right. right. left. reflexivity.
Qed.

(* a first, small part of termination: from RESTARTING / SHUTTING_DOWN / FINAL the loop performs at most one
   transition (to FINAL), whatever the oracles: fuel 1 is enough, and nothing is raised *)
Lemma set_state_final_no_fuel : forall fuel n d orcs now acc, fsm_state n = FINAL ->
  set_state fuel n d orcs now acc = Ok (n, acc).
Proof.
  intros fuel n d orcs now acc Hf. destruct fuel; simpl; (destruct d as [ns|]; [|reflexivity]);
    rewrite Hf; (destruct (sstate_eqb ns FINAL); [reflexivity|]); rewrite final_terminal_table; reflexivity.
Qed.

Theorem set_state_terminates_ending_partial : forall fuel n d orcs now acc, WF n ->
  (fsm_state n = RESTARTING \/ fsm_state n = SHUTTING_DOWN \/ fsm_state n = FINAL) ->
  exists r, set_state (S fuel) n d orcs now acc = Ok r.
Proof.
  intros fuel n d orcs now acc W Hf.
  destruct Hf as [Hf|[Hf|Hf]]; [| |rewrite set_state_final_no_fuel; [eexists; reflexivity|exact Hf]].
  all: simpl; destruct d as [ns|]; [|eexists; reflexivity].
  all: destruct (sstate_eqb ns (fsm_state n)) eqn:Eeq; [eexists; reflexivity|].
  all: destruct (fsm_transition_ok (fsm_state n) ns) eqn:Eok; simpl; [|eexists; reflexivity].
  all: assert (Ens : ns = FINAL) by (eapply ending_only_final_table; [|exact Eok]; tauto); subst ns.
  all: assert (X := enter_Msame n FINAL now); assert (W1 := set_fsm_WF n FINAL W).
  all: destruct (set_fsm n FINAL) as [n1 o1]; simpl in X, W1.
  all: assert (W2 := enter_state_WF n1 FINAL now W1).
  all: destruct (enter_state n1 FINAL now) as [n2 o2] eqn:Een; simpl in X, W2; destruct X as [_ [_ S2]].
  all: simpl in Een; inversion Een; subst n2 o2.
  all: assert (S2' : fsm_state n1 = FINAL) by (apply S2; rewrite Hf; discriminate).
  all: destruct (next_orcs orcs) as [orc rest]; assert (X3 := fsm_next_okW n1 orc now W2).
  all: destruct (fsm_next n1 orc now) as [[[n3 o3] d3]|k] eqn:E3; simpl in X3; [|contradiction].
  all: rewrite set_state_final_no_fuel; [eexists; reflexivity|].
  all: rewrite <- S2'; apply (fsm_next_FR _ _ _ _ _ _ E3).
Qed.

(* ====================================================================== *)
(* C09 (node-level part): restart / shutdown                               *)
(* ====================================================================== *)
(* (1) the request is routed to the Master *)
Theorem restart_routed_to_master : forall n now orcs, is_master n = false -> master n <> 0 ->
  step n (ReqRestart now orcs) = Ok (n, [RestartAll (master n)]) /\
  step n (ReqShutdown now orcs) = Ok (n, [ShutdownAll (master n)]).
Proof.
  intros n now orcs M H0. unfold step, on_ending. rewrite M. apply Z.eqb_neq in H0. rewrite H0. split; reflexivity.
Qed.

Theorem restart_on_master : forall n now orcs, is_master n = true ->
  step n (ReqRestart now orcs) = set_state loop_fuel n (Some RESTARTING) orcs now [] /\
  step n (ReqShutdown now orcs) = set_state loop_fuel n (Some SHUTTING_DOWN) orcs now [].
Proof. intros n now orcs M. unfold step, on_ending. rewrite M. split; reflexivity. Qed.

(* (2) the final orders to the local Supervisor *)
Definition count_orders (outs : list output) : nat := length (filter is_final_order outs).

Lemma count_orders_app : forall a b, count_orders (a ++ b) = (count_orders a + count_orders b)%nat.
Proof. intros. unfold count_orders. rewrite filter_app, app_length. reflexivity. Qed.

Lemma fr_no_orders : forall me s outs m m', fr me s m outs m' -> count_orders outs = 0%nat.
Proof.
  intros me s outs. induction outs as [|o r IH]; simpl; intros m m' H; [reflexivity|].
  destruct o; destruct H as [Ha Hb]; unfold count_orders; simpl;
    try (apply (IH _ _ Hb)); destruct Ha as [_ Ha]; discriminate Ha.
Qed.

Lemma FR_no_orders : forall n o n', FR n o n' -> count_orders o = 0%nat.
Proof. intros n o n' [_ [_ T]]. eapply fr_no_orders. exact T. Qed.

Lemma count_zero_not_In : forall o outs, is_final_order o = true -> count_orders outs = 0%nat -> ~ In o outs.
Proof.
  intros o outs Ho. induction outs as [|x r IH]; simpl; intros Hc Hin; [contradiction|].
  unfold count_orders in Hc. simpl in Hc. destruct Hin as [Hin|Hin].
  - subst. rewrite Ho in Hc. discriminate.
  - destruct (is_final_order x); [discriminate|]. apply IH; assumption.
Qed.

(* state s is the initial one or is published in outs *)
Definition through (s : sstate) (n : node) (outs : list output) : Prop :=
  fsm_state n = s \/ exists d m i, In (Publish (scode s) d m i) outs.

(* what one event can do with the final orders *)
Definition Ord (n : node) (o : list output) (n' : node) : Prop :=
  (count_orders o <= 1)%nat /\
  (fsm_state n = FINAL -> count_orders o = 0%nat /\ fsm_state n' = FINAL) /\
  (count_orders o = 1%nat -> fsm_state n' = FINAL) /\
  (In SendRestart o -> through RESTARTING n o) /\ (In SendShutdown o -> through SHUTTING_DOWN n o).

Lemma Ord_frame : forall n o n', FR n o n' -> Ord n o n'.
Proof.
  intros n o n' F. assert (C := FR_no_orders _ _ _ F). destruct F as [_ [S _]].
  unfold Ord. rewrite C. split; [lia|]. split; [intro X; split; [reflexivity|congruence]|].
  split; [intro X; discriminate X|]. split.
  - intro X. exfalso. eapply (count_zero_not_In SendRestart); [reflexivity|exact C|exact X].
  - intro X. exfalso. eapply (count_zero_not_In SendShutdown); [reflexivity|exact C|exact X].
Qed.

Lemma through_app_r : forall s n a b, through s n b -> through s n (a ++ b).
Proof.
  intros s n a b [H|[d [m [i H]]]]; [left; exact H|right]. exists d, m, i. apply in_or_app. right. exact H.
Qed.

(* a frame part followed by something that satisfies Ord *)
Lemma Ord_prefix : forall n oa na ob n', FR n oa na -> Ord na ob n' -> Ord n (oa ++ ob) n'.
Proof.
  intros n oa na ob n' F [O1 [O2 [O3 [O4 O5]]]].
  assert (C := FR_no_orders _ _ _ F). destruct F as [_ [S _]].
  assert (T : forall s, through s na ob -> through s n (oa ++ ob)).
  { intros s [H|H]; [left; congruence|apply through_app_r; right; exact H]. }
  assert (NI : forall x, is_final_order x = true -> In x (oa ++ ob) -> In x ob).
  { intros x Hx Hin. apply in_app_or in Hin. destruct Hin as [Hin|Hin]; [|exact Hin].
    exfalso. eapply count_zero_not_In; eassumption. }
  unfold Ord. rewrite count_orders_app, C. simpl.
  split; [exact O1|]. split; [intro X; apply O2; congruence|]. split; [exact O3|]. split.
  - intro X. apply T. apply O4. apply NI; [reflexivity|exact X].
  - intro X. apply T. apply O5. apply NI; [reflexivity|exact X].
Qed.

Lemma set_state_Ord : forall fuel n d orcs now acc n' outs,
  set_state fuel n d orcs now acc = Ok (n', outs) -> exists o, outs = acc ++ o /\ Ord n o n'.
Proof.
  induction fuel as [|fuel IH]; intros n d orcs now acc n' outs H.
  - simpl in H. assert (R : n' = n /\ outs = acc).
    { destruct d as [ns|]; [|inversion H; split; reflexivity].
      destruct (sstate_eqb ns (fsm_state n)); [inversion H; split; reflexivity|].
      destruct (negb (fsm_transition_ok (fsm_state n) ns)); [inversion H; split; reflexivity|discriminate]. }
    destruct R; subst. exists []. rewrite app_nil_r. split; [reflexivity|apply Ord_frame; apply FR_refl].
  - simpl in H.
    assert (Same : Ok (n, acc) = Ok (n', outs) -> exists o, outs = acc ++ o /\ Ord n o n').
    { intro E. inversion E; subst. exists []. rewrite app_nil_r. split; [reflexivity|apply Ord_frame; apply FR_refl]. }
    destruct d as [ns|]; [|apply Same; exact H].
    destruct (sstate_eqb ns (fsm_state n)) eqn:Eeq; [apply Same; exact H|].
    destruct (fsm_transition_ok (fsm_state n) ns) eqn:Eok; simpl in H; [|apply Same; exact H].
    clear Same. apply sstate_eqb_neq in Eeq.
    assert (X := enter_Msame n ns now).
    destruct (set_fsm n ns) as [n1 o1] eqn:E1. simpl in X.
    destruct (enter_state n1 ns now) as [n2 o2] eqn:E2. simpl in X. destruct X as [_ [_ S2]]. specialize (S2 Eeq).
    destruct (next_orcs orcs) as [orc rest].
    destruct (fsm_next n2 orc now) as [[[n3 o3] d3]|k] eqn:E3; [|discriminate].
    apply IH in H. destruct H as [o' [Eo [P1 [P2 [P3 [P4 P5]]]]]].
    assert (F2 := enter_state_FR _ _ _ _ _ E2). assert (F3 := fsm_next_FR _ _ _ _ _ _ E3).
    assert (S3 : fsm_state n3 = ns) by (rewrite <- S2; apply F3).
    assert (C23 : count_orders (o2 ++ o3) = 0%nat) by (eapply FR_no_orders; eapply FR_trans; eassumption).
    assert (O1 : o1 = [publish n1] /\ fsm_state n1 = ns).
    { unfold set_fsm in E1. destruct (sstate_eqb (fsm_state n) ns) eqn:E; [apply sstate_eqb_eq in E; congruence|].
      inversion E1; subst. split; [reflexivity|]. unfold fsm_state. rewrite own_set_own. reflexivity. }
    destruct O1 as [Eo1 S1].
    assert (Pub : exists d m i, In (Publish (scode ns) d m i) o1).
    { rewrite Eo1. unfold publish. fold (fsm_state n1). rewrite S1. do 3 eexists. left. reflexivity. }
    exists (exit_outputs (fsm_state n) ++ o1 ++ o2 ++ o3 ++ o'). split; [rewrite Eo, <- !app_assoc; reflexivity|].
    assert (Cnt : count_orders (exit_outputs (fsm_state n) ++ o1 ++ o2 ++ o3 ++ o')
                  = (count_orders (exit_outputs (fsm_state n)) + count_orders o')%nat).
    { rewrite !count_orders_app. rewrite count_orders_app in C23.
      replace (count_orders o1) with 0%nat by (rewrite Eo1; reflexivity). lia. }
    assert (InO : forall x, is_final_order x = true ->
              In x (exit_outputs (fsm_state n) ++ o1 ++ o2 ++ o3 ++ o') -> In x (exit_outputs (fsm_state n)) \/ In x o').
    { intros x Hx Hin. apply in_app_or in Hin. destruct Hin as [Hin|Hin]; [left; exact Hin|].
      apply in_app_or in Hin. destruct Hin as [Hin|Hin].
      { rewrite Eo1 in Hin. destruct Hin as [Hin|[]]. subst x. discriminate Hx. }
      rewrite app_assoc in Hin. apply in_app_or in Hin. destruct Hin as [Hin|Hin]; [|right; exact Hin].
      exfalso. eapply count_zero_not_In; eassumption. }
    assert (Thr : forall s, through s n3 o' -> through s n (exit_outputs (fsm_state n) ++ o1 ++ o2 ++ o3 ++ o')).
    { intros s [Hs|[dd [mm [ii Hs]]]]; right.
      - rewrite S3 in Hs. subst s. destruct Pub as [dd [mm [ii Hp]]]. exists dd, mm, ii.
        apply in_or_app. right. apply in_or_app. left. exact Hp.
      - exists dd, mm, ii. apply in_or_app. right. apply in_or_app. right. apply in_or_app. right.
        apply in_or_app. right. exact Hs. }
    assert (Gen : exit_outputs (fsm_state n) = [] ->
                  Ord n (exit_outputs (fsm_state n) ++ o1 ++ o2 ++ o3 ++ o') n').
    { intro Ex. rewrite Ex in Cnt, InO, Thr. rewrite Ex. rewrite app_nil_l in Cnt, InO, Thr. rewrite app_nil_l.
      change (count_orders []) with 0%nat in Cnt. simpl in Cnt. unfold Ord. rewrite Cnt.
      split; [exact P1|]. split; [intro X; rewrite X, final_terminal_table in Eok; discriminate Eok|].
      split; [exact P3|]. split; intro X; apply Thr.
      - apply P4. destruct (InO SendRestart eq_refl X) as [Y|Y]; [destruct Y|exact Y].
      - apply P5. destruct (InO SendShutdown eq_refl X) as [Y|Y]; [destruct Y|exact Y]. }
    destruct (fsm_state n) eqn:Est; try (apply Gen; reflexivity); clear Gen.
    + (* RESTARTING *)
      assert (Ens : ns = FINAL) by (eapply ending_only_final_table; [left; reflexivity|exact Eok]). rewrite Ens in S3.
      destruct (P2 S3) as [C0 Sf]. unfold Ord. rewrite Cnt, C0. simpl.
      split; [lia|]. split; [intro X; rewrite Est in X; discriminate X|]. split; [intros _; exact Sf|]. split.
      * intros _. left. exact Est.
      * intro X. exfalso. destruct (InO SendShutdown eq_refl X) as [Y|Y].
        -- destruct Y as [Y|[]]. discriminate Y.
        -- eapply (count_zero_not_In SendShutdown); [reflexivity|exact C0|exact Y].
    + (* SHUTTING_DOWN *)
      assert (Ens : ns = FINAL) by (eapply ending_only_final_table; [right; reflexivity|exact Eok]). rewrite Ens in S3.
      destruct (P2 S3) as [C0 Sf]. unfold Ord. rewrite Cnt, C0. simpl.
      split; [lia|]. split; [intro X; rewrite Est in X; discriminate X|]. split; [intros _; exact Sf|]. split.
      * intro X. exfalso. destruct (InO SendRestart eq_refl X) as [Y|Y].
        -- destruct Y as [Y|[]]. discriminate Y.
        -- eapply (count_zero_not_In SendRestart); [reflexivity|exact C0|exact Y].
      * intros _. left. exact Est.
Qed.

Lemma fsm_run_Ord : forall n orcs now n' outs, fsm_run n orcs now = Ok (n', outs) -> Ord n outs n'.
Proof.
  intros n orcs now n' outs H. unfold fsm_run in H. destruct (next_orcs orcs) as [orc rest].
  destruct (fsm_next n orc now) as [[[n1 o1] d]|k] eqn:E1; [|discriminate].
  apply fsm_next_FR in E1. apply set_state_Ord in H. destruct H as [o [Eo P]]. subst outs.
  eapply Ord_prefix; eassumption.
Qed.

Lemma on_ending_Ord : forall n t orcs now err n' outs, on_ending n t orcs now err = Ok (n', outs) -> Ord n outs n'.
Proof.
  intros n t orcs now err n' outs H. unfold on_ending in H. destruct (is_master n).
  - apply set_state_Ord in H. destruct H as [o [Eo P]]. simpl in Eo. subst outs. exact P.
  - destruct (negb (master n =? 0)); [|discriminate]. inversion H; subst. apply Ord_frame.
    apply FR_plain. destruct t; reflexivity.
Qed.

(* (2) final_order_only_on_leaving_ending: one event emits at most one final order; when it does, the step starts
   in or passes through RESTARTING (SendRestart) / SHUTTING_DOWN (SendShutdown) and ends in FINAL; in FINAL
   nothing is emitted any more *)
Theorem final_order_only_on_leaving_ending : forall n e n' outs, step n e = Ok (n', outs) -> Ord n outs n'.
Proof.
  intros n e n' outs H. apply step_shape in H.
  destruct H as [F|[na [oa [ob [F [Eo [[orcs [now Hr]]|[t [orcs [now [err [Ht He]]]]]]]]]]]].
  - apply Ord_frame. exact F.
  - subst outs. eapply Ord_prefix; [exact F|]. eapply fsm_run_Ord. exact Hr.
  - subst outs. eapply Ord_prefix; [exact F|]. eapply on_ending_Ord. exact He.
Qed.

(* number of final orders along the observations of a history *)
Fixpoint run_orders (l : list obs) : nat :=
  match l with
  | [] => 0
  | NOk o :: r => count_orders (obs_outs o) + run_orders r
  | NCrash _ :: r => run_orders r
  end.

Lemma final_no_more_orders : forall evs n, fsm_state n = FINAL ->
  run_orders (run n evs) = 0%nat /\ forall o, In (NOk o) (run n evs) -> obs_fsm o = scode FINAL.
Proof.
  induction evs as [|e r IH]; intros n Hf; simpl; [split; [reflexivity|intros o []]|].
  destruct (step n e) as [[n' outs]|k] eqn:E; simpl; [|split; [reflexivity|intros o [X|[]]; discriminate X]].
  destruct (final_order_only_on_leaving_ending _ _ _ _ E) as [_ [P2 _]]. destruct (P2 Hf) as [C0 Sf].
  destruct (IH n' Sf) as [R1 R2]. change (obs_outs (observe n' outs)) with outs. rewrite C0, R1.
  split; [reflexivity|]. intros o [X|X]; [|apply R2; exact X].
  inversion X. change (obs_fsm (observe n' outs)) with (scode (fsm_state n')). rewrite Sf. reflexivity.
Qed.

(* along every history at most one final order is sent to the local Supervisor *)
Theorem one_final_order : forall evs n, (run_orders (run n evs) <= 1)%nat.
Proof.
  induction evs as [|e r IH]; intros n; simpl; [lia|].
  destruct (step n e) as [[n' outs]|k] eqn:E; simpl; [|lia].
  change (obs_outs (observe n' outs)) with outs.
  destruct (final_order_only_on_leaving_ending _ _ _ _ E) as [P1 [_ [P3 _]]].
  destruct (count_orders outs) as [|[|c]] eqn:Ec; [apply IH| |lia].
  destruct (final_no_more_orders r n' (P3 eq_refl)) as [R1 _]. rewrite R1. lia.
Qed.

(* and once it has been sent the instance is in FINAL for ever *)
Theorem final_after_order : forall n e n' outs evs, step n e = Ok (n', outs) -> count_orders outs = 1%nat ->
  fsm_state n' = FINAL /\ run_orders (run n' evs) = 0%nat /\
  forall o, In (NOk o) (run n' evs) -> obs_fsm o = scode FINAL.
Proof.
  intros n e n' outs evs H Hc. destruct (final_order_only_on_leaving_ending _ _ _ _ H) as [_ [_ [P3 _]]].
  split; [apply P3; exact Hc|]. apply final_no_more_orders. apply P3. exact Hc.
Qed.

(* (3)/(4) the decision taken in RESTARTING / SHUTTING_DOWN *)
(* the consistence check of the ending states decided to leave: the local instance is not RUNNING any more, the
   failure strategy fired, or the instances seen RUNNING do not agree on the Master *)
Definition consistence_exit (n : node) (now : Z) (n' : node) : Prop :=
  exists n1 o1 lost lostp n2 o3 x,
    check_instances n now = Ok (n1, o1, lost, lostp, None) /\ evaluate_stability n1 = Ok n2 /\
    ms_consistence n2 lost = Ok (n', o3, Some x) /\
    ((x = OFF /\ local_running n2 = false)
     \/ (x = SYNCHRONIZATION /\ o_fstrategy (n_opts n2) = FS_RESYNC)
     \/ (x = SHUTTING_DOWN /\ o_fstrategy (n_opts n2) = FS_SHUTDOWN)
     \/ (x = ELECTION /\ check_master n' = Ok false)).

Lemma check_failure_strategy_reasons : forall n lost n' o d, check_failure_strategy n lost = (n', o, Some d) ->
  (d = SYNCHRONIZATION /\ o_fstrategy (n_opts n) = FS_RESYNC) \/ (d = SHUTTING_DOWN /\ o_fstrategy (n_opts n) = FS_SHUTDOWN).
Proof.
  intros n lost n' o d H. unfold check_failure_strategy in H.
  destruct (set_degraded n _) as [n1 o1]. injection H as H1 H2 H3.
  match type of H3 with (if ?c then _ else _) = _ => destruct c end; [|discriminate].
  destruct (o_fstrategy (n_opts n)); inversion H3; subst; [left|right]; split; reflexivity.
Qed.

Lemma ms_consistence_reasons : forall n lost n' o x, ms_consistence n lost = Ok (n', o, Some x) ->
  (x = OFF /\ local_running n = false)
  \/ (x = SYNCHRONIZATION /\ o_fstrategy (n_opts n) = FS_RESYNC)
  \/ (x = SHUTTING_DOWN /\ o_fstrategy (n_opts n) = FS_SHUTDOWN)
  \/ (x = ELECTION /\ check_master n' = Ok false).
Proof.
  intros n lost n' o x H. unfold ms_consistence in H.
  destruct (sync_consistence n lost) as [[n1 o1] d1] eqn:E. unfold sync_consistence, on_consistence in E.
  destruct d1 as [y|].
  - inversion H; subst. destruct (local_running n) eqn:L.
    + apply check_failure_strategy_reasons in E. right. destruct E as [E|E]; [left|right; left]; exact E.
    + inversion E; subst. left. split; reflexivity.
  - destruct (check_master n1) as [ok|k] eqn:Ec; [|discriminate]. simpl in H.
    destruct ok; inversion H; subst. right. right. right. split; [reflexivity|exact Ec].
Qed.

Theorem ending_decision : forall n orc now n' o d, fsm_next n orc now = Ok (n', o, d) -> ending (fsm_state n) ->
  (consistence_exit n now n' /\ d = Some FINAL)
  \/ (is_master n' = true /\ d = Some (if or_stopping orc then fsm_state n else FINAL))
  \/ (is_master n' = false /\ d = Some (ending_slave_next n' (fsm_state n))).
Proof.
  intros n orc now n' o d H He. unfold fsm_next in H.
  destruct (check_instances n now) as [[[[[n1 o1] lost] lostp] d1]|k] eqn:E1; [|discriminate].
  assert (Hb : d1 = None).
  { eapply check_instances_base; [|exact E1]. destruct He as [He|He]; rewrite He; reflexivity. }
  subst d1.
  destruct (evaluate_stability n1) as [n2|k] eqn:E2; [|discriminate].
  assert (R : forall st, fsm_state n = st -> ending st ->
    match ms_consistence n2 lost with
    | Crash k => Crash k
    | Ok (n3, o3, Some _) => Ok (n3, o1 ++ o3, Some FINAL)
    | Ok (n3, o3, None) =>
        let oc := match lost with [] => [] | _ => [JobsInvalidation lost] end in
        if is_master n3 then Ok (n3, o1 ++ o3 ++ oc, Some (if or_stopping orc then st else FINAL))
        else Ok (n3, o1 ++ o3 ++ oc, Some (ending_slave_next n3 st))
    end = Ok (n', o, d) ->
    (consistence_exit n now n' /\ d = Some FINAL)
    \/ (is_master n' = true /\ d = Some (if or_stopping orc then st else FINAL))
    \/ (is_master n' = false /\ d = Some (ending_slave_next n' st))).
  { intros st Est Hst HH.
    destruct (ms_consistence n2 lost) as [[[n3 o3] d3]|k] eqn:E3; [|discriminate].
    destruct d3 as [x|].
    - inversion HH; subst. left. split; [|reflexivity].
      exists n1, o1, lost, lostp, n2, o3, x. split; [exact E1|]. split; [exact E2|]. split; [exact E3|].
      eapply ms_consistence_reasons. exact E3.
    - destruct (is_master n3) eqn:M; inversion HH; subst; [right; left|right; right]; split; (reflexivity || exact M). }
  destruct He as [He|He]; rewrite He in *; apply (R _ eq_refl); first [left; reflexivity|right; reflexivity|exact H].
Qed.

(* (3) a Master leaves RESTARTING / SHUTTING_DOWN for FINAL only when the Stopper is idle, unless the consistence
   check decided so (candidate finding F4: see early_final_witness) *)
Theorem master_leaves_ending_only_when_stopper_idle : forall n orc now n' o,
  fsm_next n orc now = Ok (n', o, Some FINAL) -> ending (fsm_state n) -> is_master n' = true ->
  or_stopping orc = false \/ consistence_exit n now n'.
Proof.
  intros n orc now n' o H He M. destruct (ending_decision _ _ _ _ _ _ H He) as [[C _]|[[_ D]|[M' _]]].
  - right. exact C.
  - left. destruct (or_stopping orc); [|reflexivity]. inversion D as [D1]. destruct He as [X|X]; rewrite X in D1; discriminate.
  - congruence.
Qed.

Lemma ending_slave_next_spec : forall n st,
  (master_state n = Some st -> ending_slave_next n st = st) /\
  (master_state n <> Some st -> ending_slave_next n st = FINAL).
Proof.
  intros n st. unfold ending_slave_next. destruct (master_state n) as [ms|]; split; intro H.
  - inversion H; subst. rewrite sstate_eqb_refl. reflexivity.
  - destruct (sstate_eqb ms st) eqn:E; [|reflexivity]. apply sstate_eqb_eq in E. subst. contradiction.
  - discriminate.
  - reflexivity.
Qed.

(* (4) a non-Master stays in RESTARTING / SHUTTING_DOWN while its view of the Master is in that state, and goes to
   FINAL otherwise (or when the consistence check says so) *)
Theorem slave_leaves_ending_after_master : forall n orc now n' o d,
  fsm_next n orc now = Ok (n', o, d) -> ending (fsm_state n) -> is_master n' = false ->
  (consistence_exit n now n' /\ d = Some FINAL)
  \/ (master_state n' = Some (fsm_state n) /\ d = Some (fsm_state n))
  \/ (master_state n' <> Some (fsm_state n) /\ d = Some FINAL).
Proof.
  intros n orc now n' o d H He M. destruct (ending_decision _ _ _ _ _ _ H He) as [C|[[M' _]|[_ D]]].
  - left. exact C.
  - congruence.
  - right. destruct (ending_slave_next_spec n' (fsm_state n)) as [A B].
    assert (Dec : master_state n' = Some (fsm_state n) \/ master_state n' <> Some (fsm_state n)).
    { destruct (master_state n') as [ms|]; [|right; discriminate].
      destruct (sstate_eqb ms (fsm_state n)) eqn:E; [apply sstate_eqb_eq in E; left; congruence|].
      right. intro X. inversion X; subst. rewrite sstate_eqb_refl in E. discriminate. }
    destruct Dec as [X|X]; [left|right]; (split; [exact X|]); rewrite D; f_equal; [apply A|apply B]; exact X.
Qed.

(* F4 witness: the Master is in SHUTTING_DOWN, the Stopper is still busy (or_stopping = true), instance 2 of the
   STRICT list is missing and the failure strategy is RESYNC: the consistence check decides, the Master goes to
   FINAL and sends the shutdown order to its Supervisor at once *)
Definition f4_node : node :=
  mkNode 1 (mkOpts 2 false true false false false false 0 FS_RESYNC) [] [1; 2] [(1, 1); (2, 2)]
         [(1, mkIst IRUNNING 2 2 10); (2, mkIst ISTOPPED 0 0 0)]
         [(1, mkSm SHUTTING_DOWN false 1 [(1, IRUNNING); (2, ISTOPPED)]); (2, sm_fresh)] [1] false 0 [].
Definition orc_stopping := mkOr false true false 0.

Theorem early_final_witness :
  is_master f4_node = true /\ fsm_state f4_node = SHUTTING_DOWN /\ or_stopping orc_stopping = true /\
  (exists n' o, fsm_next f4_node orc_stopping 20 = Ok (n', o, Some FINAL)) /\
  (exists n' outs, step f4_node (LocalTick 3 20 [orc_stopping]) = Ok (n', outs)
                   /\ fsm_state n' = FINAL /\ In SendShutdown outs).
Proof.
  split; [reflexivity|]. split; [reflexivity|]. split; [reflexivity|]. split.
  - vm_compute. do 2 eexists. reflexivity.
  - vm_compute. do 2 eexists. split; [reflexivity|]. split; [reflexivity|]. auto 10.
Qed.

(* examples for (1) and (2) *)
Example ex_restart_routed :
  step (fst (set_master (ex3_node false) 2)) (ReqRestart 10 [orc0])
  = Ok (fst (set_master (ex3_node false) 2), [RestartAll 2]).
Proof. apply restart_routed_to_master; [reflexivity|discriminate]. Qed.

(* the Master (1) in OPERATION receives a shutdown request: SHUTTING_DOWN, then FINAL once the Stopper is idle,
   with exactly one SendShutdown; later events emit nothing *)
Definition op_node : node :=
  mkNode 1 (ex_opts false FS_CONTINUE) [] [] [(1, 1); (2, 2)]
         [(1, mkIst IRUNNING 2 2 10); (2, mkIst ISTOPPED 0 0 0)]
         [(1, mkSm OPERATION false 1 [(1, IRUNNING); (2, ISTOPPED)]); (2, sm_fresh)] [1] false 0 [].
Definition shut_hist : list event :=
  [ReqShutdown 20 [orc_stopping]; LocalTick 3 25 [orc_stopping]; LocalTick 4 30 [orc0]; LocalTick 5 35 [orc0];
   ReqShutdown 40 [orc0]].

Example ex_one_final_order :
  obs_states (run op_node shut_hist) = [7; 7; 8; 8; 8] /\ run_orders (run op_node shut_hist) = 1%nat.
Proof. vm_compute. split; reflexivity. Qed.

(* ====================================================================== *)
(* The in-place filtering contract of the lost processes (C06, node level) *)
(* ====================================================================== *)
Definition is_failure_job (o : output) : bool := match o with FailureJob => true | _ => false end.
Definition nofj (l : list output) : bool := forallb (fun o => negb (is_failure_job o)) l.

Lemma nofj_app : forall a b, nofj (a ++ b) = nofj a && nofj b.
Proof. intros. unfold nofj. apply forallb_app. Qed.

Lemma nofj_In : forall l, nofj l = true -> ~ In FailureJob l.
Proof. intros l H I. unfold nofj in H. rewrite forallb_forall in H. apply H in I. discriminate I. Qed.

Ltac nofj_tac :=
  rewrite ?nofj_app;
  repeat match goal with H : nofj ?o = true |- context[nofj ?o] => rewrite H end;
  simpl; try reflexivity.

Lemma starter_filter_busy : forall lost lostp orc,
  (lostp = true -> lost <> []) -> or_starting orc = true -> starter_filter lost lostp orc = false.
Proof.
  intros lost lostp orc Hl Hb. unfold starter_filter. destruct lost as [|j r].
  - destruct lostp; [exfalso; apply Hl; reflexivity|reflexivity].
  - rewrite Hb. destruct lostp; reflexivity.
Qed.

Lemma starter_filter_idle : forall lost lostp orc,
  or_starting orc = false -> starter_filter lost lostp orc = lostp.
Proof. intros lost lostp orc Hb. unfold starter_filter. rewrite Hb. destruct lost, lostp; reflexivity. Qed.

Lemma set_master_nofj : forall n m n' o, set_master n m = (n', o) -> nofj o = true.
Proof. intros n m n' o H. unfold set_master in H. destruct (Z.eqb (master n) m); inversion H; subst; reflexivity. Qed.

Lemma set_degraded_nofj : forall n b n' o, set_degraded n b = (n', o) -> nofj o = true.
Proof.
  intros n b n' o H. unfold set_degraded in H. destruct (Bool.eqb (sm_degraded (own n)) b); inversion H; subst; reflexivity.
Qed.

Lemma update_instance_state_nofj : forall n j st n' o, update_instance_state n j st = (n', o) -> nofj o = true.
Proof.
  intros n j st n' o H. unfold update_instance_state in H.
  match type of H with (if ?c then _ else _) = _ => destruct c end.
  - eapply set_master_nofj; eassumption.
  - inversion H; subst; reflexivity.
Qed.

Lemma set_inst_state_nofj : forall n j st now n' o, set_inst_state n j st now = Ok (n', o) -> nofj o = true.
Proof.
  intros n j st now n' o H. unfold set_inst_state in H.
  destruct (aget j (n_insts n)) as [s|]; [|discriminate].
  destruct (istate_eqb (is_state s) st); [inversion H; subst; reflexivity|].
  destruct (inst_transition_ok (is_state s) st); [|discriminate].
  inversion H as [H1]. eapply update_instance_state_nofj; eassumption.
Qed.

Lemma invalidate_nofj : forall n j fence now n' o, invalidate n j fence now = Ok (n', o) -> nofj o = true.
Proof.
  intros n j fence now n' o H. unfold invalidate in H.
  destruct (Z.eqb j (n_me n)); [eapply set_inst_state_nofj; eassumption|].
  destruct (fence || _); eapply set_inst_state_nofj; eassumption.
Qed.

(* lost processes come with lost instances *)
Lemma invalidate_failed_aux_nofj : forall ids n acc lost lostp now n' outs lost' lostp',
  invalidate_failed_aux ids n acc lost lostp now = Ok (n', outs, lost', lostp') ->
  (nofj acc = true -> nofj outs = true) /\ ((lostp = true -> lost <> []) -> lostp' = true -> lost' <> []).
Proof.
  induction ids as [|j r IH]; simpl; intros n acc lost lostp now n' outs lost' lostp' H.
  - inversion H; subst. split; auto.
  - destruct (inst_state n j) as [[]|]; try (eapply IH; eassumption).
    destruct (invalidate n j false now) as [[n1 o1]|k] eqn:E; [|discriminate].
    apply invalidate_nofj in E. apply IH in H. destruct H as [H1 H2]. split.
    + intro A. apply H1. nofj_tac; try exact A.
    + intros _. apply H2. intros _. destruct lost; discriminate.
Qed.

Lemma activate_checked_aux_nofj : forall ids n acc act now n' outs act',
  activate_checked_aux ids n acc act now = Ok (n', outs, act') -> nofj acc = true -> nofj outs = true.
Proof.
  induction ids as [|j r IH]; simpl; intros n acc act now n' outs act' H A.
  - inversion H; subst. exact A.
  - destruct (inst_state n j) as [[]|]; try (eapply IH; eassumption).
    destruct (set_inst_state n j IRUNNING now) as [[n1 o1]|k] eqn:E; [|discriminate].
    apply set_inst_state_nofj in E. eapply IH; [eassumption|]. nofj_tac; try exact A.
Qed.

Lemma check_instances_nofj : forall n now n' o lost lostp d,
  check_instances n now = Ok (n', o, lost, lostp, d) -> nofj o = true /\ (lostp = true -> lost <> []).
Proof.
  intros n now n' o lost lostp d H. unfold check_instances, invalidate_failed in H.
  destruct (invalidate_failed_aux _ n [] [] false now) as [[[[n1 o1] l1] p1]|k] eqn:E1; [|discriminate].
  apply invalidate_failed_aux_nofj in E1. destruct E1 as [A1 B1].
  specialize (A1 eq_refl). assert (B : p1 = true -> l1 <> []) by (apply B1; discriminate).
  destruct (act_of (fsm_state n)).
  - unfold activate_checked in H.
    destruct (activate_checked_aux _ n1 [] [] now) as [[[n2 o2] act]|k] eqn:E2; [|discriminate].
    apply activate_checked_aux_nofj in E2; [|reflexivity]. inversion H; subst. split; [nofj_tac|exact B].
  - unfold activate_checked in H.
    destruct (activate_checked_aux _ n1 [] [] now) as [[[n2 o2] act]|k] eqn:E2; [|discriminate].
    apply activate_checked_aux_nofj in E2; [|reflexivity]. inversion H; subst. split; [nofj_tac|exact B].
  - inversion H; subst. split; [exact A1|exact B].
Qed.

Lemma check_failure_strategy_nofj : forall n lost n' o d, check_failure_strategy n lost = (n', o, d) -> nofj o = true.
Proof.
  intros n lost n' o d H. unfold check_failure_strategy in H.
  match type of H with (let '(_, _) := ?u in _) = _ => destruct u as [n1 o1] eqn:E end.
  apply set_degraded_nofj in E. inversion H; subst. exact E.
Qed.

Lemma sync_consistence_nofj : forall n lost n' o d, sync_consistence n lost = (n', o, d) -> nofj o = true.
Proof.
  intros n lost n' o d H. unfold sync_consistence in H. destruct (on_consistence n).
  - inversion H; subst. reflexivity.
  - eapply check_failure_strategy_nofj; eassumption.
Qed.

Lemma ms_consistence_nofj : forall n lost n' o d, ms_consistence n lost = Ok (n', o, d) -> nofj o = true.
Proof.
  intros n lost n' o d H. unfold ms_consistence in H.
  destruct (sync_consistence n lost) as [[n1 o1] d1] eqn:E. apply sync_consistence_nofj in E.
  destruct d1; [inversion H; subst; exact E|].
  destruct (check_master n1) as [ok|k]; [|discriminate]. simpl in H. inversion H; subst. exact E.
Qed.

Lemma accept_master_nofj : forall n pick n' o, accept_master n pick = Ok (n', o) -> nofj o = true.
Proof.
  intros n pick n' o H. unfold accept_master in H.
  destruct (master_identifiers n) as [ms|k]; [|discriminate]. simpl in H.
  destruct (zdiscard 0 ms) as [|m [|m2 r]]; inversion H as [H1];
    first [reflexivity | eapply set_master_nofj; eassumption].
Qed.

Lemma select_master_nofj : forall n n' o, select_master n = Ok (n', o) -> nofj o = true.
Proof.
  intros n n' o H. unfold select_master in H.
  destruct (master_identifiers n) as [ms|k]; [|discriminate]. simpl in H.
  match type of H with bind ?u _ = _ => destruct u as [[[m rk]|]|k] end; simpl in H; try discriminate.
  inversion H as [H1]. eapply set_master_nofj; eassumption.
Qed.

(* C06, node level: an evaluation of instance.next() made while the Starter is busy never feeds the failure handler.
   The instances acknowledged lost at that evaluation are notified to the Starter (JobsInvalidation), which takes the
   processes lost with them out of the set that _master_next reads (starter_filter) *)
Theorem fsm_next_starter_busy_no_failure_job : forall n orc now n' o d,
  fsm_next n orc now = Ok (n', o, d) -> or_starting orc = true -> nofj o = true.
Proof.
  intros n orc now n' o d H Hb. unfold fsm_next in H.
  destruct (check_instances n now) as [[[[[n1 o1] lost] lostp] d1]|k] eqn:E1; [|discriminate].
  apply check_instances_nofj in E1. destruct E1 as [A1 B1].
  destruct d1 as [d1|]; [inversion H; subst; exact A1|].
  destruct (evaluate_stability n1) as [n2|k] eqn:E2; [|discriminate].
  rewrite (starter_filter_busy lost lostp orc B1 Hb) in H.
  set (oc := match lost with [] => [] | _ => [JobsInvalidation lost] end) in *.
  assert (Hoc : nofj oc = true) by (unfold oc; destruct lost; reflexivity).
  clearbody oc.
  destruct (fsm_state n) eqn:Est.
  - inversion H; subst. nofj_tac.
  - (* SYNCHRONIZATION *)
    destruct (on_consistence n2); [inversion H; subst; nofj_tac|].
    match type of H with match ?u with _ => _ end = _ => destruct u as [[[n3 o3] us]|k] eqn:E3; [|discriminate] end.
    assert (F3 : nofj o3 = true).
    { destruct (o_user (n_opts n2)).
      - destruct (accept_master n2 (or_pick orc)) as [[n3' o3']|k] eqn:E4; [|discriminate].
        apply accept_master_nofj in E4.
        destruct (master n3' =? 0); [inversion E3; subst; exact E4|].
        destruct (inst_state n3' (master n3')); inversion E3; subst; exact E4.
      - inversion E3; subst. reflexivity. }
    match type of H with (let '(_, _) := ?u in _) = _ => destruct u as [n4 o4] eqn:E4 end.
    apply set_degraded_nofj in E4. inversion H; subst. nofj_tac.
  - (* ELECTION *)
    destruct (sync_consistence n2 lost) as [[n3 o3] d3] eqn:E3. apply sync_consistence_nofj in E3.
    destruct d3; [inversion H; subst; nofj_tac|].
    assert (SM : forall r, select_master n3 = Ok r -> nofj (o1 ++ o3 ++ snd r) = true).
    { intros [n4 o4] E4. apply select_master_nofj in E4. simpl. nofj_tac. }
    destruct (is_stable n3); [|inversion H; subst; nofj_tac].
    destruct (check_master n3) as [[|]|k]; [| |discriminate].
    + destruct (is_master n3); [inversion H; subst; nofj_tac|].
      destruct (master_state n3) as [[]|];
        first [ destruct (select_master n3) as [r|k] eqn:E4; [|discriminate]; simpl in H; inversion H; subst;
                apply SM; reflexivity
              | inversion H; subst; nofj_tac ].
    + destruct (select_master n3) as [r|k] eqn:E4; [|discriminate]; simpl in H; inversion H; subst.
      apply SM; reflexivity.
  - (* DISTRIBUTION *)
    destruct (ms_consistence n2 lost) as [[[n3 o3] d3]|k] eqn:E3; [|discriminate]. apply ms_consistence_nofj in E3.
    destruct d3; [inversion H; subst; nofj_tac|].
    destruct (is_master n3); inversion H; subst; nofj_tac.
  - (* OPERATION *)
    destruct (ms_consistence n2 lost) as [[[n3 o3] d3]|k] eqn:E3; [|discriminate]. apply ms_consistence_nofj in E3.
    destruct d3; [inversion H; subst; nofj_tac|].
    destruct (is_master n3); inversion H; subst; nofj_tac.
  - (* CONCILIATION *)
    destruct (ms_consistence n2 lost) as [[[n3 o3] d3]|k] eqn:E3; [|discriminate]. apply ms_consistence_nofj in E3.
    destruct d3; [inversion H; subst; nofj_tac|].
    destruct (is_master n3); [|inversion H; subst; nofj_tac].
    destruct (or_starting orc || or_stopping orc); [inversion H; subst; nofj_tac|].
    destruct (negb (or_conflict orc)); inversion H; subst; nofj_tac.
  - (* RESTARTING *)
    destruct (ms_consistence n2 lost) as [[[n3 o3] d3]|k] eqn:E3; [|discriminate]. apply ms_consistence_nofj in E3.
    destruct d3; [inversion H; subst; nofj_tac|].
    destruct (is_master n3); inversion H; subst; nofj_tac.
  - (* SHUTTING_DOWN *)
    destruct (ms_consistence n2 lost) as [[[n3 o3] d3]|k] eqn:E3; [|discriminate]. apply ms_consistence_nofj in E3.
    destruct d3; [inversion H; subst; nofj_tac|].
    destruct (is_master n3); inversion H; subst; nofj_tac.
  - (* FINAL *)
    inversion H; subst. nofj_tac.
Qed.

(* ... and with an idle Starter nothing is filtered: the Master in a working state whose consistence checks decide nothing
   feeds the failure handler as soon as a process is lost (the demand of c06_loss_walk) *)
Theorem fsm_next_starter_idle_failure_job : forall n orc now n1 o1 lost n2 n3 o3 n' o d,
  working (fsm_state n) ->
  check_instances n now = Ok (n1, o1, lost, true, None) -> evaluate_stability n1 = Ok n2 ->
  ms_consistence n2 lost = Ok (n3, o3, None) -> is_master n3 = true -> or_starting orc = false ->
  fsm_next n orc now = Ok (n', o, d) -> In FailureJob o.
Proof.
  intros n orc now n1 o1 lost n2 n3 o3 n' o d W E1 E2 E3 M Hb H. unfold fsm_next in H.
  rewrite E1, E2, E3, M, (starter_filter_idle lost true orc Hb) in H.
  assert (G : forall a b c t, In FailureJob (a ++ b ++ c ++ [FailureJob] ++ t)).
  { intros a b c t. apply in_or_app. right. apply in_or_app. right. apply in_or_app. right. left. reflexivity. }
  destruct W as [W|[W|W]]; rewrite W in H.
  - inversion H; subst. rewrite <- (app_nil_r [FailureJob]). apply G.
  - inversion H; subst. rewrite <- (app_nil_r [FailureJob]). apply G.
  - rewrite Hb in H. simpl in H.
    destruct (or_stopping orc); [inversion H; subst; rewrite <- (app_nil_r [FailureJob]); apply G|].
    destruct (negb (or_conflict orc)); inversion H; subst; [rewrite <- (app_nil_r [FailureJob])|]; apply G.
Qed.

(* the hypotheses are satisfiable: a Master in OPERATION acknowledging the loss of the only peer, which hosted a process *)
Definition loss_node : node :=
  mkNode 1 (ex_opts false FS_CONTINUE) [] [] [(1, 1); (2, 2)]
         [(1, mkIst IRUNNING 2 2 10); (2, mkIst FAILED 1 1 0)]
         [(1, mkSm OPERATION false 1 [(1, IRUNNING); (2, FAILED)]); (2, sm_fresh)] [1] false 0 [2].
Definition orc_starting := mkOr true false false 0.

Example ex_loss_idle_starter :
  exists n', fsm_next loss_node orc0 20 = Ok (n', [JobsInvalidation [2]; FailureJob], Some OPERATION).
Proof. vm_compute. eexists. reflexivity. Qed.

Example ex_loss_busy_starter :
  exists n', fsm_next loss_node orc_starting 20 = Ok (n', [JobsInvalidation [2]], Some OPERATION).
Proof. vm_compute. eexists. reflexivity. Qed.

Example ex_loss_idle_hyps :
  exists n1 o1 lost n2 n3 o3,
    working (fsm_state loss_node) /\ check_instances loss_node 20 = Ok (n1, o1, lost, true, None) /\
    evaluate_stability n1 = Ok n2 /\ ms_consistence n2 lost = Ok (n3, o3, None) /\ is_master n3 = true.
Proof. vm_compute. do 6 eexists. repeat split; try reflexivity. right. left. reflexivity. Qed.
