(* StatsProofs.v — structural proofs about model/Stats.v (property C20): lengths, key sets, gating, resets.
   No float reasoning here (floats are opaque values); the numeric lemmas are in StatsFloat.v.
   Every invariant is shown preserved by ONE push for ANY sample, then lifted to streams by induction. *)
From Coq Require Import PrimFloat.
From Sup Require Import Stats.
From Coq Require Import Lia.

(* ------------------------------------------------------------------ lists *)
Lemma trunc_depth_length : forall A (d : Z) (l : list A),
  length (trunc_depth d l) = Nat.min (length l) (Z.to_nat d).
Proof. intros A d l. unfold trunc_depth. rewrite skipn_length. lia. Qed.

Lemma push_trunc_length : forall A (d : Z) (l : list A) (x : A),
  length (push_trunc d l x) = Nat.min (S (length l)) (Z.to_nat d).
Proof.
  intros A d l x. unfold push_trunc. rewrite trunc_depth_length, app_length. cbn [length]. lia.
Qed.

Lemma push_trunc_bounded : forall A (d : Z) (l : list A) (x : A), 0 <= d -> zlen (push_trunc d l x) <= d.
Proof. intros A d l x Hd. unfold zlen. rewrite push_trunc_length. lia. Qed.

Lemma push_trunc_same_length : forall A B (d : Z) (l1 : list A) (l2 : list B) x y,
  length l1 = length l2 -> length (push_trunc d l1 x) = length (push_trunc d l2 y).
Proof. intros A B d l1 l2 x y H. rewrite !push_trunc_length. lia. Qed.

(* values of an alist *)
Definition AllV {V} (P : V -> Prop) (l : alist V) : Prop := Forall (fun e => P (snd e)) l.

Lemma AllV_aget : forall V (P : V -> Prop) (l : alist V) k v, AllV P l -> aget k l = Some v -> P v.
Proof.
  intros V P l k v H. induction H as [|[k' v'] r Hx Hr IH]; simpl; intro E.
  - discriminate.
  - destruct (Z.eqb k k') eqn:Ek.
    + inversion E; subst. exact Hx.
    + apply IH. exact E.
Qed.

Lemma AllV_aset : forall V (P : V -> Prop) (l : alist V) k v, AllV P l -> P v -> AllV P (aset k v l).
Proof.
  intros V P l k v H Hv. induction H as [|[k' v'] r Hx Hr IH]; simpl.
  - constructor; [exact Hv | constructor].
  - destruct (Z.eqb k k') eqn:Ek.
    + constructor; [exact Hv | exact Hr].
    + constructor; [exact Hx | exact IH].
Qed.

Lemma AllV_adel : forall V (P : V -> Prop) (l : alist V) k, AllV P l -> AllV P (adel k l).
Proof.
  intros V P l k H. induction H as [|[k' v'] r Hx Hr IH]; simpl.
  - constructor.
  - destruct (Z.eqb k k') eqn:Ek.
    + exact Hr.
    + constructor; [exact Hx | exact IH].
Qed.

Lemma aget_aset_same : forall V (l : alist V) k v, aget k (aset k v l) = Some v.
Proof.
  intros V l k v. induction l as [|[k' v'] r IH]; simpl.
  - rewrite Z.eqb_refl. reflexivity.
  - destruct (Z.eqb k k') eqn:Ek; simpl; rewrite Ek; [reflexivity | exact IH].
Qed.

Lemma aget_aset_other : forall V (l : alist V) k k' v, k' <> k -> aget k' (aset k v l) = aget k' l.
Proof.
  intros V l k k' v Hne. induction l as [|[k2 v2] r IH]; simpl.
  - destruct (Z.eqb k' k) eqn:E; [apply Z.eqb_eq in E; contradiction | reflexivity].
  - destruct (Z.eqb k k2) eqn:Ek; simpl.
    + apply Z.eqb_eq in Ek. subst k2.
      destruct (Z.eqb k' k) eqn:E; [apply Z.eqb_eq in E; contradiction | reflexivity].
    + destruct (Z.eqb k' k2); [reflexivity | exact IH].
Qed.

Lemma aget_none_notin : forall V (l : alist V) k, aget k l = None <-> ~ In k (akeys l).
Proof.
  intros V l k. induction l as [|[k' v'] r IH]; simpl.
  - split; [intros _ H; exact H | reflexivity].
  - destruct (Z.eqb k k') eqn:Ek.
    + apply Z.eqb_eq in Ek. subst. split; [discriminate | intro H; exfalso; apply H; left; reflexivity].
    + apply Z.eqb_neq in Ek. rewrite IH. split.
      * intros H [H1 | H1]; [apply Ek; symmetry; exact H1 | exact (H H1)].
      * intros H H1. apply H. right. exact H1.
Qed.

Lemma akeys_adel_subset : forall V (l : alist V) k x, In x (akeys (adel k l)) -> In x (akeys l).
Proof.
  intros V l k x. induction l as [|[k' v'] r IH]; simpl.
  - intro H; exact H.
  - destruct (Z.eqb k k'); simpl.
    + intro H. right. exact H.
    + intros [H | H]; [left; exact H | right; apply IH; exact H].
Qed.

Lemma nodup_adel : forall V (l : alist V) k, NoDup (akeys l) -> NoDup (akeys (adel k l)).
Proof.
  intros V l k. induction l as [|[k' v'] r IH]; simpl; intro H.
  - exact H.
  - inversion H as [|x xs Hnin Hnd]; subst. destruct (Z.eqb k k'); simpl.
    + exact Hnd.
    + constructor.
      * intro Hin. apply Hnin. eapply akeys_adel_subset. exact Hin.
      * apply IH. exact Hnd.
Qed.

(* del d[k] really removes the key when keys are unique (a Python dict) *)
Lemma aget_adel_same : forall V (l : alist V) k, NoDup (akeys l) -> aget k (adel k l) = None.
Proof.
  intros V l k. induction l as [|[k' v'] r IH]; simpl; intro H.
  - reflexivity.
  - inversion H as [|x xs Hnin Hnd]; subst. destruct (Z.eqb k k') eqn:Ek; simpl.
    + apply Z.eqb_eq in Ek. subst k'. apply aget_none_notin. exact Hnin.
    + rewrite Ek. apply IH. exact Hnd.
Qed.

Lemma akeys_aset : forall V (l : alist V) k v x, In x (akeys (aset k v l)) -> x = k \/ In x (akeys l).
Proof.
  intros V l k v x. induction l as [|[k' v'] r IH]; simpl.
  - intros [H | H]; [left; symmetry; exact H | contradiction].
  - destruct (Z.eqb k k') eqn:Ek; simpl.
    + intros [H | H]; [right; left; exact H | right; right; exact H].
    + intros [H | H]; [right; left; exact H |].
      destruct (IH H) as [H1 | H1]; [left; exact H1 | right; right; exact H1].
Qed.

Lemma nodup_aset : forall V (l : alist V) k v, NoDup (akeys l) -> NoDup (akeys (aset k v l)).
Proof.
  intros V l k v. induction l as [|[k' v'] r IH]; simpl; intro H.
  - constructor; [intro F; exact F | constructor].
  - inversion H as [|x xs Hnin Hnd]; subst. destruct (Z.eqb k k') eqn:Ek; simpl.
    + constructor; assumption.
    + constructor.
      * intro Hin. destruct (akeys_aset _ _ _ _ _ Hin) as [H1 | H1].
        -- subst k'. rewrite Z.eqb_refl in Ek. discriminate.
        -- exact (Hnin H1).
      * apply IH. exact Hnd.
Qed.

(* ------------------------------------------------------------------ timed histories (net / disk / usage) *)
(* one entry: every value list is as long as the uptimes; `ar` value lists *)
Definition entry_aligned (ar : nat) (e : list float * list (list float)) : Prop :=
  length (snd e) = ar /\ Forall (fun l => length l = length (fst e)) (snd e).
Definition entry_bounded (d : Z) (e : list float * list (list float)) : Prop :=
  zlen (fst e) <= d /\ Forall (fun l => zlen l <= d) (snd e).

Definition thist_aligned (ar : nat) (h : thist) : Prop := AllV (entry_aligned ar) h.
Definition thist_bounded (d : Z) (h : thist) : Prop := AllV (entry_bounded d) h.
Definition io_arity (ar : nat) (io : alist (list float)) : Prop := AllV (fun nb => length nb = ar) io.

Lemma upd_vals_length : forall d nb vals, length (upd_vals d nb vals) = length vals.
Proof.
  intros d nb. induction nb as [|x nb IH]; intros vals; destruct vals as [|l vals]; simpl; try reflexivity.
  rewrite IH. reflexivity.
Qed.

Lemma upd_vals_aligned : forall d u (upt : list float) nb vals,
  (length vals <= length nb)%nat ->
  Forall (fun l : list float => length l = length upt) vals ->
  Forall (fun l : list float => length l = length (push_trunc d upt u)) (upd_vals d nb vals).
Proof.
  intros d u upt nb. induction nb as [|x nb IH]; intros vals Hlen H.
  - destruct vals; [constructor | simpl in Hlen; lia].
  - destruct vals as [|l vals]; simpl; [constructor|].
    inversion H as [|y ys Hl Hr]; subst. constructor.
    + apply push_trunc_same_length. exact Hl.
    + apply IH; [simpl in Hlen; lia | exact Hr].
Qed.

Lemma upd_vals_bounded : forall d nb vals, 0 <= d ->
  Forall (fun l : list float => zlen l <= d) vals ->
  Forall (fun l : list float => zlen l <= d) (upd_vals d nb vals).
Proof.
  intros d nb. induction nb as [|x nb IH]; intros vals Hd H.
  - destruct vals; exact H.
  - destruct vals as [|l vals]; simpl; [constructor|].
    inversion H as [|y ys Hl Hr]; subst. constructor.
    + apply push_trunc_bounded. exact Hd.
    + apply IH; assumption.
Qed.

(* aligned: through appearance (fresh entries), disappearance (dropped entries), wrap (dropped, re-created) *)
Lemma push_timed_aligned : forall ar d u h io,
  thist_aligned ar h -> io_arity ar io -> thist_aligned ar (push_timed d u h io).
Proof.
  intros ar d u h io Hh Hio. unfold push_timed, thist_aligned, AllV. apply Forall_app. split.
  - apply Forall_flat_map. unfold thist_aligned, AllV in Hh.
    eapply Forall_impl; [|exact Hh]. intros [k [upt vals]] [Har Hal]. simpl in *.
    destruct (aget k io) as [nb|] eqn:E; [|constructor].
    constructor; [|constructor]. unfold entry_aligned, entry_bounded; simpl. split.
    + rewrite upd_vals_length. exact Har.
    + apply upd_vals_aligned; [|exact Hal]. pose proof (AllV_aget _ _ _ _ _ Hio E) as Hnb. simpl in Hnb. lia.
  - apply Forall_map. apply Forall_forall. intros [k nb] Hin. apply filter_In in Hin. destruct Hin as [Hin _].
    unfold io_arity, AllV in Hio. rewrite Forall_forall in Hio. specialize (Hio _ Hin). unfold entry_aligned. simpl in *. split.
    + rewrite map_length. exact Hio.
    + apply Forall_map. apply Forall_forall. intros x _. reflexivity.
Qed.

Lemma push_timed_bounded : forall d u h io, 1 <= d ->
  thist_bounded d h -> thist_bounded d (push_timed d u h io).
Proof.
  intros d u h io Hd Hh. unfold push_timed, thist_bounded, AllV. apply Forall_app. split.
  - apply Forall_flat_map. unfold thist_bounded, AllV in Hh.
    eapply Forall_impl; [|exact Hh]. intros [k [upt vals]] [Hb Hbl]. simpl in *.
    destruct (aget k io) as [nb|] eqn:E; [|constructor].
    constructor; [|constructor]. unfold entry_aligned, entry_bounded; simpl. split.
    + apply push_trunc_bounded. lia.
    + apply upd_vals_bounded; [lia | exact Hbl].
  - apply Forall_map. apply Forall_forall. intros [k nb] _. unfold entry_bounded. simpl. split.
    + unfold zlen. simpl. lia.
    + apply Forall_map. apply Forall_forall. intros x _. unfold zlen. simpl. lia.
Qed.

(* every key of the new history comes from the integrated point: a key without a point (vanished or
   wrapped) is dropped *)
Lemma push_timed_keys : forall d u h io k, In k (akeys (push_timed d u h io)) -> In k (akeys io).
Proof.
  intros d u h io k. unfold push_timed, akeys. rewrite map_app, in_app_iff. intros [H | H].
  - rewrite in_map_iff in H. destruct H as [[k' e] [Hk Hin]]. simpl in Hk. subst k'.
    rewrite in_flat_map in Hin. destruct Hin as [[k2 e2] [_ Hin]]. simpl in Hin.
    destruct (aget k2 io) as [nb|] eqn:E; [|contradiction].
    destruct Hin as [Hin | []]. inversion Hin; subst.
    destruct (in_dec Z.eq_dec k (map fst io)) as [Hi | Hn]; [exact Hi|].
    apply aget_none_notin in Hn. rewrite Hn in E. discriminate.
  - rewrite map_map in H. simpl in H. rewrite in_map_iff in H. destruct H as [[k' nb] [Hk Hin]].
    simpl in Hk. subst k'. apply filter_In in Hin. destruct Hin as [Hin _].
    apply in_map_iff. exists (k, nb). split; [reflexivity | exact Hin].
Qed.

(* io_statistics: two rates per key; only keys present in both samples whose counters did not decrease *)
Lemma io_statistics_arity : forall last ref dur io, io_statistics last ref dur = Ok io -> io_arity 2 io.
Proof.
  intros last ref dur. induction last as [|[k [lin lout]] r IH]; simpl; intros io H.
  - inversion H. constructor.
  - destruct (aget k ref) as [[rin rout]|]; [|apply IH; exact H].
    destruct (Z.leb rin lin && Z.leb rout lout); [|apply IH; exact H].
    destruct (io_rate (lin - rin) dur) as [a|]; simpl in H; [|discriminate].
    destruct (io_rate (lout - rout) dur) as [b|]; simpl in H; [|discriminate].
    destruct (io_statistics r ref dur) as [rest|]; simpl in H; [|discriminate].
    inversion H; subst. constructor; [reflexivity | apply IH; reflexivity].
Qed.

Lemma io_statistics_keys : forall last ref dur io k, io_statistics last ref dur = Ok io ->
  In k (akeys io) ->
  exists lin lout rin rout, In (k, (lin, lout)) last /\ aget k ref = Some (rin, rout) /\ rin <= lin /\ rout <= lout.
Proof.
  intros last ref dur. induction last as [|[k0 [lin lout]] r IH]; simpl; intros io k H Hin.
  - inversion H; subst. contradiction.
  - assert (Hrec : forall io', io_statistics r ref dur = Ok io' -> In k (akeys io') ->
       exists lin0 lout0 rin rout, (((k0, (lin, lout)) = (k, (lin0, lout0))) \/ In (k, (lin0, lout0)) r)
         /\ aget k ref = Some (rin, rout) /\ rin <= lin0 /\ rout <= lout0).
    { intros io' H' Hin'. destruct (IH io' k H' Hin') as [a [b [c [e [H1 H2]]]]].
      exists a, b, c, e. split; [right; exact H1 | exact H2]. }
    destruct (aget k0 ref) as [[rin rout]|] eqn:Eref; [|apply (Hrec io); assumption].
    destruct (Z.leb rin lin && Z.leb rout lout) eqn:Emono; [|apply (Hrec io); assumption].
    destruct (io_rate (lin - rin) dur) as [a|]; simpl in H; [|discriminate].
    destruct (io_rate (lout - rout) dur) as [b|]; simpl in H; [|discriminate].
    destruct (io_statistics r ref dur) as [rest|] eqn:Erest; simpl in H; [|discriminate].
    inversion H; subst. simpl in Hin. destruct Hin as [Hk | Hin].
    + subst k0. apply andb_prop in Emono. destruct Emono as [E1 E2].
      apply Z.leb_le in E1. apply Z.leb_le in E2.
      exists lin, lout, rin, rout. split; [left; reflexivity | split; [exact Eref | split; assumption]].
    + apply (Hrec rest); [reflexivity | exact Hin].
Qed.

(* ------------------------------------------------------------------ HostStatisticsInstance *)
Lemma push_cpu_length : forall d lists vals, length (fst (push_cpu d lists vals)) = length lists.
Proof.
  intros d lists. induction lists as [|l r IH]; intros vals; simpl; [reflexivity|].
  destruct vals as [|v vs]; simpl; [reflexivity | rewrite IH; reflexivity].
Qed.

Lemma push_cpu_bounded : forall d lists vals, 0 <= d ->
  Forall (fun l : list float => zlen l <= d) lists ->
  Forall (fun l : list float => zlen l <= d) (fst (push_cpu d lists vals)).
Proof.
  intros d lists. induction lists as [|l r IH]; intros vals Hd H; simpl; [constructor|].
  inversion H as [|x xs Hl Hr]; subst. destruct vals as [|v vs]; simpl; [exact H|].
  constructor; [apply push_trunc_bounded; exact Hd | apply IH; assumption].
Qed.

Lemma push_cpu_no_crash : forall d lists vals, (length lists <= length vals)%nat -> snd (push_cpu d lists vals) = false.
Proof.
  intros d lists. induction lists as [|l r IH]; intros vals H; simpl; [reflexivity|].
  destruct vals as [|v vs]; simpl in *; [lia | apply IH; lia].
Qed.

Lemma push_cpu_crash : forall d lists vals, (length vals < length lists)%nat -> snd (push_cpu d lists vals) = true.
Proof.
  intros d lists. induction lists as [|l r IH]; intros vals H; simpl in *; [lia|].
  destruct vals as [|v vs]; simpl in *; [reflexivity | apply IH; lia].
Qed.

Lemma push_cpu_aligned : forall d (times : list float) u lists vals,
  snd (push_cpu d lists vals) = false ->
  Forall (fun l : list float => length l = length times) lists ->
  Forall (fun l : list float => length l = length (push_trunc d times u)) (fst (push_cpu d lists vals)).
Proof.
  intros d times u lists. induction lists as [|l r IH]; intros vals Hc H; simpl; [constructor|].
  inversion H as [|x xs Hl Hr]; subst. destruct vals as [|v vs]; simpl in *; [discriminate|].
  constructor; [apply push_trunc_same_length; exact Hl | apply IH; assumption].
Qed.

Lemma zip_with_length : forall A B C (f : A -> B -> C) a b, length (zip_with f a b) = Nat.min (length a) (length b).
Proof.
  intros A B C f a. induction a as [|x a IH]; intros b; destruct b as [|y b]; simpl; try reflexivity.
  rewrite IH. reflexivity.
Qed.

(* --- timed histories of an instance: ALIGNED for every sample, every depth, every period --- *)
Definition h_timed_aligned (h : hinst) : Prop :=
  thist_aligned 2 (h_net h) /\ thist_aligned 2 (h_disk h) /\ thist_aligned 1 (h_usage h).

Lemma init_hist_aligned : forall V (l : alist V) vals ar,
  length vals = ar -> Forall (fun x : list float => length x = 0%nat) vals ->
  thist_aligned ar (map (fun kv : Z * V => (fst kv, ([], vals))) l).
Proof.
  intros V l vals ar Har Hv. unfold thist_aligned, AllV. apply Forall_map. apply Forall_forall. intros x _.
  simpl. split; [exact Har | exact Hv].
Qed.

Lemma host_integrate_arity : forall h r s upt cpu mem net disk usage,
  host_integrate h r s = Ok (upt, cpu, mem, net, disk, usage) ->
  io_arity 2 net /\ io_arity 2 disk /\ io_arity 1 usage.
Proof.
  intros h r s upt cpu mem net disk usage H. unfold host_integrate in H.
  destruct (io_statistics (s_net s) (s_net r) _) as [n|] eqn:En; simpl in H; [|discriminate].
  destruct (io_statistics (s_disk s) (s_disk r) _) as [dk|] eqn:Ed; simpl in H; [|discriminate].
  inversion H; subst. split; [eapply io_statistics_arity; exact En|].
  split; [eapply io_statistics_arity; exact Ed|].
  unfold io_arity, AllV. apply Forall_map. apply Forall_forall. intros x _. reflexivity.
Qed.

Lemma host_push_timed_aligned : forall h s, h_timed_aligned h -> h_timed_aligned (fst (host_push h s)).
Proof.
  intros h s [Hn [Hd Hu]]. unfold host_push.
  destruct (h_ref h) as [r|].
  - destruct (gate _ _ _); [|split; [|split]; assumption].
    destruct (host_integrate h r s) as [[[[[[upt cpu] mem] net] disk] usage]|] eqn:Ei;
      [|split; [|split]; assumption].
    destruct (host_integrate_arity _ _ _ _ _ _ _ _ _ Ei) as [An [Ad Au]].
    destruct (Z.ltb (h_depth h) 0); [split; [|split]; assumption|].
    destruct (snd (push_cpu _ _ _)); [split; [|split]; assumption|].
    simpl. split; [|split]; apply push_timed_aligned; assumption.
  - simpl. split; [|split]; apply init_hist_aligned; try reflexivity; repeat constructor.
Qed.

(* --- BOUNDED --- *)
Definition h_core_bounded (h : hinst) : Prop :=
  zlen (h_times h) <= h_depth h /\ zlen (h_mem h) <= h_depth h
  /\ Forall (fun l : list float => zlen l <= h_depth h) (h_cpu h).
Definition h_timed_bounded (h : hinst) : Prop :=
  thist_bounded (h_depth h) (h_net h) /\ thist_bounded (h_depth h) (h_disk h)
  /\ thist_bounded (h_depth h) (h_usage h).

Lemma host_push_depth : forall h s, h_depth (fst (host_push h s)) = h_depth h.
Proof.
  intros h s. unfold host_push. destruct (h_ref h) as [r|]; [|reflexivity].
  destruct (gate _ _ _); [|reflexivity].
  destruct (host_integrate h r s) as [[[[[[upt cpu] mem] net] disk] usage]|]; [|reflexivity].
  destruct (Z.ltb (h_depth h) 0); [reflexivity|].
  destruct (snd (push_cpu _ _ _)); reflexivity.
Qed.

Lemma host_push_period : forall h s, h_period (fst (host_push h s)) = h_period h.
Proof.
  intros h s. unfold host_push. destruct (h_ref h) as [r|]; [|reflexivity].
  destruct (gate _ _ _); [|reflexivity].
  destruct (host_integrate h r s) as [[[[[[upt cpu] mem] net] disk] usage]|]; [|reflexivity].
  destruct (Z.ltb (h_depth h) 0); [reflexivity|].
  destruct (snd (push_cpu _ _ _)); reflexivity.
Qed.

Lemma host_push_core_bounded : forall h s, 0 <= h_depth h ->
  h_core_bounded h -> h_core_bounded (fst (host_push h s)).
Proof.
  intros h s Hd [Ht [Hm Hc]]. unfold host_push.
  destruct (h_ref h) as [r|].
  - destruct (gate _ _ _); [|split; [|split]; assumption].
    destruct (host_integrate h r s) as [[[[[[upt cpu] mem] net] disk] usage]|];
      [|split; [|split]; assumption].
    destruct (Z.ltb (h_depth h) 0) eqn:El; [apply Z.ltb_lt in El; lia|].
    destruct (snd (push_cpu _ _ _)); unfold h_core_bounded; simpl.
    + split; [apply push_trunc_bounded; exact Hd|]. split; [exact Hm|]. apply push_cpu_bounded; assumption.
    + split; [apply push_trunc_bounded; exact Hd|]. split; [apply push_trunc_bounded; exact Hd|].
      apply push_cpu_bounded; assumption.
  - unfold h_core_bounded. simpl. split; [exact Ht|]. split; [exact Hm|].
    apply Forall_map. apply Forall_forall. intros x _. unfold zlen. simpl. exact Hd.
Qed.

Lemma init_hist_bounded : forall V (l : alist V) vals d, 0 <= d ->
  Forall (fun x : list float => zlen x <= d) vals ->
  thist_bounded d (map (fun kv : Z * V => (fst kv, ([], vals))) l).
Proof.
  intros V l vals d Hd Hv. unfold thist_bounded, AllV. apply Forall_map. apply Forall_forall. intros x _.
  simpl. split; [unfold zlen; simpl; exact Hd | exact Hv].
Qed.

Lemma host_push_timed_bounded : forall h s, 1 <= h_depth h ->
  h_timed_bounded h -> h_timed_bounded (fst (host_push h s)).
Proof.
  intros h s Hd [Hn [Hk Hu]]. unfold host_push.
  destruct (h_ref h) as [r|].
  - destruct (gate _ _ _); [|split; [|split]; assumption].
    destruct (host_integrate h r s) as [[[[[[upt cpu] mem] net] disk] usage]|];
      [|split; [|split]; assumption].
    destruct (Z.ltb (h_depth h) 0); [split; [|split]; assumption|].
    destruct (snd (push_cpu _ _ _)); [split; [|split]; assumption|].
    unfold h_timed_bounded. simpl. split; [|split]; apply push_timed_bounded; assumption.
  - unfold h_timed_bounded. simpl.
    split; [|split]; apply init_hist_bounded; try lia; repeat constructor; unfold zlen; simpl; lia.
Qed.

(* --- ALIGNED times / mem / cpu, while no sample has fewer CPU entries than the lists created --- *)
Definition h_core_aligned (h : hinst) : Prop :=
  length (h_mem h) = length (h_times h)
  /\ Forall (fun l : list float => length l = length (h_times h)) (h_cpu h)
  /\ (h_depth h < 0 -> h_times h = [])
  /\ match h_ref h with
     | Some r => (length (h_cpu h) <= length (s_cpu r))%nat
     | None => h_times h = [] /\ h_mem h = []
     end.

(* H_cpu_count_not_shrinking, one step: the sample has at least as many CPU entries as the instance has lists *)
Definition cpu_count_ok (h : hinst) (s : hsample) : bool :=
  match h_ref h with
  | None => true
  | Some _ => Nat.leb (length (h_cpu h)) (length (s_cpu s))
  end.

Lemma host_push_cpu_length : forall h s, h_ref h <> None -> length (h_cpu (fst (host_push h s))) = length (h_cpu h).
Proof.
  intros h s Hr. unfold host_push. destruct (h_ref h) as [r|]; [|contradiction].
  destruct (gate _ _ _); [|reflexivity].
  destruct (host_integrate h r s) as [[[[[[upt cpu] mem] net] disk] usage]|]; [|reflexivity].
  destruct (Z.ltb (h_depth h) 0); [reflexivity|].
  destruct (snd (push_cpu _ _ _)); simpl; apply push_cpu_length.
Qed.

Lemma host_integrate_cpu : forall h r s upt cpu mem net disk usage,
  host_integrate h r s = Ok (upt, cpu, mem, net, disk, usage) -> cpu = cpu_statistics (s_cpu s) (s_cpu r).
Proof.
  intros h r s upt cpu mem net disk usage H. unfold host_integrate in H.
  destruct (io_statistics (s_net s) (s_net r) _) as [n|]; simpl in H; [|discriminate].
  destruct (io_statistics (s_disk s) (s_disk r) _) as [dk|]; simpl in H; [|discriminate].
  inversion H; subst. reflexivity.
Qed.

Lemma host_push_core_aligned : forall h s, cpu_count_ok h s = true ->
  h_core_aligned h -> h_core_aligned (fst (host_push h s)).
Proof.
  intros h s Hok [Hm [Hc [Hneg Hr]]]. unfold host_push. unfold cpu_count_ok in Hok.
  destruct (h_ref h) as [r|] eqn:Eref.
  - apply Nat.leb_le in Hok.
    assert (Hsame : h_core_aligned h).
    { unfold h_core_aligned. rewrite Eref. repeat split; assumption. }
    destruct (gate _ _ _); [|exact Hsame].
    destruct (host_integrate h r s) as [[[[[[upt cpu] mem] net] disk] usage]|] eqn:Ei; [|exact Hsame].
    apply host_integrate_cpu in Ei.
    destruct (Z.ltb (h_depth h) 0) eqn:El.
    + apply Z.ltb_lt in El. specialize (Hneg El). unfold h_core_aligned. simpl.
      rewrite Hneg in *. repeat split; try assumption.
    + apply Z.ltb_ge in El.
      assert (Hnc : snd (push_cpu (h_depth h) (h_cpu h) cpu) = false).
      { apply push_cpu_no_crash. subst cpu. unfold cpu_statistics. rewrite zip_with_length. lia. }
      rewrite Hnc. unfold h_core_aligned. simpl. split; [apply push_trunc_same_length; exact Hm|].
      split; [apply push_cpu_aligned; assumption|]. split; [intro; lia|].
      rewrite push_cpu_length. exact Hok.
  - destruct Hr as [Ht Hmm]. unfold h_core_aligned. simpl. rewrite Ht, Hmm. split; [reflexivity|].
    split; [apply Forall_map; apply Forall_forall; intros x _; reflexivity|].
    split; [intros _; reflexivity|]. rewrite map_length. lia.
Qed.

(* --- PERIOD GATE --- *)
Lemma host_period_gate : forall h s h' p, host_push h s = (h', HPoint p) ->
  exists r, h_ref h = Some r /\ gate (h_period h) (s_now s) (s_now r) = true /\ h_ref h' = Some s.
Proof.
  intros h s h' p. unfold host_push.
  destruct (h_ref h) as [r|]; [|intro H; inversion H].
  destruct (gate _ _ _) eqn:Eg; [|intro H; inversion H].
  destruct (host_integrate h r s) as [[[[[[upt cpu] mem] net] disk] usage]|]; [|intro H; inversion H].
  destruct (Z.ltb (h_depth h) 0); [intro H; inversion H|].
  destruct (snd (push_cpu _ _ _)); intro H; inversion H; subst.
  exists r. split; [reflexivity | split; [exact Eg | reflexivity]].
Qed.

(* without a point the reference does not move (except for the very first sample), and HNone changes nothing *)
Lemma host_no_point_ref : forall h s h' o r, host_push h s = (h', o) -> h_ref h = Some r ->
  (forall p, o <> HPoint p) -> h_ref h' = Some r.
Proof.
  intros h s h' o r. unfold host_push. intros H Hr Hnp. rewrite Hr in H.
  destruct (gate _ _ _); [|inversion H; subst; exact Hr].
  destruct (host_integrate h r s) as [[[[[[upt cpu] mem] net] disk] usage]|]; [|inversion H; subst; exact Hr].
  destruct (Z.ltb (h_depth h) 0); [inversion H; subst; simpl; reflexivity|].
  destruct (snd (push_cpu _ _ _)); inversion H; subst; simpl; [reflexivity|].
  exfalso. eapply Hnp. reflexivity.
Qed.

Lemma host_none_unchanged : forall h s h' r, host_push h s = (h', HNone) -> h_ref h = Some r -> h' = h.
Proof.
  intros h s h' r. unfold host_push. intros H Hr. rewrite Hr in H.
  destruct (gate _ _ _); [|inversion H; reflexivity].
  destruct (host_integrate h r s) as [[[[[[upt cpu] mem] net] disk] usage]|]; [|inversion H].
  destruct (Z.ltb (h_depth h) 0); [inversion H|].
  destruct (snd (push_cpu _ _ _)); inversion H.
Qed.

Lemma host_first_sample : forall h s, h_ref h = None ->
  snd (host_push h s) = HNone /\ h_ref (fst (host_push h s)) = Some s.
Proof. intros h s Hr. unfold host_push. rewrite Hr. simpl. split; reflexivity. Qed.

(* a wrapped counter (or a key absent from the reference) yields no point and its history is dropped *)
Lemma host_wrapped_dropped : forall h s h' upt cpu mem net disk usage r k,
  host_push h s = (h', HPoint (upt, cpu, mem, net, disk, usage)) -> h_ref h = Some r ->
  wrapped (s_net s) (s_net r) k = true -> NoDup (akeys (s_net s)) ->
  ~ In k (akeys net) /\ ~ In k (akeys (h_net h')).
Proof.
  intros h s h' upt cpu mem net disk usage r k H Hr Hw Hnd.
  assert (Hnet : ~ In k (akeys net)).
  { unfold host_push in H. rewrite Hr in H.
    destruct (gate _ _ _); [|inversion H].
    destruct (host_integrate h r s) as [[[[[[upt' cpu'] mem'] net'] disk'] usage']|] eqn:Ei; [|inversion H].
    assert (net' = net).
    { destruct (Z.ltb (h_depth h) 0); [inversion H|]. destruct (snd (push_cpu _ _ _)); inversion H; reflexivity. }
    subst net'. unfold host_integrate in Ei.
    destruct (io_statistics (s_net s) (s_net r) _) as [n|] eqn:En; simpl in Ei; [|discriminate].
    destruct (io_statistics (s_disk s) (s_disk r) _) as [dk|]; simpl in Ei; [|discriminate].
    inversion Ei; subst. intro Hin.
    destruct (io_statistics_keys _ _ _ _ _ En Hin) as [lin [lout [rin [rout [Hl [Hg [H1 H2]]]]]]].
    unfold wrapped in Hw.
    assert (Hget : aget k (s_net s) = Some (lin, lout)).
    { clear - Hl Hnd. induction (s_net s) as [|[k' v'] l IH]; simpl in *; [contradiction|].
      inversion Hnd as [|x xs Hnin Hnd']; subst. destruct Hl as [Hl | Hl].
      - inversion Hl; subst. rewrite Z.eqb_refl. reflexivity.
      - destruct (Z.eqb k k') eqn:Ek.
        + apply Z.eqb_eq in Ek. subst k'. exfalso. apply Hnin. apply in_map_iff. exists (k, (lin, lout)).
          split; [reflexivity | exact Hl].
        + apply IH; assumption. }
    rewrite Hget, Hg in Hw. apply negb_true_iff in Hw. apply andb_false_iff in Hw.
    destruct Hw as [Hw | Hw]; apply Z.leb_gt in Hw; lia. }
  split; [exact Hnet|].
  unfold host_push in H. rewrite Hr in H.
  destruct (gate _ _ _); [|inversion H].
  destruct (host_integrate h r s) as [[[[[[upt' cpu'] mem'] net'] disk'] usage']|]; [|inversion H].
  destruct (Z.ltb (h_depth h) 0); [inversion H|]. destruct (snd (push_cpu _ _ _)); inversion H; subst.
  simpl. intro Hin. apply Hnet. eapply push_timed_keys. exact Hin.
Qed.

(* ------------------------------------------------------------------ streams (fold over any list of samples) *)
Definition host_run (h : hinst) (ss : list hsample) : hinst := fold_left (fun h s => fst (host_push h s)) ss h.

Lemma host_run_depth : forall ss h, h_depth (host_run h ss) = h_depth h.
Proof.
  induction ss as [|s r IH]; intro h; simpl; [reflexivity|]. unfold host_run in *. simpl.
  rewrite IH. apply host_push_depth.
Qed.

Theorem host_run_timed_aligned : forall ss h, h_timed_aligned h -> h_timed_aligned (host_run h ss).
Proof.
  induction ss as [|s r IH]; intros h H; [exact H|]. apply IH. apply host_push_timed_aligned. exact H.
Qed.

Theorem host_run_core_bounded : forall ss h, 0 <= h_depth h -> h_core_bounded h -> h_core_bounded (host_run h ss).
Proof.
  induction ss as [|s r IH]; intros h Hd H; [exact H|]. apply IH.
  - rewrite host_push_depth. exact Hd.
  - apply host_push_core_bounded; assumption.
Qed.

Theorem host_run_timed_bounded : forall ss h, 1 <= h_depth h -> h_timed_bounded h -> h_timed_bounded (host_run h ss).
Proof.
  induction ss as [|s r IH]; intros h Hd H; [exact H|]. apply IH.
  - rewrite host_push_depth. exact Hd.
  - apply host_push_timed_bounded; assumption.
Qed.

(* H_cpu_count_not_shrinking over a stream: no sample has fewer CPU entries than the first one *)
Definition cpu_never_shrinks (ss : list hsample) : Prop :=
  match ss with
  | [] => True
  | s0 :: r => Forall (fun s => (length (s_cpu s0) <= length (s_cpu s))%nat) r
  end.

Lemma host_run_core_aligned_from : forall ss h n,
  h_ref h <> None -> length (h_cpu h) = n -> Forall (fun s => (n <= length (s_cpu s))%nat) ss ->
  h_core_aligned h -> h_core_aligned (host_run h ss).
Proof.
  induction ss as [|s r IH]; intros h n Hr Hn Hall H; [exact H|].
  inversion Hall as [|x xs Hs Hrest]; subst. unfold host_run. simpl. apply (IH _ (length (h_cpu h))).
  - destruct (h_ref h) as [r0|] eqn:E; [|contradiction].
    destruct (host_push h s) as [h' o] eqn:Ep. simpl.
    destruct o as [|p|k].
    + rewrite (host_none_unchanged _ _ _ _ Ep E). rewrite E. discriminate.
    + destruct (host_period_gate _ _ _ _ Ep) as [r1 [_ [_ H1]]]. rewrite H1. discriminate.
    + rewrite (host_no_point_ref _ _ _ _ _ Ep E); [discriminate | intros p Hp; discriminate].
  - apply host_push_cpu_length. exact Hr.
  - exact Hrest.
  - apply host_push_core_aligned; [|exact H]. unfold cpu_count_ok.
    destruct (h_ref h); [apply Nat.leb_le; exact Hs | reflexivity].
Qed.

Theorem host_run_core_aligned : forall ss period depth,
  cpu_never_shrinks ss -> h_core_aligned (host_run (hinst_init period depth) ss).
Proof.
  intros ss period depth H. destruct ss as [|s0 r].
  - simpl. unfold h_core_aligned. simpl. repeat split; try reflexivity; constructor.
  - unfold host_run. cbn [fold_left].
    apply (host_run_core_aligned_from r (fst (host_push (hinst_init period depth) s0)) (length (s_cpu s0))).
    + simpl. discriminate.
    + simpl. apply map_length.
    + exact H.
    + apply host_push_core_aligned; [reflexivity|]. unfold h_core_aligned. simpl.
      repeat split; try reflexivity; constructor.
Qed.

(* ------------------------------------------------------------------ from the invariants to the Spec_C20 predicates *)
Lemma forallb_map_eq : forall A B (f : B -> bool) (g : A -> B) l, forallb f (map g l) = forallb (fun x => f (g x)) l.
Proof. intros A B f g l. induction l as [|x r IH]; simpl; [reflexivity | rewrite IH; reflexivity]. Qed.

Lemma forallb_Forall : forall A (P : A -> Prop) (f : A -> bool) l,
  (forall x, P x -> f x = true) -> Forall P l -> forallb f l = true.
Proof.
  intros A P f l Hpf H. induction H as [|x r Hx Hr IH]; simpl; [reflexivity|].
  rewrite (Hpf x Hx), IH. reflexivity.
Qed.

Lemma thist_bounded_shape : forall d h, thist_bounded d h -> bounded_tshape d (tshape_of h) = true.
Proof.
  intros d h H. unfold bounded_tshape, tshape_of. rewrite forallb_map_eq.
  eapply forallb_Forall; [|exact H]. intros [k [upt vals]] [Hu Hv]. simpl in *.
  apply andb_true_intro. split; [apply Z.leb_le; exact Hu|].
  unfold zall. rewrite forallb_map_eq. eapply forallb_Forall; [|exact Hv].
  intros l Hl. apply Z.leb_le. exact Hl.
Qed.

Lemma thist_aligned_shape : forall ar h, thist_aligned ar h -> aligned_tshape (tshape_of h) = true.
Proof.
  intros ar h H. unfold aligned_tshape, tshape_of. rewrite forallb_map_eq.
  eapply forallb_Forall; [|exact H]. intros [k [upt vals]] [_ Hv]. simpl in *.
  unfold zall. rewrite forallb_map_eq. eapply forallb_Forall; [|exact Hv].
  intros l Hl. apply Z.eqb_eq. unfold zlen. rewrite Hl. reflexivity.
Qed.

Lemma core_bounded_shape : forall h, h_core_bounded h -> bounded_core (h_depth h) (hshape_of h) = true.
Proof.
  intros h [Ht [Hm Hc]]. unfold bounded_core, hshape_of.
  apply andb_true_intro. split; [apply andb_true_intro; split; apply Z.leb_le; assumption|].
  unfold zall. rewrite forallb_map_eq. eapply forallb_Forall; [|exact Hc].
  intros l Hl. apply Z.leb_le. exact Hl.
Qed.

Lemma timed_bounded_shape : forall h, h_timed_bounded h -> bounded_timed (h_depth h) (hshape_of h) = true.
Proof.
  intros h [Hn [Hd Hu]]. unfold bounded_timed, hshape_of.
  rewrite !thist_bounded_shape by assumption. reflexivity.
Qed.

Lemma timed_aligned_shape : forall h, h_timed_aligned h -> aligned_timed (hshape_of h) = true.
Proof.
  intros h [Hn [Hd Hu]]. unfold aligned_timed, hshape_of.
  rewrite (thist_aligned_shape _ _ Hn), (thist_aligned_shape _ _ Hd), (thist_aligned_shape _ _ Hu). reflexivity.
Qed.

Lemma core_aligned_shape : forall h, h_core_aligned h -> aligned_core (hshape_of h) = true.
Proof.
  intros h [Hm [Hc _]]. unfold aligned_core, hshape_of.
  apply andb_true_intro. split; [apply Z.eqb_eq; unfold zlen; rewrite Hm; reflexivity|].
  unfold zall. rewrite forallb_map_eq. eapply forallb_Forall; [|exact Hc].
  intros l Hl. apply Z.eqb_eq. unfold zlen. rewrite Hl. reflexivity.
Qed.

(* the initial instance satisfies every invariant *)
Lemma init_core_bounded : forall p d, 0 <= d -> h_core_bounded (hinst_init p d).
Proof. intros p d Hd. unfold h_core_bounded, zlen. simpl. repeat split; try exact Hd. constructor. Qed.
Lemma init_timed_bounded : forall p d, h_timed_bounded (hinst_init p d).
Proof. intros p d. unfold h_timed_bounded. simpl. repeat split; constructor. Qed.
Lemma init_timed_aligned : forall p d, h_timed_aligned (hinst_init p d).
Proof. intros p d. unfold h_timed_aligned. simpl. repeat split; constructor. Qed.

(* ---------- property-level statements for one HostStatisticsInstance, any stream ---------- *)
Theorem host_bounded : forall period depth ss, 1 <= depth ->
  bounded_hshape depth (hshape_of (host_run (hinst_init period depth) ss)) = true.
Proof.
  intros period depth ss Hd. unfold bounded_hshape.
  assert (Hc : h_core_bounded (host_run (hinst_init period depth) ss)).
  { apply host_run_core_bounded; [simpl; lia | apply init_core_bounded; lia]. }
  assert (Ht : h_timed_bounded (host_run (hinst_init period depth) ss)).
  { apply host_run_timed_bounded; [simpl; exact Hd | apply init_timed_bounded]. }
  pose proof (host_run_depth ss (hinst_init period depth)) as Ed. simpl in Ed.
  set (h := host_run (hinst_init period depth) ss) in *. clearbody h. subst depth.
  rewrite core_bounded_shape, timed_bounded_shape by assumption. reflexivity.
Qed.

Theorem host_aligned_timed : forall period depth ss,
  aligned_timed (hshape_of (host_run (hinst_init period depth) ss)) = true.
Proof.
  intros period depth ss. apply timed_aligned_shape. apply host_run_timed_aligned. apply init_timed_aligned.
Qed.

Theorem host_aligned_core : forall period depth ss, cpu_never_shrinks ss ->
  aligned_core (hshape_of (host_run (hinst_init period depth) ss)) = true.
Proof. intros period depth ss H. apply core_aligned_shape. apply host_run_core_aligned. exact H. Qed.

(* ------------------------------------------------------------------ HostStatisticsCompiler *)
Definition hinst_ok (d : Z) (h : hinst) : Prop :=
  h_depth h = d /\ h_core_bounded h /\ h_timed_bounded h /\ h_timed_aligned h.

Lemma host_push_ok : forall d h s, 1 <= d -> hinst_ok d h -> hinst_ok d (fst (host_push h s)).
Proof.
  intros d h s Hd [Ed [Hc [Ht Ha]]]. subst d. split; [apply host_push_depth|].
  split; [apply host_push_core_bounded; [lia | exact Hc]|].
  split; [apply host_push_timed_bounded; assumption | apply host_push_timed_aligned; exact Ha].
Qed.

Lemma host_push_all_ok : forall d insts s, 1 <= d -> Forall (hinst_ok d) insts ->
  Forall (hinst_ok d) (fst (host_push_all insts s)).
Proof.
  intros d insts s Hd H. induction H as [|h r Hh Hr IH]; simpl; [constructor|].
  destruct (hout_is_crash (snd (host_push h s))); simpl.
  - constructor; [apply host_push_ok; assumption | exact Hr].
  - constructor; [apply host_push_ok; assumption | exact IH].
Qed.

Definition hcomp_ok (c : hcomp) : Prop := AllV (Forall (hinst_ok (hc_depth c))) (hc_map c).

Lemma hcomp_push_depth : forall c ident s, hc_depth (fst (hcomp_push c ident s)) = hc_depth c.
Proof.
  intros c ident s. unfold hcomp_push. cbv zeta.
  destruct (existsb hout_is_crash _); reflexivity.
Qed.

Lemma hcomp_push_ok : forall c ident s, 1 <= hc_depth c -> hcomp_ok c -> hcomp_ok (fst (hcomp_push c ident s)).
Proof.
  intros c ident s Hd H. unfold hcomp_push. cbv zeta.
  set (fresh := match aget ident (hc_map c) with Some (_ :: _) => false | _ => true end).
  set (c1 := if fresh then _ else c).
  assert (H1 : hcomp_ok c1 /\ hc_depth c1 = hc_depth c).
  { unfold c1. destruct fresh; [|split; [exact H | reflexivity]]. split; [|reflexivity].
    unfold hcomp_ok. simpl. apply AllV_aset; [exact H|].
    apply Forall_map. apply Forall_forall. intros p _. split; [reflexivity|].
    split; [apply init_core_bounded; lia|]. split; [apply init_timed_bounded | apply init_timed_aligned]. }
  destruct H1 as [H1 Ed1].
  assert (Hins : Forall (hinst_ok (hc_depth c))
                   (fst (host_push_all (match aget ident (hc_map c1) with Some l => l | None => [] end) s))).
  { apply host_push_all_ok; [exact Hd|]. destruct (aget ident (hc_map c1)) as [l|] eqn:E; [|constructor].
    rewrite <- Ed1. exact (AllV_aget _ _ _ _ _ H1 E). }
  destruct (existsb hout_is_crash _); unfold hcomp_ok; simpl; apply AllV_aset; try exact Hins;
    unfold hcomp_ok in H1; rewrite Ed1 in H1; exact H1.
Qed.

Definition hcomp_run (c : hcomp) (ops : list (Z * hsample)) : hcomp :=
  fold_left (fun c op => fst (hcomp_push c (fst op) (snd op))) ops c.

(* the fold used by the theorems is the run compared with the implementation (Stats.hrun) *)
Lemma hrun_is_hcomp_run : forall ops c, snd (hrun c ops) = hcomp_run c ops.
Proof.
  induction ops as [|[ident s] r IH]; intro c; simpl; [reflexivity|]. rewrite IH. reflexivity.
Qed.

Theorem hcomp_run_ok : forall ops c, 1 <= hc_depth c -> hcomp_ok c -> hcomp_ok (hcomp_run c ops).
Proof.
  induction ops as [|[ident s] r IH]; intros c Hd H; [exact H|]. unfold hcomp_run. simpl. apply IH.
  - rewrite hcomp_push_depth. exact Hd.
  - apply hcomp_push_ok; assumption.
Qed.

Lemma hcomp_run_depth : forall ops c, hc_depth (hcomp_run c ops) = hc_depth c.
Proof.
  induction ops as [|[ident s] r IH]; intro c; [reflexivity|]. unfold hcomp_run in *. simpl.
  rewrite IH. apply hcomp_push_depth.
Qed.

(* every history of every identifier and period: bounded by stats_histo and aligned (timed series) *)
Definition hcomp_shapes_ok (depth : Z) (c : hcomp) : bool :=
  forallb (fun e : Z * list hinst =>
    forallb (fun h => bounded_hshape depth (hshape_of h) && aligned_timed (hshape_of h)) (snd e)) (hc_map c).

Theorem hcomp_bounded_aligned : forall periods depth ops, 1 <= depth ->
  hcomp_shapes_ok depth (hcomp_run (hcomp_init periods depth) ops) = true.
Proof.
  intros periods depth ops Hd.
  assert (H : hcomp_ok (hcomp_run (hcomp_init periods depth) ops)).
  { apply hcomp_run_ok; [simpl; exact Hd | constructor]. }
  unfold hcomp_ok in H. rewrite hcomp_run_depth in H. simpl in H.
  unfold hcomp_shapes_ok. eapply forallb_Forall; [|exact H]. intros [k insts] Hi. cbn [snd] in *.
  eapply forallb_Forall; [|exact Hi]. intros h [Ed [Hc [Ht Ha]]]. subst depth.
  unfold bounded_hshape. rewrite core_bounded_shape, timed_bounded_shape, timed_aligned_shape by assumption.
  reflexivity.
Qed.

(* ------------------------------------------------------------------ ProcStatisticsInstance *)
Definition p_bounded (p : pinst) : Prop :=
  zlen (p_times p) <= p_depth p /\ zlen (p_cpu p) <= p_depth p /\ zlen (p_mem p) <= p_depth p.
Definition p_aligned (p : pinst) : Prop :=
  length (p_cpu p) = length (p_times p) /\ length (p_mem p) = length (p_times p).
(* depth, pid, bounded, aligned *)
Definition pinst_ok (d pid : Z) (p : pinst) : Prop :=
  p_depth p = d /\ p_pid p = pid /\ p_bounded p /\ p_aligned p.

Lemma proc_push_ok : forall d pid p s, 0 <= d -> pinst_ok d pid p -> pinst_ok d pid (fst (proc_push p s)).
Proof.
  intros d pid p s Hd [Ed [Ep [[Bt [Bc Bm]] [Ac Am]]]]. subst d. unfold proc_push.
  destruct (p_ref p) as [r|].
  - destruct (gate _ _ _); [|repeat split; assumption].
    destruct (fdiv _ _) as [pc|k]; [|repeat split; assumption].
    destruct (Z.ltb (p_depth p) 0) eqn:El; [apply Z.ltb_lt in El; lia|].
    unfold pinst_ok, p_bounded, p_aligned. simpl.
    repeat split; try assumption; try (apply push_trunc_bounded; exact Hd);
      apply push_trunc_same_length; assumption.
  - unfold pinst_ok, p_bounded, p_aligned. simpl. repeat split; assumption.
Qed.

Lemma proc_period_gate : forall p s p' c m t, proc_push p s = (p', PPoint c m t) ->
  exists r, p_ref p = Some r /\ gate (p_period p) (ps_now s) (ps_now r) = true /\ p_ref p' = Some s.
Proof.
  intros p s p' c m t. unfold proc_push.
  destruct (p_ref p) as [r|]; [|intro H; inversion H].
  destruct (gate _ _ _) eqn:Eg; [|intro H; inversion H].
  destruct (fdiv _ _) as [pc|k]; [|intro H; inversion H].
  destruct (Z.ltb (p_depth p) 0); intro H; inversion H; subst.
  exists r. split; [reflexivity | split; [exact Eg | reflexivity]].
Qed.

Lemma proc_none_unchanged : forall p s p' r, proc_push p s = (p', PNone) -> p_ref p = Some r -> p' = p.
Proof.
  intros p s p' r. unfold proc_push. intros H Hr. rewrite Hr in H.
  destruct (gate _ _ _); [|inversion H; reflexivity].
  destruct (fdiv _ _) as [pc|k]; [|inversion H].
  destruct (Z.ltb (p_depth p) 0); inversion H.
Qed.

(* the first sample of a fresh instance only becomes the reference: no point, empty histories *)
Definition pinst_fresh_after (pid : Z) (s : psample) (p : pinst) : Prop :=
  p_pid p = pid /\ p_times p = [] /\ p_cpu p = [] /\ p_mem p = [] /\ p_ref p = Some s.

Lemma proc_push_all_fresh : forall pid depth periods s,
  let insts := map (fun per => pinst_init pid per depth) periods in
  Forall (pinst_fresh_after pid s) (fst (proc_push_all insts s))
  /\ Forall (fun o => o = PNone) (snd (proc_push_all insts s))
  /\ length (fst (proc_push_all insts s)) = length periods.
Proof.
  intros pid depth periods s. induction periods as [|per r IH]; simpl.
  - repeat split; constructor.
  - destruct IH as [H1 [H2 H3]]. repeat split.
    + constructor; [repeat split; reflexivity | exact H1].
    + constructor; [reflexivity | exact H2].
    + simpl. rewrite H3. reflexivity.
Qed.

Lemma proc_push_all_ok : forall d pid insts s, 0 <= d -> Forall (pinst_ok d pid) insts ->
  Forall (pinst_ok d pid) (fst (proc_push_all insts s)).
Proof.
  intros d pid insts s Hd H. induction H as [|p r Hp Hr IH]; simpl; [constructor|].
  destruct (pout_is_crash (snd (proc_push p s))); simpl.
  - constructor; [apply proc_push_ok; assumption | exact Hr].
  - constructor; [apply proc_push_ok; assumption | exact IH].
Qed.

Lemma pinst_init_ok : forall d pid per, 0 <= d -> pinst_ok d pid (pinst_init pid per d).
Proof.
  intros d pid per Hd. unfold pinst_ok, p_bounded, p_aligned, zlen. simpl. repeat split; exact Hd.
Qed.

(* ------------------------------------------------------------------ ProcStatisticsHolder *)
(* every instance of an identifier carries the pid recorded for that identifier *)
Definition holder_ok (d : Z) (hd : holder) : Prop :=
  AllV (fun e : Z * list pinst => Forall (pinst_ok d (fst e)) (snd e)) hd.

Lemma holder_push_ok : forall periods d hd ident s, 0 <= d -> holder_ok d hd ->
  holder_ok d (fst (holder_push periods d hd ident s)).
Proof.
  intros periods d hd ident s Hd H. unfold holder_push. cbv zeta.
  destruct (Z.eqb (ps_pid s) 0); [simpl; apply AllV_adel; exact H|].
  set (cur := match aget ident hd with Some e => e | None => (0, []) end).
  set (restart := match snd cur with [] => true | _ => negb (Z.eqb (ps_pid s) (fst cur)) end).
  assert (Hcur : Forall (pinst_ok d (fst cur)) (snd cur)).
  { unfold cur. destruct (aget ident hd) as [e|] eqn:E; [exact (AllV_aget _ _ _ _ _ H E) | constructor]. }
  destruct restart; simpl.
  - apply AllV_aset.
    + apply AllV_aset; [exact H|]. simpl. apply Forall_map. apply Forall_forall. intros per _.
      apply pinst_init_ok. exact Hd.
    + simpl. apply proc_push_all_ok; [exact Hd|]. apply Forall_map. apply Forall_forall. intros per _.
      apply pinst_init_ok. exact Hd.
  - apply AllV_aset; [exact H|]. simpl. apply proc_push_all_ok; assumption.
Qed.

Lemma holder_push_nodup : forall periods d hd ident s, NoDup (akeys hd) ->
  NoDup (akeys (fst (holder_push periods d hd ident s))).
Proof.
  intros periods d hd ident s H. unfold holder_push. cbv zeta.
  destruct (Z.eqb (ps_pid s) 0); [simpl; apply nodup_adel; exact H|].
  destruct (match snd _ with [] => true | _ => _ end); simpl; repeat apply nodup_aset; exact H.
Qed.

(* stopped_process_dropped, holder level *)
Lemma holder_stopped_dropped : forall periods d hd ident s, NoDup (akeys hd) -> ps_pid s = 0 ->
  aget ident (fst (holder_push periods d hd ident s)) = None.
Proof.
  intros periods d hd ident s Hnd Hp. unfold holder_push. rewrite Hp. simpl.
  apply aget_adel_same. exact Hnd.
Qed.

(* pid_change_resets, holder level: unknown identifier or different pid -> fresh instances under the new pid *)
Definition pid_changed (hd : holder) (ident pid : Z) : Prop :=
  match aget ident hd with
  | None => True
  | Some (pid0, insts) => pid0 <> pid \/ insts = []
  end.

Lemma holder_pid_change_resets : forall periods d hd ident s,
  ps_pid s <> 0 -> pid_changed hd ident (ps_pid s) ->
  exists insts,
    aget ident (fst (holder_push periods d hd ident s)) = Some (ps_pid s, insts)
    /\ Forall (pinst_fresh_after (ps_pid s) s) insts
    /\ length insts = length (dedup_periods [] periods)
    /\ Forall (fun o => o = PNone) (snd (holder_push periods d hd ident s)).
Proof.
  intros periods d hd ident s Hp Hc. unfold holder_push. cbv zeta.
  destruct (Z.eqb (ps_pid s) 0) eqn:E0; [apply Z.eqb_eq in E0; contradiction|].
  set (cur := match aget ident hd with Some e => e | None => (0, []) end).
  assert (Hr : match snd cur with [] => true | _ => negb (Z.eqb (ps_pid s) (fst cur)) end = true).
  { unfold cur, pid_changed in *. destruct (aget ident hd) as [[pid0 insts]|]; simpl; [|reflexivity].
    destruct insts as [|i0 ir]; [reflexivity|]. destruct Hc as [Hc | Hc]; [|discriminate].
    apply negb_true_iff. apply Z.eqb_neq. intro Heq. apply Hc. symmetry. exact Heq. }
  rewrite Hr.
  destruct (proc_push_all_fresh (ps_pid s) d (dedup_periods [] periods) s) as [H1 [H2 H3]].
  eexists. split; [simpl; apply aget_aset_same|]. split; [exact H1|]. split; [exact H3 | exact H2].
Qed.

(* ------------------------------------------------------------------ ProcStatisticsCompiler *)
Definition pcomp_ok (c : pcomp) : Prop :=
  AllV (holder_ok (pc_depth c)) (pc_holders c)
  /\ NoDup (akeys (pc_holders c))
  /\ AllV (fun hd : holder => NoDup (akeys hd)) (pc_holders c).

Lemma pcomp_push_depth : forall c ident s, pc_depth (fst (pcomp_push c ident s)) = pc_depth c.
Proof.
  intros c ident s. unfold pcomp_push. cbv zeta.
  destruct (match aget _ _ with Some hd => Some hd | None => _ end) as [hd|]; [|reflexivity].
  destruct (existsb pout_is_crash _); reflexivity.
Qed.

Lemma pcomp_push_ok : forall c ident s, 0 <= pc_depth c -> pcomp_ok c -> pcomp_ok (fst (pcomp_push c ident s)).
Proof.
  intros c ident s Hd [Hh [Hn Hk]]. unfold pcomp_push. cbv zeta.
  set (ns := ps_namespec s).
  set (hd_opt := match aget ns (pc_holders c) with Some hd => Some hd | None => _ end).
  assert (Hhd : forall hd, hd_opt = Some hd -> holder_ok (pc_depth c) hd /\ NoDup (akeys hd)).
  { intros hd E. unfold hd_opt in E. destruct (aget ns (pc_holders c)) as [hd0|] eqn:Eg.
    - inversion E; subst. split; [exact (AllV_aget _ _ _ _ _ Hh Eg) | exact (AllV_aget _ _ _ _ _ Hk Eg)].
    - destruct (Z.ltb 0 (ps_pid s)); inversion E; subst. split; constructor. }
  destruct hd_opt as [hd|]; [|unfold pcomp_ok; simpl; repeat split; assumption].
  destruct (Hhd hd eq_refl) as [Hok Hnd].
  assert (H1 : AllV (holder_ok (pc_depth c))
                 (aset ns (fst (holder_push (pc_periods c) (pc_depth c) hd ident s)) (pc_holders c))).
  { apply AllV_aset; [exact Hh | apply holder_push_ok; assumption]. }
  assert (H2 : NoDup (akeys (aset ns (fst (holder_push (pc_periods c) (pc_depth c) hd ident s)) (pc_holders c)))).
  { apply nodup_aset. exact Hn. }
  assert (H3 : AllV (fun hd : holder => NoDup (akeys hd))
                 (aset ns (fst (holder_push (pc_periods c) (pc_depth c) hd ident s)) (pc_holders c))).
  { apply AllV_aset; [exact Hk | apply holder_push_nodup; exact Hnd]. }
  destruct (existsb pout_is_crash _); [unfold pcomp_ok; simpl; repeat split; assumption|].
  destruct (fst (holder_push (pc_periods c) (pc_depth c) hd ident s)) as [|e0 er] eqn:Eh;
    unfold pcomp_ok; simpl; repeat split; try assumption.
  - apply AllV_adel. exact H1.
  - apply nodup_adel. exact H2.
  - apply AllV_adel. exact H3.
Qed.

Definition pcomp_run (c : pcomp) (ops : list (Z * psample)) : pcomp :=
  fold_left (fun c op => fst (pcomp_push c (fst op) (snd op))) ops c.

Lemma prun_is_pcomp_run : forall ops c, snd (prun c ops) = pcomp_run c ops.
Proof.
  induction ops as [|[ident s] r IH]; intro c; simpl; [reflexivity|]. rewrite IH. reflexivity.
Qed.

Lemma pcomp_run_depth : forall ops c, pc_depth (pcomp_run c ops) = pc_depth c.
Proof.
  induction ops as [|[ident s] r IH]; intro c; [reflexivity|]. unfold pcomp_run in *. simpl.
  rewrite IH. apply pcomp_push_depth.
Qed.

Theorem pcomp_run_ok : forall ops c, 0 <= pc_depth c -> pcomp_ok c -> pcomp_ok (pcomp_run c ops).
Proof.
  induction ops as [|[ident s] r IH]; intros c Hd H; [exact H|]. unfold pcomp_run. simpl. apply IH.
  - rewrite pcomp_push_depth. exact Hd.
  - apply pcomp_push_ok; assumption.
Qed.

Lemma pcomp_init_ok : forall periods depth, pcomp_ok (pcomp_init periods depth).
Proof. intros. unfold pcomp_ok. simpl. repeat split; constructor. Qed.

(* bounded + aligned for every process history, in the vocabulary of Spec_C20 *)
Theorem pcomp_bounded_aligned : forall periods depth ops, 0 <= depth ->
  pshapes_ok depth (pcshape_of (pcomp_run (pcomp_init periods depth) ops)) = true.
Proof.
  intros periods depth ops Hd.
  destruct (pcomp_run_ok ops (pcomp_init periods depth) Hd (pcomp_init_ok _ _)) as [H _].
  rewrite pcomp_run_depth in H. simpl in H.
  unfold pshapes_ok. destruct (Z.leb 0 depth) eqn:E; [|reflexivity].
  unfold pcshape_of. rewrite forallb_map_eq. eapply forallb_Forall; [|exact H].
  intros [ns hd] Hh. cbn [snd fst] in *. rewrite forallb_map_eq. eapply forallb_Forall; [|exact Hh].
  intros [ident [pid insts]] Hi. cbn [snd fst] in *. rewrite forallb_map_eq. eapply forallb_Forall; [|exact Hi].
  intros p [Edp [_ [[Bt [Bc Bm]] [Ac Am]]]]. cbn [snd fst]. subst depth.
  unfold bounded_pshape, aligned_pshape, pshape_of.
  apply andb_true_intro. split.
  - apply andb_true_intro. split; [apply andb_true_intro; split|]; apply Z.leb_le; assumption.
  - apply andb_true_intro. split; apply Z.eqb_eq; unfold zlen; congruence.
Qed.

Lemma aget_map_vals : forall V W (f : V -> W) (l : alist V) k,
  aget k (map (fun e : Z * V => (fst e, f (snd e))) l) = option_map f (aget k l).
Proof.
  intros V W f l k. induction l as [|[k' v] r IH]; simpl; [reflexivity|].
  destruct (Z.eqb k k'); [reflexivity | exact IH].
Qed.

Lemma pshape_entry_of : forall c ns ident,
  pshape_entry (pcshape_of c) ns ident =
  match aget ns (pc_holders c) with
  | Some hd => match aget ident hd with
               | Some (pid, insts) => Some (pid, map (fun p => (p_pid p, pshape_of p)) insts)
               | None => None
               end
  | None => None
  end.
Proof.
  intros c ns ident. unfold pshape_entry, pcshape_of.
  induction (pc_holders c) as [|[k hd] r IH]; simpl; [reflexivity|].
  destruct (Z.eqb ns k); [|exact IH].
  induction hd as [|[i [pid insts]] r2 IH2]; simpl; [reflexivity|].
  destruct (Z.eqb ident i); [reflexivity | exact IH2].
Qed.

(* stopped_process_dropped: after a sample with pid 0 there is no history for (namespec, identifier) *)
Theorem pcomp_stopped_dropped : forall c ident s, pcomp_ok c -> ps_pid s = 0 ->
  pshape_entry (pcshape_of (fst (pcomp_push c ident s))) (ps_namespec s) ident = None.
Proof.
  intros c ident s [Hh [Hn Hk]] Hp.
  assert (Hgoal : match aget (ps_namespec s) (pc_holders (fst (pcomp_push c ident s))) with
                  | Some hd => aget ident hd = None
                  | None => True
                  end).
  { unfold pcomp_push. cbv zeta. rewrite Hp.
    destruct (aget (ps_namespec s) (pc_holders c)) as [hd|] eqn:Eg.
    - assert (Hnd : NoDup (akeys hd)) by exact (AllV_aget _ _ _ _ _ Hk Eg).
      unfold holder_push. rewrite Hp. simpl.
      destruct (adel ident hd) as [|e0 er] eqn:Ea; simpl.
      + rewrite aget_adel_same; [exact I | apply nodup_aset; exact Hn].
      + rewrite aget_aset_same. rewrite <- Ea. apply aget_adel_same. exact Hnd.
    - simpl. rewrite Eg. exact I. }
  rewrite pshape_entry_of.
  destruct (aget (ps_namespec s) (pc_holders (fst (pcomp_push c ident s)))) as [hd|]; [|reflexivity].
  rewrite Hgoal. reflexivity.
Qed.

Theorem pcomp_run_stopped_dropped : forall periods depth ops ident s, ps_pid s = 0 -> 0 <= depth ->
  pshape_entry (pcshape_of (fst (pcomp_push (pcomp_run (pcomp_init periods depth) ops) ident s)))
               (ps_namespec s) ident = None.
Proof.
  intros periods depth ops ident s Hp Hd. apply pcomp_stopped_dropped; [|exact Hp].
  apply pcomp_run_ok; [simpl; exact Hd | apply pcomp_init_ok].
Qed.

(* pid_change_resets: a sample under a pid > 0 that is not the recorded one (or for an identifier without
   history) leaves, for every distinct period, an EMPTY history under the new pid, and produces no point *)
Definition pcomp_pid_changed (c : pcomp) (ident : Z) (s : psample) : Prop :=
  match aget (ps_namespec s) (pc_holders c) with
  | Some hd => pid_changed hd ident (ps_pid s)
  | None => True
  end.

Theorem pcomp_pid_change_resets : forall c ident s, 0 < ps_pid s -> pcomp_pid_changed c ident s ->
  exists insts,
    pshape_entry (pcshape_of (fst (pcomp_push c ident s))) (ps_namespec s) ident = Some (ps_pid s, insts)
    /\ Forall (fun e => e = (ps_pid s, (0, 0, 0))) insts
    /\ length insts = length (dedup_periods [] (pc_periods c))
    /\ Forall (fun o => o = PNone) (snd (pcomp_push c ident s)).
Proof.
  intros c ident s Hp Hc. unfold pcomp_pid_changed in Hc. unfold pcomp_push. cbv zeta.
  set (ns := ps_namespec s) in *.
  assert (Hhd : exists hd, (match aget ns (pc_holders c) with
                           | Some hd => Some hd
                           | None => if Z.ltb 0 (ps_pid s) then Some [] else None
                           end) = Some hd /\ pid_changed hd ident (ps_pid s)).
  { destruct (aget ns (pc_holders c)) as [hd|]; [exists hd; split; [reflexivity | exact Hc]|].
    apply Z.ltb_lt in Hp. rewrite Hp. exists []. split; [reflexivity | exact I]. }
  destruct Hhd as [hd [Ehd Hch]]. rewrite Ehd.
  assert (Hne : ps_pid s <> 0) by lia.
  destruct (holder_pid_change_resets (pc_periods c) (pc_depth c) hd ident s Hne Hch) as [insts [Hg [Hf [Hl Ho]]]].
  set (ho := holder_push (pc_periods c) (pc_depth c) hd ident s) in *.
  assert (Hnc : existsb pout_is_crash (snd ho) = false).
  { clear - Ho. induction Ho as [|o r Hx Hr IH]; simpl; [reflexivity|]. subst o. exact IH. }
  rewrite Hnc.
  assert (Hnonempty : fst ho <> []). { intro E. rewrite E in Hg. discriminate. }
  destruct (fst ho) as [|e0 er] eqn:Eho; [contradiction|]. rewrite <- Eho in *.
  exists (map (fun p => (p_pid p, pshape_of p)) insts).
  rewrite pshape_entry_of. simpl. fold ns. rewrite aget_aset_same, Hg.
  split; [reflexivity|]. split.
  - apply Forall_map. eapply Forall_impl; [|exact Hf].
    intros p [E1 [E2 [E3 [E4 _]]]]. unfold pshape_of. rewrite E1, E2, E3, E4. reflexivity.
  - split; [rewrite map_length; exact Hl | exact Ho].
Qed.

(* ------------------------------------------------------------------ refutations and witnesses *)
Local Open Scope float_scope.

(* F25 (fixed in /repo): the OLD expression 100.0 * work / total leaves [0,100] for non-decreasing finite
   counters.  Kept as statements about cpu_pct_current, so that a regression to it is explained. *)
Definition f25_latest : jiffies := (0x1.baedf1e8837c2p+14, 0).
Definition f25_ref : jiffies := (0, 0).

Theorem old_expression_refuted :
  exists latest ref, counters_ok latest ref = true
                     /\ cpu_in_range (cpu_one_with cpu_pct_current latest ref) = false.
Proof. exists f25_latest, f25_ref. vm_compute. split; reflexivity. Qed.

(* ... and overflows to +infinity when 100.0 * work does (work >= 1.8e306) *)
Theorem old_expression_refuted_overflow :
  exists latest ref, counters_ok latest ref = true
                     /\ f_is_finite (cpu_one_with cpu_pct_current latest ref) = false.
Proof. exists (0x1p+1020, 0), (0, 0). vm_compute. split; reflexivity. Qed.

(* the same inputs with the expression of the model (= /repo since the fix) *)
Example cpu_model_on_old_witnesses :
  cpu_one f25_latest f25_ref = 0x1.9p+6 /\ cpu_one (0x1p+1020, 0) (0, 0) = 0x1.9p+6.
Proof. vm_compute. split; reflexivity. Qed.

(* cpu_process_statistics (module-level function, not called by the statistics classes) still has the
   shape 100.0 * (latest - ref) / host_work: one ulp above 100 when the process work equals the host work *)
Theorem cpu_process_statistics_refuted :
  exists latest ref host v, proc_counters_ok latest ref host = true
    /\ cpu_process_statistics latest ref host = Ok v /\ cpu_in_range v = false.
Proof.
  exists 0x1.baedf1e8837c2p+14, 0, 0x1.baedf1e8837c2p+14, 0x1.9000000000001p+6.
  vm_compute. repeat split; reflexivity.
Qed.

Definition hs (now : float) (cpu : list jiffies) (net : alist counters) : hsample := mkHS now cpu 1 net [] [].

(* F24: a sample with fewer CPU entries than the first one: IndexError, and times is one longer for ever *)
Definition f24_stream : list hsample :=
  [hs 0 [(0, 0); (0, 0)] []; hs 5 [(1, 1); (1, 1)] []; hs 10 [(2, 2)] []; hs 15 [(3, 3); (3, 3)] []].

Theorem aligned_core_refuted :
  exists period depth ss,
    aligned_core (hshape_of (host_run (hinst_init period depth) ss)) = false
    /\ snd (host_push (host_run (hinst_init period depth) (firstn 2 ss)) (nth 2 ss (hs 0 [] []))) = HCrash IndexError.
Proof. exists 5, 10%Z, f24_stream. vm_compute. split; reflexivity. Qed.

(* the hypothesis of host_aligned_core is satisfiable on a stream that produces points *)
Example cpu_never_shrinks_example :
  cpu_never_shrinks (firstn 2 f24_stream)
  /\ hshape_of (host_run (hinst_init 5 10%Z) (firstn 2 f24_stream)) = (1, 1, [1; 1], [], [], [])%Z.
Proof. split; [repeat constructor | vm_compute; reflexivity]. Qed.

(* depth 0: a key that appears gets one point although the depth is 0 (bounded needs 1 <= depth) *)
Theorem bounded_depth0_refuted :
  exists period ss, bounded_hshape 0 (hshape_of (host_run (hinst_init period 0%Z) ss)) = false.
Proof.
  exists 1, [hs 1 [] []; hs 3 [] [(1%Z, (1%Z, 1%Z))]; hs 5 [] [(1%Z, (2%Z, 2%Z))]].
  vm_compute. reflexivity.
Qed.

(* negative depth: process histories grow without bound and are misaligned (aligned needs 0 <= depth) *)
Theorem proc_negative_depth_refuted :
  exists period ops,
    pshapes_ok 0 (pcshape_of (pcomp_run (pcomp_init [period] (-1)%Z) ops)) = false.
Proof.
  exists 1, [(1%Z, mkPS 1 7 1 1 2 None); (1%Z, mkPS 1 7 3 2 2 None); (1%Z, mkPS 1 7 5 3 2 None)].
  vm_compute. reflexivity.
Qed.

(* a stream with appearance, wrap and disappearance of an interface, on which every theorem applies *)
Example timed_stream_example :
  let ss := [hs 0 [(0, 0)] [(1%Z, (10%Z, 10%Z))];
             hs 5 [(1, 1)] [(1%Z, (20%Z, 20%Z)); (2%Z, (5%Z, 5%Z))];
             hs 10 [(2, 2)] [(1%Z, (3%Z, 30%Z)); (2%Z, (6%Z, 6%Z))];
             hs 15 [(3, 3)] [(1%Z, (4%Z, 40%Z)); (2%Z, (7%Z, 7%Z))];
             hs 20 [(4, 4)] [(1%Z, (5%Z, 50%Z))]] in
  map (fun n => hshape_of (host_run (hinst_init 5 2%Z) (firstn n ss))) [2; 3; 4; 5]%nat
  = [ (1, 1, [1], [(1, (1, [1; 1]))], [], []);
      (2, 2, [2], [(2, (1, [1; 1]))], [], []);
      (2, 2, [2], [(2, (2, [2; 2])); (1, (1, [1; 1]))], [], []);
      (2, 2, [2], [(1, (2, [2; 2]))], [], []) ]%Z.
Proof. vm_compute. reflexivity. Qed.

(* pid change and stop on the compiler *)
Example proc_stream_example :
  let ops := [(1%Z, mkPS 1 7 0 1 2 None); (1%Z, mkPS 1 7 5 2 2 None); (1%Z, mkPS 1 8 10 0 2 None);
              (1%Z, mkPS 1 8 15 1 2 None); (1%Z, mkPS 1 0 20 0 0 None)] in
  map (fun n => pcshape_of (pcomp_run (pcomp_init [5] 3%Z) (firstn n ops))) [2; 3; 4; 5]%nat
  = [ [(1, [(1, (7, [(7, (1, 1, 1))]))])];
      [(1, [(1, (8, [(8, (0, 0, 0))]))])];
      [(1, [(1, (8, [(8, (1, 1, 1))]))])];
      [] ]%Z.
Proof. vm_compute. reflexivity. Qed.
